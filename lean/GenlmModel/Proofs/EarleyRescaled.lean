import GenlmModel.Model.EarleyRescaled
import GenlmModel.Proofs.EarleyRescaledPredict
import GenlmModel.Proofs.EarleyQ
import GenlmModel.Proofs.LmLink
import Mathlib.Algebra.Field.Basic
import Mathlib.Algebra.BigOperators.Group.List.Basic

/-!
# The rescaled Earley parser (`genlm/grammar/parse/earley_rescaled.py`, model `Model/EarleyRescaled.lean`)

C02 ("the rescaled Earley parser returns the derivation sum") and C04 ("long contexts … for the rescaled variant").
Everything is over a field `K` (the code divides); `pick` is the pop function of the agenda as in
`Proofs/EarleyQ.lean`; the plain parser is `earleyChartQ`/`earleyCallQ` (`Model/EarleyQ.lean`).

Notation: `ρ k = cols[k].rescale` (`runRho`), `prefProd ρ k = ∏_{j<k} ρ j`,
`spanP ρ I k = prefProd ρ k / prefProd ρ I` (`= ∏_{I ≤ j < k} ρ j` for `I ≤ k`: `spanP_eq_prod`).

* (a) `earleyRescaled_invariant`, `earleyRescaled_items` — **the scaling invariant, by span**: for *any* policy of
  choosing the coefficients and any initial coefficient, if no coefficient of the run is zero, column `k` of the
  rescaled chart has exactly the keys of column `k` of the plain chart, in the same order, and the item
  `(I, X, β)` / `(I, X)` holds the plain value times `ρ I · … · ρ (k-1)`.  (SCAN multiplies by the coefficient of
  the column it leaves, ATTACH multiplies two spans that abut, PREDICT starts an empty span.)
* (b) `earleyRCallQ_eq_plain` — `__call__` (division by `rescale(cols, 0, N) = ρ 0 ⋯ ρ (N-1)`) returns the plain
  parser's value; `earleyRescaled_const_correct` (arbitrary prescribed non-zero `ρ`) and `earleyRescaled_correct`
  (the code's coefficients, **no viability hypothesis**: `rescaleChoice_ne_zero`) — it is `WN G n G.S x`.
* (c) `earleyRescaled_ntw_raw` — the loops of `next_token_weights` return the plain chart times the one factor
  `ρ 0 ⋯ ρ (N-1)`; `earleyRescaled_pnext_eq` — after `trim`/`normalize` (twice: in `next_token_weights` and in
  `EarleyLM.p_next`) the chart is the normalised plain chart, provided the plain weights do not sum to `0`;
  `earleyRLm_next`, `earleyRescaled_lm_next` — the conclusion of `earley_lm_next` (C04) for the rescaled LM.
* (d) `earleyRescaled_logp` — `logp(x) = log a − Σ_{j<N} log ρ j` with `a = (plain value) · ∏_{j<N} ρ j`;
  `earleyRLogpParts_nil` — `logp(()) = log 0` whatever the weight of the empty string.
* (e) `rescaleChoice_closed_form` — the code's coefficients: `ρ 0 = 1`, `ρ (k+1) = c k / c (k+1)` where `c j` is
  the plain weight of the prefix `x[:j]` (`colS`, `colS_eq_call`), and `ρ (k+1) = 1` when `c k = 0` or
  `c (k+1) = 0` (always for `k = 0`: `colS_zero`); `rescaleChoice_prefProd`, `earleyRescaled_column_value` — along
  a viable prefix (`c j ≠ 0`) the accumulated factor of column `k+1` is `c 1 / c k` and its entry `(0, S)` is
  `c 1 · c (k+1) / c k`: conditional instead of joint weights, which is why long contexts do not underflow.
  When `den = 0` (or `num = 0`) the code uses the coefficient `1` — never a division by zero, and by (b) the
  results stay exact; the scaling accumulated so far is kept, only this column's correction is skipped.

`predictR_eq_predict` (`Proofs/EarleyRescaledPredict.lean`) disposes of the other difference between the two files
(the left-corner graph with terminal nodes).  Helper lemmas carry the tag `_E8`.
-/
set_option linter.unusedSectionVars false

namespace Genlm
open IncCkyAux EarleyAux

/-! ### scaling a chart, a column -/
section Scale
variable {κ σ K : Type} [DecidableEq κ] [DecidableEq σ] [CommSemiring K]

/-- multiply the entry of every key `k` by `f k` -/
def scaleChart (f : κ → K) (c : PyChart κ K) : PyChart κ K := c.map fun e => (e.1, e.2 * f e.1)

/-- the column with every item `(I, …)` multiplied by `P I col.k` -/
def scaleCol (P : Nat → Nat → K) (col : ECol σ K) : ECol σ K :=
  ⟨col.k, scaleChart (fun it => P it.1 col.k) col.i_chart, scaleChart (fun jy => P jy.1 col.k) col.c_chart⟩

namespace EarleyAux

theorem scaleChart_keys_E8 (f : κ → K) (c : PyChart κ K) : (scaleChart f c).map (·.1) = c.map (·.1) := by
  unfold scaleChart
  rw [List.map_map]
  rfl

theorem scaleChart_upd_E8 (f : κ → K) (c : PyChart κ K) (k : κ) (v : K) :
    scaleChart f (c.upd k v) = (scaleChart f c).upd k (v * f k) := by
  induction c with
  | nil => rfl
  | cons e c ih =>
    by_cases h : e.1 = k
    · have l : PyChart.upd (e :: c) k v = (e.1, e.2 + v) :: c := by simp only [PyChart.upd, if_pos h]
      have r : PyChart.upd (scaleChart f (e :: c)) k (v * f k)
          = (e.1, e.2 * f e.1 + v * f k) :: scaleChart f c := by
        show PyChart.upd ((e.1, e.2 * f e.1) :: scaleChart f c) k (v * f k) = _
        simp only [PyChart.upd, if_pos h]
      rw [l, r]
      show (e.1, (e.2 + v) * f e.1) :: scaleChart f c = _
      rw [add_mul, h]
    · have l : PyChart.upd (e :: c) k v = e :: PyChart.upd c k v := by simp only [PyChart.upd, if_neg h]
      have r : PyChart.upd (scaleChart f (e :: c)) k (v * f k)
          = (e.1, e.2 * f e.1) :: PyChart.upd (scaleChart f c) k (v * f k) := by
        show PyChart.upd ((e.1, e.2 * f e.1) :: scaleChart f c) k (v * f k) = _
        simp only [PyChart.upd, if_neg h]
      rw [l, r, ← ih]
      rfl

theorem scaleChart_get_E8 (f : κ → K) (c : PyChart κ K) (k : κ) :
    (scaleChart f c).get k = c.get k * f k := by
  induction c with
  | nil => rw [show scaleChart f ([] : PyChart κ K) = [] from rfl, get_nil, zero_mul]
  | cons e c ih =>
    rw [show scaleChart f (e :: c) = (e.1, e.2 * f e.1) :: scaleChart f c from rfl, get_cons, get_cons, ih]
    by_cases h : e.1 = k
    · simp only [if_pos h]; rw [h]
    · simp only [if_neg h]

theorem scaleChart_has_E8 (f : κ → K) (c : PyChart κ K) (k : κ) : (scaleChart f c).has k = c.has k := by
  unfold PyChart.has scaleChart
  rw [List.any_map]
  rfl

theorem scaleChart_set_E8 (a : K) (c : PyChart κ K) (k : κ) (v : K) :
    scaleChart (fun _ => a) (c.set k v) = (scaleChart (fun _ => a) c).set k (v * a) := by
  induction c with
  | nil => rfl
  | cons e c ih =>
    by_cases h : e.1 = k
    · have l : PyChart.set (e :: c) k v = (e.1, v) :: c := by simp only [PyChart.set, if_pos h]
      have r : PyChart.set (scaleChart (fun _ => a) (e :: c)) k (v * a)
          = (e.1, v * a) :: scaleChart (fun _ => a) c := by
        show PyChart.set ((e.1, e.2 * a) :: scaleChart (fun _ => a) c) k (v * a) = _
        simp only [PyChart.set, if_pos h]
      rw [l, r]; rfl
    · have l : PyChart.set (e :: c) k v = e :: PyChart.set c k v := by simp only [PyChart.set, if_neg h]
      have r : PyChart.set (scaleChart (fun _ => a) (e :: c)) k (v * a)
          = (e.1, e.2 * a) :: PyChart.set (scaleChart (fun _ => a) c) k (v * a) := by
        show PyChart.set ((e.1, e.2 * a) :: scaleChart (fun _ => a) c) k (v * a) = _
        simp only [PyChart.set, if_neg h]
      rw [l, r, ← ih]; rfl

theorem scaleCol_k_E8 (P : Nat → Nat → K) (col : ECol σ K) : (scaleCol P col).k = col.k := rfl

theorem scaleCol_cget_E8 (P : Nat → Nat → K) (col : ECol σ K) (jy : Nat × σ) :
    (scaleCol P col).c_chart.get jy = col.c_chart.get jy * P jy.1 col.k :=
  scaleChart_get_E8 (fun jy : Nat × σ => P jy.1 col.k) col.c_chart jy

theorem scaleCol_iget_E8 (P : Nat → Nat → K) (col : ECol σ K) (it : EItem σ) :
    (scaleCol P col).i_chart.get it = col.i_chart.get it * P it.1 col.k :=
  scaleChart_get_E8 (fun it : EItem σ => P it.1 col.k) col.i_chart it

theorem scaleCol_empty_E8 (P : Nat → Nat → K) (k : Nat) : scaleCol P (ECol.empty k : ECol σ K) = ECol.empty k := rfl

theorem scaleCol_waitingFor_E8 (P : Nat → Nat → K) (col : ECol σ K) (Y : σ) :
    (scaleCol P col).waitingFor Y = col.waitingFor Y := by
  unfold ECol.waitingFor
  show ((scaleChart (fun it => P it.1 col.k) col.i_chart).map (·.1)).filter _ = _
  rw [scaleChart_keys_E8]

theorem scaleCol_waitingKeys_E8 (P : Nat → Nat → K) (col : ECol σ K) :
    (scaleCol P col).waitingKeys = col.waitingKeys := by
  unfold ECol.waitingKeys
  show ((scaleChart (fun it => P it.1 col.k) col.i_chart).filterMap _).eraseDups = _
  unfold scaleChart
  rw [List.filterMap_map]
  rfl

theorem scaleCol_eUpdate_E8 (P : Nat → Nat → K) (col : ECol σ K) (I : Nat) (X : σ) (Ys : List σ) (v : K) :
    eUpdate (scaleCol P col) I X Ys (v * P I col.k) = scaleCol P (eUpdate col I X Ys v) := by
  unfold eUpdate
  by_cases h : Ys = []
  · simp only [if_pos h]
    show (⟨col.k, _, (scaleChart (fun jy => P jy.1 col.k) col.c_chart).upd (I, X) (v * P I col.k)⟩ : ECol σ K) = _
    rw [← scaleChart_upd_E8 (fun jy : Nat × σ => P jy.1 col.k)]
    rfl
  · simp only [if_neg h]
    show (⟨col.k, (scaleChart (fun it => P it.1 col.k) col.i_chart).upd (I, X, Ys) (v * P I col.k), _⟩
      : ECol σ K) = _
    rw [← scaleChart_upd_E8 (fun it : EItem σ => P it.1 col.k)]
    rfl

/-- a state of the loops of `next_column` (column, agenda) with the column scaled -/
def scaleSt_E8 (P : Nat → Nat → K) (st : ECol σ K × List (Nat × σ)) : ECol σ K × List (Nat × σ) :=
  (scaleCol P st.1, st.2)

theorem scaleSt_eUpdateQ_E8 (P : Nat → Nat → K) (st : ECol σ K × List (Nat × σ)) (I : Nat) (X : σ) (Ys : List σ)
    (v : K) : eUpdateQ (scaleSt_E8 P st) I X Ys (v * P I st.1.k) = scaleSt_E8 P (eUpdateQ st I X Ys v) := by
  unfold eUpdateQ scaleSt_E8
  simp only
  rw [scaleCol_eUpdate_E8]
  congr 1
  show (if Ys = [] ∧ (scaleChart (fun jy => P jy.1 st.1.k) st.1.c_chart).has (I, X) = false then _ else _) = _
  rw [scaleChart_has_E8]

theorem eUpdateQ_k_E8 (st : ECol σ K × List (Nat × σ)) (I : Nat) (X : σ) (Ys : List σ) (v : K) :
    (eUpdateQ st I X Ys v).1.k = st.1.k := eUpdate_k _ _ _ _ _

theorem foldQ_k_E8 (L : List (EItem σ)) (v : EItem σ → K) (st : ECol σ K × List (Nat × σ)) :
    (L.foldl (fun st it => eUpdateQ st it.1 it.2.1 it.2.2.tail (v it)) st).1.k = st.1.k := by
  induction L generalizing st with
  | nil => rfl
  | cons it L ih => rw [List.foldl_cons, ih, eUpdateQ_k_E8]

/-- a loop of `_update`s whose values are scaled item by item -/
theorem foldQ_scale_E8 (P : Nat → Nat → K) (L : List (EItem σ)) (v v' : EItem σ → K)
    (st : ECol σ K × List (Nat × σ)) (hv : ∀ it ∈ L, v' it = v it * P it.1 st.1.k) :
    L.foldl (fun st it => eUpdateQ st it.1 it.2.1 it.2.2.tail (v' it)) (scaleSt_E8 P st)
      = scaleSt_E8 P (L.foldl (fun st it => eUpdateQ st it.1 it.2.1 it.2.2.tail (v it)) st) := by
  induction L generalizing st with
  | nil => rfl
  | cons it L ih =>
    rw [List.foldl_cons, List.foldl_cons, hv it (List.mem_cons_self ..), scaleSt_eUpdateQ_E8]
    apply ih
    intro it' hit'
    rw [eUpdateQ_k_E8]
    exact hv it' (List.mem_cons_of_mem _ hit')

theorem scanStepQ_k_E8 (prev : ECol σ K) (a : σ) (st : ECol σ K × List (Nat × σ)) :
    (scanStepQ prev a st).1.k = st.1.k := foldQ_k_E8 _ _ _

theorem attachStepQ_k_E8 (cols : List (ECol σ K)) (col : ECol σ K) (Q' : List (Nat × σ)) (jy : Nat × σ) :
    (attachStepQ cols col Q' jy).1.k = col.k := foldQ_k_E8 _ _ _

theorem attachLoopQ_k_E8 (pick : List (Nat × σ) → Option ((Nat × σ) × List (Nat × σ))) (cols : List (ECol σ K))
    (fuel : Nat) (col : ECol σ K) (popped Q : List (Nat × σ)) :
    (attachLoopQ pick cols fuel col popped Q).1.k = col.k := by
  induction fuel generalizing col popped Q with
  | zero => rfl
  | succ fuel ih =>
    unfold attachLoopQ
    cases hp : pick Q with
    | none => rfl
    | some r =>
      obtain ⟨jy, Q'⟩ := r
      simp only
      rw [ih, attachStepQ_k_E8]

/-- SCAN: the rescaled loop on the scaled previous column, with its coefficient `ρk`, is the scaled plain loop -/
theorem scanStepRQ_scale_E8 (P : Nat → Nat → K) (prev : ECol σ K) (ρk : K) (a : σ)
    (st : ECol σ K × List (Nat × σ)) (hst : st.1.k = prev.k + 1)
    (hsucc : ∀ I, P I prev.k * ρk = P I (prev.k + 1)) :
    scanStepRQ ⟨scaleCol P prev, ρk⟩ a (scaleSt_E8 P st) = scaleSt_E8 P (scanStepQ prev a st) := by
  unfold scanStepRQ scanStepQ
  simp only
  rw [scaleCol_waitingFor_E8]
  apply foldQ_scale_E8
  intro it _
  show (scaleChart (fun it => P it.1 prev.k) prev.i_chart).get it * ρk = _
  rw [scaleChart_get_E8, mul_assoc, hsucc, hst]

theorem getD_map_E8 {α β : Type} (f : α → β) (l : List α) (n : Nat) (d : α) (d' : β) (hd : f d = d') :
    (l.map f).getD n d' = f (l.getD n d) := by
  rw [List.getD_eq_getElem?_getD, List.getD_eq_getElem?_getD, List.getElem?_map]
  cases l[n]? with
  | none => exact hd.symm
  | some x => rfl

/-- one iteration of the ATTACH loop -/
theorem attachStepQ_scale_E8 (P : Nat → Nat → K) (hmul : ∀ I J k, P I J * P J k = P I k)
    (cols : List (ECol σ K)) (hk : ∀ J, (cols.getD J (ECol.empty J)).k = J)
    (col : ECol σ K) (Q' : List (Nat × σ)) (jy : Nat × σ) :
    attachStepQ (cols.map (scaleCol P)) (scaleCol P col) Q' jy = scaleSt_E8 P (attachStepQ cols col Q' jy) := by
  unfold attachStepQ
  simp only
  rw [getD_map_E8 (scaleCol P) cols jy.1 (ECol.empty jy.1) (ECol.empty jy.1) rfl, scaleCol_waitingFor_E8]
  apply foldQ_scale_E8 P _ _ _ (col, Q')
  intro it _
  show (scaleChart (fun it => P it.1 (cols.getD jy.1 (ECol.empty jy.1)).k) (cols.getD jy.1 (ECol.empty jy.1)).i_chart).get it
      * (scaleChart (fun jy => P jy.1 col.k) col.c_chart).get jy = _
  rw [scaleChart_get_E8, scaleChart_get_E8, hk jy.1, ← hmul it.1 jy.1 col.k]
  simp only [mul_assoc, mul_comm, mul_left_comm]

/-- the ATTACH loop -/
theorem attachLoopQ_scale_E8 (P : Nat → Nat → K) (hmul : ∀ I J k, P I J * P J k = P I k)
    (pick : List (Nat × σ) → Option ((Nat × σ) × List (Nat × σ)))
    (cols : List (ECol σ K)) (hk : ∀ J, (cols.getD J (ECol.empty J)).k = J)
    (fuel : Nat) (col : ECol σ K) (popped Q : List (Nat × σ)) :
    attachLoopQ pick (cols.map (scaleCol P)) fuel (scaleCol P col) popped Q
      = (scaleCol P (attachLoopQ pick cols fuel col popped Q).1, (attachLoopQ pick cols fuel col popped Q).2) := by
  induction fuel generalizing col popped Q with
  | zero => rfl
  | succ fuel ih =>
    unfold attachLoopQ
    cases hp : pick Q with
    | none => rfl
    | some r =>
      obtain ⟨jy, Q'⟩ := r
      simp only
      rw [attachStepQ_scale_E8 P hmul cols hk]
      exact ih _ _ _

/-- a loop of `_update`s (without agenda) whose values are scaled item by item -/
theorem fold_scale_E8 {α : Type} (P : Nat → Nat → K) (L : List α) (key : α → EItem σ) (v v' : α → K)
    (c : ECol σ K) (hv : ∀ a ∈ L, v' a = v a * P (key a).1 c.k) :
    L.foldl (fun c a => eUpdate c (key a).1 (key a).2.1 (key a).2.2 (v' a)) (scaleCol P c)
      = scaleCol P (L.foldl (fun c a => eUpdate c (key a).1 (key a).2.1 (key a).2.2 (v a)) c) := by
  induction L generalizing c with
  | nil => rfl
  | cons a L ih =>
    rw [List.foldl_cons, List.foldl_cons, hv a (List.mem_cons_self ..), scaleCol_eUpdate_E8]
    apply ih
    intro a' ha'
    rw [eUpdate_k]
    exact hv a' (List.mem_cons_of_mem _ ha')

/-- `PREDICT` commutes with the scaling (`P k k = 1`: the predicted items are not scaled) -/
theorem predict_scale_E8 (G : CFG σ K) (P : Nat → Nat → K) (c : ECol σ K) (hdiag : P c.k c.k = 1) :
    predict G (scaleCol P c) = scaleCol P (predict G c) := by
  have hreach : predReach G (scaleCol P c) = predReach G c := by
    unfold predReach
    rw [scaleCol_waitingKeys_E8]
    rfl
  rw [predict_eq_foldUpd, predict_eq_foldUpd, hreach]
  unfold foldUpd
  exact fold_scale_E8 P _ (fun e : EItem σ × K => e.1) (fun e => e.2) (fun e => e.2) c (by
    intro e he
    simp only [List.mem_flatMap, List.mem_map] at he
    obtain ⟨X, _, wYs, _, rfl⟩ := he
    show wYs.1 = wYs.1 * P c.k c.k
    rw [hdiag, mul_one])

end EarleyAux
end Scale

/-! ### the span products in a field -/
section Field
variable {σ K : Type} [DecidableEq σ] [Field K]

/-- `∏_{j < k} ρ j` -/
def prefProd (ρ : Nat → K) (k : Nat) : K := ((List.range k).map ρ).prod

/-- `∏_{I ≤ j < k} ρ j`, written as a quotient of prefix products so that it is multiplicative for *all* `I, J, k`
(`spanP_eq_prod` for `I ≤ k`) -/
def spanP (ρ : Nat → K) (I k : Nat) : K := prefProd ρ k / prefProd ρ I

theorem prefProd_zero (ρ : Nat → K) : prefProd ρ 0 = 1 := rfl

theorem prefProd_succ (ρ : Nat → K) (k : Nat) : prefProd ρ (k + 1) = prefProd ρ k * ρ k := by
  unfold prefProd
  rw [List.range_succ, List.map_append, List.prod_append]
  simp

theorem prefProd_ne_zero (ρ : Nat → K) (hρ : ∀ k, ρ k ≠ 0) (k : Nat) : prefProd ρ k ≠ 0 := by
  induction k with
  | zero => rw [prefProd_zero]; exact one_ne_zero
  | succ k ih => rw [prefProd_succ]; exact mul_ne_zero ih (hρ k)

theorem spanP_diag (ρ : Nat → K) (hρ : ∀ k, ρ k ≠ 0) (k : Nat) : spanP ρ k k = 1 :=
  div_self (prefProd_ne_zero ρ hρ k)

theorem spanP_succ (ρ : Nat → K) (I k : Nat) : spanP ρ I k * ρ k = spanP ρ I (k + 1) := by
  unfold spanP
  rw [prefProd_succ, div_mul_eq_mul_div]

theorem spanP_mul (ρ : Nat → K) (hρ : ∀ k, ρ k ≠ 0) (I J k : Nat) : spanP ρ I J * spanP ρ J k = spanP ρ I k := by
  unfold spanP
  have hJ := prefProd_ne_zero ρ hρ J
  have hI := prefProd_ne_zero ρ hρ I
  field_simp

theorem spanP_zero_left (ρ : Nat → K) (k : Nat) : spanP ρ 0 k = prefProd ρ k := by
  unfold spanP
  rw [prefProd_zero, div_one]

theorem spanP_ne_zero (ρ : Nat → K) (hρ : ∀ k, ρ k ≠ 0) (I k : Nat) : spanP ρ I k ≠ 0 :=
  div_ne_zero (prefProd_ne_zero ρ hρ k) (prefProd_ne_zero ρ hρ I)

/-- for a well-formed item (`I ≤ k`) the factor is the product of the coefficients of the columns `I, …, k-1`
that the item spans -/
theorem spanP_eq_prod (ρ : Nat → K) (hρ : ∀ k, ρ k ≠ 0) (I k : Nat) (hIk : I ≤ k) :
    spanP ρ I k = ((List.range' I (k - I)).map ρ).prod := by
  induction k, hIk using Nat.le_induction with
  | base => rw [spanP_diag ρ hρ, Nat.sub_self]; rfl
  | succ k hIk ih =>
    rw [← spanP_succ, ih, show k + 1 - I = (k - I) + 1 by omega, List.range'_concat, List.map_append,
      List.prod_append]
    simp only [List.map_cons, List.map_nil, List.prod_cons, List.prod_nil, mul_one]
    rw [show I + 1 * (k - I) = k by omega]

namespace EarleyAux

theorem getLastD_eq_getD_E8 {α : Type} (l : List α) (n : Nat) (h : l.length = n + 1) (d d' : α) :
    l.getLastD d = l.getD n d' := by
  have hk : n < l.length := by omega
  rw [List.getLastD_eq_getLast?, List.getLast?_eq_getElem?, List.getD_eq_getElem?_getD, h,
    Nat.add_sub_cancel, List.getElem?_eq_getElem hk]
  rfl

theorem rcol_eta_E8 (a : RCol σ K) (c : ECol σ K) (r : K) (h1 : a.col = c) (h2 : a.rescale = r) : a = ⟨c, r⟩ := by
  cases a; cases h1; cases h2; rfl

/-- `next_column` before `PREDICT`: the rescaled run on the scaled chart is the scaled plain run -/
theorem nextColumnPreRQ_scale_E8 (G : CFG σ K) (P : Nat → Nat → K) (hmul : ∀ I J k, P I J * P J k = P I k)
    (pick : List (Nat × σ) → Option ((Nat × σ) × List (Nat × σ)))
    (colsR : List (RCol σ K)) (colsP : List (ECol σ K)) (hmap : colsR.map (·.col) = colsP.map (scaleCol P))
    (hk : ∀ J, (colsP.getD J (ECol.empty J)).k = J) (ρk : K)
    (hlast : colsR.getLastD RCol.dflt = ⟨scaleCol P (colsP.getLastD (ECol.empty 0)), ρk⟩)
    (hsucc : ∀ I, P I (colsP.getLastD (ECol.empty 0)).k * ρk = P I ((colsP.getLastD (ECol.empty 0)).k + 1))
    (t : σ) :
    nextColumnPreRQ G pick colsR t
      = (scaleCol P (nextColumnPreQ G pick colsP t).1, (nextColumnPreQ G pick colsP t).2) := by
  unfold nextColumnPreRQ nextColumnPreQ
  simp only
  rw [hlast, hmap]
  generalize colsP.getLastD (ECol.empty 0) = lastP at *
  show attachLoopQ pick (colsP.map (scaleCol P)) ((schedCands G (lastP.k + 1)).length + 1)
      (scanStepRQ ⟨scaleCol P lastP, ρk⟩ t (scaleSt_E8 P (ECol.empty (lastP.k + 1), []))).1 []
      (scanStepRQ ⟨scaleCol P lastP, ρk⟩ t (scaleSt_E8 P (ECol.empty (lastP.k + 1), []))).2 = _
  rw [scanStepRQ_scale_E8 P lastP ρk t _ rfl hsucc]
  exact attachLoopQ_scale_E8 P hmul pick colsP hk _ _ _ _

theorem earleyRChartQ_snoc_E8 (G : CFG σ K) (pick : Nat → List (Nat × σ) → Option ((Nat × σ) × List (Nat × σ)))
    (ρ0 : K) (pol : RescalePolicy σ K) (p : List σ) (t : σ) :
    earleyRChartQ G pick ρ0 pol (p ++ [t])
      = earleyRChartQ G pick ρ0 pol p ++ [earleyRExtQ G pick pol (earleyRChartQ G pick ρ0 pol p) t] := by
  simp only [earleyRChartQ, pureChart, List.foldl_append, List.foldl_cons, List.foldl_nil]

theorem earleyRChartQ_length_E8 (G : CFG σ K) (pick : Nat → List (Nat × σ) → Option ((Nat × σ) × List (Nat × σ)))
    (ρ0 : K) (pol : RescalePolicy σ K) (p : List σ) : (earleyRChartQ G pick ρ0 pol p).length = p.length + 1 := by
  induction p using List.reverseRecOn with
  | nil => rfl
  | append_singleton p t ih => rw [earleyRChartQ_snoc_E8]; simp [ih]

theorem earleyChartQ_length_E8 (G : CFG σ K) (pick : Nat → List (Nat × σ) → Option ((Nat × σ) × List (Nat × σ)))
    (p : List σ) : (earleyChartQ G pick p).length = p.length + 1 := by
  induction p using List.reverseRecOn with
  | nil => rfl
  | append_singleton p t ih => rw [earleyChartQ_snoc]; simp [ih]

/-- the columns of the chart of a prefix are the first columns of the chart of the whole input -/
theorem earleyRChartQ_getD_old_E8 (G : CFG σ K)
    (pick : Nat → List (Nat × σ) → Option ((Nat × σ) × List (Nat × σ)))
    (ρ0 : K) (pol : RescalePolicy σ K) (p : List σ) (t : σ) (k : Nat) (hk : k ≤ p.length) (d : RCol σ K) :
    (earleyRChartQ G pick ρ0 pol (p ++ [t])).getD k d = (earleyRChartQ G pick ρ0 pol p).getD k d := by
  rw [earleyRChartQ_snoc_E8, List.getD_eq_getElem?_getD, List.getD_eq_getElem?_getD,
    List.getElem?_append_left (by rw [earleyRChartQ_length_E8]; omega)]

theorem earleyChartQ_getD_old_E8 (G : CFG σ K)
    (pick : Nat → List (Nat × σ) → Option ((Nat × σ) × List (Nat × σ)))
    (p : List σ) (t : σ) (k : Nat) (hk : k ≤ p.length) (d : ECol σ K) :
    (earleyChartQ G pick (p ++ [t])).getD k d = (earleyChartQ G pick p).getD k d := by
  rw [earleyChartQ_snoc, List.getD_eq_getElem?_getD, List.getD_eq_getElem?_getD,
    List.getElem?_append_left (by rw [earleyChartQ_length_E8]; omega)]

theorem nextColumnPreQ_k_E8 (G : CFG σ K) (pick : List (Nat × σ) → Option ((Nat × σ) × List (Nat × σ)))
    (cols : List (ECol σ K)) (t : σ) :
    (nextColumnPreQ G pick cols t).1.k = (cols.getLastD (ECol.empty 0)).k + 1 := by
  unfold nextColumnPreQ
  simp only
  rw [attachLoopQ_k_E8, scanStepQ_k_E8]
  rfl

/-- the scaling invariant, with the bookkeeping needed for the induction over the input -/
theorem rchart_scaling_E8 (G : CFG σ K) (hH : HeadsNT G)
    (pick : Nat → List (Nat × σ) → Option ((Nat × σ) × List (Nat × σ)))
    (ρ0 : K) (pol : RescalePolicy σ K) (ρ : Nat → K) (hρ : ∀ k, ρ k ≠ 0) (x : List σ)
    (hrun : ∀ k ≤ x.length, ((earleyRChartQ G pick ρ0 pol x).getD k RCol.dflt).rescale = ρ k) :
    (earleyRChartQ G pick ρ0 pol x).map (·.col) = (earleyChartQ G pick x).map (scaleCol (spanP ρ))
    ∧ ∀ J, ((earleyChartQ G pick x).getD J (ECol.empty J)).k = J := by
  induction x using List.reverseRecOn with
  | nil =>
    constructor
    · show [predictR G (ECol.empty 0)] = [scaleCol (spanP ρ) (predict G (ECol.empty 0))]
      rw [predictR_eq_predict G hH, ← predict_scale_E8 G (spanP ρ) _ (spanP_diag ρ hρ _)]
      rfl
    · intro J
      cases J with
      | zero => exact (predict_spec G (ECol.empty 0 : ECol σ K)).1
      | succ J => rfl
  | append_singleton p t ih =>
    have hrun' : ∀ k ≤ p.length, ((earleyRChartQ G pick ρ0 pol p).getD k RCol.dflt).rescale = ρ k := by
      intro k hk
      rw [← earleyRChartQ_getD_old_E8 G pick ρ0 pol p t k hk]
      exact hrun k (by simp; omega)
    obtain ⟨hmap, hk⟩ := ih hrun'
    have hlenR := earleyRChartQ_length_E8 G pick ρ0 pol p
    have hlenP := earleyChartQ_length_E8 G pick p
    have hlastPk : ((earleyChartQ G pick p).getLastD (ECol.empty 0)).k = p.length := by
      rw [getLastD_eq_getD_E8 _ p.length hlenP _ (ECol.empty p.length)]; exact hk _
    have hlastcol : ((earleyRChartQ G pick ρ0 pol p).getLastD RCol.dflt).col
        = scaleCol (spanP ρ) ((earleyChartQ G pick p).getLastD (ECol.empty 0)) := by
      rw [getLastD_eq_getD_E8 _ p.length hlenR _ RCol.dflt, getLastD_eq_getD_E8 _ p.length hlenP _ (ECol.empty 0),
        ← getD_map_E8 (scaleCol (spanP ρ)) _ _ (ECol.empty 0) (ECol.empty 0) rfl, ← hmap,
        getD_map_E8 (fun c : RCol σ K => c.col) _ _ RCol.dflt (ECol.empty 0) rfl]
    have hlast : (earleyRChartQ G pick ρ0 pol p).getLastD RCol.dflt
        = ⟨scaleCol (spanP ρ) ((earleyChartQ G pick p).getLastD (ECol.empty 0)), ρ p.length⟩ := by
      apply rcol_eta_E8 _ _ _ hlastcol
      rw [getLastD_eq_getD_E8 _ p.length hlenR _ RCol.dflt]
      exact hrun' _ (Nat.le_refl _)
    have hnew : (earleyRExtQ G pick pol (earleyRChartQ G pick ρ0 pol p) t).col
        = scaleCol (spanP ρ) (earleyExtQ G pick (earleyChartQ G pick p) t) := by
      unfold earleyRExtQ earleyExtQ nextColumnRQ nextColumnQ
      simp only
      have hkk : ((earleyRChartQ G pick ρ0 pol p).getLastD RCol.dflt).col.k
          = ((earleyChartQ G pick p).getLastD (ECol.empty 0)).k := by rw [hlastcol]; rfl
      rw [hkk, nextColumnPreRQ_scale_E8 G (spanP ρ) (spanP_mul ρ hρ) _ _ _ hmap hk (ρ p.length) hlast
        (by intro I; rw [hlastPk]; exact spanP_succ ρ I _) t]
      simp only
      rw [predictR_eq_predict G hH, predict_scale_E8 G (spanP ρ) _ (spanP_diag ρ hρ _)]
    constructor
    · rw [earleyRChartQ_snoc_E8, earleyChartQ_snoc, List.map_append, List.map_append, hmap]
      simp only [List.map_cons, List.map_nil]
      rw [hnew]
    · intro J
      rw [earleyChartQ_snoc]
      rcases Nat.lt_or_ge p.length J with hJ | hJ
      · rcases Nat.lt_or_ge (p.length + 1) J with hJ2 | hJ2
        · rw [List.getD_eq_getElem?_getD, List.getElem?_eq_none (by simp [hlenP]; omega)]
          rfl
        · obtain rfl : J = p.length + 1 := by omega
          rw [List.getD_eq_getElem?_getD, List.getElem?_append_right (by omega), hlenP, Nat.sub_self]
          simp only [List.getElem?_cons_zero, Option.getD_some]
          unfold earleyExtQ nextColumnQ
          rw [(predict_spec G _).1, nextColumnPreQ_k_E8, hlastPk]
      · rw [List.getD_eq_getElem?_getD, List.getElem?_append_left (by omega), ← List.getD_eq_getElem?_getD]
        exact hk J

end EarleyAux
end Field

/-! ### headline theorems: the invariant, `__call__`, `logp` -/
section Headline
variable {σ K : Type} [DecidableEq σ] [Field K]

/-- the coefficient `cols[k].rescale` of column `k` of a chart (`1` beyond its end) -/
def runRho (cols : List (RCol σ K)) (k : Nat) : K := (cols.getD k RCol.dflt).rescale

namespace EarleyAux

theorem runRho_ne_zero_E8 (cols : List (RCol σ K)) (n : Nat) (hlen : cols.length = n + 1)
    (h : ∀ k ≤ n, runRho cols k ≠ 0) : ∀ k, runRho cols k ≠ 0 := by
  intro k
  rcases Nat.lt_or_ge n k with hk | hk
  · unfold runRho
    rw [List.getD_eq_getElem?_getD, List.getElem?_eq_none (by omega)]
    exact (one_ne_zero : (1 : K) ≠ 0)
  · exact h k hk

theorem getD_irrel_E8 {α : Type} (l : List α) (n : Nat) (h : n < l.length) (d d' : α) : l.getD n d = l.getD n d' := by
  rw [List.getD_eq_getElem?_getD, List.getD_eq_getElem?_getD, List.getElem?_eq_getElem h]
  rfl

/-- column `k` of the rescaled chart is the scaled column `k` of the plain chart -/
theorem col_eq_E8 (colsR : List (RCol σ K)) (colsP : List (ECol σ K)) (P : Nat → Nat → K)
    (hmap : colsR.map (·.col) = colsP.map (scaleCol P)) (k : Nat) (hk : k < colsP.length) (d : ECol σ K) :
    (colsR.getD k RCol.dflt).col = scaleCol P (colsP.getD k d) := by
  rw [getD_irrel_E8 colsP k hk d (ECol.empty 0),
    ← getD_map_E8 (scaleCol P) _ _ (ECol.empty 0) (ECol.empty 0) rfl, ← hmap,
    getD_map_E8 (fun c : RCol σ K => c.col) _ _ RCol.dflt (ECol.empty 0) rfl]

theorem foldl_rescale_E8 (l : List (RCol σ K)) (a : K) :
    l.foldl (fun C c => C * c.rescale) a = a * (l.map (·.rescale)).prod := by
  induction l generalizing a with
  | nil => simp
  | cons c l ih => rw [List.foldl_cons, ih, List.map_cons, List.prod_cons, mul_assoc]

theorem take_rescale_E8 (cols : List (RCol σ K)) (N : Nat) (hN : N ≤ cols.length) :
    (cols.take N).map (·.rescale) = (List.range N).map (runRho cols) := by
  apply List.ext_getElem
  · simp [Nat.min_eq_left hN]
  · intro i h1 h2
    have hi : i < N := by simpa using h2
    simp only [List.getElem_map, List.getElem_take, List.getElem_range]
    unfold runRho
    rw [List.getD_eq_getElem?_getD, List.getElem?_eq_getElem (by omega)]
    rfl

/-- `self.rescale(cols, 0, N)` is the product of the coefficients of the columns `0, …, N-1` -/
theorem rescaleProd_eq_E8 (cols : List (RCol σ K)) (N : Nat) (hN : N ≤ cols.length) :
    rescaleProd cols 0 N = prefProd (runRho cols) N := by
  show (cols.take N).foldl (fun C c => C * c.rescale) 1 = _
  rw [foldl_rescale_E8, one_mul, take_rescale_E8 cols N hN]
  rfl

variable (G : CFG σ K) (pick : Nat → List (Nat × σ) → Option ((Nat × σ) × List (Nat × σ)))
  (ρ0 : K) (pol : RescalePolicy σ K)

theorem runRho_old_E8 (p : List σ) (t : σ) (k : Nat) (hk : k ≤ p.length) :
    runRho (earleyRChartQ G pick ρ0 pol (p ++ [t])) k = runRho (earleyRChartQ G pick ρ0 pol p) k := by
  unfold runRho
  rw [earleyRChartQ_getD_old_E8 G pick ρ0 pol p t k hk]

theorem runRho_new_E8 (p : List σ) (t : σ) :
    runRho (earleyRChartQ G pick ρ0 pol (p ++ [t])) (p.length + 1)
      = pol (earleyRChartQ G pick ρ0 pol p) (earleyRExtQ G pick pol (earleyRChartQ G pick ρ0 pol p) t).col := by
  unfold runRho
  rw [earleyRChartQ_snoc_E8, List.getD_eq_getElem?_getD,
    List.getElem?_append_right (by rw [earleyRChartQ_length_E8]), earleyRChartQ_length_E8, Nat.sub_self]
  rfl

theorem runRho_zero_E8 (x : List σ) : runRho (earleyRChartQ G pick ρ0 pol x) 0 = ρ0 := by
  induction x using List.reverseRecOn with
  | nil => rfl
  | append_singleton p t ih => rw [runRho_old_E8 G pick ρ0 pol p t 0 (Nat.zero_le _), ih]

end EarleyAux
open EarleyAux

variable (G : CFG σ K) (pick : Nat → List (Nat × σ) → Option ((Nat × σ) × List (Nat × σ)))
  (ρ0 : K) (pol : RescalePolicy σ K)

/-- **(a) the scaling invariant** (any policy, any initial coefficient): if no coefficient of the run is zero,
every column of the rescaled chart is the column of the plain chart (`earley.py`, same agenda discipline `pick`)
with the *same keys in the same order* and every item `(I, …)` of column `k` multiplied by
`spanP ρ I k = ∏_{I ≤ j < k} ρ j`, `ρ j = cols[j].rescale` — the coefficients of the columns the item spans. -/
theorem earleyRescaled_invariant (hH : HeadsNT G) (x : List σ)
    (hne : ∀ k ≤ x.length, runRho (earleyRChartQ G pick ρ0 pol x) k ≠ 0) :
    (earleyRChartQ G pick ρ0 pol x).map (·.col)
      = (earleyChartQ G pick x).map (scaleCol (spanP (runRho (earleyRChartQ G pick ρ0 pol x)))) :=
  (rchart_scaling_E8 G hH pick ρ0 pol _
    (runRho_ne_zero_E8 _ _ (earleyRChartQ_length_E8 G pick ρ0 pol x) hne) x (fun _ _ => rfl)).1

/-- **(a), entry by entry**: for `I ≤ k ≤ |x|`, the incomplete item `(I, X, β)` and the complete item `(I, X)` of
column `k` hold the plain parser's value times `ρ I * ρ (I+1) * … * ρ (k-1)` -/
theorem earleyRescaled_items (hH : HeadsNT G) (x : List σ)
    (hne : ∀ k ≤ x.length, runRho (earleyRChartQ G pick ρ0 pol x) k ≠ 0)
    (k : Nat) (hk : k ≤ x.length) (I : Nat) (hI : I ≤ k) (X : σ) (β : List σ) :
    ((earleyRChartQ G pick ρ0 pol x).getD k RCol.dflt).col.i_chart.get (I, X, β)
      = ((earleyChartQ G pick x).getD k (ECol.empty k)).i_chart.get (I, X, β)
        * ((List.range' I (k - I)).map (runRho (earleyRChartQ G pick ρ0 pol x))).prod
    ∧ ((earleyRChartQ G pick ρ0 pol x).getD k RCol.dflt).col.c_chart.get (I, X)
      = ((earleyChartQ G pick x).getD k (ECol.empty k)).c_chart.get (I, X)
        * ((List.range' I (k - I)).map (runRho (earleyRChartQ G pick ρ0 pol x))).prod := by
  have hρ := runRho_ne_zero_E8 _ _ (earleyRChartQ_length_E8 G pick ρ0 pol x) hne
  obtain ⟨hmap, hkk⟩ := rchart_scaling_E8 G hH pick ρ0 pol _ hρ x (fun _ _ => rfl)
  have hc := col_eq_E8 _ _ _ hmap k (by rw [earleyChartQ_length_E8]; omega) (ECol.empty k)
  rw [hc, ← spanP_eq_prod _ hρ I k hI]
  constructor
  · rw [scaleCol_iget_E8, hkk k]
  · rw [scaleCol_cget_E8, hkk k]

/-- **(b) `__call__` undoes the scaling** (any policy with non-zero coefficients): the value returned by the
rescaled parser is the value returned by the plain parser -/
theorem earleyRCallQ_eq_plain (hH : HeadsNT G) (x : List σ)
    (hne : ∀ k ≤ x.length, runRho (earleyRChartQ G pick ρ0 pol x) k ≠ 0) :
    earleyRCallQ G pick ρ0 pol x = earleyCallQ G pick x := by
  unfold earleyRCallQ earleyCallQ
  by_cases hx : x.length = 0
  · simp only [if_pos hx]
  · simp only [if_neg hx]
    have hρ := runRho_ne_zero_E8 _ _ (earleyRChartQ_length_E8 G pick ρ0 pol x) hne
    obtain ⟨hmap, hkk⟩ := rchart_scaling_E8 G hH pick ρ0 pol _ hρ x (fun _ _ => rfl)
    have hlenP : x.length < (earleyChartQ G pick x).length := by rw [earleyChartQ_length_E8]; omega
    have hc := col_eq_E8 _ _ _ hmap x.length hlenP (ECol.empty 0)
    rw [hc, rescaleProd_eq_E8 _ _ (by rw [earleyRChartQ_length_E8]; omega)]
    have hkx : ((earleyChartQ G pick x).getD x.length (ECol.empty 0)).k = x.length := by
      rw [getD_irrel_E8 _ _ hlenP _ (ECol.empty x.length)]; exact hkk _
    rw [scaleCol_cget_E8, hkx, spanP_zero_left, mul_div_assoc, div_self (prefProd_ne_zero _ hρ _), mul_one]

/-- **(d) `logp`**: `logp(x) = log a − Σ_{c ∈ l} log c` where `l` is the list of the coefficients of the columns
`0, …, |x|-1`, their product is not zero, and `a` is the plain parser's chart entry times that product -/
theorem earleyRescaled_logp (hH : HeadsNT G) (x : List σ)
    (hne : ∀ k ≤ x.length, runRho (earleyRChartQ G pick ρ0 pol x) k ≠ 0) :
    (earleyRLogpParts G pick ρ0 pol x).2 = (List.range x.length).map (runRho (earleyRChartQ G pick ρ0 pol x))
    ∧ (earleyRLogpParts G pick ρ0 pol x).2.prod ≠ 0
    ∧ (earleyRLogpParts G pick ρ0 pol x).1
      = ((earleyChartQ G pick x).getD x.length (ECol.empty 0)).c_chart.get (0, G.S)
        * (earleyRLogpParts G pick ρ0 pol x).2.prod := by
  have hρ := runRho_ne_zero_E8 _ _ (earleyRChartQ_length_E8 G pick ρ0 pol x) hne
  obtain ⟨hmap, hkk⟩ := rchart_scaling_E8 G hH pick ρ0 pol _ hρ x (fun _ _ => rfl)
  have hlenP : x.length < (earleyChartQ G pick x).length := by rw [earleyChartQ_length_E8]; omega
  have hc := col_eq_E8 _ _ _ hmap x.length hlenP (ECol.empty 0)
  have h2 : (earleyRLogpParts G pick ρ0 pol x).2
      = (List.range x.length).map (runRho (earleyRChartQ G pick ρ0 pol x)) :=
    take_rescale_E8 (earleyRChartQ G pick ρ0 pol x) x.length (by rw [earleyRChartQ_length_E8]; omega)
  have hprod : (earleyRLogpParts G pick ρ0 pol x).2.prod = prefProd (runRho (earleyRChartQ G pick ρ0 pol x)) x.length := by
    rw [h2]; rfl
  refine ⟨h2, ?_, ?_⟩
  · rw [hprod]; exact prefProd_ne_zero _ hρ _
  · rw [hprod]
    show ((earleyRChartQ G pick ρ0 pol x).getD x.length RCol.dflt).col.c_chart.get (0, G.S) = _
    rw [hc]
    have hkx : ((earleyChartQ G pick x).getD x.length (ECol.empty 0)).k = x.length := by
      rw [getD_irrel_E8 _ _ hlenP _ (ECol.empty x.length)]; exact hkk _
    rw [scaleCol_cget_E8, hkx, spanP_zero_left]

/-- `logp(())` is `log 0`, whatever the weight of the empty string (column 0 has no complete items; `__call__`
treats the empty string separately, `logp` does not) -/
theorem earleyRLogpParts_nil (hH : HeadsNT G) : earleyRLogpParts G pick ρ0 pol [] = (0, []) := by
  show ((predictR G (ECol.empty 0)).c_chart.get (0, G.S), []) = _
  rw [predictR_eq_predict G hH, (predict_spec G (ECol.empty 0 : ECol σ K)).2.2.2.1]
  rfl

/-! #### an arbitrary prescribed sequence of non-zero coefficients -/

theorem runRho_const (ρ : Nat → K) (x : List σ) (k : Nat) (hk : k ≤ x.length) :
    runRho (earleyRChartQ G pick (ρ 0) (rescaleConst ρ) x) k = ρ k := by
  induction x using List.reverseRecOn generalizing k with
  | nil =>
    obtain rfl : k = 0 := by simpa using hk
    rfl
  | append_singleton p t ih =>
    rcases Nat.lt_or_ge p.length k with h | h
    · obtain rfl : k = p.length + 1 := by simp at hk; omega
      rw [runRho_new_E8]
      show ρ (earleyRChartQ G pick (ρ 0) (rescaleConst ρ) p).length = _
      rw [earleyRChartQ_length_E8]
    · rw [runRho_old_E8 _ _ _ _ p t k h]; exact ih k h

/-- **C02 for the rescaled parser, arbitrary coefficients**: with any sequence `ρ` of non-zero coefficients
(column `k` scaled by `ρ k`), `__call__` returns the derivation sum -/
theorem earleyRescaled_const_correct (order : σ → Nat) (M : Nat) (hA : Acyc G order) (hM : OrderBound G order M)
    (hpick : ∀ k, PickOK (itemPrio G order k) (pick k)) (ρ : Nat → K) (hρ : ∀ k, ρ k ≠ 0)
    (x : List σ) (hx : ∀ a ∈ x, a ∈ G.V) (n : Nat) (hn : x.length * M + 1 ≤ n) :
    earleyRCallQ G pick (ρ 0) (rescaleConst ρ) x = WN G n G.S x := by
  rw [earleyRCallQ_eq_plain G pick _ _ hA.headsNT x (fun k hk => by rw [runRho_const G pick ρ x k hk]; exact hρ k)]
  exact earleyQ_correct G order M hA hM pick hpick x hx n hn

/-! #### the coefficients the code chooses -/
variable [DecidableEq K]

theorem rescaleChoice_step_ne_zero_E8 (prevCols : List (RCol σ K)) (next : ECol σ K)
    (h : (prevCols.getLastD RCol.dflt).rescale ≠ 0) : rescaleChoice G prevCols next ≠ 0 := by
  unfold rescaleChoice
  simp only
  split
  · exact one_ne_zero
  · next hnz =>
    have hnz' := not_or.mp hnz
    exact mul_ne_zero (div_ne_zero hnz'.2 hnz'.1) h

/-- the code never produces a zero coefficient (in exact arithmetic): `1`, or a product of non-zero numbers -/
theorem rescaleChoice_ne_zero (x : List σ) (k : Nat) (hk : k ≤ x.length) :
    runRho (earleyRescaledChart G pick x) k ≠ 0 := by
  unfold earleyRescaledChart
  induction x using List.reverseRecOn generalizing k with
  | nil =>
    obtain rfl : k = 0 := by simpa using hk
    exact (one_ne_zero : (1 : K) ≠ 0)
  | append_singleton p t ih =>
    rcases Nat.lt_or_ge p.length k with h | h
    · obtain rfl : k = p.length + 1 := by simp at hk; omega
      rw [runRho_new_E8]
      apply rescaleChoice_step_ne_zero_E8
      rw [getLastD_eq_getD_E8 _ p.length (earleyRChartQ_length_E8 G pick 1 (rescaleChoice G) p) _ RCol.dflt]
      exact ih p.length (Nat.le_refl _)
    · rw [runRho_old_E8 _ _ _ _ p t k h]; exact ih k h

/-- **(b) for the parser as the code instantiates it**: no hypothesis on the input is needed -/
theorem earleyRescaled_call (hH : HeadsNT G) (x : List σ) : earleyRescaledCall G pick x = earleyCallQ G pick x :=
  earleyRCallQ_eq_plain G pick 1 (rescaleChoice G) hH x (fun k hk => rescaleChoice_ne_zero G pick x k hk)

/-- **C02 for the rescaled Earley parser**: `Earley(cfg)(x)` of `earley_rescaled.py` is the derivation sum, for
every pop function that returns an item of maximal priority -/
theorem earleyRescaled_correct (order : σ → Nat) (M : Nat) (hA : Acyc G order) (hM : OrderBound G order M)
    (hpick : ∀ k, PickOK (itemPrio G order k) (pick k))
    (x : List σ) (hx : ∀ a ∈ x, a ∈ G.V) (n : Nat) (hn : x.length * M + 1 ≤ n) :
    earleyRescaledCall G pick x = WN G n G.S x := by
  rw [earleyRescaled_call G pick hA.headsNT x]
  exact earleyQ_correct G order M hA hM pick hpick x hx n hn

end Headline

/-! ### (c) `next_token_weights` and `EarleyLM.p_next` -/
section NTW
variable {σ K : Type} [DecidableEq σ] [CommSemiring K]

namespace EarleyAux

/-- the memo `q` of `next_token_weights` with the entry of the node `(J, Y)` multiplied by `P 0 J` -/
def scaleQ_E8 (P : Nat → Nat → K) (q : QMemo σ K) : QMemo σ K := q.map fun e => (e.1, e.2 * P 0 e.1.1)

theorem scaleQ_get?_E8 (P : Nat → Nat → K) (q : QMemo σ K) (node : Nat × σ) :
    (scaleQ_E8 P q).get? node = (q.get? node).map (· * P 0 node.1) := by
  induction q with
  | nil => rfl
  | cons e q ih =>
    unfold QMemo.get? at ih ⊢
    show (List.find? _ ((e.1, e.2 * P 0 e.1.1) :: scaleQ_E8 P q)).map _ = _
    rw [List.find?_cons, List.find?_cons]
    by_cases h : e.1 = node
    · simp only [h, decide_true, Option.map_some]
    · simp only [h, decide_false]
      exact ih

theorem getLastD_map_E8 {α β : Type} (f : α → β) (l : List α) (d : α) :
    (l.map f).getLastD (f d) = f (l.getLastD d) := by
  rw [List.getLastD_eq_getLast?, List.getLastD_eq_getLast?, List.getLast?_map]
  cases l.getLast? <;> rfl

/-- `_helper` on the scaled chart with the scaled memo returns the scaled value and the scaled memo -/
theorem helperNode_scale_E8 (P : Nat → Nat → K) (hmul : ∀ I J k, P I J * P J k = P I k)
    (cols : List (ECol σ K)) (hk : ∀ J, (cols.getD J (ECol.empty J)).k = J) (fuel : Nat) :
    ∀ (node : Nat × σ) (q : QMemo σ K),
      helperNode (cols.map (scaleCol P)) fuel node (scaleQ_E8 P q)
        = ((helperNode cols fuel node q).1 * P 0 node.1, scaleQ_E8 P (helperNode cols fuel node q).2) := by
  induction fuel with
  | zero =>
    intro node q
    show ((0 : K), scaleQ_E8 P q) = (0 * P 0 node.1, scaleQ_E8 P q)
    rw [zero_mul]
  | succ fuel ih =>
    intro node q
    simp only [helperNode]
    rw [scaleQ_get?_E8]
    cases hq : q.get? node with
    | some v => rfl
    | none =>
      simp only [Option.map_none]
      rw [getD_map_E8 (scaleCol P) cols node.1 (ECol.empty node.1) (ECol.empty node.1) rfl,
        scaleCol_waitingFor_E8]
      generalize hcolJ : cols.getD node.1 (ECol.empty node.1) = colJ
      have hkJ : colJ.k = node.1 := by rw [← hcolJ]; exact hk _
      have hfold : ∀ (edges : List (EItem σ)) (acc : K × QMemo σ K),
          edges.foldl (fun (acc : K × QMemo σ K) arc =>
            ((acc.1 + (scaleCol P colJ).i_chart.get arc
                * (helperNode (cols.map (scaleCol P)) fuel (arc.1, arc.2.1) acc.2).1),
              (helperNode (cols.map (scaleCol P)) fuel (arc.1, arc.2.1) acc.2).2))
            (acc.1 * P 0 node.1, scaleQ_E8 P acc.2)
          = ((edges.foldl (fun (acc : K × QMemo σ K) arc =>
              ((acc.1 + colJ.i_chart.get arc * (helperNode cols fuel (arc.1, arc.2.1) acc.2).1),
                (helperNode cols fuel (arc.1, arc.2.1) acc.2).2)) acc).1 * P 0 node.1,
            scaleQ_E8 P (edges.foldl (fun (acc : K × QMemo σ K) arc =>
              ((acc.1 + colJ.i_chart.get arc * (helperNode cols fuel (arc.1, arc.2.1) acc.2).1),
                (helperNode cols fuel (arc.1, arc.2.1) acc.2).2)) acc).2) := by
        intro edges
        induction edges with
        | nil => intro acc; rfl
        | cons arc edges ihe =>
          intro acc
          rw [List.foldl_cons, List.foldl_cons]
          have := ihe (acc.1 + colJ.i_chart.get arc * (helperNode cols fuel (arc.1, arc.2.1) acc.2).1,
            (helperNode cols fuel (arc.1, arc.2.1) acc.2).2)
          simp only at this
          rw [← this, ih (arc.1, arc.2.1) acc.2, scaleCol_iget_E8, hkJ]
          congr 2
          simp only
          rw [add_mul, ← hmul 0 arc.1 node.1]
          simp only [mul_assoc, mul_comm, mul_left_comm]
      have h0 := hfold ((colJ.waitingFor node.2).filter (fun it => it.2.2.length = 1)) (0, q)
      simp only [zero_mul] at h0
      rw [h0]
      rfl

/-- `next_token_weights` (the loops, before `trim`/`normalize`) on the scaled chart: every entry is multiplied by
the same factor `P 0 N`, `N` the index of the last column -/
theorem ntw_scale_E8 (G : CFG σ K) (P : Nat → Nat → K) (hmul : ∀ I J k, P I J * P J k = P I k)
    (hdiag0 : P 0 0 = 1) (cols : List (ECol σ K)) (hk : ∀ J, (cols.getD J (ECol.empty J)).k = J) (fuel : Nat) :
    earleyNextTokenWeights G fuel (cols.map (scaleCol P))
      = scaleChart (fun _ => P 0 (cols.getLastD (ECol.empty 0)).k) (earleyNextTokenWeights G fuel cols) := by
  unfold earleyNextTokenWeights
  simp only
  rw [show (cols.map (scaleCol P)).getLastD (ECol.empty 0) = scaleCol P (cols.getLastD (ECol.empty 0)) from
    getLastD_map_E8 (scaleCol P) cols (ECol.empty 0), scaleCol_waitingKeys_E8]
  generalize cols.getLastD (ECol.empty 0) = col
  have hinner : ∀ (L : List (EItem σ)) (acc : K × QMemo σ K),
      L.foldl (fun (acc : K × QMemo σ K) it =>
        if it.2.2.length = 1 then
          (acc.1 + (scaleCol P col).i_chart.get it * (helperNode (cols.map (scaleCol P)) fuel (it.1, it.2.1) acc.2).1,
            (helperNode (cols.map (scaleCol P)) fuel (it.1, it.2.1) acc.2).2)
        else acc) (acc.1 * P 0 col.k, scaleQ_E8 P acc.2)
      = ((L.foldl (fun (acc : K × QMemo σ K) it =>
          if it.2.2.length = 1 then
            (acc.1 + col.i_chart.get it * (helperNode cols fuel (it.1, it.2.1) acc.2).1,
              (helperNode cols fuel (it.1, it.2.1) acc.2).2)
          else acc) acc).1 * P 0 col.k,
        scaleQ_E8 P (L.foldl (fun (acc : K × QMemo σ K) it =>
          if it.2.2.length = 1 then
            (acc.1 + col.i_chart.get it * (helperNode cols fuel (it.1, it.2.1) acc.2).1,
              (helperNode cols fuel (it.1, it.2.1) acc.2).2)
          else acc) acc).2) := by
    intro L
    induction L with
    | nil => intro acc; rfl
    | cons it L ihL =>
      intro acc
      rw [List.foldl_cons, List.foldl_cons]
      by_cases h1 : it.2.2.length = 1
      · simp only [if_pos h1]
        have := ihL (acc.1 + col.i_chart.get it * (helperNode cols fuel (it.1, it.2.1) acc.2).1,
          (helperNode cols fuel (it.1, it.2.1) acc.2).2)
        simp only at this
        rw [← this, helperNode_scale_E8 P hmul cols hk fuel (it.1, it.2.1) acc.2, scaleCol_iget_E8]
        congr 2
        simp only
        rw [add_mul, ← hmul 0 it.1 col.k]
        simp only [mul_assoc, mul_comm, mul_left_comm]
      · simp only [if_neg h1]
        exact ihL acc
  have houter : ∀ (L : List σ) (st : PyChart σ K × QMemo σ K),
      L.foldl (fun (st : PyChart σ K × QMemo σ K) Y =>
        if Y ∈ G.V then
          (st.1.set Y (((scaleCol P col).waitingFor Y).foldl (fun (acc : K × QMemo σ K) it =>
              if it.2.2.length = 1 then
                (acc.1 + (scaleCol P col).i_chart.get it
                    * (helperNode (cols.map (scaleCol P)) fuel (it.1, it.2.1) acc.2).1,
                  (helperNode (cols.map (scaleCol P)) fuel (it.1, it.2.1) acc.2).2)
              else acc) (0, st.2)).1,
            (((scaleCol P col).waitingFor Y).foldl (fun (acc : K × QMemo σ K) it =>
              if it.2.2.length = 1 then
                (acc.1 + (scaleCol P col).i_chart.get it
                    * (helperNode (cols.map (scaleCol P)) fuel (it.1, it.2.1) acc.2).1,
                  (helperNode (cols.map (scaleCol P)) fuel (it.1, it.2.1) acc.2).2)
              else acc) (0, st.2)).2)
        else st) (scaleChart (fun _ => P 0 col.k) st.1, scaleQ_E8 P st.2)
      = (scaleChart (fun _ => P 0 col.k) (L.foldl (fun (st : PyChart σ K × QMemo σ K) Y =>
          if Y ∈ G.V then
            (st.1.set Y ((col.waitingFor Y).foldl (fun (acc : K × QMemo σ K) it =>
                if it.2.2.length = 1 then
                  (acc.1 + col.i_chart.get it * (helperNode cols fuel (it.1, it.2.1) acc.2).1,
                    (helperNode cols fuel (it.1, it.2.1) acc.2).2)
                else acc) (0, st.2)).1,
              ((col.waitingFor Y).foldl (fun (acc : K × QMemo σ K) it =>
                if it.2.2.length = 1 then
                  (acc.1 + col.i_chart.get it * (helperNode cols fuel (it.1, it.2.1) acc.2).1,
                    (helperNode cols fuel (it.1, it.2.1) acc.2).2)
                else acc) (0, st.2)).2)
          else st) st).1,
        scaleQ_E8 P (L.foldl (fun (st : PyChart σ K × QMemo σ K) Y =>
          if Y ∈ G.V then
            (st.1.set Y ((col.waitingFor Y).foldl (fun (acc : K × QMemo σ K) it =>
                if it.2.2.length = 1 then
                  (acc.1 + col.i_chart.get it * (helperNode cols fuel (it.1, it.2.1) acc.2).1,
                    (helperNode cols fuel (it.1, it.2.1) acc.2).2)
                else acc) (0, st.2)).1,
              ((col.waitingFor Y).foldl (fun (acc : K × QMemo σ K) it =>
                if it.2.2.length = 1 then
                  (acc.1 + col.i_chart.get it * (helperNode cols fuel (it.1, it.2.1) acc.2).1,
                    (helperNode cols fuel (it.1, it.2.1) acc.2).2)
                else acc) (0, st.2)).2)
          else st) st).2) := by
    intro L
    induction L with
    | nil => intro st; rfl
    | cons Y L ihL =>
      intro st
      rw [List.foldl_cons, List.foldl_cons]
      by_cases hY : Y ∈ G.V
      · simp only [if_pos hY]
        rw [← ihL]
        congr 1
        rw [scaleCol_waitingFor_E8]
        have := hinner (col.waitingFor Y) (0, st.2)
        simp only [zero_mul] at this
        rw [this, scaleChart_set_E8]
      · simp only [if_neg hY]
        exact ihL st
  have h0 := houter col.waitingKeys ([], [((0, G.S), 1)])
  have hinit : (scaleChart (fun _ => P 0 col.k) ([] : PyChart σ K), scaleQ_E8 P [((0, G.S), (1 : K))])
      = (([] : PyChart σ K), [((0, G.S), (1 : K))]) := by
    show (([] : PyChart σ K), [((0, G.S), (1 : K) * P 0 0)]) = _
    rw [hdiag0, mul_one]
  rw [hinit] at h0
  rw [h0]

end EarleyAux
end NTW

section LM
variable {σ K : Type} [DecidableEq σ] [Field K] [DecidableEq K]
open LinkAux

namespace EarleyAux

theorem chartSum_scale_E8 (a : K) (q : PyChart σ K) : chartSum (scaleChart (fun _ => a) q) = chartSum q * a := by
  rw [chartSum_eq_sum, chartSum_eq_sum, sum_mul_right]
  unfold scaleChart
  rw [List.map_map]
  rfl

theorem trim_scale_E8 (a : K) (ha : a ≠ 0) (q : PyChart σ K) :
    trimChart (scaleChart (fun _ => a) q) = scaleChart (fun _ => a) (trimChart q) := by
  induction q with
  | nil => rfl
  | cons e q ih =>
    show trimChart ((e.1, e.2 * a) :: scaleChart (fun _ => a) q) = _
    unfold trimChart at ih ⊢
    rw [List.filter_cons, List.filter_cons]
    by_cases he : e.2 = 0
    · have h1 : ¬ (decide ((e.1, e.2 * a).2 ≠ 0) = true) := by simp [he]
      have h2 : ¬ (decide (e.2 ≠ 0) = true) := by simp [he]
      rw [if_neg h1, if_neg h2]
      exact ih
    · have h1 : decide ((e.1, e.2 * a).2 ≠ 0) = true := by simp [he, ha]
      have h2 : decide (e.2 ≠ 0) = true := by simp [he]
      rw [if_pos h1, if_pos h2, ih]
      rfl

theorem chartSum_trim_E8 (q : PyChart σ K) : chartSum (trimChart q) = chartSum q := by
  rw [chartSum_eq_sum, chartSum_eq_sum]
  induction q with
  | nil => rfl
  | cons e q ih =>
    unfold trimChart at ih ⊢
    rw [List.filter_cons]
    by_cases he : e.2 = 0
    · have h2 : ¬ (decide (e.2 ≠ 0) = true) := by simp [he]
      rw [if_neg h2, ih, List.map_cons, List.sum_cons, he, zero_add]
    · have h2 : decide (e.2 ≠ 0) = true := by simp [he]
      rw [if_pos h2, List.map_cons, List.sum_cons, ih, List.map_cons, List.sum_cons]

theorem normalize_scale_E8 (a : K) (ha : a ≠ 0) (p : PyChart σ K) (hZ : chartSum p ≠ 0) :
    normalize (scaleChart (fun _ => a) p) = normalize p := by
  unfold normalize
  simp only
  rw [chartSum_scale_E8, if_neg (mul_ne_zero hZ ha), if_neg hZ]
  unfold scaleChart
  rw [List.map_map]
  apply List.map_congr_left
  intro e _
  show (e.1, e.2 * a / (chartSum p * a)) = (e.1, e.2 / chartSum p)
  rw [mul_div_mul_right _ _ ha]

theorem normalize_idem_E8 (p : PyChart σ K) (hZ : chartSum p ≠ 0) : normalize (normalize p) = normalize p := by
  have h1 := normalize_sums_to_one p hZ
  generalize normalize p = r at h1 ⊢
  unfold normalize
  simp only
  rw [h1, if_neg one_ne_zero]
  conv_rhs => rw [← List.map_id r]
  apply List.map_congr_left
  intro e _
  show (e.1, e.2 / 1) = e
  rw [div_one]

theorem trim_keys_sub_E8 (q : PyChart σ K) (t : σ) (h : t ∈ (trimChart q).map (·.1)) : t ∈ q.map (·.1) := by
  obtain ⟨e, he, rfl⟩ := List.mem_map.mp h
  exact List.mem_map_of_mem (List.mem_of_mem_filter he)

theorem get_trim_E8 (q : PyChart σ K) (hq : NodupKeys q) (t : σ) :
    PyChart.get (trimChart q) t = PyChart.get q t := by
  unfold NodupKeys at hq
  induction q with
  | nil => rfl
  | cons e q ih =>
    obtain ⟨h1, h2⟩ := List.nodup_cons.mp hq
    have hstep : trimChart (e :: q) = if e.2 ≠ 0 then e :: trimChart q else trimChart q := by
      unfold trimChart
      rw [List.filter_cons]
      by_cases he : e.2 = 0
      · simp [he]
      · simp [he]
    rw [hstep, get_cons]
    by_cases he : e.2 = 0
    · rw [if_neg (by simpa using he), ih h2]
      by_cases hk : e.1 = t
      · rw [if_pos hk, he]
        apply get_eq_zero_of_not_key
        rw [← hk]; exact h1
      · rw [if_neg hk]
    · rw [if_pos he, get_cons, ih h2]

theorem nodup_trim_E8 (q : PyChart σ K) (hq : NodupKeys q) : NodupKeys (trimChart q) := by
  unfold NodupKeys trimChart at *
  exact List.Nodup.sublist (List.Sublist.map _ List.filter_sublist) hq

/-- `next_token_weights` of `earley_rescaled.py` when the loops produce `a · q` with `a ≠ 0` and `Σ q ≠ 0` -/
theorem rntw_eq_E8 (G : CFG σ K) (fuel : Nat) (colsR : List (RCol σ K)) (q : PyChart σ K) (a : K) (ha : a ≠ 0)
    (hq : earleyNextTokenWeights G fuel (colsR.map (·.col)) = scaleChart (fun _ => a) q) (hZ : chartSum q ≠ 0) :
    earleyRNextTokenWeights G fuel colsR = normalize (trimChart q) := by
  unfold earleyRNextTokenWeights
  simp only
  rw [hq, trim_scale_E8 a ha]
  have hZt : chartSum (trimChart q) ≠ 0 := by rw [chartSum_trim_E8]; exact hZ
  have hne : (scaleChart (fun _ => a) (trimChart q)).isEmpty = false := by
    cases hp : trimChart q with
    | nil => rw [hp] at hZt; exact absurd rfl hZt
    | cons e l => rfl
  rw [hne]
  simp only [Bool.false_eq_true, if_false]
  exact normalize_scale_E8 a ha _ hZt

end EarleyAux
open EarleyAux

variable (G : CFG σ K) (pick : Nat → List (Nat × σ) → Option ((Nat × σ) × List (Nat × σ)))
  (ρ0 : K) (pol : RescalePolicy σ K)

/-- **(c) the loops of `next_token_weights`**: on the rescaled chart they produce the plain parser's chart (same
keys, same order) with every entry multiplied by the one factor `∏_{j < |c|} ρ j = rescale(cols, 0, N)` -/
theorem earleyRescaled_ntw_raw (hH : HeadsNT G) (c : List σ)
    (hne : ∀ k ≤ c.length, runRho (earleyRChartQ G pick ρ0 pol c) k ≠ 0) (fuel : Nat) :
    earleyNextTokenWeights G fuel ((earleyRChartQ G pick ρ0 pol c).map (·.col))
      = scaleChart (fun _ => prefProd (runRho (earleyRChartQ G pick ρ0 pol c)) c.length)
          (earleyNextTokenWeights G fuel (earleyChartQ G pick c)) := by
  have hρ := runRho_ne_zero_E8 _ _ (earleyRChartQ_length_E8 G pick ρ0 pol c) hne
  obtain ⟨hmap, hkk⟩ := rchart_scaling_E8 G hH pick ρ0 pol _ hρ c (fun _ _ => rfl)
  rw [hmap, ntw_scale_E8 G _ (spanP_mul _ hρ) (spanP_diag _ hρ 0) _ hkk fuel,
    getLastD_eq_getD_E8 _ c.length (earleyChartQ_length_E8 G pick c) _ (ECol.empty c.length), hkk c.length,
    spanP_zero_left]

/-- **(c) `EarleyLM.p_next`**: when the plain parser's next-token weights do not sum to zero, the chart returned
by the rescaled language model is the normalised (and trimmed) chart of the plain parser — the coefficients
cancel.  (If they sum to zero — impossible with non-negative weights unless all are zero — `normalize` returns
its argument unchanged and the common factor does *not* cancel.) -/
theorem earleyRescaled_pnext_eq (hH : HeadsNT G) (order : σ → Nat) (c : List σ)
    (hne : ∀ k ≤ c.length, runRho (earleyRChartQ G pick ρ0 pol c) k ≠ 0)
    (hZ : chartSum (earleyNextTokenWeights G (helperFuel G order (earleyChartQ G pick c))
      (earleyChartQ G pick c)) ≠ 0) :
    earleyRLmPNext G order pick ρ0 pol c
      = normalize (trimChart (earleyNextTokenWeights G (helperFuel G order (earleyChartQ G pick c))
          (earleyChartQ G pick c))) := by
  have hρ := runRho_ne_zero_E8 _ _ (earleyRChartQ_length_E8 G pick ρ0 pol c) hne
  have hfuel : helperFuel G order ((earleyRChartQ G pick ρ0 pol c).map (·.col))
      = helperFuel G order (earleyChartQ G pick c) := by
    unfold helperFuel
    rw [List.length_map, earleyRChartQ_length_E8, earleyChartQ_length_E8]
  unfold earleyRLmPNext
  simp only
  rw [hfuel, rntw_eq_E8 G _ _ _ _ (prefProd_ne_zero _ hρ c.length)
    (earleyRescaled_ntw_raw G pick ρ0 pol hH c hne _) hZ]
  exact normalize_idem_E8 _ (by rw [chartSum_trim_E8]; exact hZ)

/-- the degenerate case of (c): if the plain next-token weights sum to zero (non-zero weights that cancel — not
possible with non-negative weights), both `normalize` calls return their argument and the rescaled language model
returns the trimmed plain chart *times* `ρ 0 ⋯ ρ (N-1)`: here the coefficients do not cancel (the plain `EarleyLM`
returns the plain chart itself) -/
theorem earleyRescaled_pnext_degenerate (hH : HeadsNT G) (order : σ → Nat) (c : List σ)
    (hne : ∀ k ≤ c.length, runRho (earleyRChartQ G pick ρ0 pol c) k ≠ 0)
    (hZ : chartSum (earleyNextTokenWeights G (helperFuel G order (earleyChartQ G pick c))
      (earleyChartQ G pick c)) = 0) :
    earleyRLmPNext G order pick ρ0 pol c
      = scaleChart (fun _ => prefProd (runRho (earleyRChartQ G pick ρ0 pol c)) c.length)
          (trimChart (earleyNextTokenWeights G (helperFuel G order (earleyChartQ G pick c))
            (earleyChartQ G pick c))) := by
  have hρ := runRho_ne_zero_E8 _ _ (earleyRChartQ_length_E8 G pick ρ0 pol c) hne
  have hfuel : helperFuel G order ((earleyRChartQ G pick ρ0 pol c).map (·.col))
      = helperFuel G order (earleyChartQ G pick c) := by
    unfold helperFuel
    rw [List.length_map, earleyRChartQ_length_E8, earleyChartQ_length_E8]
  unfold earleyRLmPNext earleyRNextTokenWeights
  simp only
  rw [hfuel, earleyRescaled_ntw_raw G pick ρ0 pol hH c hne _, trim_scale_E8 _ (prefProd_ne_zero _ hρ c.length)]
  have hZ' : chartSum (scaleChart (fun _ => prefProd (runRho (earleyRChartQ G pick ρ0 pol c)) c.length)
      (trimChart (earleyNextTokenWeights G (helperFuel G order (earleyChartQ G pick c))
        (earleyChartQ G pick c)))) = 0 := by
    rw [chartSum_scale_E8, chartSum_trim_E8, hZ, zero_mul]
  split
  · exact normalize_zero _ hZ'
  · rw [normalize_zero _ hZ']; exact normalize_zero _ hZ'

/-- **C04 for the rescaled Earley LM, one context** (any policy with non-zero coefficients): same statement as
`earley_lm_next` — `c` over the tokens, the string weights of `G` at the extensions `c ++ [t]` are `Pn t`,
`Pc = Σ_t Pn t ≠ 0`; then `p_next(c)[t] = Pn t / Pc` on the tokens, `0` elsewhere, and the chart sums to one -/
theorem earleyRLm_next (order : σ → Nat) (M : Nat) (hA : Acyc G order) (hM : OrderBound G order M)
    (hpick : ∀ k, PickOK (itemPrio G order k) (pick k)) (hV : G.V.Nodup)
    (c : List σ) (hc : ∀ b ∈ c, b ∈ G.V)
    (hne : ∀ k ≤ c.length, runRho (earleyRChartQ G pick ρ0 pol c) k ≠ 0)
    (Pc : K) (Pn : σ → K)
    (hGP : ∀ t, t ∈ G.V → ∃ n, (c.length + 1) * M + 1 ≤ n ∧ WN G n G.S (c ++ [t]) = Pn t)
    (hcons : Pc = (G.V.map Pn).sum) (h0 : Pc ≠ 0) :
    (∀ t, t ∈ G.V → PyChart.get (earleyRLmPNext G order pick ρ0 pol c) t = Pn t / Pc)
    ∧ (∀ t, t ∉ G.V → PyChart.get (earleyRLmPNext G order pick ρ0 pol c) t = 0)
    ∧ chartSum (earleyRLmPNext G order pick ρ0 pol c) = 1 := by
  have hkeys := earleyNTW_keys G (helperFuel G order (earleyChartQ G pick c)) (earleyChartQ G pick c)
  generalize hq : earleyNextTokenWeights G (helperFuel G order (earleyChartQ G pick c)) (earleyChartQ G pick c) = q
    at hkeys
  have hget : ∀ t, t ∈ G.V → q.get t = Pn t := by
    intro t ht
    obtain ⟨n, hn, h⟩ := hGP t ht
    rw [← hq, earleyQ_pnext G order M hA hM pick hpick c hc t ht _ (Nat.le_refl _), ← h]
    exact earleyQ_correct G order M hA hM pick hpick (c ++ [t])
      (by
        intro b hb
        rcases List.mem_append.mp hb with h' | h'
        · exact hc b h'
        · rw [List.mem_singleton.mp h']; exact ht)
      n (by simpa using hn)
  have hout : ∀ t, t ∉ G.V → q.get t = 0 := fun t ht =>
    get_eq_zero_of_not_key _ _ (fun h => ht (hkeys.2 t h))
  obtain ⟨l1, l2, l3, _⟩ := chart_link G.V hV q Pc Pn hkeys.1 hout hget hcons h0
  have hZ : chartSum q ≠ 0 := l1 ▸ h0
  have hZt : chartSum (trimChart q) ≠ 0 := by rw [chartSum_trim_E8]; exact hZ
  have hr : earleyRLmPNext G order pick ρ0 pol c = normalize (trimChart q) := by
    rw [← hq]
    exact earleyRescaled_pnext_eq G pick ρ0 pol hA.headsNT order c hne (by rw [hq]; exact hZ)
  have hgetr : ∀ t, PyChart.get (normalize (trimChart q)) t = PyChart.get (normalize q) t := by
    intro t
    rw [get_normalize _ hZt, get_normalize _ hZ, get_trim_E8 q hkeys.1, chartSum_trim_E8]
  rw [hr]
  refine ⟨fun t ht => ?_, fun t ht => ?_, normalize_sums_to_one _ hZt⟩
  · rw [hgetr]; exact l2 t ht
  · rw [hgetr]; exact l3 t ht

/-- **C04 for `EarleyLM` of `earley_rescaled.py`** (the code's coefficients; no viability hypothesis needed for
the parser — `Pc ≠ 0` is what `normalize` needs) -/
theorem earleyRescaled_lm_next (order : σ → Nat) (M : Nat) (hA : Acyc G order) (hM : OrderBound G order M)
    (hpick : ∀ k, PickOK (itemPrio G order k) (pick k)) (hV : G.V.Nodup)
    (c : List σ) (hc : ∀ b ∈ c, b ∈ G.V) (Pc : K) (Pn : σ → K)
    (hGP : ∀ t, t ∈ G.V → ∃ n, (c.length + 1) * M + 1 ≤ n ∧ WN G n G.S (c ++ [t]) = Pn t)
    (hcons : Pc = (G.V.map Pn).sum) (h0 : Pc ≠ 0) :
    (∀ t, t ∈ G.V → PyChart.get (earleyRescaledLmPNext G order pick c) t = Pn t / Pc)
    ∧ (∀ t, t ∉ G.V → PyChart.get (earleyRescaledLmPNext G order pick c) t = 0)
    ∧ chartSum (earleyRescaledLmPNext G order pick c) = 1 :=
  earleyRLm_next G pick 1 (rescaleChoice G) order M hA hM hpick hV c hc
    (fun k hk => rescaleChoice_ne_zero G pick c k hk) Pc Pn hGP hcons h0

end LM

/-! ### (e) the coefficients the code chooses, in closed form -/
section Choice
variable {σ K : Type} [DecidableEq σ] [Field K] [DecidableEq K]

/-- the plain parser's complete item `(0, S)` of column `k` of the chart of `x`: for `1 ≤ k ≤ |x|` the weight of
the prefix `x[:k]` as a sentence of `S` (`colS_eq_call`); `0` for `k = 0` (`colS_zero`) -/
def colS (G : CFG σ K) (pick : Nat → List (Nat × σ) → Option ((Nat × σ) × List (Nat × σ))) (x : List σ)
    (k : Nat) : K :=
  ((earleyChartQ G pick x).getD k (ECol.empty k)).c_chart.get (0, G.S)

variable (G : CFG σ K) (pick : Nat → List (Nat × σ) → Option ((Nat × σ) × List (Nat × σ)))

namespace EarleyAux

theorem chartQ_getD_zero_E8 (x : List σ) (d : ECol σ K) : (earleyChartQ G pick x).getD 0 d = earleyInit G := by
  induction x using List.reverseRecOn with
  | nil => rfl
  | append_singleton p t ih => rw [earleyChartQ_getD_old_E8 G pick p t 0 (Nat.zero_le _), ih]

theorem chartQ_prefix_E8 (x : List σ) (k : Nat) (hk : k ≤ x.length) (d : ECol σ K) :
    (earleyChartQ G pick x).getD k d = (earleyChartQ G pick (x.take k)).getD k d := by
  induction x using List.reverseRecOn generalizing k with
  | nil =>
    obtain rfl : k = 0 := by simpa using hk
    rfl
  | append_singleton p t ih =>
    rcases Nat.lt_or_ge p.length k with h | h
    · have : (p ++ [t]).take k = p ++ [t] := List.take_of_length_le (by simp; omega)
      rw [this]
    · rw [earleyChartQ_getD_old_E8 G pick p t k h, List.take_append_of_le_length h]
      exact ih k h

theorem rchart_take_E8 (ρ0 : K) (pol : RescalePolicy σ K) (p : List σ) (t : σ) (k : Nat) (hk : k ≤ p.length + 1) :
    (earleyRChartQ G pick ρ0 pol (p ++ [t])).take k = (earleyRChartQ G pick ρ0 pol p).take k := by
  rw [earleyRChartQ_snoc_E8, List.take_append_of_le_length (by rw [earleyRChartQ_length_E8]; exact hk)]

/-- the coefficient of column `k+1` is what the policy returns for the first `k+1` columns and column `k+1` -/
theorem runRho_succ_E8 (ρ0 : K) (pol : RescalePolicy σ K) (x : List σ) (k : Nat) (hk : k < x.length) :
    runRho (earleyRChartQ G pick ρ0 pol x) (k + 1)
      = pol ((earleyRChartQ G pick ρ0 pol x).take (k + 1))
          ((earleyRChartQ G pick ρ0 pol x).getD (k + 1) RCol.dflt).col := by
  induction x using List.reverseRecOn generalizing k with
  | nil => simp at hk
  | append_singleton p t ih =>
    rcases Nat.lt_or_ge k p.length with h | h
    · rw [runRho_old_E8 G pick ρ0 pol p t (k + 1) h, rchart_take_E8 G pick ρ0 pol p t (k + 1) (by omega),
        earleyRChartQ_getD_old_E8 G pick ρ0 pol p t (k + 1) h]
      exact ih k h
    · obtain rfl : k = p.length := by simp at hk; omega
      rw [runRho_new_E8, rchart_take_E8 G pick ρ0 pol p t (p.length + 1) (Nat.le_refl _),
        List.take_of_length_le (by rw [earleyRChartQ_length_E8])]
      congr 2
      rw [earleyRChartQ_snoc_E8, List.getD_eq_getElem?_getD,
        List.getElem?_append_right (by rw [earleyRChartQ_length_E8]), earleyRChartQ_length_E8, Nat.sub_self]
      rfl

/-- the complete item `(0, S)` of column `k` of the rescaled chart -/
theorem rcol_S_E8 (ρ0 : K) (pol : RescalePolicy σ K) (hH : HeadsNT G) (x : List σ)
    (hne : ∀ k ≤ x.length, runRho (earleyRChartQ G pick ρ0 pol x) k ≠ 0) (k : Nat) (hk : k ≤ x.length) :
    ((earleyRChartQ G pick ρ0 pol x).getD k RCol.dflt).col.c_chart.get (0, G.S)
      = colS G pick x k * prefProd (runRho (earleyRChartQ G pick ρ0 pol x)) k := by
  have hρ := runRho_ne_zero_E8 _ _ (earleyRChartQ_length_E8 G pick ρ0 pol x) hne
  obtain ⟨hmap, hkk⟩ := rchart_scaling_E8 G hH pick ρ0 pol _ hρ x (fun _ _ => rfl)
  rw [col_eq_E8 _ _ _ hmap k (by rw [earleyChartQ_length_E8]; omega) (ECol.empty k), scaleCol_cget_E8, hkk k,
    spanP_zero_left]
  rfl

end EarleyAux
open EarleyAux

/-- column 0 has no complete items -/
theorem colS_zero (x : List σ) : colS G pick x 0 = 0 := by
  unfold colS
  rw [chartQ_getD_zero_E8]
  unfold earleyInit
  rw [(predict_spec G (ECol.empty 0 : ECol σ K)).2.2.2.1]
  rfl

/-- `colS G pick x k` is what the plain parser returns for the prefix `x[:k]` (hence, by `earleyQ_correct`, its
derivation sum from `S`) -/
theorem colS_eq_call (x : List σ) (k : Nat) (hk1 : 1 ≤ k) (hk : k ≤ x.length) :
    colS G pick x k = earleyCallQ G pick (x.take k) := by
  have hlen : (x.take k).length = k := by rw [List.length_take]; omega
  unfold colS earleyCallQ
  rw [if_neg (by omega), hlen, chartQ_prefix_E8 G pick x k hk,
    getD_irrel_E8 _ _ (by rw [earleyChartQ_length_E8, hlen]; omega) _ (ECol.empty 0)]

/-- **(e) the coefficients of the code in closed form**: `ρ 0 = 1` and, with `c j` the plain weight of the prefix
`x[:j]` (`colS`), `ρ (k+1) = c k / c (k+1)` — the inverse of the conditional weight of the token `x[k]` — unless
one of the two is zero (in particular for `k = 0`, and whenever `x[:k+1]` is not a viable/complete prefix: this is
the `den == 0 or num == 0` branch of the code), where `ρ (k+1) = 1`. -/
theorem rescaleChoice_closed_form (hH : HeadsNT G) (x : List σ) (k : Nat) (hk : k < x.length) :
    runRho (earleyRescaledChart G pick x) (k + 1)
      = if colS G pick x (k + 1) = 0 ∨ colS G pick x k = 0 then 1
        else colS G pick x k / colS G pick x (k + 1) := by
  have hne : ∀ j ≤ x.length, runRho (earleyRChartQ G pick 1 (rescaleChoice G) x) j ≠ 0 :=
    fun j hj => rescaleChoice_ne_zero G pick x j hj
  have hρ := runRho_ne_zero_E8 _ _ (earleyRChartQ_length_E8 G pick 1 (rescaleChoice G) x) hne
  unfold earleyRescaledChart
  rw [runRho_succ_E8 G pick 1 (rescaleChoice G) x k hk]
  generalize hcols : earleyRChartQ G pick 1 (rescaleChoice G) x = cols at *
  have hlen : cols.length = x.length + 1 := by rw [← hcols]; exact earleyRChartQ_length_E8 G pick _ _ x
  have hprev : (cols.take (k + 1)).getLastD RCol.dflt = cols.getD k RCol.dflt := by
    rw [getLastD_eq_getD_E8 _ k (by rw [List.length_take]; omega) _ RCol.dflt, List.getD_eq_getElem?_getD,
      List.getD_eq_getElem?_getD, List.getElem?_take_of_lt (by omega)]
  have hnum := rcol_S_E8 G pick 1 (rescaleChoice G) hH x (by rw [hcols]; exact hne) k (by omega)
  have hden := rcol_S_E8 G pick 1 (rescaleChoice G) hH x (by rw [hcols]; exact hne) (k + 1) (by omega)
  rw [hcols] at hnum hden
  show (if (cols.getD (k + 1) RCol.dflt).col.c_chart.get (0, G.S) = 0
        ∨ ((cols.take (k + 1)).getLastD RCol.dflt).col.c_chart.get (0, G.S) = 0 then (1 : K)
      else ((cols.take (k + 1)).getLastD RCol.dflt).col.c_chart.get (0, G.S)
        / (cols.getD (k + 1) RCol.dflt).col.c_chart.get (0, G.S) * ((cols.take (k + 1)).getLastD RCol.dflt).rescale) = _
  rw [hprev, hnum, hden, prefProd_succ]
  have hPi := prefProd_ne_zero _ hρ k
  have hr : runRho cols k ≠ 0 := hρ k
  show (if _ ∨ _ then (1 : K) else _ / _ * runRho cols k) = _
  by_cases hB : colS G pick x (k + 1) = 0
  · rw [if_pos (Or.inl (by rw [hB, zero_mul])), if_pos (Or.inl hB)]
  · by_cases hA : colS G pick x k = 0
    · rw [if_pos (Or.inr (by rw [hA, zero_mul])), if_pos (Or.inr hA)]
    · rw [if_neg (by
          rintro (h | h)
          · exact (mul_ne_zero hB (mul_ne_zero hPi hr)) h
          · exact (mul_ne_zero hA hPi) h),
        if_neg (by rintro (h | h); exact hB h; exact hA h)]
      field_simp

/-- **(e) why long contexts do not underflow**: along a viable prefix (`c j ≠ 0` for `1 ≤ j ≤ |x|`) the accumulated
factor `∏_{j ≤ k} ρ j` that scales the items `(0, …)` of column `k+1` is `c 1 / c k`: the items of column `k+1`
are divided by the weight of the prefix `x[:k]` (up to the constant `c 1`) -/
theorem rescaleChoice_prefProd (hH : HeadsNT G) (x : List σ)
    (hv : ∀ j, 1 ≤ j → j ≤ x.length → colS G pick x j ≠ 0) (k : Nat) (hk1 : 1 ≤ k) (hk : k ≤ x.length) :
    prefProd (runRho (earleyRescaledChart G pick x)) (k + 1) = colS G pick x 1 / colS G pick x k := by
  induction k, hk1 using Nat.le_induction with
  | base =>
    have h0 : runRho (earleyRescaledChart G pick x) 0 = 1 := runRho_zero_E8 G pick 1 (rescaleChoice G) x
    have h1 : runRho (earleyRescaledChart G pick x) 1 = 1 := by
      rw [rescaleChoice_closed_form G pick hH x 0 (by omega), if_pos (Or.inr (colS_zero G pick x))]
    rw [prefProd_succ, prefProd_succ, prefProd_zero, h0, h1, div_self (hv 1 (Nat.le_refl _) hk)]
    simp
  | succ k hk1 ih =>
    have hA := hv k hk1 (by omega)
    have hB := hv (k + 1) (by omega) hk
    rw [prefProd_succ, ih (by omega), rescaleChoice_closed_form G pick hH x k (by omega),
      if_neg (by rintro (h | h); exact hB h; exact hA h)]
    field_simp

/-- **(e) the invariant the code aims at**: along a viable prefix the complete item `(0, S)` of column `k+1`
(`k ≥ 1`) — the `den` of the next step — holds `c 1 · c (k+1) / c k`: the *conditional* weight of the last token
(times the constant `c 1`, the weight of the first token) instead of the weight `c (k+1)` of the whole prefix,
which decays geometrically with `k` -/
theorem earleyRescaled_column_value (hH : HeadsNT G) (x : List σ)
    (hv : ∀ j, 1 ≤ j → j ≤ x.length → colS G pick x j ≠ 0) (k : Nat) (hk1 : 1 ≤ k) (hk : k + 1 ≤ x.length) :
    ((earleyRescaledChart G pick x).getD (k + 1) RCol.dflt).col.c_chart.get (0, G.S)
      = colS G pick x 1 * (colS G pick x (k + 1) / colS G pick x k) := by
  have hne : ∀ j ≤ x.length, runRho (earleyRChartQ G pick 1 (rescaleChoice G) x) j ≠ 0 :=
    fun j hj => rescaleChoice_ne_zero G pick x j hj
  have h := rcol_S_E8 G pick 1 (rescaleChoice G) hH x hne (k + 1) hk
  have hp := rescaleChoice_prefProd G pick hH x hv k hk1 (by omega)
  unfold earleyRescaledChart at hp ⊢
  rw [h, hp]
  ring

end Choice

end Genlm

/-! ### non-vacuity (over `ℚ`; `decide +kernel` is plain kernel evaluation and adds nothing to the three standard
principles; the elaborator's own `decide` is stuck on the irreducible `Rat.add`/`Rat.mul`) -/
namespace Genlm.EarleyAux.ExamplesRescaled

/-- `S → a S (1/2) | a (1/3)`: every prefix `aᵏ`, `k ≥ 1`, is a sentence, of weight `(1/2)^(k-1) / 3` -/
def exGq : CFG ℕ ℚ := ⟨0, [10], [⟨1/2, 0, [10, 0]⟩, ⟨1/3, 0, [10]⟩]⟩
def exOrdq : ℕ → ℕ := fun _ => 0
/-- the weights `c k` of the prefixes of `a a a a` (`colS`; column 0 has no complete item) -/
def exC : List ℚ := [0, 1/3, 1/6, 1/12, 1/24]

example : Acyc exGq exOrdq ∧ OrderBound exGq exOrdq 1 ∧ exGq.V.Nodup := by decide
example : ∀ k, PickOK (itemPrio exGq exOrdq k) (earleyPick exGq exOrdq k) := fun _ => popMax_ok _

/-- the plain entries `(0, S)`: the hypothesis "viable prefix" of (e) holds (`c k ≠ 0` for `1 ≤ k ≤ 4`) -/
example : (List.range 5).map (colS exGq (earleyPick exGq exOrdq) [10, 10, 10, 10]) = exC := by decide +kernel

/-- the coefficients the code chooses: `ρ 0 = ρ 1 = 1`, then `ρ (k+1) = c k / c (k+1) = 2`
(`rescaleChoice_closed_form`); none is zero (`rescaleChoice_ne_zero`) -/
example : (earleyRescaledChart exGq (earleyPick exGq exOrdq) [10, 10, 10, 10]).map (·.rescale) = [1, 1, 2, 2, 2] := by
  decide +kernel

/-- the rescaled entries `(0, S)`: `c 1 · c (k+1) / c k = 1/6` from column 2 on (`earleyRescaled_column_value`)
while the plain ones halve at every column -/
example : (earleyRescaledChart exGq (earleyPick exGq exOrdq) [10, 10, 10, 10]).map
    (fun c => c.col.c_chart.get (0, exGq.S)) = [0, 1/3, 1/6, 1/6, 1/6] := by decide +kernel

/-- items of column 3 (`earleyRescaled_items`): the incomplete item `(2, S, [S])` holds the plain value `1/2` times
`ρ 2 = 2`; the complete item `(1, S)` holds the plain value `1/6` times `ρ 1 ρ 2 = 2` -/
example :
    ((earleyRescaledChart exGq (earleyPick exGq exOrdq) [10, 10, 10, 10]).getD 3 RCol.dflt).col.i_chart.get (2, 0, [0]) = 1
    ∧ ((earleyChartQ exGq (earleyPick exGq exOrdq) [10, 10, 10, 10]).getD 3 (ECol.empty 3)).i_chart.get (2, 0, [0])
      = 1/2
    ∧ ((earleyRescaledChart exGq (earleyPick exGq exOrdq) [10, 10, 10, 10]).getD 3 RCol.dflt).col.c_chart.get (1, 0) = 1/3
    ∧ ((earleyChartQ exGq (earleyPick exGq exOrdq) [10, 10, 10, 10]).getD 3 (ECol.empty 3)).c_chart.get (1, 0)
      = 1/6 := by decide +kernel

/-- `__call__` undoes the scaling (`earleyRescaled_correct`) -/
example : earleyRescaledCall exGq (earleyPick exGq exOrdq) [10, 10, 10, 10] = 1/24
    ∧ earleyCallQ exGq (earleyPick exGq exOrdq) [10, 10, 10, 10] = 1/24
    ∧ WN exGq 5 0 [10, 10, 10, 10] = 1/24 := by decide +kernel

/-- `logp`: `log (1/6) − (log 1 + log 1 + log 2 + log 2) = log (1/24)` (`earleyRescaled_logp`) -/
example : earleyRLogpParts exGq (earleyPick exGq exOrdq) 1 (rescaleChoice exGq) [10, 10, 10, 10]
    = (1/6, [1, 1, 2, 2]) := by decide +kernel

/-- an arbitrary sequence of non-zero coefficients (`ρ k = k + 2`): other chart entries, same value
(`earleyRescaled_const_correct`) -/
example : ((earleyRChartQ exGq (earleyPick exGq exOrdq) 2 (rescaleConst fun k => (k : ℚ) + 2) [10, 10, 10]).map
      (fun c => c.col.c_chart.get (0, exGq.S)) = [0, 2/3, 1, 2])
    ∧ earleyRCallQ exGq (earleyPick exGq exOrdq) 2 (rescaleConst fun k => (k : ℚ) + 2) [10, 10, 10] = 1/12 := by
  decide +kernel

/-- `next_token_weights` / `EarleyLM.p_next`: the plain parser gives `a ↦ 1/12` after `a a`; the rescaled loops give
`1/12 · ρ 0 ρ 1 = 1/12` … and after `a a a`: `1/24 · ρ 0 ρ 1 ρ 2 = 1/12`; normalised, both are `a ↦ 1`
(`earleyRescaled_ntw_raw`, `earleyRescaled_pnext_eq`) -/
example :
    earleyNextTokenWeights exGq 5 (earleyChartQ exGq (earleyPick exGq exOrdq) [10, 10, 10]) = [(10, 1/24)]
    ∧ earleyNextTokenWeights exGq 5
        ((earleyRescaledChart exGq (earleyPick exGq exOrdq) [10, 10, 10]).map (·.col)) = [(10, 1/12)]
    ∧ earleyRescaledLmPNext exGq exOrdq (earleyPick exGq exOrdq) [10, 10, 10] = [(10, 1)] := by decide +kernel

/-- a grammar that is not prefix-closed (`E → E + T | T`, `T → a`, over `ℚ`): `a +` is not a sentence, so
`den == 0` in column 2 and `num == 0` in column 3 — the code falls back to `rescale = 1` every time and the
"rescaled" chart is the plain chart.  The rescaling is only ever active when the prefixes themselves are
sentences of `S` (as in the prefix grammar that `EarleyLM` builds). -/
def exGe : CFG ℕ ℚ := ⟨0, [10, 11], [⟨1, 0, [1]⟩, ⟨1/2, 1, [1, 10, 2]⟩, ⟨1/3, 1, [2]⟩, ⟨1/5, 2, [11]⟩]⟩

def exOrde : ℕ → ℕ := fun X => if X = 0 then 2 else if X = 1 then 1 else 0

example : Acyc exGe exOrde := by decide
example : (earleyRescaledChart exGe (earleyPick exGe exOrde) [11, 10, 11]).map (·.rescale) = [1, 1, 1, 1]
    ∧ (List.range 4).map (colS exGe (earleyPick exGe exOrde) [11, 10, 11]) = [0, 1/15, 0, 1/150]
    ∧ earleyRescaledCall exGe (earleyPick exGe exOrde) [11, 10, 11] = 1/150 := by decide +kernel

/-- `logp(())` is `log 0` although the empty string has weight `1/4` (`__call__` special-cases `N == 0`, `logp`
does not) — `earleyRLogpParts_nil` -/
def exGn : CFG ℕ ℚ := ⟨0, [10], [⟨1/4, 0, []⟩, ⟨1/2, 0, [10]⟩]⟩

example : Acyc exGn exOrdq := by decide
example : earleyRescaledCall exGn (earleyPick exGn exOrdq) [] = 1/4
    ∧ earleyRLogpParts exGn (earleyPick exGn exOrdq) 1 (rescaleChoice exGn) [] = (0, []) := by decide +kernel

end Genlm.EarleyAux.ExamplesRescaled
