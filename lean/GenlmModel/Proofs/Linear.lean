import GenlmModel.Model.Linear
import GenlmModel.Proofs.Basic
import Mathlib.Algebra.BigOperators.Group.Finset.Basic
import Mathlib.Algebra.BigOperators.Group.Finset.Piecewise
import Mathlib.Algebra.BigOperators.Group.Finset.Sigma
import Mathlib.Algebra.BigOperators.Ring.Finset
import Mathlib.Data.List.Induction
import Mathlib.Data.Finset.Lattice.Lemmas
import Mathlib.Logic.Relation
import Mathlib.Algebra.Field.Basic
import Mathlib.Tactic.Ring
import Mathlib.Tactic.FieldSimp
import Mathlib.Tactic.NormNum
import Mathlib.Data.Rat.Defs

/-! Correctness of the model of `genlm/grammar/linear.py` (`Model/Linear.lean`).

Main results (all over an arbitrary `CommSemiring K` unless stated otherwise):
* `solveLeft_eq`  : `solve_left(b)` solves `x = x A + b` (blocks disjoint, duplicate-free, covering
  the nodes; no non-zero edge from a later to an earlier block; block matrices with `B = I + B A_bb`).
* `solveRight_eq` : `solve_right(b)` solves `x = A x + b` (block matrices with `B = I + A_bb B`);
  proved by transposition, `solveRight_eq_solveLeft_transpose`.
* `closureScc_row_eq_solveLeft`, `closure_scc_row` : row `i` of `closure_scc_based` is
  `solve_left(e_i)` and satisfies `K_i = e_i + K_i A`.
* `gj_step`, `lehmann_closed` : `_closure` (Lehmann) returns `C` with `C = I + C A_NN = I + A_NN C`
  whenever `star a = 1 + a * star a` at the pivots actually used; `lehmann_field` is the
  instance `star x = (1 - x)⁻¹` over a field with non-vanishing pivots.
* `sccCheck_iff`, `sccCheck_sound` : the checker accepts exactly the decompositions into strongly
  connected components listed sources first (`IsSccDecomp`).
* `solve_hyps_of_sccCheck`, `closureScc_correct`, `closureRef_closed` : the pieces composed. -/
namespace Genlm

/-! ### charts read with `wlook` (generic lemmas, kept in `Genlm.Linear` to avoid name clashes) -/
namespace Linear
section Lookup
variable {α β K : Type} [DecidableEq α] [CommSemiring K]

theorem wlook_nil (k : α) : wlook ([] : List (α × K)) k = 0 := rfl

theorem wlook_cons (e : α × K) (l : List (α × K)) (k : α) :
    wlook (e :: l) k = (if e.1 = k then e.2 else 0) + wlook l k := by
  unfold wlook
  by_cases h : e.1 = k <;> simp [h]

theorem wlook_append (l₁ l₂ : List (α × K)) (k : α) :
    wlook (l₁ ++ l₂) k = wlook l₁ k + wlook l₂ k := by
  simp [wlook, List.filter_append]

theorem wlook_eq_zero (l : List (α × K)) (k : α) (h : ∀ e ∈ l, e.1 ≠ k) : wlook l k = 0 := by
  induction l with
  | nil => rfl
  | cons e l ih =>
    rw [wlook_cons, if_neg (h e (by simp)), ih (fun e' he' => h e' (by simp [he'])), add_zero]

/-- a chart built with one entry per element of a duplicate-free list -/
theorem wlook_map_key (l : List α) (v : α → K) (hl : l.Nodup) (k : α) :
    wlook (l.map fun j => (j, v j)) k = if k ∈ l then v k else 0 := by
  induction l with
  | nil => simp [wlook_nil]
  | cons a l ih =>
    rw [List.nodup_cons] at hl
    rw [List.map_cons, wlook_cons, ih hl.2]
    by_cases h : a = k
    · subst h; simp [hl.1]
    · have h' : ¬ k = a := fun e => h e.symm
      simp [h, h']

/-- re-keying a chart along an injective map -/
theorem wlook_map_inj {γ : Type} [DecidableEq γ] (f : α → γ) (hf : Function.Injective f) (l : List (α × K)) (k : α) :
    wlook (l.map fun e => (f e.1, e.2)) (f k) = wlook l k := by
  induction l with
  | nil => rfl
  | cons e l ih =>
    rw [List.map_cons, wlook_cons, wlook_cons, ih]
    by_cases h : e.1 = k
    · simp [h]
    · have : ¬ f e.1 = f k := fun e' => h (hf e')
      simp [h, this]

/-- a duplicate-free table `L × M` -/
theorem wlook_table (L M : List α) (f : α → α → K) (hL : L.Nodup) (hM : M.Nodup) (a c : α) :
    wlook (L.flatMap fun i => M.map fun k => ((i, k), f i k)) (a, c) =
      if a ∈ L ∧ c ∈ M then f a c else 0 := by
  have row : ∀ i, wlook (M.map fun k => ((i, k), f i k)) (a, c) =
      if i = a ∧ c ∈ M then f a c else 0 := by
    intro i
    by_cases hi : i = a
    · subst hi
      have h2 := wlook_map_inj (K := K) (fun k : α => (i, k)) (fun _ _ h => (Prod.mk.inj h).2)
        (M.map fun k => (k, f i k)) c
      simp only [List.map_map, Function.comp_def] at h2
      rw [h2, wlook_map_key M (f i) hM c]
      simp
    · rw [wlook_eq_zero]
      · simp [hi]
      · intro e he
        simp only [List.mem_map] at he
        obtain ⟨k, _, rfl⟩ := he
        intro h; exact hi (Prod.mk.inj h).1
  induction L with
  | nil => simp [wlook_nil]
  | cons i L ih =>
    rw [List.nodup_cons] at hL
    rw [List.flatMap_cons, wlook_append, row, ih hL.2]
    by_cases hi : i = a
    · subst hi; simp [hL.1]
    · have : ¬ a = i := fun e => hi e.symm
      simp [hi, this]

theorem lsum_map_eq_finset_sum (l : List α) (hl : l.Nodup) (f : α → K) :
    lsum (l.map f) = ∑ i ∈ l.toFinset, f i := by
  rw [lsum_eq_sum, List.sum_toFinset f hl]

theorem mem_linDedup (l : List α) (x : α) : x ∈ linDedup l ↔ x ∈ l := by
  induction l generalizing x with
  | nil => simp [linDedup]
  | cons a l ih =>
    simp only [linDedup]
    split
    · rename_i h
      rw [ih] at h
      rw [ih]
      constructor
      · exact fun hx => List.mem_cons_of_mem _ hx
      · intro hx; rcases List.mem_cons.mp hx with rfl | hx
        · exact h
        · exact hx
    · simp [ih]

theorem nodup_linDedup (l : List α) : (linDedup l).Nodup := by
  induction l with
  | nil => simp [linDedup]
  | cons a l ih =>
    simp only [linDedup]
    split
    · exact ih
    · rename_i h; exact List.nodup_cons.mpr ⟨h, ih⟩

end Lookup
end Linear
open Linear

/-! ### `solve_left` / `solve_right` -/
section Solve
variable {ι K : Type} [DecidableEq ι] [CommSemiring K]

/-- representation invariant of `WeightedGraph`: `N` is a set and contains all endpoints
(`__setitem__` adds both) -/
def WGraph.WF (g : WGraph ι K) : Prop :=
  g.nodes.Nodup ∧ ∀ e ∈ g.edges, e.1.1 ∈ g.nodes ∧ e.1.2 ∈ g.nodes

omit [DecidableEq ι] [CommSemiring K] in
theorem mem_arcs (g : WGraph ι K) (p : ι × ι) : p ∈ g.arcs ↔ ∃ e ∈ g.edges, e.1 = p := by
  simp [WGraph.arcs]

omit [CommSemiring K] in
theorem mem_incoming (g : WGraph ι K) (i j : ι) : i ∈ g.incoming j ↔ (i, j) ∈ g.arcs := by
  simp only [WGraph.incoming, mem_linDedup, List.mem_map, List.mem_filter, decide_eq_true_eq]
  constructor
  · rintro ⟨e, ⟨he, rfl⟩, rfl⟩; exact he
  · intro h; exact ⟨(i, j), ⟨h, rfl⟩, rfl⟩

omit [CommSemiring K] in
theorem mem_outgoing (g : WGraph ι K) (i j : ι) : j ∈ g.outgoing i ↔ (i, j) ∈ g.arcs := by
  simp only [WGraph.outgoing, mem_linDedup, List.mem_map, List.mem_filter, decide_eq_true_eq]
  constructor
  · rintro ⟨e, ⟨he, rfl⟩, rfl⟩; exact he
  · intro h; exact ⟨(i, j), ⟨h, rfl⟩, rfl⟩

/-- a pair that is not a stored key has weight zero -/
theorem E_eq_zero (g : WGraph ι K) (i j : ι) (h : (i, j) ∉ g.arcs) : g.E i j = 0 := by
  apply wlook_eq_zero
  intro e he heq
  exact h ((mem_arcs g _).mpr ⟨e, he, heq⟩)

theorem arcs_of_E_ne_zero (g : WGraph ι K) (i j : ι) (h : g.E i j ≠ 0) : (i, j) ∈ g.arcs := by
  by_contra h'; exact h (E_eq_zero g i j h')

/-- the loop over `incoming[j]` is the sum over all nodes -/
theorem sum_incoming (g : WGraph ι K) (hg : g.WF) (x : ι → K) (j : ι) :
    lsum ((g.incoming j).map fun i => x i * g.E i j) = ∑ i ∈ g.nodes.toFinset, x i * g.E i j := by
  rw [lsum_map_eq_finset_sum (g.incoming j) (nodup_linDedup _)]
  apply Finset.sum_subset
  · intro i hi
    rw [List.mem_toFinset, mem_incoming, mem_arcs] at hi
    obtain ⟨e, he, heq⟩ := hi
    rw [List.mem_toFinset]
    have := (hg.2 e he).1
    rw [heq] at this; exact this
  · intro i _ hi
    rw [List.mem_toFinset, mem_incoming] at hi
    rw [E_eq_zero g i j hi, mul_zero]

/-- the invariant of the loop of `solve_left`: `x` vanishes outside the processed nodes `D` and
solves the equations of the processed nodes -/
def LeftInv (g : WGraph ι K) (b : ι → K) (D : Finset ι) (x : ι → K) : Prop :=
  (∀ k, k ∉ D → x k = 0) ∧ ∀ k ∈ D, x k = b k + ∑ i ∈ g.nodes.toFinset, x i * g.E i k

/-- one block, algebraically -/
theorem leftInv_step (g : WGraph ι K) (b : ι → K) (D P : Finset ι) (x ent x' : ι → K)
    (B : ι → ι → K) (hx : LeftInv g b D x) (hPS : P ⊆ g.nodes.toFinset) (hPD : Disjoint P D)
    (hback : ∀ i ∈ P, ∀ k ∈ D, g.E i k = 0)
    (hB0 : ∀ j k, k ∉ P → B j k = 0)
    (hB : ∀ j ∈ P, ∀ k ∈ P, B j k = (if j = k then 1 else 0) + ∑ m ∈ P, B j m * g.E m k)
    (hent : ∀ j, ent j = b j + ∑ i ∈ g.nodes.toFinset, x i * g.E i j)
    (hx' : ∀ k, x' k = x k + ∑ j ∈ P, ent j * B j k) :
    LeftInv g b (D ∪ P) x' := by
  have hadd0 : ∀ k, k ∉ P → ∑ j ∈ P, ent j * B j k = 0 := by
    intro k hk
    apply Finset.sum_eq_zero
    intro j _; rw [hB0 j k hk, mul_zero]
  have hsplit : ∀ k, ∑ i ∈ g.nodes.toFinset, x' i * g.E i k =
      ∑ i ∈ g.nodes.toFinset, x i * g.E i k + ∑ i ∈ P, (∑ j ∈ P, ent j * B j i) * g.E i k := by
    intro k
    have : ∀ i, x' i * g.E i k = x i * g.E i k + (∑ j ∈ P, ent j * B j i) * g.E i k := by
      intro i; rw [hx' i, add_mul]
    simp only [this]
    rw [Finset.sum_add_distrib]
    congr 1
    symm
    apply Finset.sum_subset hPS
    intro i _ hi
    rw [hadd0 i hi, zero_mul]
  refine ⟨?_, ?_⟩
  · intro k hk
    rw [Finset.mem_union, not_or] at hk
    rw [hx' k, hx.1 k hk.1, hadd0 k hk.2, add_zero]
  · intro k hk
    rw [hsplit k]
    by_cases hkP : k ∈ P
    · have hkD : k ∉ D := fun h => (Finset.disjoint_left.mp hPD hkP) h
      rw [hx' k, hx.1 k hkD, zero_add]
      have h1 : ∑ j ∈ P, ent j * B j k
          = ent k + ∑ j ∈ P, ∑ m ∈ P, ent j * B j m * g.E m k := by
        have : ∀ j ∈ P, ent j * B j k =
            (if j = k then ent j else 0) + ∑ m ∈ P, ent j * B j m * g.E m k := by
          intro j hj
          rw [hB j hj k hkP, mul_add, Finset.mul_sum]
          congr 1
          · by_cases h : j = k <;> simp [h]
          · apply Finset.sum_congr rfl; intro m _; rw [mul_assoc]
        rw [Finset.sum_congr rfl this, Finset.sum_add_distrib, Finset.sum_ite_eq' P k ent,
          if_pos hkP]
      have h2 : ∑ i ∈ P, (∑ j ∈ P, ent j * B j i) * g.E i k
          = ∑ j ∈ P, ∑ m ∈ P, ent j * B j m * g.E m k := by
        rw [Finset.sum_comm]
        apply Finset.sum_congr rfl; intro i _; rw [Finset.sum_mul]
      rw [h1, h2, hent k, add_assoc]
    · have hkD : k ∈ D := by
        rcases Finset.mem_union.mp hk with h | h
        · exact h
        · exact absurd h hkP
      have h2 : ∑ i ∈ P, (∑ j ∈ P, ent j * B j i) * g.E i k = 0 := by
        apply Finset.sum_eq_zero
        intro i hi; rw [hback i hi k hkD, mul_zero]
      rw [hx' k, hadd0 k hkP, add_zero, h2, add_zero]
      exact hx.2 k hkD

/-- what `solve_left` needs from the closure matrix of a block: its keys lie inside the block
and it satisfies the right unfolding `B = I + B · A` restricted to the block -/
def Block.RightClosed (g : WGraph ι K) (blk : Block ι K) : Prop :=
  (∀ e ∈ blk.clo, e.1.1 ∈ blk.nodes ∧ e.1.2 ∈ blk.nodes) ∧
  ∀ j ∈ blk.nodes, ∀ k ∈ blk.nodes,
    blk.B j k = (if j = k then 1 else 0) + (blk.nodes.map fun m => blk.B j m * g.E m k).sum

/-- what `solve_right` needs: the left unfolding `B = I + A · B` restricted to the block -/
def Block.LeftClosed (g : WGraph ι K) (blk : Block ι K) : Prop :=
  (∀ e ∈ blk.clo, e.1.1 ∈ blk.nodes ∧ e.1.2 ∈ blk.nodes) ∧
  ∀ j ∈ blk.nodes, ∀ k ∈ blk.nodes,
    blk.B j k = (if j = k then 1 else 0) + (blk.nodes.map fun m => g.E j m * blk.B m k).sum

theorem wlook_clo_left (clo : List ((ι × ι) × K)) (P : List ι) (ent : ι → K)
    (hclo : ∀ e ∈ clo, e.1.1 ∈ P) (k : ι) :
    wlook (clo.map fun e => (e.1.2, ent e.1.1 * e.2)) k
      = ∑ j ∈ P.toFinset, ent j * wlook clo (j, k) := by
  induction clo with
  | nil => simp [wlook_nil]
  | cons e clo ih =>
    rw [List.map_cons, wlook_cons, ih (fun e' he' => hclo e' (by simp [he']))]
    have : ∀ j, ent j * wlook (e :: clo) (j, k) =
        (if e.1.1 = j then (if e.1.2 = k then ent j * e.2 else 0) else 0)
          + ent j * wlook clo (j, k) := by
      intro j
      rw [wlook_cons, mul_add]
      congr 1
      by_cases h1 : e.1.1 = j <;> by_cases h2 : e.1.2 = k <;> simp [Prod.ext_iff, h1, h2]
    simp only [this]
    rw [Finset.sum_add_distrib, Finset.sum_ite_eq P.toFinset e.1.1,
      if_pos (List.mem_toFinset.mpr (hclo e (by simp)))]

theorem solveLeftBlock_look (g : WGraph ι K) (hg : g.WF) (b : ι → K) (sol : List (ι × K))
    (blk : Block ι K) (hP : blk.nodes.Nodup) (hclo : ∀ e ∈ blk.clo, e.1.1 ∈ blk.nodes) (k : ι) :
    wlook (solveLeftBlock g b sol blk) k = wlook sol k + ∑ j ∈ blk.nodes.toFinset,
      (b j + ∑ i ∈ g.nodes.toFinset, wlook sol i * g.E i j) * blk.B j k := by
  unfold solveLeftBlock
  simp only []
  rw [wlook_append, wlook_clo_left blk.clo blk.nodes _ hclo k]
  congr 1
  apply Finset.sum_congr rfl
  intro j hj
  rw [List.mem_toFinset] at hj
  unfold enterLeft
  rw [wlook_map_key blk.nodes _ hP j, if_pos hj, sum_incoming g hg]
  rfl

theorem solveLeft_snoc (g : WGraph ι K) (b : ι → K) (pre : List (Block ι K)) (blk : Block ι K) :
    solveLeft g (pre ++ [blk]) b = solveLeftBlock g b (solveLeft g pre b) blk := by
  simp [solveLeft, List.foldl_append]

/-- the loop invariant holds after all blocks (triangularity in `Pairwise` form) -/
theorem solveLeft_inv (g : WGraph ι K) (hg : g.WF) (b : ι → K) (blocks : List (Block ι K))
    (hnd : (blocks.map (·.nodes)).flatten.Nodup)
    (hsub : ∀ blk ∈ blocks, ∀ k ∈ blk.nodes, k ∈ g.nodes)
    (htri : blocks.Pairwise fun P Q => ∀ i ∈ Q.nodes, ∀ j ∈ P.nodes, g.E i j = 0)
    (hclo : ∀ blk ∈ blocks, blk.RightClosed g) :
    LeftInv g b (blocks.map (·.nodes)).flatten.toFinset
      (fun k => wlook (solveLeft g blocks b) k) := by
  induction blocks using List.reverseRecOn with
  | nil =>
    refine ⟨fun k _ => rfl, ?_⟩
    intro k hk; simp at hk
  | append_singleton pre blk ih =>
    rw [List.map_append, List.flatten_append, List.nodup_append] at hnd
    simp only [List.map_cons, List.map_nil, List.flatten_cons, List.flatten_nil,
      List.append_nil] at hnd
    rw [List.pairwise_append] at htri
    have ih' := ih hnd.1 (fun B hB => hsub B (by simp [hB])) htri.1
      (fun B hB => hclo B (by simp [hB]))
    have hc := hclo blk (by simp)
    rw [List.map_append, List.flatten_append, List.toFinset_append]
    simp only [List.map_cons, List.map_nil, List.flatten_cons, List.flatten_nil, List.append_nil]
    apply leftInv_step g b _ blk.nodes.toFinset _
      (fun j => b j + ∑ i ∈ g.nodes.toFinset, wlook (solveLeft g pre b) i * g.E i j) _
      blk.B ih'
    · intro k hk
      rw [List.mem_toFinset] at hk ⊢
      exact hsub blk (by simp) k hk
    · rw [Finset.disjoint_left]
      intro k hk hk'
      rw [List.mem_toFinset] at hk hk'
      exact hnd.2.2 k hk' k hk rfl
    · intro i hi k hk
      rw [List.mem_toFinset] at hi hk
      obtain ⟨N, hN, hkN⟩ := List.mem_flatten.mp hk
      obtain ⟨Q, hQ, rfl⟩ := List.mem_map.mp hN
      exact htri.2.2 Q hQ blk (by simp) i hi k hkN
    · intro j k hk
      rw [List.mem_toFinset] at hk
      apply wlook_eq_zero
      intro e he heq
      apply hk
      have := (hc.1 e he).2
      rw [heq] at this; exact this
    · intro j hj k hk
      rw [List.mem_toFinset] at hj hk
      rw [hc.2 j hj k hk, List.sum_toFinset _ hnd.2.1]
    · intro j; rfl
    · intro k
      rw [solveLeft_snoc]
      exact solveLeftBlock_look g hg b _ blk hnd.2.1 (fun e he => (hc.1 e he).1) k

omit [CommSemiring K] in
theorem blockIdx_cons (P : List ι) (L : List (List ι)) (u : ι) :
    blockIdx (P :: L) u = if u ∈ P then 0 else blockIdx L u + 1 := by
  unfold blockIdx
  rw [List.findIdx_cons]
  by_cases h : u ∈ P <;> simp [h]

omit [CommSemiring K] in
/-- "no `R i j` from a strictly later block `i` to an earlier block `j`", from the statement
with block indices to the `Pairwise` form -/
theorem pairwise_of_blockIdx (L : List (List ι)) (hnd : L.flatten.Nodup) (R : ι → ι → Prop)
    (h : ∀ i j, i ∈ L.flatten → j ∈ L.flatten → blockIdx L j < blockIdx L i → R i j) :
    L.Pairwise fun P Q => ∀ i ∈ Q, ∀ j ∈ P, R i j := by
  induction L with
  | nil => exact List.Pairwise.nil
  | cons P L ih =>
    rw [List.flatten_cons, List.nodup_append] at hnd
    rw [List.pairwise_cons]
    refine ⟨?_, ih hnd.2.1 ?_⟩
    · intro Q hQ i hi j hj
      have hiL : i ∈ L.flatten := List.mem_flatten.mpr ⟨Q, hQ, hi⟩
      have hiP : i ∉ P := fun hp => hnd.2.2 i hp i hiL rfl
      apply h i j
      · rw [List.flatten_cons]; exact List.mem_append_right _ hiL
      · rw [List.flatten_cons]; exact List.mem_append_left _ hj
      · rw [blockIdx_cons, blockIdx_cons, if_pos hj, if_neg hiP]; omega
    · intro i j hi hj hlt
      have hiP : i ∉ P := fun hp => hnd.2.2 i hp i hi rfl
      have hjP : j ∉ P := fun hp => hnd.2.2 j hp j hj rfl
      apply h i j
      · rw [List.flatten_cons]; exact List.mem_append_right _ hi
      · rw [List.flatten_cons]; exact List.mem_append_right _ hj
      · rw [blockIdx_cons, blockIdx_cons, if_neg hjP, if_neg hiP]; omega

/-- **`solve_left` solves `x = x A + b`.**  Hypotheses: the representation invariant of the
graph; the blocks are duplicate-free, pairwise disjoint (`hnd`) and cover exactly the nodes
(`hcov`); no non-zero edge goes from a strictly later block to an earlier one (`htri`); every
block matrix has its keys in the block and satisfies `B = I + B · A_bb` (`hclo`). -/
theorem solveLeft_eq (g : WGraph ι K) (hg : g.WF) (blocks : List (Block ι K)) (b : ι → K)
    (hnd : (blocks.map (·.nodes)).flatten.Nodup)
    (hcov : ∀ k, k ∈ g.nodes ↔ k ∈ (blocks.map (·.nodes)).flatten)
    (htri : ∀ i j, i ∈ g.nodes → j ∈ g.nodes →
      blockIdx (blocks.map (·.nodes)) j < blockIdx (blocks.map (·.nodes)) i → g.E i j = 0)
    (hclo : ∀ blk ∈ blocks, blk.RightClosed g) :
    (∀ k ∈ g.nodes, wlook (solveLeft g blocks b) k
        = b k + (g.nodes.map fun i => wlook (solveLeft g blocks b) i * g.E i k).sum)
    ∧ ∀ k, k ∉ g.nodes → wlook (solveLeft g blocks b) k = 0 := by
  have hpw := pairwise_of_blockIdx (blocks.map (·.nodes)) hnd (fun i j => g.E i j = 0)
    (fun i j hi hj => htri i j ((hcov i).mpr hi) ((hcov j).mpr hj))
  rw [List.pairwise_map] at hpw
  have hsub : ∀ blk ∈ blocks, ∀ k ∈ blk.nodes, k ∈ g.nodes := fun blk hb k hk =>
    (hcov k).mpr (List.mem_flatten.mpr ⟨blk.nodes, List.mem_map_of_mem hb, hk⟩)
  have inv := solveLeft_inv g hg b blocks hnd hsub hpw hclo
  constructor
  · intro k hk
    have := inv.2 k (List.mem_toFinset.mpr ((hcov k).mp hk))
    rw [List.sum_toFinset _ hg.1] at this
    exact this
  · intro k hk
    exact inv.1 k (fun h => hk ((hcov k).mpr (List.mem_toFinset.mp h)))

/-! transposition: `solve_right` is `solve_left` on the transposed graph -/

def WGraph.transpose (g : WGraph ι K) : WGraph ι K :=
  ⟨g.nodes, g.edges.map fun e => ((e.1.2, e.1.1), e.2)⟩

def Block.transpose (blk : Block ι K) : Block ι K :=
  ⟨blk.nodes, blk.clo.map fun e => ((e.1.2, e.1.1), e.2)⟩

theorem wlook_swap (l : List ((ι × ι) × K)) (i j : ι) :
    wlook (l.map fun e => ((e.1.2, e.1.1), e.2)) (i, j) = wlook l (j, i) :=
  wlook_map_inj (fun p : ι × ι => (p.2, p.1))
    (fun p q h => by
      have := Prod.mk.inj h
      exact Prod.ext this.2 this.1) l (j, i)

theorem transpose_E (g : WGraph ι K) (i j : ι) : g.transpose.E i j = g.E j i :=
  wlook_swap g.edges i j

theorem transpose_B (blk : Block ι K) (i j : ι) : blk.transpose.B i j = blk.B j i :=
  wlook_swap blk.clo i j

omit [CommSemiring K] in
theorem transpose_incoming (g : WGraph ι K) (j : ι) : g.transpose.incoming j = g.outgoing j := by
  unfold WGraph.incoming WGraph.outgoing WGraph.arcs WGraph.transpose
  simp only [List.map_map, List.filter_map, Function.comp_def]

omit [DecidableEq ι] [CommSemiring K] in
theorem transpose_WF (g : WGraph ι K) (hg : g.WF) : g.transpose.WF := by
  refine ⟨hg.1, ?_⟩
  intro e he
  simp only [WGraph.transpose, List.mem_map] at he
  obtain ⟨e', he', rfl⟩ := he
  exact ⟨(hg.2 e' he').2, (hg.2 e' he').1⟩

theorem solveRightBlock_eq (g : WGraph ι K) (b : ι → K) (sol : List (ι × K)) (blk : Block ι K) :
    solveRightBlock g b sol blk = solveLeftBlock g.transpose b sol blk.transpose := by
  have hent : enterRight g b sol blk = enterLeft g.transpose b sol blk.transpose := by
    unfold enterRight enterLeft
    simp only [transpose_incoming, transpose_E, mul_comm]
    rfl
  unfold solveRightBlock solveLeftBlock
  simp only [hent]
  congr 1
  simp only [Block.transpose, List.map_map, Function.comp_def, mul_comm]

theorem solveRight_eq_solveLeft_transpose (g : WGraph ι K) (blocks : List (Block ι K))
    (b : ι → K) :
    solveRight g blocks b = solveLeft g.transpose (blocks.reverse.map Block.transpose) b := by
  unfold solveRight solveLeft
  rw [List.foldl_map]
  congr 1
  funext sol blk
  exact solveRightBlock_eq g b sol blk

omit [DecidableEq ι] [CommSemiring K] in
theorem transpose_nodes_reverse (blocks : List (Block ι K)) :
    (blocks.reverse.map Block.transpose).map (·.nodes) = (blocks.map (·.nodes)).reverse := by
  rw [List.map_map, ← List.map_reverse]
  rfl

/-- **`solve_right` solves `x = A x + b`** (same hypotheses as `solveLeft_eq`, with the left
unfolding `B = I + A_bb · B` for the block matrices). -/
theorem solveRight_eq (g : WGraph ι K) (hg : g.WF) (blocks : List (Block ι K)) (b : ι → K)
    (hnd : (blocks.map (·.nodes)).flatten.Nodup)
    (hcov : ∀ k, k ∈ g.nodes ↔ k ∈ (blocks.map (·.nodes)).flatten)
    (htri : ∀ i j, i ∈ g.nodes → j ∈ g.nodes →
      blockIdx (blocks.map (·.nodes)) j < blockIdx (blocks.map (·.nodes)) i → g.E i j = 0)
    (hclo : ∀ blk ∈ blocks, blk.LeftClosed g) :
    (∀ k ∈ g.nodes, wlook (solveRight g blocks b) k
        = b k + (g.nodes.map fun i => g.E k i * wlook (solveRight g blocks b) i).sum)
    ∧ ∀ k, k ∉ g.nodes → wlook (solveRight g blocks b) k = 0 := by
  have hpw := pairwise_of_blockIdx (blocks.map (·.nodes)) hnd (fun i j => g.E i j = 0)
    (fun i j hi hj => htri i j ((hcov i).mpr hi) ((hcov j).mpr hj))
  rw [List.pairwise_map] at hpw
  have hperm : ((blocks.reverse.map Block.transpose).map (·.nodes)).flatten.Perm
      (blocks.map (·.nodes)).flatten := by
    rw [transpose_nodes_reverse]
    exact (List.reverse_perm _).flatten
  have inv := solveLeft_inv g.transpose (transpose_WF g hg) b (blocks.reverse.map Block.transpose)
    (hperm.nodup_iff.mpr hnd)
    (by
      intro blk hb k hk
      obtain ⟨blk0, hb0, rfl⟩ := List.mem_map.mp hb
      exact (hcov k).mpr (List.mem_flatten.mpr
        ⟨blk0.nodes, List.mem_map_of_mem (List.mem_reverse.mp hb0), hk⟩))
    (by
      rw [List.pairwise_map, List.pairwise_reverse]
      refine hpw.imp ?_
      intro P Q h i hi j hj
      rw [transpose_E]
      exact h j hj i hi)
    (by
      intro blk hb
      obtain ⟨blk0, hb0, rfl⟩ := List.mem_map.mp hb
      have hc := hclo blk0 (List.mem_reverse.mp hb0)
      refine ⟨?_, ?_⟩
      · intro e he
        simp only [Block.transpose, List.mem_map] at he
        obtain ⟨e', he', rfl⟩ := he
        exact ⟨(hc.1 e' he').2, (hc.1 e' he').1⟩
      · intro j hj k hk
        rw [transpose_B, hc.2 k hk j hj]
        congr 1
        · by_cases h : j = k
          · subst h; simp
          · have : ¬ k = j := fun e => h e.symm
            simp [h, this]
        · congr 1
          apply List.map_congr_left
          intro m _
          rw [transpose_B, transpose_E, mul_comm])
  rw [← solveRight_eq_solveLeft_transpose, List.toFinset_eq_of_perm _ _ hperm] at inv
  constructor
  · intro k hk
    have h := inv.2 k (List.mem_toFinset.mpr ((hcov k).mp hk))
    have hn : g.transpose.nodes = g.nodes := rfl
    rw [hn, List.sum_toFinset _ hg.1] at h
    simp only [transpose_E] at h
    refine h.trans ?_
    congr 2
    apply List.map_congr_left
    intro i _
    rw [mul_comm]
  · intro k hk
    exact inv.1 k (fun h => hk ((hcov k).mpr (List.mem_toFinset.mp h)))

/-- **row `i` of `closure_scc_based`** is `solve_left(e_i)` … -/
theorem closureScc_row_eq_solveLeft (g : WGraph ι K) (hN : g.nodes.Nodup) (blocks : List (Block ι K))
    (i k : ι) (hi : i ∈ g.nodes) :
    wlook (closureScc g blocks) (i, k)
      = wlook (solveLeft g blocks (fun j => if j = i then 1 else 0)) k := by
  unfold closureScc
  generalize g.nodes = N at hN hi
  induction N with
  | nil => simp at hi
  | cons a N ih =>
    rw [List.nodup_cons] at hN
    rw [List.flatMap_cons, wlook_append]
    have hrow : ∀ (a : ι) (sol : List (ι × K)),
        wlook (sol.map fun e => ((a, e.1), e.2)) (i, k) = if a = i then wlook sol k else 0 := by
      intro a sol
      by_cases h : a = i
      · subst h
        rw [if_pos rfl]
        exact wlook_map_inj (fun j : ι => (a, j)) (fun _ _ h => (Prod.mk.inj h).2) sol k
      · rw [if_neg h]
        apply wlook_eq_zero
        intro e he
        obtain ⟨e', _, rfl⟩ := List.mem_map.mp he
        intro h'; exact h (Prod.mk.inj h').1
    rw [hrow]
    by_cases h : a = i
    · subst h
      have hz : ∀ F : ι → List (ι × K),
          wlook (N.flatMap fun i => (F i).map fun e => ((i, e.1), e.2)) (a, k) = 0 := by
        intro F
        apply wlook_eq_zero
        intro e he
        obtain ⟨a', ha', he'⟩ := List.mem_flatMap.mp he
        obtain ⟨e', _, rfl⟩ := List.mem_map.mp he'
        intro h'
        have : a' = a := (Prod.mk.inj h').1
        exact hN.1 (this ▸ ha')
      rw [if_pos rfl, hz, add_zero]
    · rw [if_neg h, zero_add]
      rcases List.mem_cons.mp hi with rfl | hi'
      · exact absurd rfl h
      · exact ih hN.2 hi'

/-- … **and hence satisfies `K_i = e_i + K_i · A`.** -/
theorem closure_scc_row (g : WGraph ι K) (hg : g.WF) (blocks : List (Block ι K))
    (hnd : (blocks.map (·.nodes)).flatten.Nodup)
    (hcov : ∀ k, k ∈ g.nodes ↔ k ∈ (blocks.map (·.nodes)).flatten)
    (htri : ∀ i j, i ∈ g.nodes → j ∈ g.nodes →
      blockIdx (blocks.map (·.nodes)) j < blockIdx (blocks.map (·.nodes)) i → g.E i j = 0)
    (hclo : ∀ blk ∈ blocks, blk.RightClosed g) (i : ι) (hi : i ∈ g.nodes) :
    ∀ k ∈ g.nodes, wlook (closureScc g blocks) (i, k)
      = (if k = i then 1 else 0)
        + (g.nodes.map fun m => wlook (closureScc g blocks) (i, m) * g.E m k).sum := by
  intro k hk
  have h := (solveLeft_eq g hg blocks (fun j => if j = i then 1 else 0) hnd hcov htri hclo).1 k hk
  simp only [closureScc_row_eq_solveLeft g hg.1 blocks i _ hi]
  exact h

end Solve

/-! ### `_closure`: Lehmann's algorithm (Gauss–Jordan elimination) -/
section Lehmann
variable {ι K : Type} [DecidableEq ι] [CommSemiring K]

/-- the pivot step on matrices as functions -/
def pivF (star : K → K) (M : ι → ι → K) (j : ι) : ι → ι → K :=
  fun i k => M i k + M i j * star (M j j) * M j k

def runF (star : K → K) : List ι → (ι → ι → K) → ι → ι → K
  | [], M => M
  | j :: js, M => runF star js (pivF star M j)

def pivotsF (star : K → K) : List ι → (ι → ι → K) → List K
  | [], _ => []
  | j :: js, M => M j j :: pivotsF star js (pivF star M j)

/-- Gauss–Jordan invariant: after the pivots `P`, `M = A + A · D_P · M = A + M · D_P · A`
(`M i k` is the total weight of the non-empty paths from `i` to `k` whose interior lies in `P`) -/
def GJInv (A : ι → ι → K) (P : Finset ι) (M : ι → ι → K) : Prop :=
  (∀ i k, M i k = A i k + ∑ p ∈ P, A i p * M p k) ∧
  (∀ i k, M i k = A i k + ∑ p ∈ P, M i p * A p k)

/-- **one-pivot lemma**: any `s` with `s = 1 + M j j * s` (e.g. `star (M j j)`) preserves the
invariant, in every commutative semiring -/
theorem gj_step (A : ι → ι → K) (P : Finset ι) (M : ι → ι → K) (j : ι) (s : K) (hj : j ∉ P)
    (hs : s = 1 + M j j * s) (h : GJInv A P M) :
    GJInv A (insert j P) (fun i k => M i k + M i j * s * M j k) := by
  constructor
  · intro i k
    have hik := h.1 i k
    have hij := h.1 i j
    have hsum : ∑ p ∈ P, A i p * (M p k + M p j * s * M j k) =
        (∑ p ∈ P, A i p * M p k) + (∑ p ∈ P, A i p * M p j) * (s * M j k) := by
      rw [Finset.sum_mul, ← Finset.sum_add_distrib]
      apply Finset.sum_congr rfl; intro p _; ring
    have e : M j k + M j j * s * M j k = s * M j k := by
      conv_rhs => rw [hs]
      ring
    show M i k + M i j * s * M j k = A i k + ∑ p ∈ insert j P, A i p * (M p k + M p j * s * M j k)
    rw [Finset.sum_insert hj, hsum, e]
    generalize (∑ p ∈ P, A i p * M p k) = U at hik ⊢
    generalize (∑ p ∈ P, A i p * M p j) = T at hij ⊢
    rw [hik, hij]; ring
  · intro i k
    have hik := h.2 i k
    have hjk := h.2 j k
    have hsum : ∑ p ∈ P, (M i p + M i j * s * M j p) * A p k =
        (∑ p ∈ P, M i p * A p k) + (M i j * s) * (∑ p ∈ P, M j p * A p k) := by
      rw [Finset.mul_sum, ← Finset.sum_add_distrib]
      apply Finset.sum_congr rfl; intro p _; ring
    have e : M i j + M i j * s * M j j = M i j * s := by
      conv_rhs => rw [hs]
      ring
    show M i k + M i j * s * M j k = A i k + ∑ p ∈ insert j P, (M i p + M i j * s * M j p) * A p k
    rw [Finset.sum_insert hj, hsum, e]
    generalize (∑ p ∈ P, M i p * A p k) = V at hik ⊢
    generalize (∑ p ∈ P, M j p * A p k) = W at hjk ⊢
    rw [hik, hjk]; ring

theorem gj_run (A : ι → ι → K) (star : K → K) (js : List ι) (hjs : js.Nodup) (P : Finset ι)
    (hP : ∀ j ∈ js, j ∉ P) (M : ι → ι → K) (h : GJInv A P M)
    (hstar : ∀ a ∈ pivotsF star js M, star a = 1 + a * star a) :
    GJInv A (P ∪ js.toFinset) (runF star js M) := by
  induction js generalizing P M with
  | nil => simpa [runF] using h
  | cons j js ih =>
    rw [List.nodup_cons] at hjs
    have h1 := gj_step A P M j (star (M j j)) (hP j (by simp))
      (hstar _ (by simp [pivotsF])) h
    have := ih hjs.2 (insert j P)
      (by
        intro j' hj' hmem
        rcases Finset.mem_insert.mp hmem with rfl | hmem
        · exact hjs.1 hj'
        · exact hP j' (by simp [hj']) hmem)
      (pivF star M j) h1 (fun a ha => hstar a (by simp [pivotsF, ha]))
    rw [List.toFinset_cons, Finset.union_insert, ← Finset.insert_union]
    exact this

/-- the chart `old` and the function `M` agree on `N × N` -/
def AgreeOn (N : List ι) (old : List ((ι × ι) × K)) (M : ι → ι → K) : Prop :=
  ∀ i ∈ N, ∀ k ∈ N, wlook old (i, k) = M i k

theorem agree_step (star : K → K) (N : List ι) (hN : N.Nodup) (old : List ((ι × ι) × K))
    (M : ι → ι → K) (h : AgreeOn N old M) (j : ι) (hj : j ∈ N) :
    AgreeOn N (lehStep star N old j) (pivF star M j) := by
  intro i hi k hk
  unfold lehStep
  simp only []
  rw [wlook_table N N _ hN hN i k, if_pos ⟨hi, hk⟩, h i hi k hk, h i hi j hj, h j hj j hj,
    h j hj k hk]
  rfl

theorem agree_run (star : K → K) (N : List ι) (hN : N.Nodup) (js : List ι)
    (hjs : ∀ j ∈ js, j ∈ N) (old : List ((ι × ι) × K)) (M : ι → ι → K) (h : AgreeOn N old M) :
    AgreeOn N (lehRun star N js old) (runF star js M) ∧
      lehPivots star N js old = pivotsF star js M := by
  induction js generalizing old M with
  | nil => exact ⟨h, rfl⟩
  | cons j js ih =>
    have hj : j ∈ N := hjs j (by simp)
    have := ih (fun j' hj' => hjs j' (by simp [hj'])) _ _ (agree_step star N hN old M h j hj)
    refine ⟨this.1, ?_⟩
    simp only [lehPivots, pivotsF]
    rw [this.2, h j hj j hj]

theorem lehmann_general (g : WGraph ι K) (star : K → K) (N : List ι) (hN : ∀ i, N ≠ [i]) :
    lehmann g star N = (N.flatMap fun i => N.map fun k =>
      ((i, k), if i = k then wlook (lehRun star N N g.edges) (i, k) + 1
        else wlook (lehRun star N N g.edges) (i, k))) ∧
    lehmannPivots g star N = lehPivots star N N g.edges := by
  unfold lehmann lehmannPivots
  constructor
  · split
    · exact absurd rfl (hN _)
    · rfl
  · split
    · exact absurd rfl (hN _)
    · rfl

/-- **`_closure` is correct in every commutative semiring in which `star` unfolds at the pivots
actually used**: the computed block matrix `C` has its keys in `N × N`, and `C = I + C · A_NN`
and `C = I + A_NN · C`. -/
theorem lehmann_closed (g : WGraph ι K) (star : K → K) (N : List ι) (hN : N.Nodup)
    (hstar : ∀ a ∈ lehmannPivots g star N, star a = 1 + a * star a) :
    (⟨N, lehmann g star N⟩ : Block ι K).RightClosed g ∧
    (⟨N, lehmann g star N⟩ : Block ι K).LeftClosed g := by
  by_cases h1 : ∃ i, N = [i]
  · obtain ⟨i, rfl⟩ := h1
    have hs := hstar (g.E i i) (by simp [lehmannPivots])
    have hB : (⟨[i], lehmann g star [i]⟩ : Block ι K).B i i = star (g.E i i) := by
      simp [Block.B, lehmann, wlook_cons, wlook_nil]
    have hkeys : ∀ e ∈ (⟨[i], lehmann g star [i]⟩ : Block ι K).clo,
        e.1.1 ∈ (⟨[i], lehmann g star [i]⟩ : Block ι K).nodes ∧
        e.1.2 ∈ (⟨[i], lehmann g star [i]⟩ : Block ι K).nodes := by
      intro e he
      simp only [lehmann, List.mem_singleton] at he
      subst he; simp
    refine ⟨⟨hkeys, ?_⟩, ⟨hkeys, ?_⟩⟩
    · intro j hj k hk
      simp only [List.mem_singleton] at hj hk
      subst hj; subst hk
      simp only [List.map_cons, List.map_nil, List.sum_cons, List.sum_nil, add_zero, if_true]
      rw [hB]
      conv_lhs => rw [hs]
      rw [mul_comm]
    · intro j hj k hk
      simp only [List.mem_singleton] at hj hk
      subst hj; subst hk
      simp only [List.map_cons, List.map_nil, List.sum_cons, List.sum_nil, add_zero, if_true]
      rw [hB]
      conv_lhs => rw [hs]
  · have hN1 : ∀ i, N ≠ [i] := fun i h => h1 ⟨i, h⟩
    obtain ⟨hleh, hpiv⟩ := lehmann_general g star N hN1
    have hag := agree_run star N hN N (fun j hj => hj) g.edges g.E (fun i _ k _ => rfl)
    rw [hpiv, hag.2] at hstar
    have hinv := gj_run g.E star N hN ∅ (by simp) g.E
      ⟨fun i k => by simp, fun i k => by simp⟩ hstar
    rw [Finset.empty_union] at hinv
    have hB : ∀ i ∈ N, ∀ k ∈ N, (⟨N, lehmann g star N⟩ : Block ι K).B i k =
        runF star N g.E i k + if i = k then 1 else 0 := by
      intro i hi k hk
      simp only [Block.B]
      rw [hleh, wlook_table N N _ hN hN i k, if_pos ⟨hi, hk⟩, hag.1 i hi k hk]
      by_cases h : i = k <;> simp [h]
    have hkeys : ∀ e ∈ (⟨N, lehmann g star N⟩ : Block ι K).clo,
        e.1.1 ∈ N ∧ e.1.2 ∈ N := by
      intro e he
      simp only [] at he
      rw [hleh] at he
      obtain ⟨i, hi, he'⟩ := List.mem_flatMap.mp he
      obtain ⟨k, hk, rfl⟩ := List.mem_map.mp he'
      exact ⟨hi, hk⟩
    refine ⟨⟨hkeys, ?_⟩, ⟨hkeys, ?_⟩⟩
    · intro j hj k hk
      show (⟨N, lehmann g star N⟩ : Block ι K).B j k = (if j = k then 1 else 0)
        + (N.map fun m => (⟨N, lehmann g star N⟩ : Block ι K).B j m * g.E m k).sum
      rw [← List.sum_toFinset _ hN, hB j hj k hk]
      have : ∀ m ∈ N.toFinset, (⟨N, lehmann g star N⟩ : Block ι K).B j m * g.E m k
          = runF star N g.E j m * g.E m k + if j = m then g.E m k else 0 := by
        intro m hm
        rw [hB j hj m (List.mem_toFinset.mp hm), add_mul]
        by_cases h : j = m <;> simp [h]
      rw [Finset.sum_congr rfl this, Finset.sum_add_distrib, Finset.sum_ite_eq N.toFinset j,
        if_pos (List.mem_toFinset.mpr hj), hinv.2 j k]
      ring
    · intro j hj k hk
      show (⟨N, lehmann g star N⟩ : Block ι K).B j k = (if j = k then 1 else 0)
        + (N.map fun m => g.E j m * (⟨N, lehmann g star N⟩ : Block ι K).B m k).sum
      rw [← List.sum_toFinset _ hN, hB j hj k hk]
      have : ∀ m ∈ N.toFinset, g.E j m * (⟨N, lehmann g star N⟩ : Block ι K).B m k
          = g.E j m * runF star N g.E m k + if k = m then g.E j m else 0 := by
        intro m hm
        rw [hB m (List.mem_toFinset.mp hm) k hk, mul_add]
        by_cases h : k = m
        · subst h; simp
        · have : ¬ m = k := fun e => h e.symm
          simp [h, this]
      rw [Finset.sum_congr rfl this, Finset.sum_add_distrib, Finset.sum_ite_eq N.toFinset k,
        if_pos (List.mem_toFinset.mpr hk), hinv.1 j k]
      ring

end Lehmann

/-- **`_closure` over a field** with `star x = (1 - x)⁻¹`, provided no pivot `1 - a_jj` that the
algorithm actually inverts vanishes: `C = I + C · A_NN` and `C = I + A_NN · C` on the block. -/
theorem lehmann_field {ι F : Type} [DecidableEq ι] [Field F] (g : WGraph ι F) (N : List ι)
    (hN : N.Nodup) (hpiv : ∀ a ∈ lehmannPivots g (fun x => (1 - x)⁻¹) N, 1 - a ≠ 0) :
    (⟨N, lehmann g (fun x => (1 - x)⁻¹) N⟩ : Block ι F).RightClosed g ∧
    (⟨N, lehmann g (fun x => (1 - x)⁻¹) N⟩ : Block ι F).LeftClosed g :=
  lehmann_closed g _ N hN (fun a ha => by
    have := hpiv a ha
    field_simp
    ring)

/-! ### the checker for `scc_decomposition` -/
section Scc
variable {ι : Type} [DecidableEq ι]

/-- the edge relation of a list of arcs -/
def arcRel (arcs : List (ι × ι)) : ι → ι → Prop := fun a b => (a, b) ∈ arcs

theorem sccStep_nil (s : List ι) : sccStep [] s = s := rfl

theorem sccStep_cons (e : ι × ι) (arcs : List (ι × ι)) (s : List ι) :
    sccStep (e :: arcs) s = sccStep arcs (if e.1 ∈ s ∧ e.2 ∉ s then e.2 :: s else s) := rfl

/-- every predicate that holds on `s` and is closed under the arcs holds on `sccStep arcs s` -/
theorem sccStep_sound (Q : ι → Prop) (arcs : List (ι × ι)) (s : List ι)
    (hQ : ∀ e ∈ arcs, Q e.1 → Q e.2) (hs : ∀ v ∈ s, Q v) : ∀ v ∈ sccStep arcs s, Q v := by
  induction arcs generalizing s with
  | nil => exact hs
  | cons e arcs ih =>
    rw [sccStep_cons]
    apply ih _ (fun e' he' => hQ e' (by simp [he']))
    split
    · rename_i h
      intro v hv
      rcases List.mem_cons.mp hv with rfl | hv
      · exact hQ e (by simp) (hs _ h.1)
      · exact hs v hv
    · exact hs

theorem sccReach_sound (Q : ι → Prop) (arcs : List (ι × ι)) (n : Nat) (s : List ι)
    (hQ : ∀ e ∈ arcs, Q e.1 → Q e.2) (hs : ∀ v ∈ s, Q v) : ∀ v ∈ sccReach arcs n s, Q v := by
  induction n generalizing s with
  | zero => exact hs
  | succ n ih =>
    unfold sccReach
    split
    · exact hs
    · exact ih _ (sccStep_sound Q arcs s hQ hs)

theorem sccStep_mono (arcs : List (ι × ι)) (s : List ι) :
    (∀ v ∈ s, v ∈ sccStep arcs s) ∧ s.length ≤ (sccStep arcs s).length := by
  induction arcs generalizing s with
  | nil => exact ⟨fun v hv => hv, Nat.le_refl _⟩
  | cons e arcs ih =>
    rw [sccStep_cons]
    split
    · have := ih (e.2 :: s)
      refine ⟨fun v hv => this.1 v (List.mem_cons_of_mem _ hv), ?_⟩
      have h2 := this.2
      simp only [List.length_cons] at h2
      omega
    · exact ih s

theorem sccStep_nodup (arcs : List (ι × ι)) (s : List ι) (hs : s.Nodup) : (sccStep arcs s).Nodup := by
  induction arcs generalizing s with
  | nil => exact hs
  | cons e arcs ih =>
    rw [sccStep_cons]
    split
    · rename_i h
      exact ih _ (List.nodup_cons.mpr ⟨h.2, hs⟩)
    · exact ih s hs

/-- a pass that adds nothing certifies that `s` is closed under the arcs -/
theorem sccStep_closed (arcs : List (ι × ι)) (s : List ι)
    (h : (sccStep arcs s).length = s.length) : ∀ e ∈ arcs, e.1 ∈ s → e.2 ∈ s := by
  induction arcs generalizing s with
  | nil => intro e he; simp at he
  | cons e arcs ih =>
    rw [sccStep_cons] at h
    by_cases hf : e.1 ∈ s ∧ e.2 ∉ s
    · rw [if_pos hf] at h
      have := (sccStep_mono arcs (e.2 :: s)).2
      simp only [List.length_cons] at this
      omega
    · rw [if_neg hf] at h
      intro e' he' h1
      rcases List.mem_cons.mp he' with rfl | he'
      · by_contra h2; exact hf ⟨h1, h2⟩
      · exact ih s h e' he' h1

/-- with enough fuel the result of `sccReach` is closed under the arcs and contains the seed -/
theorem sccReach_closed (arcs : List (ι × ι)) (U : List ι) (hU : ∀ e ∈ arcs, e.2 ∈ U) (n : Nat)
    (s : List ι) (hs : s.Nodup) (hsU : ∀ v ∈ s, v ∈ U) (hn : U.length < s.length + n) :
    (∀ e ∈ arcs, e.1 ∈ sccReach arcs n s → e.2 ∈ sccReach arcs n s) ∧ ∀ v ∈ s, v ∈ sccReach arcs n s := by
  induction n generalizing s with
  | zero =>
    have := hs.length_le_of_subset (fun v hv => hsU v hv)
    omega
  | succ n ih =>
    unfold sccReach
    split
    · rename_i h
      exact ⟨sccStep_closed arcs s h, fun v hv => hv⟩
    · rename_i h
      have hm := sccStep_mono arcs s
      have := ih (sccStep arcs s) (sccStep_nodup arcs s hs)
        (sccStep_sound (· ∈ U) arcs s (fun e he _ => hU e he) hsU) (by omega)
      exact ⟨this.1, fun v hv => this.2 v (hm.1 v hv)⟩

omit [DecidableEq ι] in
theorem sccReach_complete (arcs : List (ι × ι)) (r : List ι)
    (hr : ∀ e ∈ arcs, e.1 ∈ r → e.2 ∈ r) (h v : ι) (hh : h ∈ r)
    (hv : Relation.ReflTransGen (arcRel arcs) h v) : v ∈ r := by
  induction hv with
  | refl => exact hh
  | tail _ hbc ih => exact hr _ hbc ih

/-- **specification of `scc_decomposition`** for the graph `(nodes, arcs)`: `blocks` lists the
strongly connected components, sources first.
* `nodup`: the blocks are duplicate-free and pairwise disjoint;
* `cover`: their union is exactly the node set; with `nodup`, every node lies in exactly one
  block (`IsSccDecomp.unique_block`);
* `scc`: two nodes share a block iff each reaches the other;
* `topo`: an arc from block `p` to block `q` has `p ≤ q`. -/
structure IsSccDecomp (nodes : List ι) (arcs : List (ι × ι)) (blocks : List (List ι)) : Prop where
  nodup : blocks.flatten.Nodup
  nonempty : ∀ N ∈ blocks, N ≠ []
  cover : ∀ u, u ∈ nodes ↔ u ∈ blocks.flatten
  closed : ∀ e ∈ arcs, e.1 ∈ nodes ∧ e.2 ∈ nodes
  scc : ∀ u ∈ nodes, ∀ v ∈ nodes, (∃ N ∈ blocks, u ∈ N ∧ v ∈ N) ↔
    (Relation.ReflTransGen (arcRel arcs) u v ∧ Relation.ReflTransGen (arcRel arcs) v u)
  topo : ∀ (p q : Nat) (N M : List ι), blocks[p]? = some N → blocks[q]? = some M →
    ∀ u ∈ N, ∀ v ∈ M, (u, v) ∈ arcs → p ≤ q

theorem blockIdx_of_getElem (blocks : List (List ι)) (hnd : blocks.flatten.Nodup) (p : Nat)
    (N : List ι) (u : ι) (hp : blocks[p]? = some N) (hu : u ∈ N) : blockIdx blocks u = p := by
  induction blocks generalizing p with
  | nil => simp at hp
  | cons B L ih =>
    rw [List.flatten_cons, List.nodup_append] at hnd
    rw [blockIdx_cons]
    cases p with
    | zero =>
      rw [List.getElem?_cons_zero] at hp
      have : B = N := Option.some.inj hp
      subst this
      rw [if_pos hu]
    | succ p =>
      rw [List.getElem?_cons_succ] at hp
      have huL : u ∈ L.flatten := List.mem_flatten.mpr ⟨N, List.mem_of_getElem? hp, hu⟩
      have : u ∉ B := fun hb => hnd.2.2 u hb u huL rfl
      rw [if_neg this, ih hnd.2.1 p hp]

theorem blockIdx_spec (blocks : List (List ι)) (u : ι) (hu : u ∈ blocks.flatten) :
    ∃ N, blocks[blockIdx blocks u]? = some N ∧ u ∈ N := by
  induction blocks with
  | nil => simp at hu
  | cons B L ih =>
    rw [blockIdx_cons]
    by_cases hb : u ∈ B
    · rw [if_pos hb]; exact ⟨B, List.getElem?_cons_zero, hb⟩
    · rw [if_neg hb, List.getElem?_cons_succ]
      rw [List.flatten_cons, List.mem_append] at hu
      exact ih (hu.resolve_left hb)

/-- (i) every node lies in exactly one block -/
theorem IsSccDecomp.unique_block {nodes : List ι} {arcs : List (ι × ι)} {blocks : List (List ι)}
    (h : IsSccDecomp nodes arcs blocks) (u : ι) (hu : u ∈ nodes) :
    ∃! p : Nat, ∃ N : List ι, blocks[p]? = some N ∧ u ∈ N := by
  refine ⟨blockIdx blocks u, blockIdx_spec blocks u ((h.cover u).mp hu), ?_⟩
  rintro p ⟨N, hp, huN⟩
  exact (blockIdx_of_getElem blocks h.nodup p N u hp huN).symm

theorem IsSccDecomp.idx_mono {nodes : List ι} {arcs : List (ι × ι)} {blocks : List (List ι)}
    (h : IsSccDecomp nodes arcs blocks) {a b : ι} (hab : arcRel arcs a b) :
    blockIdx blocks a ≤ blockIdx blocks b := by
  have hn := h.closed (a, b) hab
  obtain ⟨N, hN, haN⟩ := blockIdx_spec blocks a ((h.cover a).mp hn.1)
  obtain ⟨M, hM, hbM⟩ := blockIdx_spec blocks b ((h.cover b).mp hn.2)
  exact h.topo _ _ N M hN hM a haN b hbM hab

theorem blockIdx_mono_rtg {arcs : List (ι × ι)} {blocks : List (List ι)}
    (hmono : ∀ a b, arcRel arcs a b → blockIdx blocks a ≤ blockIdx blocks b) {a b : ι}
    (hab : Relation.ReflTransGen (arcRel arcs) a b) : blockIdx blocks a ≤ blockIdx blocks b := by
  induction hab with
  | refl => exact Nat.le_refl _
  | tail _ hbc ih => exact Nat.le_trans ih (hmono _ _ hbc)

/-- arcs with both endpoints in `N` -/
def arcsIn (arcs : List (ι × ι)) (N : List ι) : List (ι × ι) :=
  arcs.filter (fun e => decide (e.1 ∈ N) && decide (e.2 ∈ N))

theorem sccBlockOk_sound (arcs : List (ι × ι)) (N : List ι) (h : sccBlockOk arcs N = true) :
    N ≠ [] ∧ ∀ u ∈ N, ∀ v ∈ N, Relation.ReflTransGen (arcRel arcs) u v := by
  cases N with
  | nil => simp [sccBlockOk] at h
  | cons x t =>
    simp only [sccBlockOk, Bool.and_eq_true, List.all_eq_true, decide_eq_true_eq] at h
    obtain ⟨hfw, hbw⟩ := h
    have fw : ∀ v ∈ x :: t, Relation.ReflTransGen (arcRel arcs) x v := fun v hv =>
      sccReach_sound (fun v => Relation.ReflTransGen (arcRel arcs) x v) _ _ _
        (by
          intro e he hq
          have : e ∈ arcs := (List.mem_filter.mp he).1
          exact hq.tail this)
        (by
          intro v hv
          rw [List.mem_singleton] at hv; subst hv
          exact Relation.ReflTransGen.refl) v (hfw v hv)
    have bw : ∀ v ∈ x :: t, Relation.ReflTransGen (arcRel arcs) v x := fun v hv =>
      sccReach_sound (fun v => Relation.ReflTransGen (arcRel arcs) v x) _ _ _
        (by
          intro e he hq
          obtain ⟨e0, he0, rfl⟩ := List.mem_map.mp he
          have : e0 ∈ arcs := (List.mem_filter.mp he0).1
          exact Relation.ReflTransGen.head this hq)
        (by
          intro v hv
          rw [List.mem_singleton] at hv; subst hv
          exact Relation.ReflTransGen.refl) v (hbw v hv)
    exact ⟨by simp, fun u hu v hv => (bw u hu).trans (fw v hv)⟩

theorem sccBlockOk_complete (arcs : List (ι × ι)) (N : List ι) (hN : N ≠ [])
    (hconn : ∀ u ∈ N, ∀ v ∈ N, Relation.ReflTransGen (arcRel (arcsIn arcs N)) u v) :
    sccBlockOk arcs N = true := by
  cases N with
  | nil => exact absurd rfl hN
  | cons x t =>
    simp only [sccBlockOk, Bool.and_eq_true, List.all_eq_true, decide_eq_true_eq]
    have hx : x ∈ x :: t := by simp
    constructor
    · intro v hv
      have hc := sccReach_closed (arcsIn arcs (x :: t)) (x :: t)
        (by
          intro e he
          have := (List.mem_filter.mp he).2
          simp only [Bool.and_eq_true, decide_eq_true_eq] at this
          exact this.2)
        ((x :: t).length + 1) [x] (by simp)
        (by intro v hv; rw [List.mem_singleton] at hv; subst hv; exact hx)
        (by simp only [List.length_cons, List.length_nil]; omega)
      exact sccReach_complete _ _ hc.1 x v (hc.2 x (by simp)) (hconn x hx v hv)
    · intro v hv
      have hc := sccReach_closed ((arcsIn arcs (x :: t)).map fun e => (e.2, e.1)) (x :: t)
        (by
          intro e he
          obtain ⟨e0, he0, rfl⟩ := List.mem_map.mp he
          have := (List.mem_filter.mp he0).2
          simp only [Bool.and_eq_true, decide_eq_true_eq] at this
          exact this.1)
        ((x :: t).length + 1) [x] (by simp)
        (by intro v hv; rw [List.mem_singleton] at hv; subst hv; exact hx)
        (by simp only [List.length_cons, List.length_nil]; omega)
      apply sccReach_complete _ _ hc.1 x v (hc.2 x (by simp))
      have h1 := Relation.reflTransGen_swap.mpr (hconn v hv x hx)
      refine Relation.ReflTransGen.mono ?_ _ _ h1
      intro a b hab
      exact List.mem_map.mpr ⟨(b, a), hab, rfl⟩

/-- inside a component, the connecting paths stay inside the component -/
theorem IsSccDecomp.restrict {nodes : List ι} {arcs : List (ι × ι)} {blocks : List (List ι)}
    (h : IsSccDecomp nodes arcs blocks) (N : List ι) (hN : N ∈ blocks) (u v : ι) (hu : u ∈ N)
    (hv : v ∈ N) : Relation.ReflTransGen (arcRel (arcsIn arcs N)) u v := by
  have hfl : ∀ w ∈ N, w ∈ blocks.flatten := fun w hw => List.mem_flatten.mpr ⟨N, hN, hw⟩
  have hun := (h.cover u).mpr (hfl u hu)
  have hvn := (h.cover v).mpr (hfl v hv)
  have huv := ((h.scc u hun v hvn).mp ⟨N, hN, hu, hv⟩).1
  obtain ⟨p, hp⟩ := List.getElem?_of_mem hN
  have hiv := blockIdx_of_getElem blocks h.nodup p N v hp hv
  have hiu := blockIdx_of_getElem blocks h.nodup p N u hp hu
  have hmono : ∀ a b, arcRel arcs a b → blockIdx blocks a ≤ blockIdx blocks b :=
    fun a b hab => h.idx_mono hab
  have inN : ∀ w, w ∈ nodes → blockIdx blocks w = p → w ∈ N := by
    intro w hw hwp
    obtain ⟨N', hN', hwN'⟩ := blockIdx_spec blocks w ((h.cover w).mp hw)
    rw [hwp, hp] at hN'
    exact (Option.some.inj hN') ▸ hwN'
  have key : ∀ w, Relation.ReflTransGen (arcRel arcs) w v → p ≤ blockIdx blocks w →
      Relation.ReflTransGen (arcRel (arcsIn arcs N)) w v := by
    intro w hw
    induction hw using Relation.ReflTransGen.head_induction_on with
    | refl => intro _; exact Relation.ReflTransGen.refl
    | head hab hbv ih =>
      rename_i a c
      intro hpa
      have h1 := hmono a c hab
      have h2 := blockIdx_mono_rtg hmono hbv
      have hn := h.closed (a, c) hab
      have haN : a ∈ N := inN a hn.1 (by omega)
      have hcN : c ∈ N := inN c hn.2 (by omega)
      refine Relation.ReflTransGen.head ?_ (ih (by omega))
      exact List.mem_filter.mpr ⟨hab, by simp [haN, hcN]⟩
  exact key u huv (by omega)

/-- **soundness and completeness of the checker** -/
theorem sccCheck_iff {K : Type} (g : WGraph ι K) (arcs : List (ι × ι)) (blocks : List (List ι)) :
    sccCheck g arcs blocks = true ↔ IsSccDecomp g.nodes arcs blocks := by
  simp only [sccCheck, Bool.and_eq_true, decide_eq_true_eq, List.all_eq_true]
  constructor
  · rintro ⟨⟨⟨⟨⟨⟨h1, h2⟩, h3⟩, h4⟩, h5⟩, h6⟩, h7⟩
    have hmono : ∀ a b, arcRel arcs a b → blockIdx blocks a ≤ blockIdx blocks b :=
      fun a b hab => h7 (a, b) hab
    refine ⟨h1, ?_, fun u => ⟨h3 u, h4 u⟩, h5, ?_, ?_⟩
    · intro N hN hne
      have := h2 N hN
      subst hne
      simp at this
    · intro u hu v hv
      constructor
      · rintro ⟨N, hN, huN, hvN⟩
        have := (sccBlockOk_sound arcs N (h6 N hN)).2
        exact ⟨this u huN v hvN, this v hvN u huN⟩
      · rintro ⟨huv, hvu⟩
        have e : blockIdx blocks u = blockIdx blocks v :=
          Nat.le_antisymm (blockIdx_mono_rtg hmono huv) (blockIdx_mono_rtg hmono hvu)
        obtain ⟨N, hN, huN⟩ := blockIdx_spec blocks u (h3 u hu)
        obtain ⟨M, hM, hvM⟩ := blockIdx_spec blocks v (h3 v hv)
        rw [e, hM] at hN
        have : M = N := Option.some.inj hN
        subst this
        exact ⟨M, List.mem_of_getElem? hM, huN, hvM⟩
    · intro p q N M hp hq u hu v hv huv
      rw [← blockIdx_of_getElem blocks h1 p N u hp hu, ← blockIdx_of_getElem blocks h1 q M v hq hv]
      exact hmono u v huv
  · intro h
    refine ⟨⟨⟨⟨⟨⟨h.nodup, ?_⟩, fun u hu => (h.cover u).mp hu⟩,
      fun u hu => (h.cover u).mpr hu⟩, h.closed⟩, ?_⟩, ?_⟩
    · intro N hN
      have := h.nonempty N hN
      cases N with
      | nil => exact absurd rfl this
      | cons => rfl
    · intro N hN
      exact sccBlockOk_complete arcs N (h.nonempty N hN)
        (fun u hu v hv => h.restrict N hN u v hu hv)
    · intro e he
      exact h.idx_mono (a := e.1) (b := e.2) he

/-- `sccCheck_sound`: a decomposition accepted by the checker satisfies (i) every node is in
exactly one block, (ii) same block ⇔ mutually reachable, (iii) arcs respect the block order -/
theorem sccCheck_sound {K : Type} (g : WGraph ι K) (arcs : List (ι × ι)) (blocks : List (List ι))
    (h : sccCheck g arcs blocks = true) :
    (∀ u ∈ g.nodes, ∃! p : Nat, ∃ N : List ι, blocks[p]? = some N ∧ u ∈ N) ∧
    (∀ u ∈ g.nodes, ∀ v ∈ g.nodes, (∃ N ∈ blocks, u ∈ N ∧ v ∈ N) ↔
      (Relation.ReflTransGen (fun a b => (a, b) ∈ arcs) u v ∧
        Relation.ReflTransGen (fun a b => (a, b) ∈ arcs) v u)) ∧
    (∀ (p q : Nat) (N M : List ι), blocks[p]? = some N → blocks[q]? = some M →
      ∀ u ∈ N, ∀ v ∈ M, (u, v) ∈ arcs → p ≤ q) := by
  have hd := (sccCheck_iff g arcs blocks).mp h
  exact ⟨hd.unique_block, hd.scc, hd.topo⟩

end Scc

/-! ### putting the pieces together -/
section Glue
variable {ι K : Type} [DecidableEq ι] [CommSemiring K]

/-- a decomposition accepted by `sccCheck` (for the stored keys of `E` as arcs) provides the
structural hypotheses of `solveLeft_eq` / `solveRight_eq` -/
theorem solve_hyps_of_sccCheck (g : WGraph ι K) (bl : List (List ι))
    (h : sccCheck g g.arcs bl = true) :
    bl.flatten.Nodup ∧ (∀ k, k ∈ g.nodes ↔ k ∈ bl.flatten) ∧
    (∀ e ∈ g.edges, e.1.1 ∈ g.nodes ∧ e.1.2 ∈ g.nodes) ∧
    ∀ i j, i ∈ g.nodes → j ∈ g.nodes → blockIdx bl j < blockIdx bl i → g.E i j = 0 := by
  have hd := (sccCheck_iff g g.arcs bl).mp h
  refine ⟨hd.nodup, hd.cover, ?_, ?_⟩
  · intro e he
    exact hd.closed e.1 ((mem_arcs g _).mpr ⟨e, he, rfl⟩)
  · intro i j _ _ hlt
    by_contra hne
    have := hd.idx_mono (a := i) (b := j) (arcs_of_E_ne_zero g i j hne)
    omega

omit [CommSemiring K] in
theorem mkBlocks_nodes [Add K] [Mul K] [Zero K] [One K] (g : WGraph ι K) (star : K → K)
    (bl : List (List ι)) : (mkBlocks g star bl).map (·.nodes) = bl := by
  unfold mkBlocks
  rw [List.map_map]
  exact List.map_id' _

/-- **`closure_scc_based` with `Blocks` computed by `_closure`**: if the decomposition passes
`sccCheck` and `star` unfolds at the pivots used, every row satisfies `K_i = e_i + K_i · A`. -/
theorem closureScc_correct (g : WGraph ι K) (hN : g.nodes.Nodup) (star : K → K)
    (bl : List (List ι)) (hchk : sccCheck g g.arcs bl = true)
    (hstar : ∀ N ∈ bl, ∀ a ∈ lehmannPivots g star N, star a = 1 + a * star a) :
    ∀ i ∈ g.nodes, ∀ k ∈ g.nodes, wlook (closureScc g (mkBlocks g star bl)) (i, k)
      = (if k = i then 1 else 0) + (g.nodes.map fun m =>
          wlook (closureScc g (mkBlocks g star bl)) (i, m) * g.E m k).sum := by
  obtain ⟨hnd, hcov, hE, htri⟩ := solve_hyps_of_sccCheck g bl hchk
  intro i hi
  apply closure_scc_row g ⟨hN, hE⟩ (mkBlocks g star bl)
  · rw [mkBlocks_nodes]; exact hnd
  · rw [mkBlocks_nodes]; exact hcov
  · rw [mkBlocks_nodes]; exact htri
  · intro blk hb
    obtain ⟨N, hNb, rfl⟩ := List.mem_map.mp hb
    exact (lehmann_closed g star N ((List.nodup_flatten.mp hnd).1 N hNb) (hstar N hNb)).1
  · exact hi

/-- `closure_reference`: `_closure(E, N)` on the whole node set satisfies both unfoldings -/
theorem closureRef_closed (g : WGraph ι K) (hN : g.nodes.Nodup) (star : K → K)
    (hstar : ∀ a ∈ lehmannPivots g star g.nodes, star a = 1 + a * star a) :
    ∀ i ∈ g.nodes, ∀ k ∈ g.nodes,
      wlook (closureRef g star) (i, k) = (if i = k then 1 else 0)
        + (g.nodes.map fun m => wlook (closureRef g star) (i, m) * g.E m k).sum ∧
      wlook (closureRef g star) (i, k) = (if i = k then 1 else 0)
        + (g.nodes.map fun m => g.E i m * wlook (closureRef g star) (m, k)).sum := by
  intro i hi k hk
  have h := lehmann_closed g star g.nodes hN hstar
  exact ⟨h.1.2 i hi k hk, h.2.2 i hi k hk⟩

end Glue

/-! ### non-vacuity: a 2-cycle `0 ⇄ 1` with a tail `1 → 2` and a loop at `2`, over `ℚ` -/
section Examples

private def G3 : WGraph Nat ℚ :=
  ⟨[0, 1, 2], [((0, 1), 1/2), ((1, 0), 1/3), ((1, 2), 1/4), ((2, 2), 1/5)]⟩
private def qstar (x : ℚ) : ℚ := (1 - x)⁻¹
private def bl3 : List (List Nat) := [[0, 1], [2]]

/-- the checker accepts the true decomposition (sources first) … -/
example : sccCheck G3 G3.arcs bl3 = true := by decide
/-- … and rejects the wrong order and a split component -/
example : sccCheck G3 G3.arcs [[2], [0, 1]] = false := by decide
example : sccCheck G3 G3.arcs [[0], [1], [2]] = false := by decide

example : G3.WF := by unfold WGraph.WF; decide

private theorem G3_pivots : ∀ N ∈ bl3, ∀ a ∈ lehmannPivots G3 qstar N, 1 - a ≠ 0 := by
  simp [bl3, lehmannPivots, lehPivots, lehStep, wlook, G3, qstar, WGraph.E]
  norm_num

/-- the hypotheses of `lehmann_field` hold for both blocks -/
example : ∀ N ∈ bl3, (⟨N, lehmann G3 qstar N⟩ : Block Nat ℚ).RightClosed G3 ∧
    (⟨N, lehmann G3 qstar N⟩ : Block Nat ℚ).LeftClosed G3 := by
  intro N hN
  refine lehmann_field G3 N ?_ (G3_pivots N hN)
  simp only [bl3, List.mem_cons, List.not_mem_nil, or_false] at hN
  rcases hN with rfl | rfl <;> decide

/-- all hypotheses of `solveLeft_eq` / `solveRight_eq` are met by `G3` with the blocks
computed by `_closure` -/
example (b : Nat → ℚ) :
    (∀ k ∈ G3.nodes, wlook (solveLeft G3 (mkBlocks G3 qstar bl3) b) k
      = b k + (G3.nodes.map fun i =>
          wlook (solveLeft G3 (mkBlocks G3 qstar bl3) b) i * G3.E i k).sum) ∧
    (∀ k ∈ G3.nodes, wlook (solveRight G3 (mkBlocks G3 qstar bl3) b) k
      = b k + (G3.nodes.map fun i =>
          G3.E k i * wlook (solveRight G3 (mkBlocks G3 qstar bl3) b) i).sum) := by
  obtain ⟨hnd, hcov, hE, htri⟩ := solve_hyps_of_sccCheck G3 bl3 (by decide)
  have hWF : G3.WF := ⟨by decide, hE⟩
  have hclo : ∀ blk ∈ mkBlocks G3 qstar bl3, blk.RightClosed G3 ∧ blk.LeftClosed G3 := by
    intro blk hb
    obtain ⟨N, hNb, rfl⟩ := List.mem_map.mp hb
    exact lehmann_field G3 N ((List.nodup_flatten.mp hnd).1 N hNb) (G3_pivots N hNb)
  constructor
  · exact (solveLeft_eq G3 hWF _ b (by rw [mkBlocks_nodes]; exact hnd)
      (by rw [mkBlocks_nodes]; exact hcov) (by rw [mkBlocks_nodes]; exact htri)
      (fun blk hb => (hclo blk hb).1)).1
  · exact (solveRight_eq G3 hWF _ b (by rw [mkBlocks_nodes]; exact hnd)
      (by rw [mkBlocks_nodes]; exact hcov) (by rw [mkBlocks_nodes]; exact htri)
      (fun blk hb => (hclo blk hb).2)).1

/-- `closureScc_correct` applies to `G3` -/
example : ∀ i ∈ G3.nodes, ∀ k ∈ G3.nodes,
    wlook (closureScc G3 (mkBlocks G3 qstar bl3)) (i, k)
      = (if k = i then 1 else 0) + (G3.nodes.map fun m =>
          wlook (closureScc G3 (mkBlocks G3 qstar bl3)) (i, m) * G3.E m k).sum :=
  closureScc_correct G3 (by decide) qstar bl3 (by decide) (fun N hN a ha => by
    have := G3_pivots N hN a ha
    unfold qstar
    field_simp
    ring)

end Examples

end Genlm
