import GenlmModel.Model.WfsaOps
import GenlmModel.Proofs.Basic
import Mathlib.Algebra.BigOperators.Group.List.Basic
import Mathlib.Algebra.BigOperators.Ring.List
import Mathlib.Algebra.Ring.Defs
import Mathlib.Algebra.Ring.Nat
import Mathlib.Tactic.Ring

/-! Correctness of the WFSA mirror models of `Model/WfsaOps.lean` against the path-sum specification
`Qk` / `Pk` / `PN` of `Model/Wfsa.lean` (any commutative semiring, any machine):

* `PNtab_spec`        — the dynamic programme computes `PN` (ε arcs and cycles allowed);
* `Qk_epsfree_length`, `forward_correct`, `forward_correct_PN` — the loop of `WFSA.__call__` on ε-free machines;
* `Qk_succ_right`, `reverse_Qk`, `reverse_Pk`, `reverse_PN`   — `WFSA.reverse`;
* `mapStates_Pk`, `union_Pk` (+ `_PN`)                        — `rename` (injective), `__add__`;
* `zero_spec`, `lift_spec`, `fromString_spec`                 — `zero`, `lift`, `from_string`;
* `Qk_bridge` (first-bridge decomposition), `concat_Pk`, `kleenePlus_Pk` — `__mul__`, `kleene_plus`. -/
namespace Genlm

/-! ### generic list-sum lemmas (in `Genlm.WfsaAux`, opened below) -/
namespace WfsaAux
section Sums
variable {K : Type} [CommSemiring K]

theorem sum_swap {α β : Type} (l : List α) (m : List β) (F : α → β → K) :
    (l.map fun a => (m.map fun b => F a b).sum).sum
      = (m.map fun b => (l.map fun a => F a b).sum).sum := by
  induction l with
  | nil => simp
  | cons a l ih => simp only [List.map_cons, List.sum_cons, ih, List.sum_map_add]

theorem sum_filter_ite {α : Type} (l : List α) (p : α → Bool) (f : α → K) :
    ((l.filter p).map f).sum = (l.map fun a => if p a then f a else 0).sum := by
  induction l with
  | nil => rfl
  | cons a l ih =>
    by_cases hp : p a = true
    · simp [List.filter_cons_of_pos hp, hp, ih]
    · rw [List.filter_cons_of_neg hp]
      simp [hp, ih]

theorem sum_flatMap {α β : Type} (l : List α) (g : α → List β) (f : β → K) :
    ((l.flatMap g).map f).sum = (l.map fun a => ((g a).map f).sum).sum := by
  induction l with
  | nil => rfl
  | cons a l ih => simp [List.flatMap_cons, List.map_append, List.sum_append, ih]

/-- a sum over a duplicate-free list with a single selected index -/
theorem sum_ite_eq_nodup {α : Type} [DecidableEq α] (l : List α) (hl : l.Nodup) (a : α) (h : α → K) :
    (l.map fun i => if a = i then h i else 0).sum = if a ∈ l then h a else 0 := by
  induction l with
  | nil => simp
  | cons b l ih =>
    rw [List.nodup_cons] at hl
    simp only [List.map_cons, List.sum_cons, ih hl.2, List.mem_cons]
    by_cases hab : a = b
    · subst hab; simp [hl.1]
    · simp [hab]

theorem sum_range_ite_eq (n p : Nat) (h : Nat → K) :
    ((List.range n).map fun i => if i = p then h i else 0).sum = if p < n then h p else 0 := by
  induction n with
  | zero => simp
  | succ n ih =>
    rw [List.range_succ, List.map_append, List.sum_append, ih]
    by_cases hp : n = p
    · subst hp; simp
    · have : p < n + 1 ↔ p < n := by omega
      simp [hp, this]

theorem nodup_eraseDups {α : Type} [DecidableEq α] (l : List α) : l.eraseDups.Nodup := by
  generalize hn : l.length = n
  induction n using Nat.strong_induction_on generalizing l with
  | _ n ih =>
    cases l with
    | nil => simp
    | cons a l =>
      rw [List.eraseDups_cons, List.nodup_cons]
      refine ⟨by simp, ih _ ?_ _ rfl⟩
      subst hn
      exact Nat.lt_succ_of_le (List.length_filter_le _ _)

end Sums

/-! ### charts -/
section Chart
variable {ι K : Type} [DecidableEq ι] [CommSemiring K]

theorem wlook_eq_sum_ite (l : List (ι × K)) (i : ι) :
    wlook l i = (l.map fun p => if p.1 = i then p.2 else 0).sum := by
  unfold wlook
  rw [lsum_eq_sum, sum_filter_ite]
  simp

theorem wlook_nil (i : ι) : wlook ([] : List (ι × K)) i = 0 := by simp [wlook, lsum]

theorem wlook_cons (q : ι × K) (l : List (ι × K)) (i : ι) :
    wlook (q :: l) i = (if q.1 = i then q.2 else 0) + wlook l i := by
  simp only [wlook_eq_sum_ite, List.map_cons, List.sum_cons]

/-- a sum `Σ_{q ∈ l} q.2 * G q.1` only depends on the accumulated weights -/
theorem sum_eq_sum_wlook (l : List (ι × K)) (ks : List ι) (hks : ks.Nodup)
    (hmem : ∀ q ∈ l, q.1 ∈ ks) (G : ι → K) :
    (l.map fun q => q.2 * G q.1).sum = (ks.map fun i => wlook l i * G i).sum := by
  induction l with
  | nil => simp [wlook_nil]
  | cons q l ih =>
    have ih' := ih (fun q' hq' => hmem q' (by simp [hq']))
    simp only [List.map_cons, List.sum_cons, ih', wlook_cons, add_mul, List.sum_map_add]
    congr 1
    have := sum_ite_eq_nodup ks hks q.1 (fun i => q.2 * G i)
    simp only [hmem q (by simp), if_true] at this
    rw [← this]
    congr 1
    apply List.map_congr_left
    intro i _
    split <;> simp

theorem sum_accum (l : List (ι × K)) (G : ι → K) :
    ((accum l).map fun q => q.2 * G q.1).sum = (l.map fun q => q.2 * G q.1).sum := by
  rw [sum_eq_sum_wlook l _ (nodup_eraseDups (l.map (·.1))) (fun q hq => by
    rw [List.mem_eraseDups]; exact List.mem_map_of_mem hq)]
  simp [accum, List.map_map, Function.comp_def]

theorem wlook_accum (l : List (ι × K)) (i : ι) : wlook (accum l) i = wlook l i := by
  have h := sum_accum l (fun j => if j = i then 1 else 0)
  simpa [wlook_eq_sum_ite] using h

end Chart
end WfsaAux
open WfsaAux

/-! ### unfolding `Qk` -/
section QkBasics
variable {ι σ K : Type} [DecidableEq ι] [DecidableEq σ] [CommSemiring K]

/-- what remains of `x` after reading the label `l` at its left end (at most one possibility) -/
def lpeel (l : Option σ) (x : List σ) : List (List σ) :=
  match l with
  | none => [x]
  | some a =>
    match x with
    | [] => []
    | b :: x' => if a = b then [x'] else []

theorem Qk_zero (A : WFSA ι σ K) (i : ι) (x : List σ) (j : ι) :
    Qk A 0 i x j = if i = j ∧ x = [] then 1 else 0 := rfl

theorem Qk_succ (A : WFSA ι σ K) (k : Nat) (i : ι) (x : List σ) (j : ι) :
    Qk A (k+1) i x j = ((A.arcs.filter (fun e => e.src = i)).map fun e =>
      ((lpeel e.lbl x).map fun x' => e.w * Qk A k e.dst x' j).sum).sum := by
  simp only [Qk, lsum_eq_sum]
  congr 1
  apply List.map_congr_left
  intro e _
  cases e.lbl with
  | none => simp [lpeel]
  | some a =>
    cases x with
    | nil => simp [lpeel]
    | cons b x' => by_cases hab : a = b <;> simp [lpeel, hab]

theorem Pk_eq (A : WFSA ι σ K) (k : Nat) (x : List σ) :
    Pk A k x = (A.start.map fun s => (A.stop.map fun f => s.2 * Qk A k s.1 x f.1 * f.2).sum).sum := by
  simp only [Pk, lsum_eq_sum]

theorem PN_eq (A : WFSA ι σ K) (n : Nat) (x : List σ) :
    PN A n x = ((List.range (n+1)).map fun k => Pk A k x).sum := by
  simp only [PN, lsum_eq_sum]

/-- if all the mass sits on a single length `m ≤ n`, `PN` is that `Pk` -/
theorem PN_eq_single (A : WFSA ι σ K) (n m : Nat) (x : List σ) (hm : m ≤ n)
    (h : ∀ k, k ≠ m → Pk A k x = 0) : PN A n x = Pk A m x := by
  rw [PN_eq]
  have : ((List.range (n+1)).map fun k => Pk A k x)
      = ((List.range (n+1)).map fun k => if k = m then Pk A k x else 0) := by
    apply List.map_congr_left
    intro k _
    by_cases hk : k = m
    · simp [hk]
    · simp [hk, h k hk]
  rw [this, sum_range_ite_eq, if_pos (by omega)]

end QkBasics

/-! ### concrete machines for the non-vacuity examples (weights in `ℕ`, symbols `7`, `8`) -/

/-- two states, an ε arc closing a cycle `0 -7-> 1 -ε-> 0`, a self loop on `8` -/
def exA : WFSA Nat Nat Nat :=
  ⟨[(0, 1)], [(1, 2)], [⟨0, some 7, 1, 3⟩, ⟨1, none, 0, 5⟩, ⟨0, some 8, 0, 1⟩]⟩

/-- two states, no ε arc, both states initial and final, nondeterministic on `7` -/
def exF : WFSA Nat Nat Nat :=
  ⟨[(0, 1), (1, 2)], [(1, 2), (0, 1)], [⟨0, some 7, 1, 3⟩, ⟨1, some 7, 0, 5⟩, ⟨0, some 7, 0, 1⟩]⟩

/-! ### ε-free machines and `WFSA.__call__` -/
section Forward
variable {ι σ K : Type} [DecidableEq ι] [DecidableEq σ] [CommSemiring K]

/-- no arc is labelled ε -/
def WFSA.EpsFree (A : WFSA ι σ K) : Prop := ∀ e ∈ A.arcs, e.lbl ≠ none

instance (A : WFSA ι σ K) : Decidable A.EpsFree := by unfold WFSA.EpsFree; infer_instance

theorem Qk_epsfree_length (A : WFSA ι σ K) (hA : A.EpsFree) (k : Nat) (i : ι) (x : List σ) (j : ι)
    (hk : k ≠ x.length) : Qk A k i x j = 0 := by
  induction k generalizing i x with
  | zero =>
    have : x ≠ [] := by intro h; subst h; simp at hk
    simp [Qk_zero, this]
  | succ k ih =>
    rw [Qk_succ]
    apply sum_map_zero
    intro e he
    have he' := (List.mem_filter.mp he).1
    cases hl : e.lbl with
    | none => exact absurd hl (hA e he')
    | some a =>
      cases x with
      | nil => simp [lpeel]
      | cons b x' =>
        by_cases hab : a = b
        · have : k ≠ x'.length := by simpa using hk
          simp [lpeel, hab, ih e.dst x' this]
        · simp [lpeel, hab]

theorem Pk_epsfree_length (A : WFSA ι σ K) (hA : A.EpsFree) (k : Nat) (x : List σ)
    (hk : k ≠ x.length) : Pk A k x = 0 := by
  rw [Pk_eq]
  apply sum_map_zero; intro s _
  apply sum_map_zero; intro f _
  rw [Qk_epsfree_length A hA k _ x _ hk]; simp

/-- on an ε-free machine the first arc of a path spelling `a :: x` is labelled `a` -/
theorem Qk_cons_epsfree (A : WFSA ι σ K) (hA : A.EpsFree) (k : Nat) (i : ι) (a : σ) (x : List σ) (j : ι) :
    Qk A (k+1) i (a :: x) j
      = ((A.arcs.filter (fun e => e.src = i ∧ e.lbl = some a)).map fun e => e.w * Qk A k e.dst x j).sum := by
  rw [Qk_succ, sum_filter_ite, sum_filter_ite]
  apply congrArg
  apply List.map_congr_left
  intro e he
  cases hl : e.lbl with
  | none => exact absurd hl (hA e he)
  | some c =>
    by_cases hi : e.src = i <;> by_cases hca : c = a <;> simp [lpeel, hi, hca]

/-- value of the loop of `__call__` started from an arbitrary chart `prev` -/
theorem fwd_from (A : WFSA ι σ K) (hA : A.EpsFree) (x : List σ) (prev : List (ι × K)) :
    fwdStop A (fwdChart A prev x)
      = (prev.map fun p => (A.stop.map fun f => p.2 * Qk A x.length p.1 x f.1 * f.2).sum).sum := by
  induction x generalizing prev with
  | nil =>
    simp only [fwdStop, fwdChart, List.foldl_nil, lsum_eq_sum, List.length_nil, Qk_zero]
    rw [sum_swap]
    apply congrArg
    apply List.map_congr_left
    intro f _
    rw [wlook_eq_sum_ite, ← List.sum_map_mul_right]
    apply congrArg
    apply List.map_congr_left
    intro p _
    by_cases h : p.1 = f.1 <;> simp [h]
  | cons a x ih =>
    have hstep : fwdChart A prev (a :: x) = fwdChart A (fwdStep A prev a) x := rfl
    rw [hstep, ih]
    have hG : ∀ l : List (ι × K),
        (l.map fun p => (A.stop.map fun f => p.2 * Qk A x.length p.1 x f.1 * f.2).sum).sum
          = (l.map fun p => p.2 * (A.stop.map fun f => Qk A x.length p.1 x f.1 * f.2).sum).sum := by
      intro l
      apply congrArg
      apply List.map_congr_left
      intro p _
      rw [← List.sum_map_mul_left]
      apply congrArg
      apply List.map_congr_left
      intro f _
      rw [mul_assoc]
    rw [hG, fwdStep, sum_accum (G := fun j => (A.stop.map fun f => Qk A x.length j x f.1 * f.2).sum),
      sum_flatMap]
    apply congrArg
    apply List.map_congr_left
    intro p _
    simp only [List.map_map, Function.comp_def, List.length_cons, Qk_cons_epsfree A hA,
      ← List.sum_map_mul_left, ← List.sum_map_mul_right]
    rw [sum_swap]
    apply congrArg
    apply List.map_congr_left
    intro f _
    apply congrArg
    apply List.map_congr_left
    intro e _
    ring

/-- **`WFSA.__call__` is the path sum** (the loop, on a machine without ε arcs) -/
theorem forward_correct (A : WFSA ι σ K) (hA : A.EpsFree) (x : List σ) :
    forward A x = Pk A x.length x := by
  rw [forward, fwd_from A hA, Pk_eq]

theorem forward_correct_PN (A : WFSA ι σ K) (hA : A.EpsFree) (x : List σ) (n : Nat) (hn : x.length ≤ n) :
    forward A x = PN A n x := by
  rw [forward_correct A hA, PN_eq_single A n x.length x hn (fun k hk => Pk_epsfree_length A hA k x hk)]

example : exF.EpsFree := by decide
example : ¬ exA.EpsFree := by decide
example : forward exF [7, 7] = 92 := by decide
example : forward exF [7, 7] = PN exF 5 [7, 7] := forward_correct_PN exF (by decide) [7, 7] 5 (by decide)
/-- the hypothesis matters: on a machine with an ε cycle the loop misses the paths through ε -/
example : forward exA [7, 7] = 0 ∧ PN exA 3 [7, 7] = 90 := by decide

end Forward

/-! ### the dynamic programme `PNtab` -/
section Tab
variable {ι σ K : Type} [DecidableEq ι] [DecidableEq σ] [CommSemiring K]

omit [DecidableEq σ] [CommSemiring K] in
theorem mem_states_start (A : WFSA ι σ K) (s : ι × K) (h : s ∈ A.start) : s.1 ∈ A.states := by
  simp only [WFSA.states, List.mem_eraseDups, List.mem_append, List.mem_map]
  exact Or.inl (Or.inl ⟨s, h, rfl⟩)

omit [DecidableEq σ] [CommSemiring K] in
theorem mem_states_dst (A : WFSA ι σ K) (e : Arc ι σ K) (h : e ∈ A.arcs) : e.dst ∈ A.states := by
  simp only [WFSA.states, List.mem_eraseDups, List.mem_append, List.mem_flatMap]
  exact Or.inr ⟨e, h, by simp⟩

omit [DecidableEq σ] [CommSemiring K] in
theorem mem_pnKeys (A : WFSA ι σ K) (x : List σ) (i : ι) (p : Nat) :
    (i, p) ∈ pnKeys A x ↔ i ∈ A.states ∧ p ≤ x.length := by
  simp only [pnKeys, List.mem_flatMap, List.mem_map, List.mem_range, Prod.mk.injEq]
  constructor
  · rintro ⟨i', hi', p', hp', rfl, rfl⟩; exact ⟨hi', by omega⟩
  · rintro ⟨hi, hp⟩; exact ⟨i, hi, p, by omega, rfl, rfl⟩

theorem PTab.get_map (keys : List (ι × Nat)) (g : ι → Nat → K) (i : ι) (p : Nat)
    (h : (i, p) ∈ keys) : PTab.get (keys.map fun k => (k, g k.1 k.2)) i p = g i p := by
  unfold PTab.get
  induction keys with
  | nil => simp at h
  | cons k keys ih =>
    by_cases hk : k = (i, p)
    · subst hk; simp
    · have h' : (i, p) ∈ keys := by
        rcases List.mem_cons.mp h with h | h
        · exact absurd h.symm hk
        · exact h
      simp only [List.map_cons, List.find?_cons, hk, decide_false]
      exact ih h'

/-- the quantity tabulated at iteration `k` -/
def Bspec (A : WFSA ι σ K) (x : List σ) (k : Nat) (i : ι) (p : Nat) : K :=
  (A.stop.map fun f => Qk A k i (x.drop p) f.1 * f.2).sum

theorem Bspec_zero (A : WFSA ι σ K) (x : List σ) (i : ι) (p : Nat) :
    Bspec A x 0 i p = pnInitAt A x i p := by
  unfold Bspec pnInitAt
  by_cases hp : x.length ≤ p
  · rw [if_pos hp, wlook_eq_sum_ite, List.drop_eq_nil_iff.mpr hp]
    apply congrArg
    apply List.map_congr_left
    intro f _
    by_cases h : f.1 = i
    · simp [Qk_zero, h]
    · have h' : ¬ i = f.1 := fun h'' => h h''.symm
      simp [Qk_zero, h, h']
  · rw [if_neg hp]
    apply sum_map_zero
    intro f _
    have : x.drop p ≠ [] := by rw [Ne, List.drop_eq_nil_iff]; exact hp
    simp [Qk_zero, this]

theorem Bspec_succ (A : WFSA ι σ K) (x : List σ) (k : Nat) (i : ι) (p : Nat) :
    Bspec A x (k+1) i p = pnStepAt A x (Bspec A x k) i p := by
  unfold Bspec pnStepAt
  simp only [Qk_succ, lsum_eq_sum, ← List.sum_map_mul_right]
  rw [sum_swap]
  apply congrArg
  apply List.map_congr_left
  intro e _
  cases e.lbl with
  | none =>
    simp only [lpeel, List.map_cons, List.map_nil, List.sum_cons, List.sum_nil, add_zero,
      ← List.sum_map_mul_left, mul_assoc]
  | some a =>
    by_cases hp : p < x.length
    · rw [List.drop_eq_getElem_cons hp, List.getElem?_eq_getElem hp]
      by_cases hab : a = x[p]
      · simp only [lpeel, hab, if_true, List.map_cons, List.map_nil, List.sum_cons, List.sum_nil,
          add_zero, ← List.sum_map_mul_left, mul_assoc]
      · simp [lpeel, hab]
    · have hp' : x.length ≤ p := by omega
      rw [List.drop_eq_nil_iff.mpr hp', List.getElem?_eq_none hp']
      simp [lpeel]

theorem pnStepAt_congr (A : WFSA ι σ K) (x : List σ) (g g' : ι → Nat → K) (i : ι) (p : Nat)
    (hp : p ≤ x.length) (h : ∀ j ∈ A.states, ∀ q ≤ x.length, g j q = g' j q) :
    pnStepAt A x g i p = pnStepAt A x g' i p := by
  unfold pnStepAt
  apply congrArg
  apply List.map_congr_left
  intro e he
  have hd := mem_states_dst A e (List.mem_filter.mp he).1
  cases e.lbl with
  | none => simp only [h _ hd p hp]
  | some a =>
    by_cases hp' : p < x.length
    · simp only [List.getElem?_eq_getElem hp', h _ hd (p+1) hp']
    · simp only [List.getElem?_eq_none (Nat.le_of_not_lt hp')]

/-- the invariant of the iteration -/
def TabOk (A : WFSA ι σ K) (x : List σ) (k : Nat) (t : PTab ι K) : Prop :=
  ∀ i ∈ A.states, ∀ p ≤ x.length, t.get i p = Bspec A x k i p

theorem TabOk_init (A : WFSA ι σ K) (x : List σ) : TabOk A x 0 (pnInit A x (pnKeys A x)) := by
  intro i hi p hp
  rw [pnInit, PTab.get_map _ (pnInitAt A x) i p ((mem_pnKeys A x i p).mpr ⟨hi, hp⟩), Bspec_zero]

theorem TabOk_step (A : WFSA ι σ K) (x : List σ) (k : Nat) (t : PTab ι K) (ht : TabOk A x k t) :
    TabOk A x (k+1) (pnStep A x (pnKeys A x) t) := by
  intro i hi p hp
  rw [pnStep, PTab.get_map _ (pnStepAt A x t.get) i p ((mem_pnKeys A x i p).mpr ⟨hi, hp⟩), Bspec_succ]
  exact pnStepAt_congr A x _ _ i p hp ht

theorem pnAcc_ok (A : WFSA ι σ K) (x : List σ) (k : Nat) (t : PTab ι K) (ht : TabOk A x k t) :
    pnAcc A t = Pk A k x := by
  rw [pnAcc, Pk_eq, lsum_eq_sum]
  apply congrArg
  apply List.map_congr_left
  intro s hs
  rw [ht s.1 (mem_states_start A s hs) 0 (Nat.zero_le _), Bspec, List.drop_zero,
    ← List.sum_map_mul_left]
  apply congrArg
  apply List.map_congr_left
  intro f _
  rw [mul_assoc]

theorem pnLoop_ok (A : WFSA ι σ K) (x : List σ) (n k : Nat) (t : PTab ι K) (ht : TabOk A x k t) :
    pnLoop A x (pnKeys A x) n t = ((List.range (n+1)).map fun j => Pk A (k+j) x).sum := by
  induction n generalizing k t with
  | zero => simp [pnLoop, pnAcc_ok A x k t ht]
  | succ n ih =>
    rw [pnLoop, pnAcc_ok A x k t ht, ih (k+1) _ (TabOk_step A x k t ht),
      List.range_succ_eq_map (n := n+1), List.map_cons, List.sum_cons, List.map_map]
    simp only [Function.comp_def, Nat.add_zero, Nat.succ_eq_add_one]
    congr 2
    apply List.map_congr_left
    intro j _
    congr 1
    omega

/-- **the dynamic programme computes the stratified path sum** (ε arcs and cycles allowed) -/
theorem PNtab_spec (A : WFSA ι σ K) (n : Nat) (x : List σ) : PNtab A n x = PN A n x := by
  rw [PNtab, pnLoop_ok A x n 0 _ (TabOk_init A x), PN_eq]
  simp

example : PNtab exA 4 [7, 7] = 90 := by decide
example : PN exA 4 [7, 7] = 90 := PNtab_spec exA 4 [7, 7] ▸ (by decide : PNtab exA 4 [7, 7] = 90)
example : PNtab exA 6 [7, 8, 7] = 90 ∧ PNtab exA 2 [7, 8, 7] = 0 := by decide

end Tab

/-! ### reversal -/
section Reverse
variable {ι σ K : Type} [DecidableEq ι] [DecidableEq σ] [CommSemiring K]

/-- what remains of `x` after reading the label `l` at its right end -/
def rpeel (l : Option σ) (x : List σ) : List (List σ) :=
  match l with
  | none => [x]
  | some a =>
    match x.getLast? with
    | none => []
    | some b => if a = b then [x.dropLast] else []

theorem rpeel_nil (a : σ) : rpeel (some a) ([] : List σ) = [] := rfl

theorem rpeel_concat (a b : σ) (x : List σ) :
    rpeel (some a) (x ++ [b]) = if a = b then [x] else [] := by
  simp [rpeel]

theorem rpeel_reverse (l : Option σ) (x : List σ) :
    rpeel l x.reverse = (lpeel l x).map List.reverse := by
  cases l with
  | none => simp [rpeel, lpeel]
  | some a =>
    cases x with
    | nil => simp [rpeel, lpeel]
    | cons b x =>
      rw [List.reverse_cons, rpeel_concat]
      by_cases hab : a = b <;> simp [lpeel, hab]

theorem lpeel_reverse (l : Option σ) (x : List σ) :
    lpeel l x.reverse = (rpeel l x).map List.reverse := by
  have := rpeel_reverse l x.reverse
  rw [List.reverse_reverse] at this
  rw [this, List.map_map]
  simp

theorem flatMap_pure' {α : Type} (l : List α) : l.flatMap (fun x => [x]) = l := by
  induction l with
  | nil => rfl
  | cons a l ih => simp [List.flatMap_cons, ih]

theorem peel_comm (l l' : Option σ) (x : List σ) :
    (lpeel l x).flatMap (rpeel l') = (rpeel l' x).flatMap (lpeel l) := by
  cases l with
  | none =>
    show [x].flatMap (rpeel l') = (rpeel l' x).flatMap (fun x => [x])
    rw [flatMap_pure']; simp
  | some a =>
    cases l' with
    | none =>
      show (lpeel (some a) x).flatMap (fun x => [x]) = [x].flatMap (lpeel (some a))
      rw [flatMap_pure']; simp
    | some c =>
      cases x with
      | nil => simp [lpeel, rpeel]
      | cons b t =>
        have hl0 : ∀ a' : σ, lpeel (some a') ([] : List σ) = [] := fun _ => rfl
        have hl1 : ∀ (a' b' : σ) (t : List σ),
            lpeel (some a') (b' :: t) = if a' = b' then [t] else [] := fun _ _ _ => rfl
        rcases List.eq_nil_or_concat t with rfl | ⟨t', d, rfl⟩
        · have h1 : ∀ c' : σ, rpeel (some c') [b] = if c' = b then [[]] else [] :=
            fun c' => rpeel_concat c' b []
          by_cases hab : a = b <;> by_cases hcb : c = b <;> simp [hab, hcb, hl0, hl1, h1, rpeel_nil]
        · rw [List.concat_eq_append]
          have h1 : ∀ c' : σ, rpeel (some c') (b :: (t' ++ [d])) = if c' = d then [b :: t'] else [] := by
            intro c'; rw [← List.cons_append]; exact rpeel_concat c' d (b :: t')
          by_cases hab : a = b <;> by_cases hcd : c = d <;>
            simp [hab, hcd, hl1, h1, rpeel_concat]

theorem lpeel_none (x : List σ) : lpeel (none : Option σ) x = [x] := rfl
theorem lpeel_some_nil (a : σ) : lpeel (some a) ([] : List σ) = [] := rfl
theorem lpeel_some_cons (a b : σ) (t : List σ) :
    lpeel (some a) (b :: t) = if a = b then [t] else [] := rfl
theorem rpeel_none (x : List σ) : rpeel (none : Option σ) x = [x] := rfl

/-- one-arc paths, seen from either end -/
theorem Qk_one_aux (e : Arc ι σ K) (i j : ι) (x : List σ) :
    (if e.src = i then ((lpeel e.lbl x).map fun x' =>
        e.w * (if e.dst = j ∧ x' = [] then (1 : K) else 0)).sum else 0)
      = (if e.dst = j then ((rpeel e.lbl x).map fun x' =>
        (if i = e.src ∧ x' = [] then (1 : K) else 0) * e.w).sum else 0) := by
  have hsym : (i = e.src) ↔ (e.src = i) := eq_comm
  simp only [hsym]
  cases e.lbl with
  | none =>
    simp only [lpeel_none, rpeel_none]
    by_cases h1 : e.src = i <;> by_cases h2 : e.dst = j <;> by_cases h3 : x = [] <;> simp [h1, h2, h3]
  | some a =>
    cases x with
    | nil => simp [lpeel_some_nil, rpeel_nil]
    | cons b t =>
      rcases List.eq_nil_or_concat t with rfl | ⟨t', d, rfl⟩
      · have h1 : rpeel (some a) [b] = if a = b then [[]] else [] := rpeel_concat a b []
        rw [h1, lpeel_some_cons]
        by_cases hab : a = b <;> by_cases h1 : e.src = i <;> by_cases h2 : e.dst = j <;>
          simp [hab, h1, h2]
      · rw [List.concat_eq_append]
        have h1 : rpeel (some a) (b :: (t' ++ [d])) = if a = d then [b :: t'] else [] := by
          rw [← List.cons_append]; exact rpeel_concat a d (b :: t')
        rw [h1, lpeel_some_cons]
        by_cases hab : a = b
        · subst hab
          by_cases had : a = d <;> simp [had]
        · by_cases had : a = d
          · subst had; simp [hab]
          · simp [hab, had]

/-- unfolding `Qk` at the last arc -/
theorem Qk_succ_right (A : WFSA ι σ K) (k : Nat) (i : ι) (x : List σ) (j : ι) :
    Qk A (k+1) i x j = ((A.arcs.filter (fun e => e.dst = j)).map fun e =>
      ((rpeel e.lbl x).map fun x' => Qk A k i x' e.src * e.w).sum).sum := by
  induction k generalizing i x with
  | zero =>
    rw [Qk_succ, sum_filter_ite, sum_filter_ite]
    apply congrArg
    apply List.map_congr_left
    intro e _
    simpa [Qk_zero] using Qk_one_aux e i j x
  | succ k ih =>
    rw [Qk_succ]
    simp only [ih, Qk_succ A k]
    -- both sides become `Σ_e Σ_e' Σ_{x'' ∈ peel} e.w * Qk k e.dst x'' e'.src * e'.w`
    have hL : ∀ e : Arc ι σ K,
        ((lpeel e.lbl x).map fun x' => e.w *
          ((A.arcs.filter (fun e' => e'.dst = j)).map fun e' =>
            ((rpeel e'.lbl x').map fun x'' => Qk A k e.dst x'' e'.src * e'.w).sum).sum).sum
        = ((A.arcs.filter (fun e' => e'.dst = j)).map fun e' =>
            (((lpeel e.lbl x).flatMap (rpeel e'.lbl)).map fun x'' =>
              e.w * Qk A k e.dst x'' e'.src * e'.w).sum).sum := by
      intro e
      simp only [← List.sum_map_mul_left]
      rw [sum_swap]
      apply congrArg
      apply List.map_congr_left
      intro e' _
      rw [sum_flatMap]
      simp only [mul_assoc]
    have hR : ∀ e' : Arc ι σ K,
        ((rpeel e'.lbl x).map fun x' =>
          ((A.arcs.filter (fun e => e.src = i)).map fun e =>
            ((lpeel e.lbl x').map fun x'' => e.w * Qk A k e.dst x'' e'.src).sum).sum * e'.w).sum
        = ((A.arcs.filter (fun e => e.src = i)).map fun e =>
            (((lpeel e.lbl x).flatMap (rpeel e'.lbl)).map fun x'' =>
              e.w * Qk A k e.dst x'' e'.src * e'.w).sum).sum := by
      intro e'
      simp only [← List.sum_map_mul_right]
      rw [sum_swap]
      apply congrArg
      apply List.map_congr_left
      intro e _
      rw [peel_comm, sum_flatMap]
    simp only [hL, hR]
    rw [sum_swap]

theorem reverse_Qk (A : WFSA ι σ K) (k : Nat) (i j : ι) (x : List σ) :
    Qk A.reverse k j x.reverse i = Qk A k i x j := by
  induction k generalizing j x with
  | zero =>
    have h1 : (j = i) = (i = j) := propext ⟨Eq.symm, Eq.symm⟩
    simp [Qk_zero, h1]
  | succ k ih =>
    have harcs : A.reverse.arcs = A.arcs.map fun e => ⟨e.dst, e.lbl, e.src, e.w⟩ := rfl
    rw [Qk_succ, Qk_succ_right, harcs]
    simp only [List.filter_map, List.map_map, Function.comp_def, lpeel_reverse]
    apply congrArg
    apply List.map_congr_left
    intro e _
    apply congrArg
    apply List.map_congr_left
    intro x' _
    rw [ih, mul_comm]

theorem reverse_Pk (A : WFSA ι σ K) (k : Nat) (x : List σ) :
    Pk A.reverse k x.reverse = Pk A k x := by
  rw [Pk_eq, Pk_eq, sum_swap]
  apply congrArg
  apply List.map_congr_left
  intro s _
  apply congrArg
  apply List.map_congr_left
  intro f _
  show f.2 * Qk A.reverse k f.1 x.reverse s.1 * s.2 = _
  rw [reverse_Qk]; ring

theorem reverse_PN (A : WFSA ι σ K) (n : Nat) (x : List σ) :
    PN A.reverse n x.reverse = PN A n x := by
  simp only [PN_eq, reverse_Pk]

example : Pk exA 4 [8, 7, 7] = 90 ∧ Pk exA.reverse 4 [7, 7, 8] = 90 ∧ Pk exA.reverse 4 [8, 7, 7] = 0 := by
  decide

end Reverse

/-! ### renaming and union -/
section Union
variable {ι κ σ K : Type} [DecidableEq ι] [DecidableEq κ] [DecidableEq σ] [CommSemiring K]

/-- the arc `e` with its end points renamed -/
def Arc.mapStates (f : ι → κ) (e : Arc ι σ K) : Arc κ σ K := ⟨f e.src, e.lbl, f e.dst, e.w⟩

/-- `B` sits inside `M` (via the injection `f`) as a part closed under outgoing arcs -/
def ClosedIn (f : ι → κ) (B : WFSA ι σ K) (M : WFSA κ σ K) : Prop :=
  ∀ i, M.arcs.filter (fun e => e.src = f i) = (B.arcs.filter (fun e => e.src = i)).map (Arc.mapStates f)

theorem Qk_closed (f : ι → κ) (hf : Function.Injective f) (B : WFSA ι σ K) (M : WFSA κ σ K)
    (hM : ClosedIn f B M) (k : Nat) (i : ι) (x : List σ) (j : ι) :
    Qk M k (f i) x (f j) = Qk B k i x j := by
  induction k generalizing i x with
  | zero => simp [Qk_zero, hf.eq_iff]
  | succ k ih =>
    rw [Qk_succ, Qk_succ, hM i]
    simp only [List.map_map, Function.comp_def, Arc.mapStates, ih]

theorem Qk_closed_out (f : ι → κ) (B : WFSA ι σ K) (M : WFSA κ σ K)
    (hM : ClosedIn f B M) (k : Nat) (i : ι) (x : List σ) (t : κ) (ht : ∀ j, t ≠ f j) :
    Qk M k (f i) x t = 0 := by
  induction k generalizing i x with
  | zero =>
    have : ¬ (f i = t) := fun h => ht i h.symm
    simp [Qk_zero, this]
  | succ k ih =>
    rw [Qk_succ, hM i]
    simp only [List.map_map, Function.comp_def, Arc.mapStates, ih, mul_zero]
    simp

omit [DecidableEq σ] [CommSemiring K] in
theorem closedIn_mapStates (f : ι → κ) (hf : Function.Injective f) (A : WFSA ι σ K) :
    ClosedIn f A (A.mapStates f) := by
  intro i
  have harcs : (A.mapStates f).arcs = A.arcs.map (Arc.mapStates f) := rfl
  rw [harcs, List.filter_map]
  congr 1
  apply List.filter_congr
  intro e _
  simp [Arc.mapStates, hf.eq_iff]

theorem mapStates_Qk (f : ι → κ) (hf : Function.Injective f) (A : WFSA ι σ K)
    (k : Nat) (i : ι) (x : List σ) (j : ι) :
    Qk (A.mapStates f) k (f i) x (f j) = Qk A k i x j :=
  Qk_closed f hf A _ (closedIn_mapStates f hf A) k i x j

/-- **renaming the states injectively does not change the weighted language** -/
theorem mapStates_Pk (f : ι → κ) (hf : Function.Injective f) (A : WFSA ι σ K) (k : Nat) (x : List σ) :
    Pk (A.mapStates f) k x = Pk A k x := by
  rw [Pk_eq, Pk_eq]
  simp only [WFSA.mapStates, List.map_map, Function.comp_def]
  apply congrArg
  apply List.map_congr_left
  intro s _
  apply congrArg
  apply List.map_congr_left
  intro t _
  rw [← mapStates_Qk f hf A]
  rfl

theorem mapStates_PN (f : ι → κ) (hf : Function.Injective f) (A : WFSA ι σ K) (n : Nat) (x : List σ) :
    PN (A.mapStates f) n x = PN A n x := by
  simp only [PN_eq, mapStates_Pk f hf]

omit [DecidableEq ι] [DecidableEq σ] [CommSemiring K] in
theorem filter_map_src_ne {τ : Type} [DecidableEq τ] (g : ι → τ) (t : τ) (l : List (Arc ι σ K))
    (h : ∀ i, g i ≠ t) : (l.map (Arc.mapStates g)).filter (fun e => e.src = t) = [] := by
  rw [List.filter_eq_nil_iff]
  intro e he
  obtain ⟨e', _, rfl⟩ := List.mem_map.mp he
  simp [Arc.mapStates, h e'.src]

omit [DecidableEq σ] [CommSemiring K] in
theorem closedIn_union_left (A : WFSA ι σ K) (B : WFSA κ σ K) : ClosedIn Sum.inl A (A.union B) := by
  intro i
  have harcs : (A.union B).arcs = (A.mapStates Sum.inl).arcs ++ B.arcs.map (Arc.mapStates Sum.inr) := rfl
  rw [harcs, List.filter_append, closedIn_mapStates Sum.inl Sum.inl_injective A i,
    filter_map_src_ne Sum.inr (Sum.inl i) B.arcs (by simp), List.append_nil]

omit [DecidableEq σ] [CommSemiring K] in
theorem closedIn_union_right (A : WFSA ι σ K) (B : WFSA κ σ K) : ClosedIn Sum.inr B (A.union B) := by
  intro i
  have harcs : (A.union B).arcs = A.arcs.map (Arc.mapStates Sum.inl) ++ (B.mapStates Sum.inr).arcs := rfl
  rw [harcs, List.filter_append, closedIn_mapStates Sum.inr Sum.inr_injective B i,
    filter_map_src_ne Sum.inl (Sum.inr i) A.arcs (by simp), List.nil_append]

/-- **`__add__`: the weighted language of the union is the sum** (no path crosses between the two
renamed-apart components) -/
theorem union_Pk (A : WFSA ι σ K) (B : WFSA κ σ K) (k : Nat) (x : List σ) :
    Pk (A.union B) k x = Pk A k x + Pk B k x := by
  have hstart : (A.union B).start
      = A.start.map (fun s => (Sum.inl s.1, s.2)) ++ B.start.map (fun s => (Sum.inr s.1, s.2)) := rfl
  have hstop : (A.union B).stop
      = A.stop.map (fun s => (Sum.inl s.1, s.2)) ++ B.stop.map (fun s => (Sum.inr s.1, s.2)) := rfl
  rw [Pk_eq, Pk_eq, Pk_eq, hstart, hstop]
  simp only [List.map_append, List.sum_append, List.map_map, Function.comp_def,
    Qk_closed Sum.inl Sum.inl_injective A _ (closedIn_union_left A B),
    Qk_closed Sum.inr Sum.inr_injective B _ (closedIn_union_right A B),
    Qk_closed_out Sum.inl A _ (closedIn_union_left A B) _ _ _ (Sum.inr _) (by simp),
    Qk_closed_out Sum.inr B _ (closedIn_union_right A B) _ _ _ (Sum.inl _) (by simp),
    mul_zero, zero_mul]
  simp

theorem union_PN (A : WFSA ι σ K) (B : WFSA κ σ K) (n : Nat) (x : List σ) :
    PN (A.union B) n x = PN A n x + PN B n x := by
  simp only [PN_eq, union_Pk, List.sum_map_add]

example : PN exA 4 [7, 7] = 90 ∧ PN exF 4 [7, 7] = 92 ∧ PN (exA.union exF) 4 [7, 7] = 182 := by decide
example : PN (exA.mapStates (· + 10)) 4 [7, 7] = 90 := by decide
/-- injectivity matters: merging the two states of `exA` creates new accepting paths -/
example : PN (exA.mapStates (fun _ => 0)) 4 [7, 7] ≠ PN exA 4 [7, 7] := by decide

end Union

/-! ### `zero`, `lift`, `from_string` -/
section Atoms
variable {ι σ K : Type} [DecidableEq ι] [DecidableEq σ] [CommSemiring K]

theorem zero_spec (k : Nat) (x : List σ) : Pk (WFSA.zero : WFSA ι σ K) k x = 0 := by
  simp [Pk_eq, WFSA.zero]

theorem zero_spec_PN (n : Nat) (x : List σ) : PN (WFSA.zero : WFSA ι σ K) n x = 0 := by
  simp [PN_eq, zero_spec]

theorem lift_Qk_one (a : Option σ) (w : K) (k : Nat) (x : List σ) (j : Nat) :
    Qk (WFSA.lift a w) k 1 x j = if k = 0 ∧ j = 1 ∧ x = [] then 1 else 0 := by
  cases k with
  | zero => simp [Qk_zero, eq_comm]
  | succ k => simp [Qk_succ, WFSA.lift]

theorem sum_lpeel_nil (a : Option σ) (x : List σ) (w : K) :
    ((lpeel a x).map fun x' => w * (if x' = [] then 1 else 0)).sum = if x = a.toList then w else 0 := by
  cases a with
  | none => by_cases hx : x = [] <;> simp [lpeel_none, hx]
  | some c =>
    cases x with
    | nil => simp [lpeel_some_nil]
    | cons b t =>
      rw [lpeel_some_cons]
      by_cases hcb : c = b
      · subst hcb; simp
      · have : ¬ b = c := fun h => hcb h.symm
        simp [hcb, this]

/-- `WFSA.lift a w` accepts exactly the string `a` (empty when `a = ε`), with one arc and weight `w` -/
theorem lift_spec (a : Option σ) (w : K) (k : Nat) (x : List σ) :
    Pk (WFSA.lift a w) k x = if k = 1 ∧ x = a.toList then w else 0 := by
  have h : Pk (WFSA.lift a w) k x = Qk (WFSA.lift a w) k 0 x 1 := by
    simp [Pk_eq, WFSA.lift]
  rw [h]
  cases k with
  | zero => simp [Qk_zero]
  | succ k =>
    have harcs : (WFSA.lift a w).arcs.filter (fun e => e.src = 0) = [⟨0, a, 1, w⟩] := by
      simp [WFSA.lift]
    rw [Qk_succ, harcs]
    simp only [List.map_cons, List.map_nil, List.sum_cons, List.sum_nil, add_zero, lift_Qk_one]
    by_cases hk : k = 0
    · subst hk; simpa using sum_lpeel_nil a x w
    · simp [hk]

theorem lift_spec_PN (a : Option σ) (w : K) (n : Nat) (x : List σ) :
    PN (WFSA.lift a w) n x = if 1 ≤ n ∧ x = a.toList then w else 0 := by
  by_cases hn : 1 ≤ n
  · rw [PN_eq_single _ n 1 x hn (fun k hk => by simp [lift_spec, hk]), lift_spec]
    simp [hn]
  · have : n = 0 := by omega
    subst this
    simp [PN_eq, lift_spec]

omit [DecidableEq σ] in
theorem take_eq_take_iff (s : List σ) (i p : Nat) (hi : i < s.length) (hp : p ≤ s.length) :
    s.take i = s.take p ↔ i = p := by
  constructor
  · intro h
    have := congrArg List.length h
    simp only [List.length_take] at this
    omega
  · rintro rfl; rfl

theorem fromString_Qk_succ (s : List σ) (w : K) (k p : Nat) (hp : p ≤ s.length) (x : List σ) :
    Qk (WFSA.fromString s w) (k+1) (s.take p) x s
      = if h : p < s.length then
          ((lpeel (some s[p]) x).map fun x' => Qk (WFSA.fromString s w) k (s.take (p+1)) x' s).sum
        else 0 := by
  have harcs : (WFSA.fromString s w).arcs = (List.range s.length).flatMap fun i =>
      match s[i]? with
      | some a => [(⟨s.take i, some a, s.take (i+1), 1⟩ : Arc (List σ) σ K)]
      | none => [] := rfl
  rw [Qk_succ, harcs, sum_filter_ite, sum_flatMap]
  have hterm : ∀ i ∈ List.range s.length,
      ((match s[i]? with
        | some a => [(⟨s.take i, some a, s.take (i+1), 1⟩ : Arc (List σ) σ K)]
        | none => []).map fun e : Arc (List σ) σ K => if decide (e.src = s.take p) = true then
          ((lpeel e.lbl x).map fun x' => e.w * Qk (WFSA.fromString s w) k e.dst x' s).sum else 0).sum
      = if i = p then (if h : i < s.length then
          ((lpeel (some s[i]) x).map fun x' => Qk (WFSA.fromString s w) k (s.take (i+1)) x' s).sum
          else 0) else 0 := by
    intro i hi
    have hi' : i < s.length := List.mem_range.mp hi
    rw [List.getElem?_eq_getElem hi', dif_pos hi']
    simp only [List.map_cons, List.map_nil, List.sum_cons, List.sum_nil, add_zero, decide_eq_true_eq,
      take_eq_take_iff s i p hi' hp, one_mul]
  rw [List.map_congr_left hterm, sum_range_ite_eq]
  by_cases h : p < s.length <;> simp [h]

theorem fromString_Qk (s : List σ) (w : K) (k p : Nat) (hp : p ≤ s.length) (x : List σ) :
    Qk (WFSA.fromString s w) k (s.take p) x s
      = if p + k = s.length ∧ x = s.drop p then 1 else 0 := by
  induction k generalizing p x with
  | zero =>
    have h1 : s.take p = s ↔ p = s.length := by
      rw [List.take_eq_self_iff]; omega
    rw [Qk_zero]
    by_cases hps : p = s.length
    · subst hps; simp
    · have : s.take p ≠ s := fun h => hps (h1.mp h)
      simp [hps, this]
  | succ k ih =>
    rw [fromString_Qk_succ s w k p hp]
    by_cases h : p < s.length
    · rw [dif_pos h, List.drop_eq_getElem_cons h]
      cases x with
      | nil =>
        rw [if_neg (fun h' => by cases h'.2), lpeel_some_nil]
        rfl
      | cons b t =>
        rw [lpeel_some_cons]
        by_cases hb : s[p] = b
        · subst hb
          simp only [if_true, List.map_cons, List.map_nil, List.sum_cons, List.sum_nil, add_zero,
            ih (p+1) h t, List.cons.injEq, true_and]
          have : p + 1 + k = s.length ↔ p + (k + 1) = s.length := by omega
          simp only [this]
        · rw [if_neg hb, if_neg (fun h' => by injection h'.2 with h1 h2; exact hb h1.symm)]
          rfl
    · rw [dif_neg h]
      have : ¬ (p + (k+1) = s.length) := by omega
      simp [this]

/-- `WFSA.from_string s w` accepts exactly `s`, along `|s|` arcs, with weight `w` -/
theorem fromString_spec_Pk (s : List σ) (w : K) (k : Nat) (x : List σ) :
    Pk (WFSA.fromString s w) k x = if k = s.length ∧ x = s then w else 0 := by
  have h : Pk (WFSA.fromString s w) k x = Qk (WFSA.fromString s w) k (s.take 0) x s * w := by
    simp [Pk_eq, WFSA.fromString]
  rw [h, fromString_Qk s w k 0 (Nat.zero_le _)]
  by_cases hk : k = s.length <;> by_cases hx : x = s <;> simp [hk, hx]

theorem fromString_spec (s : List σ) (w : K) (n : Nat) (x : List σ) :
    PN (WFSA.fromString s w) n x = if x = s ∧ s.length ≤ n then w else 0 := by
  by_cases hn : s.length ≤ n
  · rw [PN_eq_single _ n s.length x hn (fun k hk => by simp [fromString_spec_Pk, hk]),
      fromString_spec_Pk]
    simp [hn]
  · rw [PN_eq]
    have : ¬ (x = s ∧ s.length ≤ n) := fun h => hn h.2
    rw [if_neg this]
    apply sum_map_zero
    intro k hk
    have : k ≠ s.length := by have := List.mem_range.mp hk; omega
    simp [fromString_spec_Pk, this]

example : PN (WFSA.lift (some 7) 5 : WFSA Nat Nat Nat) 1 [7] = 5 := by decide
example : PN (WFSA.lift none 5 : WFSA Nat Nat Nat) 3 [] = 5 := by decide
example : PN (WFSA.lift (some 7) 5 : WFSA Nat Nat Nat) 0 [7] = 0 := by decide
example : PN (WFSA.fromString [1, 2] 5 : WFSA _ Nat Nat) 2 [1, 2] = 5 := by decide
example : PN (WFSA.fromString [1, 2] 5 : WFSA _ Nat Nat) 1 [1, 2] = 0 := by decide

end Atoms

/-! ### ε bridges: `__mul__` and `kleene_plus` -/
section Bridge
variable {τ σ K : Type} [DecidableEq τ] [DecidableEq σ] [CommSemiring K]

theorem sum_splits_left_nil {α : Type} (x : List α) (G : List α → List α → K)
    (hG : ∀ u v, u ≠ [] → G u v = 0) : ((splits x).map fun p => G p.1 p.2).sum = G [] x := by
  cases x with
  | nil => simp [splits]
  | cons b t =>
    simp only [splits, List.map_cons, List.sum_cons, List.map_map, Function.comp_def]
    rw [sum_map_zero _ _ (fun p _ => hG _ _ (by simp)), add_zero]

theorem sum_lpeel_splits (l : Option σ) (x : List σ) (H : List σ → List σ → K) :
    ((lpeel l x).map fun x' => ((splits x').map fun p => H p.1 p.2).sum).sum
      = ((splits x).map fun p => ((lpeel l p.1).map fun u' => H u' p.2).sum).sum := by
  cases l with
  | none => simp [lpeel_none]
  | some c =>
    cases x with
    | nil => simp [lpeel_some_nil, splits]
    | cons b t =>
      simp only [splits, List.map_cons, List.sum_cons, List.map_map, Function.comp_def,
        lpeel_some_nil, lpeel_some_cons, List.map_nil, List.sum_nil, zero_add]
      by_cases hcb : c = b <;> simp [hcb]

/-- paths of `M` that run `a` arcs inside `N`, then cross one of the arcs `E`, then `b` more arcs -/
def bridgeSum (N M : WFSA τ σ K) (E : List (Arc τ σ K)) (a b : Nat) (i : τ) (x : List σ) (j : τ) : K :=
  ((splits x).map fun p => (E.map fun eb =>
    Qk N a i p.1 eb.src * eb.w * Qk M b eb.dst p.2 j).sum).sum

/-- from the states satisfying `P`, the arcs of `M` are those of `N` plus the ε arcs `E`, and `N` does
not leave `P` -/
structure BridgeOver (P : τ → Prop) (N M : WFSA τ σ K) (E : List (Arc τ σ K)) : Prop where
  arcs : ∀ i, P i → M.arcs.filter (fun e => e.src = i)
    = N.arcs.filter (fun e => e.src = i) ++ E.filter (fun e => e.src = i)
  closed : ∀ e ∈ N.arcs, P e.src → P e.dst
  eps : ∀ e ∈ E, e.lbl = none

theorem bridgeSum_zero (N M : WFSA τ σ K) (E : List (Arc τ σ K)) (hE : ∀ e ∈ E, e.lbl = none)
    (b : Nat) (i : τ) (x : List σ) (j : τ) :
    ((E.filter (fun e => e.src = i)).map fun e =>
        ((lpeel e.lbl x).map fun x' => e.w * Qk M b e.dst x' j).sum).sum
      = bridgeSum N M E 0 b i x j := by
  unfold bridgeSum
  rw [sum_splits_left_nil x (fun u v => (E.map fun eb =>
    Qk N 0 i u eb.src * eb.w * Qk M b eb.dst v j).sum)]
  · rw [sum_filter_ite]
    apply congrArg
    apply List.map_congr_left
    intro e he
    rw [hE e he, lpeel_none, Qk_zero]
    by_cases h : e.src = i
    · simp [h]
    · have : ¬ i = e.src := fun h' => h h'.symm
      simp [h, this]
  · intro u v hu
    apply sum_map_zero
    intro e _
    simp [Qk_zero, hu]

theorem bridgeSum_succ (N M : WFSA τ σ K) (E : List (Arc τ σ K)) (a b : Nat) (i : τ) (x : List σ) (j : τ) :
    ((N.arcs.filter (fun e => e.src = i)).map fun e =>
        ((lpeel e.lbl x).map fun x' => e.w * bridgeSum N M E a b e.dst x' j).sum).sum
      = bridgeSum N M E (a+1) b i x j := by
  unfold bridgeSum
  simp only [← List.sum_map_mul_left]
  have h1 : ∀ e : Arc τ σ K,
      ((lpeel e.lbl x).map fun x' => ((splits x').map fun p => (E.map fun eb =>
        e.w * (Qk N a e.dst p.1 eb.src * eb.w * Qk M b eb.dst p.2 j)).sum).sum).sum
      = ((splits x).map fun p => ((lpeel e.lbl p.1).map fun u' => (E.map fun eb =>
        e.w * (Qk N a e.dst u' eb.src * eb.w * Qk M b eb.dst p.2 j)).sum).sum).sum :=
    fun e => sum_lpeel_splits e.lbl x (fun u' v => (E.map fun eb =>
        e.w * (Qk N a e.dst u' eb.src * eb.w * Qk M b eb.dst v j)).sum)
  simp only [h1]
  rw [sum_swap]
  apply congrArg
  apply List.map_congr_left
  intro p _
  simp only [Qk_succ N a, ← List.sum_map_mul_right]
  -- Σ_e Σ_u' Σ_eb  =  Σ_eb Σ_e Σ_u'
  have h2 : ∀ e : Arc τ σ K,
      ((lpeel e.lbl p.1).map fun u' => (E.map fun eb =>
        e.w * (Qk N a e.dst u' eb.src * eb.w * Qk M b eb.dst p.2 j)).sum).sum
      = (E.map fun eb => ((lpeel e.lbl p.1).map fun u' =>
        e.w * Qk N a e.dst u' eb.src * eb.w * Qk M b eb.dst p.2 j).sum).sum := by
    intro e
    rw [sum_swap]
    simp only [mul_assoc]
  simp only [h2]
  rw [sum_swap]

/-- **first-bridge decomposition** -/
theorem Qk_bridge (P : τ → Prop) (N M : WFSA τ σ K) (E : List (Arc τ σ K)) (h : BridgeOver P N M E)
    (k : Nat) (i : τ) (hi : P i) (x : List σ) (j : τ) :
    Qk M k i x j = Qk N k i x j
      + ((List.range k).map fun a => bridgeSum N M E a (k-1-a) i x j).sum := by
  induction k generalizing i x with
  | zero => simp [Qk_zero]
  | succ k ih =>
    rw [Qk_succ M, h.arcs i hi, List.map_append, List.sum_append, bridgeSum_zero N M E h.eps]
    have hA : ((N.arcs.filter (fun e => e.src = i)).map fun e =>
          ((lpeel e.lbl x).map fun x' => e.w * Qk M k e.dst x' j).sum).sum
        = ((N.arcs.filter (fun e => e.src = i)).map fun e =>
          ((lpeel e.lbl x).map fun x' => e.w * (Qk N k e.dst x' j
            + ((List.range k).map fun a => bridgeSum N M E a (k-1-a) e.dst x' j).sum)).sum).sum := by
      apply congrArg
      apply List.map_congr_left
      intro e he
      have he' := List.mem_filter.mp he
      have hsrc : e.src = i := by simpa using he'.2
      have hP : P e.dst := h.closed e he'.1 (by rw [hsrc]; exact hi)
      apply congrArg
      apply List.map_congr_left
      intro x' _
      rw [ih e.dst hP x']
    rw [hA]
    simp only [mul_add, List.sum_map_add, ← Qk_succ N k, ← List.sum_map_mul_left]
    have hsw : ((N.arcs.filter (fun e => e.src = i)).map fun e =>
          ((lpeel e.lbl x).map fun x' =>
            ((List.range k).map fun a => e.w * bridgeSum N M E a (k-1-a) e.dst x' j).sum).sum).sum
        = ((List.range k).map fun a => bridgeSum N M E (a+1) (k-1-a) i x j).sum := by
      simp only [← bridgeSum_succ]
      rw [sum_swap]
      apply congrArg
      apply List.map_congr_left
      intro e _
      rw [sum_swap]
    rw [hsw, List.range_succ_eq_map (n := k), List.map_cons, List.sum_cons, List.map_map]
    simp only [Function.comp_def, Nat.succ_eq_add_one, Nat.add_sub_cancel, Nat.sub_zero]
    have hidx : ((List.range k).map fun a => bridgeSum N M E (a + 1) (k - (a + 1)) i x j)
        = ((List.range k).map fun a => bridgeSum N M E (a + 1) (k - 1 - a) i x j) :=
      List.map_congr_left (fun a _ => by rw [show k - (a + 1) = k - 1 - a by omega])
    rw [hidx, add_assoc, add_comm (bridgeSum N M E 0 k i x j)]

/-! generic rearrangements used to pass from `Qk` to `Pk` -/

theorem sum_pull {α β γ : Type} (I : List α) (O : List β) (T : List γ) (wi : α → K) (wo : β → K)
    (X : γ → α → β → K) :
    (I.map fun s0 => (O.map fun f0 => wi s0 * (T.map fun t => X t s0 f0).sum * wo f0).sum).sum
      = (T.map fun t => (I.map fun s0 => (O.map fun f0 => wi s0 * X t s0 f0 * wo f0).sum).sum).sum := by
  simp only [← List.sum_map_mul_left, ← List.sum_map_mul_right]
  rw [sum_swap T I]
  apply congrArg
  apply List.map_congr_left
  intro s0 _
  rw [sum_swap T O]

theorem four_sum {α β γ δ : Type} (I : List α) (O : List β) (F : List γ) (S : List δ)
    (wi : α → K) (wo : β → K) (wf : γ → K) (ws : δ → K) (QA : α → γ → K) (QB : δ → β → K) :
    (I.map fun s0 => (O.map fun f0 =>
        wi s0 * (F.map fun f => (S.map fun s => QA s0 f * (wf f * ws s) * QB s f0).sum).sum * wo f0).sum).sum
      = (I.map fun s0 => (F.map fun f => wi s0 * QA s0 f * wf f).sum).sum
        * (S.map fun s => (O.map fun f0 => ws s * QB s f0 * wo f0).sum).sum := by
  have hR : (I.map fun s0 => (F.map fun f => wi s0 * QA s0 f * wf f).sum).sum
        * (S.map fun s => (O.map fun f0 => ws s * QB s f0 * wo f0).sum).sum
      = (I.map fun s0 => (F.map fun f => (S.map fun s => (O.map fun f0 =>
          (wi s0 * QA s0 f * wf f) * (ws s * QB s f0 * wo f0)).sum).sum).sum).sum := by
    rw [← List.sum_map_mul_right]
    apply congrArg
    apply List.map_congr_left
    intro s0 _
    rw [← List.sum_map_mul_right]
    apply congrArg
    apply List.map_congr_left
    intro f _
    rw [← List.sum_map_mul_left]
    apply congrArg
    apply List.map_congr_left
    intro s _
    rw [← List.sum_map_mul_left]
  rw [hR]
  simp only [← List.sum_map_mul_left, ← List.sum_map_mul_right]
  apply congrArg
  apply List.map_congr_left
  intro s0 _
  rw [sum_swap O F]
  apply congrArg
  apply List.map_congr_left
  intro f _
  rw [sum_swap O S]
  apply congrArg
  apply List.map_congr_left
  intro s _
  apply congrArg
  apply List.map_congr_left
  intro f0 _
  ring

omit [DecidableEq σ] in
theorem sum_bridge_form {α β γ δ : Type} (I : List α) (O : List β) (F : List γ) (S : List δ)
    (R : List Nat) (x : List σ)
    (wi : α → K) (wo : β → K) (wf : γ → K) (ws : δ → K)
    (QA : Nat → α → List σ → γ → K) (QB : Nat → δ → List σ → β → K) :
    (I.map fun s0 => (O.map fun f0 => wi s0 *
        (R.map fun a => ((splits x).map fun p => (F.map fun f => (S.map fun s =>
          QA a s0 p.1 f * (wf f * ws s) * QB a s p.2 f0).sum).sum).sum).sum * wo f0).sum).sum
      = (R.map fun a => ((splits x).map fun p =>
          (I.map fun s0 => (F.map fun f => wi s0 * QA a s0 p.1 f * wf f).sum).sum
          * (S.map fun s => (O.map fun f0 => ws s * QB a s p.2 f0 * wo f0).sum).sum).sum).sum := by
  rw [sum_pull I O R wi wo]
  apply congrArg
  apply List.map_congr_left
  intro a _
  rw [sum_pull I O (splits x) wi wo]
  apply congrArg
  apply List.map_congr_left
  intro p _
  exact four_sum I O F S wi wo wf ws (fun s0 f => QA a s0 p.1 f) (fun s f0 => QB a s p.2 f0)

omit [DecidableEq τ] [DecidableEq σ] in
theorem bridge_eps (F S : List (τ × K)) : ∀ e ∈ (bridge F S : List (Arc τ σ K)), e.lbl = none := by
  intro e he
  simp only [bridge, List.mem_flatMap, List.mem_map] at he
  obtain ⟨f, _, s, _, rfl⟩ := he
  rfl

omit [DecidableEq τ] [DecidableEq σ] in
theorem sum_bridge (F S : List (τ × K)) (g : Arc τ σ K → K) :
    ((bridge F S).map g).sum
      = (F.map fun f => (S.map fun s => g ⟨f.1, none, s.1, f.2 * s.2⟩).sum).sum := by
  rw [bridge, sum_flatMap]
  simp only [List.map_map, Function.comp_def]

/-! #### `kleene_plus` -/

omit [DecidableEq σ] in
theorem bridgeOver_kleenePlus (A : WFSA τ σ K) :
    BridgeOver (fun _ => True) A A.kleenePlus (bridge A.stop A.start) where
  arcs := fun i _ => by
    show (A.arcs ++ bridge A.stop A.start).filter _ = _
    rw [List.filter_append]
  closed := fun _ _ _ => trivial
  eps := bridge_eps _ _

theorem kleenePlus_Qk (A : WFSA τ σ K) (k : Nat) (i : τ) (x : List σ) (j : τ) :
    Qk A.kleenePlus k i x j = Qk A k i x j
      + ((List.range k).map fun a => ((splits x).map fun p => (A.stop.map fun f => (A.start.map fun s =>
          Qk A a i p.1 f.1 * (f.2 * s.2) * Qk A.kleenePlus (k-1-a) s.1 p.2 j).sum).sum).sum).sum := by
  rw [Qk_bridge _ A A.kleenePlus _ (bridgeOver_kleenePlus A) k i trivial x j]
  simp only [bridgeSum, sum_bridge]

/-- **one-step unfolding of `kleene_plus`**: a path of `A⁺` either stays in `A`, or runs `a` arcs in
`A` up to a final state, takes the first restart arc (ε), and continues in `A⁺` -/
theorem kleenePlus_Pk (A : WFSA τ σ K) (k : Nat) (x : List σ) :
    Pk A.kleenePlus k x = Pk A k x
      + ((List.range k).map fun a => ((splits x).map fun p =>
          Pk A a p.1 * Pk A.kleenePlus (k-1-a) p.2).sum).sum := by
  have hstart : A.kleenePlus.start = A.start := rfl
  have hstop : A.kleenePlus.stop = A.stop := rfl
  rw [Pk_eq A.kleenePlus k x, hstart, hstop]
  simp only [kleenePlus_Qk A k, mul_add, add_mul, List.sum_map_add]
  rw [← Pk_eq A k x]
  congr 1
  rw [sum_bridge_form A.start A.stop A.stop A.start (List.range k) x
    (fun s => s.2) (fun f => f.2) (fun f => f.2) (fun s => s.2)
    (fun a s0 u f => Qk A a s0.1 u f.1) (fun a s v f0 => Qk A.kleenePlus (k-1-a) s.1 v f0.1)]
  simp only [Pk_eq, hstart, hstop]

example : Pk exF.kleenePlus 3 [7, 7] = 1209 := by decide
/-- `1209 = Pk exF 0 [] * Pk exF⁺ 2 [7,7] + Pk exF 1 [7] * Pk exF⁺ 1 [7] + Pk exF 2 [7,7] * Pk exF⁺ 0 []` -/
example : Pk exF 3 [7, 7] = 0 ∧ Pk exF 0 [] * Pk exF.kleenePlus 2 [7, 7] = 460
    ∧ Pk exF 1 [7] * Pk exF.kleenePlus 1 [7] = 289 ∧ Pk exF 2 [7, 7] * Pk exF.kleenePlus 0 [] = 460 := by
  decide

end Bridge

/-! #### `__mul__` -/
section Concat
variable {ι κ σ K : Type} [DecidableEq ι] [DecidableEq κ] [DecidableEq σ] [CommSemiring K]

omit [DecidableEq σ] in
theorem filter_bridge_src_ne {τ : Type} [DecidableEq τ] (F S : List (τ × K)) (t : τ)
    (h : ∀ f ∈ F, f.1 ≠ t) : (bridge F S : List (Arc τ σ K)).filter (fun e => e.src = t) = [] := by
  rw [List.filter_eq_nil_iff]
  intro e he
  simp only [bridge, List.mem_flatMap, List.mem_map] at he
  obtain ⟨f, hf, s, _, rfl⟩ := he
  simp [h f hf]

omit [DecidableEq ι] [DecidableEq κ] [DecidableEq σ] in
theorem concat_arcs (A : WFSA ι σ K) (B : WFSA κ σ K) :
    (A.concat B).arcs = A.arcs.map (Arc.mapStates Sum.inl) ++ B.arcs.map (Arc.mapStates Sum.inr)
      ++ bridge (A.mapStates Sum.inl).stop (B.mapStates Sum.inr).start := rfl

omit [DecidableEq σ] in
theorem closedIn_concat_right (A : WFSA ι σ K) (B : WFSA κ σ K) : ClosedIn Sum.inr B (A.concat B) := by
  intro i
  have hB : (B.arcs.map (Arc.mapStates Sum.inr)).filter (fun e => e.src = (Sum.inr i : ι ⊕ κ))
      = (B.arcs.filter (fun e => e.src = i)).map (Arc.mapStates Sum.inr) :=
    closedIn_mapStates Sum.inr Sum.inr_injective B i
  rw [concat_arcs, List.filter_append, List.filter_append, hB,
    filter_map_src_ne Sum.inl (Sum.inr i) A.arcs (by simp),
    filter_bridge_src_ne _ _ (Sum.inr i) (by
      intro f hf
      obtain ⟨f', _, rfl⟩ := List.mem_map.mp hf
      simp)]
  simp

omit [DecidableEq σ] in
theorem bridgeOver_concat (A : WFSA ι σ K) (B : WFSA κ σ K) :
    BridgeOver (fun t : ι ⊕ κ => ∃ i, t = Sum.inl i) (A.mapStates Sum.inl) (A.concat B)
      (bridge (A.mapStates Sum.inl).stop (B.mapStates Sum.inr).start) where
  arcs := by
    rintro _ ⟨i, rfl⟩
    have hA : (A.mapStates Sum.inl).arcs = A.arcs.map (Arc.mapStates (Sum.inl : ι → ι ⊕ κ)) := rfl
    rw [concat_arcs, List.filter_append, List.filter_append, hA,
      filter_map_src_ne Sum.inr (Sum.inl i) B.arcs (by simp), List.append_nil]
  closed := by
    intro e he _
    obtain ⟨e', _, rfl⟩ := List.mem_map.mp he
    exact ⟨e'.dst, rfl⟩
  eps := bridge_eps _ _

theorem concat_Qk (A : WFSA ι σ K) (B : WFSA κ σ K) (k : Nat) (i : ι) (x : List σ) (j : κ) :
    Qk (A.concat B) k (Sum.inl i) x (Sum.inr j)
      = ((List.range k).map fun a => ((splits x).map fun p => (A.stop.map fun f => (B.start.map fun s =>
          Qk A a i p.1 f.1 * (f.2 * s.2) * Qk B (k-1-a) s.1 p.2 j).sum).sum).sum).sum := by
  rw [Qk_bridge _ _ (A.concat B) _ (bridgeOver_concat A B) k (Sum.inl i) ⟨i, rfl⟩ x (Sum.inr j),
    Qk_closed_out Sum.inl A _ (closedIn_mapStates Sum.inl Sum.inl_injective A) k i x (Sum.inr j) (by simp),
    zero_add]
  simp only [bridgeSum, sum_bridge, WFSA.mapStates, List.map_map, Function.comp_def]
  apply congrArg
  apply List.map_congr_left
  intro a _
  apply congrArg
  apply List.map_congr_left
  intro p _
  apply congrArg
  apply List.map_congr_left
  intro f _
  apply congrArg
  apply List.map_congr_left
  intro s _
  rw [Qk_closed Sum.inr Sum.inr_injective B _ (closedIn_concat_right A B)]
  congr 2
  exact mapStates_Qk Sum.inl Sum.inl_injective A a i p.1 f.1

/-- **`__mul__`: the weighted language of the product is the Cauchy product**, stratified by the
number of arcs (`a` arcs in `A`, the ε bridge, `k-1-a` arcs in `B`) -/
theorem concat_Pk (A : WFSA ι σ K) (B : WFSA κ σ K) (k : Nat) (x : List σ) :
    Pk (A.concat B) k x
      = ((List.range k).map fun a => ((splits x).map fun p =>
          Pk A a p.1 * Pk B (k-1-a) p.2).sum).sum := by
  have hstart : (A.concat B).start = A.start.map fun s => (Sum.inl s.1, s.2) := rfl
  have hstop : (A.concat B).stop = B.stop.map fun s => (Sum.inr s.1, s.2) := rfl
  rw [Pk_eq (A.concat B) k x, hstart, hstop]
  simp only [List.map_map, Function.comp_def, concat_Qk A B k]
  rw [sum_bridge_form A.start B.stop A.stop B.start (List.range k) x
    (fun s => s.2) (fun f => f.2) (fun f => f.2) (fun s => s.2)
    (fun a s0 u f => Qk A a s0.1 u f.1) (fun a s v f0 => Qk B (k-1-a) s.1 v f0.1)]
  simp only [Pk_eq]

example : Pk (exA.concat exF) 4 [7, 7] = 450 ∧ Pk (exA.concat exF) 3 [7, 7] = 102 := by decide
/-- `450 = Pk exA 3 [7,7] * Pk exF 0 []`, `102 = Pk exA 1 [7] * Pk exF 1 [7]` -/
example : Pk exA 3 [7, 7] * Pk exF 0 [] = 450 ∧ Pk exA 1 [7] * Pk exF 1 [7] = 102 := by decide

end Concat
end Genlm
