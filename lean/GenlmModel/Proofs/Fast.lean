import GenlmModel.Proofs.Basic
import GenlmModel.Model.Compose
import GenlmModel.Proofs.Mask
import Mathlib.Algebra.BigOperators.Group.List.Basic

namespace Genlm
variable {σ K : Type} [DecidableEq σ] [CommSemiring K]

/-- sum over the splits of `x` of an indicator on the left part being the singleton `[s]` -/
theorem sum_splits_left_singleton (s : σ) (x : List σ) (g : List σ → K) :
    ((splits x).map fun p => (if p.1 = [s] then 1 else 0) * g p.2).sum =
      match x with
      | [] => 0
      | a :: x' => if a = s then g x' else 0 := by
  cases x with
  | nil => simp [splits]
  | cons a x' =>
    simp only [splits, List.map_cons, List.sum_cons, List.map_map]
    have h0 : ((if ([] : List σ) = [s] then (1 : K) else 0) * g (a :: x')) = 0 := by simp
    rw [h0, zero_add]
    cases x' with
    | nil =>
      simp only [splits, List.map_cons, List.map_nil, List.sum_cons, List.sum_nil, Function.comp_def, add_zero]
      by_cases h : a = s <;> simp [h]
    | cons b x'' =>
      simp only [splits, List.map_cons, List.sum_cons, List.map_map, Function.comp_def]
      have hz : ((List.map (fun p : List σ × List σ => (b :: p.1, p.2)) (splits x'')).map
          (fun p => (if a :: p.1 = [s] then (1 : K) else 0) * g p.2)).sum = 0 := by
        apply sum_map_zero
        intro p hp
        obtain ⟨q, _, rfl⟩ := List.mem_map.mp hp
        simp
      simp only [List.map_map, Function.comp_def] at hz
      rw [hz, add_zero]
      by_cases h : a = s <;> simp [h]

theorem WbodyFast_eq (V : List σ) (f : σ → List σ → K) (body x : List σ) :
    WbodyFast V f body x = Wbody V f body x := by
  induction body generalizing x with
  | nil => rfl
  | cons s ss ih =>
    by_cases hs : s ∈ V
    · have : Wbody V f (s :: ss) x =
          ((splits x).map fun p => (if p.1 = [s] then 1 else 0) * Wbody V f ss p.2).sum := by
        simp only [Wbody, lsum_eq_sum, Wsym, if_pos hs]
      rw [this, sum_splits_left_singleton s x (fun y => Wbody V f ss y)]
      cases x with
      | nil => simp [WbodyFast, hs]
      | cons a x' => simp only [WbodyFast, if_pos hs]; rw [ih]
    · simp only [WbodyFast, Wbody, if_neg hs, lsum_eq_sum, Wsym]
      congr 1
      apply List.map_congr_left
      intro p _
      rw [ih]

theorem tabStepFast_eq (G : CFG σ K) (keys : List (σ × List σ)) (t : Tab σ K) :
    tabStepFast G keys t = tabStep G keys t := by
  simp only [tabStepFast, tabStep, wnStepAtFast, wnStepAt]
  apply List.map_congr_left
  intro k _
  congr 2
  apply List.map_congr_left
  intro r _
  rw [WbodyFast_eq]

theorem composeShared_eq {ι : Type} [DecidableEq ι] [DecidableEq K] (G : CFG σ K) (T : FST ι σ K) :
    composeShared G T = compose G T := by
  have h : (fun r : Rule (CSym ι σ) K => r.body.all fun x => decide (x ∈ hlfpFast (itemClauses G T))) =
      (fun r : Rule (CSym ι σ) K => r.body.all fun x => decide (x ∈ hlfp (itemClauses G T))) := by
    funext r
    congr 1
    funext x
    simp only [mem_hlfpFast]
  simp only [composeShared, compose, composeItems, h]
  rfl

end Genlm
