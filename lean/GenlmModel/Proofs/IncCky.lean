import GenlmModel.Model.IncCky
import GenlmModel.Proofs.Cky
import GenlmModel.Proofs.Memo
import Mathlib.Data.List.Induction
import Mathlib.Tactic.Ring
/-!
# Incremental CKY (`genlm/grammar/parse/cky.py`)

Main results (in `namespace Genlm`; helpers in `Genlm.IncCkyAux`):

* `incCky_entry`    : for a CNF grammar, `chart(p)[k][i][X] = WN G n X p[i:k]` (all `i ≤ k ≤ |p|`, `n ≥ k-i+1`);
* `incCky_diag_items`, `incCky_diag` : what is stored for the empty span, and that it is the right value;
* `incCky_call`     : `IncrementalCKY(G)(x) = WN G n G.S x`;
* `outside_is_inside_of_extension` : `p_next(p)[a] = IncrementalCKY(G)(p ++ [a])` — for *every* grammar
  (the outside pass is the transpose of the inside pass; `IncCkyAux.nextTokenWeights_eq_extend` states it
  for an arbitrary chart);
* `incCky_pnext_is_WN` : C04 for the CKY language model, `p_next(p)[a] = WN G n G.S (p ++ [a])`;
* `ckyChart_eq_pureChart`, `incCky_memo_transparent` : the memo table `self._chart` is transparent;
* `parseChart_entry`, `cfgParse_eq_WN`, `cfgParse_eq_incCkyCall` : the non-incremental `CFG._parse_chart` computes the same values.
-/

namespace Genlm.IncCkyAux
variable {κ σ K : Type} [DecidableEq κ] [DecidableEq σ] [CommSemiring K]

/-! ### generic list-sum lemmas -/

theorem sum_swap {α β : Type} (l : List α) (m : List β) (F : α → β → K) :
    (l.map fun a => (m.map fun b => F a b).sum).sum = (m.map fun b => (l.map fun a => F a b).sum).sum := by
  induction l with
  | nil => simp
  | cons a l ih => simp only [List.map_cons, List.sum_cons, ih, List.sum_map_add]

theorem sum_congr {α : Type} (l : List α) (f g : α → K) (h : ∀ a ∈ l, f a = g a) :
    (l.map f).sum = (l.map g).sum := by
  rw [List.map_congr_left h]

theorem sum_flatMap {α β : Type} (l : List α) (f : α → List β) (g : β → K) :
    ((l.flatMap f).map g).sum = (l.map fun a => ((f a).map g).sum).sum := by
  induction l with
  | nil => simp
  | cons a l ih => simp only [List.flatMap_cons, List.map_append, List.sum_append, List.map_cons, List.sum_cons, ih]

theorem sum_mul_right {α : Type} (l : List α) (f : α → K) (c : K) :
    (l.map f).sum * c = (l.map fun a => f a * c).sum := by
  induction l with
  | nil => simp
  | cons a l ih => simp only [List.map_cons, List.sum_cons, add_mul, ih]

theorem sum_mul_left {α : Type} (l : List α) (f : α → K) (c : K) :
    c * (l.map f).sum = (l.map fun a => c * f a).sum := by
  induction l with
  | nil => simp
  | cons a l ih => simp only [List.map_cons, List.sum_cons, mul_add, ih]

theorem sum_filter_ite {α : Type} (l : List α) (p : α → Bool) (f : α → K) :
    ((l.filter p).map f).sum = (l.map fun a => if p a then f a else 0).sum := by
  induction l with
  | nil => rfl
  | cons a l ih =>
    by_cases hp : p a = true
    · simp [List.filter_cons_of_pos hp, hp, ih]
    · rw [List.filter_cons_of_neg hp]; simp [hp, ih]

theorem sum_filterMap {α β : Type} (l : List α) (φ : α → Option β) (g : β → K) :
    ((l.filterMap φ).map g).sum = (l.map fun a => match φ a with | some b => g b | none => 0).sum := by
  induction l with
  | nil => rfl
  | cons a l ih =>
    cases h : φ a with
    | none => simp [h, ih]
    | some b => simp [h, ih]

theorem sum_ite_eq_nodup {α : Type} [DecidableEq α] (l : List α) (hl : l.Nodup) (a : α) (ha : a ∈ l) (F : α → K) :
    (l.map fun w => if w = a then F w else 0).sum = F a := by
  induction l with
  | nil => simp at ha
  | cons b l ih =>
    obtain ⟨hb, hl'⟩ := List.nodup_cons.mp hl
    simp only [List.map_cons, List.sum_cons]
    by_cases hba : b = a
    · subst hba
      rw [if_pos rfl, sum_map_zero, add_zero]
      intro w hw
      have : w ≠ b := fun h => hb (h ▸ hw)
      simp [this]
    · have ha' : a ∈ l := by
        rcases List.mem_cons.mp ha with h | h
        · exact absurd h.symm hba
        · exact h
      rw [if_neg hba, zero_add, ih hl' ha']

/-! ### `PyChart` -/

def NodupKeys (c : PyChart κ K) : Prop := (c.map (·.1)).Nodup

theorem get_nil (k : κ) : PyChart.get ([] : PyChart κ K) k = 0 := rfl

theorem get_cons (e : κ × K) (c : PyChart κ K) (k : κ) :
    PyChart.get (e :: c) k = if e.1 = k then e.2 else PyChart.get c k := by
  unfold PyChart.get
  by_cases h : e.1 = k
  · simp [h]
  · simp [h]

theorem get_add (c : PyChart κ K) (k : κ) (v : K) (k' : κ) :
    (PyChart.add c k v).get k' = if k = k' then c.get k' + v else c.get k' := by
  induction c with
  | nil =>
    simp only [PyChart.add, get_cons, get_nil, zero_add]
  | cons e c ih =>
    simp only [PyChart.add]
    by_cases h : e.1 = k
    · rw [if_pos h, get_cons, get_cons]
      subst h
      by_cases h' : e.1 = k'
      · simp [h']
      · simp [h']
    · rw [if_neg h, get_cons, get_cons, ih]
      by_cases h' : e.1 = k'
      · have : k ≠ k' := fun hk => h (hk ▸ h')
        simp [h', this]
      · simp [h']

theorem mem_keys_add (c : PyChart κ K) (k : κ) (v : K) (k' : κ) :
    k' ∈ (PyChart.add c k v).map (·.1) ↔ k' ∈ c.map (·.1) ∨ k' = k := by
  induction c with
  | nil => simp [PyChart.add]
  | cons e c ih =>
    simp only [PyChart.add]
    by_cases h : e.1 = k
    · rw [if_pos h]
      simp only [List.map_cons, List.mem_cons]
      constructor
      · intro h'; exact Or.inl h'
      · rintro (h' | h')
        · exact h'
        · exact Or.inl (h'.trans h.symm)
    · rw [if_neg h]
      simp only [List.map_cons, List.mem_cons, ih]
      tauto

theorem nodup_add (c : PyChart κ K) (k : κ) (v : K) (hc : NodupKeys c) : NodupKeys (PyChart.add c k v) := by
  unfold NodupKeys at *
  induction c with
  | nil => simp [PyChart.add]
  | cons e c ih =>
    obtain ⟨he, hc'⟩ := List.nodup_cons.mp hc
    simp only [PyChart.add]
    by_cases h : e.1 = k
    · rw [if_pos h]; exact hc
    · rw [if_neg h]
      simp only [List.map_cons]
      refine List.nodup_cons.mpr ⟨?_, ih hc'⟩
      rw [mem_keys_add]
      rintro (h' | h')
      · exact he h'
      · exact h h'

omit [DecidableEq κ] [CommSemiring K] in
theorem nodup_nil : NodupKeys ([] : PyChart κ K) := List.nodup_nil

/-- in a chart with distinct keys, summing a zero-preserving function over the entries with key `k`
reads the value at `k` -/
theorem sum_key (c : PyChart κ K) (hc : NodupKeys c) (k : κ) (f : K → K) (hf : f 0 = 0) :
    (c.map fun e => if e.1 = k then f e.2 else 0).sum = f (c.get k) := by
  unfold NodupKeys at hc
  induction c with
  | nil => simp [get_nil, hf]
  | cons e c ih =>
    obtain ⟨he, hc'⟩ := List.nodup_cons.mp hc
    simp only [List.map_cons, List.sum_cons, get_cons]
    by_cases h : e.1 = k
    · rw [if_pos h, if_pos h, sum_map_zero, add_zero]
      intro e' he'
      have : e'.1 ≠ k := fun h' => he (by
        have hm : e'.1 ∈ c.map (·.1) := List.mem_map_of_mem he'
        rw [h', ← h] at hm; exact hm)
      simp [this]
    · rw [if_neg h, if_neg h, zero_add, ih hc']

/-- weighted sum of the entries of a chart against a function of the keys -/
def wsum (c : PyChart κ K) (N : κ → K) : K := (c.map fun e => e.2 * N e.1).sum

theorem wsum_add (c : PyChart κ K) (k : κ) (v : K) (N : κ → K) :
    wsum (PyChart.add c k v) N = wsum c N + v * N k := by
  unfold wsum
  induction c with
  | nil => simp [PyChart.add]
  | cons e c ih =>
    simp only [PyChart.add]
    by_cases h : e.1 = k
    · rw [if_pos h]; subst h
      simp only [List.map_cons, List.sum_cons]; ring
    · rw [if_neg h]
      simp only [List.map_cons, List.sum_cons, ih]; ring

omit [DecidableEq κ] in
theorem wsum_congr (c : PyChart κ K) (N N' : κ → K) (h : ∀ k, N k = N' k) : wsum c N = wsum c N' := by
  have : N = N' := funext h
  rw [this]

omit [DecidableEq κ] in
theorem wsum_fun_add (c : PyChart κ K) (N N' : κ → K) :
    wsum c (fun k => N k + N' k) = wsum c N + wsum c N' := by
  unfold wsum
  rw [← List.sum_map_add]
  apply sum_congr; intro e _; ring

/-- pairing a chart (distinct keys) with a function that is itself a keyed sum -/
theorem wsum_row {β : Type} (c : PyChart κ K) (hc : NodupKeys c) (L : List β) (key : β → κ) (t : β → K) :
    wsum c (fun k' => (L.map fun b => if key b = k' then t b else 0).sum)
      = (L.map fun b => c.get (key b) * t b).sum := by
  unfold wsum
  have h1 : ∀ e : κ × K, e.2 * (L.map fun b => if key b = e.1 then t b else 0).sum
      = (L.map fun b => if e.1 = key b then e.2 * t b else 0).sum := by
    intro e
    rw [sum_mul_left]
    apply sum_congr; intro b _
    by_cases h : key b = e.1
    · simp [h]
    · have : e.1 ≠ key b := fun h' => h h'.symm
      simp [h, this]
  simp only [h1]
  rw [sum_swap]
  apply sum_congr; intro b _
  exact sum_key c hc (key b) (fun y => y * t b) (zero_mul _)

/-- a fold of `+=` with state-independent keys and values -/
theorem foldl_add_const {β : Type} (l : List β) (key : β → κ) (val : β → K) (c : PyChart κ K) :
    (∀ k', (l.foldl (fun c b => PyChart.add c (key b) (val b)) c).get k'
        = c.get k' + (l.map fun b => if key b = k' then val b else 0).sum) ∧
    (NodupKeys c → NodupKeys (l.foldl (fun c b => PyChart.add c (key b) (val b)) c)) := by
  induction l generalizing c with
  | nil => simp
  | cons b l ih =>
    obtain ⟨ih1, ih2⟩ := ih (PyChart.add c (key b) (val b))
    refine ⟨?_, fun hc => ih2 (nodup_add c _ _ hc)⟩
    intro k'
    simp only [List.foldl_cons, ih1, get_add, List.map_cons, List.sum_cons]
    by_cases h : key b = k'
    · simp only [if_pos h]; ring
    · simp only [if_neg h]; ring

end Genlm.IncCkyAux

namespace Genlm.IncCkyAux
variable {κ σ K : Type} [DecidableEq κ] [DecidableEq σ] [CommSemiring K]

/-! ### the binary-rule phase as a list of instructions -/

/-- one innermost iteration of `extend_chart` / `next_token_weights` for the row `m`:
inside `new[m][X] += coef * new[j][Z]`, outside `α[j][Z] += coef * α[m][X]` -/
structure Ins (σ K : Type) where
  X : σ
  coef : K
  j : Nat
  Z : σ

def execIn (m : Nat) (c : CkyCol σ K) (ins : Ins σ K) : CkyCol σ K :=
  colAdd c m ins.X (ins.coef * colGet c ins.j ins.Z)

def execOut (m : Nat) (c : CkyCol σ K) (ins : Ins σ K) : CkyCol σ K :=
  colAdd c ins.j ins.Z (ins.coef * colGet c m ins.X)

/-- the instructions of the stage `i = m` (the same list for both passes) -/
def stageInstrs (G : CFG σ K) (chart : List (CkyCol σ K)) (k m : Nat) : List (Ins σ K) :=
  (List.range' (m + 1) (k - (m + 1))).flatMap fun j =>
    (colItems (chart.getD j []) m).flatMap fun Yy =>
      (rYXZ G Yy.1).map fun r => ⟨r.X, r.w * Yy.2, j, r.Z⟩

theorem extendSpan_eq (G : CFG σ K) (chart : List (CkyCol σ K)) (k m : Nat) (c : CkyCol σ K) :
    extendSpan G chart k m c = (stageInstrs G chart k m).foldl (execIn m) c := by
  simp only [extendSpan, extendInner, stageInstrs, List.foldl_flatMap, List.foldl_map, execIn]

theorem outsideSpan_eq (G : CFG σ K) (chart : List (CkyCol σ K)) (k m : Nat) (c : CkyCol σ K) :
    outsideSpan G chart k m c = (stageInstrs G chart k m).foldl (execOut m) c := by
  simp only [outsideSpan, outsideInner, stageInstrs, List.foldl_flatMap, List.foldl_map, execOut]

theorem stageInstrs_j (G : CFG σ K) (chart : List (CkyCol σ K)) (k m : Nat) (ins : Ins σ K)
    (h : ins ∈ stageInstrs G chart k m) : m < ins.j ∧ ins.j < k := by
  simp only [stageInstrs, List.mem_flatMap, List.mem_map] at h
  obtain ⟨j, hj, Yy, _, r, _, rfl⟩ := h
  have := List.mem_range'_1.mp hj
  simp only
  omega

theorem colGet_colAdd (c : CkyCol σ K) (i : Nat) (X : σ) (v : K) (i' : Nat) (X' : σ) :
    colGet (colAdd c i X v) i' X' = if i = i' ∧ X = X' then colGet c i' X' + v else colGet c i' X' := by
  unfold colGet colAdd
  rw [get_add]
  by_cases h : (i, X) = (i', X')
  · rw [if_pos h]; simp only [Prod.mk.injEq] at h; rw [if_pos h]
  · rw [if_neg h]; simp only [Prod.mk.injEq] at h; rw [if_neg h]

theorem nodup_colAdd (c : CkyCol σ K) (i : Nat) (X : σ) (v : K) (hc : NodupKeys c) :
    NodupKeys (colAdd c i X v) := nodup_add c _ _ hc

/-- one stage of `extend_chart`: only the row `m` changes, by a sum read off the other rows -/
theorem stageIn_spec (m : Nat) (L : List (Ins σ K)) (hL : ∀ ins ∈ L, ins.j ≠ m) (c : CkyCol σ K) :
    (∀ i X, i ≠ m → colGet (L.foldl (execIn m) c) i X = colGet c i X) ∧
    (∀ X, colGet (L.foldl (execIn m) c) m X = colGet c m X +
      (L.map fun ins => if ins.X = X then ins.coef * colGet c ins.j ins.Z else 0).sum) ∧
    (NodupKeys c → NodupKeys (L.foldl (execIn m) c)) := by
  induction L generalizing c with
  | nil => simp
  | cons a L ih =>
    obtain ⟨ih1, ih2, ih3⟩ := ih (fun ins h => hL ins (List.mem_cons_of_mem _ h)) (execIn m c a)
    have haj : a.j ≠ m := hL a (List.mem_cons_self ..)
    have hrow : ∀ i X, i ≠ m → colGet (execIn m c a) i X = colGet c i X := by
      intro i X hi
      unfold execIn
      rw [colGet_colAdd, if_neg]
      rintro ⟨h, _⟩; exact hi h.symm
    refine ⟨?_, ?_, ?_⟩
    · intro i X hi
      rw [List.foldl_cons, ih1 i X hi, hrow i X hi]
    · intro X
      rw [List.foldl_cons, ih2 X, List.map_cons, List.sum_cons]
      have hs : (L.map fun ins => if ins.X = X then ins.coef * colGet (execIn m c a) ins.j ins.Z else 0).sum
          = (L.map fun ins => if ins.X = X then ins.coef * colGet c ins.j ins.Z else 0).sum := by
        apply sum_congr; intro ins hins
        rw [hrow ins.j ins.Z (hL ins (List.mem_cons_of_mem _ hins))]
      rw [hs]
      unfold execIn
      rw [colGet_colAdd]
      by_cases h : a.X = X
      · simp only [h, true_and, if_true]; ring
      · simp only [h, and_false, if_false]; ring
    · intro hc
      rw [List.foldl_cons]
      exact ih3 (nodup_colAdd _ _ _ _ hc)

/-- one stage of the outside pass: the row `m` is only read; the pairing with any `N` grows by the
transposed sum -/
theorem stageOut_spec (m : Nat) (L : List (Ins σ K)) (hL : ∀ ins ∈ L, ins.j ≠ m) (c : CkyCol σ K) :
    (∀ X, colGet (L.foldl (execOut m) c) m X = colGet c m X) ∧
    (∀ N : Nat × σ → K, wsum (L.foldl (execOut m) c) N = wsum c N +
      (L.map fun ins => ins.coef * colGet c m ins.X * N (ins.j, ins.Z)).sum) ∧
    (NodupKeys c → NodupKeys (L.foldl (execOut m) c)) := by
  induction L generalizing c with
  | nil => simp
  | cons a L ih =>
    obtain ⟨ih1, ih2, ih3⟩ := ih (fun ins h => hL ins (List.mem_cons_of_mem _ h)) (execOut m c a)
    have haj : a.j ≠ m := hL a (List.mem_cons_self ..)
    have hrow : ∀ X, colGet (execOut m c a) m X = colGet c m X := by
      intro X
      unfold execOut
      rw [colGet_colAdd, if_neg]
      rintro ⟨h, _⟩; exact haj h
    refine ⟨?_, ?_, ?_⟩
    · intro X
      rw [List.foldl_cons, ih1 X, hrow X]
    · intro N
      rw [List.foldl_cons, ih2 N, List.map_cons, List.sum_cons]
      simp only [hrow]
      unfold execOut colAdd
      rw [wsum_add]; ring
    · intro hc
      rw [List.foldl_cons]
      exact ih3 (nodup_colAdd _ _ _ _ hc)

end Genlm.IncCkyAux

namespace Genlm.IncCkyAux
variable {κ σ K : Type} [DecidableEq κ] [DecidableEq σ] [CommSemiring K]

/-! ### the order of the stages -/

/-- `range(2, k+1)` mapped through `i = k - span` is `k-2, …, 0` -/
theorem spans_map (n : Nat) :
    (List.range' 2 n).map (fun s => n + 1 - s) = (List.range n).reverse := by
  apply List.ext_getElem
  · simp
  · intro i h1 h2
    simp only [List.length_map, List.length_range'] at h1
    simp only [List.getElem_map, List.getElem_range', List.getElem_reverse, List.getElem_range,
      List.length_range]
    omega

/-- several stages of `extend_chart`, processed in decreasing order of the row -/
theorem insideRun_spec (G : CFG σ K) (chart : List (CkyCol σ K)) (k : Nat) (ms : List Nat)
    (hms : ms.Pairwise (· > ·)) (c : CkyCol σ K) :
    (∀ i X, i ∉ ms → colGet (ms.foldl (fun c m => extendSpan G chart k m c) c) i X = colGet c i X) ∧
    (∀ m ∈ ms, ∀ X, colGet (ms.foldl (fun c m => extendSpan G chart k m c) c) m X = colGet c m X +
      ((stageInstrs G chart k m).map fun ins =>
        if ins.X = X then ins.coef * colGet (ms.foldl (fun c m => extendSpan G chart k m c) c) ins.j ins.Z
        else 0).sum) ∧
    (NodupKeys c → NodupKeys (ms.foldl (fun c m => extendSpan G chart k m c) c)) := by
  induction ms generalizing c with
  | nil => simp
  | cons m ms ih =>
    obtain ⟨hlt, hms'⟩ := List.pairwise_cons.mp hms
    obtain ⟨ih1, ih2, ih3⟩ := ih hms' (extendSpan G chart k m c)
    have hj : ∀ ins ∈ stageInstrs G chart k m, ins.j ≠ m := fun ins h =>
      Nat.ne_of_gt (stageInstrs_j G chart k m ins h).1
    obtain ⟨s1, s2, s3⟩ := stageIn_spec m (stageInstrs G chart k m) hj c
    rw [← extendSpan_eq] at s1 s2 s3
    have hm_notin : m ∉ ms := fun h => Nat.lt_irrefl _ (hlt m h)
    simp only [List.foldl_cons]
    refine ⟨?_, ?_, fun hc => ih3 (s3 hc)⟩
    · intro i X hi
      have hi1 : i ≠ m := fun h => hi (h ▸ List.mem_cons_self ..)
      have hi2 : i ∉ ms := fun h => hi (List.mem_cons_of_mem _ h)
      rw [ih1 i X hi2, s1 i X hi1]
    · intro m' hm' X
      rcases List.mem_cons.mp hm' with rfl | hm'
      · rw [ih1 m' X hm_notin, s2 X]
        congr 1
        apply sum_congr; intro ins hins
        have hjm := (stageInstrs_j G chart k m' ins hins).1
        have hj_notin : ins.j ∉ ms := fun h => by have := hlt _ h; omega
        rw [ih1 ins.j ins.Z hj_notin, s1 ins.j ins.Z (Nat.ne_of_gt hjm)]
      · have hne : m' ≠ m := fun h => hm_notin (h ▸ hm')
        rw [ih2 m' hm' X, s1 m' X hne]

end Genlm.IncCkyAux

namespace Genlm.IncCkyAux
variable {κ σ K : Type} [DecidableEq κ] [DecidableEq σ] [CommSemiring K]

/-! ### the new column -/

theorem extendChart_snoc (G : CFG σ K) (chart : List (CkyCol σ K)) (p : List σ) (a : σ) :
    extendChart G chart (p ++ [a]) =
      ((List.range p.length).reverse).foldl (fun c m => extendSpan G chart (p.length + 1) m c)
        ((cnfTerminal G a).foldl (fun c r => PyChart.add c (p.length, r.head) r.w)
          (PyChart.add [] (p.length + 1, G.S) (cnfNullary G))) := by
  unfold extendChart
  simp only [List.length_append, List.length_singleton, Nat.add_sub_cancel, List.getElem?_concat_length]
  rw [← spans_map, List.foldl_map]
  rfl

/-- closed description of the column `extend_chart(chart, p ++ [a])` -/
theorem extendChart_snoc_spec (G : CFG σ K) (chart : List (CkyCol σ K)) (p : List σ) (a : σ) :
    NodupKeys (extendChart G chart (p ++ [a])) ∧
    (∀ X, colGet (extendChart G chart (p ++ [a])) (p.length + 1) X = if X = G.S then cnfNullary G else 0) ∧
    (∀ X, colGet (extendChart G chart (p ++ [a])) p.length X =
      ((cnfTerminal G a).map fun r => if r.head = X then r.w else 0).sum) ∧
    (∀ m, m < p.length → ∀ X, colGet (extendChart G chart (p ++ [a])) m X =
      ((stageInstrs G chart (p.length + 1) m).map fun ins =>
        if ins.X = X then ins.coef * colGet (extendChart G chart (p ++ [a])) ins.j ins.Z else 0).sum) := by
  rw [extendChart_snoc]
  have hms : ((List.range p.length).reverse).Pairwise (· > ·) := by
    rw [List.pairwise_reverse]; exact List.pairwise_lt_range
  obtain ⟨f1, f2⟩ := foldl_add_const (cnfTerminal G a) (fun r => (p.length, r.head)) (fun r => r.w)
    (PyChart.add ([] : PyChart (Nat × σ) K) (p.length + 1, G.S) (cnfNullary G))
  generalize hnew1 : (cnfTerminal G a).foldl (fun c r => PyChart.add c (p.length, r.head) r.w)
    (PyChart.add ([] : PyChart (Nat × σ) K) (p.length + 1, G.S) (cnfNullary G)) = new1 at f1 f2 ⊢
  obtain ⟨r1, r2, r3⟩ := insideRun_spec G chart (p.length + 1) _ hms new1
  have hnew1get : ∀ i X, colGet new1 i X =
      (if i = p.length + 1 ∧ X = G.S then cnfNullary G else 0) +
      ((cnfTerminal G a).map fun r => if i = p.length ∧ r.head = X then r.w else 0).sum := by
    intro i X
    unfold colGet
    rw [f1, get_add, get_nil, zero_add]
    congr 1
    · by_cases h : (p.length + 1, G.S) = (i, X)
      · rw [if_pos h]; simp only [Prod.mk.injEq] at h; rw [if_pos ⟨h.1.symm, h.2.symm⟩]
      · rw [if_neg h]; simp only [Prod.mk.injEq] at h
        rw [if_neg]; rintro ⟨h1, h2⟩; exact h ⟨h1.symm, h2.symm⟩
    · apply sum_congr; intro r _
      by_cases h : (p.length, r.head) = (i, X)
      · rw [if_pos h]; simp only [Prod.mk.injEq] at h; rw [if_pos ⟨h.1.symm, h.2⟩]
      · rw [if_neg h]; simp only [Prod.mk.injEq] at h
        rw [if_neg]; rintro ⟨h1, h2⟩; exact h ⟨h1.symm, h2⟩
  refine ⟨r3 (f2 (nodup_add _ _ _ nodup_nil)), ?_, ?_, ?_⟩
  · intro X
    rw [r1 _ X (by simp), hnew1get]
    rw [sum_map_zero _ _ (by intro r _; rw [if_neg]; omega), add_zero]
    simp
  · intro X
    rw [r1 _ X (by simp), hnew1get]
    rw [if_neg (by omega), zero_add]
    apply sum_congr; intro r _; simp
  · intro m hm X
    rw [r2 m (by simp [hm]) X, hnew1get]
    rw [if_neg (by omega), zero_add, sum_map_zero _ _ (by intro r _; rw [if_neg]; omega), zero_add]

end Genlm.IncCkyAux

namespace Genlm.IncCkyAux
variable {κ σ K : Type} [DecidableEq κ] [DecidableEq σ] [CommSemiring K]

/-! ### the outside pass is the transpose of the inside pass -/

theorem outsideAlpha_eq (G : CFG σ K) (chart : List (CkyCol σ K)) (p : List σ) :
    outsideAlpha G chart p =
      (List.range' 0 p.length).foldl (fun c m => outsideSpan G chart (p.length + 1) m c)
        (PyChart.add [] (0, G.S) 1) := by
  unfold outsideAlpha
  simp only [Nat.add_sub_cancel]
  rw [← List.range_eq_range', ← List.reverse_reverse (List.range p.length), ← spans_map, ← List.map_reverse,
    List.foldl_map]
  rfl

/-- restriction of `N` to the rows `lo ≤ i < k` -/
def cut (k lo : Nat) (N : Nat → σ → K) : Nat × σ → K :=
  fun key => if lo ≤ key.1 ∧ key.1 < k then N key.1 key.2 else 0

/-- the invariant of the outside pass: `Σ_{rows ≥ m} α · N` does not change when the stage `m` is run,
for every `N` that satisfies the inside recurrence -/
theorem outsideRun_dual (G : CFG σ K) (chart : List (CkyCol σ K)) (k : Nat) (N : Nat → σ → K)
    (hN : ∀ m, m + 1 < k → ∀ X, N m X =
      ((stageInstrs G chart k m).map fun ins => if ins.X = X then ins.coef * N ins.j ins.Z else 0).sum) :
    ∀ n m, m + n + 1 = k → ∀ α : CkyCol σ K, NodupKeys α →
      NodupKeys ((List.range' m n).foldl (fun c m => outsideSpan G chart k m c) α) ∧
      wsum ((List.range' m n).foldl (fun c m => outsideSpan G chart k m c) α) (cut k (k - 1) N)
        = wsum α (cut k m N) := by
  intro n
  induction n with
  | zero =>
    intro m hm α hα
    have : k - 1 = m := by omega
    simp [this, hα]
  | succ n ih =>
    intro m hm α hα
    rw [List.range'_succ, List.foldl_cons]
    have hj : ∀ ins ∈ stageInstrs G chart k m, ins.j ≠ m := fun ins h =>
      Nat.ne_of_gt (stageInstrs_j G chart k m ins h).1
    obtain ⟨_, s2, s3⟩ := stageOut_spec m (stageInstrs G chart k m) hj α
    rw [← outsideSpan_eq] at s2 s3
    obtain ⟨i1, i2⟩ := ih (m + 1) (by omega) (outsideSpan G chart k m α) (s3 hα)
    refine ⟨i1, ?_⟩
    rw [i2, s2]
    -- split the rows `≥ m` into the row `m` and the rows `≥ m+1`
    have hsplit : ∀ key : Nat × σ, cut k m N key =
        ((stageInstrs G chart k m).map fun ins =>
          if (m, ins.X) = key then ins.coef * N ins.j ins.Z else 0).sum + cut k (m + 1) N key := by
      intro key
      unfold cut
      by_cases h1 : key.1 = m
      · have hk : m ≤ key.1 ∧ key.1 < k := by omega
        have hk' : ¬ (m + 1 ≤ key.1 ∧ key.1 < k) := by omega
        rw [if_pos hk, if_neg hk', add_zero, h1, hN m (by omega) key.2]
        apply sum_congr; intro ins _
        by_cases h2 : ins.X = key.2
        · rw [if_pos h2, if_pos]; rw [← h1, h2]
        · rw [if_neg h2, if_neg]; intro h; exact h2 (by rw [← h])
      · rw [sum_map_zero _ _ (by
          intro ins _; rw [if_neg]; intro h; exact h1 (by rw [← h])), zero_add]
        by_cases h2 : m ≤ key.1 ∧ key.1 < k
        · rw [if_pos h2, if_pos (by omega)]
        · rw [if_neg h2, if_neg (by omega)]
    rw [wsum_congr α _ _ hsplit, wsum_fun_add, wsum_row α hα, add_comm]
    congr 1
    apply sum_congr; intro ins hins
    obtain ⟨h1, h2⟩ := stageInstrs_j G chart k m ins hins
    unfold cut colGet
    rw [if_pos (by constructor <;> simp only <;> omega)]
    ring

/-- the value `q[a]` of `next_token_weights` -/
theorem nextTokenWeights_get (G : CFG σ K) (hV : G.V.Nodup) (chart : List (CkyCol σ K)) (p : List σ)
    (a : σ) (ha : a ∈ G.V) :
    (nextTokenWeights G chart p).get a =
      ((cnfTerminal G a).map fun r => r.w * colGet (outsideAlpha G chart p) p.length r.head).sum := by
  have hflat : nextTokenWeights G chart p =
      (G.V.flatMap fun w => (cnfTerminal G w).map fun r => (w, r)).foldl
        (fun q wr => PyChart.add q wr.1 (wr.2.w * colGet (outsideAlpha G chart p) p.length wr.2.head)) [] := by
    unfold nextTokenWeights
    simp only [List.foldl_flatMap, List.foldl_map, Nat.add_sub_cancel]
  rw [hflat, (foldl_add_const _ (fun wr : σ × Rule σ K => wr.1)
    (fun wr => wr.2.w * colGet (outsideAlpha G chart p) p.length wr.2.head) []).1 a, get_nil, zero_add,
    sum_flatMap]
  simp only [List.map_map, Function.comp_def]
  have hin : ∀ w, ((cnfTerminal G w).map fun r =>
        if w = a then r.w * colGet (outsideAlpha G chart p) p.length r.head else 0).sum
      = if w = a then ((cnfTerminal G w).map fun r =>
          r.w * colGet (outsideAlpha G chart p) p.length r.head).sum else 0 := by
    intro w
    by_cases h : w = a
    · simp only [if_pos h]
    · simp only [if_neg h]; exact sum_map_zero _ _ (fun _ _ => rfl)
  simp only [hin]
  exact sum_ite_eq_nodup G.V hV a ha _

/-- **Duality of the two passes** (no normal-form assumption, any chart): the weight `q[a]` computed by the
outside pass `next_token_weights(chart, p)` is the entry `[0][S]` of the column `extend_chart(chart, p ++ [a])`. -/
theorem nextTokenWeights_eq_extend (G : CFG σ K) (hV : G.V.Nodup) (chart : List (CkyCol σ K)) (p : List σ)
    (a : σ) (ha : a ∈ G.V) :
    (nextTokenWeights G chart p).get a = colGet (extendChart G chart (p ++ [a])) 0 G.S := by
  rw [nextTokenWeights_get G hV chart p a ha, outsideAlpha_eq]
  obtain ⟨_, e1, e2, e3⟩ := extendChart_snoc_spec G chart p a
  generalize extendChart G chart (p ++ [a]) = new at e1 e2 e3 ⊢
  have hα0 : NodupKeys (PyChart.add ([] : PyChart (Nat × σ) K) (0, G.S) 1) := nodup_add _ _ _ nodup_nil
  obtain ⟨d1, d2⟩ := outsideRun_dual G chart (p.length + 1) (colGet new)
    (fun m hm X => e3 m (by omega) X) p.length 0 (by omega) _ hα0
  generalize (List.range' 0 p.length).foldl (fun c m => outsideSpan G chart (p.length + 1) m c)
    (PyChart.add ([] : PyChart (Nat × σ) K) (0, G.S) 1) = α at d1 d2 ⊢
  -- right-hand side of the invariant: the initial `α` is the unit vector at `(0, S)`
  have hR : wsum (PyChart.add ([] : PyChart (Nat × σ) K) (0, G.S) 1) (cut (p.length + 1) 0 (colGet new))
      = colGet new 0 G.S := by
    rw [wsum_add]; simp [wsum, cut]
  -- left-hand side: only the row `k-1 = |p|` survives the cut, where `new` holds the preterminal weights
  have hL : wsum α (cut (p.length + 1) (p.length + 1 - 1) (colGet new))
      = ((cnfTerminal G a).map fun r => r.w * colGet α p.length r.head).sum := by
    have hc : ∀ key : Nat × σ, cut (p.length + 1) (p.length + 1 - 1) (colGet new) key =
        ((cnfTerminal G a).map fun r => if (p.length, r.head) = key then r.w else 0).sum := by
      intro key
      unfold cut
      by_cases h1 : key.1 = p.length
      · rw [if_pos (by omega), h1, e2]
        apply sum_congr; intro r _
        by_cases h2 : r.head = key.2
        · rw [if_pos h2, if_pos]; rw [← h1, h2]
        · rw [if_neg h2, if_neg]; intro h; exact h2 (by rw [← h])
      · rw [if_neg (by omega), sum_map_zero]
        intro r _; rw [if_neg]; intro h; exact h1 (by rw [← h])
    rw [wsum_congr α _ _ hc, wsum_row α d1]
    apply sum_congr; intro r _
    unfold colGet; ring
  rw [← hL, d2, hR]

end Genlm.IncCkyAux

namespace Genlm.IncCkyAux
variable {κ σ K : Type} [DecidableEq κ] [DecidableEq σ] [CommSemiring K]

/-! ### shape of the chart -/

theorem ckyChartAux_snoc (G : CFG σ K) (d r : List σ) (a : σ) (c : List (CkyCol σ K)) :
    ckyChartAux G d (r ++ [a]) c =
      ckyChartAux G d r c ++ [extendChart G (ckyChartAux G d r c) (d ++ r ++ [a])] := by
  induction r generalizing d c with
  | nil => simp [ckyChartAux]
  | cons t r ih =>
    simp only [List.cons_append, ckyChartAux]
    rw [ih]
    simp

theorem ckyChart_nil (G : CFG σ K) : ckyChart G [] = [ckyInit G] := rfl

theorem ckyChart_snoc (G : CFG σ K) (p : List σ) (a : σ) :
    ckyChart G (p ++ [a]) = ckyChart G p ++ [extendChart G (ckyChart G p) (p ++ [a])] := by
  unfold ckyChart
  rw [ckyChartAux_snoc]
  simp

theorem ckyChart_length (G : CFG σ K) (p : List σ) : (ckyChart G p).length = p.length + 1 := by
  induction p using List.reverseRecOn with
  | nil => rfl
  | append_singleton p a ih => rw [ckyChart_snoc]; simp [ih]

theorem ckyChart_getD_last (G : CFG σ K) (p : List σ) (a : σ) :
    (ckyChart G (p ++ [a])).getD (p.length + 1) [] = extendChart G (ckyChart G p) (p ++ [a]) := by
  rw [ckyChart_snoc, List.getD_eq_getElem?_getD, List.getElem?_append_right (by rw [ckyChart_length])]
  simp [ckyChart_length]

theorem ckyChart_getD_old (G : CFG σ K) (p : List σ) (a : σ) (k : Nat) (hk : k ≤ p.length) :
    (ckyChart G (p ++ [a])).getD k [] = (ckyChart G p).getD k [] := by
  rw [ckyChart_snoc, List.getD_eq_getElem?_getD, List.getD_eq_getElem?_getD,
    List.getElem?_append_left (by rw [ckyChart_length]; omega)]

/-! ### the CKY recurrence on spans of length 0, 1 and ≥ 2 -/

theorem foldl_acc {α : Type} (l : List α) (P : α → Prop) [DecidablePred P] (f : α → K) (acc : K) :
    l.foldl (fun acc r => if P r then acc + f r else acc) acc = acc + (l.map fun r => if P r then f r else 0).sum := by
  induction l generalizing acc with
  | nil => simp
  | cons a l ih =>
    simp only [List.foldl_cons, ih, List.map_cons, List.sum_cons]
    by_cases h : P a
    · simp only [if_pos h]; ring
    · simp only [if_neg h]; ring

omit [DecidableEq σ] in
theorem cnfNullary_eq (G : CFG σ K) :
    cnfNullary G = (G.rules.map fun r => if r.body.length = 0 then r.w else 0).sum := by
  unfold cnfNullary
  rw [foldl_acc G.rules (fun r => r.body.length = 0) (fun r => r.w) 0, zero_add]

theorem insN_one_nil (G : CFG σ K) (h : InCNF G) (X : σ) :
    insN G 1 [] X = if X = G.S then cnfNullary G else 0 := by
  have hR : (if X = G.S then cnfNullary G else 0) =
      (G.rules.map fun r => if X = G.S then (if r.body.length = 0 then r.w else 0) else 0).sum := by
    by_cases hX : X = G.S
    · simp only [if_pos hX, cnfNullary_eq]
    · simp only [if_neg hX]; exact (sum_map_zero _ _ (fun _ _ => rfl)).symm
  rw [hR]
  simp only [insN, lsum_eq_sum]
  rw [sum_filter_ite]
  apply sum_congr; intro r hr
  obtain ⟨_, hshape⟩ := h r hr
  rcases hshape with ⟨hb, hS⟩ | ⟨a, hb, _⟩ | ⟨B, C, hb, _⟩
  · simp only [ruleTerm, hb, hS, List.length_nil, if_true, mul_one, decide_eq_true_eq]
    by_cases hX : X = G.S
    · simp [hX]
    · have : G.S ≠ X := fun h' => hX h'.symm
      simp [hX, this]
  · simp [ruleTerm, hb]
  · simp [ruleTerm, hb, splits]

theorem insN_two_single (G : CFG σ K) (a X : σ) :
    insN G 2 [a] X = ((cnfTerminal G a).map fun r => if r.head = X then r.w else 0).sum := by
  unfold cnfTerminal
  simp only [insN.eq_2, lsum_eq_sum]
  rw [sum_filter_ite, sum_filter_ite]
  apply sum_congr; intro r _
  rcases hb : r.body with _ | ⟨b, _ | ⟨c, _ | ⟨d, l⟩⟩⟩
  · simp [ruleTerm, hb]
  · by_cases hab : b = a
    · subst hab; simp [ruleTerm, hb]
    · have : a ≠ b := fun h => hab h.symm
      simp [ruleTerm, hb, hab, this]
  · simp [ruleTerm, hb, splits]
  · simp [ruleTerm, hb]

theorem splits_eq_range {α : Type} (y : List α) :
    splits y = (List.range (y.length + 1)).map fun t => (y.take t, y.drop t) := by
  induction y with
  | nil => rfl
  | cons a y ih =>
    rw [splits, ih, List.length_cons, List.range_succ_eq_map (n := y.length + 1)]
    simp [Function.comp_def]

theorem sum_splits_nonempty {α : Type} [DecidableEq α] (y : List α) (F : List α → List α → K) :
    (((splits y).filter (fun p => p.1 ≠ [] ∧ p.2 ≠ [])).map fun p => F p.1 p.2).sum
      = ((List.range' 1 (y.length - 1)).map fun t => F (y.take t) (y.drop t)).sum := by
  rw [sum_filter_ite, splits_eq_range, List.map_map]
  have hcond : ∀ t ∈ List.range (y.length + 1),
      ((fun p : List α × List α => if (decide (p.1 ≠ [] ∧ p.2 ≠ [])) = true then F p.1 p.2 else 0) ∘
        fun t => (y.take t, y.drop t)) t
      = if 0 < t ∧ t < y.length then F (y.take t) (y.drop t) else 0 := by
    intro t ht
    have ht' : t < y.length + 1 := List.mem_range.mp ht
    simp only [Function.comp, ne_eq, decide_eq_true_eq, List.take_eq_nil_iff, List.drop_eq_nil_iff, not_or, not_le]
    by_cases h1 : 0 < t ∧ t < y.length
    · have hy : ¬ y = [] := by intro h; subst h; simp at h1
      rw [if_pos h1, if_pos]; exact ⟨⟨by omega, hy⟩, h1.2⟩
    · rw [if_neg h1, if_neg]; rintro ⟨⟨h2, _⟩, h3⟩; exact h1 ⟨by omega, h3⟩
  rw [List.map_congr_left hcond, List.range_eq_range']
  rcases Nat.eq_zero_or_pos y.length with h0 | hpos
  · simp [h0]
  · have hsplit : List.range' 0 (y.length + 1) = List.range' 0 1 ++ (List.range' 1 (y.length - 1) ++ List.range' y.length 1) := by
      rw [show y.length + 1 = 1 + ((y.length - 1) + 1) by omega, ← List.range'_append (s := 0) (m := 1) (step := 1),
        ← List.range'_append (s := 0 + 1 * 1) (m := y.length - 1) (n := 1) (step := 1)]
      congr 3; omega
    rw [hsplit, List.map_append, List.map_append, List.sum_append, List.sum_append]
    have h1 : ((List.range' 0 1).map fun t => if 0 < t ∧ t < y.length then F (y.take t) (y.drop t) else 0).sum = 0 := by
      simp
    have h3 : ((List.range' y.length 1).map fun t => if 0 < t ∧ t < y.length then F (y.take t) (y.drop t) else 0).sum = 0 := by
      simp
    rw [h1, h3, zero_add, add_zero]
    apply sum_congr; intro t ht
    have := List.mem_range'_1.mp ht
    rw [if_pos (by omega)]

/-- the CKY recurrence on a span of length ≥ 2: only binary rules and proper split points contribute -/
theorem insN_long (G : CFG σ K) (n : Nat) (y : List σ) (X : σ) (hy : 2 ≤ y.length) :
    insN G (n + 1) y X = ((cnfBinary G).map fun b => if b.X = X then
      b.w * ((List.range' 1 (y.length - 1)).map fun t => insN G n (y.take t) b.Y * insN G n (y.drop t) b.Z).sum
      else 0).sum := by
  unfold cnfBinary
  simp only [insN, lsum_eq_sum]
  rw [sum_filter_ite, sum_filterMap]
  apply sum_congr; intro r _
  have hy0 : y ≠ [] := by intro h; subst h; simp at hy
  rcases hb : r.body with _ | ⟨b, _ | ⟨c, _ | ⟨d, l⟩⟩⟩
  · simp [ruleTerm, hb, hy0]
  · have : y ≠ [b] := by intro h; subst h; simp at hy
    simp [ruleTerm, hb, this]
  · simp only [ruleTerm, hb, lsum_eq_sum, decide_eq_true_eq]
    rw [sum_splits_nonempty y (fun u v => insN G n u b * insN G n v c)]
  · simp [ruleTerm, hb]

/-- reading a row of an old column through `items()` and the index `r_y_xz` -/
theorem items_sum (c : CkyCol σ K) (hc : NodupKeys c) (m : Nat) (bins : List (BinRule σ K))
    (F : BinRule σ K → K → K) (hF : ∀ r, F r 0 = 0) :
    ((colItems c m).map fun Yy => ((bins.filter (fun r => r.Y = Yy.1)).map fun r => F r Yy.2).sum).sum
      = (bins.map fun r => F r (colGet c m r.Y)).sum := by
  unfold colItems
  rw [List.map_map, sum_filter_ite]
  have h1 : ∀ e : (Nat × σ) × K,
      (if (decide (e.1.1 = m)) = true then
        ((fun Yy : σ × K => ((bins.filter (fun r => r.Y = Yy.1)).map fun r => F r Yy.2).sum) ∘
          fun e : (Nat × σ) × K => (e.1.2, e.2)) e else 0)
      = (bins.map fun r => if e.1 = (m, r.Y) then F r e.2 else 0).sum := by
    intro e
    simp only [Function.comp, decide_eq_true_eq]
    by_cases hm : e.1.1 = m
    · rw [if_pos hm, sum_filter_ite]
      apply sum_congr; intro r _
      by_cases hr : r.Y = e.1.2
      · rw [if_pos (by simpa using hr), if_pos]; rw [← hm, hr]
      · rw [if_neg (by simpa using hr), if_neg]; intro h; exact hr (by rw [h])
    · rw [if_neg hm, sum_map_zero]
      intro r _; rw [if_neg]; intro h; exact hm (by rw [h])
  simp only [h1]
  rw [sum_swap]
  apply sum_congr; intro r _
  exact sum_key c hc (m, r.Y) (F r) (hF r)

end Genlm.IncCkyAux

namespace Genlm.IncCkyAux
variable {κ σ K : Type} [DecidableEq κ] [DecidableEq σ] [CommSemiring K]

/-! ### the new column holds the CKY values of the spans ending at `k` -/

/-- what the inductive proof knows about the columns already in the chart -/
def OldOK (G : CFG σ K) (p : List σ) (chart : List (CkyCol σ K)) : Prop :=
  ∀ j, j ≤ p.length → NodupKeys (chart.getD j []) ∧
    ∀ i, i ≤ j → ∀ Y, colGet (chart.getD j []) i Y = insN G (j - i + 1) ((p.take j).drop i) Y

theorem newcol_ok (G : CFG σ K) (h : InCNF G) (p : List σ) (a : σ) (chart : List (CkyCol σ K))
    (hold : OldOK G p chart) :
    ∀ d m, m + d = p.length + 1 → ∀ X,
      colGet (extendChart G chart (p ++ [a])) m X = insN G (d + 1) ((p ++ [a]).drop m) X := by
  obtain ⟨_, e1, e2, e3⟩ := extendChart_snoc_spec G chart p a
  generalize extendChart G chart (p ++ [a]) = new at e1 e2 e3 ⊢
  intro d
  induction d using Nat.strong_induction_on with
  | _ d IH =>
    intro m hm X
    rcases d with _ | _ | d
    · -- empty span
      have : m = p.length + 1 := by omega
      subst this
      rw [e1, List.drop_of_length_le (by simp), Nat.zero_add, insN_one_nil G h]
    · -- the new token
      have : m = p.length := by omega
      subst this
      rw [e2, List.drop_left', insN_two_single]
      rfl
    · -- spans of length ≥ 2
      have hmp : m < p.length := by omega
      rw [e3 m hmp X]
      have hylen : ((p ++ [a]).drop m).length = d + 2 := by simp; omega
      rw [insN_long G (d + 2) _ X (by omega), hylen]
      unfold stageInstrs
      rw [sum_flatMap]
      simp only [sum_flatMap, List.map_map, Function.comp_def]
      -- per split point `j`: read the old column and the already finished rows of the new one
      have hj : ∀ j ∈ List.range' (m + 1) (p.length + 1 - (m + 1)),
          ((colItems (chart.getD j []) m).map fun Yy => ((rYXZ G Yy.1).map fun r =>
            if r.X = X then r.w * Yy.2 * colGet new j r.Z else 0).sum).sum
          = ((cnfBinary G).map fun r => if r.X = X then
              r.w * insN G (j - m + 1) ((p.take j).drop m) r.Y
                * insN G (p.length + 1 - j + 1) ((p ++ [a]).drop j) r.Z else 0).sum := by
        intro j hjmem
        have hjr := List.mem_range'_1.mp hjmem
        obtain ⟨hnd, hval⟩ := hold j (by omega)
        unfold rYXZ
        rw [items_sum (chart.getD j []) hnd m (cnfBinary G)
          (fun r y => if r.X = X then r.w * y * colGet new j r.Z else 0)
          (by intro r; simp)]
        apply sum_congr; intro r _
        rw [hval m (by omega) r.Y, IH (p.length + 1 - j) (by omega) j (by omega) r.Z]
      rw [sum_congr _ _ _ hj, sum_swap]
      apply sum_congr; intro r _
      by_cases hX : r.X = X
      · simp only [if_pos hX]
        rw [sum_mul_left]
        have hr : List.range' (m + 1) (p.length + 1 - (m + 1)) = (List.range' 1 (d + 2 - 1)).map (fun t => m + t) := by
          rw [List.map_add_range']; congr 1; omega
        rw [hr, List.map_map]
        apply sum_congr; intro t ht
        have htr := List.mem_range'_1.mp ht
        simp only [Function.comp]
        have e_take : (p.take (m + t)).drop m = ((p ++ [a]).drop m).take t := by
          rw [List.drop_take, List.drop_append_of_le_length (by omega), List.take_append_of_le_length (by simp; omega)]
          congr 1; omega
        have e_drop : (p ++ [a]).drop (m + t) = ((p ++ [a]).drop m).drop t := by
          rw [List.drop_drop]
        have l_take : (((p ++ [a]).drop m).take t).length = t := by
          rw [List.length_take, hylen]; omega
        have l_drop : (((p ++ [a]).drop m).drop t).length = d + 2 - t := by
          rw [List.length_drop, hylen]
        rw [e_take, e_drop,
          insN_stable G t _ l_take (t + 1) (d + 2) r.Y (Nat.le_refl _) (by omega),
          insN_stable G (d + 2 - t) _ l_drop (d + 2 - t + 1) (d + 2) r.Z (Nat.le_refl _) (by omega)]
        rw [show m + t - m + 1 = t + 1 by omega, show p.length + 1 - (m + t) + 1 = d + 2 - t + 1 by omega]
        ring
      · simp only [if_neg hX]
        exact sum_map_zero _ _ (fun _ _ => rfl)

end Genlm.IncCkyAux

namespace Genlm
variable {σ K : Type} [DecidableEq σ] [CommSemiring K]
open IncCkyAux

/-- every column of the incremental chart has distinct keys and holds the CKY values -/
theorem incCky_chart_insN (G : CFG σ K) (h : InCNF G) (p : List σ) : OldOK G p (ckyChart G p) := by
  induction p using List.reverseRecOn with
  | nil =>
    intro j hj
    have : j = 0 := by simpa using hj
    subst this
    refine ⟨by simp [ckyChart_nil, ckyInit, NodupKeys], ?_⟩
    intro i hi Y
    have : i = 0 := by omega
    subst this
    rw [ckyChart_nil]
    simp only [List.getD_cons_zero, colGet, ckyInit, get_cons, get_nil, Prod.mk.injEq, true_and]
    rw [show (0 - 0 + 1) = 1 from rfl, List.take_nil, List.drop_nil, insN_one_nil G h]
    by_cases hY : Y = G.S
    · simp [hY]
    · have : G.S ≠ Y := fun h' => hY h'.symm
      simp [hY, this]
  | append_singleton p a ih =>
    intro j hj
    rw [List.length_append, List.length_singleton] at hj
    rcases Nat.lt_or_ge j (p.length + 1) with hlt | hge
    · rw [ckyChart_getD_old G p a j (by omega), List.take_append_of_le_length (by omega)]
      exact ih j (by omega)
    · have : j = p.length + 1 := by omega
      subst this
      rw [ckyChart_getD_last]
      refine ⟨(extendChart_snoc_spec G (ckyChart G p) p a).1, ?_⟩
      intro i hi Y
      rw [newcol_ok G h p a (ckyChart G p) ih (p.length + 1 - i) i (by omega) Y,
        List.take_of_length_le (by simp)]

end Genlm

namespace Genlm.IncCkyAux
variable {κ σ K : Type} [DecidableEq κ] [DecidableEq σ] [CommSemiring K]

/-! ### what is stored for the empty span -/

theorem foldl_inv {α β : Type} (P : α → Prop) (f : α → β → α) (l : List β)
    (hf : ∀ a b, b ∈ l → P a → P (f a b)) (a : α) (ha : P a) : P (l.foldl f a) := by
  induction l generalizing a with
  | nil => exact ha
  | cons b l ih =>
    exact ih (fun a b' hb' => hf a b' (List.mem_cons_of_mem _ hb')) _ (hf a b (List.mem_cons_self ..) ha)

theorem colItems_colAdd_ne (c : CkyCol σ K) (i : Nat) (X : σ) (v : K) (i' : Nat) (hi : i ≠ i') :
    colItems (colAdd c i X v) i' = colItems c i' := by
  unfold colItems colAdd
  induction c with
  | nil => simp [PyChart.add, hi]
  | cons e c ih =>
    simp only [PyChart.add]
    by_cases h : e.1 = (i, X)
    · have : e.1.1 ≠ i' := by rw [h]; exact hi
      rw [if_pos h, List.filter_cons_of_neg (by simpa using this), List.filter_cons_of_neg (by simpa using this)]
    · rw [if_neg h]
      by_cases h' : e.1.1 = i'
      · rw [List.filter_cons_of_pos (by simpa using h'), List.filter_cons_of_pos (by simpa using h'),
          List.map_cons, List.map_cons, ih]
      · rw [List.filter_cons_of_neg (by simpa using h'), List.filter_cons_of_neg (by simpa using h'), ih]

/-- the row `k` of the column `k`: exactly one item, the nullary weight at the start symbol -/
theorem extendChart_diag_items (G : CFG σ K) (chart : List (CkyCol σ K)) (p : List σ) (a : σ) :
    colItems (extendChart G chart (p ++ [a])) (p.length + 1) = [(G.S, cnfNullary G)] := by
  rw [extendChart_snoc]
  apply foldl_inv (fun c : CkyCol σ K => colItems c (p.length + 1) = [(G.S, cnfNullary G)])
  · intro c m hm hc
    have hm' : m < p.length := by simpa using hm
    rw [extendSpan_eq]
    apply foldl_inv (fun c : CkyCol σ K => colItems c (p.length + 1) = [(G.S, cnfNullary G)]) _ _ _ _ hc
    intro c ins _ hc
    unfold execIn
    rw [colItems_colAdd_ne _ _ _ _ _ (by omega), hc]
  · apply foldl_inv (fun c : CkyCol σ K => colItems c (p.length + 1) = [(G.S, cnfNullary G)])
    · intro c r _ hc
      exact (colItems_colAdd_ne c p.length r.head r.w (p.length + 1) (by omega)).trans hc
    · simp [colItems, PyChart.add]

/-! ### link to the memo discipline of `Model/Memo.lean` -/

theorem ckyExt_eq (G : CFG σ K) (p : List σ) (a : σ) :
    ckyExt G (ckyChart G p) a = extendChart G (ckyChart G p) (p ++ [a]) := by
  unfold ckyExt
  have h := extendChart_snoc G (ckyChart G p) (List.replicate ((ckyChart G p).length - 1) a) a
  rw [h, extendChart_snoc, ckyChart_length]
  simp

end Genlm.IncCkyAux

namespace Genlm
variable {σ K : Type} [DecidableEq σ] [CommSemiring K]
open IncCkyAux

/-- `IncrementalCKY.chart` is the column-by-column chart of `Model/Memo.lean` … -/
theorem ckyChart_eq_pureChart (G : CFG σ K) (p : List σ) :
    ckyChart G p = pureChart (ckyInit G) (ckyExt G) p := by
  induction p using List.reverseRecOn with
  | nil => rfl
  | append_singleton p a ih =>
    rw [ckyChart_snoc]
    simp only [pureChart, List.foldl_append, List.foldl_cons, List.foldl_nil]
    rw [show List.foldl (fun c t => c ++ [ckyExt G c t]) [ckyInit G] p = ckyChart G p from ih.symm, ckyExt_eq]

/-- … hence the memo table `self._chart` is transparent: whatever (coherent) table has been accumulated,
`chart(prefix)` returns `ckyChart G prefix`. -/
theorem incCky_memo_transparent (G : CFG σ K) (p : List σ) (m : Memo σ (CkyCol σ K))
    (hm : m.Coherent (ckyInit G) (ckyExt G)) :
    (chartM (ckyInit G) (ckyExt G) p m).1 = ckyChart G p ∧
    (chartM (ckyInit G) (ckyExt G) p m).2.Coherent (ckyInit G) (ckyExt G) := by
  rw [ckyChart_eq_pureChart]
  exact chartM_transparent _ _ p m hm

/-- the chart of a prefix has one column per position `0 .. |p|` -/
theorem incCky_chart_length (G : CFG σ K) (p : List σ) : (ckyChart G p).length = p.length + 1 :=
  ckyChart_length G p

/-- **Inside values.**  For a CNF grammar, the entry `chart(p)[k][i][X]` of the incremental chart is the total
weight of the derivations of `p[i:k]` from `X` — for every `i ≤ k ≤ |p|`, every `X` (including the keys the
Python dict does not hold, which read as `0`) and every height bound `n ≥ k - i + 1`. -/
theorem incCky_entry (G : CFG σ K) (h : InCNF G) (p : List σ) (k i : Nat) (hk : k ≤ p.length) (hi : i ≤ k)
    (X : σ) (n : Nat) (hn : k - i + 1 ≤ n) :
    colGet ((ckyChart G p).getD k []) i X = WN G n X ((p.take k).drop i) := by
  have hlen : ((p.take k).drop i).length = k - i := by
    rw [List.length_drop, List.length_take, Nat.min_eq_left hk]
  rw [(incCky_chart_insN G h p k hk).2 i hi X, ← hlen]
  exact cky_correct G h _ X n (by rw [hlen]; exact hn)

/-- the keys within one column are distinct (the association list is a faithful `dict`) -/
theorem incCky_nodupKeys (G : CFG σ K) (h : InCNF G) (p : List σ) (k : Nat) (hk : k ≤ p.length) :
    (((ckyChart G p).getD k []).map (·.1)).Nodup :=
  (incCky_chart_insN G h p k hk).1

/-- **Empty spans: what the code stores** (any grammar).  The row `k` of the column `k` consists of the single
item `S ↦ nullary` (`new[k][S] += nullary`; nothing else is ever written to `new[k]`). -/
theorem incCky_diag_items (G : CFG σ K) (p : List σ) (k : Nat) (hk : k ≤ p.length) :
    colItems ((ckyChart G p).getD k []) k = [(G.S, cnfNullary G)] := by
  induction p using List.reverseRecOn with
  | nil =>
    have : k = 0 := by simpa using hk
    subst this
    simp [ckyChart_nil, ckyInit, colItems]
  | append_singleton p a ih =>
    rw [List.length_append, List.length_singleton] at hk
    rcases Nat.lt_or_ge k (p.length + 1) with hlt | hge
    · rw [ckyChart_getD_old G p a k (by omega)]; exact ih (by omega)
    · have : k = p.length + 1 := by omega
      subst this
      rw [ckyChart_getD_last, extendChart_diag_items]

/-- … and for a CNF grammar this is the right value: `nullary = W(S ⇒ ε)`, while every other nonterminal
has `W(X ⇒ ε) = 0`, the value a missing key reads as. -/
theorem incCky_diag (G : CFG σ K) (h : InCNF G) (p : List σ) (k : Nat) (hk : k ≤ p.length) (X : σ)
    (n : Nat) (hn : 1 ≤ n) :
    colGet ((ckyChart G p).getD k []) k X = (if X = G.S then cnfNullary G else 0) ∧
    (if X = G.S then cnfNullary G else 0) = WN G n X [] := by
  have h1 := (incCky_chart_insN G h p k hk).2 k (Nat.le_refl _) X
  have h2 := incCky_entry G h p k k hk (Nat.le_refl _) X n (by omega)
  rw [Nat.sub_self, Nat.zero_add, List.drop_take, Nat.sub_self, List.take_zero, insN_one_nil G h] at h1
  rw [List.drop_take, Nat.sub_self, List.take_zero] at h2
  exact ⟨h1, h1.symm.trans h2⟩

/-- **`IncrementalCKY.__call__` is the weighted language of the grammar** (C02, incremental CKY leg). -/
theorem incCky_call (G : CFG σ K) (h : InCNF G) (x : List σ) (n : Nat) (hn : x.length + 1 ≤ n) :
    incCkyCall G x = WN G n G.S x := by
  unfold incCkyCall
  rw [incCky_entry G h x x.length 0 (Nat.le_refl _) (Nat.zero_le _) G.S n (by omega), List.take_length,
    List.drop_zero]

/-- **Duality of the outside and inside passes** (any grammar, `V` duplicate-free as the Python `set` is):
the unnormalised weight `p_next(p)[a]` equals `IncrementalCKY(p ++ [a])`. -/
theorem outside_is_inside_of_extension (G : CFG σ K) (hV : G.V.Nodup) (p : List σ) (a : σ) (ha : a ∈ G.V) :
    (incCkyPNext G p).get a = incCkyCall G (p ++ [a]) := by
  unfold incCkyPNext incCkyCall
  rw [nextTokenWeights_eq_extend G hV _ p a ha, List.length_append, List.length_singleton, ckyChart_getD_last]

/-- symbols outside `V` are not keys of `p_next(p)` -/
theorem incCkyPNext_notin (G : CFG σ K) (chart : List (CkyCol σ K)) (p : List σ) (a : σ) (ha : a ∉ G.V) :
    (nextTokenWeights G chart p).get a = 0 := by
  have hflat : nextTokenWeights G chart p =
      (G.V.flatMap fun w => (cnfTerminal G w).map fun r => (w, r)).foldl
        (fun q wr => PyChart.add q wr.1 (wr.2.w * colGet (outsideAlpha G chart p) p.length wr.2.head)) [] := by
    unfold nextTokenWeights
    simp only [List.foldl_flatMap, List.foldl_map, Nat.add_sub_cancel]
  rw [hflat, (foldl_add_const _ (fun wr : σ × Rule σ K => wr.1)
    (fun wr => wr.2.w * colGet (outsideAlpha G chart p) p.length wr.2.head) []).1 a, get_nil, zero_add]
  apply sum_map_zero
  intro wr hwr
  simp only [List.mem_flatMap, List.mem_map] at hwr
  obtain ⟨w, hw, r, _, rfl⟩ := hwr
  rw [if_neg]; intro h'; exact ha (h' ▸ hw)

/-- **C04, CKY leg**: before normalisation, the weight the language model computes for the next token `a`
is the weight the grammar assigns to the context extended by `a`. -/
theorem incCky_pnext_is_WN (G : CFG σ K) (h : InCNF G) (hV : G.V.Nodup) (p : List σ) (a : σ) (ha : a ∈ G.V)
    (n : Nat) (hn : p.length + 2 ≤ n) :
    (incCkyPNext G p).get a = WN G n G.S (p ++ [a]) := by
  rw [outside_is_inside_of_extension G hV p a ha]
  exact incCky_call G h _ n (by simpa using hn)

end Genlm

namespace Genlm.IncCkyAux
variable {κ σ K : Type} [DecidableEq κ] [DecidableEq σ] [CommSemiring K]

/-! ### `CFG._parse_chart` -/

/-- a fold of `+=` whose values only read keys that the fold never writes -/
theorem foldl_add_frozen {β : Type} (L : List β) (tgt : β → κ) (val : PyChart κ K → β → K) (Fz : κ → Prop)
    (htgt : ∀ b ∈ L, ¬ Fz (tgt b))
    (hval : ∀ c c' b, b ∈ L → (∀ k, Fz k → PyChart.get c k = PyChart.get c' k) → val c b = val c' b)
    (c : PyChart κ K) :
    (∀ k, (L.foldl (fun c b => PyChart.add c (tgt b) (val c b)) c).get k
        = c.get k + (L.map fun b => if tgt b = k then val c b else 0).sum) ∧
    (NodupKeys c → NodupKeys (L.foldl (fun c b => PyChart.add c (tgt b) (val c b)) c)) := by
  induction L generalizing c with
  | nil => simp
  | cons b L ih =>
    obtain ⟨ih1, ih2⟩ := ih (fun b' h => htgt b' (List.mem_cons_of_mem _ h))
      (fun c c' b' h => hval c c' b' (List.mem_cons_of_mem _ h)) (PyChart.add c (tgt b) (val c b))
    refine ⟨?_, fun hc => ih2 (nodup_add c _ _ hc)⟩
    intro k
    have hfz : ∀ k, Fz k → PyChart.get (PyChart.add c (tgt b) (val c b)) k = PyChart.get c k := by
      intro k hk
      rw [get_add, if_neg]
      intro h; exact htgt b (List.mem_cons_self ..) (h ▸ hk)
    rw [List.foldl_cons, ih1, get_add, List.map_cons, List.sum_cons]
    have hs : (L.map fun b' => if tgt b' = k then val (PyChart.add c (tgt b) (val c b)) b' else 0).sum
        = (L.map fun b' => if tgt b' = k then val c b' else 0).sum := by
      apply sum_congr; intro b' hb'
      rw [hval _ c b' (List.mem_cons_of_mem _ hb') hfz]
    rw [hs]
    by_cases h : tgt b = k
    · simp only [if_pos h]; ring
    · simp only [if_neg h]; ring

theorem insN_split (G : CFG σ K) (y : List σ) (X : σ) (s : Nat) (hs : y.length = s) (h2 : 2 ≤ s) :
    insN G (s + 1) y X = ((cnfBinary G).map fun r => if r.X = X then
      r.w * ((List.range' 1 (s - 1)).map fun t =>
        insN G (t + 1) (y.take t) r.Y * insN G (s - t + 1) (y.drop t) r.Z).sum else 0).sum := by
  rw [insN_long G s y X (by omega), hs]
  apply sum_congr; intro r _
  by_cases hX : r.X = X
  · simp only [if_pos hX]
    congr 1
    apply sum_congr; intro t ht
    have htr := List.mem_range'_1.mp ht
    have l_take : (y.take t).length = t := by rw [List.length_take, hs]; omega
    have l_drop : (y.drop t).length = s - t := by rw [List.length_drop, hs]
    rw [insN_stable G t _ l_take (t + 1) s r.Y (Nat.le_refl _) (by omega),
      insN_stable G (s - t) _ l_drop (s - t + 1) s r.Z (Nat.le_refl _) (by omega)]
  · simp only [if_neg hX]

/-- the value the chart should hold at `c[i, X, k]` -/
def Tcell (G : CFG σ K) (xs : List σ) (key : Nat × σ × Nat) : K :=
  insN G (key.2.2 - key.1 + 1) ((xs.take key.2.2).drop key.1) key.2.1

/-- the CKY recurrence in the index form used by `_parse_chart` -/
theorem Tcell_split (G : CFG σ K) (xs : List σ) (i s : Nat) (X : σ) (h2 : 2 ≤ s) (hk : i + s ≤ xs.length) :
    Tcell G xs (i, X, i + s) =
      ((List.range' (i + 1) (i + s - (i + 1))).map fun j => ((cnfBinary G).map fun r =>
        if r.X = X then r.w * Tcell G xs (i, r.Y, j) * Tcell G xs (j, r.Z, i + s) else 0).sum).sum := by
  unfold Tcell
  simp only
  have hlen : ((xs.take (i + s)).drop i).length = s := by
    rw [List.length_drop, List.length_take, Nat.min_eq_left hk]; omega
  rw [show i + s - i + 1 = s + 1 by omega, insN_split G _ X s hlen h2, sum_swap]
  apply sum_congr; intro r _
  by_cases hX : r.X = X
  · simp only [if_pos hX]
    rw [sum_mul_left]
    have hr : List.range' (i + 1) (i + s - (i + 1)) = (List.range' 1 (s - 1)).map (fun t => i + t) := by
      rw [List.map_add_range']; congr 1; omega
    rw [hr, List.map_map]
    apply sum_congr; intro t ht
    have htr := List.mem_range'_1.mp ht
    simp only [Function.comp]
    have e_take : (xs.take (i + t)).drop i = ((xs.take (i + s)).drop i).take t := by
      rw [List.take_drop, List.take_take, Nat.min_eq_left (by omega)]
    have e_drop : (xs.take (i + s)).drop (i + t) = ((xs.take (i + s)).drop i).drop t := by
      rw [List.drop_drop]
    rw [e_take, e_drop, show i + t - i + 1 = t + 1 by omega, show i + s - (i + t) + 1 = s - t + 1 by omega]
    ring
  · simp only [if_neg hX]
    exact (sum_map_zero _ _ (fun _ _ => rfl)).symm

/-- invariant of the span loop: spans `≤ s` are final, longer spans are still empty -/
def PInv (G : CFG σ K) (xs : List σ) (s : Nat) (c : PyChart (Nat × σ × Nat) K) : Prop :=
  NodupKeys c ∧ ∀ i k X, i ≤ k → k ≤ xs.length →
    (k - i ≤ s → c.get (i, X, k) = Tcell G xs (i, X, k)) ∧ (s < k - i → c.get (i, X, k) = 0)

/-- the body of `for span in range(2, N+1)` -/
def parseSpan (G : CFG σ K) (N span : Nat) (c : PyChart (Nat × σ × Nat) K) : PyChart (Nat × σ × Nat) K :=
  (List.range (N - span + 1)).foldl (fun c i =>
    (List.range' (i + 1) (i + span - (i + 1))).foldl (fun c j =>
      (cnfBinary G).foldl (fun c r =>
        PyChart.add c (i, r.X, i + span) (r.w * PyChart.get c (i, r.Y, j) * PyChart.get c (j, r.Z, i + span))) c) c) c

theorem parseSpan_step (G : CFG σ K) (xs : List σ) (s : Nat) (hs1 : 1 ≤ s) (hsN : s + 1 ≤ xs.length)
    (c : PyChart (Nat × σ × Nat) K) (hc : PInv G xs s c) : PInv G xs (s + 1) (parseSpan G xs.length (s + 1) c) := by
  obtain ⟨hnd, hinv⟩ := hc
  -- flatten the three loops into one list of instructions `(i, j, r)`
  have hflat : parseSpan G xs.length (s + 1) c =
      ((List.range (xs.length - (s + 1) + 1)).flatMap fun i =>
        (List.range' (i + 1) (i + (s + 1) - (i + 1))).flatMap fun j =>
          (cnfBinary G).map fun r => (i, j, r)).foldl
        (fun c (b : Nat × Nat × BinRule σ K) => PyChart.add c (b.1, b.2.2.X, b.1 + (s + 1))
          (b.2.2.w * PyChart.get c (b.1, b.2.2.Y, b.2.1) * PyChart.get c (b.2.1, b.2.2.Z, b.1 + (s + 1)))) c := by
    simp only [parseSpan, List.foldl_flatMap, List.foldl_map]
  generalize hL : ((List.range (xs.length - (s + 1) + 1)).flatMap fun i =>
        (List.range' (i + 1) (i + (s + 1) - (i + 1))).flatMap fun j =>
          (cnfBinary G).map fun r => (i, j, r)) = L at hflat
  have hmem : ∀ b ∈ L, b.1 < b.2.1 ∧ b.2.1 < b.1 + (s + 1) := by
    intro b hb
    rw [← hL] at hb
    simp only [List.mem_flatMap, List.mem_map] at hb
    obtain ⟨i, _, j, hj, r, _, rfl⟩ := hb
    have := List.mem_range'_1.mp hj
    simp only; omega
  obtain ⟨f1, f2⟩ := foldl_add_frozen L (fun b => (b.1, b.2.2.X, b.1 + (s + 1)))
    (fun c b => b.2.2.w * PyChart.get c (b.1, b.2.2.Y, b.2.1) * PyChart.get c (b.2.1, b.2.2.Z, b.1 + (s + 1)))
    (fun key => key.2.2 - key.1 ≠ s + 1)
    (by intro b _ h; exact h (by simp only; omega))
    (by
      intro c c' b hb hcc
      obtain ⟨h1, h2⟩ := hmem b hb
      show b.2.2.w * PyChart.get c (b.1, b.2.2.Y, b.2.1) * PyChart.get c (b.2.1, b.2.2.Z, b.1 + (s + 1))
        = b.2.2.w * PyChart.get c' (b.1, b.2.2.Y, b.2.1) * PyChart.get c' (b.2.1, b.2.2.Z, b.1 + (s + 1))
      rw [hcc (b.1, b.2.2.Y, b.2.1) (by simp only; omega), hcc (b.2.1, b.2.2.Z, b.1 + (s + 1)) (by simp only; omega)])
    c
  rw [← hflat] at f1 f2
  refine ⟨f2 hnd, ?_⟩
  intro i k X hik hkN
  rw [f1]
  by_cases hspan : k - i = s + 1
  · -- the cells written in this stage
    have hk : k = i + (s + 1) := by omega
    subst hk
    refine ⟨fun _ => ?_, fun h => by omega⟩
    rw [(hinv i _ X hik hkN).2 (by omega), zero_add, ← hL, sum_flatMap]
    have hinner : ∀ i' ∈ List.range (xs.length - (s + 1) + 1),
        (((List.range' (i' + 1) (i' + (s + 1) - (i' + 1))).flatMap fun j =>
            (cnfBinary G).map fun r => (i', j, r)).map fun b : Nat × Nat × BinRule σ K =>
          if (b.1, b.2.2.X, b.1 + (s + 1)) = (i, X, i + (s + 1)) then
            b.2.2.w * PyChart.get c (b.1, b.2.2.Y, b.2.1) * PyChart.get c (b.2.1, b.2.2.Z, b.1 + (s + 1)) else 0).sum
        = if i' = i then Tcell G xs (i', X, i' + (s + 1)) else 0 := by
      intro i' hi'
      have hi'r := List.mem_range.mp hi'
      rw [sum_flatMap]
      simp only [List.map_map, Function.comp_def]
      by_cases hii : i' = i
      · subst hii
        rw [if_pos rfl, Tcell_split G xs i' (s + 1) X (by omega) (by omega)]
        apply sum_congr; intro j hj
        have hjr := List.mem_range'_1.mp hj
        apply sum_congr; intro r _
        by_cases hX : r.X = X
        · rw [if_pos hX, if_pos (by rw [hX]),
            (hinv i' j r.Y (by omega) (by omega)).1 (by omega),
            (hinv j (i' + (s + 1)) r.Z (by omega) (by omega)).1 (by omega)]
        · rw [if_neg hX, if_neg]; intro h; exact hX (by simpa using h)
      · rw [if_neg hii]
        apply sum_map_zero; intro j _
        apply sum_map_zero; intro r _
        rw [if_neg]; intro h; exact hii (by simpa using congrArg Prod.fst h)
    rw [sum_congr _ _ _ hinner]
    exact sum_ite_eq_nodup _ List.nodup_range i (List.mem_range.mpr (by omega)) _
  · -- all other cells are untouched
    rw [sum_map_zero _ _ (by
      intro b _; rw [if_neg]; intro h
      have h1 := congrArg Prod.fst h
      have h2 := congrArg (fun t => t.2.2) h
      simp only at h1 h2; omega), add_zero]
    refine ⟨fun h => (hinv i k X hik hkN).1 (by omega), fun h => (hinv i k X hik hkN).2 (by omega)⟩

theorem parseSpans_run (G : CFG σ K) (xs : List σ) :
    ∀ n s (c : PyChart (Nat × σ × Nat) K), PInv G xs s c → 1 ≤ s → s + n ≤ xs.length →
      PInv G xs (s + n) ((List.range' (s + 1) n).foldl (fun c span => parseSpan G xs.length span c) c) := by
  intro n
  induction n with
  | zero => intro s c hc _ _; simpa using hc
  | succ n ih =>
    intro s c hc hs hn
    rw [List.range'_succ, List.foldl_cons, show s + (n + 1) = (s + 1) + n by omega]
    exact ih (s + 1) _ (parseSpan_step G xs s hs (by omega) c hc) (by omega) (by omega)

/-- the chart after the nullary and preterminal loops -/
def parseInit (G : CFG σ K) (xs : List σ) : PyChart (Nat × σ × Nat) K :=
  ((List.range xs.length).flatMap fun i => (cnfTerminalAt G xs i).map fun r => (i, r)).foldl
    (fun c b => PyChart.add c (b.1, b.2.head, b.1 + 1) b.2.w)
    ((List.range (xs.length + 1)).foldl (fun c i => PyChart.add c (i, G.S, i) (cnfNullary G)) [])

theorem parseChart_eq (G : CFG σ K) (xs : List σ) :
    parseChart G xs = (List.range' (1 + 1) (xs.length - 1)).foldl
      (fun c span => parseSpan G xs.length span c) (parseInit G xs) := by
  unfold parseChart parseInit
  simp only [List.foldl_flatMap, List.foldl_map]
  rfl

theorem parseInit_inv (G : CFG σ K) (h : InCNF G) (xs : List σ) : PInv G xs 1 (parseInit G xs) := by
  unfold parseInit
  obtain ⟨a1, a2⟩ := foldl_add_const (List.range (xs.length + 1)) (fun i => (i, G.S, i))
    (fun _ => cnfNullary G) ([] : PyChart (Nat × σ × Nat) K)
  generalize (List.range (xs.length + 1)).foldl (fun c i => PyChart.add c (i, G.S, i) (cnfNullary G))
    ([] : PyChart (Nat × σ × Nat) K) = c0 at a1 a2 ⊢
  obtain ⟨b1, b2⟩ := foldl_add_const ((List.range xs.length).flatMap fun i => (cnfTerminalAt G xs i).map fun r => (i, r))
    (fun b : Nat × Rule σ K => (b.1, b.2.head, b.1 + 1)) (fun b => b.2.w) c0
  refine ⟨b2 (a2 nodup_nil), ?_⟩
  intro i k X hik hkN
  rw [b1, a1, get_nil, zero_add, sum_flatMap]
  simp only [List.map_map, Function.comp_def]
  rcases Nat.lt_or_ge 1 (k - i) with hlong | hshort
  · -- nothing has been written to spans ≥ 2
    refine ⟨fun h => by omega, fun _ => ?_⟩
    rw [sum_map_zero _ _ (by
      intro i' _; rw [if_neg]; intro h
      have h1 := congrArg Prod.fst h
      have h2 := congrArg (fun t => t.2.2) h
      simp only at h1 h2; omega), zero_add]
    apply sum_map_zero; intro i' _
    apply sum_map_zero; intro r _
    rw [if_neg]; intro h
    have h1 := congrArg Prod.fst h
    have h2 := congrArg (fun t => t.2.2) h
    simp only at h1 h2; omega
  · refine ⟨fun _ => ?_, fun h => by omega⟩
    rcases Nat.eq_zero_or_pos (k - i) with h0 | hpos
    · -- empty span
      have hk : k = i := by omega
      subst hk
      have hz : ((List.range xs.length).map fun i' => ((cnfTerminalAt G xs i').map fun r =>
          if (i', r.head, i' + 1) = (k, X, k) then r.w else 0).sum).sum = 0 := by
        apply sum_map_zero; intro i' _
        apply sum_map_zero; intro r _
        rw [if_neg]; intro h
        have h1 := congrArg Prod.fst h
        have h2 := congrArg (fun t => t.2.2) h
        simp only at h1 h2; omega
      rw [hz, add_zero]
      have hd : ∀ i' : Nat, (if (i', G.S, i') = (k, X, k) then cnfNullary G else 0)
          = if i' = k then (if X = G.S then cnfNullary G else 0) else 0 := by
        intro i'
        by_cases h1 : i' = k
        · subst h1
          by_cases h2 : X = G.S
          · subst h2; simp
          · have : G.S ≠ X := fun h' => h2 h'.symm
            simp [h2, this]
        · rw [if_neg h1, if_neg]; intro h'; exact h1 (congrArg Prod.fst h')
      simp only [hd]
      rw [sum_ite_eq_nodup _ List.nodup_range k (List.mem_range.mpr (by omega))
        (fun _ => if X = G.S then cnfNullary G else 0)]
      unfold Tcell
      simp only [Nat.sub_self, Nat.zero_add, List.drop_take, List.take_zero]
      rw [insN_one_nil G h]
    · -- a single token
      have hk : k = i + 1 := by omega
      subst hk
      have hz : ((List.range (xs.length + 1)).map fun i' =>
          if (i', G.S, i') = (i, X, i + 1) then cnfNullary G else 0).sum = 0 := by
        apply sum_map_zero; intro i' _
        rw [if_neg]; intro h
        have h1 := congrArg Prod.fst h
        have h2 := congrArg (fun t => t.2.2) h
        simp only at h1 h2; omega
      rw [hz, zero_add]
      have hd : ∀ i' : Nat, ((cnfTerminalAt G xs i').map fun r =>
            if (i', r.head, i' + 1) = (i, X, i + 1) then r.w else 0).sum
          = if i' = i then ((cnfTerminalAt G xs i').map fun r => if r.head = X then r.w else 0).sum else 0 := by
        intro i'
        by_cases h1 : i' = i
        · subst h1
          rw [if_pos rfl]
          apply sum_congr; intro r _
          by_cases h2 : r.head = X
          · rw [if_pos h2, if_pos (by rw [h2])]
          · rw [if_neg h2, if_neg]; intro h'; exact h2 (by simpa using h')
        · rw [if_neg h1]
          apply sum_map_zero; intro r _
          rw [if_neg]; intro h'; exact h1 (congrArg Prod.fst h')
      simp only [hd]
      rw [sum_ite_eq_nodup _ List.nodup_range i (List.mem_range.mpr (by omega))
        (fun i' => ((cnfTerminalAt G xs i').map fun r => if r.head = X then r.w else 0).sum)]
      have hi : i < xs.length := by omega
      have hslice : (xs.take (i + 1)).drop i = [xs[i]] := by
        rw [List.drop_take, show i + 1 - i = 1 by omega, List.drop_eq_getElem_cons hi]
        rfl
      have hT : Tcell G xs (i, X, i + 1) = insN G 2 [xs[i]] X := by
        unfold Tcell
        simp only [hslice, show i + 1 - i + 1 = 2 by omega]
      have hA : cnfTerminalAt G xs i = cnfTerminal G xs[i] := by
        unfold cnfTerminalAt
        rw [List.getElem?_eq_getElem hi]
      rw [hT, hA, insN_two_single]

end Genlm.IncCkyAux

namespace Genlm
variable {σ K : Type} [DecidableEq σ] [CommSemiring K]
open IncCkyAux

/-- **`CFG._parse_chart`** (grammar in CNF): `c[i, X, k]` is the CKY value `insN` of the span `xs[i:k]`,
hence the total weight of the derivations of `xs[i:k]` from `X`. -/
theorem parseChart_entry (G : CFG σ K) (h : InCNF G) (xs : List σ) (i k : Nat) (hik : i ≤ k) (hk : k ≤ xs.length)
    (X : σ) (n : Nat) (hn : k - i + 1 ≤ n) :
    (parseChart G xs).get (i, X, k) = insN G (k - i + 1) ((xs.take k).drop i) X ∧
    (parseChart G xs).get (i, X, k) = WN G n X ((xs.take k).drop i) := by
  have hinv : ∃ s, xs.length ≤ s ∧ PInv G xs s (parseChart G xs) := by
    rcases Nat.eq_zero_or_pos xs.length with h0 | hpos
    · refine ⟨1, by omega, ?_⟩
      rw [parseChart_eq, h0]
      simpa using parseInit_inv G h xs
    · refine ⟨1 + (xs.length - 1), by omega, ?_⟩
      rw [parseChart_eq]
      exact parseSpans_run G xs (xs.length - 1) 1 (parseInit G xs) (parseInit_inv G h xs) (Nat.le_refl _) (by omega)
  obtain ⟨s, hs, hP⟩ := hinv
  have hlen : ((xs.take k).drop i).length = k - i := by
    rw [List.length_drop, List.length_take, Nat.min_eq_left hk]
  have hv : (parseChart G xs).get (i, X, k) = insN G (k - i + 1) ((xs.take k).drop i) X :=
    ((hP.2 i k X hik hk).1 (by omega))
  refine ⟨hv, ?_⟩
  rw [hv, ← hlen]
  exact cky_correct G h _ X n (by rw [hlen]; exact hn)

/-- **`CFG.__call__` on a CNF grammar is the weighted language** (C02, `_parse_chart` leg), and therefore
agrees with the incremental parser. -/
theorem cfgParse_eq_WN (G : CFG σ K) (h : InCNF G) (xs : List σ) (n : Nat) (hn : xs.length + 1 ≤ n) :
    cfgParse G xs = WN G n G.S xs := by
  unfold cfgParse
  rw [(parseChart_entry G h xs 0 xs.length (Nat.zero_le _) (Nat.le_refl _) G.S n (by omega)).2,
    List.take_length, List.drop_zero]

theorem cfgParse_eq_incCkyCall (G : CFG σ K) (h : InCNF G) (xs : List σ) : cfgParse G xs = incCkyCall G xs := by
  rw [cfgParse_eq_WN G h xs (xs.length + 1) (Nat.le_refl _), incCky_call G h xs (xs.length + 1) (Nat.le_refl _)]

end Genlm

/-! ### non-vacuity -/
namespace Genlm.IncCkyAux

/-- `S → ε (2) | A B (3)`, `A → a (5) | A B (2)`, `B → b (7) | a (1)` with `S = 0, A = 1, B = 2, a = 5, b = 6` -/
def exG : CFG ℕ ℕ :=
  ⟨0, [5, 6], [⟨2, 0, []⟩, ⟨3, 0, [1, 2]⟩, ⟨5, 1, [5]⟩, ⟨7, 2, [6]⟩, ⟨2, 1, [1, 2]⟩, ⟨1, 2, [5]⟩]⟩

theorem exG_cnf : InCNF exG := by
  intro r hr
  simp only [exG, List.mem_cons, List.not_mem_nil, or_false] at hr
  rcases hr with rfl | rfl | rfl | rfl | rfl | rfl
  · exact ⟨by decide, Or.inl ⟨rfl, rfl⟩⟩
  · exact ⟨by decide, Or.inr (Or.inr ⟨1, 2, rfl, by decide, by decide, by decide, by decide⟩)⟩
  · exact ⟨by decide, Or.inr (Or.inl ⟨5, rfl, by decide⟩)⟩
  · exact ⟨by decide, Or.inr (Or.inl ⟨6, rfl, by decide⟩)⟩
  · exact ⟨by decide, Or.inr (Or.inr ⟨1, 2, rfl, by decide, by decide, by decide, by decide⟩)⟩
  · exact ⟨by decide, Or.inr (Or.inl ⟨5, rfl, by decide⟩)⟩

example : exG.V.Nodup := by decide
/-- the chart of `a b a`, column 3: `[3][S] = 2`, `[2][A] = 5`, `[2][B] = 1`, `[0][S] = 210`, `[0][A] = 140` -/
example : (ckyChart exG [5, 6, 5]).getD 3 [] = [((3, 0), 2), ((2, 1), 5), ((2, 2), 1), ((0, 0), 210), ((0, 1), 140)] := by
  decide
example : incCkyCall exG [5, 6, 5] = 210 ∧ WN exG 4 0 [5, 6, 5] = 210 := by decide
/-- the outside pass on `a b`, and the two extensions parsed from the inside -/
example : incCkyPNext exG [5, 6] = [(5, 210), (6, 1470)] := by decide
example : incCkyCall exG [5, 6, 5] = 210 ∧ incCkyCall exG [5, 6, 6] = 1470 := by decide
/-- the hypotheses of the headline theorems are met by `exG`, and the conclusion is not `0 = 0` -/
example : (incCkyPNext exG [5, 6]).get 6 = WN exG 4 exG.S [5, 6, 6] ∧ WN exG 4 exG.S [5, 6, 6] = 1470 :=
  ⟨incCky_pnext_is_WN exG exG_cnf (by decide) [5, 6] 6 (by decide) 4 (by decide), by decide⟩
/-- `_parse_chart` on `a b`, in the insertion order of the Python dict -/
example : parseChart exG [5, 6] =
    [((0, 0, 0), 2), ((1, 0, 1), 2), ((2, 0, 2), 2), ((0, 1, 1), 5), ((0, 2, 1), 1), ((1, 2, 2), 7),
     ((0, 0, 2), 105), ((0, 1, 2), 70)] := by decide
example : cfgParse exG [5, 6, 5] = 210 ∧ cfgParse exG [5, 6, 5] = incCkyCall exG [5, 6, 5] :=
  ⟨by decide, cfgParse_eq_incCkyCall exG exG_cnf _⟩

end Genlm.IncCkyAux
