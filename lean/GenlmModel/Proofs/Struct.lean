import GenlmModel.Model.Transform
import GenlmModel.Model.Shape
import GenlmModel.Proofs.Horn
import GenlmModel.Proofs.Derives
import Mathlib.Data.List.Basic
import Mathlib.Tactic.Linarith
import Mathlib.Algebra.Ring.Defs

/-! Structural postconditions of the grammar transformations (property C07).

Every theorem is about the mirror models of `Model/Transform.lean` and the decidable predicates of
`Model/Shape.lean`; no semiring laws are needed (only `Add/Mul/Zero/One` and decidable equality). -/
namespace Genlm
set_option linter.unusedSectionVars false
section
variable {σ K : Type} [DecidableEq σ] [DecidableEq K] [Add K] [Mul K] [Zero K] [One K]

/-! ### generalities on `addRule` / `mkRules` -/

theorem mem_addRule {rs : List (Rule σ K)} {r q : Rule σ K} :
    q ∈ addRule rs r ↔ q ∈ rs ∨ (q = r ∧ r.w ≠ 0) := by
  unfold addRule
  split
  next h => simp [h]
  next h => simp [h]

theorem mem_mkRules {rs : List (Rule σ K)} {q : Rule σ K} :
    q ∈ mkRules rs ↔ q ∈ rs ∧ q.w ≠ 0 := by
  simp [mkRules]

theorem mkRules_sublist (rs : List (Rule σ K)) : (mkRules rs).Sublist rs := List.filter_sublist

/-! ### 1. `binarize` -/

/-- one pop of the stack loop, with the stack written as `rest ++ [p]` -/
theorem binarizeLoop_snoc (gen : Nat → σ) (fuel : Nat) (rest : List (Rule σ K)) (p : Rule σ K)
    (ctr : Nat) (acc : List (Rule σ K)) :
    binarizeLoop gen (fuel+1) (rest ++ [p]) ctr acc =
      match p.body with
      | a :: b :: c :: tl =>
        binarizeLoop gen fuel (rest ++ [⟨1, gen (ctr+1), [a, b]⟩, ⟨p.w, p.head, gen (ctr+1) :: c :: tl⟩])
          (ctr + 1) acc
      | _ => binarizeLoop gen fuel rest ctr (addRule acc p) := by
  simp only [binarizeLoop, List.reverse_append, List.reverse_cons, List.reverse_nil, List.nil_append,
    List.cons_append, List.reverse_reverse]
  rfl

theorem binarizeLoop_nil (gen : Nat → σ) (fuel : Nat) (ctr : Nat) (acc : List (Rule σ K)) :
    binarizeLoop gen fuel [] ctr acc = (acc, ctr) := by
  cases fuel <;> simp [binarizeLoop]

/-- invariant of the loop: everything ever put in `acc` has arity ≤ 2 -/
theorem binarizeLoop_arity (gen : Nat → σ) (fuel : Nat) (stack : List (Rule σ K)) (ctr : Nat)
    (acc : List (Rule σ K)) (hacc : ∀ r ∈ acc, r.body.length ≤ 2) :
    ∀ r ∈ (binarizeLoop gen fuel stack ctr acc).1, r.body.length ≤ 2 := by
  induction fuel generalizing stack ctr acc with
  | zero => simpa [binarizeLoop] using hacc
  | succ fuel ih =>
    rcases List.eq_nil_or_concat' stack with rfl | ⟨rest, p, rfl⟩
    · simpa [binarizeLoop_nil] using hacc
    · rw [binarizeLoop_snoc]
      split
      · exact ih _ _ _ hacc
      · next hb =>
        apply ih
        intro r hr
        rcases mem_addRule.mp hr with h | ⟨rfl, _⟩
        · exact hacc r h
        · match hp : r.body with
          | [] => simp
          | [_] => simp
          | [_, _] => simp
          | a :: b :: c :: tl => exact absurd hp (hb a b c tl)

/-- **C07.1** every body of the binarised grammar has length ≤ 2, for every naming function and
counter value -/
theorem binarize_arity (gen : Nat → σ) (G : CFG σ K) (ctr : Nat) :
    arityLe2 (binarize gen G ctr).1 = true := by
  simp only [arityLe2, binarize, List.all_eq_true, decide_eq_true_eq]
  exact binarizeLoop_arity gen _ G.rules ctr [] (by simp)

/-- generic invariant of the loop: a rule predicate that survives one fold survives `binarize` -/
theorem binarizeLoop_forall (gen : Nat → σ) (P : Rule σ K → Prop)
    (hP : ∀ (p : Rule σ K) a b c tl k, P p → p.body = a :: b :: c :: tl →
      P ⟨1, gen k, [a, b]⟩ ∧ P ⟨p.w, p.head, gen k :: c :: tl⟩)
    (fuel : Nat) (stack : List (Rule σ K)) (ctr : Nat) (acc : List (Rule σ K))
    (hs : ∀ r ∈ stack, P r) (hacc : ∀ r ∈ acc, P r) :
    ∀ r ∈ (binarizeLoop gen fuel stack ctr acc).1, P r := by
  induction fuel generalizing stack ctr acc with
  | zero => simpa [binarizeLoop] using hacc
  | succ fuel ih =>
    rcases List.eq_nil_or_concat' stack with rfl | ⟨rest, p, rfl⟩
    · simpa [binarizeLoop_nil] using hacc
    · rw [binarizeLoop_snoc]
      have hp : P p := hs p (by simp)
      have hrest : ∀ r ∈ rest, P r := fun r hr => hs r (by simp [hr])
      split
      · next a b c tl hb =>
        have h2 := hP p a b c tl (ctr + 1) hp hb
        apply ih _ _ _ _ hacc
        intro r hr
        simp only [List.mem_append, List.mem_cons, List.not_mem_nil, or_false] at hr
        rcases hr with hr | rfl | rfl
        · exact hrest r hr
        · exact h2.1
        · exact h2.2
      · apply ih _ _ _ hrest
        intro r hr
        rcases mem_addRule.mp hr with h | ⟨rfl, _⟩
        · exact hacc r h
        · exact hp

theorem binarize_forall (gen : Nat → σ) (P : Rule σ K → Prop)
    (hP : ∀ (p : Rule σ K) a b c tl k, P p → p.body = a :: b :: c :: tl →
      P ⟨1, gen k, [a, b]⟩ ∧ P ⟨p.w, p.head, gen k :: c :: tl⟩)
    (G : CFG σ K) (ctr : Nat) (hG : ∀ r ∈ G.rules, P r) :
    ∀ r ∈ (binarize gen G ctr).1.rules, P r := by
  simp only [binarize]
  exact binarizeLoop_forall gen P hP _ G.rules ctr [] hG (by simp)

/-- number of pops the loop needs for one rule on the stack -/
def binCost (r : Rule σ K) : Nat := if r.body.length ≤ 2 then 1 else 2 * r.body.length - 3

def binCostL (st : List (Rule σ K)) : Nat := (st.map binCost).sum

theorem binCostL_snoc (rest : List (Rule σ K)) (p : Rule σ K) :
    binCostL (rest ++ [p]) = binCostL rest + binCost p := by
  simp [binCostL]

theorem binCost_pos (p : Rule σ K) : 1 ≤ binCost p := by unfold binCost; split <;> omega

/-- folding a long rule costs one pop and leaves strictly less work -/
theorem binCostL_fold (rest : List (Rule σ K)) (p : Rule σ K) (a b c : σ) (tl : List σ) (h x : σ)
    (hb : p.body = a :: b :: c :: tl) :
    binCostL (rest ++ [(⟨1, h, [a, b]⟩ : Rule σ K), ⟨p.w, p.head, x :: c :: tl⟩]) + 1
      = binCostL rest + binCost p := by
  have e : rest ++ [(⟨1, h, [a, b]⟩ : Rule σ K), ⟨p.w, p.head, x :: c :: tl⟩]
      = (rest ++ [⟨1, h, [a, b]⟩]) ++ [⟨p.w, p.head, x :: c :: tl⟩] := by simp
  rw [e, binCostL_snoc, binCostL_snoc]
  simp only [binCost, hb, List.length_cons, List.length_nil]
  split_ifs <;> omega

/-- with enough fuel, extra fuel changes nothing (the loop has stopped on the empty stack) -/
theorem binarizeLoop_stable (gen : Nat → σ) (fuel k : Nat) (stack : List (Rule σ K)) (ctr : Nat)
    (acc : List (Rule σ K)) (hfuel : binCostL stack ≤ fuel) :
    binarizeLoop gen (fuel + k) stack ctr acc = binarizeLoop gen fuel stack ctr acc := by
  induction fuel generalizing stack ctr acc with
  | zero =>
    rcases List.eq_nil_or_concat' stack with rfl | ⟨rest, p, rfl⟩
    · simp [binarizeLoop_nil]
    · exfalso
      rw [binCostL_snoc] at hfuel
      have := binCost_pos p
      omega
  | succ fuel ih =>
    rcases List.eq_nil_or_concat' stack with rfl | ⟨rest, p, rfl⟩
    · simp [binarizeLoop_nil]
    · rw [show fuel + 1 + k = (fuel + k) + 1 by omega, binarizeLoop_snoc, binarizeLoop_snoc]
      rw [binCostL_snoc] at hfuel
      split
      · next a b c tl hb =>
        apply ih
        have := binCostL_fold rest p a b c tl (gen (ctr+1)) (gen (ctr+1)) hb
        omega
      · apply ih
        have := binCost_pos p
        omega

theorem binCostL_le (rs : List (Rule σ K)) :
    binCostL rs ≤ rs.length + 2 * (rs.map (·.body.length)).foldr (· + ·) 0 := by
  induction rs with
  | nil => simp [binCostL]
  | cons r rs ih =>
    simp only [binCostL, List.map_cons, List.sum_cons, List.length_cons, List.foldr_cons] at ih ⊢
    have : binCost r ≤ 1 + 2 * r.body.length := by unfold binCost; split <;> omega
    omega

/-- **C07.1 (fuel)** the fuel `binarize` gives to its loop suffices: the result is the same with
any larger amount of fuel, i.e. the loop ended because the stack was empty. -/
theorem binarize_complete (gen : Nat → σ) (G : CFG σ K) (ctr k : Nat) :
    binarizeLoop gen (G.rules.length + 2 * (G.rules.map (·.body.length)).foldr (· + ·) 0 + 1 + k)
        G.rules ctr []
      = ((binarize gen G ctr).1.rules, (binarize gen G ctr).2) := by
  rw [binarizeLoop_stable gen _ k G.rules ctr [] (by have := binCostL_le G.rules; omega)]
  rfl

/-- with enough fuel every short non-zero rule of the stack, and everything in `acc`, is in the
output -/
theorem binarizeLoop_mem (gen : Nat → σ) (fuel : Nat) (stack : List (Rule σ K)) (ctr : Nat)
    (acc : List (Rule σ K)) (hfuel : binCostL stack ≤ fuel) (r : Rule σ K)
    (hr : r ∈ acc ∨ (r ∈ stack ∧ r.w ≠ 0 ∧ r.body.length ≤ 2)) :
    r ∈ (binarizeLoop gen fuel stack ctr acc).1 := by
  induction fuel generalizing stack ctr acc with
  | zero =>
    rcases List.eq_nil_or_concat' stack with rfl | ⟨rest, p, rfl⟩
    · simpa [binarizeLoop_nil] using hr
    · exfalso
      rw [binCostL_snoc] at hfuel
      have := binCost_pos p
      omega
  | succ fuel ih =>
    rcases List.eq_nil_or_concat' stack with rfl | ⟨rest, p, rfl⟩
    · simpa [binarizeLoop_nil] using hr
    · rw [binarizeLoop_snoc]
      rw [binCostL_snoc] at hfuel
      split
      · next a b c tl hb =>
        apply ih
        · have := binCostL_fold rest p a b c tl (gen (ctr+1)) (gen (ctr+1)) hb
          omega
        · rcases hr with h | ⟨h, hw, hl⟩
          · exact Or.inl h
          · right
            rw [List.mem_append] at h
            rcases h with h | h
            · exact ⟨by simp [h], hw, hl⟩
            · exfalso
              have : r = p := by simpa using h
              rw [this, hb] at hl
              simp at hl
      · apply ih
        · have := binCost_pos p
          omega
        · rcases hr with h | ⟨h, hw, hl⟩
          · exact Or.inl (mem_addRule.mpr (Or.inl h))
          · rw [List.mem_append] at h
            rcases h with h | h
            · exact Or.inr ⟨h, hw, hl⟩
            · have : r = p := by simpa using h
              subst this
              exact Or.inl (mem_addRule.mpr (Or.inr ⟨rfl, hw⟩))

/-- **C07.1 (completeness)** every rule of the input with a non-zero weight and arity ≤ 2 is a rule
of the output -/
theorem binarize_keeps_short (gen : Nat → σ) (G : CFG σ K) (ctr : Nat) (r : Rule σ K)
    (hr : r ∈ G.rules) (hw : r.w ≠ 0) (hl : r.body.length ≤ 2) :
    r ∈ (binarize gen G ctr).1.rules := by
  simp only [binarize]
  exact binarizeLoop_mem gen _ G.rules ctr [] (by have := binCostL_le G.rules; omega) r
    (Or.inr ⟨hr, hw, hl⟩)

/-! ### 2. `separate_start` -/

theorem mem_bodySyms {G : CFG σ K} {s : σ} : s ∈ bodySyms G ↔ ∃ r ∈ G.rules, s ∈ r.body := by
  simp [bodySyms, List.mem_flatMap]

/-- **C07.2** after `separate_start` the start symbol occurs in no body.  The hypotheses are used
only in the branch that creates a new start symbol. -/
theorem separateStart_off_rhs (G : CFG σ K) (fresh : σ) (hf : fresh ∉ bodySyms G)
    (hS : fresh ≠ G.S) : startOffRhs (separateStart G fresh) = true := by
  unfold separateStart startOffRhs
  split
  · simp only [decide_eq_true_eq, mem_bodySyms, not_exists, not_and]
    intro r hr hmem
    rcases List.mem_cons.mp (mem_mkRules.mp hr).1 with rfl | h
    · exact hS (by simpa using hmem)
    · exact hf (mem_bodySyms.mpr ⟨r, h, hmem⟩)
  · next h => simpa using h

/-! ### 3. `separate_terminals` -/

/-- the shape predicate for one rule -/
def sepOK (V : List σ) (r : Rule σ K) : Prop := (∀ s ∈ r.body, s ∉ V) ∨ r.body.length = 1

/-- per-rule invariant, generic in a predicate `Hd` on heads and `Bd` on body symbols (used for
freshness bookkeeping in `cnf_shape`) -/
def RuleInv (Hd Bd : σ → Prop) (V : List σ) (r : Rule σ K) : Prop :=
  Hd r.head ∧ (∀ s ∈ r.body, Bd s) ∧ sepOK V r

/-- loop invariant of `separate_terminals` -/
def SepInv (Hd Bd : σ → Prop) (V : List σ) (st : SepT σ K) : Prop :=
  (∀ e ∈ st.table, e.2 ∉ V ∧ Bd e.2) ∧ (∀ r ∈ st.rules, RuleInv Hd Bd V r)

theorem sepInv_addRule {Hd Bd : σ → Prop} {V : List σ} {st : SepT σ K} (h : SepInv Hd Bd V st)
    (r : Rule σ K) (hr : RuleInv Hd Bd V r) :
    SepInv Hd Bd V { st with rules := addRule st.rules r } := by
  refine ⟨h.1, ?_⟩
  intro q hq
  rcases mem_addRule.mp hq with hq | ⟨rfl, _⟩
  · exact h.2 q hq
  · exact hr

theorem sepT_pre_inv {Hd Bd : σ → Prop} (gen : Nat → σ) (V : List σ) (hgen : ∀ i, gen i ∉ V)
    (hHd : ∀ i, Hd (gen i)) (hBd : ∀ i, Bd (gen i)) (st : SepT σ K) (x : σ) (hx : Bd x)
    (h : SepInv Hd Bd V st) :
    SepInv Hd Bd V (st.pre gen x).1 ∧ (st.pre gen x).2 ∉ V ∧ Bd (st.pre gen x).2 := by
  unfold SepT.pre
  split
  · next e he => exact ⟨h, h.1 e (List.mem_of_find?_eq_some he)⟩
  · refine ⟨⟨?_, ?_⟩, hgen _, hBd _⟩
    · intro e he
      rcases List.mem_append.mp he with he | he
      · exact h.1 e he
      · have : e = (x, gen (st.ctr + 1)) := by simpa using he
        rw [this]; exact ⟨hgen _, hBd _⟩
    · intro q hq
      rcases mem_addRule.mp hq with hq | ⟨rfl, _⟩
      · exact h.2 q hq
      · exact ⟨hHd _, by simpa using hx, Or.inr rfl⟩

theorem sepT_body_inv {Hd Bd : σ → Prop} (gen : Nat → σ) (V : List σ) (hgen : ∀ i, gen i ∉ V)
    (hHd : ∀ i, Hd (gen i)) (hBd : ∀ i, Bd (gen i)) (st : SepT σ K)
    (ys : List σ) (hys : ∀ y ∈ ys, Bd y) (h : SepInv Hd Bd V st) :
    SepInv Hd Bd V (SepT.body gen V st ys).1 ∧
      ∀ s ∈ (SepT.body gen V st ys).2, s ∉ V ∧ Bd s := by
  induction ys generalizing st with
  | nil => exact ⟨h, by simp [SepT.body]⟩
  | cons y ys ih =>
    have hys' : ∀ y' ∈ ys, Bd y' := fun y' hy' => hys y' (by simp [hy'])
    unfold SepT.body
    split
    · next hy =>
      have h1 := sepT_pre_inv gen V hgen hHd hBd st y (hys y (by simp)) h
      have h2 := ih (st.pre gen y).1 hys' h1.1
      refine ⟨h2.1, ?_⟩
      intro s hs
      rcases List.mem_cons.mp hs with rfl | hs
      · exact h1.2
      · exact h2.2 s hs
    · next hy =>
      have h2 := ih st hys' h
      refine ⟨h2.1, ?_⟩
      intro s hs
      rcases List.mem_cons.mp hs with rfl | hs
      · exact ⟨hy, hys _ (by simp)⟩
      · exact h2.2 s hs

theorem isPreterminalRule_length {V : List σ} {r : Rule σ K} (h : isPreterminalRule V r = true) :
    r.body.length = 1 := by
  unfold isPreterminalRule at h
  split at h
  · next a hb => rw [hb]; rfl
  · exact absurd h (by simp)

/-- generic invariant of `separate_terminals`: if heads satisfy `Hd`, body symbols satisfy `Bd`, and
all generated names satisfy both and are not terminals, the output rules satisfy `Hd`/`Bd` and have
the separated shape -/
theorem separateTerminals_inv (Hd Bd : σ → Prop) (gen : Nat → σ) (G : CFG σ K) (ctr : Nat)
    (hgen : ∀ i, gen i ∉ G.V) (hHd : ∀ i, Hd (gen i)) (hBd : ∀ i, Bd (gen i))
    (hG : ∀ r ∈ G.rules, Hd r.head ∧ ∀ s ∈ r.body, Bd s) :
    ∀ q ∈ (separateTerminals gen G ctr).1.rules, RuleInv Hd Bd G.V q := by
  have key : ∀ (rs : List (Rule σ K)) (st : SepT σ K), (∀ r ∈ rs, r ∈ G.rules) →
      SepInv Hd Bd G.V st →
      SepInv Hd Bd G.V (rs.foldl (fun (st : SepT σ K) r =>
        if isPreterminalRule G.V r then { st with rules := addRule st.rules r }
        else
          let (st', b') := SepT.body gen G.V st r.body
          { st' with rules := addRule st'.rules ⟨r.w, r.head, b'⟩ }) st) := by
    intro rs
    induction rs with
    | nil => intro st _ h; exact h
    | cons r rs ih =>
      intro st hrs h
      rw [List.foldl_cons]
      have hr := hG r (hrs r (by simp))
      apply ih _ (fun r' hr' => hrs r' (by simp [hr']))
      split
      · next hp => exact sepInv_addRule h r ⟨hr.1, hr.2, Or.inr (isPreterminalRule_length hp)⟩
      · have hb := sepT_body_inv gen G.V hgen hHd hBd st r.body hr.2 h
        exact sepInv_addRule hb.1 _
          ⟨hr.1, fun s hs => (hb.2 s hs).2, Or.inl (fun s hs => (hb.2 s hs).1)⟩
  exact (key G.rules { ctr := ctr, table := [], rules := [] } (fun _ h => h) ⟨by simp, by simp⟩).2

/-- **C07.3** after `separate_terminals` a terminal occurs only in rules `A → a`, provided the
generated names are not terminals -/
theorem separateTerminals_shape (gen : Nat → σ) (G : CFG σ K) (ctr : Nat)
    (hgen : ∀ i, gen i ∉ G.V) : terminalsSeparated (separateTerminals gen G ctr).1 = true := by
  have := separateTerminals_inv (fun _ => True) (fun _ => True) gen G ctr hgen (by simp) (by simp)
    (by simp)
  simp only [terminalsSeparated, List.all_eq_true, Bool.or_eq_true, decide_eq_true_eq]
  intro r hr
  rcases (this r hr).2.2 with h | h
  · left; intro s hs; exact h s hs
  · right; exact h

/-- `binarize` keeps the separated-terminals shape (and generic head/body predicates) -/
theorem binarize_ruleInv (Hd Bd : σ → Prop) (gen : Nat → σ) (G : CFG σ K) (ctr : Nat)
    (hgen : ∀ i, gen i ∉ G.V) (hHd : ∀ i, Hd (gen i)) (hBd : ∀ i, Bd (gen i))
    (hG : ∀ r ∈ G.rules, RuleInv Hd Bd G.V r) :
    ∀ r ∈ (binarize gen G ctr).1.rules, RuleInv Hd Bd G.V r := by
  refine binarize_forall gen _ ?_ G ctr hG
  intro p a b c tl k hp hb
  obtain ⟨h1, h2, h3⟩ := hp
  have hV : ∀ s ∈ p.body, s ∉ G.V := by
    rcases h3 with h | h
    · exact h
    · rw [hb] at h; simp at h
  rw [hb] at h2 hV
  refine ⟨⟨hHd k, ?_, Or.inl ?_⟩, ⟨h1, ?_, Or.inl ?_⟩⟩
  · intro s hs; exact h2 s (by simp at hs ⊢; tauto)
  · intro s hs; exact hV s (by simp at hs ⊢; tauto)
  · intro s hs
    rcases List.mem_cons.mp hs with rfl | hs
    · exact hBd k
    · exact h2 s (by simp at hs ⊢; tauto)
  · intro s hs
    rcases List.mem_cons.mp hs with rfl | hs
    · exact hgen k
    · exact hV s (by simp at hs ⊢; tauto)

/-! ### 4. `_push_null_weights` -/

/-- **C07.4** after `_push_null_weights` the only possible nullary rule is the one of the start
symbol (for any null-weight table and any renaming) -/
theorem pushNull_no_nullary (nullW : σ → K) (rename : σ → σ) (G : CFG σ K) :
    noNullaryExceptStart (pushNull nullW rename G) = true := by
  simp only [noNullaryExceptStart, pushNull, List.all_eq_true, Bool.or_eq_true, decide_eq_true_eq]
  intro r hr
  rcases List.mem_cons.mp (mem_mkRules.mp hr).1 with rfl | h
  · right; rfl
  · left
    simp only [List.mem_flatMap] at h
    obtain ⟨q, _, hq⟩ := h
    split at hq
    · simp at hq
    · simp only [List.mem_map, List.mem_filter] at hq
      obtain ⟨p, ⟨_, hp⟩, rfl⟩ := hq
      simpa using hp

/-! ### 5. `unaryremove` -/

/-- **C07.5** `unaryremove` leaves no unary rule (for any closure table `W`) -/
theorem unaryRemove_no_unary (W : σ → σ → K) (G : CFG σ K) :
    noUnary (unaryRemove W G) = true := by
  simp only [noUnary, unaryRemove, List.all_eq_true]
  intro r hr
  have h := (mem_mkRules.mp hr).1
  simp only [List.mem_flatMap, List.mem_filter, List.mem_map] at h
  obtain ⟨q, ⟨_, hq⟩, Y, _, rfl⟩ := h
  simpa [isUnaryRule] using hq

/-! ### 6.–8. `trim` -/

theorem mem_generating (G : CFG σ K) (s : σ) : s ∈ generating G ↔ Derivable (genClauses G) s :=
  hlfp_spec _ _

theorem mem_reachable (G : CFG σ K) (C : List σ) (s : σ) :
    s ∈ reachable G C ↔ Derivable (reachClauses G C) s := hlfp_spec _ _

theorem mem_genClauses {G : CFG σ K} {c : Clause σ} :
    c ∈ genClauses G ↔ (∃ a ∈ G.V, c = ⟨[], a⟩) ∨ (∃ r ∈ G.rules, c = ⟨r.body, r.head⟩) := by
  simp only [genClauses, List.mem_append, List.mem_map]
  constructor
  · rintro (⟨a, ha, rfl⟩ | ⟨r, hr, rfl⟩)
    · exact Or.inl ⟨a, ha, rfl⟩
    · exact Or.inr ⟨r, hr, rfl⟩
  · rintro (⟨a, ha, rfl⟩ | ⟨r, hr, rfl⟩)
    · exact Or.inl ⟨a, ha, rfl⟩
    · exact Or.inr ⟨r, hr, rfl⟩

theorem mem_reachClauses {G : CFG σ K} {C : List σ} {c : Clause σ} :
    c ∈ reachClauses G C ↔ (G.S ∈ C ∧ c = ⟨[], G.S⟩) ∨
      (∃ r ∈ G.rules, (∀ b ∈ r.body, b ∈ C) ∧ ∃ b ∈ r.body, c = ⟨[r.head], b⟩) := by
  simp only [reachClauses, List.mem_append, List.mem_flatMap, List.mem_filter, List.mem_map,
    List.all_eq_true, decide_eq_true_eq]
  constructor
  · rintro (h | ⟨r, ⟨hr, hC⟩, b, hb, rfl⟩)
    · left
      split at h
      · next hS => exact ⟨hS, by simpa using h⟩
      · simp at h
    · exact Or.inr ⟨r, hr, hC, b, hb, rfl⟩
  · rintro (⟨hS, rfl⟩ | ⟨r, hr, hC, b, hb, rfl⟩)
    · left; rw [if_pos hS]; simp
    · exact Or.inr ⟨r, ⟨hr, hC⟩, b, hb, rfl⟩

theorem generating_term {G : CFG σ K} {a : σ} (ha : a ∈ G.V) : a ∈ generating G :=
  (mem_generating G a).mpr
    (Derivable.fire ⟨[], a⟩ (mem_genClauses.mpr (Or.inl ⟨a, ha, rfl⟩)) (by simp))

theorem generating_rule {G : CFG σ K} {r : Rule σ K} (hr : r ∈ G.rules)
    (hb : ∀ b ∈ r.body, b ∈ generating G) : r.head ∈ generating G :=
  (mem_generating G r.head).mpr
    (Derivable.fire ⟨r.body, r.head⟩ (mem_genClauses.mpr (Or.inr ⟨r, hr, rfl⟩))
      (fun b hb' => (mem_generating G b).mp (hb b hb')))

theorem reachable_start {G : CFG σ K} {C : List σ} (hS : G.S ∈ C) : G.S ∈ reachable G C :=
  (mem_reachable G C G.S).mpr
    (Derivable.fire ⟨[], G.S⟩ (mem_reachClauses.mpr (Or.inl ⟨hS, rfl⟩)) (by simp))

theorem reachable_step {G : CFG σ K} {C : List σ} {r : Rule σ K} (hr : r ∈ G.rules)
    (hC : ∀ b ∈ r.body, b ∈ C) (hh : r.head ∈ reachable G C) {b : σ} (hb : b ∈ r.body) :
    b ∈ reachable G C :=
  (mem_reachable G C b).mpr
    (Derivable.fire ⟨[r.head], b⟩ (mem_reachClauses.mpr (Or.inr ⟨r, hr, hC, b, hb, rfl⟩))
      (fun p hp => by
        have : p = r.head := by simpa using hp
        rw [this]; exact (mem_reachable G C r.head).mp hh))

/-- reachable symbols are among the symbols `C` the search was restricted to -/
theorem reachable_sub {G : CFG σ K} {C : List σ} {s : σ} (h : s ∈ reachable G C) : s ∈ C := by
  have h' := (mem_reachable G C s).mp h
  induction h' with
  | fire c hc _ _ =>
    rcases mem_reachClauses.mp hc with ⟨hS, rfl⟩ | ⟨r, _, hC, b, hb, rfl⟩
    · exact hS
    · exact hC b hb

theorem mem_trimTo {G : CFG σ K} {T : List σ} {r : Rule σ K} :
    r ∈ (trimTo G T).rules ↔ r ∈ G.rules ∧ r.head ∈ T ∧ r.w ≠ 0 ∧ ∀ b ∈ r.body, b ∈ T := by
  simp [trimTo, List.mem_filter]

/-- `generating` is the set of symbols that derive some terminal string.  (A rule whose head is a
terminal is a clause of `genClauses` but not usable in `Derives`; it makes no difference because
terminals are generating anyway.) -/
theorem generating_spec (G : CFG σ K) (s : σ) : s ∈ generating G ↔ ∃ x, Derives G s x := by
  rw [mem_generating]
  constructor
  · intro h
    induction h with
    | fire c hc _ ih =>
      rcases mem_genClauses.mp hc with ⟨a, ha, rfl⟩ | ⟨r, hr, rfl⟩
      · exact ⟨[a], .term ha⟩
      · have hbody : ∀ β : List σ, (∀ p ∈ β, ∃ x, Derives G p x) → ∃ x, DerivesBody G β x := by
          intro β
          induction β with
          | nil => intro _; exact ⟨[], .nil⟩
          | cons p β ihβ =>
            intro h
            obtain ⟨u, hu⟩ := h p (by simp)
            obtain ⟨v, hv⟩ := ihβ (fun q hq => h q (by simp [hq]))
            exact ⟨u ++ v, .cons hu hv⟩
        obtain ⟨x, hx⟩ := hbody r.body ih
        by_cases hV : r.head ∈ G.V
        · exact ⟨[r.head], .term hV⟩
        · exact ⟨x, .rule hr hV hx⟩
  · rintro ⟨x, hx⟩
    refine (Derives.both (G := G) (P := fun s _ => Derivable (genClauses G) s)
      (Q := fun β _ => ∀ b ∈ β, Derivable (genClauses G) b) ?_ ?_ ?_ ?_).1 s x hx
    · intro a ha
      exact Derivable.fire ⟨[], a⟩ (mem_genClauses.mpr (Or.inl ⟨a, ha, rfl⟩)) (by simp)
    · intro r _ hr _ _ ih
      exact Derivable.fire ⟨r.body, r.head⟩ (mem_genClauses.mpr (Or.inr ⟨r, hr, rfl⟩)) ih
    · simp
    · intro s ss _ _ _ _ h1 h2 b hb
      rcases List.mem_cons.mp hb with rfl | hb
      · exact h1
      · exact h2 b hb

/-- **C07.6 (relative to the input grammar)** every symbol of every rule `trim` keeps is
generating and reachable in `G`; no hypothesis. -/
theorem trim_symbols (G : CFG σ K) :
    ∀ r ∈ (trim G).rules, ∀ s ∈ r.head :: r.body,
      s ∈ generating G ∧ s ∈ reachable G (generating G) := by
  intro r hr s hs
  obtain ⟨_, hh, _, hb⟩ := mem_trimTo.mp hr
  have : s ∈ reachable G (generating G) := by
    rcases List.mem_cons.mp hs with rfl | hs
    · exact hh
    · exact hb s hs
  exact ⟨reachable_sub this, this⟩

/-- a kept head keeps all its rules with generating bodies -/
theorem mem_trim_of_head {G : CFG σ K} (hnz : ∀ r ∈ G.rules, r.w ≠ 0) {r : Rule σ K}
    (hr : r ∈ G.rules) (hh : r.head ∈ reachable G (generating G))
    (hb : ∀ b ∈ r.body, b ∈ generating G) : r ∈ (trim G).rules :=
  mem_trimTo.mpr ⟨hr, hh, hnz r hr, fun _ hb' => reachable_step hr hb hh hb'⟩

/-- useful symbols of `G` are generating in `trim G` -/
theorem generating_trim {G : CFG σ K} (hnz : ∀ r ∈ G.rules, r.w ≠ 0) {s : σ}
    (hg : s ∈ generating G) (ht : s ∈ reachable G (generating G)) : s ∈ generating (trim G) := by
  have hg' := (mem_generating G s).mp hg
  induction hg' with
  | fire c hc hp ih =>
    rcases mem_genClauses.mp hc with ⟨a, ha, rfl⟩ | ⟨r, hr, rfl⟩
    · exact generating_term (G := trim G) ha
    · have hb : ∀ b ∈ r.body, b ∈ generating G := fun b hb => (mem_generating G b).mpr (hp b hb)
      have hmem := mem_trim_of_head hnz hr ht hb
      exact generating_rule (G := trim G) hmem
        (fun b hb' => ih b hb' (hb b hb') (reachable_step hr hb ht hb'))

/-- useful symbols of `G` are reachable in `trim G` -/
theorem reachable_trim {G : CFG σ K} (hnz : ∀ r ∈ G.rules, r.w ≠ 0) {s : σ}
    (ht : s ∈ reachable G (generating G)) :
    s ∈ reachable (trim G) (generating (trim G)) := by
  have ht' := (mem_reachable G _ s).mp ht
  induction ht' with
  | fire c hc hp ih =>
    rcases mem_reachClauses.mp hc with ⟨hS, rfl⟩ | ⟨r, hr, hC, b, hb, rfl⟩
    · exact reachable_start (G := trim G) (generating_trim hnz hS ht)
    · have hh : r.head ∈ reachable G (generating G) :=
        (mem_reachable G _ _).mpr (hp r.head (by simp))
      have hmem := mem_trim_of_head hnz hr hh hC
      refine reachable_step (G := trim G) hmem ?_ (ih r.head (by simp) hh) hb
      intro b' hb'
      exact generating_trim hnz (hC b' hb') (reachable_step hr hC hh hb')

/-- **C07.6** `trim` leaves only useful symbols, where usefulness is recomputed *on the trimmed
grammar*.  The hypothesis (no stored rule has weight zero — an invariant of `CFG.add`) is needed:
see the counterexample below. -/
theorem trim_useful (G : CFG σ K) (hnz : ∀ r ∈ G.rules, r.w ≠ 0) : trimUseful (trim G) = true := by
  simp only [trimUseful, List.all_eq_true, decide_eq_true_eq]
  intro r hr s hs
  have h := trim_symbols G r hr s hs
  exact ⟨generating_trim hnz h.1 h.2, reachable_trim hnz h.2⟩

/-- **C07.7** a grammar with an empty language trims to the empty rule set -/
theorem trim_empty (G : CFG σ K) (hS : G.S ∉ generating G) : (trim G).rules = [] := by
  have hnone : ∀ s, ¬ Derivable (reachClauses G (generating G)) s := by
    intro s h
    induction h with
    | fire c hc _ ih =>
      rcases mem_reachClauses.mp hc with ⟨hS', _⟩ | ⟨r, _, _, b, _, rfl⟩
      · exact hS hS'
      · exact ih r.head (by simp)
  simp only [trim, trimTo]
  rw [List.filter_eq_nil_iff]
  intro r _ h
  simp only [decide_eq_true_eq] at h
  exact hnone _ ((mem_reachable G _ _).mp h.1)

/-- the converse direction: a kept rule witnesses that the start symbol is generating -/
theorem trim_nonempty (G : CFG σ K) (r : Rule σ K) (hr : r ∈ (trim G).rules) :
    G.S ∈ generating G := by
  by_contra h
  rw [trim_empty G h] at hr
  simp at hr

/-- **C07.8** `trim` only removes rules (order and multiplicity preserved) -/
theorem trim_rules_sub (G : CFG σ K) : (trim G).rules.Sublist G.rules := List.filter_sublist

theorem cotrim_rules_sub (G : CFG σ K) : (cotrim G).rules.Sublist G.rules := List.filter_sublist

theorem trim_S (G : CFG σ K) : (trim G).S = G.S := rfl
theorem trim_V (G : CFG σ K) : (trim G).V = G.V := rfl

/-- **C07.8** `trim` is idempotent on grammars without zero-weight rules -/
theorem trim_idem (G : CFG σ K) (hnz : ∀ r ∈ G.rules, r.w ≠ 0) : trim (trim G) = trim G := by
  have hu := trim_useful G hnz
  simp only [trimUseful, List.all_eq_true, decide_eq_true_eq] at hu
  have : (trim (trim G)).rules = (trim G).rules := by
    show ((trim G).rules.filter _) = _
    rw [List.filter_eq_self]
    intro r hr
    simp only [decide_eq_true_eq, List.all_eq_true]
    exact ⟨(hu r hr r.head (by simp)).2, (mem_trimTo.mp hr).2.2.1,
      fun b hb => (hu r hr b (by simp [hb])).2⟩
  show (⟨(trim G).S, (trim G).V, (trim (trim G)).rules⟩ : CFG σ K) = trim G
  rw [this]

/-! ### 9. the `cnf()` pipeline -/

/-- the grammar handed to `_push_null_weights` inside `cnf()`:
`separate_terminals → binarize → separate_start` -/
def cnfPrep (gen : Nat → σ) (fresh : σ) (G : CFG σ K) (ctr : Nat) : CFG σ K :=
  separateStart (binarize gen (separateTerminals gen G ctr).1 (separateTerminals gen G ctr).2).1 fresh

/-- model of `CFG.cnf`: `separate_terminals → binarize → separate_start → _push_null_weights →
trim → unaryremove → trim`; the numbers the code computes by iteration (`nullW`, the unary closure
`W`) and the naming functions are parameters -/
def cnfModel (gen : Nat → σ) (fresh : σ) (rename : σ → σ) (nullW : σ → K) (W : σ → σ → K)
    (G : CFG σ K) (ctr : Nat) : CFG σ K :=
  trim (unaryRemove W (trim (pushNull nullW rename (cnfPrep gen fresh G ctr))))

theorem cnfModel_S (gen : Nat → σ) (fresh : σ) (rename : σ → σ) (nullW : σ → K) (W : σ → σ → K)
    (G : CFG σ K) (ctr : Nat) :
    (cnfModel gen fresh rename nullW W G ctr).S = (cnfPrep gen fresh G ctr).S := rfl

theorem separateTerminals_V (gen : Nat → σ) (G : CFG σ K) (ctr : Nat) :
    (separateTerminals gen G ctr).1.V = G.V := rfl
theorem separateTerminals_S (gen : Nat → σ) (G : CFG σ K) (ctr : Nat) :
    (separateTerminals gen G ctr).1.S = G.S := rfl
theorem binarize_V (gen : Nat → σ) (G : CFG σ K) (ctr : Nat) : (binarize gen G ctr).1.V = G.V := rfl
theorem binarize_S (gen : Nat → σ) (G : CFG σ K) (ctr : Nat) : (binarize gen G ctr).1.S = G.S := rfl
theorem separateStart_V (G : CFG σ K) (fresh : σ) : (separateStart G fresh).V = G.V := by
  unfold separateStart; split <;> rfl
theorem cnfPrep_V (gen : Nat → σ) (fresh : σ) (G : CFG σ K) (ctr : Nat) :
    (cnfPrep gen fresh G ctr).V = G.V := by
  unfold cnfPrep; rw [separateStart_V]; rfl
theorem cnfModel_V (gen : Nat → σ) (fresh : σ) (rename : σ → σ) (nullW : σ → K) (W : σ → σ → K)
    (G : CFG σ K) (ctr : Nat) : (cnfModel gen fresh rename nullW W G ctr).V = G.V :=
  cnfPrep_V gen fresh G ctr

theorem cnfPrep_S_cases (gen : Nat → σ) (fresh : σ) (G : CFG σ K) (ctr : Nat) :
    (cnfPrep gen fresh G ctr).S = fresh ∨ (cnfPrep gen fresh G ctr).S = G.S := by
  unfold cnfPrep separateStart
  split
  · exact Or.inl rfl
  · exact Or.inr rfl

/-- shape of a rule before `_push_null_weights` -/
def PreRule (V : List σ) (S : σ) (r : Rule σ K) : Prop :=
  r.head ∉ V ∧ S ∉ r.body ∧ r.body.length ≤ 2 ∧ (r.body.length = 2 → ∀ s ∈ r.body, s ∉ V)

/-- the grammar `cnfPrep` produces: start symbol and heads are nonterminals, the start symbol is
on no right-hand side, arity ≤ 2, binary rules have nonterminal bodies -/
theorem cnfPrep_shape (gen : Nat → σ) (fresh : σ) (G : CFG σ K) (ctr : Nat)
    (hS : G.S ∉ G.V) (hhead : ∀ r ∈ G.rules, r.head ∉ G.V)
    (hgen : ∀ i, gen i ∉ G.V) (hgenf : ∀ i, gen i ≠ fresh)
    (hfV : fresh ∉ G.V) (hfS : fresh ≠ G.S) (hfb : fresh ∉ bodySyms G) :
    (cnfPrep gen fresh G ctr).S ∉ G.V ∧
      ∀ r ∈ (cnfPrep gen fresh G ctr).rules, PreRule G.V (cnfPrep gen fresh G ctr).S r := by
  -- stage 1 and 2
  have h1 := separateTerminals_inv (fun s => s ∉ G.V) (fun s => s ≠ fresh) gen G ctr hgen hgen hgenf
    (fun r hr => ⟨hhead r hr, fun s hs e => hfb (mem_bodySyms.mpr ⟨r, hr, e ▸ hs⟩)⟩)
  have h2 := binarize_ruleInv (fun s => s ∉ G.V) (fun s => s ≠ fresh) gen
    (separateTerminals gen G ctr).1 (separateTerminals gen G ctr).2 hgen hgen hgenf h1
  have h2a := binarize_arity gen (separateTerminals gen G ctr).1 (separateTerminals gen G ctr).2
  simp only [arityLe2, List.all_eq_true, decide_eq_true_eq] at h2a
  -- stage 3
  have hoff := separateStart_off_rhs
    (binarize gen (separateTerminals gen G ctr).1 (separateTerminals gen G ctr).2).1 fresh
    (fun hm => by
      obtain ⟨r, hr, hm⟩ := mem_bodySyms.mp hm
      exact (h2 r hr).2.1 fresh hm rfl)
    hfS
  simp only [startOffRhs, decide_eq_true_eq, mem_bodySyms, not_exists, not_and] at hoff
  refine ⟨?_, ?_⟩
  · rcases cnfPrep_S_cases gen fresh G ctr with h | h <;> rw [h]
    · exact hfV
    · exact hS
  · intro r hr
    have hoff' := hoff r hr
    have hold : ∀ q ∈ (binarize gen (separateTerminals gen G ctr).1
        (separateTerminals gen G ctr).2).1.rules,
        q.head ∉ G.V ∧ q.body.length ≤ 2 ∧ (q.body.length = 2 → ∀ s ∈ q.body, s ∉ G.V) := by
      intro q hq
      refine ⟨(h2 q hq).1, h2a q hq, ?_⟩
      intro hl
      rcases (h2 q hq).2.2 with h | h
      · exact h
      · omega
    have hcase : (r = ⟨1, fresh, [G.S]⟩) ∨
        r ∈ (binarize gen (separateTerminals gen G ctr).1 (separateTerminals gen G ctr).2).1.rules := by
      have hr' := hr
      unfold cnfPrep separateStart at hr'
      split at hr'
      · rcases List.mem_cons.mp (mem_mkRules.mp hr').1 with h | h
        · exact Or.inl h
        · exact Or.inr h
      · exact Or.inr hr'
    rcases hcase with rfl | hq
    · exact ⟨hfV, hoff', by simp, by simp⟩
    · exact ⟨(hold r hq).1, hoff', (hold r hq).2.1, (hold r hq).2.2⟩

/-- every non-nulled remainder of a body is a sublist of the renamed body -/
theorem nullChoices_sublist (nullW : σ → K) (f : σ → σ) (ys : List σ) :
    ∀ p ∈ nullChoices nullW f ys, p.2.Sublist (ys.map f) := by
  induction ys with
  | nil => intro p hp; simp [nullChoices] at hp; simp [hp]
  | cons y ys ih =>
    intro p hp
    simp only [nullChoices, List.mem_append, List.mem_map] at hp
    rcases hp with ⟨q, hq, rfl⟩ | ⟨q, hq, rfl⟩
    · exact (ih q hq).cons_cons _
    · exact (ih q hq).cons _

/-- shape of a rule after `_push_null_weights` (and after the following `trim`) -/
def PostRule (V : List σ) (S : σ) (r : Rule σ K) : Prop :=
  PreRule V S r ∧ (r.body = [] → r.head = S)

theorem pushNull_shape (nullW : σ → K) (rename : σ → σ) (G : CFG σ K)
    (hS : G.S ∉ G.V) (hG : ∀ r ∈ G.rules, PreRule G.V G.S r)
    (hren : ∀ x, rename x ∉ G.V ∧ rename x ≠ G.S) :
    ∀ r ∈ (pushNull nullW rename G).rules, PostRule G.V G.S r := by
  intro r hr
  simp only [pushNull] at hr
  rcases List.mem_cons.mp (mem_mkRules.mp hr).1 with rfl | h
  · exact ⟨⟨hS, by simp, by simp, by simp⟩, fun _ => rfl⟩
  · simp only [List.mem_flatMap] at h
    obtain ⟨q, hq, hmem⟩ := h
    split at hmem
    · simp at hmem
    · simp only [List.mem_map, List.mem_filter] at hmem
      obtain ⟨p, ⟨hp, hpne⟩, rfl⟩ := hmem
      have hpne : p.2 ≠ [] := by simpa using hpne
      obtain ⟨hq1, hq2, hq3, hq4⟩ := hG q hq
      have hfV : ∀ y, y ∉ G.V → (if nullW y = 0 ∨ y = G.S then y else rename y) ∉ G.V := by
        intro y hy; split
        · exact hy
        · exact (hren y).1
      have hfS : ∀ y, y ≠ G.S → (if nullW y = 0 ∨ y = G.S then y else rename y) ≠ G.S := by
        intro y hy; split
        · exact hy
        · exact (hren y).2
      have hsub := nullChoices_sublist nullW
        (fun x => if nullW x = 0 ∨ x = G.S then x else rename x) q.body p hp
      have hlen : p.2.length ≤ q.body.length := by simpa using hsub.length_le
      refine ⟨⟨hfV _ hq1, ?_, by simpa using le_trans hlen hq3, ?_⟩, fun h => absurd h hpne⟩
      · intro hm
        obtain ⟨y, hy, he⟩ := List.mem_map.mp (hsub.subset hm)
        exact hfS y (fun e => hq2 (e ▸ hy)) he
      · intro hl s hs
        simp only at hl hs
        have hq2' : q.body.length = 2 := by omega
        obtain ⟨y, hy, rfl⟩ := List.mem_map.mp (hsub.subset hs)
        exact hfV y (hq4 hq2' y hy)

end

section
variable {σ K : Type} [DecidableEq σ] [DecidableEq K] [Semiring K]

/-- the test `in_cnf` performs on one rule -/
def cnfRuleb (V : List σ) (S : σ) (r : Rule σ K) : Bool :=
  decide (r.head ∉ V) &&
    match r.body with
    | [] => decide (r.head = S)
    | [a] => decide (a ∈ V)
    | [B, C] => decide (B ∉ V ∧ C ∉ V ∧ B ≠ S ∧ C ≠ S)
    | _ => false

theorem inCNFb_eq (G : CFG σ K) : inCNFb G = G.rules.all (cnfRuleb G.V G.S) := rfl

theorem mem_nonterminals {G : CFG σ K} {Y : σ} :
    Y ∈ nonterminals G ↔ Y = G.S ∨ ∃ r ∈ G.rules, r.head = Y := by
  simp only [nonterminals, List.mem_eraseDups, List.mem_cons, List.mem_map]

/-- `unaryremove` turns the post-`_push_null_weights` shape into CNF, if the closure table does not
connect any other nonterminal to the start symbol -/
theorem unaryRemove_cnf (W : σ → σ → K) (G : CFG σ K) (hS : G.S ∉ G.V)
    (hG : ∀ r ∈ G.rules, PostRule G.V G.S r) (hW : ∀ Y, Y ≠ G.S → W Y G.S = 0) :
    ∀ r ∈ (unaryRemove W G).rules, cnfRuleb G.V G.S r = true := by
  intro r hr
  obtain ⟨hmem, hw⟩ := mem_mkRules.mp hr
  simp only [List.mem_flatMap, List.mem_filter, List.mem_map] at hmem
  obtain ⟨q, ⟨hq, hun⟩, Y, hY, rfl⟩ := hmem
  obtain ⟨⟨hq1, hq2, hq3, hq4⟩, hq5⟩ := hG q hq
  have hYV : Y ∉ G.V := by
    rcases mem_nonterminals.mp hY with rfl | ⟨r', hr', rfl⟩
    · exact hS
    · exact (hG r' hr').1.1
  simp only [cnfRuleb, Bool.and_eq_true, decide_eq_true_eq]
  refine ⟨hYV, ?_⟩
  match hb : q.body with
  | [] =>
    simp only [decide_eq_true_eq]
    by_contra hne
    apply hw
    show W Y q.head * q.w = 0
    rw [hq5 hb, hW Y hne, zero_mul]
  | [a] =>
    simp only [decide_eq_true_eq]
    simpa [isUnaryRule, hb] using hun
  | [B, C] =>
    simp only [decide_eq_true_eq]
    have h4 := hq4 (by rw [hb]; rfl)
    rw [hb] at h4 hq2
    exact ⟨h4 B (by simp), h4 C (by simp), fun e => hq2 (by simp [e]), fun e => hq2 (by simp [e])⟩
  | a :: b :: c :: tl => rw [hb] at hq3; simp at hq3

/-- **C07.9** the model of `cnf()` produces a grammar in Chomsky normal form (with nonterminal
heads), for every null-weight table `nullW`, provided
* the input's start symbol and heads are nonterminals,
* the generated names are nonterminals, `fresh` is a nonterminal that is new (not the old start, not
  in a body, not a generated name), `rename` produces nonterminals different from the start symbol,
* the closure table `W` gives weight zero to `Y ⇒ S` for `Y ≠ S` (true of the real closure, since
  `S` is on no right-hand side). -/
theorem cnf_shape (gen : Nat → σ) (fresh : σ) (rename : σ → σ) (nullW : σ → K) (W : σ → σ → K)
    (G : CFG σ K) (ctr : Nat)
    (hS : G.S ∉ G.V) (hhead : ∀ r ∈ G.rules, r.head ∉ G.V)
    (hgen : ∀ i, gen i ∉ G.V) (hgenf : ∀ i, gen i ≠ fresh)
    (hfV : fresh ∉ G.V) (hfS : fresh ≠ G.S) (hfb : fresh ∉ bodySyms G)
    (hren : ∀ x, rename x ∉ G.V ∧ rename x ≠ (cnfPrep gen fresh G ctr).S)
    (hW : ∀ Y, Y ≠ (cnfPrep gen fresh G ctr).S → W Y (cnfPrep gen fresh G ctr).S = 0) :
    inCNFb (cnfModel gen fresh rename nullW W G ctr) = true := by
  obtain ⟨h3S, h3⟩ := cnfPrep_shape gen fresh G ctr hS hhead hgen hgenf hfV hfS hfb
  have hV := cnfPrep_V gen fresh G ctr
  have h4 := pushNull_shape nullW rename (cnfPrep gen fresh G ctr) (hV ▸ h3S) (hV ▸ h3)
    (hV ▸ hren)
  have h5 : ∀ r ∈ (trim (pushNull nullW rename (cnfPrep gen fresh G ctr))).rules,
      PostRule (cnfPrep gen fresh G ctr).V (cnfPrep gen fresh G ctr).S r :=
    fun r hr => h4 r ((trim_rules_sub _).subset hr)
  have h6 := unaryRemove_cnf W (trim (pushNull nullW rename (cnfPrep gen fresh G ctr)))
    (hV ▸ h3S) h5 hW
  rw [inCNFb_eq, List.all_eq_true]
  intro r hr
  exact h6 r ((trim_rules_sub _).subset hr)

end

/-! ### non-vacuity: concrete instances (symbols and weights in `ℕ`) -/
section Examples

/-- `0 → 0 1 0 1 (2) | 1 (3)`, terminal `1` -/
def structExG : CFG ℕ ℕ := ⟨0, [1], [⟨2, 0, [0, 1, 0, 1]⟩, ⟨3, 0, [1]⟩]⟩
def structGen (i : ℕ) : ℕ := 10 + i

-- 1. `binarize` really folds the long rule (two folds), and the short rule is kept
example : (binarize structGen structExG 0).1.rules
    = [⟨3, 0, [1]⟩, ⟨2, 0, [12, 1]⟩, ⟨1, 12, [11, 0]⟩, ⟨1, 11, [0, 1]⟩] := by decide
example : (binarize structGen structExG 0).2 = 2 := by decide
example : arityLe2 structExG = false := by decide
example : arityLe2 (binarize structGen structExG 0).1 = true := binarize_arity _ _ _
example : (⟨3, 0, [1]⟩ : Rule ℕ ℕ) ∈ (binarize structGen structExG 0).1.rules :=
  binarize_keeps_short _ _ _ _ (by decide) (by decide) (by decide)

-- 2. `separate_start`: the start symbol is on a right-hand side, 7 is fresh
example : startOffRhs structExG = false := by decide
example : startOffRhs (separateStart structExG 7) = true :=
  separateStart_off_rhs _ _ (by decide) (by decide)
example : (separateStart structExG 7).rules
    = [⟨1, 7, [0]⟩, ⟨2, 0, [0, 1, 0, 1]⟩, ⟨3, 0, [1]⟩] := by decide
-- the freshness hypothesis cannot be dropped: with `fresh := 0` the new start is on a rhs
example : startOffRhs (separateStart structExG 0) = false := by decide

-- 3. `separate_terminals`
example : terminalsSeparated structExG = false := by decide
example : terminalsSeparated (separateTerminals structGen structExG 0).1 = true :=
  separateTerminals_shape _ _ _ (by intro i; simp [structExG, structGen]; omega)
example : (separateTerminals structGen structExG 0).1.rules
    = [⟨1, 11, [1]⟩, ⟨2, 0, [0, 11, 0, 11]⟩, ⟨3, 0, [1]⟩] := by decide
-- the hypothesis cannot be dropped: a generated name that is a terminal breaks the shape
example : terminalsSeparated (separateTerminals (fun _ => 1) structExG 0).1 = false := by decide

-- 4. `_push_null_weights` on `5 → 0 0 (1); 0 → ε (2) | 1 (3)` with null weights 4 at 5 and 2 at 0
def structNullG : CFG ℕ ℕ := ⟨5, [1], [⟨1, 5, [0, 0]⟩, ⟨2, 0, []⟩, ⟨3, 0, [1]⟩]⟩
def structNullW (x : ℕ) : ℕ := if x = 5 then 4 else if x = 0 then 2 else 0
example : noNullaryExceptStart structNullG = false := by decide
example : (pushNull structNullW (· + 100) structNullG).rules
    = [⟨4, 5, []⟩, ⟨1, 5, [100, 100]⟩, ⟨2, 5, [100]⟩, ⟨2, 5, [100]⟩, ⟨3, 100, [1]⟩] := by decide
example : noNullaryExceptStart (pushNull structNullW (· + 100) structNullG) = true :=
  pushNull_no_nullary _ _ _

-- 5. `unaryremove` on `0 → 2 (1); 2 → 1 (3)` with the closure `W = I + A`
def structUnG : CFG ℕ ℕ := ⟨0, [1], [⟨1, 0, [2]⟩, ⟨3, 2, [1]⟩]⟩
def structUnW (Y X : ℕ) : ℕ := if Y = X then 1 else if Y = 0 ∧ X = 2 then 1 else 0
example : noUnary structUnG = false := by decide
example : (unaryRemove structUnW structUnG).rules = [⟨3, 0, [1]⟩, ⟨3, 2, [1]⟩] := by decide
example : noUnary (unaryRemove structUnW structUnG) = true := unaryRemove_no_unary _ _

-- 6.–8. `trim`: `3` is not generating, `4` is not reachable
def structTrimG : CFG ℕ ℕ :=
  ⟨0, [1], [⟨1, 0, [2, 1]⟩, ⟨2, 2, [1]⟩, ⟨1, 0, [3]⟩, ⟨1, 3, [3]⟩, ⟨5, 4, [1]⟩]⟩
example : trimUseful structTrimG = false := by decide
example : (trim structTrimG).rules = [⟨1, 0, [2, 1]⟩, ⟨2, 2, [1]⟩] := by decide
example : trimUseful (trim structTrimG) = true := trim_useful _ (by decide)
example : trim (trim structTrimG) = trim structTrimG := trim_idem _ (by decide)

/-- **Counterexample** showing that `trim_useful` and `trim_idem` need the "no zero-weight rule"
hypothesis: `generating` is computed from *all* rules, `_trim` then drops the zero-weight rule
`2 → 1`, after which `2` (hence `0`) is no longer generating.  (Python's `CFG.add` never stores
such a rule, so the real `trim` is only ever called on grammars meeting the hypothesis.) -/
def structTrimBad : CFG ℕ ℕ := ⟨0, [1], [⟨1, 0, [2]⟩, ⟨0, 2, [1]⟩]⟩
example : (trim structTrimBad).rules = [⟨1, 0, [2]⟩] := by decide
example : trimUseful (trim structTrimBad) = false := by decide
example : (trim (trim structTrimBad)).rules = [] := by decide

-- 7. empty language
def structEmptyG : CFG ℕ ℕ := ⟨0, [1], [⟨1, 0, [0, 1]⟩, ⟨1, 2, [1]⟩]⟩
example : 0 ∉ generating structEmptyG := by decide
example : (trim structEmptyG).rules = [] := trim_empty _ (by decide)
-- … whereas `cotrim` keeps the generating but unreachable part
example : (cotrim structEmptyG).rules = [⟨1, 2, [1]⟩] := by decide

-- 9. the `cnf()` pipeline on `0 → 1 0 1 (1) | ε (1)`, terminal `1`
def cnfExG : CFG ℕ ℕ := ⟨0, [1], [⟨1, 0, [1, 0, 1]⟩, ⟨1, 0, []⟩]⟩
def cnfExGen (i : ℕ) : ℕ := 10 + i
/-- the true null weights of `cnfPrep …` -/
def cnfExNull (x : ℕ) : ℕ := if x = 0 ∨ x = 9 then 1 else 0
/-- the true unary closure of the grammar handed to `unaryremove` (edges `9 → 100`, `12 → 11`) -/
def cnfExW (Y X : ℕ) : ℕ :=
  if Y = X then 1 else if Y = 9 ∧ X = 100 then 1 else if Y = 12 ∧ X = 11 then 1 else 0
example : inCNFb cnfExG = false := by decide
example : (cnfPrep cnfExGen 9 cnfExG 0).rules
    = [⟨1, 9, [0]⟩, ⟨1, 0, []⟩, ⟨1, 0, [12, 11]⟩, ⟨1, 12, [11, 0]⟩, ⟨1, 11, [1]⟩] := by decide
set_option maxRecDepth 8000 in
example : (cnfModel cnfExGen 9 (· + 100) cnfExNull cnfExW cnfExG 0).rules
    = [⟨1, 9, []⟩, ⟨1, 9, [12, 11]⟩, ⟨1, 100, [12, 11]⟩, ⟨1, 12, [11, 100]⟩, ⟨1, 12, [1]⟩,
       ⟨1, 11, [1]⟩] := by decide
example : inCNFb (cnfModel cnfExGen 9 (· + 100) cnfExNull cnfExW cnfExG 0) = true :=
  cnf_shape _ _ _ _ _ _ _ (by decide) (by decide) (by intro i; simp [cnfExGen, cnfExG]; omega)
    (by intro i; simp [cnfExGen]; omega) (by decide) (by decide) (by decide)
    (by intro x; rw [show (cnfPrep cnfExGen 9 cnfExG 0).S = 9 by decide]; simp [cnfExG])
    (by intro Y hY; rw [show (cnfPrep cnfExGen 9 cnfExG 0).S = 9 by decide] at hY ⊢
        simp [cnfExW, hY])
-- the hypothesis on `W` cannot be dropped: a table that is non-zero everywhere copies the nullary
-- rule of the start symbol to every nonterminal
set_option maxRecDepth 8000 in
example : inCNFb (cnfModel cnfExGen 9 (· + 100) cnfExNull (fun _ _ => 1) cnfExG 0) = false := by
  decide
-- nor can the hypothesis that `rename` avoids the start symbol
set_option maxRecDepth 8000 in
example : inCNFb (cnfModel cnfExGen 9 (fun _ => 9) cnfExNull cnfExW cnfExG 0) = false := by decide

end Examples
end Genlm
