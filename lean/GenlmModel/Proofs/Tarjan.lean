import GenlmModel.Model.Tarjan
import GenlmModel.Proofs.Linear
import Mathlib.Logic.Relation
import Mathlib.Data.List.Forall2

/-! Correctness of the model of `scc_decomposition` (`Model/Tarjan.lean`): Tarjan's algorithm as
`genlm/grammar/linear.py` writes it (one dict `lowest` for DFS numbers and low-links, a `trail` set,
`lowest[v] = min(lowest[v], lowest[w])` in both branches).  Property C15.

Main results (any node type with decidable equality, any orders of the successor lists and of the roots):
* `tarjan_correct` : for a finite graph (`nodes` closed under `succ`, containing the roots) and
  `fuel ≥ nodes.length`, the run does not fail, ends with an empty stack, and the emitted list
  (a) consists of non-empty, duplicate-free, pairwise disjoint components covering exactly the nodes
  reachable from the roots, (b) two covered nodes share a component iff each reaches the other,
  (c) an edge `u → v` from component number `p` to component number `q` has `q ≤ p`
  (reverse topological order of emission w.r.t. `succ`).
* `tarjanBlocks_isSccDecomp`, `tarjanBlocks_sccCheck` : (d) `WeightedGraph.blocks`
  (`successors = incoming`, `roots = N`, emission order) satisfies `IsSccDecomp g.nodes g.arcs`, i.e. lists
  the components *sources first* w.r.t. the arcs of `E`, and the verified checker `sccCheck` accepts it;
  `tarjanBlocks_sccCheck_perm` : also after any reordering inside the blocks (`frozenset`).
* `tjVisit_spec` : the specification of `dfs(v)` (`TjPost`) under the invariant `TjInv`
  (the Chen–Lévy et al. invariant adapted to the single-dict variant, with a ghost numbering `num` and
  a ghost list `G` of gray nodes).
The section `Examples` evaluates the model by `decide` on the requested graphs and shows that four minimal
wrong variants of the algorithm (and a caller searching `outgoing`) are rejected. -/
namespace Genlm
set_option linter.unusedSectionVars false

section Tj
variable {ι : Type} [DecidableEq ι]

/-! ### vocabulary -/

/-- `v → w` is an edge of the searched graph: `w in successors(v)` -/
def tjEdge (succ : ι → List ι) (a b : ι) : Prop := b ∈ succ a

/-- reachability along `successors` -/
abbrev tjReach (succ : ι → List ι) : ι → ι → Prop := Relation.ReflTransGen (tjEdge succ)

/-- `lowest.get(x) is not None` -/
def TjState.vis (s : TjState ι) (x : ι) : Prop := s.lowest x ≠ none

/-- `lowest[x]` (0 when absent) -/
def TjState.lv (s : TjState ι) (x : ι) : Nat := (s.lowest x).getD 0

/-- number of unvisited nodes among `nodes` -/
def tjWc (nodes : List ι) (s : TjState ι) : Nat := nodes.countP (fun u => (s.lowest u).isNone)

theorem tjSet_self (low : ι → Option Nat) (v : ι) (n : Nat) : tjSet low v n v = some n := by
  simp [tjSet]

theorem tjSet_ne (low : ι → Option Nat) (v : ι) (n : Nat) (u : ι) (h : u ≠ v) :
    tjSet low v n u = low u := by
  simp [tjSet, h]

theorem TjState.vis_iff (s : TjState ι) (x : ι) : s.vis x ↔ ∃ a, s.lowest x = some a :=
  Option.ne_none_iff_exists'

theorem TjState.lv_of_some (s : TjState ι) (x : ι) (a : Nat) (h : s.lowest x = some a) : s.lv x = a := by
  simp [TjState.lv, h]

theorem tjWc_mono (nodes : List ι) (s s' : TjState ι) (h : ∀ x, s.vis x → s'.vis x) :
    tjWc nodes s' ≤ tjWc nodes s := by
  apply List.countP_mono_left
  intro x _ hx
  by_contra hc
  have : s.vis x := by
    intro h0; apply hc; simp [h0]
  have := h x this
  apply this
  simpa using hx

theorem tjWc_lt (nodes : List ι) (s s' : TjState ι) (h : ∀ x, s.vis x → s'.vis x) (v : ι)
    (hv : v ∈ nodes) (hw : s.lowest v = none) (hv' : s'.vis v) : tjWc nodes s' < tjWc nodes s := by
  induction nodes with
  | nil => simp at hv
  | cons a l ih =>
    unfold tjWc
    rw [List.countP_cons, List.countP_cons]
    have hm := tjWc_mono l s s' h
    unfold tjWc at hm ih
    by_cases hav : a = v
    · subst hav
      have h1 : (s.lowest a).isNone = true := by simp [hw]
      have h2 : (s'.lowest a).isNone = false := by
        cases hh : s'.lowest a with
        | none => exact absurd hh hv'
        | some _ => rfl
      simp only [h1, h2, if_true]
      simp only [Bool.false_eq_true, if_false]
      omega
    · have hl : v ∈ l := by
        rcases List.mem_cons.mp hv with h0 | h0
        · exact absurd h0.symm hav
        · exact h0
      have := ih hl
      have h3 : ((s'.lowest a).isNone = true) → ((s.lowest a).isNone = true) := by
        intro h4
        by_contra h5
        have : s.vis a := by intro h0; apply h5; simp [h0]
        have := h a this
        apply this; simpa using h4
      by_cases h6 : (s'.lowest a).isNone = true
      · simp only [h6, h3 h6, if_true]; omega
      · rw [Bool.not_eq_true] at h6
        by_cases h7 : (s.lowest a).isNone = true
        · simp only [h6, h7, if_true, Bool.false_eq_true, if_false]; omega
        · rw [Bool.not_eq_true] at h7
          simp only [h6, h7, Bool.false_eq_true, if_false]; omega

/-! ### the pop loop -/

theorem tjPop_spec (v : ι) (new rest : List ι) (hv : v ∉ new) (trail C : List ι) :
    ∃ tr, tjPop v (new ++ v :: rest) trail C = (rest, tr, C ++ new ++ [v], true) ∧
      ∀ x, x ∈ tr ↔ (x ∈ trail ∧ x ∉ new ∧ x ≠ v) := by
  induction new generalizing trail C with
  | nil =>
    refine ⟨trail.filter (fun u => !decide (u = v)), by simp [tjPop], ?_⟩
    intro x
    simp
  | cons a new ih =>
    have hav : a ≠ v := fun h => hv (by simp [h])
    have hv' : v ∉ new := fun h => hv (by simp [h])
    obtain ⟨tr, h1, h2⟩ := ih hv' (trail.filter (fun u => !decide (u = a))) (C ++ [a])
    refine ⟨tr, ?_, ?_⟩
    · simp only [List.cons_append, tjPop, if_neg hav]
      rw [h1]
      simp
    · intro x
      rw [h2]
      simp only [List.mem_filter, Bool.not_eq_eq_eq_not, Bool.not_true, decide_eq_false_iff_not,
        List.mem_cons, not_or]
      tauto

/-! ### the invariant -/

/-- The invariant of Chen–Lévy et al., adapted to the single-dict variant of the library.  `num` is a
ghost: the DFS number (`num = t` at entry) of the nodes on the stack; `G` is the ghost list of gray
nodes (the current DFS path).  White = not visited, black = visited and not gray. -/
structure TjInv (succ : ι → List ι) (num : ι → Nat) (G : List ι) (s : TjState ι) : Prop where
  ok : s.ok = true
  trail : ∀ x, x ∈ s.trail ↔ x ∈ s.stack
  visd : ∀ x, s.vis x ↔ (x ∈ s.stack ∨ x ∈ s.out.flatten)
  disj : ∀ x ∈ s.stack, x ∉ s.out.flatten
  ondup : s.out.flatten.Nodup
  nonempty : ∀ cc ∈ s.out, cc ≠ []
  sorted : s.stack.Pairwise (fun a b => num b < num a)
  num_le : ∀ x ∈ s.stack, num x ≤ s.t
  lv_le : ∀ x ∈ s.stack, s.lv x ≤ num x
  low : ∀ x ∈ s.stack, ∃ y ∈ s.stack, num y = s.lv x ∧ tjReach succ x y
  gsub : ∀ g ∈ G, g ∈ s.stack
  gray : ∀ x ∈ s.stack, ∃ g ∈ G, num g ≤ num x ∧ tjReach succ x g
  chain : ∀ g ∈ G, ∀ g' ∈ G, num g ≤ num g' → tjReach succ g g'
  nbw : ∀ x, s.vis x → x ∉ G → ∀ y ∈ succ x, s.vis y
  conn : ∀ cc ∈ s.out, ∀ a ∈ cc, ∀ b ∈ cc, tjReach succ a b
  topo : ∀ (p : Nat) (N : List ι), s.out[p]? = some N → ∀ a ∈ N, ∀ b ∈ succ a,
    ∃ (q : Nat) (M : List ι), q ≤ p ∧ s.out[q]? = some M ∧ b ∈ M

theorem TjInv.stack_nodup {succ : ι → List ι} {num : ι → Nat} {G : List ι} {s : TjState ι}
    (h : TjInv succ num G s) : s.stack.Nodup := by
  unfold List.Nodup
  exact h.sorted.imp (fun hab => by intro e; subst e; omega)

/-- in a stack `new ++ rest` sorted by `num`, everything in `new` is above everything in `rest` -/
theorem tj_sorted_append {num : ι → Nat} {new rest : List ι}
    (h : (new ++ rest).Pairwise (fun a b => num b < num a)) :
    ∀ a ∈ new, ∀ b ∈ rest, num b < num a :=
  fun a ha b hb => (List.pairwise_append.mp h).2.2 a ha b hb

/-- the state after `t += 1; lowest[v] = t; trail.add(v); stack.append(v)` -/
def tjPushSt (v : ι) (s : TjState ι) : TjState ι :=
  { s with t := s.t + 1, lowest := tjSet s.lowest v (s.t + 1), trail := v :: s.trail,
           stack := v :: s.stack }

theorem tjVisit_succ (succ : ι → List ι) (n : Nat) (v : ι) (s : TjState ι) :
    tjVisit succ (n+1) v s
      = tjFinish v (s.t + 1) ((succ v).foldl (tjStep (tjVisit succ n) v) (tjPushSt v s)) := rfl

theorem tjPushSt_vis (v : ι) (s : TjState ι) (x : ι) : (tjPushSt v s).vis x ↔ (x = v ∨ s.vis x) := by
  unfold TjState.vis tjPushSt
  by_cases h : x = v
  · subst h; simp [tjSet]
  · simp [tjSet, h]

theorem tjPushSt_lv_ne (v : ι) (s : TjState ι) (x : ι) (h : x ≠ v) : (tjPushSt v s).lv x = s.lv x := by
  simp [TjState.lv, tjPushSt, tjSet, h]

theorem tjPushSt_lv_self (v : ι) (s : TjState ι) : (tjPushSt v s).lv v = s.t + 1 := by
  simp [TjState.lv, tjPushSt, tjSet]

theorem TjInv.push {succ : ι → List ι} {num : ι → Nat} {G : List ι} {s : TjState ι}
    (h : TjInv succ num G s) (v : ι) (hw : s.lowest v = none) (hG : ∀ g ∈ G, tjReach succ g v) :
    TjInv succ (fun x => if x = v then s.t + 1 else num x) (v :: G) (tjPushSt v s) := by
  have hvs : v ∉ s.stack := fun hm => ((h.visd v).mpr (Or.inl hm)) hw
  have hne : ∀ x ∈ s.stack, x ≠ v := fun x hx e => hvs (e ▸ hx)
  have hnum : ∀ x ∈ s.stack, (if x = v then s.t + 1 else num x) = num x :=
    fun x hx => if_neg (hne x hx)
  exact {
    ok := h.ok
    trail := by
      intro x
      show x ∈ v :: s.trail ↔ x ∈ v :: s.stack
      simp [h.trail x]
    visd := by
      intro x
      rw [tjPushSt_vis, h.visd x]
      show _ ↔ (x ∈ v :: s.stack ∨ x ∈ s.out.flatten)
      simp only [List.mem_cons]
      tauto
    disj := by
      intro x hx
      show x ∉ s.out.flatten
      rcases List.mem_cons.mp hx with rfl | hx
      · intro hm; exact ((h.visd x).mpr (Or.inr hm)) hw
      · exact h.disj x hx
    ondup := h.ondup
    nonempty := h.nonempty
    sorted := by
      show (v :: s.stack).Pairwise _
      rw [List.pairwise_cons]
      refine ⟨?_, ?_⟩
      · intro b hb
        have := h.num_le b hb
        simp only [if_neg (hne b hb), if_true]
        omega
      · refine h.sorted.imp_of_mem ?_
        intro a b ha hb hab
        rw [hnum a ha, hnum b hb]; exact hab
    num_le := by
      intro x hx
      show _ ≤ s.t + 1
      rcases List.mem_cons.mp hx with rfl | hx
      · simp
      · rw [hnum x hx]; have := h.num_le x hx; omega
    lv_le := by
      intro x hx
      rcases List.mem_cons.mp hx with rfl | hx
      · rw [tjPushSt_lv_self]; simp
      · rw [tjPushSt_lv_ne v s x (hne x hx), hnum x hx]; exact h.lv_le x hx
    low := by
      intro x hx
      rcases List.mem_cons.mp hx with rfl | hx
      · exact ⟨x, hx, by rw [tjPushSt_lv_self]; simp, Relation.ReflTransGen.refl⟩
      · obtain ⟨y, hy, h1, h2⟩ := h.low x hx
        refine ⟨y, List.mem_cons_of_mem _ hy, ?_, h2⟩
        rw [tjPushSt_lv_ne v s x (hne x hx), hnum y hy]; exact h1
    gsub := by
      intro g hg
      show g ∈ v :: s.stack
      rcases List.mem_cons.mp hg with rfl | hg
      · simp
      · exact List.mem_cons_of_mem _ (h.gsub g hg)
    gray := by
      intro x hx
      rcases List.mem_cons.mp hx with rfl | hx
      · exact ⟨x, by simp, Nat.le_refl _, Relation.ReflTransGen.refl⟩
      · obtain ⟨g, hg, h1, h2⟩ := h.gray x hx
        refine ⟨g, List.mem_cons_of_mem _ hg, ?_, h2⟩
        rw [hnum x hx, hnum g (h.gsub g hg)]; exact h1
    chain := by
      intro g hg g' hg' hle
      rcases List.mem_cons.mp hg with e1 | hg1
      · rcases List.mem_cons.mp hg' with e2 | hg2
        · rw [e1, e2]
        · exfalso
          have := h.num_le g' (h.gsub g' hg2)
          simp only [e1, if_true, if_neg (hne g' (h.gsub g' hg2))] at hle
          omega
      · rcases List.mem_cons.mp hg' with e2 | hg2
        · rw [e2]; exact hG g hg1
        · apply h.chain g hg1 g' hg2
          rw [hnum g (h.gsub g hg1), hnum g' (h.gsub g' hg2)] at hle; exact hle
    nbw := by
      intro x hx hxG y hy
      rw [tjPushSt_vis] at hx ⊢
      have hxv : x ≠ v := fun e => hxG (by simp [e])
      have hxG' : x ∉ G := fun e => hxG (List.mem_cons_of_mem _ e)
      exact Or.inr (h.nbw x (hx.resolve_left hxv) hxG' y hy)
    conn := h.conn
    topo := h.topo }

/-- lowering `lowest[v]` to the number of a stack node reachable from `v` keeps the invariant -/
theorem TjInv.lower {succ : ι → List ι} {num : ι → Nat} {G : List ι} {s : TjState ι}
    (h : TjInv succ num G s) (v : ι) (m : Nat) (hv : v ∈ s.stack) (hm : m ≤ s.lv v)
    (hy : ∃ y ∈ s.stack, num y = m ∧ tjReach succ v y) :
    TjInv succ num G { s with lowest := tjSet s.lowest v m } := by
  have hvis : ∀ x, ({ s with lowest := tjSet s.lowest v m } : TjState ι).vis x ↔ s.vis x := by
    intro x
    unfold TjState.vis
    by_cases hx : x = v
    · subst hx
      have : s.vis x := (h.visd x).mpr (Or.inl hv)
      unfold TjState.vis at this
      simp [tjSet, this]
    · simp [tjSet, hx]
  have hlv : ∀ x, x ≠ v → ({ s with lowest := tjSet s.lowest v m } : TjState ι).lv x = s.lv x := by
    intro x hx
    simp [TjState.lv, tjSet, hx]
  have hlvv : ({ s with lowest := tjSet s.lowest v m } : TjState ι).lv v = m := by
    simp [TjState.lv, tjSet]
  exact {
    ok := h.ok
    trail := h.trail
    visd := fun x => (hvis x).trans (h.visd x)
    disj := h.disj
    ondup := h.ondup
    nonempty := h.nonempty
    sorted := h.sorted
    num_le := h.num_le
    lv_le := by
      intro x hx
      by_cases e : x = v
      · subst e; rw [hlvv]; exact Nat.le_trans hm (h.lv_le x hx)
      · rw [hlv x e]; exact h.lv_le x hx
    low := by
      intro x hx
      by_cases e : x = v
      · subst e; rw [hlvv]; exact hy
      · rw [hlv x e]; exact h.low x hx
    gsub := h.gsub
    gray := h.gray
    chain := h.chain
    nbw := by
      intro x hx hxG y hy
      exact (hvis y).mpr (h.nbw x ((hvis x).mp hx) hxG y hy)
    conn := h.conn
    topo := h.topo }

/-! ### specification of `dfs` and of its `for` loop -/

/-- what `dfs(v)` guarantees, from state `s` to state `s'` (`G` = gray nodes at the call) -/
structure TjPost (succ : ι → List ι) (num : ι → Nat) (G : List ι) (v : ι) (s s' : TjState ι) : Prop where
  ex : ∃ (num' : ι → Nat) (new : List ι), TjInv succ num' G s' ∧ (∀ x ∈ s.stack, num' x = num x) ∧
     s'.stack = new ++ s.stack ∧ (∀ a ∈ new, ∀ b ∈ succ a, b ∈ s.stack → s'.lv v ≤ num b) ∧
     (∀ a ∈ new, tjReach succ v a) ∧ (v ∈ new ∨ s.t < s'.lv v)
  keep : ∀ x, s.vis x → s'.lowest x = s.lowest x
  visv : s'.vis v
  tle : s.t ≤ s'.t
  reach : ∀ x, s'.vis x → s.vis x ∨ tjReach succ v x

def TjSpec (succ : ι → List ι) (nodes : List ι) (f : ι → TjState ι → TjState ι) (n : Nat) : Prop :=
  ∀ (num : ι → Nat) (G : List ι) (v : ι) (s : TjState ι), TjInv succ num G s → s.lowest v = none →
    v ∈ nodes → (∀ g ∈ G, tjReach succ g v) → tjWc nodes s ≤ n → TjPost succ num G v s (f v s)

/-- invariant of `for w in successors(v)` (`done` = the successors already handled, `s0` = the state
at the call of `dfs(v)`; `L` = a bound below the numbers of the old stack nodes that the new part of the
stack has edges to) -/
structure TjLoop (succ : ι → List ι) (nodes : List ι) (num0 : ι → Nat) (G : List ι) (v : ι)
    (s0 : TjState ι) (n : Nat) (L : Nat) (done : List ι) (s : TjState ι) : Prop where
  ex : ∃ (num : ι → Nat) (new : List ι), TjInv succ num (v :: G) s ∧ (∀ x ∈ s0.stack, num x = num0 x) ∧
     num v = s0.t + 1 ∧ s.stack = new ++ v :: s0.stack ∧
     (∀ a ∈ new, ∀ b ∈ succ a, b ∈ s0.stack → L ≤ num0 b) ∧ (∀ a ∈ new, tjReach succ v a)
  done_le : ∀ b ∈ done, b ∈ s0.stack → s.lv v ≤ num0 b
  done_vis : ∀ b ∈ done, s.vis b
  keep : ∀ x, s0.vis x → s.lowest x = s0.lowest x
  tlt : s0.t < s.t
  reach : ∀ x, s.vis x → s0.vis x ∨ tjReach succ v x
  wc : tjWc nodes s ≤ n

/-- `lowest[v] = min(lowest[v], lowest[w])` inside the loop -/
theorem tjLoop_min {succ : ι → List ι} {nodes : List ι} {num0 : ι → Nat} {G : List ι} {v : ι}
    {s0 : TjState ι} {n : Nat} {done : List ι} {s : TjState ι} (w : ι)
    (hw0 : s0.lowest v = none)
    (hL : TjLoop succ nodes num0 G v s0 n (min (s.lv v) (s.lv w)) done s) (hw : w ∈ succ v)
    (hwv : s.vis w) (hws : w ∈ s.stack ∨ s.lv v ≤ s.lv w) :
    TjLoop succ nodes num0 G v s0 n ((tjMin s v w).lv v) (done ++ [w]) (tjMin s v w) := by
  obtain ⟨num, new, hI, hnum, hnv, hst, hedge, hreach⟩ := hL.ex
  have hvst : v ∈ s.stack := by rw [hst]; simp
  have hvvis : s.vis v := (hI.visd v).mpr (Or.inl hvst)
  obtain ⟨a, ha⟩ := (s.vis_iff v).mp hvvis
  obtain ⟨b, hb⟩ := (s.vis_iff w).mp hwv
  have hla := s.lv_of_some v a ha
  have hlb := s.lv_of_some w b hb
  rw [hla, hlb] at hL hedge hws
  have hmin : tjMin s v w = { s with lowest := tjSet s.lowest v (min a b) } := by
    simp [tjMin, ha, hb]
  rw [hmin]
  have hlv : ({ s with lowest := tjSet s.lowest v (min a b) } : TjState ι).lv v = min a b := by
    simp [TjState.lv, tjSet]
  rw [hlv]
  have hvis : ∀ x, ({ s with lowest := tjSet s.lowest v (min a b) } : TjState ι).vis x ↔ s.vis x := by
    intro x
    unfold TjState.vis
    by_cases hx : x = v
    · subst hx; simp [tjSet, ha]
    · simp [tjSet, hx]
  have h0sub : ∀ x ∈ s0.stack, x ∈ s.stack := by
    intro x hx; rw [hst]; simp [hx]
  have hI' := hI.lower v (min a b) hvst (by rw [hla]; exact Nat.min_le_left _ _) (by
    by_cases hba : b < a
    · have hwst : w ∈ s.stack := by
        rcases hws with h | h
        · exact h
        · omega
      obtain ⟨y, hy, h1, h2⟩ := hI.low w hwst
      refine ⟨y, hy, ?_, Relation.ReflTransGen.head hw h2⟩
      rw [h1, hlb]; omega
    · obtain ⟨y, hy, h1, h2⟩ := hI.low v hvst
      refine ⟨y, hy, ?_, h2⟩
      rw [h1, hla]; omega)
  exact {
    ex := ⟨num, new, hI', hnum, hnv, hst, hedge, hreach⟩
    done_le := by
      intro c hc hcs
      rw [hlv]
      rcases List.mem_append.mp hc with hc | hc
      · have := hL.done_le c hc hcs
        rw [hla] at this
        omega
      · rw [List.mem_singleton] at hc; subst hc
        have h1 := hI.lv_le c (h0sub c hcs)
        rw [hlb, hnum c hcs] at h1
        omega
    done_vis := by
      intro c hc
      rw [hvis]
      rcases List.mem_append.mp hc with hc | hc
      · exact hL.done_vis c hc
      · rw [List.mem_singleton] at hc; subst hc; exact hwv
    keep := by
      intro x hx
      have hxv : x ≠ v := fun e => hx (e ▸ hw0)
      show tjSet s.lowest v (min a b) x = _
      rw [tjSet_ne _ _ _ _ hxv]
      exact hL.keep x hx
    tlt := hL.tlt
    reach := fun x hx => hL.reach x ((hvis x).mp hx)
    wc := Nat.le_trans (tjWc_mono nodes s _ (fun x hx => (hvis x).mpr hx)) hL.wc }

/-- one iteration of the loop body -/
theorem tjStep_loop {succ : ι → List ι} {nodes : List ι}
    (hcl : ∀ a ∈ nodes, ∀ b ∈ succ a, b ∈ nodes) (rec : ι → TjState ι → TjState ι) (n : Nat)
    (hrec : TjSpec succ nodes rec n) {num0 : ι → Nat} {G : List ι} {v : ι} {s0 : TjState ι}
    (hv : v ∈ nodes) (hw0 : s0.lowest v = none) (hG : ∀ g ∈ G, tjReach succ g v)
    (done : List ι) (s : TjState ι) (w : ι) (hw : w ∈ succ v)
    (hL : TjLoop succ nodes num0 G v s0 n (s.lv v) done s) :
    TjLoop succ nodes num0 G v s0 n ((tjStep rec v s w).lv v) (done ++ [w]) (tjStep rec v s w) := by
  obtain ⟨num, new, hI, hnum, hnv, hst, hedge, hreach⟩ := hL.ex
  have hvst : v ∈ s.stack := by rw [hst]; simp
  have hvvis : s.vis v := (hI.visd v).mpr (Or.inl hvst)
  have h0sub : ∀ x ∈ s0.stack, x ∈ s.stack := by
    intro x hx; rw [hst]; simp [hx]
  unfold tjStep
  cases hlw : s.lowest w with
  | none =>
    simp only
    have hP := hrec num (v :: G) w s hI hlw (hcl v hv w hw) (by
      intro g hg
      rcases List.mem_cons.mp hg with e | hg
      · rw [e]; exact Relation.ReflTransGen.single hw
      · exact (hG g hg).tail hw) hL.wc
    obtain ⟨num', new', hI', hnum', hst', hedge', hreach', hor⟩ := hP.ex
    have hkv : (rec w s).lv v = s.lv v := by
      unfold TjState.lv; rw [hP.keep v hvvis]
    have h0w : w ∉ s0.stack := by
      intro hm
      have := (hI.visd w).mpr (Or.inl (h0sub w hm))
      exact this hlw
    apply tjLoop_min w hw0 _ hw hP.visv
    · rcases hor with h | h
      · left; rw [hst']; exact List.mem_append_left _ h
      · right
        rw [hkv]
        have h1 := hI.lv_le v hvst
        have h2 := hI.num_le v hvst
        omega
    · exact {
        ex := by
          refine ⟨num', new' ++ new, hI', ?_, ?_, ?_, ?_, ?_⟩
          · intro x hx; rw [hnum' x (h0sub x hx)]; exact hnum x hx
          · rw [hnum' v hvst]; exact hnv
          · rw [hst', hst, List.append_assoc]
          · intro a ha b hb hbs
            rcases List.mem_append.mp ha with ha | ha
            · have := hedge' a ha b hb (h0sub b hbs)
              rw [hnum b hbs] at this
              omega
            · have := hedge a ha b hb hbs
              rw [hkv]; omega
          · intro a ha
            rcases List.mem_append.mp ha with ha | ha
            · exact Relation.ReflTransGen.head hw (hreach' a ha)
            · exact hreach a ha
        done_le := by
          intro c hc hcs
          rw [hkv]; exact hL.done_le c hc hcs
        done_vis := by
          intro c hc
          have := hL.done_vis c hc
          unfold TjState.vis at this ⊢
          rw [hP.keep c this]; exact this
        keep := by
          intro x hx
          have h1 := hL.keep x hx
          have : s.vis x := by unfold TjState.vis; rw [h1]; exact hx
          rw [hP.keep x this]; exact h1
        tlt := Nat.lt_of_lt_of_le hL.tlt hP.tle
        reach := by
          intro x hx
          rcases hP.reach x hx with h | h
          · exact hL.reach x h
          · exact Or.inr (Relation.ReflTransGen.head hw h)
        wc := by
          refine Nat.le_trans (tjWc_mono nodes s _ ?_) hL.wc
          intro x hx
          unfold TjState.vis at hx ⊢
          rw [hP.keep x hx]; exact hx }
  | some b =>
    simp only
    have hwv : s.vis w := by unfold TjState.vis; rw [hlw]; simp
    by_cases htr : w ∈ s.trail
    · rw [if_pos htr]
      apply tjLoop_min w hw0 _ hw hwv (Or.inl ((hI.trail w).mp htr))
      exact {
        ex := ⟨num, new, hI, hnum, hnv, hst, fun a ha c hc hcs =>
          Nat.le_trans (Nat.min_le_left _ _) (hedge a ha c hc hcs), hreach⟩
        done_le := hL.done_le
        done_vis := hL.done_vis
        keep := hL.keep
        tlt := hL.tlt
        reach := hL.reach
        wc := hL.wc }
    · rw [if_neg htr]
      exact {
        ex := hL.ex
        done_le := by
          intro c hc hcs
          rcases List.mem_append.mp hc with hc | hc
          · exact hL.done_le c hc hcs
          · rw [List.mem_singleton] at hc; subst hc
            exact absurd ((hI.trail c).mpr (h0sub c hcs)) htr
        done_vis := by
          intro c hc
          rcases List.mem_append.mp hc with hc | hc
          · exact hL.done_vis c hc
          · rw [List.mem_singleton] at hc; subst hc; exact hwv
        keep := hL.keep
        tlt := hL.tlt
        reach := hL.reach
        wc := hL.wc }

/-- the whole `for` loop -/
theorem tjLoop_foldl {succ : ι → List ι} {nodes : List ι}
    (hcl : ∀ a ∈ nodes, ∀ b ∈ succ a, b ∈ nodes) (rec : ι → TjState ι → TjState ι) (n : Nat)
    (hrec : TjSpec succ nodes rec n) {num0 : ι → Nat} {G : List ι} {v : ι} {s0 : TjState ι}
    (hv : v ∈ nodes) (hw0 : s0.lowest v = none) (hG : ∀ g ∈ G, tjReach succ g v)
    (ws : List ι) : ∀ (done : List ι) (s : TjState ι), (∀ w ∈ ws, w ∈ succ v) →
      TjLoop succ nodes num0 G v s0 n (s.lv v) done s →
      TjLoop succ nodes num0 G v s0 n ((ws.foldl (tjStep rec v) s).lv v) (done ++ ws)
        (ws.foldl (tjStep rec v) s) := by
  induction ws with
  | nil => intro done s _ h; simpa using h
  | cons w ws ih =>
    intro done s hws hL
    rw [List.foldl_cons]
    have h1 := tjStep_loop hcl rec n hrec hv hw0 hG done s w (hws w (by simp)) hL
    have h2 := ih (done ++ [w]) _ (fun x hx => hws x (List.mem_cons_of_mem _ hx)) h1
    simpa using h2

/-! ### the end of `dfs(v)` -/

/-- `v` turns black and stays on the stack (`lowest[v] < num`) -/
theorem TjInv.blacken {succ : ι → List ι} {num : ι → Nat} {G : List ι} {v : ι} {s : TjState ι}
    (h : TjInv succ num (v :: G) s) (hlt : s.lv v < num v) (hsv : ∀ b ∈ succ v, s.vis b) :
    TjInv succ num G s := by
  have hvs : v ∈ s.stack := h.gsub v (by simp)
  exact {
    ok := h.ok
    trail := h.trail
    visd := h.visd
    disj := h.disj
    ondup := h.ondup
    nonempty := h.nonempty
    sorted := h.sorted
    num_le := h.num_le
    lv_le := h.lv_le
    low := h.low
    gsub := fun g hg => h.gsub g (List.mem_cons_of_mem _ hg)
    gray := by
      intro x hx
      obtain ⟨g, hg, h1, h2⟩ := h.gray x hx
      rcases List.mem_cons.mp hg with e | hg
      · subst e
        obtain ⟨y, hy, h3, h4⟩ := h.low g hvs
        obtain ⟨g', hg', h5, h6⟩ := h.gray y hy
        rcases List.mem_cons.mp hg' with e | hg'
        · subst e; omega
        · exact ⟨g', hg', by omega, h2.trans (h4.trans h6)⟩
      · exact ⟨g, hg, h1, h2⟩
    chain := fun g hg g' hg' => h.chain g (List.mem_cons_of_mem _ hg) g' (List.mem_cons_of_mem _ hg')
    nbw := by
      intro x hx hxG y hy
      by_cases e : x = v
      · subst e; exact hsv y hy
      · exact h.nbw x hx (by simp [e, hxG]) y hy
    conn := h.conn
    topo := h.topo }

/-- every node of the new part of the stack reaches the top gray node `v` -/
theorem tj_reach_top {succ : ι → List ι} {num : ι → Nat} {G : List ι} {v : ι} {s : TjState ι}
    {new rest : List ι} (h : TjInv succ num (v :: G) s) (hst : s.stack = new ++ v :: rest)
    (hG : ∀ g ∈ G, g ∈ rest) : ∀ x ∈ new ++ [v], tjReach succ x v := by
  intro x hx
  have hxs : x ∈ s.stack := by
    rw [hst]
    rcases List.mem_append.mp hx with h1 | h1
    · exact List.mem_append_left _ h1
    · rw [List.mem_singleton] at h1; subst h1; simp
  obtain ⟨g, hg, _, h2⟩ := h.gray x hxs
  rcases List.mem_cons.mp hg with e | hg
  · subst e; exact h2
  · refine h2.trans (h.chain g (List.mem_cons_of_mem _ hg) v (by simp) ?_)
    have hs := h.sorted
    rw [hst] at hs
    have := (List.pairwise_cons.mp (List.pairwise_append.mp hs).2.1).1 g (hG g hg)
    omega

/-- `v` is the root of a component (`lowest[v] == num`): the new part of the stack is popped -/
theorem TjInv.pop {succ : ι → List ι} {num : ι → Nat} {G : List ι} {v : ι} {s : TjState ι}
    {new rest tr : List ι} (h : TjInv succ num (v :: G) s) (hst : s.stack = new ++ v :: rest)
    (hG : ∀ g ∈ G, g ∈ rest) (hsv : ∀ b ∈ succ v, s.vis b) (hreach : ∀ a ∈ new, tjReach succ v a)
    (hno : ∀ a ∈ new ++ [v], ∀ b ∈ succ a, b ∉ rest)
    (htr : ∀ x, x ∈ tr ↔ (x ∈ s.trail ∧ x ∉ new ∧ x ≠ v)) :
    TjInv succ num G { s with stack := rest, trail := tr, out := s.out ++ [new ++ [v]] } := by
  have hst2 : s.stack = (new ++ [v]) ++ rest := by rw [hst]; simp
  have hnd := h.stack_nodup
  rw [hst2] at hnd
  have hndC : (new ++ [v]).Nodup := (List.nodup_append.mp hnd).1
  have hdj : ∀ a ∈ new ++ [v], ∀ b ∈ rest, a ≠ b := (List.nodup_append.mp hnd).2.2
  have hsorted := h.sorted
  rw [hst2] at hsorted
  have habove : ∀ a ∈ new ++ [v], ∀ b ∈ rest, num b < num a := tj_sorted_append hsorted
  have hsubR : ∀ x ∈ rest, x ∈ s.stack := fun x hx => by rw [hst2]; exact List.mem_append_right _ hx
  have hsubC : ∀ x ∈ new ++ [v], x ∈ s.stack := fun x hx => by rw [hst2]; exact List.mem_append_left _ hx
  have hvC : v ∈ new ++ [v] := by simp
  have hmemS : ∀ x, x ∈ s.stack ↔ (x ∈ new ++ [v] ∨ x ∈ rest) := by
    intro x; rw [hst2, List.mem_append]
  have hRnot : ∀ x ∈ rest, x ∉ new ++ [v] := fun x hx hc => hdj x hc x hx rfl
  have htop := tj_reach_top h hst hG
  exact {
    ok := h.ok
    trail := by
      intro x
      show x ∈ tr ↔ x ∈ rest
      rw [htr, h.trail, hmemS]
      constructor
      · rintro ⟨h1 | h1, h2, h3⟩
        · exfalso
          rcases List.mem_append.mp h1 with h4 | h4
          · exact h2 h4
          · rw [List.mem_singleton] at h4; exact h3 h4
        · exact h1
      · intro h1
        have := hRnot x h1
        rw [List.mem_append, List.mem_singleton] at this
        exact ⟨Or.inr h1, fun c => this (Or.inl c), fun c => this (Or.inr c)⟩
    visd := by
      intro x
      show s.vis x ↔ (x ∈ rest ∨ x ∈ (s.out ++ [new ++ [v]]).flatten)
      rw [h.visd x, hmemS]
      simp only [List.flatten_append, List.flatten_cons, List.flatten_nil, List.append_nil,
        List.mem_append]
      tauto
    disj := by
      intro x hx
      show x ∉ (s.out ++ [new ++ [v]]).flatten
      simp only [List.flatten_append, List.flatten_cons, List.flatten_nil, List.append_nil]
      intro hc
      rcases List.mem_append.mp hc with hc | hc
      · exact h.disj x (hsubR x hx) hc
      · exact hRnot x hx hc
    ondup := by
      show (s.out ++ [new ++ [v]]).flatten.Nodup
      simp only [List.flatten_append, List.flatten_cons, List.flatten_nil, List.append_nil]
      refine List.nodup_append.mpr ⟨h.ondup, hndC, ?_⟩
      intro a ha b hb e
      subst e
      exact h.disj a (hsubC a hb) ha
    nonempty := by
      intro cc hcc
      rcases List.mem_append.mp hcc with hcc | hcc
      · exact h.nonempty cc hcc
      · rw [List.mem_singleton] at hcc; subst hcc; simp
    sorted := (List.pairwise_append.mp hsorted).2.1
    num_le := fun x hx => h.num_le x (hsubR x hx)
    lv_le := fun x hx => h.lv_le x (hsubR x hx)
    low := by
      intro x hx
      obtain ⟨y, hy, h1, h2⟩ := h.low x (hsubR x hx)
      refine ⟨y, ?_, h1, h2⟩
      rcases (hmemS y).mp hy with hc | hc
      · exfalso
        have h3 := habove y hc x hx
        have h4 := h.lv_le x (hsubR x hx)
        omega
      · exact hc
    gsub := hG
    gray := by
      intro x hx
      obtain ⟨g, hg, h1, h2⟩ := h.gray x (hsubR x hx)
      rcases List.mem_cons.mp hg with e | hg
      · subst e
        have := habove g hvC x hx
        omega
      · exact ⟨g, hg, h1, h2⟩
    chain := fun g hg g' hg' => h.chain g (List.mem_cons_of_mem _ hg) g' (List.mem_cons_of_mem _ hg')
    nbw := by
      intro x hx hxG y hy
      by_cases e : x = v
      · subst e; exact hsv y hy
      · exact h.nbw x hx (by simp [e, hxG]) y hy
    conn := by
      intro cc hcc a ha b hb
      rcases List.mem_append.mp hcc with hcc | hcc
      · exact h.conn cc hcc a ha b hb
      · rw [List.mem_singleton] at hcc; subst hcc
        refine (htop a ha).trans ?_
        rcases List.mem_append.mp hb with hb | hb
        · exact hreach b hb
        · rw [List.mem_singleton] at hb; subst hb; exact Relation.ReflTransGen.refl
    topo := by
      intro p N hp a ha b hb
      show ∃ (q : Nat) (M : List ι), q ≤ p ∧ (s.out ++ [new ++ [v]])[q]? = some M ∧ b ∈ M
      have hp' : (s.out ++ [new ++ [v]])[p]? = some N := hp
      by_cases hlt : p < s.out.length
      · rw [List.getElem?_append_left hlt] at hp'
        obtain ⟨q, M, hq, hM, hbM⟩ := h.topo p N hp' a ha b hb
        refine ⟨q, M, hq, ?_, hbM⟩
        rw [List.getElem?_append_left (by omega)]; exact hM
      · have hge : s.out.length ≤ p := by omega
        rw [List.getElem?_append_right hge] at hp'
        have hN : N = new ++ [v] := by
          cases hk : p - s.out.length with
          | zero => rw [hk] at hp'; simpa using hp'.symm
          | succ k => rw [hk] at hp'; simp at hp'
        have hplen : p = s.out.length := by
          cases hk : p - s.out.length with
          | zero => omega
          | succ k => rw [hk] at hp'; simp at hp'
        subst hN
        have hbv : s.vis b := by
          by_cases e : a = v
          · subst e; exact hsv b hb
          · refine h.nbw a ((h.visd a).mpr (Or.inl (hsubC a ha))) ?_ b hb
            intro hc
            rcases List.mem_cons.mp hc with hc | hc
            · exact e hc
            · exact hRnot a (hG a hc) ha
        rcases (h.visd b).mp hbv with hbs | hbo
        · rcases (hmemS b).mp hbs with hc | hc
          · refine ⟨p, new ++ [v], Nat.le_refl _, hp, hc⟩
          · exact absurd hc (hno a ha b hb)
        · obtain ⟨M, hM, hbM⟩ := List.mem_flatten.mp hbo
          obtain ⟨q, hq⟩ := List.getElem?_of_mem hM
          have hql : q < s.out.length := (List.getElem?_eq_some_iff.mp hq).1
          refine ⟨q, M, by omega, ?_, hbM⟩
          rw [List.getElem?_append_left hql]; exact hq }

/-- **`dfs(v)` meets its specification** when the fuel is at least the number of unvisited nodes -/
theorem tjVisit_spec {succ : ι → List ι} {nodes : List ι}
    (hcl : ∀ a ∈ nodes, ∀ b ∈ succ a, b ∈ nodes) : ∀ n, TjSpec succ nodes (tjVisit succ n) n := by
  intro n
  induction n with
  | zero =>
    intro num G v s hI hw hv hG hwc
    exfalso
    have := tjWc_lt nodes s (tjPushSt v s) (fun x hx => (tjPushSt_vis v s x).mpr (Or.inr hx)) v hv hw
      ((tjPushSt_vis v s v).mpr (Or.inl rfl))
    omega
  | succ n ih =>
    intro num0 G v s hI hw hv hG hwc
    have hvs : v ∉ s.stack := fun hm => ((hI.visd v).mpr (Or.inl hm)) hw
    have hI1 := hI.push v hw hG
    have hL1 : TjLoop succ nodes num0 G v s n ((tjPushSt v s).lv v) [] (tjPushSt v s) := {
      ex := ⟨_, [], hI1, fun x hx => if_neg (fun (e : x = v) => hvs (e ▸ hx)), if_pos rfl, rfl,
        fun a ha => by simp at ha, fun a ha => by simp at ha⟩
      done_le := fun b hb => by simp at hb
      done_vis := fun b hb => by simp at hb
      keep := by
        intro x hx
        have hxv : x ≠ v := fun e => hx (e ▸ hw)
        show tjSet s.lowest v (s.t + 1) x = _
        exact tjSet_ne _ _ _ _ hxv
      tlt := by show s.t < s.t + 1; omega
      reach := by
        intro x hx
        rcases (tjPushSt_vis v s x).mp hx with e | h1
        · right; rw [e]
        · exact Or.inl h1
      wc := by
        have := tjWc_lt nodes s (tjPushSt v s) (fun x hx => (tjPushSt_vis v s x).mpr (Or.inr hx)) v hv hw
          ((tjPushSt_vis v s v).mpr (Or.inl rfl))
        omega }
    have hL2 := tjLoop_foldl hcl (tjVisit succ n) n ih hv hw hG (succ v) [] (tjPushSt v s)
      (fun w h => h) hL1
    rw [tjVisit_succ]
    generalize (succ v).foldl (tjStep (tjVisit succ n) v) (tjPushSt v s) = s2 at hL2
    rw [List.nil_append] at hL2
    obtain ⟨num, new, hI2, hnum, hnv, hst, hedge, hreach⟩ := hL2.ex
    have hvst : v ∈ s2.stack := by rw [hst]; simp
    have hvvis : s2.vis v := (hI2.visd v).mpr (Or.inl hvst)
    obtain ⟨l, hl⟩ := (s2.vis_iff v).mp hvvis
    have hlv := s2.lv_of_some v l hl
    have hle := hI2.lv_le v hvst
    rw [hlv, hnv] at hle
    rw [hlv] at hedge
    have hdone_le := hL2.done_le
    rw [hlv] at hdone_le
    have hvis_mono : ∀ x, s.vis x → s2.vis x := by
      intro x hx
      unfold TjState.vis
      rw [hL2.keep x hx]; exact hx
    by_cases heq : l = s.t + 1
    · -- pop
      have hnd := hI2.stack_nodup
      rw [hst] at hnd
      have hvnew : v ∉ new := fun hm => (List.nodup_append.mp hnd).2.2 v hm v (by simp) rfl
      obtain ⟨tr, hpop, htr⟩ := tjPop_spec v new s.stack hvnew s2.trail []
      have hfin : tjFinish v (s.t + 1) s2
          = { s2 with stack := s.stack, trail := tr, out := s2.out ++ [new ++ [v]] } := by
        unfold tjFinish
        simp [hl, heq, hst, hpop, hI2.ok]
      rw [hfin]
      have hno : ∀ a ∈ new ++ [v], ∀ b ∈ succ a, b ∉ s.stack := by
        intro a ha b hb hbs
        have h1 := hI.num_le b hbs
        rcases List.mem_append.mp ha with ha | ha
        · have := hedge a ha b hb hbs; omega
        · rw [List.mem_singleton] at ha; subst ha
          have := hdone_le b hb hbs; omega
      have hI3 := hI2.pop hst hI.gsub hL2.done_vis hreach hno htr
      exact {
        ex := ⟨num, [], hI3, hnum, rfl, fun a ha => by simp at ha, fun a ha => by simp at ha,
          Or.inr (by
            show s.t < TjState.lv _ v
            have : TjState.lv ({ s2 with stack := s.stack, trail := tr, out := s2.out ++ [new ++ [v]] } : TjState ι) v
                = l := hlv
            rw [this]; omega)⟩
        keep := hL2.keep
        visv := hvvis
        tle := Nat.le_of_lt hL2.tlt
        reach := hL2.reach }
    · -- no pop
      have hfin : tjFinish v (s.t + 1) s2 = s2 := by
        unfold tjFinish
        simp [hl, heq]
      rw [hfin]
      have hI3 := hI2.blacken (by rw [hlv, hnv]; omega) hL2.done_vis
      exact {
        ex := by
          refine ⟨num, new ++ [v], hI3, hnum, by rw [hst]; simp, ?_, ?_, Or.inl (by simp)⟩
          · intro a ha b hb hbs
            rw [hlv]
            rcases List.mem_append.mp ha with ha | ha
            · exact hedge a ha b hb hbs
            · rw [List.mem_singleton] at ha; subst ha
              exact hdone_le b hb hbs
          · intro a ha
            rcases List.mem_append.mp ha with ha | ha
            · exact hreach a ha
            · rw [List.mem_singleton] at ha; subst ha; exact Relation.ReflTransGen.refl
        keep := hL2.keep
        visv := hvvis
        tle := Nat.le_of_lt hL2.tlt
        reach := hL2.reach }

/-! ### the loop over the roots, and the final statement -/

structure TjRootInv (succ : ι → List ι) (done : List ι) (s : TjState ι) : Prop where
  ex : ∃ num : ι → Nat, TjInv succ num [] s
  done_vis : ∀ r ∈ done, s.vis r
  reach : ∀ x, s.vis x → ∃ r ∈ done, tjReach succ r x

theorem tjInit_inv (succ : ι → List ι) : TjInv succ (fun _ => 0) [] (TjState.init : TjState ι) := {
  ok := rfl
  trail := fun x => Iff.rfl
  visd := by intro x; simp [TjState.vis, TjState.init]
  disj := by intro x hx; simp [TjState.init] at hx
  ondup := by simp [TjState.init]
  nonempty := by intro cc hcc; simp [TjState.init] at hcc
  sorted := by simp [TjState.init]
  num_le := by intro x hx; simp [TjState.init] at hx
  lv_le := by intro x hx; simp [TjState.init] at hx
  low := by intro x hx; simp [TjState.init] at hx
  gsub := by intro g hg; simp at hg
  gray := by intro x hx; simp [TjState.init] at hx
  chain := by intro g hg; simp at hg
  nbw := by intro x hx; simp [TjState.vis, TjState.init] at hx
  conn := by intro cc hcc; simp [TjState.init] at hcc
  topo := by intro p N hp; simp [TjState.init] at hp }

theorem tjRoot_inv {succ : ι → List ι} {nodes : List ι}
    (hcl : ∀ a ∈ nodes, ∀ b ∈ succ a, b ∈ nodes) (fuel : Nat) (hfuel : nodes.length ≤ fuel)
    (done : List ι) (s : TjState ι) (v : ι) (hv : v ∈ nodes) (h : TjRootInv succ done s) :
    TjRootInv succ (done ++ [v]) (tjRoot succ fuel s v) := by
  obtain ⟨num, hI⟩ := h.ex
  unfold tjRoot
  cases hl : s.lowest v with
  | none =>
    simp only
    have hwc : tjWc nodes s ≤ fuel := Nat.le_trans (List.countP_le_length) hfuel
    have hP := tjVisit_spec hcl fuel num [] v s hI hl hv (by intro g hg; simp at hg) hwc
    obtain ⟨num', new, hI', _⟩ := hP.ex
    exact {
      ex := ⟨num', hI'⟩
      done_vis := by
        intro r hr
        rcases List.mem_append.mp hr with hr | hr
        · have := h.done_vis r hr
          unfold TjState.vis at this ⊢
          rw [hP.keep r this]; exact this
        · rw [List.mem_singleton] at hr; subst hr; exact hP.visv
      reach := by
        intro x hx
        rcases hP.reach x hx with h1 | h1
        · obtain ⟨r, hr, h2⟩ := h.reach x h1
          exact ⟨r, List.mem_append_left _ hr, h2⟩
        · exact ⟨v, by simp, h1⟩ }
  | some b =>
    simp only
    exact {
      ex := h.ex
      done_vis := by
        intro r hr
        rcases List.mem_append.mp hr with hr | hr
        · exact h.done_vis r hr
        · rw [List.mem_singleton] at hr; subst hr
          unfold TjState.vis; rw [hl]; simp
      reach := by
        intro x hx
        obtain ⟨r, hr, h2⟩ := h.reach x hx
        exact ⟨r, List.mem_append_left _ hr, h2⟩ }

theorem tjRoots_inv {succ : ι → List ι} {nodes : List ι}
    (hcl : ∀ a ∈ nodes, ∀ b ∈ succ a, b ∈ nodes) (fuel : Nat) (hfuel : nodes.length ≤ fuel)
    (roots : List ι) : ∀ (done : List ι) (s : TjState ι), (∀ r ∈ roots, r ∈ nodes) →
      TjRootInv succ done s → TjRootInv succ (done ++ roots) (roots.foldl (tjRoot succ fuel) s) := by
  induction roots with
  | nil => intro done s _ h; simpa using h
  | cons r roots ih =>
    intro done s hr h
    rw [List.foldl_cons]
    have h1 := tjRoot_inv hcl fuel hfuel done s r (hr r (by simp)) h
    have h2 := ih (done ++ [r]) _ (fun x hx => hr x (List.mem_cons_of_mem _ hx)) h1
    simpa using h2

/-- in the emission order, reachability can only go to components emitted no later -/
theorem tj_idx_of_reach {succ : ι → List ι} {bl : List (List ι)}
    (htopo : ∀ (p : Nat) (N : List ι), bl[p]? = some N → ∀ a ∈ N, ∀ b ∈ succ a,
      ∃ (q : Nat) (M : List ι), q ≤ p ∧ bl[q]? = some M ∧ b ∈ M) {u v : ι}
    (huv : tjReach succ u v) : ∀ (p : Nat) (N : List ι), bl[p]? = some N → u ∈ N →
      ∃ (q : Nat) (M : List ι), q ≤ p ∧ bl[q]? = some M ∧ v ∈ M := by
  induction huv with
  | refl => intro p N hp hu; exact ⟨p, N, Nat.le_refl _, hp, hu⟩
  | tail _ hbc ih =>
    intro p N hp hu
    obtain ⟨q, M, hq, hM, hb⟩ := ih p N hp hu
    obtain ⟨q', M', hq', hM', hc⟩ := htopo q M hM _ hb _ hbc
    exact ⟨q', M', by omega, hM', hc⟩

/-- **Correctness of `scc_decomposition`** (property C15).  For every finite graph — `nodes` is any
list closed under `succ` that contains the roots — every order of the successor lists and of the
roots, and fuel at least `nodes.length`, the run does not fail (`ok`: no fuel exhaustion, no
`IndexError`, no `KeyError`), ends with an empty stack, and the emitted list `bl` satisfies:
(a) the components are non-empty, duplicate-free, pairwise disjoint, and cover exactly the nodes
    reachable from the roots;
(b) two covered nodes lie in the same component iff each reaches the other;
(c) reverse topological order w.r.t. `succ`: an edge `u → v` (`v ∈ succ u`) from component number `p`
    to component number `q` has `q ≤ p` (a component is emitted after every component it reaches). -/
theorem tarjan_correct (succ : ι → List ι) (nodes roots : List ι) (hroots : ∀ r ∈ roots, r ∈ nodes)
    (hcl : ∀ a ∈ nodes, ∀ b ∈ succ a, b ∈ nodes) (fuel : Nat) (hfuel : nodes.length ≤ fuel) :
    (tjRun succ roots fuel).ok = true ∧ (tjRun succ roots fuel).stack = [] ∧
    (tarjan succ roots fuel).flatten.Nodup ∧ (∀ N ∈ tarjan succ roots fuel, N ≠ []) ∧
    (∀ x, x ∈ (tarjan succ roots fuel).flatten ↔ ∃ r ∈ roots, tjReach succ r x) ∧
    (∀ u ∈ (tarjan succ roots fuel).flatten, ∀ v ∈ (tarjan succ roots fuel).flatten,
      (∃ N ∈ tarjan succ roots fuel, u ∈ N ∧ v ∈ N) ↔ (tjReach succ u v ∧ tjReach succ v u)) ∧
    (∀ (p q : Nat) (N M : List ι), (tarjan succ roots fuel)[p]? = some N →
      (tarjan succ roots fuel)[q]? = some M → ∀ u ∈ N, ∀ v ∈ M, v ∈ succ u → q ≤ p) := by
  have hR := tjRoots_inv hcl fuel hfuel roots [] TjState.init hroots
    { ex := ⟨_, tjInit_inv succ⟩
      done_vis := by intro r hr; simp at hr
      reach := by intro x hx; simp [TjState.vis, TjState.init] at hx }
  rw [List.nil_append] at hR
  change TjRootInv succ roots (tjRun succ roots fuel) at hR
  unfold tarjan
  generalize tjRun succ roots fuel = s at hR
  obtain ⟨num, hI⟩ := hR.ex
  have hstack : s.stack = [] := by
    cases hs : s.stack with
    | nil => rfl
    | cons x t =>
      obtain ⟨g, hg, _⟩ := hI.gray x (by rw [hs]; simp)
      simp at hg
  have hvis : ∀ x, s.vis x ↔ x ∈ s.out.flatten := by
    intro x; rw [hI.visd x, hstack]; simp
  have hclv : ∀ a b, tjReach succ a b → s.vis a → s.vis b := by
    intro a b hab
    induction hab with
    | refl => exact id
    | tail _ hbc ih => intro ha; exact hI.nbw _ (ih ha) (by simp) _ hbc
  have hidx : ∀ u ∈ s.out.flatten, ∃ (p : Nat) (N : List ι), s.out[p]? = some N ∧ u ∈ N := by
    intro u hu
    obtain ⟨N, hN, huN⟩ := List.mem_flatten.mp hu
    obtain ⟨p, hp⟩ := List.getElem?_of_mem hN
    exact ⟨p, N, hp, huN⟩
  refine ⟨hI.ok, hstack, hI.ondup, hI.nonempty, ?_, ?_, ?_⟩
  · intro x
    rw [← hvis]
    constructor
    · exact hR.reach x
    · rintro ⟨r, hr, hrx⟩
      exact hclv r x hrx (hR.done_vis r hr)
  · intro u hu v hv
    constructor
    · rintro ⟨N, hN, huN, hvN⟩
      exact ⟨hI.conn N hN u huN v hvN, hI.conn N hN v hvN u huN⟩
    · rintro ⟨huv, hvu⟩
      obtain ⟨p, N, hp, huN⟩ := hidx u hu
      obtain ⟨q, M, hq, hM, hvM⟩ := tj_idx_of_reach hI.topo huv p N hp huN
      obtain ⟨p', N', hp', hN', huN'⟩ := tj_idx_of_reach hI.topo hvu q M hM hvM
      have e1 := blockIdx_of_getElem s.out hI.ondup p N u hp huN
      have e2 := blockIdx_of_getElem s.out hI.ondup p' N' u hN' huN'
      have e3 : q = p := by omega
      subst e3
      rw [hp] at hM
      have : N = M := Option.some.inj hM
      subst this
      exact ⟨N, List.mem_of_getElem? hp, huN, hvM⟩
  · intro p q N M hp hq u hu v hv huv
    obtain ⟨q', M', hq', hM', hvM'⟩ := hI.topo p N hp u hu v huv
    have e1 := blockIdx_of_getElem s.out hI.ondup q M v hq hv
    have e2 := blockIdx_of_getElem s.out hI.ondup q' M' v hM' hvM'
    omega

/-! ### the callers: `WeightedGraph.blocks` -/

/-- reachability along `incoming` is reachability along the arcs, backwards -/
theorem tjReach_incoming {K : Type} (g : WGraph ι K) (a b : ι) :
    tjReach g.incoming a b ↔ Relation.ReflTransGen (arcRel g.arcs) b a := by
  rw [← Relation.reflTransGen_swap]
  constructor
  · intro h
    refine Relation.ReflTransGen.mono ?_ _ _ h
    intro x y hxy
    exact (mem_incoming g y x).mp hxy
  · intro h
    refine Relation.ReflTransGen.mono ?_ _ _ h
    intro x y hxy
    exact (mem_incoming g y x).mpr hxy

/-- **(d)** `WeightedGraph.blocks` (Tarjan on the reversed graph `incoming`, rooted at every node of
`N`, emission order kept) is the decomposition into strongly connected components, *sources first*
w.r.t. the arcs `(i, j)` of `E` — exactly what the solvers assume.  Hypothesis: the representation
invariant of `WeightedGraph` (`__setitem__` adds both endpoints to `N`). -/
theorem tarjanBlocks_isSccDecomp {K : Type} (g : WGraph ι K)
    (hE : ∀ e ∈ g.edges, e.1.1 ∈ g.nodes ∧ e.1.2 ∈ g.nodes) :
    IsSccDecomp g.nodes g.arcs g.tarjanBlocks := by
  have harc : ∀ p ∈ g.arcs, p.1 ∈ g.nodes ∧ p.2 ∈ g.nodes := by
    intro p hp
    obtain ⟨e, he, rfl⟩ := (mem_arcs g p).mp hp
    exact hE e he
  have hcl : ∀ a ∈ g.nodes, ∀ b ∈ g.incoming a, b ∈ g.nodes := by
    intro a _ b hb
    exact (harc (b, a) ((mem_incoming g b a).mp hb)).1
  obtain ⟨_, _, hnd, hne, hcov, hscc, htopo⟩ :=
    tarjan_correct g.incoming g.nodes g.nodes (fun r hr => hr) hcl g.nodes.length (Nat.le_refl _)
  have hcover : ∀ u, u ∈ g.nodes ↔ u ∈ g.tarjanBlocks.flatten := by
    intro u
    unfold WGraph.tarjanBlocks
    rw [hcov]
    constructor
    · intro hu; exact ⟨u, hu, Relation.ReflTransGen.refl⟩
    · rintro ⟨r, hr, hru⟩
      induction hru with
      | refl => exact hr
      | tail _ hbc ih => exact hcl _ ih _ hbc
  exact {
    nodup := hnd
    nonempty := hne
    cover := hcover
    closed := harc
    scc := by
      intro u hu v hv
      have := hscc u ((hcover u).mp hu) v ((hcover v).mp hv)
      unfold WGraph.tarjanBlocks
      rw [this, tjReach_incoming, tjReach_incoming]
      exact And.comm
    topo := by
      intro p q N M hp hq u hu v hv huv
      exact htopo q p M N hq hp v hv u hu ((mem_incoming g u v).mpr huv) }

/-- **(d)** the verified checker accepts the output of the model of `WeightedGraph.blocks` -/
theorem tarjanBlocks_sccCheck {K : Type} (g : WGraph ι K)
    (hE : ∀ e ∈ g.edges, e.1.1 ∈ g.nodes ∧ e.1.2 ∈ g.nodes) :
    sccCheck g g.arcs g.tarjanBlocks = true :=
  (sccCheck_iff g g.arcs g.tarjanBlocks).mpr (tarjanBlocks_isSccDecomp g hE)

/-! ### `frozenset(C)`: the order inside a component is irrelevant -/

theorem tj_forall₂_perm_get {bl bl' : List (List ι)} (hp : List.Forall₂ List.Perm bl bl') :
    ∀ (p : Nat) (N' : List ι), bl'[p]? = some N' → ∃ N, bl[p]? = some N ∧ N.Perm N' := by
  induction hp with
  | nil => intro p N' h; simp at h
  | cons hab _ ih =>
    intro p N' h
    cases p with
    | zero =>
      rw [List.getElem?_cons_zero] at h
      exact ⟨_, List.getElem?_cons_zero, (Option.some.inj h) ▸ hab⟩
    | succ p =>
      rw [List.getElem?_cons_succ] at h ⊢
      exact ih p N' h

theorem tj_forall₂_perm_flatten {bl bl' : List (List ι)} (hp : List.Forall₂ List.Perm bl bl') :
    bl.flatten.Perm bl'.flatten := by
  induction hp with
  | nil => exact List.Perm.refl _
  | cons hab _ ih =>
    rw [List.flatten_cons, List.flatten_cons]
    exact hab.append ih

theorem tj_forall₂_perm_symm {bl bl' : List (List ι)} (hp : List.Forall₂ List.Perm bl bl') :
    List.Forall₂ List.Perm bl' bl := by
  induction hp with
  | nil => exact List.Forall₂.nil
  | cons hab _ ih => exact List.Forall₂.cons hab.symm ih

theorem tj_forall₂_perm_mem {bl bl' : List (List ι)} (hp : List.Forall₂ List.Perm bl bl') :
    ∀ N' ∈ bl', ∃ N ∈ bl, N.Perm N' := by
  intro N' hN'
  obtain ⟨p, hp'⟩ := List.getElem?_of_mem hN'
  obtain ⟨N, hN, hperm⟩ := tj_forall₂_perm_get hp p N' hp'
  exact ⟨N, List.mem_of_getElem? hN, hperm⟩

/-- the specification does not depend on the order of the nodes inside each block -/
theorem IsSccDecomp.of_perm {nodes : List ι} {arcs : List (ι × ι)} {bl bl' : List (List ι)}
    (hp : List.Forall₂ List.Perm bl bl') (h : IsSccDecomp nodes arcs bl) :
    IsSccDecomp nodes arcs bl' := by
  have hfl := tj_forall₂_perm_flatten hp
  have hps := tj_forall₂_perm_symm hp
  exact {
    nodup := hfl.nodup_iff.mp h.nodup
    nonempty := by
      intro N' hN' e
      obtain ⟨N, hN, hperm⟩ := tj_forall₂_perm_mem hp N' hN'
      subst e
      exact h.nonempty N hN hperm.eq_nil
    cover := fun u => (h.cover u).trans hfl.mem_iff
    closed := h.closed
    scc := by
      intro u hu v hv
      rw [← h.scc u hu v hv]
      constructor
      · rintro ⟨N', hN', h1, h2⟩
        obtain ⟨N, hN, hperm⟩ := tj_forall₂_perm_mem hp N' hN'
        exact ⟨N, hN, hperm.mem_iff.mpr h1, hperm.mem_iff.mpr h2⟩
      · rintro ⟨N, hN, h1, h2⟩
        obtain ⟨N', hN', hperm⟩ := tj_forall₂_perm_mem hps N hN
        exact ⟨N', hN', hperm.mem_iff.mpr h1, hperm.mem_iff.mpr h2⟩
    topo := by
      intro p q N' M' hp' hq' u hu v hv huv
      obtain ⟨N, hN, hpN⟩ := tj_forall₂_perm_get hp p N' hp'
      obtain ⟨M, hM, hpM⟩ := tj_forall₂_perm_get hp q M' hq'
      exact h.topo p q N M hN hM u (hpN.mem_iff.mpr hu) v (hpM.mem_iff.mpr hv) huv }

/-- **(d), with `frozenset`**: the checker accepts `WeightedGraph.blocks` whatever order the nodes of each
emitted `frozenset(C)` are later iterated in -/
theorem tarjanBlocks_sccCheck_perm {K : Type} (g : WGraph ι K)
    (hE : ∀ e ∈ g.edges, e.1.1 ∈ g.nodes ∧ e.1.2 ∈ g.nodes) (bl' : List (List ι))
    (hp : List.Forall₂ List.Perm g.tarjanBlocks bl') : sccCheck g g.arcs bl' = true :=
  (sccCheck_iff g g.arcs bl').mpr ((tarjanBlocks_isSccDecomp g hE).of_perm hp)

end Tj

/-! ### non-vacuity: concrete runs, evaluated by `decide` -/
section Examples

/-- a graph with unit weights; the DFS of `blocks` follows `incoming`, i.e. the arcs backwards -/
private def tjG (nodes : List Nat) (arcs : List (Nat × Nat)) : WGraph Nat Nat :=
  ⟨nodes, arcs.map fun e => (e, 1)⟩

/-- the 3-cycle with a chord `0→2→1→0, 1→2` -/
private def tjArcsA : List (Nat × Nat) := [(0, 2), (2, 1), (1, 0), (1, 2)]

/-- the hypotheses of `tarjanBlocks_sccCheck` / `tarjan_correct` are satisfiable -/
example : ∀ e ∈ (tjG [0, 1, 2] tjArcsA).edges, e.1.1 ∈ (tjG [0, 1, 2] tjArcsA).nodes ∧
    e.1.2 ∈ (tjG [0, 1, 2] tjArcsA).nodes := by decide

/-- all 6 orders of the roots (one component, whatever the order) … -/
example : (tjG [0, 1, 2] tjArcsA).tarjanBlocks = [[2, 1, 0]] := by decide
example : (tjG [0, 2, 1] tjArcsA).tarjanBlocks = [[2, 1, 0]] := by decide
example : (tjG [1, 0, 2] tjArcsA).tarjanBlocks = [[0, 2, 1]] := by decide
example : (tjG [1, 2, 0] tjArcsA).tarjanBlocks = [[0, 2, 1]] := by decide
example : (tjG [2, 0, 1] tjArcsA).tarjanBlocks = [[1, 0, 2]] := by decide
example : (tjG [2, 1, 0] tjArcsA).tarjanBlocks = [[1, 0, 2]] := by decide
example : ∀ ns ∈ [[0, 1, 2], [0, 2, 1], [1, 0, 2], [1, 2, 0], [2, 0, 1], [2, 1, 0]],
    sccCheck (tjG ns tjArcsA) (tjG ns tjArcsA).arcs (tjG ns tjArcsA).tarjanBlocks = true := by decide
/-- … and another order of the successor sets -/
example : ∀ ns ∈ [[0, 1, 2], [0, 2, 1], [1, 0, 2], [1, 2, 0], [2, 0, 1], [2, 1, 0]],
    sccCheck (tjG ns tjArcsA.reverse) (tjG ns tjArcsA.reverse).arcs
      (tjG ns tjArcsA.reverse).tarjanBlocks = true := by decide

/-- a chain of two 2-cycles `0 ⇄ 1 → 2 ⇄ 3`: sources first, for several root orders -/
private def tjArcsB : List (Nat × Nat) := [(0, 1), (1, 0), (1, 2), (2, 3), (3, 2)]
example : (tjG [0, 1, 2, 3] tjArcsB).tarjanBlocks = [[1, 0], [3, 2]] := by decide
example : (tjG [3, 2, 1, 0] tjArcsB).tarjanBlocks = [[0, 1], [2, 3]] := by decide
example : (tjG [2, 0, 3, 1] tjArcsB).tarjanBlocks = [[0, 1], [3, 2]] := by decide
example : ∀ ns ∈ [[0, 1, 2, 3], [3, 2, 1, 0], [2, 0, 3, 1], [1, 3, 0, 2]],
    sccCheck (tjG ns tjArcsB) (tjG ns tjArcsB).arcs (tjG ns tjArcsB).tarjanBlocks = true := by decide

/-- isolated nodes and self loops -/
example : (tjG [5, 7, 6] []).tarjanBlocks = [[5], [7], [6]] := by decide
example : sccCheck (tjG [5, 7, 6] []) (tjG [5, 7, 6] []).arcs (tjG [5, 7, 6] []).tarjanBlocks = true := by
  decide
example : (tjG [0, 1, 2] [(0, 0), (1, 1), (1, 2)]).tarjanBlocks = [[0], [1], [2]] := by decide
example : (tjG [2, 1, 0] [(0, 0), (1, 1), (1, 2)]).tarjanBlocks = [[1], [2], [0]] := by decide
example : sccCheck (tjG [2, 1, 0] [(0, 0), (1, 1), (1, 2)]) (tjG [2, 1, 0] [(0, 0), (1, 1), (1, 2)]).arcs
    (tjG [2, 1, 0] [(0, 0), (1, 1), (1, 2)]).tarjanBlocks = true := by decide

/-- the generic function on a successor function: roots need not cover the graph; the fuel bound is
sharp enough to matter (`ok` is cleared when it is too small) -/
private def tjSuccC : Nat → List Nat
  | 0 => [2] | 1 => [0, 2] | 2 => [1] | 3 => [0, 4] | 4 => [] | _ => []
example : tarjan tjSuccC [1] 5 = [[2, 0, 1]] := by decide
example : tarjan tjSuccC [3, 1] 5 = [[1, 2, 0], [4], [3]] := by decide
example : (tjRun tjSuccC [3, 1] 5).ok = true := by decide
example : (tjRun tjSuccC [0] 2).ok = false := by decide

/-! ### the theorem has teeth: minimal wrong variants are rejected

`tjVisitM m` is `tjVisit` with one deviation selected by `m`:
* `m = 1`: back-edge branch `lowest[v] = min(num, lowest[w])` (forgets the value already propagated);
* `m = 2`: `trail.remove(v)` when `dfs(v)` returns, whether or not `v` was popped (trail = gray nodes);
* `m = 3`: no `w in trail` test (every visited successor is treated as a back edge);
* `m = 4`: no `lowest[v] = min(lowest[v], lowest[w])` after the recursive call;
* `m = 0`: no deviation.
Since `sccCheck` is *exact* (`sccCheck_iff`), a rejected output is not an SCC decomposition, so each
variant violates the conclusion of `tarjanBlocks_isSccDecomp`. -/

private def tjMinNum (s : TjState Nat) (v w : Nat) (num : Nat) : TjState Nat :=
  match s.lowest w with
  | some b => { s with lowest := tjSet s.lowest v (min num b) }
  | none => { s with ok := false }

private def tjStepM (m : Nat) (rec : Nat → TjState Nat → TjState Nat) (v num : Nat) (s : TjState Nat)
    (w : Nat) : TjState Nat :=
  match s.lowest w with
  | none => if m = 4 then rec w s else tjMin (rec w s) v w
  | some _ =>
    if m = 3 ∨ w ∈ s.trail then (if m = 1 then tjMinNum s v w num else tjMin s v w) else s

private def tjVisitM (m : Nat) (succ : Nat → List Nat) : Nat → Nat → TjState Nat → TjState Nat
  | 0, _, s => { s with ok := false }
  | n+1, v, s =>
    let num := s.t + 1
    let s1 : TjState Nat :=
      { s with t := num, lowest := tjSet s.lowest v num, trail := v :: s.trail, stack := v :: s.stack }
    let s3 := tjFinish v num ((succ v).foldl (tjStepM m (tjVisitM m succ n) v num) s1)
    if m = 2 then { s3 with trail := s3.trail.filter (fun u => !decide (u = v)) } else s3

private def tjBlocksM (m : Nat) (g : WGraph Nat Nat) : List (List Nat) :=
  (g.nodes.foldl (fun s v => match s.lowest v with
    | none => tjVisitM m g.incoming g.nodes.length v s
    | some _ => s) TjState.init).out

/-- DFS edges `0→1, 1→2, 2→0, 2→1` (arcs reversed): `m = 1` splits the component `{0,1,2}` -/
private def tjGM1 : WGraph Nat Nat := tjG [0, 1, 2] [(1, 0), (2, 1), (0, 2), (1, 2)]
example : tjBlocksM 0 tjGM1 = tjGM1.tarjanBlocks := by decide
example : sccCheck tjGM1 tjGM1.arcs (tjBlocksM 0 tjGM1) = true := by decide
example : tjBlocksM 1 tjGM1 = [[2, 1], [0]] := by decide
example : sccCheck tjGM1 tjGM1.arcs (tjBlocksM 1 tjGM1) = false := by decide
/-- `m = 4` on the same graph -/
example : sccCheck tjGM1 tjGM1.arcs (tjBlocksM 4 tjGM1) = false := by decide

/-- DFS edges `0→1, 1→0, 0→2, 2→1`: `m = 2` misses the edge into the black stack node `1` -/
private def tjGM2 : WGraph Nat Nat := tjG [0, 1, 2] [(1, 0), (0, 1), (2, 0), (1, 2)]
example : sccCheck tjGM2 tjGM2.arcs (tjBlocksM 0 tjGM2) = true := by decide
example : tjBlocksM 2 tjGM2 = [[2], [1, 0]] := by decide
example : sccCheck tjGM2 tjGM2.arcs (tjBlocksM 2 tjGM2) = false := by decide

/-- DFS edges `0→1, 0→2, 2→1`: `m = 3` merges `{0}` and `{2}` through the emitted component `{1}` -/
private def tjGM3 : WGraph Nat Nat := tjG [0, 1, 2] [(1, 0), (2, 0), (1, 2)]
example : sccCheck tjGM3 tjGM3.arcs (tjBlocksM 0 tjGM3) = true := by decide
example : tjBlocksM 3 tjGM3 = [[1], [2, 0]] := by decide
example : sccCheck tjGM3 tjGM3.arcs (tjBlocksM 3 tjGM3) = false := by decide

/-- a caller that searched `outgoing` instead of `incoming` (or reversed the list) would present the
components sinks first, which the solvers do not accept -/
example : sccCheck (tjG [0, 1, 2, 3] tjArcsB) (tjG [0, 1, 2, 3] tjArcsB).arcs
    (tarjan (tjG [0, 1, 2, 3] tjArcsB).outgoing [0, 1, 2, 3] 4) = false := by decide

end Examples
end Genlm
