import GenlmModel.Proofs.CfgBytes
import GenlmModel.Proofs.LimWfsa
import GenlmModel.Proofs.LimPrefix

/-! # Byte conversion at the limit (property C17, gap B of task E7)

The graded theorems `toBytes_Pk`, `toBytes_Pk_not_encoding` (`Proofs/Wfsa2.lean`, `WFSA.to_bytes`) and `cfgToBytes_WN`
(`Proofs/CfgBytes.lean`, `CFG.to_bytes`), lifted to the limits `PL` (sum over ALL accepting paths) and `WL` (sum over
ALL derivation trees) over `ℝ≥0∞`.

Automata (`A` without ε arcs, pairwise distinct `(source, label, target)`, no empty code word — the hypotheses of the
graded theorem; `DistinctArcs` always holds for a Python machine, whose arcs live in a dictionary):
* `toBytes_PL` — `PL (toBytes A) bs = Σ_{x ∈ decs bs} PL A x` (the finite list of decodings);
* `toBytes_PL_tsum` — the same as a sum over ALL symbol strings: `∑' x, if utf8(x) = bs then PL A x else 0`;
* `toBytes_PL_not_encoding` (`0` on byte strings that are not encodings), `toBytes_PL_unique`, `toBytes_PL_encode`,
  `toBytes_PL_prefixFree` (uniquely decodable / prefix-free encoders such as UTF-8: `PL (toBytes A) (utf8 x) = PL A x`).

Grammars (`BytesOk`: no empty code word, no nonterminal is a byte), ANY grammar — cyclic nullable / unary parts and
divergence included — any symbol `X`:
* `cfgToBytes_WL`, `cfgToBytes_WL_tsum`, `cfgToBytes_WL_not_encoding`, `cfgToBytes_WL_unique`, `cfgToBytes_WL_encode`,
  `cfgToBytes_WL_prefixFree`.
Helper lemmas carry the tag `E7B`. -/
namespace Genlm
set_option linter.unusedSectionVars false
open scoped ENNReal
open WfsaAux UnfoldAux Wfsa2Bytes Misc2Aux LimAux

/-- a finite sum over a duplicate-free list covering the support is the sum over everything -/
theorem listSum_eq_tsum_E7B {α : Type} [DecidableEq α] (L : List α) (hL : L.Nodup) (F : α → ℝ≥0∞)
    (h : ∀ a, a ∉ L → F a = 0) : (L.map F).sum = ∑' a, F a := by
  rw [tsum_eq_sum (s := L.toFinset) (fun a ha => h a (by simpa using ha)), List.sum_toFinset F hL]

/-! ### `WFSA.to_bytes` at the limit -/
section Wfsa
variable {ι σ β : Type} [DecidableEq ι] [DecidableEq σ] [DecidableEq β]

/-- **C17 at the limit, automata**: the byte machine gives every byte string the total weight (sum over all
accepting paths) of its decodings -/
theorem toBytes_PL (enc : σ → List β) (A : WFSA ι σ ℝ≥0∞) (hA : A.EpsFree) (hD : DistinctArcs A)
    (hE : ∀ a ∈ A.labels, enc a ≠ []) (bs : List β) :
    PL (A.toBytes enc) bs = ((decs enc A.labels bs.length bs).map fun x => PL A x).sum := by
  rw [PL_epsfree _ (toBytes_epsFree enc A hA), toBytes_Pk enc A hA hD hE]
  apply congrArg
  apply List.map_congr_left
  intro x _
  rw [PL_epsfree A hA]

/-- a string with a symbol that is not a label has no accepting path -/
theorem PL_eq_zero_of_not_labels_E7B (A : WFSA ι σ ℝ≥0∞) (hA : A.EpsFree) (x : List σ)
    (hx : ∃ a ∈ x, a ∉ A.labels) : PL A x = 0 := by
  rw [PL_epsfree A hA, Pk_eq_zero_of_not_labels A hA x hx]

/-- **… as a sum over ALL symbol strings**: `PL (toBytes A) bs = Σ_{x : utf8(x) = bs} PL A x` -/
theorem toBytes_PL_tsum (enc : σ → List β) (A : WFSA ι σ ℝ≥0∞) (hA : A.EpsFree) (hD : DistinctArcs A)
    (hE : ∀ a ∈ A.labels, enc a ≠ []) (bs : List β) :
    PL (A.toBytes enc) bs = ∑' x : List σ, if x.flatMap enc = bs then PL A x else 0 := by
  rw [toBytes_PL enc A hA hD hE,
    ← listSum_eq_tsum_E7B (decs enc A.labels bs.length bs) (nodup_decs enc A.labels (nodup_labels A) _ _)
      (fun x => if x.flatMap enc = bs then PL A x else 0)]
  · apply congrArg
    apply List.map_congr_left
    intro x hx
    rw [if_pos ((mem_decs enc A.labels hE bs.length bs x (Nat.le_refl _)).mp hx).2]
  · intro x hx
    by_cases hb : x.flatMap enc = bs
    · rw [if_pos hb]
      apply PL_eq_zero_of_not_labels_E7B A hA
      by_contra hall
      push Not at hall
      exact hx ((mem_decs enc A.labels hE bs.length bs x (Nat.le_refl _)).mpr ⟨hall, hb⟩)
    · rw [if_neg hb]

/-- a byte string that is not an encoding weighs `0` -/
theorem toBytes_PL_not_encoding (enc : σ → List β) (A : WFSA ι σ ℝ≥0∞) (hA : A.EpsFree)
    (hD : DistinctArcs A) (hE : ∀ a ∈ A.labels, enc a ≠ []) (bs : List β)
    (h : ∀ x : List σ, (∀ a ∈ x, a ∈ A.labels) → x.flatMap enc ≠ bs) :
    PL (A.toBytes enc) bs = 0 := by
  rw [PL_epsfree _ (toBytes_epsFree enc A hA), toBytes_Pk_not_encoding enc A hA hD hE bs h]

/-- a byte string with a single decoding weighs what its decoding weighs -/
theorem toBytes_PL_unique (enc : σ → List β) (A : WFSA ι σ ℝ≥0∞) (hA : A.EpsFree)
    (hD : DistinctArcs A) (hE : ∀ a ∈ A.labels, enc a ≠ []) (x : List σ)
    (hx : ∀ a ∈ x, a ∈ A.labels)
    (hU : ∀ x' : List σ, (∀ a ∈ x', a ∈ A.labels) → x'.flatMap enc = x.flatMap enc → x' = x) :
    PL (A.toBytes enc) (x.flatMap enc) = PL A x := by
  rw [PL_epsfree _ (toBytes_epsFree enc A hA), toBytes_Pk_unique enc A hA hD hE x hx hU, PL_epsfree A hA]

/-- with a uniquely decodable encoder (UTF-8) the byte machine gives the encoding of ANY string `x` the weight `A`
gives `x` -/
theorem toBytes_PL_encode (enc : σ → List β) (A : WFSA ι σ ℝ≥0∞) (hA : A.EpsFree)
    (hD : DistinctArcs A) (hU : ∀ x x' : List σ, x.flatMap enc = x'.flatMap enc → x = x')
    (x : List σ) : PL (A.toBytes enc) (x.flatMap enc) = PL A x := by
  rw [PL_epsfree _ (toBytes_epsFree enc A hA), toBytes_Pk_encode enc A hA hD hU x, PL_epsfree A hA]

theorem toBytes_PL_prefixFree (enc : σ → List β) (A : WFSA ι σ ℝ≥0∞) (hA : A.EpsFree)
    (hD : DistinctArcs A) (hP : PrefixFree enc) (hE : ∀ a, enc a ≠ []) (x : List σ) :
    PL (A.toBytes enc) (x.flatMap enc) = PL A x :=
  toBytes_PL_encode enc A hA hD (flatMap_injective_of_prefixFree enc hP hE) x

end Wfsa

/-! ### `CFG.to_bytes` at the limit -/
section Cfg
variable {σ : Type} [DecidableEq σ] [DecidableEq ℝ≥0∞]

/-- **C17 at the limit, grammars**: the byte grammar gives every byte string the total weight (sum over ALL
derivation trees) of its decodings — for every symbol `X`, every grammar -/
theorem cfgToBytes_WL (enc : σ → List σ) (G : CFG σ ℝ≥0∞) (hG : BytesOk enc G) (X : σ) (bs : List σ) :
    WL (cfgToBytes enc G) X bs = ((decs enc G.V.eraseDups bs.length bs).map fun x => WL G X x).sum := by
  unfold WL
  rw [listSum_iSup_of_monotone _ (fun x n => WN G n X x) (fun x => WN_monotone G X x)]
  exact iSup_congr fun n => cfgToBytes_WN enc G hG n X bs

/-- **… as a sum over ALL symbol strings**: `WL (to_bytes G) X bs = Σ_{x : utf8(x) = bs} WL G X x` -/
theorem cfgToBytes_WL_tsum (enc : σ → List σ) (G : CFG σ ℝ≥0∞) (hG : BytesOk enc G) (X : σ) (bs : List σ) :
    WL (cfgToBytes enc G) X bs = ∑' x : List σ, if x.flatMap enc = bs then WL G X x else 0 := by
  have hD := decList_decs enc G.V hG.1
  rw [cfgToBytes_WL enc G hG,
    ← listSum_eq_tsum_E7B (decs enc G.V.eraseDups bs.length bs) (hD.nodup bs)
      (fun x => if x.flatMap enc = bs then WL G X x else 0)]
  · apply congrArg
    apply List.map_congr_left
    intro x hx
    rw [if_pos ((hD.mem bs x).mp hx).2]
  · intro x hx
    by_cases hb : x.flatMap enc = bs
    · rw [if_pos hb]
      apply WL_eq_zero_of_not_over
      by_contra hall
      push Not at hall
      exact hx ((hD.mem bs x).mpr ⟨hall, hb⟩)
    · rw [if_neg hb]

/-- a byte string that is not the encoding of a terminal string weighs `0` -/
theorem cfgToBytes_WL_not_encoding (enc : σ → List σ) (G : CFG σ ℝ≥0∞) (hG : BytesOk enc G) (X : σ)
    (bs : List σ) (h : ∀ x : List σ, (∀ a ∈ x, a ∈ G.V) → x.flatMap enc ≠ bs) :
    WL (cfgToBytes enc G) X bs = 0 := by
  unfold WL
  simp [cfgToBytes_WN_not_encoding enc G hG _ X bs h]

/-- a byte string with a single decoding weighs what its decoding weighs -/
theorem cfgToBytes_WL_unique (enc : σ → List σ) (G : CFG σ ℝ≥0∞) (hG : BytesOk enc G) (X : σ) (x : List σ)
    (hx : ∀ a ∈ x, a ∈ G.V)
    (hU : ∀ x' : List σ, (∀ a ∈ x', a ∈ G.V) → x'.flatMap enc = x.flatMap enc → x' = x) :
    WL (cfgToBytes enc G) X (x.flatMap enc) = WL G X x :=
  WL_congr G (cfgToBytes enc G) X x X (x.flatMap enc) (fun n => cfgToBytes_WN_unique enc G hG n X x hx hU)

/-- for a uniquely decodable encoder (UTF-8) the byte grammar gives the encoding of ANY string `x` the weight `G`
gives `x` -/
theorem cfgToBytes_WL_encode (enc : σ → List σ) (G : CFG σ ℝ≥0∞)
    (hB : ∀ r ∈ G.rules, ∀ y ∈ r.body, y ∉ G.V → y ∉ (cfgToBytes enc G).V)
    (hU : ∀ x x' : List σ, x.flatMap enc = x'.flatMap enc → x = x') (X : σ) (x : List σ) :
    WL (cfgToBytes enc G) X (x.flatMap enc) = WL G X x :=
  WL_congr G (cfgToBytes enc G) X x X (x.flatMap enc) (fun n => cfgToBytes_WN_encode enc G hB hU n X x)

theorem cfgToBytes_WL_prefixFree (enc : σ → List σ) (G : CFG σ ℝ≥0∞)
    (hB : ∀ r ∈ G.rules, ∀ y ∈ r.body, y ∉ G.V → y ∉ (cfgToBytes enc G).V)
    (hP : PrefixFree enc) (hE : ∀ a, enc a ≠ []) (X : σ) (x : List σ) :
    WL (cfgToBytes enc G) X (x.flatMap enc) = WL G X x :=
  cfgToBytes_WL_encode enc G hB (flatMap_injective_of_prefixFree enc hP hE) X x

end Cfg

/-! ### non-vacuity -/
section Examples

/-- the machine `exB` of `Proofs/Wfsa2.lean` with weights in `ℝ≥0∞`: symbols `0` ("a", one byte) and `3` ("€",
three bytes), loops on both states -/
noncomputable def exBL : WFSA Nat Nat ℝ≥0∞ :=
  ⟨[(0, 1)], [(1, 2)], [⟨0, some 0, 0, 3⟩, ⟨0, some 3, 1, 5⟩, ⟨1, some 0, 1, 7⟩]⟩

theorem exBL_ok : exBL.EpsFree ∧ DistinctArcs exBL ∧ ∀ a ∈ exBL.labels, exEnc a ≠ [] := by
  refine ⟨?_, ?_, ?_⟩
  · intro e he
    simp only [exBL, List.mem_cons, List.not_mem_nil, or_false] at he
    rcases he with rfl | rfl | rfl <;> simp
  · unfold DistinctArcs; simp [exBL]
  · have : exBL.labels = [0, 3] := by simp [WFSA.labels, exBL, List.eraseDups_cons]
    rw [this]; decide

/-- the byte string "a€a" has the single decoding `[0, 3, 0]` -/
example : PL (exBL.toBytes exEnc) [97, 226, 130, 172, 97]
    = ∑' x : List Nat, if x.flatMap exEnc = [97, 226, 130, 172, 97] then PL exBL x else 0 :=
  toBytes_PL_tsum exEnc exBL exBL_ok.1 exBL_ok.2.1 exBL_ok.2.2 _

/-- a cyclic grammar (`10 → 10` with weight `1/2`): every string has infinitely many derivation trees; terminals `0`
("a"), `1` ("b"), `2` ("ab"), `3` ("€") -/
noncomputable def exBytesGL : CFG Nat ℝ≥0∞ :=
  ⟨10, [0, 1, 2, 3], [⟨2⁻¹, 10, [10]⟩, ⟨2, 10, [0, 10]⟩, ⟨3, 10, [3]⟩, ⟨5, 10, [2]⟩, ⟨7, 10, [0, 1]⟩]⟩

theorem exBytesGL_ok [DecidableEq ℝ≥0∞] : BytesOk exEnc exBytesGL := by
  refine ⟨by decide, ?_⟩
  intro r hr y hy hV
  simp only [exBytesGL, List.mem_cons, List.not_mem_nil, or_false] at hr
  have hy10 : y = 10 := by
    rcases hr with rfl | rfl | rfl | rfl | rfl <;>
      simp only [List.mem_cons, List.not_mem_nil, or_false] at hy <;>
      rcases hy with rfl | rfl <;> first | rfl | (exact absurd (by decide) hV)
  subst hy10
  intro hmem
  simp only [cfgToBytes, List.mem_eraseDups, List.mem_flatMap] at hmem
  obtain ⟨r', hr', s, hs, hb⟩ := hmem
  simp only [exBytesGL, List.mem_cons, List.not_mem_nil, or_false] at hr'
  rcases hr' with rfl | rfl | rfl | rfl | rfl <;>
    simp only [List.mem_cons, List.not_mem_nil, or_false] at hs <;>
    rcases hs with rfl | rfl <;> revert hb <;> decide

/-- the ambiguous byte string "ab" collects the (infinite) derivation sums of both its decodings `[0, 1]` and `[2]` -/
example [DecidableEq ℝ≥0∞] : WL (cfgToBytes exEnc exBytesGL) 10 [97, 98]
    = WL exBytesGL 10 [0, 1] + WL exBytesGL 10 [2] := by
  rw [cfgToBytes_WL exEnc exBytesGL exBytesGL_ok]
  have : decs exEnc exBytesGL.V.eraseDups [97, 98].length [97, 98] = [[0, 1], [2]] := by decide
  rw [this]; simp

end Examples

end Genlm
