import GenlmModel.Proofs.LimPrefix
import GenlmModel.Proofs.LimWfsa
import GenlmModel.Proofs.Fst

/-! # Transducers at the limit (`ℝ≥0∞`): property C10 at full strength

`TL T x y = ⨆ n, TPN T n x y` (`Proofs/LimPrefix.lean`) is the sum over ALL accepting paths of `T` for the pair
`(x, y)`; `PL` (`Proofs/LimWfsa.lean`) is the same for automata.  No hypothesis on the machines anywhere: ε on either
tape, `ε:ε` arcs, cycles, several initial / final states, divergence to `∞`.

1. `TL_eq_tsum` — `TL T x y = ∑' k, TPk T k x y`; `TL_eq_TQL`.
2. `compose_graded_tsum` (the graded theorem `compose_graded_TPk` of `Proofs/Fst.lean` with the middle string ranging
   over ALL strings), `compose_TL_graded`, **`compose_TL`** — `TL (f @ g) x z = ∑' y, TL f x y * TL g y z`;
   `compose'_TPk/TPN` (any semiring), `compose_assoc_irrelevant`, `compose'_TL` (the second association branch of
   `__matmul__`); `compose_TL_assoc`.
3. `transpose_TL`, `project_out_PL`, `project_in_PL` (`project_out_Qk_tsum`, `project_out_Pk_tsum`: path length by
   path length), `diag_TL`, `fromString_TL`, `fromPairs_TL`, `fromPairs_TL_count`, `fromPairs_TL_of_nodup`.
4. `FST.totalL` (limit of the stratified `total_weight`), `FST.totalL_eq_tsum`, `FST.totalL_eq_totalWeight` (link with
   `start · backward`, `backward` the least solution), `FST.evalL`, **`evalL_eq_TL`** (`T(x, y)` for machines WITH ε),
   `evalL_branches`, the cross-sections `crossX_PL`, `crossY_PL` (+ primed versions for the other branch).

Helper lemmas (tag `E3`) live in `Genlm.LimFstAux`. -/

namespace Genlm
set_option linter.unusedSectionVars false
open scoped ENNReal
open WfsaAux FstAux LimAux

/-! ### generic helpers (tag `E3`) -/
namespace LimFstAux

/-- a finite sum over a duplicate-free list covering the support is the sum over everything -/
theorem listSum_eq_tsum_E3 {α : Type} [DecidableEq α] (L : List α) (hL : L.Nodup) (F : α → ℝ≥0∞)
    (h : ∀ a, a ∉ L → F a = 0) : (L.map F).sum = ∑' a, F a := by
  rw [tsum_eq_sum (s := L.toFinset) (fun a ha => h a (by simpa using ha)), List.sum_toFinset F hL]

/-- the square partial sums of a doubly indexed family -/
def sqE3 (C : ℕ → ℕ → ℝ≥0∞) (N : ℕ) : ℝ≥0∞ :=
  ((List.range (N+1)).map fun k1 => ((List.range (N+1)).map fun k2 => C k1 k2).sum).sum

theorem sqE3_eq_finset (C : ℕ → ℕ → ℝ≥0∞) (N : ℕ) :
    sqE3 C N = ∑ p ∈ Finset.range (N+1) ×ˢ Finset.range (N+1), C p.1 p.2 := by
  unfold sqE3
  simp only [list_range_sum]
  rw [Finset.sum_product]

theorem sqE3_mono (C : ℕ → ℕ → ℝ≥0∞) {N N' : ℕ} (h : N ≤ N') : sqE3 C N ≤ sqE3 C N' := by
  rw [sqE3_eq_finset, sqE3_eq_finset]
  apply Finset.sum_le_sum_of_subset
  apply Finset.product_subset_product <;> exact Finset.range_mono (by omega)

theorem sqE3_le_sqE3 (C C' : ℕ → ℕ → ℝ≥0∞) (N : ℕ)
    (h : ∀ k1 ≤ N, ∀ k2 ≤ N, C k1 k2 ≤ C' k1 k2) : sqE3 C N ≤ sqE3 C' N := by
  unfold sqE3
  apply List.sum_le_sum
  intro k1 hk1
  apply List.sum_le_sum
  intro k2 hk2
  exact h k1 (by have := List.mem_range.mp hk1; omega) k2 (by have := List.mem_range.mp hk2; omega)

theorem sqE3_congr (C C' : ℕ → ℕ → ℝ≥0∞) (N : ℕ)
    (h : ∀ k1 ≤ N, ∀ k2 ≤ N, C k1 k2 = C' k1 k2) : sqE3 C N = sqE3 C' N :=
  le_antisymm (sqE3_le_sqE3 C C' N fun k1 h1 k2 h2 => (h k1 h1 k2 h2).le)
    (sqE3_le_sqE3 C' C N fun k1 h1 k2 h2 => (h k1 h1 k2 h2).ge)

theorem sqE3_le_tsum (C : ℕ → ℕ → ℝ≥0∞) (N : ℕ) : sqE3 C N ≤ ∑' k1, ∑' k2, C k1 k2 := by
  rw [sqE3_eq_finset, ← ENNReal.tsum_prod]
  exact ENNReal.sum_le_tsum _

/-- a double series is bounded as soon as its square partial sums are -/
theorem tsum_le_of_sqE3 (C : ℕ → ℕ → ℝ≥0∞) (L : ℝ≥0∞) (h : ∀ N, sqE3 C N ≤ L) :
    ∑' k1, ∑' k2, C k1 k2 ≤ L := by
  rw [← ENNReal.tsum_prod, ENNReal.tsum_eq_iSup_sum]
  refine iSup_le fun s => ?_
  refine le_trans ?_ (h (s.sup fun p => max p.1 p.2))
  rw [sqE3_eq_finset]
  apply Finset.sum_le_sum_of_subset
  intro p hp
  have : max p.1 p.2 ≤ s.sup fun p => max p.1 p.2 := Finset.le_sup (f := fun p : ℕ × ℕ => max p.1 p.2) hp
  simp only [Finset.mem_product, Finset.mem_range]
  omega

/-- the double series is the supremum of its square partial sums -/
theorem tsum_eq_iSup_sqE3 (C : ℕ → ℕ → ℝ≥0∞) : ∑' k1, ∑' k2, C k1 k2 = ⨆ N, sqE3 C N :=
  le_antisymm (tsum_le_of_sqE3 C _ fun N => le_iSup (sqE3 C) N) (iSup_le fun N => sqE3_le_tsum C N)

end LimFstAux
open LimFstAux

/-! ### 1. `TL` as a sum over path lengths -/
section Basics
variable {ι σ : Type} [DecidableEq ι] [DecidableEq σ]

/-- **`TL` is the sum over all path lengths** -/
theorem TL_eq_tsum (T : FST ι σ ℝ≥0∞) (x y : List σ) : TL T x y = ∑' k, TPk T k x y := by
  unfold TL
  simp only [TPN_eq]
  exact (tsum_eq_iSup_range fun k => TPk T k x y).symm

theorem TPk_le_TL (T : FST ι σ ℝ≥0∞) (k : Nat) (x y : List σ) : TPk T k x y ≤ TL T x y := by
  rw [TL_eq_tsum]; exact ENNReal.le_tsum k

/-- the sum over all paths between two states -/
noncomputable def TQL (T : FST ι σ ℝ≥0∞) (i : ι) (x y : List σ) (j : ι) : ℝ≥0∞ := ∑' k, Tk T k i x y j

/-- `TL` in terms of `TQL`: initial weight, all paths, final weight -/
theorem TL_eq_TQL (T : FST ι σ ℝ≥0∞) (x y : List σ) :
    TL T x y = (T.start.map fun s => (T.stop.map fun f => s.2 * TQL T s.1 x y f.1 * f.2).sum).sum := by
  rw [TL_eq_tsum]
  simp only [TPk_eq]
  rw [tsum_list_sumW T.start (fun k s => (T.stop.map fun f => s.2 * Tk T k s.1 x y f.1 * f.2).sum)]
  apply congrArg
  apply List.map_congr_left
  intro s _
  rw [tsum_list_sumW T.stop (fun k f => s.2 * Tk T k s.1 x y f.1 * f.2)]
  apply congrArg
  apply List.map_congr_left
  intro f _
  unfold TQL
  rw [ENNReal.tsum_mul_right, ENNReal.tsum_mul_left]

end Basics

/-! ### supports: a path only reads / writes symbols carried by arcs -/
namespace LimFstAux
section Support
variable {ι σ K : Type} [DecidableEq ι] [DecidableEq σ] [CommSemiring K]

theorem Tk_inp_syms_E3 (T : FST ι σ K) (k : Nat) (i : ι) (x y : List σ) (j : ι)
    (h : ∃ a ∈ x, a ∉ T.inSyms) : Tk T k i x y j = 0 := by
  induction k generalizing i x y with
  | zero =>
    rw [Tk_zero, if_neg]
    rintro ⟨_, rfl, _⟩
    obtain ⟨a, ha, _⟩ := h
    simp at ha
  | succ k ih =>
    rw [Tk_succ]
    apply sum_map_zero; intro e he
    apply sum_map_zero; intro x' hx'
    apply sum_map_zero; intro y' _
    rw [ih e.dst x' y' ?_, mul_zero]
    obtain ⟨a, ha, hna⟩ := h
    refine ⟨a, ?_, hna⟩
    cases hl : e.inp with
    | none =>
      rw [hl, lpeel_none, List.mem_singleton] at hx'
      subst hx'; exact ha
    | some b =>
      rw [hl] at hx'
      cases x with
      | nil => simp at ha
      | cons c t =>
        rw [lpeel_some_cons] at hx'
        by_cases hbc : b = c
        · rw [if_pos hbc, List.mem_singleton] at hx'
          subst hx' hbc
          have hb : b ∈ T.inSyms := inp_mem_inSyms T e (List.mem_filter.mp he).1 b hl
          rcases List.mem_cons.mp ha with rfl | h'
          · exact absurd hb hna
          · exact h'
        · rw [if_neg hbc] at hx'
          simp at hx'

theorem Tk_out_syms_E3 (T : FST ι σ K) (k : Nat) (i : ι) (x y : List σ) (j : ι)
    (h : ∃ a ∈ y, a ∉ T.outSyms) : Tk T k i x y j = 0 := by
  rw [← transpose_Tk]
  apply Tk_inp_syms_E3
  rw [inSyms_transpose]; exact h

/-- outside the candidate list `strsLe T.outSyms n` (`k ≤ n`) the `k`-arc weight vanishes -/
theorem TPk_out_support_E3 (T : FST ι σ K) (k n : Nat) (hkn : k ≤ n) (x y : List σ)
    (hy : y ∉ strsLe T.outSyms n) : TPk T k x y = 0 := by
  have hTk : ∀ i j, Tk T k i x y j = 0 := by
    intro i j
    rw [mem_strsLe] at hy
    by_cases hlen : y.length ≤ n
    · have : ∃ a ∈ y, a ∉ T.outSyms := by
        by_contra hc
        exact hy ⟨hlen, fun a ha => by
          by_contra h'
          exact hc ⟨a, ha, h'⟩⟩
      exact Tk_out_syms_E3 T k i x y j this
    · exact Tk_out_length T k i x y j (by omega)
  rw [TPk_eq]
  apply sum_map_zero; intro s _
  apply sum_map_zero; intro f _
  rw [hTk, mul_zero, zero_mul]

end Support
end LimFstAux

/-! ### 2. composition at the limit -/
section Compose
variable {ι κ σ : Type} [DecidableEq ι] [DecidableEq κ] [DecidableEq σ]

namespace LimFstAux

/-- the graded bounded path sums grow with the bound on the number of arcs -/
theorem GN_mono_succ_E3 (M : FST ι σ ℝ≥0∞) (gr : TArc ι σ ℝ≥0∞ → Nat × Nat) (fin : ι → Bool)
    (N k1 k2 : Nat) (i : ι) (x y : List σ) :
    GN M gr fin N k1 k2 i x y ≤ GN M gr fin (N+1) k1 k2 i x y := by
  induction N generalizing k1 k2 i x y with
  | zero =>
    conv_lhs => rw [GN]
    conv_rhs => rw [GN]
    exact le_self_add
  | succ N ih =>
    conv_lhs => rw [GN]
    conv_rhs => rw [GN]
    apply add_le_add le_rfl
    apply List.sum_le_sum
    intro e _
    split
    · apply List.sum_le_sum
      intro x' _
      apply List.sum_le_sum
      intro y' _
      exact mul_le_mul' le_rfl (ih _ _ _ _ _)
    · exact le_rfl

theorem GN_mono_E3 (M : FST ι σ ℝ≥0∞) (gr : TArc ι σ ℝ≥0∞ → Nat × Nat) (fin : ι → Bool)
    {N N' : Nat} (h : N ≤ N') (k1 k2 : Nat) (i : ι) (x y : List σ) :
    GN M gr fin N k1 k2 i x y ≤ GN M gr fin N' k1 k2 i x y := by
  induction N', h using Nat.le_induction with
  | base => exact le_rfl
  | succ n _ ih => exact le_trans ih (GN_mono_succ_E3 M gr fin n k1 k2 i x y)

theorem GPN_mono_E3 (M : FST ι σ ℝ≥0∞) (gr : TArc ι σ ℝ≥0∞ → Nat × Nat)
    {N N' : Nat} (h : N ≤ N') (k1 k2 : Nat) (x y : List σ) :
    GPN M gr N k1 k2 x y ≤ GPN M gr N' k1 k2 x y := by
  unfold GPN
  apply List.sum_le_sum
  intro s _
  apply List.sum_le_sum
  intro f _
  exact mul_le_mul' (mul_le_mul' le_rfl (GN_mono_E3 M gr _ h k1 k2 s.1 x y)) le_rfl

end LimFstAux

/-- **graded composition, all middle strings**: the accepting paths of `f @ g` of grade `(k1, k2)`
(bound `N ≥ k1 + k2` on the number of arcs) weigh `Σ_y f(x, y)[k1 arcs] · g(y, z)[k2 arcs]`, the sum
ranging over ALL strings -/
theorem compose_graded_tsum (f : FST ι σ ℝ≥0∞) (g : FST κ σ ℝ≥0∞) (N k1 k2 : Nat) (hN : k1 + k2 ≤ N)
    (x z : List σ) :
    GPN (f.compose g) mohriGrade N k1 k2 x z = ∑' y, TPk f k1 x y * TPk g k2 y z := by
  rw [compose_graded_TPk f g N k1 k2 hN k1 le_rfl]
  apply listSum_eq_tsum_E3 _ (strsLe_nodup _ (nodup_eraseDups _) _)
  intro y hy
  rw [TPk_out_support_E3 f k1 k1 le_rfl x y hy, zero_mul]

/-- below the threshold the graded weight is a partial sum of the same series -/
theorem compose_graded_le_tsum (f : FST ι σ ℝ≥0∞) (g : FST κ σ ℝ≥0∞) (N k1 k2 : Nat) (x z : List σ) :
    GPN (f.compose g) mohriGrade N k1 k2 x z ≤ ∑' y, TPk f k1 x y * TPk g k2 y z := by
  rw [← compose_graded_tsum f g (max N (k1 + k2)) k1 k2 (le_max_right _ _)]
  exact GPN_mono_E3 _ _ (le_max_left _ _) k1 k2 x z

/-- `TL (f @ g)` as the double series over the grades -/
theorem compose_TL_graded (f : FST ι σ ℝ≥0∞) (g : FST κ σ ℝ≥0∞) (x z : List σ) :
    TL (f.compose g) x z = ∑' k1, ∑' k2, ∑' y, TPk f k1 x y * TPk g k2 y z := by
  apply le_antisymm
  · refine iSup_le fun N => ?_
    calc TPN (f.compose g) N x z
        = sqE3 (fun k1 k2 => GPN (f.compose g) mohriGrade N k1 k2 x z) N :=
          (compose_GPN_total f g N x z).symm
      _ ≤ sqE3 (fun k1 k2 => ∑' y, TPk f k1 x y * TPk g k2 y z) N :=
          sqE3_le_sqE3 _ _ N fun k1 _ k2 _ => compose_graded_le_tsum f g N k1 k2 x z
      _ ≤ _ := sqE3_le_tsum _ N
  · apply tsum_le_of_sqE3
    intro N
    calc sqE3 (fun k1 k2 => ∑' y, TPk f k1 x y * TPk g k2 y z) N
        = sqE3 (fun k1 k2 => GPN (f.compose g) mohriGrade (2 * N) k1 k2 x z) N :=
          sqE3_congr _ _ N fun k1 h1 k2 h2 =>
            (compose_graded_tsum f g (2 * N) k1 k2 (by omega) x z).symm
      _ ≤ sqE3 (fun k1 k2 => GPN (f.compose g) mohriGrade (2 * N) k1 k2 x z) (2 * N) :=
          sqE3_mono _ (by omega)
      _ = TPN (f.compose g) (2 * N) x z := compose_GPN_total f g (2 * N) x z
      _ ≤ TL (f.compose g) x z := TPN_le_TL _ _ x z

/-- **C10 at the limit: `(f @ g)(x, z) = Σ_y f(x, y) · g(y, z)`** for ALL machines (output-ε arcs in `f`,
input-ε arcs in `g`, `ε:ε` arcs, cycles, several initial / final states, divergence to `∞` included); the sum
ranges over ALL middle strings, `TL` is the sum over ALL accepting paths.  (`compose` is the first association
branch of `__matmul__`.) -/
theorem compose_TL (f : FST ι σ ℝ≥0∞) (g : FST κ σ ℝ≥0∞) (x z : List σ) :
    TL (f.compose g) x z = ∑' y : List σ, TL f x y * TL g y z := by
  rw [compose_TL_graded]
  simp only [TL_eq_tsum]
  simp_rw [← ENNReal.tsum_mul_right, ← ENNReal.tsum_mul_left]
  rw [ENNReal.tsum_comm (f := fun y k1 => ∑' k2, TPk f k1 x y * TPk g k2 y z)]
  refine tsum_congr fun k1 => ?_
  rw [ENNReal.tsum_comm]

end Compose

/-! ### the second association branch of `__matmul__` -/
section Assoc
variable {ι κ σ K : Type} [DecidableEq ι] [DecidableEq κ] [DecidableEq σ] [CommSemiring K]

theorem compose'_start_E3 (T1 : FST ι σ K) (T2 : FST κ σ K) :
    (T1.compose' T2).start
      = T1.start.flatMap fun s1 => T2.start.map fun s2 => ((s1.1, (0, s2.1)), s1.2 * (1 * s2.2)) := by
  simp [FST.compose', FST.composeR, FST.unlift, FST.composeRaw, FST.augment, epsilonFilter,
    Function.comp_def]

theorem compose'_stop_E3 (T1 : FST ι σ K) (T2 : FST κ σ K) :
    (T1.compose' T2).stop
      = T1.stop.flatMap fun f1 => [0, 1, 2].flatMap fun φ => T2.stop.map fun f2 =>
          ((f1.1, (φ, f2.1)), f1.2 * (1 * f2.2)) := by
  simp [FST.compose', FST.composeR, FST.unlift, FST.composeRaw, FST.augment, epsilonFilter,
    Function.comp_def]

/-- the two association branches of `__matmul__` give the same accepting weights, path length by path
length (any commutative semiring) -/
theorem compose'_TPk (T1 : FST ι σ K) (T2 : FST κ σ K) (k : Nat) (x z : List σ) :
    TPk (T1.compose' T2) k x z = TPk (T1.compose T2) k x z := by
  simp only [TPk_eq]
  rw [compose'_start_E3, compose'_stop_E3, compose_start, compose_stop]
  simp only [sum_flatMap, List.map_map, Function.comp_def, compose'_Tk, mul_one, one_mul]

theorem compose'_TPN (T1 : FST ι σ K) (T2 : FST κ σ K) (n : Nat) (x z : List σ) :
    TPN (T1.compose' T2) n x z = TPN (T1.compose T2) n x z := by
  simp only [TPN_eq, compose'_TPk]

end Assoc

section AssocL
variable {ι κ σ : Type} [DecidableEq ι] [DecidableEq κ] [DecidableEq σ]

/-- **`compose_assoc_irrelevant`**: the association order chosen by `__matmul__` (by comparing the numbers of
states) does not change the weighted relation -/
theorem compose_assoc_irrelevant (f : FST ι σ ℝ≥0∞) (g : FST κ σ ℝ≥0∞) (x z : List σ) :
    TL (f.compose' g) x z = TL (f.compose g) x z := by
  unfold TL
  simp only [compose'_TPN]

/-- C10 at the limit for the second association branch -/
theorem compose'_TL (f : FST ι σ ℝ≥0∞) (g : FST κ σ ℝ≥0∞) (x z : List σ) :
    TL (f.compose' g) x z = ∑' y : List σ, TL f x y * TL g y z := by
  rw [compose_assoc_irrelevant, compose_TL]

end AssocL

/-! ### 3. `T`, `project`, `diag`, `from_string`, `from_pairs` at the limit -/
section Aux3
variable {ι σ : Type} [DecidableEq ι] [DecidableEq σ]

/-- **`FST.T` exchanges the tapes** -/
theorem transpose_TL (T : FST ι σ ℝ≥0∞) (x y : List σ) : TL T.transpose y x = TL T x y := by
  unfold TL
  simp only [transpose_TPN]

/-- output projection, path length by path length, the sum ranging over ALL input strings -/
theorem project_out_Qk_tsum (T : FST ι σ ℝ≥0∞) (k : Nat) (i : ι) (y : List σ) (j : ι) :
    Qk (T.project true) k i y j = ∑' x, Tk T k i x y j := by
  induction k generalizing i y with
  | zero =>
    simp only [Qk_zero, Tk_zero]
    by_cases h : i = j ∧ y = []
    · obtain ⟨rfl, rfl⟩ := h
      simp only [and_self, and_true, true_and, if_true]
      exact (tsum_ite_eq [] (fun _ => (1 : ℝ≥0∞))).symm
    · rw [if_neg h]
      have : ∀ x : List σ, ¬ (i = j ∧ x = [] ∧ y = []) := fun x hx => h ⟨hx.1, hx.2.2⟩
      simp [this]
  | succ k ih =>
    rw [Qk_succ]
    simp only [Tk_succ]
    rw [tsum_list_sumW (T.arcs.filter (fun e => e.src = i))
      (fun x e => ((lpeel e.inp x).map fun x' =>
        ((lpeel e.out y).map fun y' => e.w * Tk T k e.dst x' y' j).sum).sum)]
    simp only [FST.project, List.filter_map, List.map_map, Function.comp_def, if_true]
    apply congrArg
    apply List.map_congr_left
    intro e _
    rw [tsum_lpeel e.inp (fun x' => ((lpeel e.out y).map fun y' => e.w * Tk T k e.dst x' y' j).sum),
      tsum_list_sumW (lpeel e.out y) (fun x' y' => e.w * Tk T k e.dst x' y' j)]
    apply congrArg
    apply List.map_congr_left
    intro y' _
    have h2 := ih e.dst y'
    simp only [FST.project, if_true] at h2
    rw [h2, ENNReal.tsum_mul_left]

theorem project_out_Pk_tsum (T : FST ι σ ℝ≥0∞) (k : Nat) (y : List σ) :
    Pk (T.project true) k y = ∑' x, TPk T k x y := by
  simp only [Pk_eq, TPk_eq, project_out_Qk_tsum]
  have : (T.project true).start = T.start ∧ (T.project true).stop = T.stop := ⟨rfl, rfl⟩
  rw [this.1, this.2]
  rw [tsum_list_sumW T.start (fun x s => (T.stop.map fun f => s.2 * Tk T k s.1 x y f.1 * f.2).sum)]
  apply congrArg
  apply List.map_congr_left
  intro s _
  rw [tsum_list_sumW T.stop (fun x f => s.2 * Tk T k s.1 x y f.1 * f.2)]
  apply congrArg
  apply List.map_congr_left
  intro f _
  rw [ENNReal.tsum_mul_right, ENNReal.tsum_mul_left]

/-- **`project(1)` sums the input tape out**: `PL (T.project 1) y = Σ_x T(x, y)` over ALL input strings -/
theorem project_out_PL (T : FST ι σ ℝ≥0∞) (y : List σ) :
    PL (T.project true) y = ∑' x, TL T x y := by
  rw [PL_eq_tsum]
  simp only [TL_eq_tsum, project_out_Pk_tsum]
  exact ENNReal.tsum_comm

/-- **`project(0)` sums the output tape out**: `PL (T.project 0) x = Σ_y T(x, y)` over ALL output strings -/
theorem project_in_PL (T : FST ι σ ℝ≥0∞) (x : List σ) :
    PL (T.project false) x = ∑' y, TL T x y := by
  rw [project_in_eq, project_out_PL]
  simp only [transpose_TL]

/-- **`FST.diag`** relates a string to itself, with its weight in the automaton -/
theorem diag_TL (A : WFSA ι σ ℝ≥0∞) (x y : List σ) :
    TL (FST.diag A) x y = if x = y then PL A x else 0 := by
  unfold TL PL
  simp only [diag_TPN]
  by_cases h : x = y <;> simp [h]

end Aux3

section Aux3b
variable {σ : Type} [DecidableEq σ]

/-- **`FST.from_string s w`** relates `s` to `s` with weight `w`, and nothing else -/
theorem fromString_TL (s : List σ) (w : ℝ≥0∞) (x y : List σ) :
    TL (FST.fromString s w) x y = if x = s ∧ y = s then w else 0 := by
  apply TL_of_stable _ x y s.length
  intro m hm
  rw [fromStringT_spec]
  by_cases h : x = s ∧ y = s
  · rw [if_pos h, if_pos ⟨h.1, h.2, hm⟩]
  · rw [if_neg h, if_neg (fun h' => h ⟨h'.1, h'.2.1⟩)]

/-- **`FST.from_pairs ps`** gives `(x, y)` the number of its occurrences in `ps` (a sum of ones: value `1` exactly
on the listed pairs, counted with multiplicity) -/
theorem fromPairs_TL (ps : List (List σ × List σ)) (x y : List σ) :
    TL (FST.fromPairs ps : FST PairState σ ℝ≥0∞) x y
      = (ps.map fun p => if p = (x, y) then (1 : ℝ≥0∞) else 0).sum := by
  apply TL_of_stable _ x y (max x.length y.length + 2)
  intro m hm
  rw [fromPairs_TPN, if_pos hm]

theorem fromPairs_TL_count (ps : List (List σ × List σ)) (x y : List σ) :
    TL (FST.fromPairs ps : FST PairState σ ℝ≥0∞) x y = (ps.count (x, y) : ℝ≥0∞) := by
  rw [fromPairs_TL, sum_ind_eq_count]
  congr!

theorem fromPairs_TL_of_nodup (ps : List (List σ × List σ)) (hps : ps.Nodup) (x y : List σ) :
    TL (FST.fromPairs ps : FST PairState σ ℝ≥0∞) x y = if (x, y) ∈ ps then 1 else 0 := by
  rw [fromPairs_TL_count]
  by_cases h : (x, y) ∈ ps
  · rw [if_pos h, List.count_eq_one_of_mem hps h]; simp
  · rw [if_neg h, List.count_eq_zero_of_not_mem h]; simp

end Aux3b

/-! ### 4. `total_weight` and `FST.__call__` at the limit -/
namespace LimFstAux
section
variable {σ : Type} [DecidableEq σ]

/-- double sums over all strings commute with finite (list) sums -/
theorem tsum2_list_sumW_E3 {α β γ : Type} (L : List α) (F : α → β → γ → ℝ≥0∞) :
    ∑' a, ∑' b, (L.map fun s => F s a b).sum = (L.map fun s => ∑' a, ∑' b, F s a b).sum := by
  calc ∑' a, ∑' b, (L.map fun s => F s a b).sum
      = ∑' a, (L.map fun s => ∑' b, F s a b).sum :=
        tsum_congr fun a => tsum_list_sumW L (fun b s => F s a b)
    _ = _ := tsum_list_sumW L (fun a s => ∑' b, F s a b)

/-- summing over both tapes what remains after peeling a pair of labels -/
theorem tsum2_lpeel_E3 (l m : Option σ) (H : List σ → List σ → ℝ≥0∞) :
    ∑' a, ∑' b, ((lpeel l a).map fun a' => ((lpeel m b).map fun b' => H a' b').sum).sum
      = ∑' a', ∑' b', H a' b' := by
  calc ∑' a, ∑' b, ((lpeel l a).map fun a' => ((lpeel m b).map fun b' => H a' b').sum).sum
      = ∑' a, ((lpeel l a).map fun a' => ∑' b', H a' b').sum := by
        refine tsum_congr fun a => ?_
        rw [tsum_list_sumW (lpeel l a) (fun b a' => ((lpeel m b).map fun b' => H a' b').sum)]
        apply congrArg
        apply List.map_congr_left
        intro a' _
        exact tsum_lpeel m (fun b' => H a' b')
    _ = _ := tsum_lpeel l (fun a' => ∑' b', H a' b')

end
end LimFstAux

section Eval
variable {ι σ : Type} [DecidableEq ι] [DecidableEq σ]

/-- forgetting the labels sums over ALL pairs of label strings, path length by path length -/
theorem eraseLabels_Tk_tsum (T : FST ι σ ℝ≥0∞) (k : Nat) (i j : ι) :
    Tk T.eraseLabels k i [] [] j = ∑' a, ∑' b, Tk T k i a b j := by
  induction k generalizing i with
  | zero =>
    simp only [Tk_zero]
    by_cases h : i = j
    · subst h
      simp only [true_and, and_self, if_true]
      rw [tsum_eq_single ([] : List σ), tsum_eq_single ([] : List σ)]
      · simp
      · intro b hb; simp [hb]
      · intro a ha; simp [ha]
    · simp [h]
  | succ k ih =>
    have harcs : T.eraseLabels.arcs = T.arcs.map fun e => ⟨e.src, none, none, e.dst, e.w⟩ := rfl
    rw [Tk_succ, harcs, List.filter_map, List.map_map]
    simp only [Function.comp_def, lpeel_none', List.map_cons, List.map_nil, List.sum_cons,
      List.sum_nil, add_zero, Tk_succ]
    rw [tsum2_list_sumW_E3 (T.arcs.filter (fun e => e.src = i))
      (fun e a b => ((lpeel e.inp a).map fun a' => ((lpeel e.out b).map fun b' =>
        e.w * Tk T k e.dst a' b' j).sum).sum)]
    apply congrArg
    apply List.map_congr_left
    intro e _
    rw [tsum2_lpeel_E3 e.inp e.out (fun a' b' => e.w * Tk T k e.dst a' b' j), ih e.dst]
    simp_rw [ENNReal.tsum_mul_left]

theorem eraseLabels_TPk_tsum (T : FST ι σ ℝ≥0∞) (k : Nat) :
    TPk T.eraseLabels k [] [] = ∑' a, ∑' b, TPk T k a b := by
  simp only [TPk_eq, eraseLabels_Tk_tsum]
  have hs : T.eraseLabels.start = T.start ∧ T.eraseLabels.stop = T.stop := ⟨rfl, rfl⟩
  rw [hs.1, hs.2]
  rw [tsum2_list_sumW_E3 T.start (fun s a b => (T.stop.map fun f => s.2 * Tk T k s.1 a b f.1 * f.2).sum)]
  apply congrArg
  apply List.map_congr_left
  intro s _
  rw [tsum2_list_sumW_E3 T.stop (fun f a b => s.2 * Tk T k s.1 a b f.1 * f.2)]
  apply congrArg
  apply List.map_congr_left
  intro f _
  simp_rw [ENNReal.tsum_mul_right, ENNReal.tsum_mul_left]

/-- `total_weight()`: the total weight of ALL accepting paths, whatever their labels (supremum of the stratified
`totalN`) -/
noncomputable def FST.totalL (T : FST ι σ ℝ≥0∞) : ℝ≥0∞ := ⨆ n, T.totalN n

theorem FST.totalL_eq_TL_eraseLabels (T : FST ι σ ℝ≥0∞) : T.totalL = TL T.eraseLabels [] [] := rfl

/-- **`total_weight` is the sum of the weighted relation over ALL pairs of strings** -/
theorem FST.totalL_eq_tsum (T : FST ι σ ℝ≥0∞) : T.totalL = ∑' a, ∑' b, TL T a b := by
  rw [FST.totalL_eq_TL_eraseLabels, TL_eq_tsum]
  simp only [eraseLabels_TPk_tsum, TL_eq_tsum]
  rw [ENNReal.tsum_comm]
  refine tsum_congr fun a => ?_
  rw [ENNReal.tsum_comm]

/-- the link with the automaton-level `total_weight` of `Proofs/LimWfsa.lean`: `start · backward` on either
projection, `backward` being the LEAST solution of the backward system (`bwdL_eq`, `bwdL_least`) -/
theorem FST.totalL_eq_totalWeight (T : FST ι σ ℝ≥0∞) (axis : Bool) :
    T.totalL = (T.project axis).totalWeight (bwdL (T.project axis)) := by
  rw [← tsum_PL_eq_totalWeight, FST.totalL_eq_tsum]
  cases axis with
  | true =>
    simp only [project_out_PL]
    exact ENNReal.tsum_comm
  | false => simp only [project_in_PL]

end Eval

section Call
variable {ι σ : Type} [DecidableEq ι] [DecidableEq σ]

/-- composing with a single-string transducer on the left selects the input -/
theorem compose_fromString_left_TL (s : List σ) (w : ℝ≥0∞) (T : FST ι σ ℝ≥0∞) (a b : List σ) :
    TL ((FST.fromString s w).compose T) a b = if a = s then w * TL T s b else 0 := by
  rw [compose_TL]
  simp only [fromString_TL]
  by_cases h : a = s
  · subst h
    rw [if_pos rfl, tsum_eq_single a]
    · simp
    · intro y hy; simp [hy]
  · simp [h]

/-- composing with a single-string transducer on the right selects the output -/
theorem compose_fromString_right_TL (T : FST ι σ ℝ≥0∞) (s : List σ) (w : ℝ≥0∞) (a b : List σ) :
    TL (T.compose (FST.fromString s w)) a b = if b = s then TL T a s * w else 0 := by
  rw [compose_TL]
  simp only [fromString_TL]
  by_cases h : b = s
  · subst h
    rw [if_pos rfl, tsum_eq_single b]
    · simp
    · intro y hy; simp [hy]
  · simp [h]

/-- `T(x, y)`: the total weight of ALL accepting paths of `from_string x @ T @ from_string y` -/
noncomputable def FST.evalL (T : FST ι σ ℝ≥0∞) (x y : List σ) : ℝ≥0∞ := ⨆ n, T.evalN x y n

/-- **`FST.__call__(x, y)` for machines WITH ε arcs** (ε on either tape, `ε:ε` arcs, cycles): the total weight of
the three-way composition is the weight `TL T x y` of the pair -/
theorem evalL_eq_TL (T : FST ι σ ℝ≥0∞) (x y : List σ) : T.evalL x y = TL T x y := by
  show FST.totalL (((FST.fromString x 1).compose T).compose (FST.fromString y 1)) = _
  rw [FST.totalL_eq_tsum]
  simp only [compose_fromString_right_TL, compose_fromString_left_TL, mul_one, one_mul]
  rw [tsum_eq_single x, tsum_eq_single y]
  · simp
  · intro b hb; simp [hb]
  · intro a ha; simp [ha]

/-- **the cross-section `T(x, None)`** `= (from_string x @ T).project(1)` is the language `y ↦ T(x, y)` -/
theorem crossX_PL (T : FST ι σ ℝ≥0∞) (x y : List σ) :
    PL (((FST.fromString x (1 : ℝ≥0∞)).compose T).project true) y = TL T x y := by
  rw [project_out_PL]
  simp only [compose_fromString_left_TL, one_mul]
  rw [tsum_eq_single x]
  · simp
  · intro a ha; simp [ha]

/-- **the cross-section `T(None, y)`** `= (T @ from_string y).project(0)` is the language `x ↦ T(x, y)` -/
theorem crossY_PL (T : FST ι σ ℝ≥0∞) (x y : List σ) :
    PL ((T.compose (FST.fromString y (1 : ℝ≥0∞))).project false) x = TL T x y := by
  rw [project_in_PL]
  simp only [compose_fromString_right_TL, mul_one]
  rw [tsum_eq_single y]
  · simp
  · intro b hb; simp [hb]

end Call

/-! ### corollaries: associativity, the other branches of `__matmul__` inside `__call__` -/
section Corollaries
variable {ι κ τ σ : Type} [DecidableEq ι] [DecidableEq κ] [DecidableEq τ] [DecidableEq σ]

/-- composition is associative as a weighted relation (three arbitrary machines) -/
theorem compose_TL_assoc (f : FST ι σ ℝ≥0∞) (g : FST κ σ ℝ≥0∞) (h : FST τ σ ℝ≥0∞) (x w : List σ) :
    TL ((f.compose g).compose h) x w = TL (f.compose (g.compose h)) x w := by
  simp only [compose_TL]
  simp_rw [← ENNReal.tsum_mul_right, ← ENNReal.tsum_mul_left]
  rw [ENNReal.tsum_comm]
  refine tsum_congr fun y => tsum_congr fun z => ?_
  rw [mul_assoc]

/-- `T(x, y)` whatever association branch each of the two `@` of `x @ T @ y` takes -/
theorem evalL_branches (T : FST ι σ ℝ≥0∞) (x y : List σ) :
    FST.totalL (((FST.fromString x (1 : ℝ≥0∞)).compose' T).compose (FST.fromString y (1 : ℝ≥0∞))) = TL T x y ∧
    FST.totalL (((FST.fromString x (1 : ℝ≥0∞)).compose T).compose' (FST.fromString y (1 : ℝ≥0∞))) = TL T x y ∧
    FST.totalL (((FST.fromString x (1 : ℝ≥0∞)).compose' T).compose' (FST.fromString y (1 : ℝ≥0∞))) = TL T x y := by
  have key : ∀ F : List σ → List σ → ℝ≥0∞,
      (∀ a b, F a b = if b = y then (if a = x then TL T x y else 0) else 0) →
      ∑' a, ∑' b, F a b = TL T x y := by
    intro F hF
    simp only [hF]
    rw [tsum_eq_single x, tsum_eq_single y]
    · simp
    · intro b hb; simp [hb]
    · intro a ha; simp [ha]
  refine ⟨?_, ?_, ?_⟩ <;>
  · rw [FST.totalL_eq_tsum]
    apply key
    intro a b
    simp only [compose_assoc_irrelevant, compose_fromString_right_TL, compose_fromString_left_TL,
      mul_one, one_mul]

/-- the cross-sections through the second association branch -/
theorem crossX_PL' (T : FST ι σ ℝ≥0∞) (x y : List σ) :
    PL (((FST.fromString x (1 : ℝ≥0∞)).compose' T).project true) y = TL T x y := by
  rw [← crossX_PL T x y, project_out_PL, project_out_PL]
  simp only [compose_assoc_irrelevant]

theorem crossY_PL' (T : FST ι σ ℝ≥0∞) (x y : List σ) :
    PL ((T.compose' (FST.fromString y (1 : ℝ≥0∞))).project false) x = TL T x y := by
  rw [← crossY_PL T x y, project_in_PL, project_in_PL]
  simp only [compose_assoc_irrelevant]

end Corollaries

/-! ### non-vacuity: ε:ε cycles in BOTH operands (weights in `ℝ≥0∞`)

`FST.diag exL` has the loop `ε:ε` (weight `1/2`) and the loop `7:7` (weight `3`) on its only state, so that
`(7, 7)` has infinitely many accepting paths, of total weight `12`; in `diag exL @ diag exL` every pair of such
paths is matched exactly once: `12 · 12 = 144`.  With `exD` (an `ε:ε` loop of weight `1`) the sums diverge. -/
section Examples

example : TL (FST.diag exL) [7] [7] = 12 := by rw [diag_TL, if_pos rfl, exL_PL_7]

theorem exL_compose_E3 : TL ((FST.diag exL).compose (FST.diag exL)) [7] [7] = 144 := by
  rw [compose_TL]
  simp only [diag_TL]
  rw [tsum_eq_single [7]]
  · rw [if_pos rfl, exL_PL_7]; norm_num
  · intro y hy
    rw [if_neg (fun h => hy h.symm)]; simp

example : TL ((FST.diag exL).compose' (FST.diag exL)) [7] [7] = 144 := by
  rw [compose_assoc_irrelevant, exL_compose_E3]

example : (FST.diag exL).evalL [7] [7] = 12 := by
  rw [evalL_eq_TL, diag_TL, if_pos rfl, exL_PL_7]

example : PL ((FST.diag exL).project true) [7] = 12 := by
  rw [project_out_PL]
  simp only [diag_TL]
  rw [tsum_eq_single [7]]
  · rw [if_pos rfl, exL_PL_7]
  · intro x hx; rw [if_neg hx]

/-- divergence is part of the statement: an `ε:ε` loop of weight `1` -/
example : TL ((FST.diag exD).compose (FST.diag exD)) [] [] = ∞ := by
  rw [compose_TL]
  apply top_unique
  refine le_trans ?_ (ENNReal.le_tsum ([] : List ℕ))
  simp only [diag_TL, if_true, exD_PL_nil.2]
  simp

example : TL (FST.fromPairs [([1, 2], [3]), ([1], [3, 4]), ([1, 2], [3])] : FST _ ℕ ℝ≥0∞) [1, 2] [3] = 2 := by
  rw [fromPairs_TL]
  simp
  norm_num

end Examples
end Genlm
