import GenlmModel.Model.Tzeng
import GenlmModel.Proofs.Cert
import Mathlib.LinearAlgebra.Matrix.DotProduct
import Mathlib.Algebra.Order.Field.Rat

/-! Correctness of the exact-arithmetic model of `Simple.counterexample` (`Model/Tzeng.lean`). -/

set_option linter.unusedSectionVars false

namespace Genlm.Tzeng
open Matrix Genlm.Cert

/-! ### (a) soundness of a returned counterexample (no well-formedness needed) -/

section SoundA
variable {σ K : Type} [DecidableEq σ] [DecidableEq K] [Field K]

/-- every worklist entry carries the backward vectors of its word -/
def WorkOK (A B : MAut σ K) (work : List (TzItem σ K)) : Prop :=
  ∀ it ∈ work, it.2.1 = A.bwd it.1 ∧ it.2.2 = B.bwd it.1

theorem tzInner_inl_tz (A B : MAut σ K) (w : List σ) :
    ∀ (as : List σ) (work : List (TzItem σ K)) (basis : List (Vec K)) (c : List σ × K × K),
      tzInner A B w (A.bwd w) (B.bwd w) as work basis = .inl c →
      c.2.1 = A.weight c.1 ∧ c.2.2 = B.weight c.1 ∧ c.2.1 ≠ c.2.2
  | [], _, _, _, h => by simp [tzInner] at h
  | a :: as, work, basis, c, h => by
    rw [tzInner] at h
    simp only at h
    split at h
    · rename_i hne
      cases h
      exact ⟨rfl, rfl, hne⟩
    · split at h
      · exact tzInner_inl_tz A B w as _ _ c h
      · exact tzInner_inl_tz A B w as _ _ c h

theorem tzInner_inr_work_tz (A B : MAut σ K) (w : List σ) :
    ∀ (as : List σ) (work : List (TzItem σ K)) (basis : List (Vec K))
      (r : List (TzItem σ K) × List (Vec K)),
      tzInner A B w (A.bwd w) (B.bwd w) as work basis = .inr r →
      WorkOK A B work → WorkOK A B r.1
  | [], _, _, _, h, hw => by
    simp only [tzInner, Sum.inr.injEq] at h
    subst h; exact hw
  | a :: as, work, basis, r, h, hw => by
    rw [tzInner] at h
    simp only at h
    split at h
    · cases h
    · split at h
      · exact tzInner_inr_work_tz A B w as _ _ r h hw
      · refine tzInner_inr_work_tz A B w as _ _ r h ?_
        intro it hit
        rcases List.mem_cons.1 hit with rfl | hit
        · exact ⟨rfl, rfl⟩
        · exact hw it hit

theorem tzLoop_sound_tz (al : List σ) (A B : MAut σ K) :
    ∀ (f : Nat) (work : List (TzItem σ K)) (basis : List (Vec K)) (c : List σ × K × K),
      tzLoop al A B f work basis = some (some c) → WorkOK A B work →
      c.2.1 = A.weight c.1 ∧ c.2.2 = B.weight c.1 ∧ c.2.1 ≠ c.2.2
  | _, [], _, _, h, _ => by simp [tzLoop] at h
  | 0, _ :: _, _, _, h, _ => by simp [tzLoop] at h
  | f + 1, (w, VA, VB) :: work, basis, c, h, hw => by
    obtain ⟨h1, h2⟩ := hw (w, VA, VB) (by simp)
    simp only at h1 h2
    subst h1 h2
    have hw' : WorkOK A B work := fun it hit => hw it (List.mem_cons_of_mem _ hit)
    rw [tzLoop] at h
    split at h
    · rename_i c' hc
      simp only [Option.some.injEq] at h
      subst h
      exact tzInner_inl_tz A B w al work basis _ hc
    · rename_i work' basis' hc
      exact tzLoop_sound_tz al A B f work' basis' c h
        (tzInner_inr_work_tz A B w al work basis _ hc hw')

/-- **(a) Soundness of a returned counterexample**, for every iteration order of the alphabet and
every fuel; no well-formedness assumption. -/
theorem tzSearch_sound (al : List σ) (A B : MAut σ K) (f : Nat) (w : List σ) (va vb : K)
    (h : tzSearch al A B f = some (some (w, va, vb))) :
    va = A.weight w ∧ vb = B.weight w ∧ va ≠ vb := by
  rw [tzSearch] at h
  simp only at h
  split at h
  · rename_i hne
    simp only [Option.some.injEq, Prod.mk.injEq] at h
    obtain ⟨rfl, rfl, rfl⟩ := h
    exact ⟨rfl, rfl, hne⟩
  · split at h
    · simp at h
    · exact tzLoop_sound_tz al A B f _ _ (w, va, vb) h (by
        intro it hit
        simp only [List.mem_singleton] at hit
        subst hit
        exact ⟨rfl, rfl⟩)

theorem _root_.Genlm.counterexampleQ_sound (A B : MAut σ K) (f : Nat) (w : List σ) (va vb : K)
    (h : counterexampleQ A B f = some (some (w, va, vb))) :
    va = A.weight w ∧ vb = B.weight w ∧ va ≠ vb :=
  tzSearch_sound _ A B f w va vb h

end SoundA

/-! ### bridge: Gram–Schmidt residual on functions `Fin d → K` -/

section Bridge
variable {K : Type} [Field K]

theorem vsub_length_tz : ∀ (x y : Vec K), x.length = y.length → (vsub x y).length = x.length
  | [], [], _ => rfl
  | a :: x, b :: y, h => by simp [vsub, vsub_length_tz x y (by simpa using h)]

theorem toFn_vsub_tz : ∀ (d : Nat) (x y : Vec K), x.length = d → y.length = d →
    toFn d (vsub x y) = toFn d x - toFn d y
  | 0, _, _, _, _ => by funext i; exact i.elim0
  | d+1, a :: x, b :: y, hx, hy => by
    have ih := toFn_vsub_tz d x y (by simpa using hx) (by simpa using hy)
    funext i
    refine Fin.cases ?_ (fun j => ?_) i
    · rfl
    · simpa [vsub, toFn_cons_succ] using congrFun ih j

/-- in a field, the Python test `u - q = u` is the test `q = 0` -/
theorem vsub_eq_self_iff_tz [DecidableEq K] : ∀ (u q : Vec K), u.length = q.length →
    (vsub u q = u ↔ isZeroVec q = true)
  | [], [], _ => by simp [vsub, isZeroVec]
  | a :: u, b :: q, h => by
    have ih := vsub_eq_self_iff_tz u q (by simpa using h)
    simp only [isZeroVec] at ih
    simp [vsub, isZeroVec, ih]

/-- function-level Gram–Schmidt residual (`proj`) -/
def projF {d : Nat} (x : Fin d → K) : List (Fin d → K) → (Fin d → K)
  | [] => x
  | q :: Q => projF (x - ((q ⬝ᵥ x) / (q ⬝ᵥ q)) • q) Q

theorem projQ_spec_tz (d : Nat) : ∀ (Q : List (Vec K)) (u : Vec K), (∀ q ∈ Q, q.length = d) →
    u.length = d →
    (projQ u Q).length = d ∧ toFn d (projQ u Q) = projF (toFn d u) (Q.map (toFn d))
  | [], u, _, hu => ⟨hu, rfl⟩
  | q :: Q, u, hQ, hu => by
    have hq : q.length = d := hQ q (by simp)
    have hs : (smul (dot q u / dot q q) q).length = d := by simp [hq]
    have hl : (vsub u (smul (dot q u / dot q q) q)).length = d := by
      rw [vsub_length_tz _ _ (by rw [hu, hs]), hu]
    obtain ⟨h1, h2⟩ := projQ_spec_tz d Q _ (fun p hp => hQ p (by simp [hp])) hl
    refine ⟨h1, ?_⟩
    rw [projQ, h2, toFn_vsub_tz d _ _ hu hs, toFn_smul d _ _ hq, dot_eq_dotProduct d _ _ hq hu,
      dot_eq_dotProduct d _ _ hq hq]
    rfl

variable {d : Nat}

theorem projF_sub_mem_tz (S : Submodule K (Fin d → K)) : ∀ (Q : List (Fin d → K)) (x : Fin d → K),
    (∀ q ∈ Q, q ∈ S) → x - projF x Q ∈ S
  | [], x, _ => by simp [projF]
  | q :: Q, x, h => by
    have ih := projF_sub_mem_tz S Q (x - ((q ⬝ᵥ x) / (q ⬝ᵥ q)) • q) (fun p hp => h p (by simp [hp]))
    have hq : ((q ⬝ᵥ x) / (q ⬝ᵥ q)) • q ∈ S := S.smul_mem _ (h q (by simp))
    have := S.add_mem hq ih
    rw [projF]
    convert this using 1
    abel

theorem projF_orth_aux_tz : ∀ (Q : List (Fin d → K)) (x y : Fin d → K),
    (∀ q ∈ Q, y ⬝ᵥ q = 0) → y ⬝ᵥ x = 0 → y ⬝ᵥ projF x Q = 0
  | [], _, _, _, hx => hx
  | q :: Q, x, y, hQ, hx => by
    rw [projF]
    refine projF_orth_aux_tz Q _ y (fun p hp => hQ p (by simp [hp])) ?_
    rw [dotProduct_sub, dotProduct_smul, hx, hQ q (by simp)]
    simp

theorem projF_orth_tz : ∀ (Q : List (Fin d → K)) (x : Fin d → K),
    Q.Pairwise (fun p q => p ⬝ᵥ q = 0) → (∀ q ∈ Q, q ⬝ᵥ q ≠ 0) → ∀ q ∈ Q, q ⬝ᵥ projF x Q = 0
  | [], _, _, _, _, h => by simp at h
  | q :: Q, x, hp, hn, p, hpm => by
    rw [List.pairwise_cons] at hp
    rw [projF]
    rcases List.mem_cons.1 hpm with rfl | hpm
    · refine projF_orth_aux_tz Q _ p hp.1 ?_
      rw [dotProduct_sub, dotProduct_smul, smul_eq_mul, div_mul_cancel₀ _ (hn p (by simp)), sub_self]
    · exact projF_orth_tz Q _ hp.2 (fun r hr => hn r (by simp [hr])) p hpm

theorem isZeroVec_iff_tz [DecidableEq K] (v : Vec K) (h : v.length = d) :
    isZeroVec v = true ↔ toFn d v = 0 := by
  simp only [isZeroVec, List.all_eq_true, decide_eq_true_eq]
  constructor
  · intro hv
    funext i
    exact hv _ (getD_mem_lt v i 0 (by omega))
  · intro hv x hx
    obtain ⟨i, hi, rfl⟩ := List.getElem_of_mem hx
    have := congrFun hv ⟨i, by omega⟩
    simpa [toFn, List.getD_eq_getElem?_getD, List.getElem?_eq_getElem hi] using this

/-- pairwise orthogonal non-isotropic vectors of `K^d`: at most `d` of them -/
theorem orth_length_le_tz (Q : List (Fin d → K)) (hp : Q.Pairwise (fun p q => p ⬝ᵥ q = 0))
    (hn : ∀ q ∈ Q, q ⬝ᵥ q ≠ 0) : Q.length ≤ d := by
  let P : Matrix (Fin Q.length) (Fin d) K := Matrix.of fun i l => Q[(i : Nat)] l
  let R : Matrix (Fin d) (Fin Q.length) K := Matrix.of fun l j => Q[(j : Nat)] l / (Q[(j : Nat)] ⬝ᵥ Q[(j : Nat)])
  have h1 : P * R = 1 := by
    ext i j
    have : (P * R) i j = (Q[(i : Nat)] ⬝ᵥ Q[(j : Nat)]) / (Q[(j : Nat)] ⬝ᵥ Q[(j : Nat)]) := by
      simp only [Matrix.mul_apply, P, R, Matrix.of_apply, dotProduct, div_eq_mul_inv, Finset.sum_mul,
        mul_assoc]
    rw [this, Matrix.one_apply]
    split
    · rename_i hij; subst hij
      exact div_self (hn _ (List.getElem_mem _))
    · rename_i hij
      have hij' : (i : Nat) ≠ j := fun h => hij (Fin.ext h)
      rw [List.pairwise_iff_getElem] at hp
      rcases Nat.lt_or_gt_of_ne hij' with hlt | hlt
      · rw [hp i j i.2 j.2 hlt, zero_div]
      · rw [dotProduct_comm, hp j i j.2 i.2 hlt, zero_div]
  have h2 := rank_mul_le_left P R
  rw [h1, rank_one, Fintype.card_fin] at h2
  exact h2.trans (rank_le_width P)

end Bridge

/-! ### (b) soundness of the answer "equivalent" -/

section SoundB
variable {σ K : Type} [DecidableEq σ] [DecidableEq K] [Field K]
variable (al : List σ) (A B : MAut σ K)

/-- the stacked backward vector `[M_w · stop_A ; N_w · stop_B]` as a function -/
def bwF (w : List σ) : Fin (A.dim + B.dim) → K := toFn (A.dim + B.dim) (A.bwd w ++ B.bwd w)

/-- the matrix `diag(M_a, N_a)` -/
def Mx (a : σ) : Matrix (Fin (A.dim + B.dim)) (Fin (A.dim + B.dim)) K :=
  toMx (A.dim + B.dim) (A.dim + B.dim) ((A.diff B).mat a)

/-- vectors `x` with `[start_A, -start_B] · x = 0` -/
def kerPhi : Submodule K (Fin (A.dim + B.dim) → K) where
  carrier := {x | toFn (A.dim + B.dim) (A.diff B).start ⬝ᵥ x = 0}
  add_mem' := by
    intro a b ha hb
    change _ ⬝ᵥ _ = 0 at ha hb ⊢
    rw [dotProduct_add, ha, hb, add_zero]
  zero_mem' := by simp
  smul_mem' := by
    intro c x hx
    change _ ⬝ᵥ _ = 0 at hx ⊢
    rw [dotProduct_smul, hx, smul_zero]

/-- the words whose stacked backward vector is still to be examined: the extensions `a :: w` of the
entry being processed by the remaining symbols `as`, and all extensions of the worklist entries -/
def pend (as : List σ) (w : List σ) (work : List (TzItem σ K)) : Set (List σ) :=
  {x | (∃ a ∈ as, x = a :: w) ∨ (∃ it ∈ work, ∃ a ∈ al, x = a :: it.1)}

/-- span of the basis and of the pending vectors -/
def Uspan (basis : List (Vec K)) (Pw : Set (List σ)) : Submodule K (Fin (A.dim + B.dim) → K) :=
  Submodule.span K ({x | ∃ q ∈ basis, toFn (A.dim + B.dim) q = x} ∪ {x | ∃ w ∈ Pw, bwF A B w = x})

variable {al A B}

theorem mem_Uspan_basis_tz {basis : List (Vec K)} {Pw : Set (List σ)} {q : Vec K} (h : q ∈ basis) :
    toFn (A.dim + B.dim) q ∈ Uspan A B basis Pw :=
  Submodule.subset_span (Or.inl ⟨q, h, rfl⟩)

theorem mem_Uspan_pend_tz {basis : List (Vec K)} {Pw : Set (List σ)} {w : List σ} (h : w ∈ Pw) :
    bwF A B w ∈ Uspan A B basis Pw :=
  Submodule.subset_span (Or.inr ⟨w, h, rfl⟩)

theorem Uspan_le_tz {basis : List (Vec K)} {Pw : Set (List σ)}
    {T : Submodule K (Fin (A.dim + B.dim) → K)}
    (h1 : ∀ q ∈ basis, toFn (A.dim + B.dim) q ∈ T) (h2 : ∀ w ∈ Pw, bwF A B w ∈ T) :
    Uspan A B basis Pw ≤ T := by
  refine Submodule.span_le.2 ?_
  rintro x (⟨q, hq, rfl⟩ | ⟨w, hw, rfl⟩)
  · exact h1 q hq
  · exact h2 w hw

theorem bwF_cons_tz (hA : A.wf = true) (hB : B.wf = true) (a : σ) (w : List σ) :
    bwF A B (a :: w) = Mx A B a *ᵥ bwF A B w := by
  have hC := diff_wf A B hA hB
  rw [bwF, bwF, ← diff_bwd A B hA, ← diff_bwd A B hA, Mx]
  exact toFn_matVec (A.dim + B.dim) _ _ (mat_length (A.diff B) hC a)
    (mat_row_length (A.diff B) hC a) (bwd_length (A.diff B) hC w)

theorem phi_bwF_tz (hA : A.wf = true) (hB : B.wf = true) (w : List σ) :
    toFn (A.dim + B.dim) (A.diff B).start ⬝ᵥ bwF A B w = A.weight w - B.weight w := by
  have hC := diff_wf A B hA hB
  rw [bwF, ← diff_bwd A B hA, ← diff_weight A B hA,
    ← dot_eq_dotProduct (A.dim + B.dim) _ _ ((wf_iff (A.diff B)).1 hC).1 (bwd_length (A.diff B) hC w)]
  rfl

theorem bwF_absent_tz (hA : A.wf = true) (a : σ) (w : List σ) (h1 : a ∉ A.syms) (h2 : a ∉ B.syms) :
    bwF A B (a :: w) = 0 := by
  rw [bwF, ← diff_bwd A B hA]
  show toFn _ (matVec ((A.diff B).mat a) _) = 0
  rw [diff_mat, MAut.mat, MAut.mat, matLook_not_mem _ _ _ h1, matLook_not_mem _ _ _ h2, Cert.blockDiag_zero,
    matVec_zeroMat, toFn_vzero]

variable (al A B)

/-- the loop invariant for soundness of "equivalent" -/
structure InvB (basis : List (Vec K)) (Pw : Set (List σ)) : Prop where
  len : ∀ q ∈ basis, q.length = A.dim + B.dim
  ker : ∀ q ∈ basis, toFn (A.dim + B.dim) q ∈ kerPhi A B
  clo : ∀ q ∈ basis, ∀ a ∈ al, Mx A B a *ᵥ toFn (A.dim + B.dim) q ∈ Uspan A B basis Pw

variable {al A B}

theorem InvB.mono_tz {basis : List (Vec K)} {Pw Pw' : Set (List σ)} (h : InvB al A B basis Pw)
    (hle : Uspan A B basis Pw ≤ Uspan A B basis Pw') : InvB al A B basis Pw' :=
  ⟨h.len, h.ker, fun q hq a ha => hle (h.clo q hq a ha)⟩

theorem InvB.clo_span_tz {basis : List (Vec K)} {Pw : Set (List σ)} (h : InvB al A B basis Pw)
    (a : σ) (ha : a ∈ al) (x : Fin (A.dim + B.dim) → K) (hx : x ∈ Uspan A B basis ∅) :
    Mx A B a *ᵥ x ∈ Uspan A B basis Pw := by
  induction hx using Submodule.span_induction with
  | mem x hx =>
    rcases hx with ⟨q, hq, rfl⟩ | ⟨w, hw, _⟩
    · exact h.clo q hq a ha
    · exact absurd hw (Set.notMem_empty w)
  | zero => simp
  | add x y _ _ hx hy => rw [mulVec_add]; exact Submodule.add_mem _ hx hy
  | smul c x _ hx => rw [mulVec_smul]; exact Submodule.smul_mem _ c hx

theorem resid_mem_tz {d : Nat} (basis : List (Vec K)) (hlen : ∀ q ∈ basis, q.length = d)
    (u : Vec K) (hu : u.length = d) (S : Submodule K (Fin d → K))
    (hS : ∀ q ∈ basis, toFn d q ∈ S) :
    toFn d u - toFn d (projQ u basis) ∈ S := by
  rw [(projQ_spec_tz _ basis u hlen hu).2]
  refine projF_sub_mem_tz S _ _ ?_
  intro x hx
  obtain ⟨q, hq, rfl⟩ := List.mem_map.1 hx
  exact hS q hq

theorem stack_length_tz (hA : A.wf = true) (hB : B.wf = true) (w : List σ) :
    (A.bwd w ++ B.bwd w).length = A.dim + B.dim := by
  rw [List.length_append, bwd_length A hA, bwd_length B hB]

/-- inner step, residual zero: the vector was already in the span -/
theorem step_zero_tz (hA : A.wf = true) (hB : B.wf = true) (a : σ) (as w : List σ)
    (work : List (TzItem σ K)) (basis : List (Vec K))
    (inv : InvB al A B basis (pend al (a :: as) w work))
    (hz : isZeroVec (projQ (A.bwd (a :: w) ++ B.bwd (a :: w)) basis) = true) :
    InvB al A B basis (pend al as w work) ∧
      Uspan A B basis (pend al (a :: as) w work) ≤ Uspan A B basis (pend al as w work) := by
  have hu := stack_length_tz hA hB (a :: w)
  have hq0 := (isZeroVec_iff_tz _ (projQ_spec_tz _ basis _ inv.len hu).1).1 hz
  have hmem : bwF A B (a :: w) ∈ Uspan A B basis (pend al as w work) := by
    have := resid_mem_tz basis inv.len _ hu (Uspan A B basis (pend al as w work))
      (fun q hq => mem_Uspan_basis_tz hq)
    rwa [hq0, sub_zero] at this
  have hle : Uspan A B basis (pend al (a :: as) w work) ≤ Uspan A B basis (pend al as w work) := by
    refine Uspan_le_tz (fun q hq => mem_Uspan_basis_tz hq) ?_
    rintro x (⟨b, hb, rfl⟩ | hx)
    · rcases List.mem_cons.1 hb with rfl | hb
      · exact hmem
      · exact mem_Uspan_pend_tz (Or.inl ⟨b, hb, rfl⟩)
    · exact mem_Uspan_pend_tz (Or.inr hx)
  exact ⟨inv.mono_tz hle, hle⟩

/-- inner step, residual non-zero: push -/
theorem step_push_tz (hA : A.wf = true) (hB : B.wf = true) (a : σ) (as w : List σ)
    (work : List (TzItem σ K)) (basis : List (Vec K)) (VA VB : Vec K)
    (inv : InvB al A B basis (pend al (a :: as) w work))
    (hw : A.weight (a :: w) = B.weight (a :: w)) :
    InvB al A B (basis ++ [projQ (A.bwd (a :: w) ++ B.bwd (a :: w)) basis])
        (pend al as w ((a :: w, VA, VB) :: work)) ∧
      Uspan A B basis (pend al (a :: as) w work) ≤
        Uspan A B (basis ++ [projQ (A.bwd (a :: w) ++ B.bwd (a :: w)) basis])
          (pend al as w ((a :: w, VA, VB) :: work)) := by
  set u := A.bwd (a :: w) ++ B.bwd (a :: w) with hudef
  set q := projQ u basis with hqdef
  set T := Uspan A B (basis ++ [q]) (pend al as w ((a :: w, VA, VB) :: work)) with hT
  have hu : u.length = A.dim + B.dim := stack_length_tz hA hB (a :: w)
  have hql := (projQ_spec_tz _ basis u inv.len hu).1
  have hFu : toFn (A.dim + B.dim) u = bwF A B (a :: w) := rfl
  have hbT : ∀ p ∈ basis, toFn (A.dim + B.dim) p ∈ T := fun p hp =>
    mem_Uspan_basis_tz (List.mem_append_left _ hp)
  have hqT : toFn (A.dim + B.dim) q ∈ T := mem_Uspan_basis_tz (by simp)
  have hres := resid_mem_tz basis inv.len u hu
  have huT : bwF A B (a :: w) ∈ T := by
    have := T.add_mem (hres T hbT) hqT
    rwa [sub_add_cancel] at this
  have hle : Uspan A B basis (pend al (a :: as) w work) ≤ T := by
    refine Uspan_le_tz hbT ?_
    rintro x (⟨b, hb, rfl⟩ | ⟨it, hit, b, hb, rfl⟩)
    · rcases List.mem_cons.1 hb with rfl | hb
      · exact huT
      · exact mem_Uspan_pend_tz (Or.inl ⟨b, hb, rfl⟩)
    · exact mem_Uspan_pend_tz (Or.inr ⟨it, List.mem_cons_of_mem _ hit, b, hb, rfl⟩)
  refine ⟨⟨?_, ?_, ?_⟩, hle⟩
  · intro p hp
    rcases List.mem_append.1 hp with hp | hp
    · exact inv.len p hp
    · rw [List.mem_singleton.1 hp]; exact hql
  · intro p hp
    rcases List.mem_append.1 hp with hp | hp
    · exact inv.ker p hp
    · rw [List.mem_singleton.1 hp]
      have h1 : toFn (A.dim + B.dim) u ∈ kerPhi A B := by
        show _ ⬝ᵥ _ = 0
        rw [hFu, phi_bwF_tz hA hB, hw, sub_self]
      have := (kerPhi A B).sub_mem h1 (hres (kerPhi A B) inv.ker)
      rwa [sub_sub_cancel] at this
  · intro p hp b hb
    rcases List.mem_append.1 hp with hp | hp
    · exact hle (inv.clo p hp b hb)
    · rw [List.mem_singleton.1 hp]
      have h1 : Mx A B b *ᵥ toFn (A.dim + B.dim) u ∈ T := by
        rw [hFu, ← bwF_cons_tz hA hB]
        exact mem_Uspan_pend_tz (Or.inr ⟨(a :: w, VA, VB), by simp, b, hb, rfl⟩)
      have h2 : Mx A B b *ᵥ (toFn (A.dim + B.dim) u - toFn (A.dim + B.dim) q) ∈ T :=
        hle (inv.clo_span_tz b hb _ (hres _ (fun p hp => mem_Uspan_basis_tz hp)))
      have := T.sub_mem h1 h2
      rwa [← mulVec_sub, sub_sub_cancel] at this

theorem tzInner_invB_tz (hA : A.wf = true) (hB : B.wf = true) (w : List σ) :
    ∀ (as : List σ) (work : List (TzItem σ K)) (basis : List (Vec K))
      (r : List (TzItem σ K) × List (Vec K)),
      tzInner A B w (A.bwd w) (B.bwd w) as work basis = .inr r →
      InvB al A B basis (pend al as w work) →
      InvB al A B r.2 (pend al [] w r.1) ∧
        Uspan A B basis (pend al as w work) ≤ Uspan A B r.2 (pend al [] w r.1)
  | [], _, _, _, h, inv => by
    simp only [tzInner, Sum.inr.injEq] at h
    subst h; exact ⟨inv, le_rfl⟩
  | a :: as, work, basis, r, h, inv => by
    rw [tzInner] at h
    simp only at h
    split at h
    · cases h
    · rename_i heq
      have hw : A.weight (a :: w) = B.weight (a :: w) := not_not.1 heq
      split at h
      · rename_i hz
        obtain ⟨i1, l1⟩ := step_zero_tz hA hB a as w work basis inv hz
        obtain ⟨i2, l2⟩ := tzInner_invB_tz hA hB w as _ _ r h i1
        exact ⟨i2, l1.trans l2⟩
      · obtain ⟨i1, l1⟩ := step_push_tz hA hB a as w work basis
          (matVec (A.mat a) (A.bwd w)) (matVec (B.mat a) (B.bwd w)) inv hw
        obtain ⟨i2, l2⟩ := tzInner_invB_tz hA hB w as _ _ r h i1
        exact ⟨i2, l1.trans l2⟩

omit [DecidableEq σ] [DecidableEq K] [Field K] in
theorem pend_nil_tz (w : List σ) : pend (K := K) al [] w [] = ∅ := by
  ext x; simp [pend]

omit [DecidableEq σ] [DecidableEq K] [Field K] in
theorem pend_pop_tz (w w' : List σ) (VA VB : Vec K) (work : List (TzItem σ K)) :
    pend al [] w' ((w, VA, VB) :: work) = pend al al w work := by
  ext x; simp [pend]

omit [DecidableEq σ] [DecidableEq K] [Field K] in
theorem pend_irrel_tz (w w' : List σ) (work : List (TzItem σ K)) :
    pend al [] w work = pend al [] w' work := by
  ext x; simp [pend]

theorem tzLoop_invB_tz (hA : A.wf = true) (hB : B.wf = true) :
    ∀ (f : Nat) (work : List (TzItem σ K)) (basis : List (Vec K)),
      tzLoop al A B f work basis = some none → WorkOK A B work →
      InvB al A B basis (pend al [] [] work) →
      ∃ basis', InvB al A B basis' ∅ ∧
        Uspan A B basis (pend al [] [] work) ≤ Uspan A B basis' ∅
  | _, [], basis, _, _, inv => by
    rw [pend_nil_tz] at inv ⊢
    exact ⟨basis, inv, le_rfl⟩
  | 0, _ :: _, _, h, _, _ => by simp [tzLoop] at h
  | f + 1, (w, VA, VB) :: work, basis, h, hw, inv => by
    obtain ⟨h1, h2⟩ := hw (w, VA, VB) (by simp)
    simp only at h1 h2
    subst h1 h2
    have hw' : WorkOK A B work := fun it hit => hw it (List.mem_cons_of_mem _ hit)
    rw [pend_pop_tz] at inv ⊢
    rw [tzLoop] at h
    split at h
    · simp at h
    · rename_i work' basis' hc
      obtain ⟨i1, l1⟩ := tzInner_invB_tz hA hB w al work basis _ hc inv
      simp only at i1 l1
      rw [pend_irrel_tz w []] at i1 l1
      obtain ⟨b', i2, l2⟩ := tzLoop_invB_tz hA hB f work' basis' h
        (tzInner_inr_work_tz A B w al work basis _ hc hw') i1
      exact ⟨b', i2, l1.trans l2⟩

theorem final_tz (hA : A.wf = true) (hB : B.wf = true)
    (hal : ∀ a, a ∈ A.syms ∨ a ∈ B.syms → a ∈ al) (basis : List (Vec K))
    (inv : InvB al A B basis ∅) (h0 : bwF A B [] ∈ Uspan A B basis ∅) :
    ∀ w, A.weight w = B.weight w := by
  have hall : ∀ w, bwF A B w ∈ Uspan A B basis ∅ := by
    intro w
    induction w with
    | nil => exact h0
    | cons a w ih =>
      by_cases ha : a ∈ al
      · rw [bwF_cons_tz hA hB]; exact inv.clo_span_tz a ha _ ih
      · have h1 : a ∉ A.syms := fun h => ha (hal a (Or.inl h))
        have h2 : a ∉ B.syms := fun h => ha (hal a (Or.inr h))
        rw [bwF_absent_tz hA a w h1 h2]; exact Submodule.zero_mem _
  have hker : Uspan A B basis ∅ ≤ kerPhi A B :=
    Uspan_le_tz inv.ker (fun w hw => absurd hw (Set.notMem_empty w))
  intro w
  have : toFn (A.dim + B.dim) (A.diff B).start ⬝ᵥ bwF A B w = 0 := hker (hall w)
  rw [phi_bwF_tz hA hB] at this
  exact sub_eq_zero.1 this

/-- **(b) Soundness of the answer "equivalent"**, for every iteration order `al` of an alphabet
containing the symbols of both automata, and every fuel. -/
theorem tzSearch_equiv_sound (hA : A.wf = true) (hB : B.wf = true)
    (hal : ∀ a, a ∈ A.syms ∨ a ∈ B.syms → a ∈ al) (f : Nat)
    (h : tzSearch al A B f = some none) : ∀ w, A.weight w = B.weight w := by
  have heta : (A.stop ++ B.stop).length = A.dim + B.dim := stack_length_tz hA hB []
  rw [tzSearch] at h
  simp only at h
  split at h
  · simp at h
  · rename_i heq
    have hw0 : A.weight [] = B.weight [] := not_not.1 heq
    split at h
    · rename_i hz
      refine final_tz hA hB hal [] ⟨by simp, by simp, by simp⟩ ?_
      have : bwF A B [] = 0 := (isZeroVec_iff_tz _ heta).1 hz
      rw [this]; exact Submodule.zero_mem _
    · have inv0 : InvB al A B [A.stop ++ B.stop] (pend al [] [] [([], A.stop, B.stop)]) := by
        refine ⟨?_, ?_, ?_⟩
        · intro q hq; rw [List.mem_singleton.1 hq]; exact heta
        · intro q hq; rw [List.mem_singleton.1 hq]
          show _ ⬝ᵥ bwF A B [] = 0
          rw [phi_bwF_tz hA hB, hw0, sub_self]
        · intro q hq a ha; rw [List.mem_singleton.1 hq]
          show Mx A B a *ᵥ bwF A B [] ∈ _
          rw [← bwF_cons_tz hA hB]
          exact mem_Uspan_pend_tz (Or.inr ⟨([], A.stop, B.stop), by simp, a, ha, rfl⟩)
      obtain ⟨b', i2, l2⟩ := tzLoop_invB_tz hA hB f _ _ h (by
        intro it hit
        simp only [List.mem_singleton] at hit
        subst hit
        exact ⟨rfl, rfl⟩) inv0
      exact final_tz hA hB hal b' i2 (l2 (mem_Uspan_basis_tz (q := A.stop ++ B.stop) (by simp)))

omit [DecidableEq K] [Field K] in
theorem diffSyms_complete_tz (A B : MAut σ K) : ∀ a, a ∈ A.syms ∨ a ∈ B.syms → a ∈ A.diffSyms B :=
  fun a h => (mem_diffSyms A B a).2 h

theorem _root_.Genlm.counterexampleQ_equiv_sound (A B : MAut σ K) (hA : A.wf = true)
    (hB : B.wf = true) (f : Nat) (h : counterexampleQ A B f = some none) :
    ∀ w, A.weight w = B.weight w :=
  tzSearch_equiv_sound hA hB (diffSyms_complete_tz A B) f h

end SoundB

/-! ### (c) termination and the decision procedure -/

/-- the field has no non-zero isotropic vector (`x · x = 0 → x = 0`): true in every ordered field
(`anisotropic_of_ordered`), false e.g. over `ℂ` or finite fields, where Gram–Schmidt divides by `0`. -/
def Anisotropic (K : Type) [Field K] : Prop :=
  ∀ (n : Nat) (x : Fin n → K), x ⬝ᵥ x = 0 → x = 0

theorem anisotropic_of_ordered (K : Type) [Field K] [LinearOrder K] [IsStrictOrderedRing K] :
    Anisotropic K := fun _ _ h => dotProduct_self_eq_zero.1 h

theorem anisotropic_rat : Anisotropic ℚ := anisotropic_of_ordered ℚ

section Term
variable {σ K : Type} [DecidableEq σ] [DecidableEq K] [Field K]

/-- the basis is an orthogonal family of non-isotropic vectors of `K^d` -/
structure InvC (d : Nat) (basis : List (Vec K)) : Prop where
  len : ∀ q ∈ basis, q.length = d
  nz : ∀ q ∈ basis, toFn d q ⬝ᵥ toFn d q ≠ 0
  orth : basis.Pairwise (fun p q => toFn d p ⬝ᵥ toFn d q = 0)

theorem InvC.length_le_tz {d : Nat} {basis : List (Vec K)} (inv : InvC d basis) :
    basis.length ≤ d := by
  have := orth_length_le_tz (basis.map (toFn d)) (List.pairwise_map.2 inv.orth) (by
    intro x hx
    obtain ⟨q, hq, rfl⟩ := List.mem_map.1 hx
    exact inv.nz q hq)
  simpa using this

theorem InvC.push_tz (hK : Anisotropic K) {d : Nat} {basis : List (Vec K)} (inv : InvC d basis)
    (u : Vec K) (hu : u.length = d) (hz : ¬ isZeroVec (projQ u basis) = true) :
    InvC d (basis ++ [projQ u basis]) := by
  obtain ⟨hql, hqF⟩ := projQ_spec_tz d basis u inv.len hu
  have hq0 : toFn d (projQ u basis) ≠ 0 := fun h => hz ((isZeroVec_iff_tz _ hql).2 h)
  refine ⟨?_, ?_, ?_⟩
  · intro p hp
    rcases List.mem_append.1 hp with hp | hp
    · exact inv.len p hp
    · rw [List.mem_singleton.1 hp]; exact hql
  · intro p hp
    rcases List.mem_append.1 hp with hp | hp
    · exact inv.nz p hp
    · rw [List.mem_singleton.1 hp]; exact fun h => hq0 (hK d _ h)
  · refine List.pairwise_append.2 ⟨inv.orth, List.pairwise_singleton _ _, ?_⟩
    intro p hp b hb
    rw [List.mem_singleton.1 hb, hqF]
    refine projF_orth_tz (basis.map (toFn d)) _ (List.pairwise_map.2 inv.orth) ?_ _
      (List.mem_map_of_mem hp)
    intro x hx
    obtain ⟨q, hq, rfl⟩ := List.mem_map.1 hx
    exact inv.nz q hq

theorem tzInner_invC_tz (hK : Anisotropic K) (A B : MAut σ K) (hA : A.wf = true) (hB : B.wf = true)
    (w : List σ) (VA VB : Vec K) :
    ∀ (as : List σ) (work : List (TzItem σ K)) (basis : List (Vec K))
      (r : List (TzItem σ K) × List (Vec K)),
      tzInner A B w VA VB as work basis = .inr r → InvC (A.dim + B.dim) basis →
      InvC (A.dim + B.dim) r.2 ∧ r.1.length + basis.length = work.length + r.2.length
  | [], _, _, _, h, inv => by
    simp only [tzInner, Sum.inr.injEq] at h
    subst h; exact ⟨inv, rfl⟩
  | a :: as, work, basis, r, h, inv => by
    rw [tzInner] at h
    simp only at h
    split at h
    · cases h
    · split at h
      · exact tzInner_invC_tz hK A B hA hB w VA VB as _ _ r h inv
      · rename_i hz
        have hu : (matVec (A.mat a) VA ++ matVec (B.mat a) VB).length = A.dim + B.dim := by
          rw [List.length_append, matVec_length, matVec_length, mat_length A hA, mat_length B hB]
        obtain ⟨i2, l2⟩ := tzInner_invC_tz hK A B hA hB w VA VB as _ _ r h (inv.push_tz hK _ hu hz)
        refine ⟨i2, ?_⟩
        simp only [List.length_cons, List.length_append, List.length_nil] at l2
        omega

theorem tzLoop_ne_none_tz (hK : Anisotropic K) (al : List σ) (A B : MAut σ K) (hA : A.wf = true)
    (hB : B.wf = true) :
    ∀ (f : Nat) (work : List (TzItem σ K)) (basis : List (Vec K)),
      InvC (A.dim + B.dim) basis → work.length + (A.dim + B.dim) ≤ f + basis.length →
      tzLoop al A B f work basis ≠ none
  | _, [], _, _, _ => by simp [tzLoop]
  | 0, _ :: _, _, inv, h => by
    have := inv.length_le_tz
    simp only [List.length_cons] at h
    omega
  | f + 1, (w, VA, VB) :: work, basis, inv, h => by
    rw [tzLoop]
    split
    · simp
    · rename_i work' basis' hc
      obtain ⟨i1, l1⟩ := tzInner_invC_tz hK A B hA hB w VA VB al work basis _ hc inv
      refine tzLoop_ne_none_tz hK al A B hA hB f work' basis' i1 ?_
      simp only [List.length_cons] at h l1
      omega

/-- **(c) Termination**: over a field without isotropic vectors (e.g. any ordered field), fuel
`A.dim + B.dim` (= maximal number of worklist pops) is always enough. -/
theorem tzSearch_terminates (hK : Anisotropic K) (al : List σ) (A B : MAut σ K) (hA : A.wf = true)
    (hB : B.wf = true) (f : Nat) (hf : A.dim + B.dim ≤ f) : tzSearch al A B f ≠ none := by
  have heta : (A.stop ++ B.stop).length = A.dim + B.dim := stack_length_tz hA hB []
  rw [tzSearch]
  simp only
  split
  · simp
  · split
    · simp
    · rename_i hz
      refine tzLoop_ne_none_tz hK al A B hA hB f _ _ ⟨?_, ?_, List.pairwise_singleton _ _⟩
        (by simp only [List.length_singleton]; omega)
      · intro q hq; rw [List.mem_singleton.1 hq]; exact heta
      · intro q hq; rw [List.mem_singleton.1 hq]
        exact fun h => hz ((isZeroVec_iff_tz _ heta).2 (hK _ _ h))

/-- **The equivalence test decides equivalence** (any iteration order of a complete alphabet). -/
theorem tzSearch_decides (hK : Anisotropic K) (al : List σ) (A B : MAut σ K) (hA : A.wf = true)
    (hB : B.wf = true) (hal : ∀ a, a ∈ A.syms ∨ a ∈ B.syms → a ∈ al) (f : Nat)
    (hf : A.dim + B.dim ≤ f) :
    tzSearch al A B f = some none ↔ ∀ w, A.weight w = B.weight w := by
  refine ⟨tzSearch_equiv_sound hA hB hal f, fun hall => ?_⟩
  have hne := tzSearch_terminates hK al A B hA hB f hf
  match hr : tzSearch al A B f with
  | none => exact absurd hr hne
  | some none => rfl
  | some (some (w, va, vb)) =>
    obtain ⟨h1, h2, h3⟩ := tzSearch_sound al A B f w va vb hr
    exact absurd (h1.trans ((hall w).trans h2.symm)) h3

theorem _root_.Genlm.counterexampleQ_terminates (hK : Anisotropic K) (A B : MAut σ K)
    (hA : A.wf = true) (hB : B.wf = true) (f : Nat) (hf : A.dim + B.dim ≤ f) :
    counterexampleQ A B f ≠ none :=
  tzSearch_terminates hK _ A B hA hB f hf

/-- **C14: `Simple.counterexample` / `Simple.__eq__` in exact arithmetic is a decision procedure for
equivalence of weighted automata** over any field without isotropic vectors. -/
theorem _root_.Genlm.equiv_decides (hK : Anisotropic K) (A B : MAut σ K) (hA : A.wf = true)
    (hB : B.wf = true) (f : Nat) (hf : A.dim + B.dim ≤ f) :
    counterexampleQ A B f = some none ↔ ∀ w, A.weight w = B.weight w :=
  tzSearch_decides hK _ A B hA hB (diffSyms_complete_tz A B) f hf

/-- the other branch: a returned word is a genuine counterexample, and one is returned whenever the
automata are not equivalent -/
theorem _root_.Genlm.equiv_decides_neg (hK : Anisotropic K) (A B : MAut σ K) (hA : A.wf = true)
    (hB : B.wf = true) (f : Nat) (hf : A.dim + B.dim ≤ f) :
    (∃ w, A.weight w ≠ B.weight w) ↔
      ∃ w, counterexampleQ A B f = some (some (w, A.weight w, B.weight w)) ∧
        A.weight w ≠ B.weight w := by
  constructor
  · intro hex
    have hne := counterexampleQ_terminates hK A B hA hB f hf
    match hr : counterexampleQ A B f with
    | none => exact absurd hr hne
    | some none =>
      obtain ⟨w, hw⟩ := hex
      exact absurd (counterexampleQ_equiv_sound A B hA hB f hr w) hw
    | some (some (w, va, vb)) =>
      obtain ⟨h1, h2, h3⟩ := counterexampleQ_sound A B f w va vb hr
      subst h1 h2
      exact ⟨w, rfl, h3⟩
  · rintro ⟨w, _, hw⟩
    exact ⟨w, hw⟩

/-- `Simple.__eq__` over `ℚ`: returns `True` exactly on equivalent automata, `False` otherwise -/
theorem _root_.Genlm.equivQ_rat {σ : Type} [DecidableEq σ] (A B : MAut σ ℚ) (hA : A.wf = true)
    (hB : B.wf = true) (f : Nat) (hf : A.dim + B.dim ≤ f) :
    (equivQ A B f = some true ↔ ∀ w, A.weight w = B.weight w) ∧
      (equivQ A B f = some false ↔ ¬ ∀ w, A.weight w = B.weight w) := by
  have hd := equiv_decides anisotropic_rat A B hA hB f hf
  have hne := counterexampleQ_terminates anisotropic_rat A B hA hB f hf
  rw [equivQ]
  match hr : counterexampleQ A B f with
  | none => exact absurd hr hne
  | some none => simp [hd.1 hr]
  | some (some c) =>
    have : ¬ ∀ w, A.weight w = B.weight w := fun h => by
      have := hd.2 h; rw [hr] at this; simp at this
    simp [this]

/-- C14 over an ordered field -/
theorem _root_.Genlm.equiv_decides_ordered {σ K : Type} [DecidableEq σ] [DecidableEq K] [Field K]
    [LinearOrder K] [IsStrictOrderedRing K] (A B : MAut σ K) (hA : A.wf = true) (hB : B.wf = true)
    (f : Nat) (hf : A.dim + B.dim ≤ f) :
    counterexampleQ A B f = some none ↔ ∀ w, A.weight w = B.weight w :=
  equiv_decides (anisotropic_of_ordered K) A B hA hB f hf

/-- C14 over `ℚ` (the driver's rational type) -/
theorem _root_.Genlm.equiv_decides_rat {σ : Type} [DecidableEq σ] (A B : MAut σ ℚ) (hA : A.wf = true)
    (hB : B.wf = true) (f : Nat) (hf : A.dim + B.dim ≤ f) :
    counterexampleQ A B f = some none ↔ ∀ w, A.weight w = B.weight w :=
  equiv_decides anisotropic_rat A B hA hB f hf

end Term

/-! ### non-vacuity: the model evaluated over `ℚ` (symbols `0`, `1 : ℕ` play the letters `a`, `b`) -/

section Examples

/-- `aⁿ ↦ 2⁻ⁿ` (second state useless) -/
def tzA : MAut Nat ℚ := ⟨2, [1, 0], [(0, [[1/2, 0], [0, 1/3]])], [1, 0]⟩
/-- `ε ↦ 1`, `a ↦ 1/2`, `aⁿ ↦ 0` for `n ≥ 2`: agrees with `tzA` on `ε` and `a`, differs on `aa` -/
def tzB : MAut Nat ℚ := ⟨2, [1, 0], [(0, [[0, 1], [0, 0]])], [1, 1/2]⟩
/-- `aⁿ ↦ 2⁻ⁿ + 3⁻ⁿ` -/
def tzC : MAut Nat ℚ := ⟨2, [1, 1], [(0, [[1/2, 0], [0, 1/3]])], [1, 1]⟩
/-- a redundant 3-state copy of `tzC` (the `3⁻ⁿ` state is split in two) -/
def tzC3 : MAut Nat ℚ :=
  ⟨3, [1, 1/2, 1/2], [(0, [[1/2, 0, 0], [0, 1/3, 0], [0, 0, 1/3]])], [1, 1, 1]⟩
/-- two letters, `b` known to one side only (with a zero matrix) -/
def tzD : MAut Nat ℚ := ⟨2, [1, 0], [(0, [[0, 1/2], [0, 0]]), (1, [[0, 0], [0, 0]])], [0, 1]⟩
def tzE : MAut Nat ℚ := ⟨2, [1, 0], [(0, [[0, 1], [0, 0]])], [0, 1/2]⟩
/-- as `tzD` but `b` loops on the first state: differs from `tzE` first on `ba` -/
def tzD' : MAut Nat ℚ := ⟨2, [1, 0], [(0, [[0, 1/2], [0, 0]]), (1, [[1, 0], [0, 0]])], [0, 1]⟩

example : tzA.wf = true ∧ tzB.wf = true ∧ tzC.wf = true ∧ tzC3.wf = true ∧ tzD.wf = true ∧
    tzE.wf = true ∧ tzD'.wf = true := by decide +kernel

/-- shortest counterexample `aa`: found after one worklist round -/
example : counterexampleQ tzA tzB 4 = some (some ([0, 0], 1/4, 0)) := by decide +kernel
example : tzA.weight [] = tzB.weight [] ∧ tzA.weight [0] = tzB.weight [0] := by decide +kernel
example : equivQ tzA tzB 4 = some false := by decide +kernel

/-- an automaton and its redundant copy are recognised as equivalent; fuel `dim + dim = 5` -/
example : counterexampleQ tzC tzC3 5 = some none := by decide +kernel
example : ∀ w, tzC.weight w = tzC3.weight w :=
  counterexampleQ_equiv_sound tzC tzC3 (by decide +kernel) (by decide +kernel) 5 (by decide +kernel)
example : ∀ w, tzC.weight w = tzC3.weight w :=
  (equiv_decides anisotropic_rat tzC tzC3 (by decide +kernel) (by decide +kernel) 5
    (by decide +kernel)).1 (by decide +kernel)
/-- the basis needs two vectors here: with fuel 1 the search runs out of fuel -/
example : counterexampleQ tzC tzC3 1 = none := by decide +kernel
example : counterexampleQ tzC tzC3 2 = some none := by decide +kernel

example : counterexampleQ tzD tzE 4 = some none := by decide +kernel
example : counterexampleQ tzD' tzE 4 = some (some ([1, 0], 1/2, 0)) := by decide +kernel
/-- non-equivalence obtained from the decision procedure -/
example : ∃ w, tzD'.weight w ≠ tzE.weight w :=
  (equiv_decides_neg anisotropic_rat tzD' tzE (by decide +kernel) (by decide +kernel) 4
    (by decide +kernel)).2 ⟨[1, 0], by decide +kernel, by decide +kernel⟩

end Examples

end Genlm.Tzeng
