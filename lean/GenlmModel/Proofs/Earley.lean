import GenlmModel.Model.Earley
import GenlmModel.Proofs.EarleySpec
import GenlmModel.Proofs.Prio
import GenlmModel.Proofs.Memo
import Mathlib.Data.List.Perm.Basic
import Mathlib.Data.List.Nodup
/-!
# Correctness of the Earley parser model (`Model/Earley.lean`, `genlm/grammar/parse/earley.py`)

Main results (in `namespace Genlm`; helpers in `Genlm.EarleyAux`):

* `earley_correct` : for `Acyc G order` (nullary rules only at a start symbol that occurs in no body, no terminal
  heads a rule, `order` a strict topological numbering of the unary graph), `OrderBound G order M` and an input
  `x` over the terminals, `earleyCall G order x = WN G n G.S x` for every `n ≥ |x| * M + 1`
  (`WN_stable`: all these levels agree) — in every commutative semiring;
* `earley_correct_sched` : the same for *every* pop order of the agenda that respects the dependencies
  (`SchedOK`), hence for every tie-breaking of the heap; `schedule_ok` : the priority order is such an order
  (from `Gen.Earley.priority_strict`, the generated priority expression);
* `earley_items` / `ColOK` : the invariant — every item of every column holds its intended value
  (`ival`, `cval` of `Model/EarleySpec.lean`) if its head was predicted at its start position, and is absent
  or `0` otherwise;
* `predReach_spec` : the `while agenda` loop of `PREDICT` computes a left-corner-closed set (fuel suffices).

The input must be over the terminals (`∀ a ∈ x, a ∈ G.V`): `Earley.__call__` scans a *nonterminal* token like a
terminal (see the `example` at the end); `EarleyLM.p_next` asserts this, `Earley.__call__` does not.
-/

set_option linter.unusedSectionVars false

namespace Genlm.EarleyAux
variable {κ σ K : Type} [DecidableEq κ] [DecidableEq σ] [CommSemiring K]
open IncCkyAux

/-! ### `PyChart.upd`, `PyChart.has` -/

theorem upd_eq_add (c : PyChart κ K) (k : κ) (v : K) : PyChart.upd c k v = PyChart.add c k v := by
  induction c with
  | nil => simp [PyChart.upd, PyChart.add]
  | cons e c ih => rw [PyChart.upd, PyChart.add, ih]

theorem has_iff (c : PyChart κ K) (k : κ) : c.has k = true ↔ k ∈ c.map (·.1) := by
  simp only [PyChart.has, List.any_eq_true, decide_eq_true_eq, List.mem_map]

theorem get_of_not_mem (c : PyChart κ K) (k : κ) (h : k ∉ c.map (·.1)) : c.get k = 0 := by
  induction c with
  | nil => rfl
  | cons e c ih =>
    simp only [List.map_cons, List.mem_cons, not_or] at h
    rw [get_cons, if_neg (fun e' => h.1 e'.symm), ih h.2]

theorem get_of_mem (c : PyChart κ K) (hc : NodupKeys c) (e : κ × K) (he : e ∈ c) : c.get e.1 = e.2 := by
  unfold NodupKeys at hc
  induction c with
  | nil => cases he
  | cons e' c ih =>
    obtain ⟨h1, h2⟩ := List.nodup_cons.mp hc
    rw [get_cons]
    rcases List.mem_cons.mp he with rfl | he'
    · rw [if_pos rfl]
    · rw [if_neg, ih h2 he']
      intro e''
      apply h1
      show e'.1 ∈ List.map (fun x : κ × K => x.1) c
      rw [e'']
      exact List.mem_map_of_mem (f := fun x : κ × K => x.1) he'

/-! ### `_update` -/

/-- the value of an item of a column, complete (`Ys = []`, in `c_chart`) or not (in `i_chart`) -/
def eget (col : ECol σ K) (it : EItem σ) : K :=
  if it.2.2 = [] then col.c_chart.get (it.1, it.2.1) else col.i_chart.get it

theorem eget_nil (col : ECol σ K) (I : Nat) (X : σ) : eget col (I, X, []) = col.c_chart.get (I, X) := by
  simp [eget]

theorem eget_cons (col : ECol σ K) (I : Nat) (X : σ) (Y : σ) (β : List σ) :
    eget col (I, X, Y :: β) = col.i_chart.get (I, X, Y :: β) := by
  simp [eget]

theorem eget_eUpdate (col : ECol σ K) (I : Nat) (X : σ) (Ys : List σ) (v : K) (it : EItem σ) :
    eget (eUpdate col I X Ys v) it = eget col it + if (I, X, Ys) = it then v else 0 := by
  obtain ⟨I', X', Ys'⟩ := it
  unfold eUpdate eget
  by_cases hY : Ys = []
  · subst hY
    simp only [if_true]
    by_cases hY' : Ys' = []
    · subst hY'
      simp only [if_true, upd_eq_add, get_add, Prod.mk.injEq, and_true]
      by_cases h : I = I' ∧ X = X'
      · simp [h]
      · simp [h]
    · simp [hY']
  · simp only [if_neg hY]
    by_cases hY' : Ys' = []
    · subst hY'
      have : ¬ (I = I' ∧ X = X' ∧ Ys = []) := fun h => hY h.2.2
      simp [this]
    · simp only [if_neg hY', upd_eq_add, get_add]
      split <;> simp

theorem eUpdate_k (col : ECol σ K) (I : Nat) (X : σ) (Ys : List σ) (v : K) : (eUpdate col I X Ys v).k = col.k := by
  unfold eUpdate; split <;> rfl

theorem eUpdate_nd (col : ECol σ K) (I : Nat) (X : σ) (Ys : List σ) (v : K) (h : NodupKeys col.i_chart) :
    NodupKeys (eUpdate col I X Ys v).i_chart := by
  unfold eUpdate; split
  · exact h
  · simp only [upd_eq_add]; exact nodup_add _ _ _ h

theorem eUpdate_ikeys (col : ECol σ K) (I : Nat) (X : σ) (Ys : List σ) (v : K) (key : EItem σ) :
    key ∈ (eUpdate col I X Ys v).i_chart.map (·.1) ↔
      key ∈ col.i_chart.map (·.1) ∨ (Ys ≠ [] ∧ key = (I, X, Ys)) := by
  unfold eUpdate; split
  · next h => simp [h]
  · next h => simp only [upd_eq_add, mem_keys_add]; simp [h]

/-- a sequence of `_update`s with values that do not depend on the column being updated -/
def foldUpd (col : ECol σ K) (L : List (EItem σ × K)) : ECol σ K :=
  L.foldl (fun col e => eUpdate col e.1.1 e.1.2.1 e.1.2.2 e.2) col

theorem foldUpd_spec (L : List (EItem σ × K)) (col : ECol σ K) :
    (∀ it, eget (foldUpd col L) it = eget col it + (L.map fun e => if e.1 = it then e.2 else 0).sum) ∧
    (foldUpd col L).k = col.k ∧
    (NodupKeys col.i_chart → NodupKeys (foldUpd col L).i_chart) ∧
    (∀ key, key ∈ (foldUpd col L).i_chart.map (·.1) ↔
      key ∈ col.i_chart.map (·.1) ∨ ∃ e ∈ L, e.1 = key ∧ key.2.2 ≠ []) := by
  induction L generalizing col with
  | nil => simp [foldUpd]
  | cons e L ih =>
    obtain ⟨i1, i2, i3, i4⟩ := ih (eUpdate col e.1.1 e.1.2.1 e.1.2.2 e.2)
    have hfold : foldUpd col (e :: L) = foldUpd (eUpdate col e.1.1 e.1.2.1 e.1.2.2 e.2) L := rfl
    rw [hfold]
    refine ⟨?_, ?_, ?_, ?_⟩
    · intro it
      rw [i1, eget_eUpdate, List.map_cons, List.sum_cons, add_assoc]
    · rw [i2, eUpdate_k]
    · intro h; exact i3 (eUpdate_nd _ _ _ _ _ h)
    · intro key
      rw [i4, eUpdate_ikeys]
      constructor
      · rintro ((h | ⟨h1, h2⟩) | ⟨e', he', h1, h2⟩)
        · exact Or.inl h
        · exact Or.inr ⟨e, List.mem_cons_self .., h2.symm, by rw [h2]; exact h1⟩
        · exact Or.inr ⟨e', List.mem_cons_of_mem _ he', h1, h2⟩
      · rintro (h | ⟨e', he', h1, h2⟩)
        · exact Or.inl (Or.inl h)
        · rcases List.mem_cons.mp he' with rfl | he''
          · exact Or.inl (Or.inr ⟨by rw [← h1] at h2; exact h2, h1.symm⟩)
          · exact Or.inr ⟨e', he'', h1, h2⟩

/-! ### summing over `waiting_for[Y]` -/

theorem wf_sum (col : ECol σ K) (hnd : NodupKeys col.i_chart) (Y : σ) (I : Nat) (X : σ) (β : List σ)
    (g : K → K) (hg0 : g 0 = 0) :
    ((col.waitingFor Y).map fun it' =>
      if ((it'.1, it'.2.1, it'.2.2.tail) : EItem σ) = (I, X, β) then g (col.i_chart.get it') else 0).sum
      = g (col.i_chart.get (I, X, Y :: β)) := by
  unfold ECol.waitingFor
  rw [sum_filter_ite, List.map_map]
  rw [← sum_key col.i_chart hnd (I, X, Y :: β) g hg0]
  apply sum_congr
  intro e he
  obtain ⟨⟨I', X', Ys'⟩, v⟩ := e
  simp only [Function.comp, decide_eq_true_eq]
  by_cases h : ((I', X', Ys') : EItem σ) = (I, X, Y :: β)
  · rw [if_pos h]
    have hget := get_of_mem col.i_chart hnd _ he
    simp only at hget
    simp only [Prod.mk.injEq] at h
    obtain ⟨rfl, rfl, rfl⟩ := h
    simp [hget]
  · rw [if_neg h]
    by_cases h1 : Ys'.head? = some Y
    · rw [if_pos h1, if_neg]
      intro h2
      simp only [Prod.mk.injEq] at h2 h
      apply h
      refine ⟨h2.1, h2.2.1, ?_⟩
      cases Ys' with
      | nil => simp at h1
      | cons s t =>
        simp only [List.head?_cons, Option.some.injEq] at h1
        simp only [List.tail_cons] at h2
        rw [h1, h2.2.2]
    · rw [if_neg h1]

/-! ### a linear system solved along a schedule -/

/-- If each step `a` adds `A a it * (value at key a)` to every entry `it`, and no step feeds the key of an earlier
step or its own, then at the end every entry holds its initial value plus the contributions computed from the
*final* values of the keys. -/
theorem sched_spec {S ι α : Type} (get : S → ι → K) (step : S → α → S) (key : α → ι) (A : α → ι → K)
    (hstep : ∀ s a it, get (step s a) it = get s it + A a it * get s (key a))
    (sched : List α) (hpw : sched.Pairwise (fun a b => A b (key a) = 0)) (hself : ∀ a ∈ sched, A a (key a) = 0)
    (s : S) :
    ∀ it, get (sched.foldl step s) it = get s it + (sched.map fun a => A a it * get (sched.foldl step s) (key a)).sum := by
  induction sched generalizing s with
  | nil => simp
  | cons a rest ih =>
    obtain ⟨h1, h2⟩ := List.pairwise_cons.mp hpw
    have ih' := ih h2 (fun b hb => hself b (List.mem_cons_of_mem _ hb)) (step s a)
    intro it
    simp only [List.foldl_cons, List.map_cons, List.sum_cons]
    have hkey : get (rest.foldl step (step s a)) (key a) = get s (key a) := by
      rw [ih' (key a), sum_map_zero, add_zero, hstep, hself a (List.mem_cons_self ..), zero_mul, add_zero]
      intro b hb
      rw [h1 b hb, zero_mul]
    rw [ih' it, hstep, hkey, add_assoc]

end Genlm.EarleyAux

namespace Genlm.EarleyAux
variable {σ K : Type} [DecidableEq σ] [CommSemiring K]
open IncCkyAux

/-! ### `PREDICT`: the left-corner closure -/

theorem nodup_eraseDups' {α : Type} [BEq α] [LawfulBEq α] (l : List α) : l.eraseDups.Nodup := by
  generalize hn : l.length = n
  induction n using Nat.strong_induction_on generalizing l with
  | _ n ih =>
    cases l with
    | nil => simp
    | cons a l =>
      rw [List.eraseDups_cons, List.nodup_cons]
      refine ⟨by simp, ih _ ?_ _ rfl⟩
      subst hn
      exact Nat.lt_succ_of_le (List.length_filter_le _ _)

/-- all nonterminal left corners -/
def lcU (G : CFG σ K) : List σ :=
  G.rules.filterMap fun r =>
    match r.body with
    | B :: _ => if B ∈ G.V then none else some B
    | [] => none

theorem mem_lcOut (G : CFG σ K) (X Y : σ) :
    Y ∈ lcOut G X ↔ ∃ r ∈ G.rules, r.head = X ∧ Y ∉ G.V ∧ ∃ rest, r.body = Y :: rest := by
  unfold lcOut
  rw [List.mem_eraseDups, List.mem_filterMap]
  constructor
  · rintro ⟨r, hr, h⟩
    refine ⟨r, hr, ?_⟩
    by_cases hX : r.head = X
    · rw [if_pos hX] at h
      match hb : r.body with
      | [] => rw [hb] at h; cases h
      | B :: rest =>
        rw [hb] at h
        simp only at h
        by_cases hB : B ∈ G.V
        · rw [if_pos hB] at h; cases h
        · rw [if_neg hB] at h
          obtain rfl := Option.some.inj h
          exact ⟨hX, hB, rest, rfl⟩
    · rw [if_neg hX] at h; cases h
  · rintro ⟨r, hr, hX, hV, rest, hb⟩
    refine ⟨r, hr, ?_⟩
    rw [if_pos hX, hb]
    simp only
    rw [if_neg hV]

theorem lcOut_sub_lcU (G : CFG σ K) (X Y : σ) (h : Y ∈ lcOut G X) : Y ∈ lcU G := by
  obtain ⟨r, hr, _, hV, rest, hb⟩ := (mem_lcOut G X Y).mp h
  unfold lcU
  rw [List.mem_filterMap]
  refine ⟨r, hr, ?_⟩
  rw [hb]; simp only; rw [if_neg hV]

theorem lcOut_nodup (G : CFG σ K) (X : σ) : (lcOut G X).Nodup := nodup_eraseDups' _

theorem lcLoop_sub (G : CFG σ K) (fuel : Nat) (ag R : List σ) : ∀ X ∈ R, X ∈ lcLoop G fuel ag R := by
  induction fuel generalizing ag R with
  | zero => intro X h; exact h
  | succ fuel ih =>
    cases ag with
    | nil => intro X h; exact h
    | cons A ag =>
      intro X h
      simp only [lcLoop]
      exact ih _ _ X (List.mem_append_left _ h)

theorem lcLoop_nodup (G : CFG σ K) (fuel : Nat) (ag R : List σ) (h : R.Nodup) : (lcLoop G fuel ag R).Nodup := by
  induction fuel generalizing ag R with
  | zero => exact h
  | succ fuel ih =>
    cases ag with
    | nil => exact h
    | cons A ag =>
      simp only [lcLoop]
      apply ih
      rw [List.nodup_append]
      refine ⟨h, (lcOut_nodup G A).filter _, ?_⟩
      intro a ha b hb e
      subst e
      have := (List.mem_filter.mp hb).2
      simp only [decide_eq_true_eq] at this
      exact this ha

theorem lcLoop_closed (G : CFG σ K) (R0 : List σ) (fuel : Nat) (ag R : List σ)
    (hnd : R.Nodup) (hsub : ∀ X ∈ R, X ∈ R0 ++ lcU G)
    (hinv : ∀ X ∈ R, X ∈ ag ∨ ∀ Y ∈ lcOut G X, Y ∈ R)
    (hfuel : ag.length + ((R0 ++ lcU G).length - R.length) ≤ fuel) :
    ∀ X ∈ lcLoop G fuel ag R, ∀ Y ∈ lcOut G X, Y ∈ lcLoop G fuel ag R := by
  induction fuel generalizing ag R with
  | zero =>
    have : ag = [] := List.eq_nil_of_length_eq_zero (by omega)
    subst this
    intro X hX Y hY
    rcases hinv X hX with h | h
    · cases h
    · exact h Y hY
  | succ fuel ih =>
    cases ag with
    | nil =>
      intro X hX Y hY
      rcases hinv X hX with h | h
      · cases h
      · exact h Y hY
    | cons A ag =>
      simp only [lcLoop]
      have hnew : ∀ Y, Y ∈ (lcOut G A).filter (fun Y => Y ∉ R) ↔ Y ∈ lcOut G A ∧ Y ∉ R := by
        intro Y; simp [List.mem_filter]
      have hnd' : (R ++ (lcOut G A).filter (fun Y => Y ∉ R)).Nodup := by
        rw [List.nodup_append]
        refine ⟨hnd, (lcOut_nodup G A).filter _, ?_⟩
        intro a ha b hb e
        subst e
        exact ((hnew _).mp hb).2 ha
      have hsub' : ∀ X ∈ R ++ (lcOut G A).filter (fun Y => Y ∉ R), X ∈ R0 ++ lcU G := by
        intro X hX
        rcases List.mem_append.mp hX with h | h
        · exact hsub X h
        · exact List.mem_append_right _ (lcOut_sub_lcU G A X ((hnew X).mp h).1)
      have hlen := List.Nodup.length_le_of_subset hnd' hsub'
      apply ih _ _ hnd' hsub'
      · intro X hX
        rcases List.mem_append.mp hX with h | h
        · by_cases hXA : X = A
          · right
            intro Y hY
            by_cases hYR : Y ∈ R
            · exact List.mem_append_left _ hYR
            · exact List.mem_append_right _ ((hnew Y).mpr ⟨hXA ▸ hY, hYR⟩)
          · rcases hinv X h with h' | h'
            · left
              rcases List.mem_cons.mp h' with h'' | h''
              · exact absurd h'' hXA
              · exact List.mem_append_right _ h''
            · right
              intro Y hY
              exact List.mem_append_left _ (h' Y hY)
        · left
          exact List.mem_append_left _ (List.mem_reverse.mpr h)
      · simp only [List.length_append, List.length_reverse, List.length_cons] at hfuel hlen ⊢
        omega

theorem lcU_length (G : CFG σ K) : (lcU G).length ≤ G.rules.length := List.length_filterMap_le _ _

/-- the set `reachable` of `PREDICT`: no duplicates, contains the agenda, closed under left corners -/
theorem predReach_spec (G : CFG σ K) (col : ECol σ K) :
    (predReach G col).Nodup ∧
    (∀ X ∈ (if col.k = 0 then [G.S] else col.waitingKeys), X ∈ predReach G col) ∧
    (∀ X ∈ predReach G col, ∀ Y ∈ lcOut G X, Y ∈ predReach G col) := by
  unfold predReach
  generalize (if col.k = 0 then [G.S] else col.waitingKeys) = agenda
  simp only
  refine ⟨lcLoop_nodup G _ _ _ (nodup_eraseDups' _), ?_, ?_⟩
  · intro X hX
    exact lcLoop_sub G _ _ _ X (List.mem_eraseDups.mpr hX)
  · apply lcLoop_closed G agenda.eraseDups _ _ _ (nodup_eraseDups' _)
    · intro X hX; exact List.mem_append_left _ hX
    · intro X hX; left; exact List.mem_reverse.mpr (List.mem_eraseDups.mp hX)
    · have := lcU_length G
      simp only [List.length_append, List.length_reverse]
      omega

end Genlm.EarleyAux

namespace Genlm.EarleyAux
variable {σ K : Type} [DecidableEq σ] [CommSemiring K]
open IncCkyAux

theorem sum_ite_mem_nodup {α : Type} [DecidableEq α] (l : List α) (hl : l.Nodup) (a : α) (F : α → K) :
    (l.map fun w => if w = a then F w else 0).sum = if a ∈ l then F a else 0 := by
  by_cases h : a ∈ l
  · rw [if_pos h, sum_ite_eq_nodup l hl a h F]
  · rw [if_neg h, sum_map_zero]
    intro w hw
    rw [if_neg]; intro e; exact h (e ▸ hw)

theorem predict_eq_foldUpd (G : CFG σ K) (col : ECol σ K) :
    predict G col = foldUpd col ((predReach G col).flatMap fun X =>
      (rhsOf G X).map fun wYs => ((col.k, X, wYs.2), wYs.1)) := by
  unfold predict foldUpd
  simp only [List.foldl_flatMap, List.foldl_map]

theorem rhsOf_sum (G : CFG σ K) (X : σ) (β : List σ) :
    ((rhsOf G X).map fun wYs => if wYs.2 = β then wYs.1 else 0).sum = if β = [] then 0 else ruleSum G X β := by
  unfold rhsOf ruleSum
  rw [List.map_map, sum_filter_ite, lsum_eq_sum]
  by_cases hβ : β = []
  · rw [if_pos hβ]
    apply sum_map_zero
    intro r _
    simp only [Function.comp, decide_eq_true_eq]
    by_cases h : r.head = X ∧ r.body ≠ []
    · rw [if_pos h, if_neg]; rw [hβ]; exact h.2
    · rw [if_neg h]
  · rw [if_neg hβ]
    apply sum_congr
    intro r _
    simp only [Function.comp, decide_eq_true_eq]
    by_cases h1 : r.head = X <;> by_cases h2 : r.body = β
    · simp [h1, h2, hβ]
    · simp [h1, h2]
    · simp [h1, h2]
    · simp [h1, h2]

theorem predict_spec (G : CFG σ K) (c1 : ECol σ K) :
    (predict G c1).k = c1.k ∧
    (NodupKeys c1.i_chart → NodupKeys (predict G c1).i_chart) ∧
    (∀ I X Y β, (predict G c1).i_chart.get (I, X, Y :: β) = c1.i_chart.get (I, X, Y :: β) +
      if I = c1.k ∧ X ∈ predReach G c1 then ruleSum G X (Y :: β) else 0) ∧
    (∀ I X, (predict G c1).c_chart.get (I, X) = c1.c_chart.get (I, X)) ∧
    (∀ key ∈ (predict G c1).i_chart.map (·.1), key ∈ c1.i_chart.map (·.1) ∨
      ∀ Y, key.2.2.head? = some Y → Y ∈ G.V ∨ Y ∈ predReach G c1) := by
  obtain ⟨hRnd, _, hRcl⟩ := predReach_spec G c1
  rw [predict_eq_foldUpd]
  obtain ⟨f1, f2, f3, f4⟩ := foldUpd_spec ((predReach G c1).flatMap fun X =>
      (rhsOf G X).map fun wYs => ((c1.k, X, wYs.2), wYs.1)) c1
  have hsum : ∀ I X β, (((predReach G c1).flatMap fun X' =>
        (rhsOf G X').map fun wYs => (((c1.k, X', wYs.2) : EItem σ), wYs.1)).map
        fun e => if e.1 = (I, X, β) then e.2 else 0).sum
      = if I = c1.k ∧ X ∈ predReach G c1 then (if β = [] then 0 else ruleSum G X β) else 0 := by
    intro I X β
    rw [sum_flatMap]
    simp only [List.map_map, Function.comp_def, Prod.mk.injEq]
    have hin : ∀ X' ∈ predReach G c1, ((rhsOf G X').map fun wYs : K × List σ =>
          if c1.k = I ∧ X' = X ∧ wYs.2 = β then wYs.1 else 0).sum
        = if X' = X then (if c1.k = I then (if β = [] then 0 else ruleSum G X' β) else 0) else 0 := by
      intro X' _
      by_cases h1 : X' = X
      · by_cases h2 : c1.k = I
        · simp only [h1, h2, true_and, if_true]
          exact rhsOf_sum G X β
        · simp only [h2, false_and, if_false]
          rw [sum_map_zero _ _ (fun _ _ => rfl)]; simp
      · simp only [h1, false_and, and_false, if_false]
        exact sum_map_zero _ _ (fun _ _ => rfl)
    rw [sum_congr _ _ _ hin, sum_ite_mem_nodup _ hRnd X]
    by_cases h1 : X ∈ predReach G c1 <;> by_cases h2 : I = c1.k
    · have : c1.k = I := h2.symm
      simp [h1, h2]
    · have : ¬ c1.k = I := fun e => h2 e.symm
      simp [h1, h2, this]
    · simp [h1]
    · simp [h1]
  refine ⟨f2, f3, ?_, ?_, ?_⟩
  · intro I X Y β
    have := f1 (I, X, Y :: β)
    rw [eget_cons, eget_cons, hsum] at this
    rw [this]
    simp
  · intro I X
    have := f1 (I, X, [])
    rw [eget_nil, eget_nil, hsum] at this
    rw [this]
    simp
  · intro key hkey
    rcases (f4 key).mp hkey with h | ⟨e, he, h1, _⟩
    · exact Or.inl h
    · right
      intro Y hY
      simp only [List.mem_flatMap, List.mem_map] at he
      obtain ⟨X', hX', wYs, hw, rfl⟩ := he
      subst h1
      simp only at hY
      unfold rhsOf at hw
      simp only [List.mem_map, List.mem_filter, decide_eq_true_eq] at hw
      obtain ⟨r, ⟨hr, hrX, _⟩, rfl⟩ := hw
      simp only at hY
      by_cases hV : Y ∈ G.V
      · exact Or.inl hV
      · right
        apply hRcl X' hX' Y
        rw [mem_lcOut]
        refine ⟨r, hr, hrX, hV, r.body.tail, ?_⟩
        cases hb : r.body with
        | nil => rw [hb] at hY; cases hY
        | cons s t =>
          rw [hb] at hY
          simp only [List.head?_cons, Option.some.injEq] at hY
          rw [hY]; rfl

end Genlm.EarleyAux

namespace Genlm.EarleyAux
variable {σ K : Type} [DecidableEq σ] [CommSemiring K]
open IncCkyAux

/-! ### SCAN and one ATTACH iteration -/

theorem eget_empty (k : Nat) (it : EItem σ) : eget (ECol.empty k : ECol σ K) it = 0 := by
  unfold eget ECol.empty; split <;> rfl

theorem scan_spec (prev : ECol σ K) (hnd : NodupKeys prev.i_chart) (a : σ) (next : ECol σ K) :
    (∀ I X β, eget (scanStep prev a next) (I, X, β) = eget next (I, X, β) + prev.i_chart.get (I, X, a :: β)) ∧
    (scanStep prev a next).k = next.k ∧
    (NodupKeys next.i_chart → NodupKeys (scanStep prev a next).i_chart) := by
  have e : scanStep prev a next = foldUpd next ((prev.waitingFor a).map fun it =>
      (((it.1, it.2.1, it.2.2.tail) : EItem σ), prev.i_chart.get it)) := by
    unfold scanStep foldUpd
    rw [List.foldl_map]
  rw [e]
  obtain ⟨f1, f2, f3, _⟩ := foldUpd_spec ((prev.waitingFor a).map fun it =>
      (((it.1, it.2.1, it.2.2.tail) : EItem σ), prev.i_chart.get it)) next
  refine ⟨?_, f2, f3⟩
  intro I X β
  rw [f1, List.map_map]
  congr 1
  exact wf_sum prev hnd a I X β id rfl

theorem attach_spec (cols : List (ECol σ K)) (next : ECol σ K) (jy : Nat × σ)
    (hnd : NodupKeys (cols.getD jy.1 (ECol.empty jy.1)).i_chart) :
    (∀ it : EItem σ, eget (attachOne cols next jy) it = eget next it +
      (cols.getD jy.1 (ECol.empty jy.1)).i_chart.get (it.1, it.2.1, jy.2 :: it.2.2) * eget next (jy.1, jy.2, [])) ∧
    (attachOne cols next jy).k = next.k ∧
    (NodupKeys next.i_chart → NodupKeys (attachOne cols next jy).i_chart) := by
  unfold attachOne
  by_cases hhas : next.c_chart.has jy = true
  · rw [if_pos hhas]
    simp only
    have e : ((cols.getD jy.1 (ECol.empty jy.1)).waitingFor jy.2).foldl
        (fun col it => eUpdate col it.1 it.2.1 it.2.2.tail
          ((cols.getD jy.1 (ECol.empty jy.1)).i_chart.get it * next.c_chart.get jy)) next
        = foldUpd next (((cols.getD jy.1 (ECol.empty jy.1)).waitingFor jy.2).map fun it =>
          (((it.1, it.2.1, it.2.2.tail) : EItem σ),
            (cols.getD jy.1 (ECol.empty jy.1)).i_chart.get it * next.c_chart.get jy)) := by
      unfold foldUpd
      rw [List.foldl_map]
    rw [e]
    obtain ⟨f1, f2, f3, _⟩ := foldUpd_spec (((cols.getD jy.1 (ECol.empty jy.1)).waitingFor jy.2).map fun it =>
          (((it.1, it.2.1, it.2.2.tail) : EItem σ),
            (cols.getD jy.1 (ECol.empty jy.1)).i_chart.get it * next.c_chart.get jy)) next
    refine ⟨?_, f2, f3⟩
    rintro ⟨I, X, β⟩
    rw [f1, List.map_map, eget_nil]
    congr 1
    exact wf_sum _ hnd jy.2 I X β (fun v => v * next.c_chart.get jy) (zero_mul _)
  · rw [if_neg hhas]
    refine ⟨?_, rfl, fun h => h⟩
    intro it
    rw [eget_nil, get_of_not_mem next.c_chart jy (fun h => hhas ((has_iff _ _).mpr h)), mul_zero, add_zero]

theorem attach_fold_inv (cols : List (ECol σ K)) (hnd : ∀ J, NodupKeys (cols.getD J (ECol.empty J)).i_chart)
    (sched : List (Nat × σ)) (next : ECol σ K) :
    (sched.foldl (attachOne cols) next).k = next.k ∧
    (NodupKeys next.i_chart → NodupKeys (sched.foldl (attachOne cols) next).i_chart) := by
  induction sched generalizing next with
  | nil => exact ⟨rfl, fun h => h⟩
  | cons jy rest ih =>
    obtain ⟨_, a2, a3⟩ := attach_spec cols next jy (hnd jy.1)
    obtain ⟨i1, i2⟩ := ih (attachOne cols next jy)
    simp only [List.foldl_cons]
    exact ⟨i1.trans a2, fun h => i2 (a3 h)⟩

end Genlm.EarleyAux

namespace Genlm.EarleyAux
variable {σ K : Type} [DecidableEq σ] [CommSemiring K]
open IncCkyAux

/-! ### the invariant of a finished column, and schedules -/

/-- `b = (J', Y')` feeds `a = (J, Y)` in the ATTACH loop: a strictly narrower item, or the same span and a
unary rule `Y → Y'` -/
def Feeds (G : CFG σ K) (b a : Nat × σ) : Prop :=
  a.1 < b.1 ∨ (a.1 = b.1 ∧ ∃ r ∈ G.rules, r.head = a.2 ∧ r.body = [b.2])

/-- a pop order of the agenda of column `k`: every potential complete item once, no item before one that feeds it -/
structure SchedOK (G : CFG σ K) (k : Nat) (sched : List (Nat × σ)) : Prop where
  perm : sched.Perm (schedCands G k)
  pw : sched.Pairwise (fun a b => ¬ Feeds G b a)

/-- column `J` of the chart of `x` is correct, relative to the sets `P I` predicted in the columns `I ≤ J`:
every incomplete item `(I, X, Y :: β)` holds `ival` if `X` was predicted in column `I` and is absent or `0`
otherwise, the same for the complete items, and every symbol some item waits for is a terminal or predicted -/
structure ColOK (G : CFG σ K) (f : σ → List σ → K) (x : List σ) (P : Nat → List σ) (J : Nat)
    (col : ECol σ K) : Prop where
  k_eq : col.k = J
  nd : NodupKeys col.i_chart
  ival : ∀ I X Y β, col.i_chart.get (I, X, Y :: β) =
    if I ≤ J ∧ X ∈ P I then ival G f x I J X (Y :: β) else 0
  cval : ∀ I X, col.c_chart.get (I, X) = if I < J ∧ X ∈ P I then cval f x I J X else 0
  first : ∀ e ∈ col.i_chart, ∀ Y, e.1.2.2.head? = some Y → Y ∈ G.V ∨ Y ∈ P J

/-- the hypotheses of one `next_column` step: token `a = x[k]`, the columns `0..k` are correct -/
structure StepHyp (G : CFG σ K) (f : σ → List σ → K) (order : σ → Nat) (x : List σ) (k : Nat) (a : σ)
    (P : Nat → List σ) (cols : List (ECol σ K)) : Prop where
  hf : FixOK G f
  hA : Acyc G order
  ha : x[k]? = some a
  haV : a ∈ G.V
  hlen : cols.length = k + 1
  hcols : ∀ J ≤ k, ColOK G f x P J (cols.getD J (ECol.empty J))

theorem mem_heads_of_rule (G : CFG σ K) (r : Rule σ K) (hr : r ∈ G.rules) : r.head ∈ heads G :=
  (mem_heads G r.head).mpr ⟨r, hr, rfl⟩

theorem stepCtx_of (G : CFG σ K) (order : σ → Nat) (hA : Acyc G order) (x : List σ) (k : Nat) (a : σ)
    (ha : x[k]? = some a) : StepCtx G x k a (heads G) where
  ha := ha
  nodup := nodup_eraseDups' _
  heads := fun r hr => mem_heads_of_rule G r hr
  nt := by
    intro Y hY
    obtain ⟨r, hr, rfl⟩ := (mem_heads G Y).mp hY
    exact hA.headsNT r hr

theorem no_self_unary (G : CFG σ K) (order : σ → Nat) (hA : Acyc G order) (r : Rule σ K) (hr : r ∈ G.rules) :
    r.body ≠ [r.head] := by
  intro hb
  have := hA.topo r hr (by rw [hb]; rfl) r.head (by rw [hb]; simp) (hA.headsNT r hr)
  omega

theorem ruleSum_ne_zero (G : CFG σ K) (X : σ) (β : List σ) (h : ruleSum G X β ≠ 0) :
    ∃ r ∈ G.rules, r.head = X ∧ r.body = β := by
  by_contra hne
  apply h
  unfold ruleSum
  rw [lsum_eq_sum]
  apply sum_map_zero
  intro r hr
  rw [if_neg]
  intro hc
  exact hne ⟨r, hr, hc.1, hc.2⟩

section step
variable {G : CFG σ K} {f : σ → List σ → K} {order : σ → Nat} {x : List σ} {k : Nat} {a : σ}
  {P : Nat → List σ} {cols : List (ECol σ K)}

theorem StepHyp.getD_out (h : StepHyp G f order x k a P cols) (J : Nat) (hJ : k < J) :
    cols.getD J (ECol.empty J) = ECol.empty J := by
  rw [List.getD_eq_getElem?_getD, List.getElem?_eq_none (by rw [h.hlen]; omega)]
  rfl

theorem StepHyp.nd_all (h : StepHyp G f order x k a P cols) (J : Nat) :
    NodupKeys (cols.getD J (ECol.empty J)).i_chart := by
  rcases Nat.lt_or_ge k J with hJ | hJ
  · rw [h.getD_out J hJ]; exact nodup_nil
  · exact (h.hcols J hJ).nd

/-- the coefficient with which the popped item `(J, Y)` is added to `(I, X, β)` -/
theorem StepHyp.coef (h : StepHyp G f order x k a P cols) (J I : Nat) (X Y : σ) (β : List σ) :
    (cols.getD J (ECol.empty J)).i_chart.get (I, X, Y :: β) =
      if I ≤ J ∧ J ≤ k ∧ X ∈ P I then ival G f x I J X (Y :: β) else 0 := by
  rcases Nat.lt_or_ge k J with hJ | hJ
  · rw [h.getD_out J hJ, if_neg (by omega)]; rfl
  · rw [(h.hcols J hJ).ival]
    by_cases hc : I ≤ J ∧ X ∈ P I
    · rw [if_pos hc, if_pos ⟨hc.1, hJ, hc.2⟩]
    · rw [if_neg hc, if_neg (fun hc' => hc ⟨hc'.1, hc'.2.2⟩)]

theorem StepHyp.coef_zero (h : StepHyp G f order x k a P cols) (a' b : Nat × σ) (hnf : ¬ Feeds G b a') :
    (cols.getD b.1 (ECol.empty b.1)).i_chart.get (a'.1, a'.2, [b.2]) = 0 := by
  rw [h.coef]
  by_cases hc : a'.1 ≤ b.1 ∧ b.1 ≤ k ∧ a'.2 ∈ P a'.1
  · rw [if_pos hc]
    have he : a'.1 = b.1 := by
      rcases Nat.lt_or_ge a'.1 b.1 with h1 | h1
      · exact absurd (Or.inl h1) hnf
      · omega
    rw [← he, ival_diag G f h.hf]
    by_contra hne
    obtain ⟨r, hr, h1, h2⟩ := ruleSum_ne_zero G _ _ hne
    exact hnf (Or.inr ⟨he, r, hr, h1, h2⟩)
  · rw [if_neg hc]

theorem not_feeds_self (hA : Acyc G order) (a' : Nat × σ) : ¬ Feeds G a' a' := by
  rintro (h | ⟨_, r, hr, h1, h2⟩)
  · omega
  · exact no_self_unary G order hA r hr (by rw [h2, h1])

theorem getLastD_eq (h : StepHyp G f order x k a P cols) :
    cols.getLastD (ECol.empty 0) = cols.getD k (ECol.empty k) := by
  have hk : k < cols.length := by rw [h.hlen]; omega
  rw [List.getLastD_eq_getLast?, List.getLast?_eq_getElem?, List.getD_eq_getElem?_getD, h.hlen,
    Nat.add_sub_cancel, List.getElem?_eq_getElem hk]
  rfl

end step
end Genlm.EarleyAux

namespace Genlm.EarleyAux
variable {σ K : Type} [DecidableEq σ] [CommSemiring K]
open IncCkyAux

/-! ### the column before `PREDICT` -/

theorem sum_range_drop (n I : Nat) (hI : I ≤ n) (F : Nat → K) (h0 : ∀ J, J < I → F J = 0) :
    ((List.range n).map F).sum = ((List.range' I (n - I)).map F).sum := by
  have e : List.range n = List.range' 0 I ++ List.range' I (n - I) := by
    rw [List.range_eq_range']
    have := List.range'_append (s := 0) (m := I) (n := n - I) (step := 1)
    simp only [Nat.one_mul, Nat.zero_add] at this
    rw [this]; congr 1; omega
  rw [e, List.map_append, List.sum_append, sum_map_zero, zero_add]
  intro J hJ
  exact h0 J (by have := List.mem_range'_1.mp hJ; omega)

section step
variable {G : CFG σ K} {f : σ → List σ → K} {order : σ → Nat} {x : List σ} {k : Nat} {a : σ}
  {P : Nat → List σ} {cols : List (ECol σ K)}

/-- the linear system the column satisfies when the ATTACH loop ends -/
theorem pre_system (h : StepHyp G f order x k a P cols) (sched : List (Nat × σ)) (hs : SchedOK G (k + 1) sched) :
    (nextColumnPre sched cols a).k = k + 1 ∧
    NodupKeys (nextColumnPre sched cols a).i_chart ∧
    ∀ I X β, eget (nextColumnPre sched cols a) (I, X, β) =
      (if I ≤ k ∧ X ∈ P I then ival G f x I k X (a :: β) else 0) +
      ((List.range (k + 1)).map fun J => ((heads G).map fun Y =>
        (cols.getD J (ECol.empty J)).i_chart.get (I, X, Y :: β) *
          (nextColumnPre sched cols a).c_chart.get (J, Y)).sum).sum := by
  unfold nextColumnPre
  simp only
  rw [getLastD_eq h, (h.hcols k (Nat.le_refl k)).k_eq]
  obtain ⟨s1, s2, s3⟩ := scan_spec (cols.getD k (ECol.empty k)) (h.hcols k (Nat.le_refl k)).nd a
    (ECol.empty (k + 1) : ECol σ K)
  obtain ⟨l1, l2⟩ := attach_fold_inv cols h.nd_all sched (scanStep (cols.getD k (ECol.empty k)) a (ECol.empty (k + 1)))
  refine ⟨l1.trans s2, l2 (s3 nodup_nil), ?_⟩
  have hsys := sched_spec (K := K) eget (attachOne cols) (fun jy : Nat × σ => ((jy.1, jy.2, []) : EItem σ))
    (fun jy it => (cols.getD jy.1 (ECol.empty jy.1)).i_chart.get (it.1, it.2.1, jy.2 :: it.2.2))
    (fun s jy it => (attach_spec cols s jy (h.nd_all jy.1)).1 it)
    sched (hs.pw.imp (fun {a' b} hnf => h.coef_zero a' b hnf))
    (fun a' _ => h.coef_zero a' a' (not_feeds_self h.hA a'))
    (scanStep (cols.getD k (ECol.empty k)) a (ECol.empty (k + 1)))
  intro I X β
  rw [hsys (I, X, β), s1, eget_empty, zero_add, (h.hcols k (Nat.le_refl k)).ival]
  congr 1
  have hperm := (hs.perm.map (fun jy : Nat × σ =>
      (cols.getD jy.1 (ECol.empty jy.1)).i_chart.get (I, X, jy.2 :: β) *
        eget (sched.foldl (attachOne cols) (scanStep (cols.getD k (ECol.empty k)) a (ECol.empty (k + 1))))
          (jy.1, jy.2, []))).sum_eq
  rw [hperm]
  unfold schedCands
  rw [sum_flatMap]
  apply sum_congr; intro J _
  rw [List.map_map]
  apply sum_congr; intro Y _
  simp only [Function.comp, eget_nil]

/-- if the complete items that `(I, X, β)` really uses are right, so is `(I, X, β)` -/
theorem pre_match (h : StepHyp G f order x k a P cols) (sched : List (Nat × σ)) (hs : SchedOK G (k + 1) sched)
    (I : Nat) (X : σ) (β : List σ) (hI : I ≤ k) (hX : X ∈ P I)
    (hyp : ∀ J Y, I ≤ J → J ≤ k → Y ∈ heads G → Y ∈ P J → ival G f x I J X (Y :: β) ≠ 0 →
      (nextColumnPre sched cols a).c_chart.get (J, Y) = cval f x J (k + 1) Y) :
    eget (nextColumnPre sched cols a) (I, X, β) = ival G f x I (k + 1) X β := by
  obtain ⟨_, _, hsys⟩ := pre_system h sched hs
  have hctx := stepCtx_of G order h.hA x k a h.ha
  rw [hsys, ival_step G f h.hf x k a (heads G) hctx I hI X β, if_pos ⟨hI, hX⟩, if_pos h.haV]
  congr 1
  rw [sum_range_drop (k + 1) I (by omega)]
  · apply sum_congr; intro J hJ
    have hJ' := List.mem_range'_1.mp hJ
    have hJk : J ≤ k := by omega
    apply sum_congr; intro Y hY
    rw [h.coef, if_pos ⟨hJ'.1, hJk, hX⟩]
    by_cases hz : ival G f x I J X (Y :: β) = 0
    · rw [hz, zero_mul, zero_mul]
    · congr 1
      apply hyp J Y hJ'.1 hJk hY ?_ hz
      -- the key is present, hence `Y` was predicted in column `J`
      have hkey : ((I, X, Y :: β) : EItem σ) ∈ (cols.getD J (ECol.empty J)).i_chart.map (·.1) := by
        by_contra hnk
        apply hz
        have := get_of_not_mem _ _ hnk
        rw [h.coef, if_pos ⟨hJ'.1, hJk, hX⟩] at this
        exact this
      obtain ⟨e, he, hek⟩ := List.mem_map.mp hkey
      rcases (h.hcols J hJk).first e he Y (by rw [hek]; rfl) with hV | hP
      · exact absurd hV (hctx.nt Y hY)
      · exact hP
  · intro J hJ
    apply sum_map_zero; intro Y _
    rw [h.coef, if_neg (by omega), zero_mul]

/-- the complete items of the new column -/
theorem pre_complete (h : StepHyp G f order x k a P cols) (sched : List (Nat × σ)) (hs : SchedOK G (k + 1) sched) :
    ∀ d o J Y, k + 1 - J = d → order Y = o → J ≤ k → Y ∈ heads G → Y ∈ P J →
      (nextColumnPre sched cols a).c_chart.get (J, Y) = cval f x J (k + 1) Y := by
  intro d
  induction d using Nat.strong_induction_on with
  | _ d ihd =>
  intro o
  induction o using Nat.strong_induction_on with
  | _ o iho =>
  intro J Y hd ho hJ hY hP
  rw [← eget_nil, cval_eq_ival G f h.hf]
  apply pre_match h sched hs J Y [] hJ hP
  intro J' Y' hJJ' hJ'k hY' hP' hnz
  rcases Nat.lt_or_ge J J' with hlt | hge
  · exact ihd (k + 1 - J') (by omega) (order Y') J' Y' rfl rfl hJ'k hY' hP'
  · have he : J' = J := by omega
    subst he
    rw [ival_diag G f h.hf] at hnz
    obtain ⟨r, hr, h1, h2⟩ := ruleSum_ne_zero G _ _ hnz
    have hctx := stepCtx_of G order h.hA x k a h.ha
    have hlt : order Y' < order Y := by
      have := h.hA.topo r hr (by rw [h2]; rfl) Y' (by rw [h2]; simp) (hctx.nt Y' hY')
      rw [h1] at this; exact this
    exact iho (order Y') (by omega) J' Y' hd rfl hJ hY' hP'

/-- **the column before `PREDICT` holds the intended values** -/
theorem pre_spec (h : StepHyp G f order x k a P cols) (sched : List (Nat × σ)) (hs : SchedOK G (k + 1) sched) :
    (nextColumnPre sched cols a).k = k + 1 ∧
    NodupKeys (nextColumnPre sched cols a).i_chart ∧
    ∀ I X β, eget (nextColumnPre sched cols a) (I, X, β) =
      if I ≤ k ∧ X ∈ P I then ival G f x I (k + 1) X β else 0 := by
  obtain ⟨h1, h2, hsys⟩ := pre_system h sched hs
  refine ⟨h1, h2, ?_⟩
  intro I X β
  by_cases hc : I ≤ k ∧ X ∈ P I
  · rw [if_pos hc]
    apply pre_match h sched hs I X β hc.1 hc.2
    intro J Y _ hJk hY hP _
    exact pre_complete h sched hs _ _ J Y rfl rfl hJk hY hP
  · rw [if_neg hc, hsys, if_neg hc, zero_add]
    apply sum_map_zero; intro J _
    apply sum_map_zero; intro Y _
    rw [h.coef, if_neg, zero_mul]
    intro hc'
    exact hc ⟨by omega, hc'.2.2⟩

end step
end Genlm.EarleyAux

namespace Genlm.EarleyAux
variable {σ K : Type} [DecidableEq σ] [CommSemiring K]
open IncCkyAux

/-! ### the finished column -/

theorem mem_waitingKeys (col : ECol σ K) (Y : σ) :
    Y ∈ col.waitingKeys ↔ ∃ e ∈ col.i_chart, e.1.2.2.head? = some Y := by
  unfold ECol.waitingKeys
  rw [List.mem_eraseDups, List.mem_filterMap]

theorem ColOK_congr (G : CFG σ K) (f : σ → List σ → K) (x : List σ) (P P' : Nat → List σ) (J : Nat)
    (col : ECol σ K) (hP : ∀ I, I ≤ J → P' I = P I) (h : ColOK G f x P J col) : ColOK G f x P' J col where
  k_eq := h.k_eq
  nd := h.nd
  ival := by
    intro I X Y β
    rw [h.ival]
    by_cases hI : I ≤ J
    · rw [hP I hI]
    · rw [if_neg (fun hc => hI hc.1), if_neg (fun hc => hI hc.1)]
  cval := by
    intro I X
    rw [h.cval]
    by_cases hI : I < J
    · rw [hP I (by omega)]
    · rw [if_neg (fun hc => hI hc.1), if_neg (fun hc => hI hc.1)]
  first := by
    intro e he Y hY
    rw [hP J (Nat.le_refl J)]
    exact h.first e he Y hY

section step
variable {G : CFG σ K} {f : σ → List σ → K} {order : σ → Nat} {x : List σ} {k : Nat} {a : σ}
  {P : Nat → List σ} {cols : List (ECol σ K)}

/-- the prediction sets after the step -/
def stepP (G : CFG σ K) (P : Nat → List σ) (k : Nat) (c1 : ECol σ K) : Nat → List σ :=
  fun J => if J = k + 1 then predReach G c1 else P J

/-- **`next_column` establishes the invariant of the new column** -/
theorem col_step (h : StepHyp G f order x k a P cols) (sched : List (Nat × σ)) (hs : SchedOK G (k + 1) sched) :
    ColOK G f x (stepP G P k (nextColumnPre sched cols a)) (k + 1) (nextColumnWith G sched cols a) := by
  obtain ⟨c1k, c1nd, c1v⟩ := pre_spec h sched hs
  unfold nextColumnWith
  obtain ⟨p1, p2, p3, p4, p5⟩ := predict_spec G (nextColumnPre sched cols a)
  obtain ⟨_, hRag, _⟩ := predReach_spec G (nextColumnPre sched cols a)
  generalize nextColumnPre sched cols a = c1 at *
  have hPk : stepP G P k c1 (k + 1) = predReach G c1 := by simp [stepP]
  have hPold : ∀ I, I ≤ k → stepP G P k c1 I = P I := by
    intro I hI; unfold stepP; rw [if_neg (by omega)]
  refine ⟨p1.trans c1k, p2 c1nd, ?_, ?_, ?_⟩
  · intro I X Y β
    rw [p3, ← eget_cons, c1v, c1k]
    rcases Nat.lt_or_ge k I with hI | hI
    · rw [if_neg (show ¬ (I ≤ k ∧ X ∈ P I) from fun hc => by omega), zero_add]
      by_cases he : I = k + 1
      · subst he
        rw [hPk, ival_diag G f h.hf]
        by_cases hX : X ∈ predReach G c1
        · rw [if_pos ⟨rfl, hX⟩, if_pos ⟨Nat.le_refl _, hX⟩]
        · rw [if_neg (fun hc => hX hc.2), if_neg (fun hc => hX hc.2)]
      · rw [if_neg (fun hc => he hc.1), if_neg (fun hc => by omega)]
    · rw [if_neg (show ¬ (I = k + 1 ∧ X ∈ predReach G c1) from fun hc => by omega), add_zero, hPold I hI]
      by_cases hX : X ∈ P I
      · rw [if_pos ⟨hI, hX⟩, if_pos ⟨by omega, hX⟩]
      · rw [if_neg (fun hc => hX hc.2), if_neg (fun hc => hX hc.2)]
  · intro I X
    rw [p4, ← eget_nil, c1v, ← cval_eq_ival G f h.hf]
    rcases Nat.lt_or_ge k I with hI | hI
    · rw [if_neg (fun hc => by omega), if_neg (fun hc => by omega)]
    · rw [hPold I hI]
      by_cases hX : X ∈ P I
      · rw [if_pos ⟨hI, hX⟩, if_pos ⟨by omega, hX⟩]
      · rw [if_neg (fun hc => hX hc.2), if_neg (fun hc => hX hc.2)]
  · intro e he Y hY
    rw [hPk]
    rcases p5 e.1 (List.mem_map_of_mem he) with hk | hk
    · right
      apply hRag
      rw [c1k, if_neg (by omega), mem_waitingKeys]
      obtain ⟨e', he', hee⟩ := List.mem_map.mp hk
      exact ⟨e', he', by rw [hee]; exact hY⟩
    · exact hk Y hY

end step

/-- the initial column -/
theorem col_init (G : CFG σ K) (f : σ → List σ → K) (hf : FixOK G f) (x : List σ) :
    ColOK G f x (fun _ => predReach G (ECol.empty 0 : ECol σ K)) 0 (earleyInit G) ∧
    G.S ∈ predReach G (ECol.empty 0 : ECol σ K) := by
  obtain ⟨p1, p2, p3, p4, p5⟩ := predict_spec G (ECol.empty 0 : ECol σ K)
  obtain ⟨_, hRag, _⟩ := predReach_spec G (ECol.empty 0 : ECol σ K)
  refine ⟨⟨p1, p2 nodup_nil, ?_, ?_, ?_⟩, ?_⟩
  · intro I X Y β
    show (predict G (ECol.empty 0)).i_chart.get (I, X, Y :: β) = _
    rw [p3]
    show 0 + _ = _
    rw [zero_add]
    by_cases hI : I = 0
    · subst hI
      rw [ival_diag G f hf]
      by_cases hX : X ∈ predReach G (ECol.empty 0 : ECol σ K)
      · rw [if_pos ⟨rfl, hX⟩, if_pos ⟨Nat.le_refl _, hX⟩]
      · rw [if_neg (fun hc => hX hc.2), if_neg (fun hc => hX hc.2)]
    · rw [if_neg (fun hc => hI hc.1), if_neg (fun hc => by omega)]
  · intro I X
    show (predict G (ECol.empty 0)).c_chart.get (I, X) = _
    rw [p4, if_neg (fun hc => by omega)]
    rfl
  · intro e he Y hY
    rcases p5 e.1 (List.mem_map_of_mem he) with hk | hk
    · cases hk
    · exact hk Y hY
  · apply hRag
    simp [ECol.empty]

/-! ### the priority order is a correct schedule -/

theorem le_foldl_max (l : List σ) (g : σ → Nat) (m0 : Nat) :
    m0 ≤ l.foldl (fun m X => max m (g X)) m0 ∧ ∀ X ∈ l, g X ≤ l.foldl (fun m X => max m (g X)) m0 := by
  induction l generalizing m0 with
  | nil => simp
  | cons Y l ih =>
    obtain ⟨i1, i2⟩ := ih (max m0 (g Y))
    simp only [List.foldl_cons]
    refine ⟨by omega, ?_⟩
    intro X hX
    rcases List.mem_cons.mp hX with rfl | hX'
    · omega
    · exact i2 X hX'

theorem mem_schedCands (G : CFG σ K) (k : Nat) (jy : Nat × σ) :
    jy ∈ schedCands G k ↔ jy.1 < k ∧ jy.2 ∈ heads G := by
  unfold schedCands
  simp only [List.mem_flatMap, List.mem_range, List.mem_map]
  constructor
  · rintro ⟨I, hI, X, hX, rfl⟩; exact ⟨hI, hX⟩
  · rintro ⟨h1, h2⟩; exact ⟨jy.1, h1, jy.2, h2, rfl⟩

theorem insertPrio_perm {α : Type} (p : α → Int) (a : α) (l : List α) : (insertPrio p a l).Perm (a :: l) := by
  induction l with
  | nil => exact List.Perm.refl _
  | cons b l ih =>
    simp only [insertPrio]
    split
    · exact (List.Perm.cons b ih).trans (List.Perm.swap a b l)
    · exact List.Perm.refl _

theorem insertPrio_sorted {α : Type} (p : α → Int) (a : α) (l : List α)
    (h : l.Pairwise (fun a b => p b ≤ p a)) : (insertPrio p a l).Pairwise (fun a b => p b ≤ p a) := by
  induction l with
  | nil => simp [insertPrio]
  | cons b l ih =>
    obtain ⟨h1, h2⟩ := List.pairwise_cons.mp h
    simp only [insertPrio]
    split
    · next hab =>
      refine List.pairwise_cons.mpr ⟨?_, ih h2⟩
      intro c hc
      rcases List.mem_cons.mp ((insertPrio_perm p a l).mem_iff.mp hc) with rfl | hc'
      · exact hab
      · exact h1 c hc'
    · next hab =>
      refine List.pairwise_cons.mpr ⟨?_, h⟩
      intro c hc
      rcases List.mem_cons.mp hc with rfl | hc'
      · omega
      · have := h1 c hc'; omega

theorem foldl_insertPrio_spec {α : Type} (p : α → Int) (l acc : List α)
    (h : acc.Pairwise (fun a b => p b ≤ p a)) :
    (l.foldl (fun acc a => insertPrio p a acc) acc).Perm (acc ++ l) ∧
    (l.foldl (fun acc a => insertPrio p a acc) acc).Pairwise (fun a b => p b ≤ p a) := by
  induction l generalizing acc with
  | nil => simpa using h
  | cons a l ih =>
    obtain ⟨i1, i2⟩ := ih (insertPrio p a acc) (insertPrio_sorted p a acc h)
    refine ⟨?_, i2⟩
    simp only [List.foldl_cons]
    refine i1.trans ?_
    refine ((insertPrio_perm p a acc).append_right l).trans ?_
    simp only [List.cons_append]
    exact List.perm_middle.symm

theorem sortPrio_spec {α : Type} (p : α → Int) (l : List α) :
    (sortPrio p l).Perm l ∧ (sortPrio p l).Pairwise (fun a b => p b ≤ p a) := by
  have := foldl_insertPrio_spec p l [] List.Pairwise.nil
  simpa [sortPrio] using this

/-- every enumeration of the potential complete items by decreasing priority
`-((K - I) * ORDER_MAX + order[X])` respects the dependencies (`Gen.Earley.priority_strict`) -/
theorem schedOK_of_sorted (G : CFG σ K) (order : σ → Nat) (hA : Acyc G order) (k : Nat) (sched : List (Nat × σ))
    (hperm : sched.Perm (schedCands G k))
    (hsorted : sched.Pairwise (fun a b => itemPrio G order k b ≤ itemPrio G order k a)) :
    SchedOK G k sched := by
  refine ⟨hperm, hsorted.imp_of_mem ?_⟩
  intro a' b ha' hb hle
  have ha'' := (mem_schedCands G k a').mp (hperm.mem_iff.mp ha')
  have hb'' := (mem_schedCands G k b).mp (hperm.mem_iff.mp hb)
  have hma := (le_foldl_max (heads G) order 0).2 a'.2 ha''.2
  have hmb := (le_foldl_max (heads G) order 0).2 b.2 hb''.2
  intro hfeeds
  have hdep : (a'.1 : Int) < b.1 ∨ ((a'.1 : Int) = b.1 ∧ (order b.2 : Int) < order a'.2) := by
    rcases hfeeds with h1 | ⟨h1, r, hr, h2, h3⟩
    · left; omega
    · right
      refine ⟨by omega, ?_⟩
      have hbV : b.2 ∉ G.V := by
        obtain ⟨r', hr', e⟩ := (mem_heads G b.2).mp hb''.2
        rw [← e]; exact hA.headsNT r' hr'
      have := hA.topo r hr (by rw [h3]; rfl) b.2 (by rw [h3]; simp) hbV
      rw [h2] at this
      omega
  have := Gen.Earley.priority_strict (k : Int) a'.1 b.1 (orderMaxArg G order : Int) (order a'.2) (order b.2)
    (by omega) (by unfold orderMaxArg; omega) (by omega) (by unfold orderMaxArg; omega) (by omega) hdep
  unfold itemPrio at hle
  omega

/-- popping by decreasing priority respects the dependencies -/
theorem schedule_ok (G : CFG σ K) (order : σ → Nat) (hA : Acyc G order) (k : Nat) :
    SchedOK G k (schedule G order k) :=
  schedOK_of_sorted G order hA k _ (sortPrio_spec _ _).1 (sortPrio_spec _ _).2

end Genlm.EarleyAux

namespace Genlm.EarleyAux
variable {σ K : Type} [DecidableEq σ] [CommSemiring K]
open IncCkyAux

/-! ### the chart, column by column -/

theorem earleyChartWith_snoc (G : CFG σ K) (sch : Nat → List (Nat × σ)) (p : List σ) (t : σ) :
    earleyChartWith G sch (p ++ [t]) =
      earleyChartWith G sch p ++ [earleyExtWith G sch (earleyChartWith G sch p) t] := by
  simp only [earleyChartWith, pureChart, List.foldl_append, List.foldl_cons, List.foldl_nil]

/-- **invariant of the chart**: all columns of `chart(x[:n])` are correct -/
theorem chart_ok (G : CFG σ K) (f : σ → List σ → K) (order : σ → Nat) (hf : FixOK G f) (hA : Acyc G order)
    (sch : Nat → List (Nat × σ)) (hsch : ∀ k, SchedOK G k (sch k)) (x : List σ) (hx : ∀ a ∈ x, a ∈ G.V) :
    ∀ n, n ≤ x.length → ∃ P : Nat → List σ, G.S ∈ P 0 ∧
      (earleyChartWith G sch (x.take n)).length = n + 1 ∧
      ∀ J, J ≤ n → ColOK G f x P J ((earleyChartWith G sch (x.take n)).getD J (ECol.empty J)) := by
  intro n
  induction n with
  | zero =>
    intro _
    obtain ⟨h0, hS⟩ := col_init G f hf x
    refine ⟨fun _ => predReach G (ECol.empty 0 : ECol σ K), hS, rfl, ?_⟩
    intro J hJ
    obtain rfl : J = 0 := by omega
    exact h0
  | succ n ih =>
    intro hn
    obtain ⟨P, hS, hlen, hcols⟩ := ih (by omega)
    have hlt : n < x.length := by omega
    have htake : x.take (n + 1) = x.take n ++ [x[n]] := by
      rw [List.take_add_one, List.getElem?_eq_getElem hlt]; rfl
    have hstep : StepHyp G f order x n x[n] P (earleyChartWith G sch (x.take n)) :=
      ⟨hf, hA, List.getElem?_eq_getElem hlt, hx _ (List.getElem_mem hlt), hlen, hcols⟩
    have hlast : ((earleyChartWith G sch (x.take n)).getLastD (ECol.empty 0)).k = n := by
      rw [getLastD_eq hstep]; exact (hcols n (Nat.le_refl n)).k_eq
    rw [htake, earleyChartWith_snoc]
    generalize earleyChartWith G sch (x.take n) = cols at *
    have hnew := col_step hstep (sch (n + 1)) (hsch (n + 1))
    refine ⟨stepP G P n (nextColumnPre (sch (n + 1)) cols x[n]), ?_, ?_, ?_⟩
    · unfold stepP; rw [if_neg (by omega)]; exact hS
    · rw [List.length_append, hlen]; rfl
    · intro J hJ
      rcases Nat.lt_or_ge n J with hJn | hJn
      · obtain rfl : J = n + 1 := by omega
        have e : (cols ++ [earleyExtWith G sch cols x[n]]).getD (n + 1) (ECol.empty (n + 1))
            = nextColumnWith G (sch (n + 1)) cols x[n] := by
          rw [List.getD_eq_getElem?_getD, List.getElem?_append_right (by omega), hlen, Nat.sub_self]
          simp only [List.getElem?_cons_zero, Option.getD_some, earleyExtWith, hlast]
        rw [e]; exact hnew
      · have e : (cols ++ [earleyExtWith G sch cols x[n]]).getD J (ECol.empty J) = cols.getD J (ECol.empty J) := by
          rw [List.getD_eq_getElem?_getD, List.getD_eq_getElem?_getD, List.getElem?_append_left (by omega)]
        rw [e]
        apply ColOK_congr G f x P _ J _ _ (hcols J hJn)
        intro I hI
        unfold stepP; rw [if_neg (by omega)]

theorem earleyNullary_eq (G : CFG σ K) :
    earleyNullary G = (G.rules.map fun r => if r.head = G.S ∧ r.body = [] then r.w else 0).sum := by
  unfold earleyNullary
  rw [foldl_acc G.rules (fun r => r.head = G.S ∧ r.body = []) (fun r => r.w) 0, zero_add]

theorem WN_one_nil (G : CFG σ K) (hN : NullOK G) (X : σ) :
    WN G 1 X [] = (G.rules.map fun r => if r.head = X ∧ r.body = [] then r.w else 0).sum := by
  show WN G (0 + 1) X [] = _
  simp only [WN.eq_2, lsum_eq_sum]
  rw [sum_filter_ite]
  apply sum_congr; intro r hr
  simp only [decide_eq_true_eq]
  by_cases hX : r.head = X
  · match hb : r.body with
    | [] => simp [hX, Wbody]
    | t :: tt =>
      rw [Wbody_cons_nil, WN_nil_body G hN 0 r hr t (by rw [hb]; simp)]
      simp [hX]
  · simp [hX]

end Genlm.EarleyAux

namespace Genlm
variable {σ K : Type} [DecidableEq σ] [CommSemiring K]
open IncCkyAux EarleyAux

/-- every complete item of the last column of `chart(x)`, for any pop order that respects the dependencies:
`c_chart[(I, X)]` is the derivation sum of `x[I:]` from `X` if `X` was predicted at `I`, and `0`/absent otherwise;
`(0, S)` is always predicted -/
theorem earley_items (G : CFG σ K) (order : σ → Nat) (M : Nat) (hA : Acyc G order) (hM : OrderBound G order M)
    (sch : Nat → List (Nat × σ)) (hsch : ∀ k, SchedOK G k (sch k)) (x : List σ) (hx : ∀ a ∈ x, a ∈ G.V) :
    ∃ P : Nat → List σ, G.S ∈ P 0 ∧ (earleyChartWith G sch x).length = x.length + 1 ∧
      ∀ J, J ≤ x.length → ColOK G (Wlim G M) x P J ((earleyChartWith G sch x).getD J (ECol.empty J)) := by
  have := chart_ok G (Wlim G M) order (Wlim_fixOK G order M hA hM) hA sch hsch x hx x.length (Nat.le_refl _)
  rw [List.take_length] at this
  exact this

/-- **C02 for the Earley parser**, for every pop order of the agenda that respects the dependencies:
`Earley(cfg)(x)` is the sum of the weights of all derivation trees of `x` (`WN` at any level `n ≥ |x| * M + 1`,
where it has stabilised, `WN_stable`). -/
theorem earley_correct_sched (G : CFG σ K) (order : σ → Nat) (M : Nat) (hA : Acyc G order)
    (hM : OrderBound G order M) (sch : Nat → List (Nat × σ)) (hsch : ∀ k, SchedOK G k (sch k))
    (x : List σ) (hx : ∀ a ∈ x, a ∈ G.V) (n : Nat) (hn : x.length * M + 1 ≤ n) :
    earleyCallWith G sch x = WN G n G.S x := by
  rw [WN_stable G order M hA hM G.S x n hn]
  unfold earleyCallWith
  by_cases h0 : x.length = 0
  · rw [if_pos h0]
    have : x = [] := List.eq_nil_of_length_eq_zero h0
    subst this
    rw [earleyNullary_eq]
    unfold Wlim
    simp only [List.length_nil, Nat.zero_mul, Nat.zero_add]
    rw [WN_one_nil G hA.nullOK]
  · rw [if_neg h0]
    obtain ⟨P, hS, hlen, hcols⟩ := earley_items G order M hA hM sch hsch x hx
    have hc := (hcols x.length (Nat.le_refl _)).cval 0 G.S
    have hlt : x.length < (earleyChartWith G sch x).length := by omega
    rw [List.getD_eq_getElem?_getD, List.getElem?_eq_getElem hlt, Option.getD_some] at hc ⊢
    rw [hc, if_pos ⟨by omega, hS⟩]
    unfold cval
    rw [seg_zero_length]

/-- the memo table `self._chart` of `Earley.chart` is transparent (`chartM` of `Model/Memo.lean`) -/
theorem earley_memo_transparent (G : CFG σ K) (sch : Nat → List (Nat × σ)) (p : List σ)
    (m : Memo σ (ECol σ K)) (hm : m.Coherent (earleyInit G) (earleyExtWith G sch)) :
    (chartM (earleyInit G) (earleyExtWith G sch) p m).1 = earleyChartWith G sch p ∧
    (chartM (earleyInit G) (earleyExtWith G sch) p m).2.Coherent (earleyInit G) (earleyExtWith G sch) :=
  chartM_transparent _ _ p m hm

/-- **C02 for the Earley parser** with the pop order of the priority queue -/
theorem earley_correct (G : CFG σ K) (order : σ → Nat) (M : Nat) (hA : Acyc G order) (hM : OrderBound G order M)
    (x : List σ) (hx : ∀ a ∈ x, a ∈ G.V) (n : Nat) (hn : x.length * M + 1 ≤ n) :
    earleyCall G order x = WN G n G.S x :=
  earley_correct_sched G order M hA hM (schedule G order) (schedule_ok G order hA) x hx n hn

end Genlm

/-! ### non-vacuity -/
namespace Genlm.EarleyAux.Examples

example : earleyCall exG exOrd [11] = 15 := by decide
example : earleyCall exG exOrd [11, 10, 11] = 150 ∧ WN exG 10 0 [11, 10, 11] = 150 := by decide
example : earleyCall exG exOrd [11, 10] = 0 := by decide
/-- the pop order in column 2: narrower spans first, then `T`, `E`, `S` -/
example : schedule exG exOrd 2 = [(1, 2), (1, 1), (1, 0), (0, 2), (0, 1), (0, 0)] := by decide
/-- the hypothesis `TopoOrder` is needed: with a constant `order` the unary chain `S → E → T` is popped in the
wrong order and the parse is lost -/
example : earleyCall exG (fun _ => 0) [11] = 0 := by decide
/-- the hypothesis `∀ a ∈ x, a ∈ G.V` is needed: `__call__` does not check its input, and a *nonterminal* token is
scanned like a terminal (`prev_col.waiting_for[token]`), here `T = 2` -/
example : earleyCall exG exOrd [2] = 3 ∧ WN exG 10 0 [2] = 0 := by decide
/-- a grammar with a nullary rule at the start symbol -/
example : Acyc (⟨0, [11], [⟨7, 0, []⟩, ⟨2, 0, [1]⟩, ⟨3, 1, [11]⟩]⟩ : CFG ℕ ℕ) (fun X => if X = 0 then 1 else 0) ∧
    earleyCall (⟨0, [11], [⟨7, 0, []⟩, ⟨2, 0, [1]⟩, ⟨3, 1, [11]⟩]⟩ : CFG ℕ ℕ) (fun X => if X = 0 then 1 else 0) [] = 7 ∧
    earleyCall (⟨0, [11], [⟨7, 0, []⟩, ⟨2, 0, [1]⟩, ⟨3, 1, [11]⟩]⟩ : CFG ℕ ℕ) (fun X => if X = 0 then 1 else 0) [11] = 6 := by
  decide

end Genlm.EarleyAux.Examples
