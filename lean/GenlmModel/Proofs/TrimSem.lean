import GenlmModel.Proofs.Struct
import GenlmModel.Proofs.Basic
import GenlmModel.Proofs.SepStart
import GenlmModel.Proofs.Norm

/-! Semantic preservation of the grammar transformations (property C06): `trim`, `cotrim` and
`separate_start` do not change the weight `WN … n S x` of any string at any level. -/
namespace Genlm
set_option linter.unusedSectionVars false
section
variable {σ K : Type} [DecidableEq σ] [CommSemiring K] [DecidableEq K]

/-! ### a body with a dead symbol weighs nothing -/

/-- if the table vanishes identically at a nonterminal symbol of the body, the body weighs zero -/
theorem Wbody_eq_zero_of_sym_zero (V : List σ) (f : σ → List σ → K) (s : σ) (hV : s ∉ V)
    (hf : ∀ u, f s u = 0) (body : List σ) (hs : s ∈ body) (x : List σ) : Wbody V f body x = 0 := by
  induction body generalizing x with
  | nil => simp at hs
  | cons t ts ih =>
    simp only [Wbody, lsum_eq_sum]
    apply sum_map_zero
    intro p _
    rcases List.mem_cons.mp hs with rfl | hs
    · unfold Wsym; rw [if_neg hV, hf, zero_mul]
    · rw [ih hs, mul_zero]

/-- a symbol that is not generating has weight zero for every string at every level -/
theorem WN_zero_of_not_generating (G : CFG σ K) (n : Nat) (s : σ) (hs : s ∉ generating G)
    (x : List σ) : WN G n s x = 0 := by
  induction n generalizing s x with
  | zero => rfl
  | succ n ih =>
    simp only [WN, lsum_eq_sum]
    apply sum_map_zero
    intro r hr
    obtain ⟨hr, hh⟩ := List.mem_filter.mp hr
    have hh : r.head = s := by simpa using hh
    have : ∃ b ∈ r.body, b ∉ generating G := by
      by_contra hcon
      push Not at hcon
      exact hs (hh ▸ generating_rule hr hcon)
    obtain ⟨b, hb, hbg⟩ := this
    have hbV : b ∉ G.V := fun h => hbg (generating_term h)
    rw [Wbody_eq_zero_of_sym_zero G.V (WN G n) b hbV (fun u => ih b hbg u) r.body hb, mul_zero]

/-! ### the general `_trim(symbols)` lemma -/

/-- Restricting a grammar to a symbol set `T` does not change `WN` at the symbols of `T`, provided
every rule with head in `T` either has its whole body in `T` or contains a non-generating symbol. -/
theorem trimTo_preserves (G : CFG σ K) (T : List σ)
    (hT : ∀ r ∈ G.rules, r.head ∈ T → (∀ b ∈ r.body, b ∈ T) ∨ (∃ b ∈ r.body, b ∉ generating G))
    (n : Nat) (X : σ) (hX : X ∈ T) (x : List σ) : WN (trimTo G T) n X x = WN G n X x := by
  induction n generalizing X x with
  | zero => rfl
  | succ n ih =>
    simp only [WN, lsum_eq_sum]
    have hV : (trimTo G T).V = G.V := rfl
    have hR : (trimTo G T).rules.filter (fun r => decide (r.head = X))
        = (G.rules.filter (fun r => decide (r.head = X))).filter
            (fun r => decide (r.head ∈ T ∧ r.w ≠ 0 ∧ r.body.all (· ∈ T))) := by
      simp only [trimTo, List.filter_filter]
      apply List.filter_congr; intro r _; exact Bool.and_comm _ _
    rw [hR, hV]
    have hkeep : ∀ r ∈ (G.rules.filter (fun r => decide (r.head = X))).filter
          (fun r => decide (r.head ∈ T ∧ r.w ≠ 0 ∧ r.body.all (· ∈ T))),
        r.w * Wbody G.V (WN (trimTo G T) n) r.body x = r.w * Wbody G.V (WN G n) r.body x := by
      intro r hr
      have hk := (List.mem_filter.mp hr).2
      simp only [decide_eq_true_eq, List.all_eq_true] at hk
      rw [Wbody_congr G.V _ _ r.body (fun s hs y => ih s (hk.2.2 s hs) y)]
    rw [List.map_congr_left hkeep]
    refine (sum_filter_of_zero _ _ _ ?_).symm
    intro r hr hk
    obtain ⟨hr, hh⟩ := List.mem_filter.mp hr
    have hh : r.head = X := by simpa using hh
    by_cases hw : r.w = 0
    · rw [hw, zero_mul]
    · have hbT : ¬ ∀ b ∈ r.body, b ∈ T := by
        intro hb
        have : decide (r.head ∈ T ∧ r.w ≠ 0 ∧ r.body.all (· ∈ T)) = true := by
          simp only [decide_eq_true_eq, List.all_eq_true]
          exact ⟨hh ▸ hX, hw, hb⟩
        rw [this] at hk; exact absurd hk (by simp)
      rcases hT r hr (hh ▸ hX) with h | ⟨b, hb, hbg⟩
      · exact absurd h hbT
      · have hbV : b ∉ G.V := fun h => hbg (generating_term h)
        rw [Wbody_eq_zero_of_sym_zero G.V (WN G n) b hbV
          (fun u => WN_zero_of_not_generating G n b hbg u) r.body hb, mul_zero]

/-- `WN` vanishes at a symbol that heads no rule (list-membership form) -/
theorem WN_zero_of_no_rule (G : CFG σ K) (n : Nat) (X : σ) (x : List σ)
    (h : ∀ r ∈ G.rules, r.head ≠ X) : WN G n X x = 0 := by
  cases n with
  | zero => rfl
  | succ n =>
    have : G.rules.filter (fun r => decide (r.head = X)) = [] := by
      rw [List.filter_eq_nil_iff]; intro r hr; simpa using h r hr
    simp [WN, this]

/-! ### 10. `cotrim` and `trim` -/

/-- **C06.10a** `cotrim` preserves the weight of every string at every symbol and level -/
theorem cotrim_preserves (G : CFG σ K) (n : Nat) (X : σ) (x : List σ) :
    WN (cotrim G) n X x = WN G n X x := by
  by_cases hX : X ∈ generating G
  · refine trimTo_preserves G (generating G) ?_ n X hX x
    intro r _ _
    by_cases h : ∀ b ∈ r.body, b ∈ generating G
    · exact Or.inl h
    · push Not at h; exact Or.inr h
  · rw [WN_zero_of_not_generating G n X hX]
    apply WN_zero_of_no_rule
    intro r hr hh
    exact hX (hh ▸ (mem_trimTo.mp hr).2.1)

/-- `trim` preserves the weight of every string at every *useful* symbol and level -/
theorem trim_preserves_at (G : CFG σ K) (n : Nat) (X : σ)
    (hX : X ∈ reachable G (generating G)) (x : List σ) : WN (trim G) n X x = WN G n X x := by
  refine trimTo_preserves G (reachable G (generating G)) ?_ n X hX x
  intro r hr hh
  by_cases h : ∀ b ∈ r.body, b ∈ generating G
  · exact Or.inl (fun b hb => reachable_step hr h hh hb)
  · push Not at h; exact Or.inr h

/-- **C06.10** `trim` preserves the weight of every string at the start symbol, at every level;
no hypothesis on the grammar -/
theorem trim_preserves (G : CFG σ K) (n : Nat) (x : List σ) :
    WN (trim G) n G.S x = WN G n G.S x := by
  by_cases hS : G.S ∈ generating G
  · exact trim_preserves_at G n G.S (reachable_start hS) x
  · rw [WN_zero_of_not_generating G n G.S hS]
    apply WN_zero_of_no_rule
    rw [trim_empty G hS]
    simp

/-- … in terms of the start symbol of the trimmed grammar -/
theorem trim_preserves' (G : CFG σ K) (n : Nat) (x : List σ) :
    WN (trim G) n (trim G).S x = WN G n G.S x := trim_preserves G n x

/-! ### 11. `separate_start` -/

theorem separateStart_eq_dropZero (G : CFG σ K) (fresh : σ) (h : G.S ∈ bodySyms G) :
    separateStart G fresh = dropZero (sepStart G fresh) := by
  unfold separateStart; rw [if_pos h]; rfl

theorem separateStart_eq_self (G : CFG σ K) (fresh : σ) (h : G.S ∉ bodySyms G) :
    separateStart G fresh = G := by
  unfold separateStart; rw [if_neg h]

/-- **C06.11** when a new start symbol is created, level `n+1` of the new grammar is level `n` of
the old one -/
theorem separateStart_preserves_new (G : CFG σ K) (fresh : σ) (hf : Fresh G fresh)
    (hS : G.S ∉ G.V) (h : G.S ∈ bodySyms G) (n : Nat) (x : List σ) :
    WN (separateStart G fresh) (n+1) (separateStart G fresh).S x = WN G n G.S x := by
  rw [separateStart_eq_dropZero G fresh h, WN_dropZero]
  exact sepStart_spec G fresh hf hS n x

/-- **C06.11** both branches at once: the level shifts by one exactly when a new start symbol is
created -/
theorem separateStart_preserves (G : CFG σ K) (fresh : σ) (hf : Fresh G fresh) (hS : G.S ∉ G.V)
    (n : Nat) (x : List σ) :
    WN (separateStart G fresh) (if G.S ∈ bodySyms G then n + 1 else n) (separateStart G fresh).S x
      = WN G n G.S x := by
  split
  · next h => exact separateStart_preserves_new G fresh hf hS h n x
  · next h => rw [separateStart_eq_self G fresh h]

/-- the old nonterminals keep their weights at the same level -/
theorem separateStart_old (G : CFG σ K) (fresh : σ) (hf : Fresh G fresh) (n : Nat) (X : σ)
    (hX : X ≠ fresh) (x : List σ) : WN (separateStart G fresh) n X x = WN G n X x := by
  by_cases h : G.S ∈ bodySyms G
  · rw [separateStart_eq_dropZero G fresh h, WN_dropZero]
    exact sepStart_old G fresh hf n X hX x
  · rw [separateStart_eq_self G fresh h]

end

/-! ### non-vacuity (grammars of `Proofs/Struct.lean`, weights in `ℕ`) -/
section Examples

-- `trim` removes three of the five rules of `structTrimG`, the weight 2 of `1 1` stays
example : WN structTrimG 3 0 [1, 1] = 2 := by decide
example : WN (trim structTrimG) 3 0 [1, 1] = 2 :=
  (trim_preserves structTrimG 3 [1, 1]).trans (by decide)
-- `cotrim` keeps the unreachable nonterminal `4` with its weight, `trim` does not
example : WN (cotrim structTrimG) 2 4 [1] = 5 :=
  (cotrim_preserves structTrimG 2 4 [1]).trans (by decide)
example : WN (trim structTrimG) 2 4 [1] = 0 := by decide
-- no hypothesis on zero weights is needed for the semantic statement
example : WN (trim structTrimBad) 3 0 [1] = WN structTrimBad 3 0 [1] := trim_preserves _ _ _

-- `separate_start` on `structExG` (start symbol `0` occurs in a body; `7` is fresh)
theorem structExG_fresh : Fresh structExG 7 := ⟨by decide, by decide, by decide⟩
example : structExG.S ∈ bodySyms structExG := by decide
example : WN structExG 2 0 [1, 1, 1, 1] = 18 := by decide
example : WN (separateStart structExG 7) 3 7 [1, 1, 1, 1] = 18 :=
  (separateStart_preserves_new structExG 7 structExG_fresh (by decide) (by decide) 2
    [1, 1, 1, 1]).trans (by decide)
-- the hypothesis `G.S ∉ G.V` cannot be dropped: start symbol `1` is a terminal here
def sepStartBadG : CFG ℕ ℕ := ⟨1, [1], [⟨2, 1, [1, 1]⟩]⟩
example : Fresh sepStartBadG 7 := ⟨by decide, by decide, by decide⟩
example : WN (separateStart sepStartBadG 7) 2 7 [1] = 1 ∧ WN sepStartBadG 1 1 [1] = 0 := by decide

end Examples
end Genlm
