import GenlmModel.Proofs.Struct
import GenlmModel.Proofs.Basic
import GenlmModel.Proofs.SepStart
import GenlmModel.Proofs.Norm
import Mathlib.Algebra.BigOperators.Ring.List
import Mathlib.Tactic.Ring

/-! Semantic preservation of the grammar transformations (property C06): `trim`, `cotrim` and
`separate_start` do not change the weight `WN … n S x` of any string at any level; `unfold` keeps
the level-indexed approximations cofinal (`unfold_preserves`). -/
namespace Genlm
set_option linter.unusedSectionVars false
section
variable {σ K : Type} [DecidableEq σ] [CommSemiring K] [DecidableEq K]

/-! ### a body with a dead symbol weighs nothing -/

/-- if the table vanishes identically at a nonterminal symbol of the body, the body weighs zero -/
theorem Wbody_eq_zero_of_sym_zero (V : List σ) (f : σ → List σ → K) (s : σ) (hV : s ∉ V)
    (hf : ∀ u, f s u = 0) (body : List σ) (hs : s ∈ body) (x : List σ) : Wbody V f body x = 0 := by
  induction body generalizing x with
  | nil => simp at hs
  | cons t ts ih =>
    simp only [Wbody, lsum_eq_sum]
    apply sum_map_zero
    intro p _
    rcases List.mem_cons.mp hs with rfl | hs
    · unfold Wsym; rw [if_neg hV, hf, zero_mul]
    · rw [ih hs, mul_zero]

/-- a symbol that is not generating has weight zero for every string at every level -/
theorem WN_zero_of_not_generating (G : CFG σ K) (n : Nat) (s : σ) (hs : s ∉ generating G)
    (x : List σ) : WN G n s x = 0 := by
  induction n generalizing s x with
  | zero => rfl
  | succ n ih =>
    simp only [WN, lsum_eq_sum]
    apply sum_map_zero
    intro r hr
    obtain ⟨hr, hh⟩ := List.mem_filter.mp hr
    have hh : r.head = s := by simpa using hh
    have : ∃ b ∈ r.body, b ∉ generating G := by
      by_contra hcon
      push Not at hcon
      exact hs (hh ▸ generating_rule hr hcon)
    obtain ⟨b, hb, hbg⟩ := this
    have hbV : b ∉ G.V := fun h => hbg (generating_term h)
    rw [Wbody_eq_zero_of_sym_zero G.V (WN G n) b hbV (fun u => ih b hbg u) r.body hb, mul_zero]

/-! ### the general `_trim(symbols)` lemma -/

/-- Restricting a grammar to a symbol set `T` does not change `WN` at the symbols of `T`, provided
every rule with head in `T` either has its whole body in `T` or contains a non-generating symbol. -/
theorem trimTo_preserves (G : CFG σ K) (T : List σ)
    (hT : ∀ r ∈ G.rules, r.head ∈ T → (∀ b ∈ r.body, b ∈ T) ∨ (∃ b ∈ r.body, b ∉ generating G))
    (n : Nat) (X : σ) (hX : X ∈ T) (x : List σ) : WN (trimTo G T) n X x = WN G n X x := by
  induction n generalizing X x with
  | zero => rfl
  | succ n ih =>
    simp only [WN, lsum_eq_sum]
    have hV : (trimTo G T).V = G.V := rfl
    have hR : (trimTo G T).rules.filter (fun r => decide (r.head = X))
        = (G.rules.filter (fun r => decide (r.head = X))).filter
            (fun r => decide (r.head ∈ T ∧ r.w ≠ 0 ∧ r.body.all (· ∈ T))) := by
      simp only [trimTo, List.filter_filter]
      apply List.filter_congr; intro r _; exact Bool.and_comm _ _
    rw [hR, hV]
    have hkeep : ∀ r ∈ (G.rules.filter (fun r => decide (r.head = X))).filter
          (fun r => decide (r.head ∈ T ∧ r.w ≠ 0 ∧ r.body.all (· ∈ T))),
        r.w * Wbody G.V (WN (trimTo G T) n) r.body x = r.w * Wbody G.V (WN G n) r.body x := by
      intro r hr
      have hk := (List.mem_filter.mp hr).2
      simp only [decide_eq_true_eq, List.all_eq_true] at hk
      rw [Wbody_congr G.V _ _ r.body (fun s hs y => ih s (hk.2.2 s hs) y)]
    rw [List.map_congr_left hkeep]
    refine (sum_filter_of_zero _ _ _ ?_).symm
    intro r hr hk
    obtain ⟨hr, hh⟩ := List.mem_filter.mp hr
    have hh : r.head = X := by simpa using hh
    by_cases hw : r.w = 0
    · rw [hw, zero_mul]
    · have hbT : ¬ ∀ b ∈ r.body, b ∈ T := by
        intro hb
        have : decide (r.head ∈ T ∧ r.w ≠ 0 ∧ r.body.all (· ∈ T)) = true := by
          simp only [decide_eq_true_eq, List.all_eq_true]
          exact ⟨hh ▸ hX, hw, hb⟩
        rw [this] at hk; exact absurd hk (by simp)
      rcases hT r hr (hh ▸ hX) with h | ⟨b, hb, hbg⟩
      · exact absurd h hbT
      · have hbV : b ∉ G.V := fun h => hbg (generating_term h)
        rw [Wbody_eq_zero_of_sym_zero G.V (WN G n) b hbV
          (fun u => WN_zero_of_not_generating G n b hbg u) r.body hb, mul_zero]

/-- `WN` vanishes at a symbol that heads no rule (list-membership form) -/
theorem WN_zero_of_no_rule (G : CFG σ K) (n : Nat) (X : σ) (x : List σ)
    (h : ∀ r ∈ G.rules, r.head ≠ X) : WN G n X x = 0 := by
  cases n with
  | zero => rfl
  | succ n =>
    have : G.rules.filter (fun r => decide (r.head = X)) = [] := by
      rw [List.filter_eq_nil_iff]; intro r hr; simpa using h r hr
    simp [WN, this]

/-! ### 10. `cotrim` and `trim` -/

/-- **C06.10a** `cotrim` preserves the weight of every string at every symbol and level -/
theorem cotrim_preserves (G : CFG σ K) (n : Nat) (X : σ) (x : List σ) :
    WN (cotrim G) n X x = WN G n X x := by
  by_cases hX : X ∈ generating G
  · refine trimTo_preserves G (generating G) ?_ n X hX x
    intro r _ _
    by_cases h : ∀ b ∈ r.body, b ∈ generating G
    · exact Or.inl h
    · push Not at h; exact Or.inr h
  · rw [WN_zero_of_not_generating G n X hX]
    apply WN_zero_of_no_rule
    intro r hr hh
    exact hX (hh ▸ (mem_trimTo.mp hr).2.1)

/-- `trim` preserves the weight of every string at every *useful* symbol and level -/
theorem trim_preserves_at (G : CFG σ K) (n : Nat) (X : σ)
    (hX : X ∈ reachable G (generating G)) (x : List σ) : WN (trim G) n X x = WN G n X x := by
  refine trimTo_preserves G (reachable G (generating G)) ?_ n X hX x
  intro r hr hh
  by_cases h : ∀ b ∈ r.body, b ∈ generating G
  · exact Or.inl (fun b hb => reachable_step hr h hh hb)
  · push Not at h; exact Or.inr h

/-- **C06.10** `trim` preserves the weight of every string at the start symbol, at every level;
no hypothesis on the grammar -/
theorem trim_preserves (G : CFG σ K) (n : Nat) (x : List σ) :
    WN (trim G) n G.S x = WN G n G.S x := by
  by_cases hS : G.S ∈ generating G
  · exact trim_preserves_at G n G.S (reachable_start hS) x
  · rw [WN_zero_of_not_generating G n G.S hS]
    apply WN_zero_of_no_rule
    rw [trim_empty G hS]
    simp

/-- … in terms of the start symbol of the trimmed grammar -/
theorem trim_preserves' (G : CFG σ K) (n : Nat) (x : List σ) :
    WN (trim G) n (trim G).S x = WN G n G.S x := trim_preserves G n x

/-! ### 11. `separate_start` -/

theorem separateStart_eq_dropZero (G : CFG σ K) (fresh : σ) (h : G.S ∈ bodySyms G) :
    separateStart G fresh = dropZero (sepStart G fresh) := by
  unfold separateStart; rw [if_pos h]; rfl

theorem separateStart_eq_self (G : CFG σ K) (fresh : σ) (h : G.S ∉ bodySyms G) :
    separateStart G fresh = G := by
  unfold separateStart; rw [if_neg h]

/-- **C06.11** when a new start symbol is created, level `n+1` of the new grammar is level `n` of
the old one -/
theorem separateStart_preserves_new (G : CFG σ K) (fresh : σ) (hf : Fresh G fresh)
    (hS : G.S ∉ G.V) (h : G.S ∈ bodySyms G) (n : Nat) (x : List σ) :
    WN (separateStart G fresh) (n+1) (separateStart G fresh).S x = WN G n G.S x := by
  rw [separateStart_eq_dropZero G fresh h, WN_dropZero]
  exact sepStart_spec G fresh hf hS n x

/-- **C06.11** both branches at once: the level shifts by one exactly when a new start symbol is
created -/
theorem separateStart_preserves (G : CFG σ K) (fresh : σ) (hf : Fresh G fresh) (hS : G.S ∉ G.V)
    (n : Nat) (x : List σ) :
    WN (separateStart G fresh) (if G.S ∈ bodySyms G then n + 1 else n) (separateStart G fresh).S x
      = WN G n G.S x := by
  split
  · next h => exact separateStart_preserves_new G fresh hf hS h n x
  · next h => rw [separateStart_eq_self G fresh h]

/-- the old nonterminals keep their weights at the same level -/
theorem separateStart_old (G : CFG σ K) (fresh : σ) (hf : Fresh G fresh) (n : Nat) (X : σ)
    (hX : X ≠ fresh) (x : List σ) : WN (separateStart G fresh) n X x = WN G n X x := by
  by_cases h : G.S ∈ bodySyms G
  · rw [separateStart_eq_dropZero G fresh h, WN_dropZero]
    exact sepStart_old G fresh hf n X hX x
  · rw [separateStart_eq_self G fresh h]

end

/-! ### 12. `unfold` -/
section Unfold
variable {σ K : Type} [DecidableEq σ] [CommSemiring K] [DecidableEq K]

/-- the natural (algebraic) preorder of a semiring: `b` is `a` plus something -/
def NatLe (a b : K) : Prop := ∃ c, b = a + c

@[inherit_doc] scoped infix:50 " ≼ " => NatLe

namespace UnfoldAux

theorem le_rfl' (a : K) : a ≼ a := ⟨0, (add_zero a).symm⟩
theorem le_of_eq' {a b : K} (h : a = b) : a ≼ b := h ▸ le_rfl' a
theorem zero_le' (a : K) : (0 : K) ≼ a := ⟨a, (zero_add a).symm⟩
theorem le_trans' {a b c : K} (h1 : a ≼ b) (h2 : b ≼ c) : a ≼ c := by
  obtain ⟨d, rfl⟩ := h1; obtain ⟨e, rfl⟩ := h2; exact ⟨d + e, add_assoc _ _ _⟩
theorem add_le' {a a' b b' : K} (h1 : a ≼ a') (h2 : b ≼ b') : a + b ≼ a' + b' := by
  obtain ⟨d, rfl⟩ := h1; obtain ⟨e, rfl⟩ := h2; exact ⟨d + e, by ring⟩
theorem mul_le' {a a' b b' : K} (h1 : a ≼ a') (h2 : b ≼ b') : a * b ≼ a' * b' := by
  obtain ⟨d, rfl⟩ := h1; obtain ⟨e, rfl⟩ := h2; exact ⟨a * e + d * b + d * e, by ring⟩

theorem sum_le' {α : Type} (l : List α) (f g : α → K) (h : ∀ a ∈ l, f a ≼ g a) :
    (l.map f).sum ≼ (l.map g).sum := by
  induction l with
  | nil => exact le_rfl' _
  | cons a l ih =>
    simp only [List.map_cons, List.sum_cons]
    exact add_le' (h a (by simp)) (ih (fun b hb => h b (by simp [hb])))

theorem Wsym_le (V : List σ) (f g : σ → List σ → K) (s : σ) (h : ∀ u, f s u ≼ g s u)
    (u : List σ) : Wsym V f s u ≼ Wsym V g s u := by
  unfold Wsym; split
  · exact le_rfl' _
  · exact h u

theorem Wbody_le (V : List σ) (f g : σ → List σ → K) (body : List σ)
    (h : ∀ s ∈ body, ∀ u, f s u ≼ g s u) (x : List σ) : Wbody V f body x ≼ Wbody V g body x := by
  induction body generalizing x with
  | nil => exact le_rfl' _
  | cons s ss ih =>
    simp only [Wbody, lsum_eq_sum]
    apply sum_le'
    intro p _
    exact mul_le' (Wsym_le V f g s (h s (by simp)) p.1) (ih (fun s' hs' => h s' (by simp [hs'])) p.2)

/-- one step of the `WN` recursion over an arbitrary rule list and table -/
def stepL (V : List σ) (rs : List (Rule σ K)) (f : σ → List σ → K) (X : σ) (x : List σ) : K :=
  ((rs.filter (fun r => r.head = X)).map fun r => r.w * Wbody V f r.body x).sum

theorem WN_succ (G : CFG σ K) (n : Nat) (X : σ) (x : List σ) :
    WN G (n+1) X x = stepL G.V G.rules (WN G n) X x := by
  simp only [WN, lsum_eq_sum, stepL]

theorem stepL_le (V : List σ) (rs : List (Rule σ K)) (f g : σ → List σ → K)
    (h : ∀ s u, f s u ≼ g s u) (X : σ) (x : List σ) : stepL V rs f X x ≼ stepL V rs g X x := by
  unfold stepL
  apply sum_le'
  intro r _
  exact mul_le' (le_rfl' _) (Wbody_le V f g r.body (fun s _ u => h s u) x)

theorem stepL_append (V : List σ) (rs rs' : List (Rule σ K)) (f : σ → List σ → K) (X : σ)
    (x : List σ) : stepL V (rs ++ rs') f X x = stepL V rs f X x + stepL V rs' f X x := by
  simp [stepL, List.filter_append]

theorem stepL_perm (V : List σ) {rs rs' : List (Rule σ K)} (hp : rs.Perm rs')
    (f : σ → List σ → K) (X : σ) (x : List σ) : stepL V rs f X x = stepL V rs' f X x :=
  ((hp.filter _).map _).sum_eq

theorem stepL_mkRules (V : List σ) (rs : List (Rule σ K)) (f : σ → List σ → K) (X : σ)
    (x : List σ) : stepL V (mkRules rs) f X x = stepL V rs f X x := by
  unfold stepL mkRules
  have hR : (rs.filter (fun r => decide (r.w ≠ 0))).filter (fun r => decide (r.head = X))
      = (rs.filter (fun r => decide (r.head = X))).filter (fun r => decide (r.w ≠ 0)) := by
    simp only [List.filter_filter]
    apply List.filter_congr; intro r _; exact Bool.and_comm _ _
  rw [hR]
  refine (sum_filter_of_zero _ _ _ ?_).symm
  intro r _ hr
  have : r.w = 0 := by simpa using hr
  rw [this, zero_mul]

theorem stepL_cons (V : List σ) (s : Rule σ K) (rs : List (Rule σ K)) (f : σ → List σ → K) (X : σ)
    (x : List σ) : stepL V (s :: rs) f X x
      = (if s.head = X then s.w * Wbody V f s.body x else 0) + stepL V rs f X x := by
  unfold stepL
  by_cases h : s.head = X
  · rw [List.filter_cons_of_pos (by simpa using h), if_pos h]; simp
  · rw [List.filter_cons_of_neg (by simpa using h), if_neg h, zero_add]

/-- `WN` grows with the level -/
theorem WN_le_succ (G : CFG σ K) (n : Nat) (X : σ) (x : List σ) : WN G n X x ≼ WN G (n+1) X x := by
  induction n generalizing X x with
  | zero => exact zero_le' _
  | succ n ih =>
    rw [WN_succ, WN_succ]
    exact stepL_le _ _ _ _ (fun s u => ih s u) X x

theorem WN_le_of_le (G : CFG σ K) {n m : Nat} (h : n ≤ m) (X : σ) (x : List σ) :
    WN G n X x ≼ WN G m X x := by
  induction h with
  | refl => exact le_rfl' _
  | step _ ih => exact le_trans' ih (WN_le_succ G _ X x)

/-! splitting a string in three -/

theorem sum_splits_left_nil' {α : Type} [DecidableEq α] (x : List α) (F : List α → K) :
    ((splits x).map fun p => (if p.1 = [] then 1 else 0) * F p.2).sum = F x := by
  cases x with
  | nil => simp [splits]
  | cons b t =>
    simp only [splits, List.map_cons, List.sum_cons, List.map_map, Function.comp_def]
    rw [sum_map_zero _ _ (fun p _ => by simp), add_zero]
    simp

/-- associativity of `splits`: cutting the right part again = cutting the left part again -/
theorem splits_assoc {α : Type} (x : List α) (F : List α → List α → List α → K) :
    ((splits x).map fun p => ((splits p.2).map fun q => F p.1 q.1 q.2).sum).sum
      = ((splits x).map fun p => ((splits p.1).map fun q => F q.1 q.2 p.2).sum).sum := by
  induction x generalizing F with
  | nil => simp [splits]
  | cons a xs ih =>
    simp only [splits, List.map_cons, List.sum_cons, List.map_map, Function.comp_def, List.map_nil,
      List.sum_nil, add_zero]
    rw [List.sum_map_add, ih (fun u v w => F (a :: u) v w)]
    rw [add_assoc]

theorem Wbody_append (V : List σ) (f : σ → List σ → K) (α β : List σ) (x : List σ) :
    Wbody V f (α ++ β) x = ((splits x).map fun p => Wbody V f α p.1 * Wbody V f β p.2).sum := by
  induction α generalizing x with
  | nil =>
    simp only [List.nil_append, Wbody]
    exact (sum_splits_left_nil' x (fun v => Wbody V f β v)).symm
  | cons s ss ih =>
    simp only [List.cons_append, Wbody, lsum_eq_sum]
    have h1 : ∀ p ∈ splits x, Wsym V f s p.1 * Wbody V f (ss ++ β) p.2
        = ((splits p.2).map fun q => Wsym V f s p.1 * Wbody V f ss q.1 * Wbody V f β q.2).sum := by
      intro p _
      rw [ih, ← List.sum_map_mul_left]
      congr 1; apply List.map_congr_left; intro q _; ring
    rw [List.map_congr_left h1, splits_assoc x (fun u v w => Wsym V f s u * Wbody V f ss v * Wbody V f β w)]
    congr 1; apply List.map_congr_left; intro p _
    rw [← List.sum_map_mul_right]

/-- `α`, a middle part with weight function `m`, `β` -/
def mid3 (V : List σ) (fa : σ → List σ → K) (m : List σ → K) (fb : σ → List σ → K)
    (α β : List σ) (x : List σ) : K :=
  ((splits x).map fun p => Wbody V fa α p.1 *
    ((splits p.2).map fun q => m q.1 * Wbody V fb β q.2).sum).sum

theorem Wbody_mid_sym (V : List σ) (f : σ → List σ → K) (α β : List σ) (y : σ) (hy : y ∉ V)
    (x : List σ) : Wbody V f (α ++ y :: β) x = mid3 V f (f y) f α β x := by
  rw [Wbody_append]
  unfold mid3
  congr 1; apply List.map_congr_left; intro p _
  simp only [Wbody, lsum_eq_sum, Wsym, if_neg hy]

theorem Wbody_mid_body (V : List σ) (g : σ → List σ → K) (α ρ β : List σ) (x : List σ) :
    Wbody V g (α ++ ρ ++ β) x = mid3 V g (Wbody V g ρ) g α β x := by
  rw [List.append_assoc, Wbody_append]
  unfold mid3
  congr 1; apply List.map_congr_left; intro p _
  rw [Wbody_append]

theorem mid3_le (V : List σ) (fa ga : σ → List σ → K) (m m' : List σ → K) (fb gb : σ → List σ → K)
    (α β : List σ) (ha : ∀ s u, fa s u ≼ ga s u) (hm : ∀ v, m v ≼ m' v)
    (hb : ∀ s u, fb s u ≼ gb s u) (x : List σ) :
    mid3 V fa m fb α β x ≼ mid3 V ga m' gb α β x := by
  unfold mid3
  apply sum_le'; intro p _
  apply mul_le' (Wbody_le V fa ga α (fun s _ u => ha s u) p.1)
  apply sum_le'; intro q _
  exact mul_le' (hm q.1) (Wbody_le V fb gb β (fun s _ u => hb s u) q.2)

/-- `mid3` is linear in the middle weight function -/
theorem mid3_sum {ι : Type} (V : List σ) (fa fb : σ → List σ → K) (α β : List σ) (R : List ι)
    (c : ι → K) (m : ι → List σ → K) (x : List σ) :
    mid3 V fa (fun v => (R.map fun r => c r * m r v).sum) fb α β x
      = (R.map fun r => c r * mid3 V fa (m r) fb α β x).sum := by
  induction R with
  | nil => simp [mid3]
  | cons r R ih =>
    simp only [List.map_cons, List.sum_cons]
    rw [← ih]
    unfold mid3
    rw [← List.sum_map_mul_left, ← List.sum_map_add]
    congr 1; apply List.map_congr_left; intro p _
    have inner : ((splits p.2).map fun q =>
          (c r * m r q.1 + (R.map fun r => c r * m r q.1).sum) * Wbody V fb β q.2).sum
        = c r * ((splits p.2).map fun q => m r q.1 * Wbody V fb β q.2).sum
          + ((splits p.2).map fun q => (R.map fun r => c r * m r q.1).sum * Wbody V fb β q.2).sum := by
      rw [← List.sum_map_mul_left, ← List.sum_map_add]
      congr 1; apply List.map_congr_left; intro q _
      ring
    beta_reduce
    rw [inner]
    ring

/-! list bookkeeping for `unfoldRule` -/

theorem zipIdx_filter_ne_of_lt {α : Type} (l : List α) (off t : Nat) (h : t < off) :
    ((l.zipIdx off).filter (fun p => p.2 ≠ t)).map (·.1) = l := by
  induction l generalizing off with
  | nil => rfl
  | cons a l ih =>
    rw [List.zipIdx_cons, List.filter_cons_of_pos (by simp; omega), List.map_cons,
      ih (off + 1) (by omega)]

theorem zipIdx_filter_ne {α : Type} (l : List α) (off i : Nat) :
    ((l.zipIdx off).filter (fun p => p.2 ≠ off + i)).map (·.1) = l.eraseIdx i := by
  induction l generalizing off i with
  | nil => rfl
  | cons a l ih =>
    rw [List.zipIdx_cons]
    cases i with
    | zero =>
      rw [List.filter_cons_of_neg (by simp), List.eraseIdx_cons_zero]
      exact zipIdx_filter_ne_of_lt l (off + 1) (off + 0) (by omega)
    | succ i =>
      rw [List.filter_cons_of_pos (by simp), List.map_cons, List.eraseIdx_cons_succ,
        show off + (i + 1) = (off + 1) + i by omega, ih]

theorem others_perm {α : Type} (l : List α) (i : Nat) (s : α) (h : l[i]? = some s) :
    l.Perm (s :: ((l.zipIdx.filter (fun p => p.2 ≠ i)).map (·.1))) := by
  obtain ⟨hi, rfl⟩ := List.getElem?_eq_some_iff.mp h
  have := zipIdx_filter_ne l 0 i
  rw [Nat.zero_add] at this
  rw [this]
  exact (List.getElem_cons_eraseIdx_perm hi).symm

theorem body_split {α : Type} (b : List α) (k : Nat) (y : α) (h : b[k]? = some y) :
    b = b.take k ++ y :: b.drop (k + 1) := by
  obtain ⟨hk, rfl⟩ := List.getElem?_eq_some_iff.mp h
  rw [← List.drop_eq_getElem_cons hk, List.take_append_drop]

/-- what `unfoldRule` returns, spelled out -/
theorem unfoldRule_inv {G G' : CFG σ K} {i k : Nat} (h : unfoldRule G i k = some G') :
    ∃ s y, G.rules[i]? = some s ∧ s.body[k]? = some y ∧ y ∉ G.V ∧
      G' = { S := G.S, V := G.V,
             rules := mkRules (((G.rules.zipIdx.filter (fun p => p.2 ≠ i)).map (·.1)) ++
               (G.rules.filter (fun r => r.head = y)).map fun r =>
                 (⟨s.w * r.w, s.head, s.body.take k ++ r.body ++ s.body.drop (k+1)⟩ : Rule σ K)) } := by
  unfold unfoldRule at h
  split at h
  · exact absurd h (by simp)
  · next s hs =>
    split at h
    · exact absurd h (by simp)
    · next y hy =>
      split at h
      · exact absurd h (by simp)
      · next hV =>
        refine ⟨s, y, hs, hy, hV, ?_⟩
        exact (Option.some.inj h).symm

theorem stepL_news (V : List σ) (R : List (Rule σ K)) (c : K) (hd : σ) (α β : List σ)
    (g : σ → List σ → K) (X : σ) (x : List σ) :
    stepL V (R.map fun r => (⟨c * r.w, hd, α ++ r.body ++ β⟩ : Rule σ K)) g X x
      = if hd = X then (R.map fun r => (c * r.w) * Wbody V g (α ++ r.body ++ β) x).sum else 0 := by
  induction R with
  | nil => simp [stepL]
  | cons r R ih =>
    rw [List.map_cons, stepL_cons, ih]
    by_cases h : hd = X
    · simp [h]
    · simp [h]

/-- the unfolded rule's contribution, rewritten over the rules `R` of the unfolded symbol -/
theorem s_term (V : List σ) (f f' : σ → List σ → K) (c : K) (α β : List σ) (y : σ) (hy : y ∉ V)
    (R : List (Rule σ K)) (hfy : ∀ v, f y v = (R.map fun r => r.w * Wbody V f' r.body v).sum)
    (x : List σ) :
    c * Wbody V f (α ++ y :: β) x
      = (R.map fun r => (c * r.w) * mid3 V f (Wbody V f' r.body) f α β x).sum := by
  have hf : f y = fun v => (R.map fun r => r.w * Wbody V f' r.body v).sum := funext hfy
  rw [Wbody_mid_sym V f α β y hy, hf,
    mid3_sum V f f α β R (fun r => r.w) (fun r => Wbody V f' r.body) x, ← List.sum_map_mul_left]
  congr 1; apply List.map_congr_left; intro r _
  rw [mul_assoc]

end UnfoldAux
open UnfoldAux

/-- the two one-step decompositions shared by both directions -/
theorem unfold_steps {G G' : CFG σ K} {i k : Nat} (h : unfoldRule G i k = some G') :
    G'.V = G.V ∧ G'.S = G.S ∧
    ∃ (s : Rule σ K) (y : σ) (others : List (Rule σ K)) (α β : List σ),
      y ∉ G.V ∧ s.body = α ++ y :: β ∧
      (∀ f X x, stepL G.V G.rules f X x
        = (if s.head = X then s.w * Wbody G.V f (α ++ y :: β) x else 0) + stepL G.V others f X x) ∧
      (∀ g X x, stepL G.V G'.rules g X x
        = stepL G.V others g X x +
          (if s.head = X then ((G.rules.filter (fun r => r.head = y)).map fun r =>
            (s.w * r.w) * mid3 G.V g (Wbody G.V g r.body) g α β x).sum else 0)) := by
  obtain ⟨s, y, hs, hy, hV, rfl⟩ := unfoldRule_inv h
  refine ⟨rfl, rfl, s, y, ((G.rules.zipIdx.filter (fun p => p.2 ≠ i)).map (·.1)), s.body.take k, s.body.drop (k+1), hV, body_split s.body k y hy, ?_, ?_⟩
  · intro f X x
    rw [stepL_perm G.V (others_perm G.rules i s hs), stepL_cons, ← body_split s.body k y hy]
  · intro g X x
    simp only
    rw [stepL_mkRules, stepL_append, stepL_news]
    congr 1
    split
    · congr 1; apply List.map_congr_left; intro r _
      rw [Wbody_mid_body]
    · rfl

/-- **C06.12 (⊑)** unfolding never loses weight at any level -/
theorem unfold_le {G G' : CFG σ K} {i k : Nat} (h : unfoldRule G i k = some G') (n : Nat) (X : σ)
    (x : List σ) : WN G n X x ≼ WN G' n X x := by
  obtain ⟨hV, _, s, y, others, α, β, hy, hb, hG, hG'⟩ := unfold_steps h
  induction n generalizing X x with
  | zero => exact le_rfl' _
  | succ n ih =>
    rw [WN_succ, WN_succ, hV, hG, hG', add_comm]
    refine add_le' (stepL_le _ _ _ _ ih X x) ?_
    split
    · cases n with
      | zero =>
        have : Wbody G.V (WN G 0) (α ++ y :: β) x = 0 :=
          Wbody_eq_zero_of_sym_zero G.V (WN G 0) y hy (fun _ => rfl) _ (by simp) x
        rw [this, mul_zero]; exact zero_le' _
      | succ m =>
        rw [s_term G.V (WN G (m+1)) (WN G m) s.w α β y hy (G.rules.filter (fun r => r.head = y))
          (fun v => by simp only [WN, lsum_eq_sum]) x]
        apply sum_le'; intro r _
        refine mul_le' (le_rfl' _) (mid3_le _ _ _ _ _ _ _ _ _ ih ?_ ih x)
        intro v
        exact Wbody_le _ _ _ _ (fun t _ u => le_trans' (WN_le_succ G m t u) (ih t u)) v
    · exact le_rfl' _

/-- **C06.12 (⊒)** … and what the unfolded grammar has at level `n`, the original has at level `2n` -/
theorem unfold_ge {G G' : CFG σ K} {i k : Nat} (h : unfoldRule G i k = some G') (n : Nat) (X : σ)
    (x : List σ) : WN G' n X x ≼ WN G (2 * n) X x := by
  obtain ⟨hV, _, s, y, others, α, β, hy, hb, hG, hG'⟩ := unfold_steps h
  induction n generalizing X x with
  | zero => exact le_rfl' _
  | succ n ih =>
    have ih1 : ∀ t u, WN G' n t u ≼ WN G (2 * n + 1) t u :=
      fun t u => le_trans' (ih t u) (WN_le_succ G _ t u)
    rw [show 2 * (n + 1) = (2 * n + 1) + 1 by omega, WN_succ, WN_succ, hV, hG, hG', add_comm]
    refine add_le' ?_ (stepL_le _ _ _ _ ih1 X x)
    split
    · rw [s_term G.V (WN G (2*n+1)) (WN G (2*n)) s.w α β y hy (G.rules.filter (fun r => r.head = y))
        (fun v => by simp only [WN, lsum_eq_sum]) x]
      apply sum_le'; intro r _
      refine mul_le' (le_rfl' _) (mid3_le _ _ _ _ _ _ _ _ _ ih1 ?_ ih1 x)
      intro v
      exact Wbody_le _ _ _ _ (fun t _ u => ih t u) v
    · exact le_rfl' _

/-- **C06.12** `unfold(i, k)` preserves the weighted language in the limit: the two level-indexed
approximation sequences are cofinal in the natural preorder of the semiring -/
theorem unfold_preserves {G G' : CFG σ K} {i k : Nat} (h : unfoldRule G i k = some G') (n : Nat)
    (X : σ) (x : List σ) : WN G n X x ≼ WN G' n X x ∧ WN G' n X x ≼ WN G (2 * n) X x :=
  ⟨unfold_le h n X x, unfold_ge h n X x⟩

/-- consequence: where the natural preorder is antisymmetric (ℕ, ℝ≥0, Boolean, tropical, …) and the
original grammar's weight of `x` has stabilised from level `N` on, the unfolded grammar has the same
weight from level `N` on -/
theorem unfold_limit {G G' : CFG σ K} {i k : Nat} (h : unfoldRule G i k = some G')
    (hanti : ∀ a b : K, a ≼ b → b ≼ a → a = b) (N : Nat) (X : σ) (x : List σ) (L : K)
    (hstab : ∀ m, N ≤ m → WN G m X x = L) (n : Nat) (hn : N ≤ n) : WN G' n X x = L := by
  have h1 := unfold_le h n X x
  have h2 := unfold_ge h n X x
  rw [hstab n hn] at h1
  rw [hstab (2 * n) (by omega)] at h2
  exact hanti _ _ h2 h1

end Unfold

/-! ### non-vacuity (grammars of `Proofs/Struct.lean`, weights in `ℕ`) -/
section Examples

-- `trim` removes three of the five rules of `structTrimG`, the weight 2 of `1 1` stays
example : WN structTrimG 3 0 [1, 1] = 2 := by decide
example : WN (trim structTrimG) 3 0 [1, 1] = 2 :=
  (trim_preserves structTrimG 3 [1, 1]).trans (by decide)
-- `cotrim` keeps the unreachable nonterminal `4` with its weight, `trim` does not
example : WN (cotrim structTrimG) 2 4 [1] = 5 :=
  (cotrim_preserves structTrimG 2 4 [1]).trans (by decide)
example : WN (trim structTrimG) 2 4 [1] = 0 := by decide
-- no hypothesis on zero weights is needed for the semantic statement
example : WN (trim structTrimBad) 3 0 [1] = WN structTrimBad 3 0 [1] := trim_preserves _ _ _

-- `separate_start` on `structExG` (start symbol `0` occurs in a body; `7` is fresh)
theorem structExG_fresh : Fresh structExG 7 := ⟨by decide, by decide, by decide⟩
example : structExG.S ∈ bodySyms structExG := by decide
example : WN structExG 2 0 [1, 1, 1, 1] = 18 := by decide
example : WN (separateStart structExG 7) 3 7 [1, 1, 1, 1] = 18 :=
  (separateStart_preserves_new structExG 7 structExG_fresh (by decide) (by decide) 2
    [1, 1, 1, 1]).trans (by decide)
-- the hypothesis `G.S ∉ G.V` cannot be dropped: start symbol `1` is a terminal here
def sepStartBadG : CFG ℕ ℕ := ⟨1, [1], [⟨2, 1, [1, 1]⟩]⟩
example : Fresh sepStartBadG 7 := ⟨by decide, by decide, by decide⟩
example : WN (separateStart sepStartBadG 7) 2 7 [1] = 1 ∧ WN sepStartBadG 1 1 [1] = 0 := by decide

-- `unfold`: `0 → 2 1 (2); 2 → 1 (3) | 2 1 (1)`; unfold the `2` in the first rule
def unfExG : CFG ℕ ℕ := ⟨0, [1], [⟨2, 0, [2, 1]⟩, ⟨3, 2, [1]⟩, ⟨1, 2, [2, 1]⟩]⟩
def unfExG' : CFG ℕ ℕ :=
  ⟨0, [1], [⟨3, 2, [1]⟩, ⟨1, 2, [2, 1]⟩, ⟨6, 0, [1, 1]⟩, ⟨2, 0, [2, 1, 1]⟩]⟩
theorem unfEx_eq : unfoldRule unfExG 0 0 = some unfExG' := by rfl
example : unfoldRule unfExG 0 1 = none := by rfl   -- position 1 holds a terminal
-- the levels really shift: weight 6 of `1 1` appears at level 1 after, at level 2 before
example : WN unfExG 1 0 [1, 1] = 0 ∧ WN unfExG' 1 0 [1, 1] = 6 ∧ WN unfExG 2 0 [1, 1] = 6 := by
  decide
example : WN unfExG 1 0 [1, 1] ≼ WN unfExG' 1 0 [1, 1] ∧
    WN unfExG' 1 0 [1, 1] ≼ WN unfExG 2 0 [1, 1] := unfold_preserves unfEx_eq 1 0 [1, 1]
-- the preorder is antisymmetric on `ℕ`, so `unfold_limit` applies there
example : ∀ a b : ℕ, a ≼ b → b ≼ a → a = b := by
  rintro a b ⟨c, rfl⟩ ⟨d, h⟩; omega

end Examples
end Genlm
