import GenlmModel.Model.Cfg
import GenlmModel.Proofs.Basic

/-! `add_EOS` (cfglm.py): the new grammar generates exactly `x ++ [eos]` for the old strings `x`,
with the same weight, and nothing else (no string without EOS, with EOS not in last position, or
with two EOS). -/
namespace Genlm
variable {σ K : Type} [DecidableEq σ] [CommSemiring K]

/-- `Wbody` only looks at the table on pieces of the input: congruence relative to a predicate on
strings that is inherited by both halves of every split.  The terminal sets may differ. -/
theorem Wbody_congr_on (P : List σ → Prop) (hP : ∀ u v, P (u ++ v) → P u ∧ P v)
    (V V' : List σ) (f g : σ → List σ → K) (body : List σ)
    (h : ∀ s ∈ body, ∀ u, P u → Wsym V f s u = Wsym V' g s u) (x : List σ) (hx : P x) :
    Wbody V f body x = Wbody V' g body x := by
  induction body generalizing x with
  | nil => rfl
  | cons s ss ih =>
    simp only [Wbody, lsum_eq_sum]
    congr 1
    apply List.map_congr_left
    intro p hp
    have hp' : p.1 ++ p.2 = x := (mem_splits x p.1 p.2).mp hp
    have hP' := hP p.1 p.2 (hp' ▸ hx)
    rw [h s (by simp) p.1 hP'.1, ih (fun s' hs' => h s' (by simp [hs'])) p.2 hP'.2]

/-- If no body symbol can yield a string containing `a`, the body cannot either. -/
theorem Wbody_eq_zero_of_mem (V : List σ) (f : σ → List σ → K) (a : σ) (body : List σ)
    (h : ∀ s ∈ body, ∀ u, a ∈ u → Wsym V f s u = 0) (x : List σ) (hx : a ∈ x) :
    Wbody V f body x = 0 := by
  induction body generalizing x with
  | nil =>
    simp only [Wbody]
    rw [if_neg]; rintro rfl; simp at hx
  | cons s ss ih =>
    simp only [Wbody, lsum_eq_sum]
    apply sum_map_zero
    intro p hp
    have hp' : p.1 ++ p.2 = x := (mem_splits x p.1 p.2).mp hp
    rw [← hp', List.mem_append] at hx
    rcases hx with hx | hx
    · rw [h s (by simp) p.1 hx, zero_mul]
    · rw [ih (fun s' hs' => h s' (by simp [hs'])) p.2 hx, mul_zero]

/-- sum over splits with the right part forced to be `[a]`, on a string that ends in `a` -/
theorem sum_splits_right_singleton (a : σ) (x : List σ) (F : List σ → K) :
    ((splits (x ++ [a])).map fun p => F p.1 * (if p.2 = [a] then 1 else 0)).sum = F x := by
  induction x generalizing F with
  | nil => simp [splits]
  | cons b x ih =>
    have := ih (fun u => F (b :: u))
    simp only [List.cons_append, splits, List.map_cons, List.sum_cons, List.map_map,
      Function.comp_def]
    rw [this, if_neg (by simp), mul_zero, zero_add]

/-- … and on a string that does not end in `a` -/
theorem sum_splits_right_singleton_zero (a : σ) (z : List σ) (F : List σ → K)
    (hz : ¬ ∃ x, z = x ++ [a]) :
    ((splits z).map fun p => F p.1 * (if p.2 = [a] then 1 else 0)).sum = 0 := by
  apply sum_map_zero
  intro p hp
  have hp' : p.1 ++ p.2 = z := (mem_splits z p.1 p.2).mp hp
  rw [if_neg, mul_zero]
  intro h2
  exact hz ⟨p.1, by rw [← hp', h2]⟩

section
variable (G : CFG σ K) (S' eos : σ)

/-- the rules of the old heads are the old rules -/
theorem addEOS_filter (X : σ) (hX : X ≠ S') :
    (addEOS G S' eos).rules.filter (fun r => decide (r.head = X))
      = G.rules.filter (fun r => decide (r.head = X)) := by
  simp only [addEOS]
  rw [List.filter_cons_of_neg]; simpa using fun h => hX h.symm

/-- Old heads keep their weights on EOS-free strings.  (Analogue of `sepStart_old`.) -/
theorem addEOS_old (hS' : ∀ r ∈ G.rules, S' ∉ r.body) (heos : ∀ r ∈ G.rules, eos ∉ r.body)
    (n : Nat) (X : σ) (hX : X ≠ S') (x : List σ) (hx : eos ∉ x) :
    WN (addEOS G S' eos) n X x = WN G n X x := by
  induction n generalizing X x with
  | zero => rfl
  | succ n ih =>
    simp only [WN, lsum_eq_sum]
    rw [addEOS_filter G S' eos X hX]
    congr 1
    apply List.map_congr_left
    intro r hr
    have hr' := (List.mem_filter.mp hr).1
    congr 1
    refine Wbody_congr_on (fun u => eos ∉ u) ?_ _ _ _ _ _ ?_ x hx
    · intro u v h
      simp only [List.mem_append, not_or] at h
      exact h
    · intro s hs u hu
      have h1 : s ≠ S' := fun h => hS' r hr' (h ▸ hs)
      have h2 : s ≠ eos := fun h => heos r hr' (h ▸ hs)
      simp only [Wsym, addEOS, List.mem_cons, h2, false_or]
      split
      · rfl
      · exact ih s h1 u hu

/-- No old head derives a string containing EOS (no old rule mentions it). -/
theorem addEOS_old_zero (hS' : ∀ r ∈ G.rules, S' ∉ r.body) (heos : ∀ r ∈ G.rules, eos ∉ r.body)
    (n : Nat) (X : σ) (hX : X ≠ S') (x : List σ) (hx : eos ∈ x) :
    WN (addEOS G S' eos) n X x = 0 := by
  induction n generalizing X x with
  | zero => rfl
  | succ n ih =>
    simp only [WN, lsum_eq_sum]
    rw [addEOS_filter G S' eos X hX]
    apply sum_map_zero
    intro r hr
    have hr' := (List.mem_filter.mp hr).1
    rw [Wbody_eq_zero_of_mem _ _ eos r.body _ x hx, mul_zero]
    intro s hs u hu
    have h1 : s ≠ S' := fun h => hS' r hr' (h ▸ hs)
    have h2 : s ≠ eos := fun h => heos r hr' (h ▸ hs)
    simp only [Wsym]
    split
    · rw [if_neg]; rintro rfl
      simp only [List.mem_singleton] at hu
      exact h2 hu.symm
    · exact ih s h1 u hu

/-- The start symbol of `addEOS`: one rule `S' → S eos`, i.e. a sum over the splits of the input
whose right part is `[eos]`. -/
theorem addEOS_start (hS' : ∀ r ∈ G.rules, r.head ≠ S') (heos : eos ≠ G.S) (hS : G.S ∉ G.V)
    (n : Nat) (z : List σ) :
    WN (addEOS G S' eos) (n+1) S' z
      = ((splits z).map fun p => WN (addEOS G S' eos) n G.S p.1 * (if p.2 = [eos] then 1 else 0)).sum := by
  have hfil : (List.filter (fun r : Rule σ K => decide (r.head = S')) G.rules) = [] := by
    rw [List.filter_eq_nil_iff]; intro r hr; simpa using hS' r hr
  have hSV : G.S ∉ (addEOS G S' eos).V := by
    simp only [addEOS, List.mem_cons, not_or]
    exact ⟨Ne.symm heos, hS⟩
  rw [WN]
  simp only [lsum_eq_sum]
  have : (addEOS G S' eos).rules = ⟨1, S', [G.S, eos]⟩ :: G.rules := rfl
  rw [this, List.filter_cons_of_pos (by simp), hfil]
  simp only [List.map_cons, List.map_nil, List.sum_cons, List.sum_nil, add_zero, one_mul]
  rw [Wbody]
  simp only [lsum_eq_sum]
  congr 1
  apply List.map_congr_left
  intro p _
  rw [Wbody_singleton]
  congr 1
  · simp only [Wsym]; rw [if_neg hSV]
  · simp only [Wsym, addEOS, List.mem_cons, true_or, if_true]

/-- **add_EOS, positive part**: `x ++ [eos]` gets the weight of `x` (one more level of height). -/
theorem addEOS_append
    (hS' : S' ≠ G.S ∧ ∀ r ∈ G.rules, r.head ≠ S' ∧ S' ∉ r.body)
    (heos : eos ≠ G.S ∧ ∀ r ∈ G.rules, eos ∉ r.body) (hS : G.S ∉ G.V)
    (n : Nat) (x : List σ) (hx : eos ∉ x) :
    WN (addEOS G S' eos) (n+1) S' (x ++ [eos]) = WN G n G.S x := by
  rw [addEOS_start G S' eos (fun r hr => (hS'.2 r hr).1) heos.1 hS,
    sum_splits_right_singleton eos x (fun u => WN (addEOS G S' eos) n G.S u)]
  exact addEOS_old G S' eos (fun r hr => (hS'.2 r hr).2) heos.2 n G.S (Ne.symm hS'.1) x hx

/-- **add_EOS, negative part**: every string that is not `x ++ [eos]` with `x` EOS-free (no EOS, EOS
not last, two EOS, …) has weight zero. -/
theorem addEOS_zero
    (hS' : S' ≠ G.S ∧ ∀ r ∈ G.rules, r.head ≠ S' ∧ S' ∉ r.body)
    (heos : eos ≠ G.S ∧ ∀ r ∈ G.rules, eos ∉ r.body) (hS : G.S ∉ G.V)
    (n : Nat) (z : List σ) (hz : ¬ ∃ x, z = x ++ [eos] ∧ eos ∉ x) :
    WN (addEOS G S' eos) (n+1) S' z = 0 := by
  rw [addEOS_start G S' eos (fun r hr => (hS'.2 r hr).1) heos.1 hS]
  by_cases h : ∃ x, z = x ++ [eos]
  · obtain ⟨x, rfl⟩ := h
    rw [sum_splits_right_singleton eos x (fun u => WN (addEOS G S' eos) n G.S u)]
    have hx : eos ∈ x := by
      by_contra hx; exact hz ⟨x, rfl, hx⟩
    exact addEOS_old_zero G S' eos (fun r hr => (hS'.2 r hr).2) heos.2 n G.S (Ne.symm hS'.1) x hx
  · exact sum_splits_right_singleton_zero eos z _ h

/-- **add_EOS**, both parts in one (decidable) statement, under the freshness conditions that
`add_EOS` relies on (`_gen_nt` for `S'`, `assert eos not in cfg.V` plus EOS unused for `eos`).
Only `S' ≠ G.S`, `r.head ≠ S'`, `S' ∉ r.body`, `eos ≠ G.S`, `eos ∉ r.body`, `G.S ∉ G.V` are used. -/
theorem addEOS_spec
    (hS' : S' ∉ G.V ∧ S' ≠ eos ∧ S' ≠ G.S ∧ ∀ r ∈ G.rules, r.head ≠ S' ∧ S' ∉ r.body)
    (heos : eos ∉ G.V ∧ eos ≠ G.S ∧ ∀ r ∈ G.rules, r.head ≠ eos ∧ eos ∉ r.body)
    (hS : G.S ∉ G.V) (n : Nat) (z : List σ) :
    WN (addEOS G S' eos) (n+1) S' z
      = if z.getLast? = some eos ∧ eos ∉ z.dropLast then WN G n G.S z.dropLast else 0 := by
  have h1 : S' ≠ G.S ∧ ∀ r ∈ G.rules, r.head ≠ S' ∧ S' ∉ r.body := ⟨hS'.2.2.1, hS'.2.2.2⟩
  have h2 : eos ≠ G.S ∧ ∀ r ∈ G.rules, eos ∉ r.body := ⟨heos.2.1, fun r hr => (heos.2.2 r hr).2⟩
  split
  next h =>
    have hz : z = z.dropLast ++ [eos] := by
      have := List.dropLast_append_getLast? eos (by simpa using h.1)
      exact this.symm
    conv_lhs => rw [hz]
    exact addEOS_append G S' eos h1 h2 hS n z.dropLast h.2
  next h =>
    apply addEOS_zero G S' eos h1 h2 hS n z
    rintro ⟨x, rfl, hx⟩
    apply h
    simp [hx]

end

/-! ### non-vacuity: `S → a S | ε` over `ℕ`-weights, symbols are numbers (`S = 0`, `a = 1`, `S' = 2`, `eos = 3`) -/
section
private def exG : CFG Nat Nat := { S := 0, V := [1], rules := [⟨2, 0, [1, 0]⟩, ⟨1, 0, []⟩] }

example : (2 : Nat) ∉ exG.V ∧ (2 : Nat) ≠ 3 ∧ 2 ≠ exG.S ∧ ∀ r ∈ exG.rules, r.head ≠ 2 ∧ 2 ∉ r.body := by
  decide
example : (3 : Nat) ∉ exG.V ∧ 3 ≠ exG.S ∧ ∀ r ∈ exG.rules, r.head ≠ 3 ∧ 3 ∉ r.body := by decide
example : exG.S ∉ exG.V := by decide
/-- the theorem is not about zeros only: `a a ▪` has weight 4 -/
example : WN (addEOS exG 2 3) 4 2 [1, 1, 3] = 4 ∧ WN exG 3 0 [1, 1] = 4 := by decide
example : WN (addEOS exG 2 3) 4 2 [1, 1] = 0 ∧ WN (addEOS exG 2 3) 5 2 [1, 3, 3] = 0
    ∧ WN (addEOS exG 2 3) 5 2 [3, 1] = 0 := by decide
end

end Genlm
