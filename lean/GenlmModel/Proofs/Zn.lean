import GenlmModel.Model.Basic
import GenlmModel.Model.Agenda
import GenlmModel.Proofs.Basic
import Mathlib.Algebra.BigOperators.Group.List.Basic
import Mathlib.Algebra.Ring.Defs
import Mathlib.Algebra.Ring.Nat

/-!
Property C08: the total weight `ZN` (string forgotten).

* `ZNtab_spec`   — the driver's table `ZNtab` *is* the specification `ZN`;
* `ZNtab_stable` / `ZN_stable` — once an iterate repeats, the chain is constant;
* `ZN_forget`    — `ZN G n X` is the weight of the empty string in the grammar with all
                   terminals erased;
* `ZN_mono`      — the Kleene chain is increasing in the algebraic pre-order;
* `bottom_up_step_is_ZN` — `CFG._bottom_up_step` iterated `n` times from the zero chart is `ZN G n`
                   on nonterminals.
-/
namespace Genlm
variable {σ K : Type} [DecidableEq σ] [CommSemiring K]

/-! ### 1. the table is the specification -/

theorem zget_map (l : List σ) (F : σ → K) (X : σ) :
    zget (l.map fun Y => (Y, F Y)) X = if X ∈ l then F X else 0 := by
  induction l with
  | nil => simp [zget]
  | cons a l ih =>
    by_cases h : a = X
    · subst h; simp [zget]
    · have h' : ¬ X = a := fun e => h e.symm
      have : zget ((a :: l).map fun Y => (Y, F Y)) X = zget (l.map fun Y => (Y, F Y)) X := by
        simp [zget, h]
      rw [this, ih]; simp [h']

omit [CommSemiring K] in
private theorem mem_heads (G : CFG σ K) (X : σ) : X ∈ heads G ↔ ∃ r ∈ G.rules, r.head = X := by
  simp [heads, List.mem_eraseDups]

theorem ZN_of_not_head (G : CFG σ K) (n : Nat) (X : σ) (h : X ∉ heads G) : ZN G n X = 0 := by
  cases n with
  | zero => rfl
  | succ n =>
    have : G.rules.filter (fun r => r.head = X) = [] := by
      rw [List.filter_eq_nil_iff]
      intro r hr
      simp only [decide_eq_true_eq]
      intro e
      exact h ((mem_heads G X).2 ⟨r, hr, e⟩)
    simp [ZN, this, lsum]

/-- the table computed by the driver agrees with the specification at every symbol
(for a symbol heading no rule both sides are zero) -/
theorem ZNtab_spec (G : CFG σ K) (n : Nat) (X : σ) : zget (ZNtab G n) X = ZN G n X := by
  induction n generalizing X with
  | zero => simp [ZNtab, zget, ZN]
  | succ n ih =>
    simp only [ZNtab, znStep]
    rw [zget_map]
    split
    · simp only [ZN, ih]
    · next h => exact (ZN_of_not_head G (n+1) X h).symm

theorem ZNtab_stable (G : CFG σ K) (n : Nat) (h : ZNtab G (n+1) = ZNtab G n) :
    ∀ m, n ≤ m → ZNtab G m = ZNtab G n := by
  intro m hm
  induction m, hm using Nat.le_induction with
  | base => rfl
  | succ m _ ih =>
    show znStep G (ZNtab G m) = ZNtab G n
    rw [ih]; exact h

/-- if two consecutive tables coincide, `ZN` has reached its fixpoint -/
theorem ZN_stable_of_tab (G : CFG σ K) (n : Nat) (h : ZNtab G (n+1) = ZNtab G n) :
    ∀ m, n ≤ m → ∀ X, ZN G m X = ZN G n X := by
  intro m hm X
  rw [← ZNtab_spec, ← ZNtab_spec, ZNtab_stable G n h m hm]

/-- the same without the table: two consecutive equal iterates ⇒ constant from there on -/
theorem ZN_stable (G : CFG σ K) (n : Nat) (h : ∀ X, ZN G (n+1) X = ZN G n X) :
    ∀ m, n ≤ m → ∀ X, ZN G m X = ZN G n X := by
  intro m hm
  induction m, hm using Nat.le_induction with
  | base => intro X; rfl
  | succ m _ ih =>
    intro X
    rw [← h X]
    simp only [ZN, ih]

/-! ### 2. forgetting the string = deriving ε after erasing the terminals -/

/-- drop every terminal from every body; no symbol is a terminal any more -/
def eraseTerminals (G : CFG σ K) : CFG σ K :=
  { S := G.S, V := [],
    rules := G.rules.map fun r => { r with body := r.body.filter fun y => !(decide (y ∈ G.V)) } }

theorem Wbody_nil_nil (f : σ → List σ → K) (body : List σ) :
    Wbody [] f body [] = (body.map fun y => f y []).prod := by
  induction body with
  | nil => simp [Wbody]
  | cons s ss ih => simp [Wbody, splits, Wsym, ih]

private theorem prod_filter_map {α : Type} (l : List α) (p : α → Bool) (g : α → K) :
    ((l.filter p).map g).prod = (l.map fun y => if p y then g y else 1).prod := by
  induction l with
  | nil => rfl
  | cons a l ih =>
    by_cases h : p a = true
    · simp [List.filter_cons_of_pos h, h, ih]
    · rw [List.filter_cons_of_neg h]; simp [h, ih]

/-- `ZN` is the weight of the empty string in the erased grammar.  Holds at *every* symbol:
neither side tests whether the head of a rule is a terminal. -/
theorem ZN_forget (G : CFG σ K) (n : Nat) (X : σ) : ZN G n X = WN (eraseTerminals G) n X [] := by
  induction n generalizing X with
  | zero => rfl
  | succ n ih =>
    simp only [ZN, WN, eraseTerminals, lsum_eq_sum, lprod_eq_prod, List.filter_map,
      List.map_map]
    congr 1
    apply List.map_congr_left
    intro r _
    simp only [Function.comp_def]
    rw [Wbody_nil_nil, prod_filter_map]
    congr 2
    apply List.map_congr_left
    intro y _
    by_cases hy : y ∈ G.V
    · simp [hy]
    · simp only [hy, if_false, decide_false, Bool.not_false, if_true]
      exact ih y

/-! ### 3. the Kleene chain is increasing -/

/-- the algebraic (natural) pre-order of a semiring -/
def AlgLe (a b : K) : Prop := ∃ c, b = a + c

theorem AlgLe.refl (a : K) : AlgLe a a := ⟨0, by rw [add_zero]⟩
theorem AlgLe.zero (a : K) : AlgLe 0 a := ⟨a, by rw [zero_add]⟩
theorem AlgLe.trans {a b c : K} (h1 : AlgLe a b) (h2 : AlgLe b c) : AlgLe a c := by
  obtain ⟨d, rfl⟩ := h1; obtain ⟨e, rfl⟩ := h2; exact ⟨d + e, by rw [add_assoc]⟩
theorem AlgLe.add {a b c d : K} (h1 : AlgLe a b) (h2 : AlgLe c d) : AlgLe (a + c) (b + d) := by
  obtain ⟨e, rfl⟩ := h1; obtain ⟨f, rfl⟩ := h2
  exact ⟨e + f, by rw [add_add_add_comm]⟩
theorem AlgLe.mul {a b c d : K} (h1 : AlgLe a b) (h2 : AlgLe c d) : AlgLe (a * c) (b * d) := by
  obtain ⟨e, rfl⟩ := h1; obtain ⟨f, rfl⟩ := h2
  exact ⟨a * f + e * c + e * f, by rw [add_mul, mul_add, mul_add]; simp only [add_assoc]⟩

theorem AlgLe.sum_map {α : Type} (l : List α) (f g : α → K) (h : ∀ a ∈ l, AlgLe (f a) (g a)) :
    AlgLe (l.map f).sum (l.map g).sum := by
  induction l with
  | nil => exact AlgLe.refl _
  | cons a l ih =>
    simp only [List.map_cons, List.sum_cons]
    exact AlgLe.add (h a (by simp)) (ih fun b hb => h b (by simp [hb]))

theorem AlgLe.prod_map {α : Type} (l : List α) (f g : α → K) (h : ∀ a ∈ l, AlgLe (f a) (g a)) :
    AlgLe (l.map f).prod (l.map g).prod := by
  induction l with
  | nil => exact AlgLe.refl _
  | cons a l ih =>
    simp only [List.map_cons, List.prod_cons]
    exact AlgLe.mul (h a (by simp)) (ih fun b hb => h b (by simp [hb]))

/-- one step of the polynomial system of the grammar, as a map on charts `σ → K` -/
def znPoly (G : CFG σ K) (z : σ → K) (X : σ) : K :=
  ((G.rules.filter (fun r => r.head = X)).map fun r =>
    r.w * (r.body.map fun y => if y ∈ G.V then 1 else z y).prod).sum

theorem ZN_succ (G : CFG σ K) (n : Nat) (X : σ) : ZN G (n+1) X = znPoly G (ZN G n) X := by
  simp only [ZN, znPoly, lsum_eq_sum, lprod_eq_prod]

/-- polynomial maps with coefficients in the semiring are monotone for `AlgLe` -/
theorem znPoly_mono (G : CFG σ K) (z z' : σ → K) (h : ∀ X, AlgLe (z X) (z' X)) (X : σ) :
    AlgLe (znPoly G z X) (znPoly G z' X) := by
  unfold znPoly
  apply AlgLe.sum_map
  intro r _
  apply AlgLe.mul (AlgLe.refl _)
  apply AlgLe.prod_map
  intro y _
  split
  · exact AlgLe.refl _
  · exact h y

theorem ZN_mono (G : CFG σ K) (n : Nat) (X : σ) : ∃ c, ZN G (n+1) X = ZN G n X + c := by
  show AlgLe (ZN G n X) (ZN G (n+1) X)
  induction n generalizing X with
  | zero => exact AlgLe.zero _
  | succ n ih =>
    rw [ZN_succ G (n+1), ZN_succ G n]
    exact znPoly_mono G _ _ ih X

theorem ZN_mono_le (G : CFG σ K) {n m : Nat} (h : n ≤ m) (X : σ) :
    ∃ c, ZN G m X = ZN G n X + c := by
  show AlgLe (ZN G n X) (ZN G m X)
  induction m, h using Nat.le_induction with
  | base => exact AlgLe.refl _
  | succ m _ ih => exact AlgLe.trans ih (ZN_mono G m X)

/-! ### 4. `_bottom_up_step` -/

private theorem foldl_add_eq {α : Type} (l : List α) (f : α → K) (a : K) :
    l.foldl (fun acc r => acc + f r) a = a + (l.map f).sum := by
  induction l generalizing a with
  | nil => simp
  | cons b l ih => simp only [List.foldl_cons, ih, List.map_cons, List.sum_cons, add_assoc]

theorem ruleUpdate_eq (G : CFG σ K) (V : σ → K) (r : Rule σ K) :
    ruleUpdate G V r = r.w * (r.body.map fun y => if y ∈ G.V then 1 else V y).prod := by
  unfold ruleUpdate
  generalize r.w = w
  induction r.body generalizing w with
  | nil => simp
  | cons y ys ih =>
    simp only [List.foldl_cons, List.map_cons, List.prod_cons]
    rw [ih]
    split
    · rw [one_mul]
    · rw [mul_assoc]

/-- the step function, in closed form: the indicator of the terminals plus the polynomial -/
theorem bottomUpStep_eq (G : CFG σ K) (V : σ → K) (X : σ) :
    bottomUpStep G V X = (if X ∈ G.V then 1 else 0) + znPoly G V X := by
  unfold bottomUpStep znPoly
  rw [foldl_add_eq]
  congr 2
  apply List.map_congr_left
  intro r _
  exact ruleUpdate_eq G V r

/-- only the values at nonterminals are read -/
theorem znPoly_congr (G : CFG σ K) (z z' : σ → K) (h : ∀ y, y ∉ G.V → z y = z' y) (X : σ) :
    znPoly G z X = znPoly G z' X := by
  unfold znPoly
  congr 1
  apply List.map_congr_left
  intro r _
  congr 2
  apply List.map_congr_left
  intro y _
  split
  · rfl
  · next hy => exact h y hy

/-- `n` rounds of `_bottom_up_step` from the zero chart: at every symbol the chart holds
`ZN G n` plus (from the first round on) one at the terminals -/
theorem bottomUpN_eq (G : CFG σ K) (n : Nat) (X : σ) :
    bottomUpN G n X = (if X ∈ G.V ∧ 0 < n then 1 else 0) + ZN G n X := by
  induction n generalizing X with
  | zero => simp [bottomUpN, ZN]
  | succ n ih =>
    rw [bottomUpN, bottomUpStep_eq, ZN_succ]
    congr 1
    · simp
    · apply znPoly_congr
      intro y hy
      rw [ih y]; simp [hy]

/-- iterating `CFG._bottom_up_step` `n` times from the zero chart gives `ZN G n` on nonterminals -/
theorem bottom_up_step_is_ZN (G : CFG σ K) (n : Nat) (X : σ) (hX : X ∉ G.V) :
    bottomUpN G n X = ZN G n X := by
  rw [bottomUpN_eq]; simp [hX]

/-! ### non-vacuity -/
section examples
/-- over `ℕ`: `S → a S` (weight 2), `S → ε` (weight 3), `S = 0`, `a = 10`. -/
private def znExG : CFG Nat Nat := ⟨0, [10], [⟨2, 0, [10, 0]⟩, ⟨3, 0, []⟩]⟩

example : ZN znExG 3 0 = 21 := by decide
example : zget (ZNtab znExG 3) 0 = 21 := (ZNtab_spec znExG 3 0).trans (by decide)
example : WN (eraseTerminals znExG) 3 0 [] = 21 := (ZN_forget znExG 3 0).symm.trans (by decide)
example : ZN znExG 4 0 = ZN znExG 3 0 + 24 := by decide
example : bottomUpN znExG 3 0 = 21 :=
  (bottom_up_step_is_ZN znExG 3 0 (by decide)).trans (by decide)
/-- the terminal holds `one` (and `ZN` is zero there) -/
example : bottomUpN znExG 3 10 = 1 := by decide
/-- a grammar whose chain stabilises: `S → a` -/
private def znExG2 : CFG Nat Nat := ⟨0, [10], [⟨5, 0, [10]⟩]⟩
example : ∀ m, 1 ≤ m → ∀ X, ZN znExG2 m X = ZN znExG2 1 X :=
  ZN_stable_of_tab znExG2 1 (by decide)
end examples

end Genlm
