import GenlmModel.Model.Simple
import GenlmModel.Proofs.LimWfsa
import GenlmModel.Proofs.TzengMin

/-! # `WFSA.simple`, `Simple.to_wfsa`: the field-WFSA equivalence test and minimisation on the automata the user passes
(property C14, task E9-B)

`Proofs/Tzeng.lean` (`equiv_decides`, `equiv_decides_rat`) and `Proofs/TzengMin.lean` (`minQ_spec`) are about automata in
matrix form (`MAut`).  The code (`genlm/grammar/wfsa/field_wfsa.py`) reaches the matrix form through `WFSA.simple`
(ε-removal, renumbering, dense vectors / matrices) and leaves it through `Simple.to_wfsa`; `Model/Simple.lean` mirrors both.

* `toMAut_weight` (any commutative semiring, ε-free `B`): `B.toMAut.weight w = Pk B |w| w`; `toMAut_wf`;
* `WFSA.EpsClosure` (the hypotheses of `epsremove_correct_states`, bundled), `WFSA.weightN`, `weightN_eq_PN`;
* **`simple_weight`**: `(A.simple S out).weight w = PN A n w` (ε-acyclic, any commutative semiring), `simple_weightN`,
  `simple_wf`; **`simple_weight_PL`**, `simple_weight_PL_epsStarL` (`ℝ≥0∞`, ε cycles: `= PL A w`);
* **`field_eq_decides`** (`ℚ`), `field_eq_decides_aniso` (any field without isotropic vectors),
  `field_counterexample_sound`;
* `field_min_spec`, `field_min_le` (`minQ_spec` on the user's automaton), `toWfsa_weight`, `toWfsa_weight_PN`,
  **`field_min_wfsa`** (`WFSA.min = self.simple.min.to_wfsa()` end to end).
Local re-proofs: `SimpleAux.Bk_cons_ite_E9` (as `Bk_cons` of `Proofs/Det.lean`, which is stated over fields),
`SimpleAux.matLook_map_E9` (as `Cert.matLook_map`, over semirings).
Examples `SimpleAux.exQ1` (ε arc), `exQ2`, `exQ3` over `ℚ`, checked against the Python code. -/
set_option linter.unusedSectionVars false

namespace Genlm
open scoped ENNReal
open WfsaAux Wfsa2Aux

namespace SimpleAux

section Vec
variable {K : Type} [CommSemiring K]

theorem dot_map_map_E9 {α : Type} (L : List α) (f g : α → K) :
    dot (L.map f) (L.map g) = (L.map fun j => f j * g j).sum := by
  induction L with
  | nil => rfl
  | cons a L ih => simp only [List.map_cons, dot, ih, List.sum_cons]

theorem matLook_map_E9 {σ : Type} [DecidableEq σ] (n : Nat) (l : List σ) (f : σ → Mat K) (a : σ) :
    matLook n (l.map fun b => (b, f b)) a = if a ∈ l then f a else zeroMat n := by
  induction l with
  | nil => rfl
  | cons b l ih =>
    simp only [List.map_cons, matLook, ih, List.mem_cons]
    by_cases hba : b = a
    · subst hba; simp
    · have hab : ¬ a = b := fun h => hba h.symm
      simp [hba, hab]

end Vec

section ToMAut
variable {ι σ K : Type} [DecidableEq ι] [DecidableEq σ] [CommSemiring K]

theorem arcW_eq_sum_E9 (B : WFSA ι σ K) (i : ι) (a : σ) (j : ι) :
    B.arcW i a j = (B.arcs.map fun e => if e.src = i ∧ e.lbl = some a ∧ e.dst = j then e.w else 0).sum := by
  unfold WFSA.arcW
  rw [lsum_eq_sum, sum_filter_ite]
  apply congrArg
  apply List.map_congr_left
  intro e _
  by_cases h : e.src = i ∧ e.lbl = some a ∧ e.dst = j <;> simp [h]

theorem mem_labels_E9 (B : WFSA ι σ K) (e : Arc ι σ K) (he : e ∈ B.arcs) (a : σ) (h : e.lbl = some a) :
    a ∈ B.labels := by
  simp only [WFSA.labels, List.mem_eraseDups, List.mem_filterMap]
  exact ⟨e, he, h⟩

theorem arcW_not_label_E9 (B : WFSA ι σ K) (a : σ) (ha : a ∉ B.labels) (i j : ι) : B.arcW i a j = 0 := by
  rw [arcW_eq_sum_E9]
  apply sum_map_zero
  intro e he
  rw [if_neg]
  rintro ⟨_, hl, _⟩
  exact ha (mem_labels_E9 B e he a hl)

/-- the matrix of EVERY symbol (the zero matrix for the symbols that label no arc) -/
theorem toMAut_mat_E9 (B : WFSA ι σ K) (a : σ) :
    B.toMAut.mat a = B.states.map fun i => B.states.map fun j => B.arcW i a j := by
  have h : B.toMAut.mat a = matLook B.states.length
      (B.labels.map fun a => (a, B.states.map fun i => B.states.map fun j => B.arcW i a j)) a := rfl
  rw [h, matLook_map_E9]
  by_cases ha : a ∈ B.labels
  · rw [if_pos ha]
  · rw [if_neg ha]
    have : (B.states.map fun i => B.states.map fun j => B.arcW i a j)
        = B.states.map fun _ => B.states.map fun _ => (0 : K) := by
      apply List.map_congr_left
      intro i _
      apply List.map_congr_left
      intro j _
      exact arcW_not_label_E9 B a ha i j
    rw [this]
    simp [zeroMat, vzero]

/-- first-arc decomposition of the backward sums of an ε-free machine, grouped by target state -/
theorem Bk_cons_arcW_E9 (B : WFSA ι σ K) (hB : B.EpsFree) (k : Nat) (i : ι) (a : σ) (x : List σ) :
    Bk B (k+1) i (a :: x) = (B.states.map fun j => B.arcW i a j * Bk B k j x).sum := by
  have h1 : Bk B (k+1) i (a :: x)
      = (B.arcs.map fun e => if e.src = i ∧ e.lbl = some a then e.w * Bk B k e.dst x else 0).sum := by
    unfold Bk
    simp only [Qk_cons_epsfree B hB, ← List.sum_map_mul_right]
    rw [sum_swap]
    simp only [sum_filter_ite]
    apply congrArg
    apply List.map_congr_left
    intro e _
    by_cases h : e.src = i ∧ e.lbl = some a
    · simp only [h, and_self, decide_true, if_true, ← List.sum_map_mul_left]
      apply congrArg
      apply List.map_congr_left
      intro f _
      rw [mul_assoc]
    · have hd : decide (e.src = i ∧ e.lbl = some a) = false := by simpa using h
      simp only [hd, if_neg h]
      simp
  rw [h1]
  simp only [arcW_eq_sum_E9, ← List.sum_map_mul_right]
  rw [sum_swap]
  apply congrArg
  apply List.map_congr_left
  intro e he
  have hd := mem_states_dst B e he
  have := sum_ite_eq_nodup B.states (nodup_states B) e.dst
    (fun j => (if e.src = i ∧ e.lbl = some a then e.w else 0) * Bk B k j x)
  rw [if_pos hd] at this
  rw [show (if e.src = i ∧ e.lbl = some a then e.w * Bk B k e.dst x else 0)
      = (if e.src = i ∧ e.lbl = some a then e.w else 0) * Bk B k e.dst x by split <;> simp, ← this]
  apply congrArg
  apply List.map_congr_left
  intro j _
  by_cases hj : e.dst = j
  · subst hj; simp
  · by_cases hc : e.src = i ∧ e.lbl = some a <;> simp [hj, hc]

/-- the backward vectors of the matrix form are the backward sums of the machine -/
theorem toMAut_bwd_E9 (B : WFSA ι σ K) (hB : B.EpsFree) (w : List σ) :
    B.toMAut.bwd w = B.states.map fun i => Bk B w.length i w := by
  induction w with
  | nil =>
    show B.toMAut.stop = _
    simp only [WFSA.toMAut, List.length_nil, Bk_zero, if_true]
  | cons a w ih =>
    have h : B.toMAut.bwd (a :: w) = matVec (B.toMAut.mat a) (B.toMAut.bwd w) := rfl
    rw [h, ih, toMAut_mat_E9, matVec, List.map_map]
    apply List.map_congr_left
    intro i _
    simp only [Function.comp_def, List.length_cons]
    rw [dot_map_map_E9, Bk_cons_arcW_E9 B hB]

end ToMAut
end SimpleAux
open SimpleAux

section Main
variable {ι σ K : Type} [DecidableEq ι] [DecidableEq σ] [CommSemiring K]

/-- **the matrix form of an ε-free machine computes its path sums**: `start · M_{a₁} ⋯ M_{aₙ} · stop` is the total
weight of the accepting paths spelling `a₁ … aₙ` (they have `n` arcs) -/
theorem toMAut_weight (B : WFSA ι σ K) (hB : B.EpsFree) (w : List σ) :
    B.toMAut.weight w = Pk B w.length w := by
  rw [MAut.weight, toMAut_bwd_E9 B hB, Pk_eq_states_Bk]
  exact dot_map_map_E9 B.states (fun i => wlook B.start i) (fun i => Bk B w.length i w)

/-- the matrix form is well formed (sizes agree, one matrix per symbol) -/
theorem toMAut_wf (B : WFSA ι σ K) : B.toMAut.wf = true := by
  simp only [MAut.wf, WFSA.toMAut, MAut.syms, List.length_map, beq_self_eq_true, Bool.true_and,
    Bool.and_eq_true, List.all_eq_true, decide_eq_true_eq, List.map_map, Function.comp_def, List.map_id']
  refine ⟨?_, nodup_eraseDups _⟩
  intro p hp
  obtain ⟨a, _, rfl⟩ := List.mem_map.1 hp
  simp [Mat.isSquare, List.all_eq_true]

/-- the hypotheses under which `epsremove` is correct for an ε-ACYCLIC machine (`Proofs/Wfsa2.lean`,
`epsremove_correct_states`), bundled: `S` is the closure `Σ_{m ≤ N} E^m` of the ε matrix on the states, `out i` lists
(once) states that cover the support of row `i`, and no ε path has more than `N` arcs.  All but `hacyc` are decidable
checks over the finitely many states; `eps_acyclic_of_rank` gives `hacyc` from a rank function. -/
structure WFSA.EpsClosure (A : WFSA ι σ K) (S : ι → ι → K) (out : ι → List ι) (N : Nat) : Prop where
  hS : ∀ i ∈ A.states, ∀ k ∈ A.states,
    S i k = ((List.range (N+1)).map fun m => Qk A.epsPart m i [] k).sum
  hout : ∀ i ∈ A.states, ∀ k ∈ A.states, S i k ≠ 0 → k ∈ out i
  hsub : ∀ i ∈ A.states, ∀ k ∈ out i, k ∈ A.states
  hnd : ∀ i ∈ A.states, (out i).Nodup
  hacyc : ∀ i k m, N < m → Qk A.epsPart m i [] k = 0

/-- the weight an ε-acyclic automaton (ε paths of at most `N` arcs) gives to `w`: the total weight of ALL its accepting
paths spelling `w` (they have fewer than `(|w|+1)(N+1)` arcs) -/
def WFSA.weightN (A : WFSA ι σ K) (N : Nat) (w : List σ) : K := PN A ((w.length+1)*(N+1)) w

theorem weightN_eq_PN (A : WFSA ι σ K) (N : Nat) (hacyc : ∀ i k m, N < m → Qk A.epsPart m i [] k = 0)
    (w : List σ) (n : Nat) (hn : (w.length+1)*(N+1) ≤ n + 1) : A.weightN N w = PN A n w := by
  rw [WFSA.weightN, PN_eq_of_acyclic A N hacyc w _ (Nat.le_succ _), PN_eq_of_acyclic A N hacyc w n hn]

/-- `WFSA.simple` returns a well-formed matrix automaton -/
theorem simple_wf (A : WFSA ι σ K) (S : ι → ι → K) (out : ι → List ι) : (A.simple S out).wf = true :=
  toMAut_wf _

/-- **C14, `simple_weight`**: the matrix form built by `WFSA.simple` gives every word the weight of the automaton the
user passed (ε arcs allowed, ε-acyclic): `start · M_{a₁} ⋯ M_{aₙ} · stop = PN A n w` for every `n` beyond
`(|w|+1)(N+1)` -/
theorem simple_weight (A : WFSA ι σ K) (S : ι → ι → K) (out : ι → List ι) (N : Nat)
    (h : A.EpsClosure S out N) (w : List σ) (n : Nat) (hn : (w.length+1)*(N+1) ≤ n + 1) :
    (A.simple S out).weight w = PN A n w := by
  rw [WFSA.simple, toMAut_weight _ (epsremove_epsfree A S out),
    epsremove_correct_states A S out N h.hS h.hout h.hsub h.hnd h.hacyc, ← PN_eq_of_acyclic A N h.hacyc w n hn]

theorem simple_weightN (A : WFSA ι σ K) (S : ι → ι → K) (out : ι → List ι) (N : Nat)
    (h : A.EpsClosure S out N) (w : List σ) : (A.simple S out).weight w = A.weightN N w :=
  simple_weight A S out N h w _ (Nat.le_succ _)

end Main

section Lim
variable {ι σ : Type} [DecidableEq ι] [DecidableEq σ]

/-- **`simple_weight` at the limit** (ε CYCLES allowed, weights in `ℝ≥0∞`): if `S` is the true closure of the ε graph
on the states, the matrix form gives every word the sum over ALL accepting paths of the automaton -/
theorem simple_weight_PL (A : WFSA ι σ ℝ≥0∞) (S : ι → ι → ℝ≥0∞) (out : ι → List ι)
    (hS : ∀ i ∈ A.states, ∀ k ∈ A.states, S i k = ∑' m, Qk A.epsPart m i [] k)
    (hout : ∀ i ∈ A.states, ∀ k ∈ A.states, S i k ≠ 0 → k ∈ out i)
    (hsub : ∀ i ∈ A.states, ∀ k ∈ out i, k ∈ A.states)
    (hnd : ∀ i ∈ A.states, (out i).Nodup) (w : List σ) :
    (A.simple S out).weight w = PL A w := by
  rw [WFSA.simple, toMAut_weight _ (epsremove_epsfree A S out),
    (epsremove_correct_PL_states A S out hS hout hsub hnd w).1]

/-- the hypotheses of `simple_weight_PL` hold for EVERY machine with the true closure `epsStarL` -/
theorem simple_weight_PL_epsStarL (A : WFSA ι σ ℝ≥0∞) (w : List σ) :
    (A.simple A.epsStarL fun _ => A.states).weight w = PL A w := by
  rw [WFSA.simple, toMAut_weight _ (epsremove_epsfree A _ _), (epsremove_epsStarL A w).1]

end Lim

/-! ### the equivalence test and the minimisation on the automata the user passes -/
section Field
variable {ι κ σ K : Type} [DecidableEq ι] [DecidableEq κ] [DecidableEq σ] [DecidableEq K] [Field K]

/-- **C14, `field_eq_decides`** (any field without isotropic vectors): `WFSA.__eq__` / `WFSA.counterexample`
(`self.simple.counterexample(other.simple)`) in exact arithmetic returns `None` exactly when the two automata the user
passed (ε arcs allowed, ε-acyclic) give the same weight to every word -/
theorem field_eq_decides_aniso (hK : Tzeng.Anisotropic K) (A : WFSA ι σ K) (B : WFSA κ σ K)
    (SA : ι → ι → K) (outA : ι → List ι) (NA : Nat) (hA : A.EpsClosure SA outA NA)
    (SB : κ → κ → K) (outB : κ → List κ) (NB : Nat) (hB : B.EpsClosure SB outB NB)
    (f : Nat) (hf : (A.simple SA outA).dim + (B.simple SB outB).dim ≤ f) :
    counterexampleQ (A.simple SA outA) (B.simple SB outB) f = some none
      ↔ ∀ w, A.weightN NA w = B.weightN NB w := by
  rw [equiv_decides hK _ _ (simple_wf A SA outA) (simple_wf B SB outB) f hf]
  simp only [simple_weightN A SA outA NA hA, simple_weightN B SB outB NB hB]

/-- a returned counterexample is genuine: the two reported values are the weights the two automata give to the
reported word, and they differ -/
theorem field_counterexample_sound (A : WFSA ι σ K) (B : WFSA κ σ K)
    (SA : ι → ι → K) (outA : ι → List ι) (NA : Nat) (hA : A.EpsClosure SA outA NA)
    (SB : κ → κ → K) (outB : κ → List κ) (NB : Nat) (hB : B.EpsClosure SB outB NB)
    (f : Nat) (w : List σ) (va vb : K)
    (h : counterexampleQ (A.simple SA outA) (B.simple SB outB) f = some (some (w, va, vb))) :
    va = A.weightN NA w ∧ vb = B.weightN NB w ∧ va ≠ vb := by
  have := counterexampleQ_sound _ _ f w va vb h
  rwa [simple_weightN A SA outA NA hA, simple_weightN B SB outB NB hB] at this

/-- **`WFSA.min`** (`self.simple.min`, before `to_wfsa`): whenever it returns, the matrix automaton has the weights of the
automaton the user passed and no automaton with these weights has fewer states -/
theorem field_min_spec (hK : Tzeng.Anisotropic K) (A : WFSA ι σ K)
    (S : ι → ι → K) (out : ι → List ι) (N : Nat) (hA : A.EpsClosure S out N) (f : Nat)
    (A' : MAut σ K) (h : minQ (A.simple S out) f = some A') :
    A'.wf = true ∧ (∀ w, A'.weight w = A.weightN N w) ∧ A'.dim = TzMin.hankelRank (A.weightN N) ∧
      ∀ B : MAut σ K, B.wf = true → (∀ w, B.weight w = A.weightN N w) → A'.dim ≤ B.dim := by
  obtain ⟨h1, h2, h3, h4⟩ := minQ_spec hK (A.simple S out) (simple_wf A S out) f A' h
  have hw : (A.simple S out).weight = A.weightN N := funext (simple_weightN A S out N hA)
  rw [hw] at h3
  simp only [hw] at h2 h4
  exact ⟨h1, h2, h3, h4⟩

/-- … in particular no ε-acyclic automaton `B` with the same weights has fewer states after ε-removal -/
theorem field_min_le (hK : Tzeng.Anisotropic K) (A : WFSA ι σ K)
    (S : ι → ι → K) (out : ι → List ι) (N : Nat) (hA : A.EpsClosure S out N) (f : Nat)
    (A' : MAut σ K) (h : minQ (A.simple S out) f = some A')
    (B : WFSA κ σ K) (SB : κ → κ → K) (outB : κ → List κ) (NB : Nat) (hB : B.EpsClosure SB outB NB)
    (hAB : ∀ w, B.weightN NB w = A.weightN N w) :
    A'.dim ≤ (B.epsremove SB outB).states.length :=
  (field_min_spec hK A S out N hA f A' h).2.2.2 (B.simple SB outB) (simple_wf B SB outB)
    (fun w => (simple_weightN B SB outB NB hB w).trans (hAB w))

end Field

section Rat
variable {ι κ σ : Type} [DecidableEq ι] [DecidableEq κ] [DecidableEq σ]

/-- **C14 over `ℚ`** -/
theorem field_eq_decides (A : WFSA ι σ ℚ) (B : WFSA κ σ ℚ)
    (SA : ι → ι → ℚ) (outA : ι → List ι) (NA : Nat) (hA : A.EpsClosure SA outA NA)
    (SB : κ → κ → ℚ) (outB : κ → List κ) (NB : Nat) (hB : B.EpsClosure SB outB NB)
    (f : Nat) (hf : (A.simple SA outA).dim + (B.simple SB outB).dim ≤ f) :
    counterexampleQ (A.simple SA outA) (B.simple SB outB) f = some none
      ↔ ∀ w, A.weightN NA w = B.weightN NB w :=
  field_eq_decides_aniso Tzeng.anisotropic_rat A B SA outA NA hA SB outB NB hB f hf

end Rat

/-! ### `Simple.to_wfsa` (the last step of `WFSA.min`) -/
namespace SimpleAux
section ToWfsa
variable {σ K : Type} [DecidableEq σ] [CommRing K]

theorem dot_eq_sum_range_E9 : ∀ (d : Nat) (x y : Vec K), x.length = d → y.length = d →
    dot x y = ((List.range d).map fun j => x.getD j 0 * y.getD j 0).sum
  | 0, [], [], _, _ => rfl
  | d+1, a :: x, b :: y, hx, hy => by
    have ih := dot_eq_sum_range_E9 d x y (by simpa using hx) (by simpa using hy)
    rw [List.range_succ_eq_map, List.map_cons, List.sum_cons, List.map_map, dot, ih]
    rfl

omit [DecidableEq σ] in
theorem toWfsa_epsFree_E9 (M : MAut σ K) : M.toWfsa.EpsFree := by
  intro e he
  simp only [MAut.toWfsa, List.mem_flatMap, List.mem_map] at he
  obtain ⟨p, _, i, _, j, _, rfl⟩ := he
  simp

/-- first-arc decomposition of the backward sums of an ε-free machine -/
theorem Bk_cons_ite_E9 {ι : Type} [DecidableEq ι] (B : WFSA ι σ K) (hB : B.EpsFree) (k : Nat) (i : ι) (a : σ)
    (x : List σ) :
    Bk B (k+1) i (a :: x)
      = (B.arcs.map fun e => if e.src = i ∧ e.lbl = some a then e.w * Bk B k e.dst x else 0).sum := by
  unfold Bk
  simp only [Qk_cons_epsfree B hB, ← List.sum_map_mul_right]
  rw [sum_swap]
  simp only [sum_filter_ite]
  apply congrArg
  apply List.map_congr_left
  intro e _
  by_cases h : e.src = i ∧ e.lbl = some a
  · simp only [h, and_self, decide_true, if_true, ← List.sum_map_mul_left]
    apply congrArg
    apply List.map_congr_left
    intro f _
    rw [mul_assoc]
  · have hd : decide (e.src = i ∧ e.lbl = some a) = false := by simpa using h
    simp only [hd, if_neg h]
    simp

/-- selecting the matrix of a symbol in a dictionary with distinct keys -/
theorem sum_matLook_E9 (n : Nat) (F : Mat K → K) (hF : F (zeroMat n) = 0) (a : σ) :
    ∀ (l : List (σ × Mat K)), (l.map (·.1)).Nodup →
      (l.map fun p => if p.1 = a then F p.2 else 0).sum = F (matLook n l a)
  | [], _ => by simp [matLook, hF]
  | (b, Mx) :: l, hnd => by
    rw [List.map_cons, List.nodup_cons] at hnd
    have ih := sum_matLook_E9 n F hF a l hnd.2
    by_cases hba : b = a
    · subst hba
      have hz : (l.map fun p => if p.1 = b then F p.2 else 0).sum = 0 := by
        apply sum_map_zero
        intro p hp
        rw [if_neg]
        intro h
        exact hnd.1 (List.mem_map.2 ⟨p, hp, h⟩)
      simp [matLook, hz]
    · simp [matLook, hba, ih]

theorem toWfsa_Bk_E9 (M : MAut σ K) (hM : M.wf = true) (w : List σ) :
    ∀ i, i < M.dim → Bk M.toWfsa w.length i w = (M.bwd w).getD i 0 := by
  induction w with
  | nil =>
    intro i hi
    rw [List.length_nil, Bk_zero, if_pos rfl]
    have hstop : M.toWfsa.stop = (List.range M.dim).map fun i => (i, M.stop.getD i 0) := rfl
    rw [hstop, wlook_map_nodup _ List.nodup_range (fun i => M.stop.getD i 0) i,
      if_pos (List.mem_range.2 hi)]
    rfl
  | cons a w ih =>
    intro i hi
    have hb : M.bwd (a :: w) = matVec (M.mat a) (M.bwd w) := rfl
    have hlen := Cert.mat_length M hM a
    have hrow : ((M.mat a).getD i []).length = M.dim :=
      Cert.mat_row_length M hM a _ (Cert.getD_mem_lt _ i [] (by rw [hlen]; exact hi))
    rw [hb, matVec, Cert.getD_map_lt _ _ i [] 0 (by rw [hlen]; exact hi),
      dot_eq_sum_range_E9 M.dim _ _ hrow (Cert.bwd_length M hM w)]
    rw [List.length_cons, Bk_cons_ite_E9 _ (toWfsa_epsFree_E9 M)]
    have harcs : M.toWfsa.arcs = M.arcs.flatMap fun p => (List.range M.dim).flatMap fun i =>
        (List.range M.dim).map fun j => ⟨i, some p.1, j, (p.2.getD i []).getD j 0⟩ := rfl
    rw [harcs, sum_flatMap]
    have hp : ∀ p ∈ M.arcs,
        ((((List.range M.dim).flatMap fun i' => (List.range M.dim).map fun j =>
            (⟨i', some p.1, j, (p.2.getD i' []).getD j 0⟩ : Arc Nat σ K))).map fun e =>
          if e.src = i ∧ e.lbl = some a then e.w * Bk M.toWfsa w.length e.dst w else 0).sum
        = if p.1 = a then
            ((List.range M.dim).map fun j => (p.2.getD i []).getD j 0 * (M.bwd w).getD j 0).sum
          else 0 := by
      intro p _
      rw [sum_flatMap]
      simp only [List.map_map, Function.comp_def]
      by_cases hpa : p.1 = a
      · rw [if_pos hpa]
        have := sum_ite_eq_nodup (List.range M.dim) List.nodup_range i (fun i' =>
          ((List.range M.dim).map fun j => (p.2.getD i' []).getD j 0 * (M.bwd w).getD j 0).sum)
        rw [if_pos (List.mem_range.2 hi)] at this
        rw [← this]
        apply congrArg
        apply List.map_congr_left
        intro i' _
        by_cases hii : i = i'
        · subst hii
          simp only [hpa, and_self, if_true]
          apply congrArg
          apply List.map_congr_left
          intro j hj
          rw [ih j (List.mem_range.1 hj)]
        · have hii' : ¬ i' = i := fun h => hii h.symm
          simp only [hii, hii', false_and, if_false]
          exact sum_map_zero _ _ (fun _ _ => rfl)
      · rw [if_neg hpa]
        apply sum_map_zero
        intro i' _
        apply sum_map_zero
        intro j _
        rw [if_neg]
        rintro ⟨_, h⟩
        exact hpa (Option.some.inj h)
    rw [List.map_congr_left hp]
    exact sum_matLook_E9 M.dim
      (fun Mx => ((List.range M.dim).map fun j => (Mx.getD i []).getD j 0 * (M.bwd w).getD j 0).sum)
      (by
        apply sum_map_zero
        intro j _
        have : ((zeroMat M.dim : Mat K).getD i []).getD j 0 = 0 := by
          simp only [zeroMat, vzero, List.getD_eq_getElem?_getD, List.getElem?_replicate]
          split <;> simp [List.getElem?_replicate] <;> split <;> simp
        rw [this, zero_mul]) a M.arcs ((Cert.wf_iff M).1 hM).2.2.2

end ToWfsa
end SimpleAux

section ToWfsaMain
variable {σ K : Type} [DecidableEq σ] [CommRing K]

/-- **`Simple.to_wfsa` gives back an (ε-free) automaton with the weights of the matrix form** -/
theorem toWfsa_weight (M : MAut σ K) (hM : M.wf = true) (w : List σ) :
    M.toWfsa.EpsFree ∧ Pk M.toWfsa w.length w = M.weight w := by
  refine ⟨toWfsa_epsFree_E9 M, ?_⟩
  rw [Pk_eq_Bk, MAut.weight,
    dot_eq_sum_range_E9 M.dim _ _ ((Cert.wf_iff M).1 hM).1 (Cert.bwd_length M hM w)]
  have hstart : M.toWfsa.start = (List.range M.dim).map fun i => (i, M.start.getD i 0) := rfl
  rw [hstart, List.map_map]
  apply congrArg
  apply List.map_congr_left
  intro i hi
  simp only [Function.comp_def]
  rw [toWfsa_Bk_E9 M hM w i (List.mem_range.1 hi)]

/-- the stratified weight of `to_wfsa` at any level `n ≥ |w|` -/
theorem toWfsa_weight_PN (M : MAut σ K) (hM : M.wf = true) (w : List σ) (n : Nat) (hn : w.length ≤ n) :
    PN M.toWfsa n w = M.weight w := by
  rw [← (toWfsa_weight M hM w).2]
  exact PN_eq_single _ n w.length w hn (fun k hk => Pk_epsfree_length _ (toWfsa_epsFree_E9 M) k w hk)

end ToWfsaMain

section MinWfsa
variable {ι σ K : Type} [DecidableEq ι] [DecidableEq σ] [DecidableEq K] [Field K]

/-- **`WFSA.min`** (`self.simple.min.to_wfsa()`), end to end: whenever it returns, the returned AUTOMATON is ε-free, gives
every word the weight of the automaton the user passed, and has `rank(Hankel)` states — the least possible number -/
theorem field_min_wfsa (hK : Tzeng.Anisotropic K) (A : WFSA ι σ K)
    (S : ι → ι → K) (out : ι → List ι) (N : Nat) (hA : A.EpsClosure S out N) (f : Nat)
    (A' : MAut σ K) (h : minQ (A.simple S out) f = some A') :
    A'.toWfsa.EpsFree ∧ (∀ w n, w.length ≤ n → PN A'.toWfsa n w = A.weightN N w) ∧
      A'.dim = TzMin.hankelRank (A.weightN N) := by
  obtain ⟨h1, h2, h3, _⟩ := field_min_spec hK A S out N hA f A' h
  exact ⟨toWfsa_epsFree_E9 A', fun w n hn => (toWfsa_weight_PN A' h1 w n hn).trans (h2 w), h3⟩

end MinWfsa

/-! ### non-vacuity (weights in `ℚ`, the letter `a` is `7`) -/
namespace SimpleAux
section Examples

/-- `0 -ε/2-> 1`, loop `1 -a/½-> 1`: `aⁿ ↦ 2 · 2⁻ⁿ` -/
def exQ1 : WFSA Nat Nat ℚ := ⟨[(0, 1)], [(1, 1)], [⟨0, none, 1, 2⟩, ⟨1, some 7, 1, 1/2⟩]⟩
def exS1 : Nat → Nat → ℚ
  | 0, 0 => 1 | 0, 1 => 2 | 1, 1 => 1 | _, _ => 0
def exOut1 : Nat → List Nat
  | 0 => [0, 1] | 1 => [1] | _ => []
/-- one state, no ε: `aⁿ ↦ 2 · 2⁻ⁿ` -/
def exQ2 : WFSA Nat Nat ℚ := ⟨[(0, 2)], [(0, 1)], [⟨0, some 7, 0, 1/2⟩]⟩
/-- as `exQ2` with another loop weight: differs from `exQ1` on `a` -/
def exQ3 : WFSA Nat Nat ℚ := ⟨[(0, 2)], [(0, 1)], [⟨0, some 7, 0, 1/3⟩]⟩
def exS2 : Nat → Nat → ℚ
  | 0, 0 => 1 | _, _ => 0
def exOut2 : Nat → List Nat
  | 0 => [0] | _ => []

theorem exQ1_closure : exQ1.EpsClosure exS1 exOut1 1 where
  hS := by decide +kernel
  hout := by decide +kernel
  hsub := by decide +kernel
  hnd := by decide +kernel
  hacyc := eps_acyclic_of_rank exQ1 (fun i => if i = 0 then 1 else 0) 1 (by decide +kernel)
    (fun i => by by_cases h : i = 0 <;> simp [h])

theorem exQ2_closure : exQ2.EpsClosure exS2 exOut2 0 where
  hS := by decide +kernel
  hout := by decide +kernel
  hsub := by decide +kernel
  hnd := by decide +kernel
  hacyc := eps_acyclic_of_rank exQ2 (fun _ => 0) 0 (by decide +kernel) (fun _ => Nat.le_refl _)

theorem exQ3_closure : exQ3.EpsClosure exS2 exOut2 0 where
  hS := by decide +kernel
  hout := by decide +kernel
  hsub := by decide +kernel
  hnd := by decide +kernel
  hacyc := eps_acyclic_of_rank exQ3 (fun _ => 0) 0 (by decide +kernel) (fun _ => Nat.le_refl _)

-- the matrix form of the machine with the ε arc: state `0` keeps an (unreachable) row
example : let M := exQ1.simple exS1 exOut1
    (M.dim, M.start, M.arcs, M.stop) = (2, [1, 2], [(7, [[0, 0], [0, 1/2]])], [0, 1]) := by decide +kernel
example : (exQ1.simple exS1 exOut1).weight [7, 7] = 1/2 ∧ exQ1.weightN 1 [7, 7] = 1/2 := by decide +kernel

-- the equivalence test on the two user-level automata, and what `field_eq_decides` makes of it
example : counterexampleQ (exQ1.simple exS1 exOut1) (exQ2.simple exS2 exOut2) 3 = some none := by
  decide +kernel
example : ∀ w, exQ1.weightN 1 w = exQ2.weightN 0 w :=
  (field_eq_decides exQ1 exQ2 exS1 exOut1 1 exQ1_closure exS2 exOut2 0 exQ2_closure 3 (by decide +kernel)).1
    (by decide +kernel)
example : counterexampleQ (exQ1.simple exS1 exOut1) (exQ3.simple exS2 exOut2) 3 = some (some ([7], 1, 2/3)) := by
  decide +kernel
example : exQ1.weightN 1 [7] = 1 ∧ exQ3.weightN 0 [7] = 2/3 :=
  let h := field_counterexample_sound exQ1 exQ3 exS1 exOut1 1 exQ1_closure exS2 exOut2 0 exQ3_closure 3
    [7] 1 (2/3) (by decide +kernel)
  ⟨h.1.symm, h.2.1.symm⟩
-- minimisation of the two-state matrix form of `exQ1`: one state
example : (minQ (exQ1.simple exS1 exOut1) 2).map MAut.dim = some 1 := by decide +kernel
-- … and back to an automaton (`WFSA.min`): same weight on `aa`
example : (minQ (exQ1.simple exS1 exOut1) 2).map (fun M => PN M.toWfsa 2 [7, 7]) = some (1/2) := by
  decide +kernel

end Examples
end SimpleAux
end Genlm
