import GenlmModel.Model.FsmWfsa
import GenlmModel.Proofs.Wfsa2
import Mathlib.Algebra.BigOperators.Group.List.Basic
import Mathlib.Algebra.BigOperators.Ring.List
import Mathlib.Algebra.Order.BigOperators.Group.List
import Mathlib.Algebra.Order.Ring.Defs
import Mathlib.Algebra.Order.Field.Basic
import Mathlib.Algebra.Order.Field.Rat
import Mathlib.Algebra.CharZero.Defs
import Mathlib.Data.Nat.Cast.Order.Ring
import Mathlib.Tactic.Ring

/-! # `interegular_to_wfsa` (property C18): the regex automaton is locally normalised

Model: `Model/FsmWfsa.lean` (`fsmToWfsa`).  `inv K` stands for `1 / K`.

* `emit_length` — the emitting loop adds exactly as many arcs as the counting loop counted;
* `fsmToWfsa_normalised` (+ `_field`) — at every FSM state with `K ≠ 0` the final weight plus the
  outgoing arc weights sum to one (any commutative semiring with `K * inv K = 1`; needs
  `states.Nodup`, i.e. that `fsm.states` is a set); `fsmToWfsa_dead`: the other states carry no weight;
* `fsmToWfsa_support` (+ `_ne_zero`, `_field`) — over an ordered semiring with `inv K > 0`, a string has
  positive (equivalently non-zero) weight iff the FSM accepts it (`Fsm.Accepts` / `Fsm.accepts`:
  a path through non-rejected states reading single-character class members, ending in a final state);
  determinism of the FSM is not needed; `hclosed` (transitions lead to FSM states) is;
* `substochastic_Bk_le_one`, `substochastic_forward_le` — any ε-free machine with non-negative weights
  whose states are locally sub-normalised gives any family of distinct strings total weight at most
  the total initial weight; `fsmToWfsa_subprob` (+ `_field`): at most one for the regex automaton.
Helpers in `Genlm.FsmAux`. -/
namespace Genlm
open WfsaAux Wfsa2Aux

namespace FsmAux

section Lists
variable {ι τ : Type} [DecidableEq ι]

theorem single?_eq_some (A : List Char) (c : Char) : single? A = some c ↔ A = [c] := by
  match A with
  | [] => simp [single?]
  | [d] => simp [single?]
  | _ :: _ :: _ => simp [single?]

theorem length_filterMap_single {β : Type} (xs : List (List Char)) (g : Char → β) :
    (xs.filterMap fun A => (single? A).map g).length
      = (xs.map fun A => if A.length = 1 then 1 else 0).sum := by
  induction xs with
  | nil => rfl
  | cons A xs ih =>
    rw [List.filterMap_cons, List.map_cons, List.sum_cons, ← ih]
    generalize (xs.filterMap fun A => (single? A).map g) = r
    match A with
    | [] => simp [single?]
    | [d] => simp [single?]; omega
    | _ :: _ :: _ => simp [single?]

/-- the emitting loop produces exactly as many arcs as the counting loop counted -/
theorem emit_length (F : Fsm ι τ) (i : ι) : (F.emit i).length = F.fanArcs i := by
  unfold Fsm.emit Fsm.fanArcs
  rw [List.length_flatMap]
  apply congrArg
  apply List.map_congr_left
  intro e _
  by_cases h : F.rejected e.2.2 = true
  · simp [h]
  · simp only [h, if_false, Bool.false_eq_true]
    exact length_filterMap_single _ _

theorem mem_emit (F : Fsm ι τ) (i : ι) (c : Char) (j : ι) :
    (c, j) ∈ F.emit i ↔ ∃ a, (i, a, j) ∈ F.map ∧ F.rejected j = false ∧ [c] ∈ F.expand a := by
  unfold Fsm.emit Fsm.out
  simp only [List.mem_flatMap, List.mem_filter, decide_eq_true_eq]
  constructor
  · rintro ⟨⟨i', a, j'⟩, ⟨he, hi⟩, hmem⟩
    simp only at hi hmem
    subst hi
    by_cases h : F.rejected j' = true
    · simp [h] at hmem
    · simp only [h, if_false, Bool.false_eq_true, List.mem_filterMap, Option.map_eq_some_iff,
        single?_eq_some, Prod.mk.injEq] at hmem
      obtain ⟨A, hA, c', hAc, hc, hj⟩ := hmem
      subst hc hj hAc
      exact ⟨a, he, by simpa using h, hA⟩
  · rintro ⟨a, he, hr, hA⟩
    refine ⟨(i, a, j), ⟨he, rfl⟩, ?_⟩
    simp only [hr, if_false, Bool.false_eq_true, List.mem_filterMap, Option.map_eq_some_iff,
      single?_eq_some, Prod.mk.injEq]
    exact ⟨[c], hA, c, by simp⟩

theorem fan_ne_zero_of_final (F : Fsm ι τ) (i : ι) (h : i ∈ F.finals) : F.fan i ≠ 0 := by
  simp [Fsm.fan, h]

theorem fan_ne_zero_of_emit (F : Fsm ι τ) (i : ι) (cj : Char × ι) (h : cj ∈ F.emit i) : F.fan i ≠ 0 := by
  have := List.length_pos_of_mem h
  rw [emit_length] at this
  unfold Fsm.fan
  omega

theorem acceptsFrom_iff (F : Fsm ι τ) (x : List Char) (i : ι) :
    F.acceptsFrom x i = true ↔ F.Accepts i x := by
  induction x generalizing i with
  | nil =>
    simp only [Fsm.acceptsFrom, decide_eq_true_eq]
    exact ⟨Fsm.Accepts.final, fun h => by cases h; assumption⟩
  | cons c x ih =>
    simp only [Fsm.acceptsFrom, Fsm.out, List.any_eq_true, List.mem_filter, decide_eq_true_eq,
      Bool.and_eq_true, Bool.not_eq_true', List.contains_iff_mem, ih]
    constructor
    · rintro ⟨⟨i', a, j⟩, ⟨he, hi⟩, ⟨hr, hc⟩, hacc⟩
      simp only at hi hr hc hacc
      subst hi
      exact Fsm.Accepts.step he hr hc hacc
    · intro h
      cases h with
      | step he hr hc hacc => exact ⟨(i, _, _), ⟨he, rfl⟩, ⟨hr, hc⟩, hacc⟩

end Lists

section Sums
variable {ι σ K : Type} [DecidableEq ι] [CommSemiring K]

/-- a sum over the arcs leaving `i`, when the arc list is generated state by state -/
theorem sum_filter_src_flatMap (S : List ι) (hS : S.Nodup) (g : ι → List (Arc ι σ K))
    (hg : ∀ i' ∈ S, ∀ e ∈ g i', e.src = i') (i : ι) (f : Arc ι σ K → K) :
    (((S.flatMap g).filter fun e => e.src = i).map f).sum
      = if i ∈ S then ((g i).map f).sum else 0 := by
  rw [sum_filter_ite, sum_flatMap, ← sum_ite_eq_nodup S hS i (fun i' => ((g i').map f).sum)]
  apply congrArg
  apply List.map_congr_left
  intro i' hi'
  by_cases h : i = i'
  · subst h
    simp only [if_true]
    apply congrArg
    apply List.map_congr_left
    intro e he
    simp [hg i hi' e he]
  · simp only [h, if_false]
    apply sum_map_zero
    intro e he
    have : e.src ≠ i := by rw [hg i' hi' e he]; exact fun h' => h h'.symm
    simp [this]

theorem wlook_flatMap_key (S : List ι) (hS : S.Nodup) (g : ι → List (ι × K))
    (hg : ∀ i' ∈ S, ∀ q ∈ g i', q.1 = i') (i : ι) :
    wlook (S.flatMap g) i = if i ∈ S then ((g i).map (·.2)).sum else 0 := by
  rw [wlook_eq_sum_ite, sum_flatMap, ← sum_ite_eq_nodup S hS i (fun i' => ((g i').map (·.2)).sum)]
  apply congrArg
  apply List.map_congr_left
  intro i' hi'
  by_cases h : i = i'
  · subst h
    simp only [if_true]
    apply congrArg
    apply List.map_congr_left
    intro q hq
    simp [hg i hi' q hq]
  · simp only [h, if_false]
    apply sum_map_zero
    intro q hq
    have : q.1 ≠ i := by rw [hg i' hi' q hq]; exact fun h' => h h'.symm
    simp [this]

end Sums
end FsmAux
open FsmAux

section Normalised
variable {ι τ K : Type} [DecidableEq ι] [CommSemiring K]

theorem fsmToWfsa_epsFree (inv : Nat → K) (F : Fsm ι τ) : (fsmToWfsa inv F).EpsFree := by
  intro e he
  simp only [fsmToWfsa, List.mem_flatMap] at he
  obtain ⟨i, _, he⟩ := he
  split at he
  · simp at he
  · simp only [List.mem_map] at he
    obtain ⟨cj, _, rfl⟩ := he
    simp

/-- final weight of a state -/
theorem fsmToWfsa_stop (inv : Nat → K) (F : Fsm ι τ) (hS : F.states.Nodup) (i : ι) :
    wlook (fsmToWfsa inv F).stop i
      = if i ∈ F.states ∧ i ∈ F.finals then inv (F.fan i) else 0 := by
  unfold fsmToWfsa
  simp only
  rw [wlook_flatMap_key F.states hS _ (by
    intro i' _ q hq
    split at hq
    · simp at hq
    · split at hq
      · simp at hq; rw [hq]
      · simp at hq)]
  by_cases hi : i ∈ F.states
  · by_cases hf : i ∈ F.finals
    · simp [hi, hf, fan_ne_zero_of_final F i hf]
    · by_cases h0 : F.fan i = 0 <;> simp [hi, hf, h0]
  · simp [hi]

/-- a sum over the arcs leaving a state -/
theorem fsmToWfsa_arcs_sum (inv : Nat → K) (F : Fsm ι τ) (hS : F.states.Nodup) (i : ι)
    (f : Arc ι Char K → K) :
    ((((fsmToWfsa inv F).arcs.filter fun e => e.src = i)).map f).sum
      = if i ∈ F.states then
          ((F.emit i).map fun cj => f ⟨i, some cj.1, cj.2, inv (F.fan i)⟩).sum
        else 0 := by
  unfold fsmToWfsa
  simp only
  rw [sum_filter_src_flatMap F.states hS _ (by
    intro i' _ e he
    split at he
    · simp at he
    · simp only [List.mem_map] at he
      obtain ⟨cj, _, rfl⟩ := he
      rfl)]
  by_cases hi : i ∈ F.states
  · simp only [hi, if_true]
    by_cases h0 : F.fan i = 0
    · have : F.emit i = [] := by
        cases hE : F.emit i with
        | nil => rfl
        | cons cj l => exact absurd h0 (fan_ne_zero_of_emit F i cj (by simp [hE]))
      simp [h0, this]
    · simp [h0, List.map_map, Function.comp_def]
  · simp [hi]

/-- **local normalisation** (`interegular_to_wfsa`): at every FSM state with non-zero fan-out `K`
the final weight plus the weights of the outgoing arcs sum to one, provided `K * inv K = 1`. -/
theorem fsmToWfsa_normalised (inv : Nat → K) (hinv : ∀ n : Nat, n ≠ 0 → (n : K) * inv n = 1)
    (F : Fsm ι τ) (hS : F.states.Nodup) (i : ι) (hi : i ∈ F.states) (hK : F.fan i ≠ 0) :
    wlook (fsmToWfsa inv F).stop i
      + (((fsmToWfsa inv F).arcs.filter fun e => e.src = i).map (·.w)).sum = 1 := by
  rw [fsmToWfsa_stop inv F hS, fsmToWfsa_arcs_sum inv F hS]
  simp only [hi, if_true, true_and]
  rw [List.map_const', List.sum_replicate, emit_length, nsmul_eq_mul, ← hinv _ hK]
  unfold Fsm.fan
  by_cases hf : i ∈ F.finals
  · simp only [hf, if_true]; push_cast; ring
  · simp only [hf, if_false]; push_cast; ring

/-- states that are skipped (`K = 0`) or are not FSM states carry no weight at all -/
theorem fsmToWfsa_dead (inv : Nat → K) (F : Fsm ι τ) (hS : F.states.Nodup) (i : ι)
    (hi : i ∉ F.states ∨ F.fan i = 0) :
    wlook (fsmToWfsa inv F).stop i
      + (((fsmToWfsa inv F).arcs.filter fun e => e.src = i).map (·.w)).sum = 0 := by
  rw [fsmToWfsa_stop inv F hS, fsmToWfsa_arcs_sum inv F hS]
  rcases hi with hi | h0
  · simp [hi]
  · have hf : i ∉ F.finals := fun hf => fan_ne_zero_of_final F i hf h0
    have : F.emit i = [] := by
      cases hE : F.emit i with
      | nil => rfl
      | cons cj l => exact absurd h0 (fan_ne_zero_of_emit F i cj (by simp [hE]))
    simp [hf, this]

end Normalised

/-! ### non-negative, ε-free, locally sub-normalised machines are sub-probabilistic -/
namespace FsmAux
section Tails
variable {σ K : Type} [DecidableEq σ] [CommSemiring K]

/-- `x = a :: x'` ↦ `x'` -/
def tl? (a : σ) : List σ → Option (List σ)
  | [] => none
  | b :: x' => if b = a then some x' else none

/-- the strings `x'` with `a :: x' ∈ xs` -/
def tailsOf (a : σ) (xs : List (List σ)) : List (List σ) := xs.filterMap (tl? a)

theorem tl?_eq_some (a : σ) (x x' : List σ) : tl? a x = some x' ↔ x = a :: x' := by
  cases x with
  | nil => simp [tl?]
  | cons b t =>
    by_cases h : b = a
    · subst h; simp [tl?]
    · simp [tl?, h]

theorem mem_tailsOf (a : σ) (xs : List (List σ)) (x' : List σ) :
    x' ∈ tailsOf a xs ↔ a :: x' ∈ xs := by
  simp only [tailsOf, List.mem_filterMap, tl?_eq_some]
  constructor
  · rintro ⟨x, hx, rfl⟩; exact hx
  · intro h; exact ⟨_, h, rfl⟩

theorem nodup_tailsOf (a : σ) (xs : List (List σ)) (h : xs.Nodup) : (tailsOf a xs).Nodup := by
  apply List.Nodup.filterMap _ h
  intro x y z hx hy
  rw [Option.mem_def, tl?_eq_some] at hx hy
  rw [hx, hy]

theorem sum_tailsOf (a : σ) (xs : List (List σ)) (G : List σ → K) :
    (xs.map fun x => match tl? a x with | some x' => G x' | none => 0).sum
      = ((tailsOf a xs).map G).sum := by
  induction xs with
  | nil => rfl
  | cons x xs ih =>
    rw [List.map_cons, List.sum_cons, ih]
    unfold tailsOf
    rw [List.filterMap_cons]
    cases h : tl? a x with
    | none => simp
    | some x' => simp

end Tails

section Order
variable {K : Type} [CommSemiring K] [LinearOrder K] [IsStrictOrderedRing K]

theorem sum_pos_iff_of_nonneg {α : Type} (l : List α) (f : α → K) (h : ∀ a ∈ l, 0 ≤ f a) :
    0 < (l.map f).sum ↔ ∃ a ∈ l, 0 < f a := by
  induction l with
  | nil => simp
  | cons a l ih =>
    have ih' := ih (fun b hb => h b (by simp [hb]))
    have ha := h a (by simp)
    have hl : 0 ≤ (l.map f).sum := List.sum_nonneg (by
      intro t ht
      obtain ⟨b, hb, rfl⟩ := List.mem_map.mp ht
      exact h b (by simp [hb]))
    simp only [List.map_cons, List.sum_cons, List.mem_cons, exists_eq_or_imp, ← ih']
    constructor
    · intro hpos
      by_contra hc
      have hc := not_or.mp hc
      have h1 : f a = 0 := le_antisymm (not_lt.mp hc.1) ha
      have h2 : (l.map f).sum = 0 := le_antisymm (not_lt.mp hc.2) hl
      rw [h1, h2, add_zero] at hpos
      exact lt_irrefl _ hpos
    · rintro (h1 | h2)
      · exact add_pos_of_pos_of_nonneg h1 hl
      · exact add_pos_of_nonneg_of_pos ha h2

end Order
end FsmAux
open FsmAux

section Stochastic
variable {ι σ K : Type} [DecidableEq ι] [DecidableEq σ] [CommSemiring K]

theorem FsmAux.Bk_nil (A : WFSA ι σ K) (i : ι) : Bk A 0 i [] = wlook A.stop i := by
  rw [Bk_zero]; simp

/-- on an ε-free machine the first arc of a path spelling `a :: x` is labelled `a` -/
theorem FsmAux.Bk_cons_epsfree (A : WFSA ι σ K) (hA : A.EpsFree) (k : Nat) (i : ι) (a : σ) (x : List σ) :
    Bk A (k+1) i (a :: x) = ((A.arcs.filter fun e => e.src = i).map fun e =>
      if e.lbl = some a then e.w * Bk A k e.dst x else 0).sum := by
  rw [Bk_succ]
  apply congrArg
  apply List.map_congr_left
  intro e he
  have hne := hA e (List.mem_filter.mp he).1
  cases hl : e.lbl with
  | none => exact absurd hl hne
  | some c => by_cases hca : c = a <;> simp [lpeel, hca]

/-- `forward` through the backward sums -/
theorem FsmAux.forward_eq_Bk (A : WFSA ι σ K) (hA : A.EpsFree) (x : List σ) :
    forward A x = (A.start.map fun s => s.2 * Bk A x.length s.1 x).sum := by
  rw [forward_correct A hA, Pk_eq_Bk]

variable [LinearOrder K] [IsStrictOrderedRing K]

theorem FsmAux.Bk_nonneg (A : WFSA ι σ K) (hA : A.EpsFree) (hw : ∀ e ∈ A.arcs, 0 ≤ e.w)
    (hstop : ∀ i, 0 ≤ wlook A.stop i) (x : List σ) (i : ι) : 0 ≤ Bk A x.length i x := by
  induction x generalizing i with
  | nil => rw [List.length_nil, Bk_nil]; exact hstop i
  | cons a x ih =>
    rw [List.length_cons, Bk_cons_epsfree A hA]
    apply List.sum_nonneg
    intro t ht
    obtain ⟨e, he, rfl⟩ := List.mem_map.mp ht
    split
    · exact mul_nonneg (hw e (List.mem_filter.mp he).1) (ih e.dst)
    · exact le_refl _

/-- **sub-probability from a state**: in an ε-free machine with non-negative weights in which, at
every state, the final weight plus the outgoing arc weights sum to at most one, the weights of
any family of distinct strings sum to at most one -/
theorem substochastic_Bk_le_one (A : WFSA ι σ K) (hA : A.EpsFree) (hw : ∀ e ∈ A.arcs, 0 ≤ e.w)
    (hstop : ∀ i, 0 ≤ wlook A.stop i)
    (hsub : ∀ i, wlook A.stop i + ((A.arcs.filter fun e => e.src = i).map (·.w)).sum ≤ 1)
    (xs : List (List σ)) (hxs : xs.Nodup) (i : ι) :
    (xs.map fun x => Bk A x.length i x).sum ≤ 1 := by
  suffices h : ∀ n : Nat, ∀ xs : List (List σ), xs.Nodup → (∀ x ∈ xs, x.length < n) → ∀ i,
      (xs.map fun x => Bk A x.length i x).sum ≤ 1 by
    have hbound : ∀ x ∈ xs, x.length < (xs.map List.length).sum + 1 := by
      intro x hx
      have := List.single_le_sum (l := xs.map List.length) (fun _ _ => Nat.zero_le _) x.length
        (List.mem_map_of_mem hx)
      omega
    exact h _ xs hxs hbound i
  intro n
  induction n with
  | zero =>
    intro xs _ hlen i
    cases xs with
    | nil => simp
    | cons x xs => exact absurd (hlen x (by simp)) (Nat.not_lt_zero _)
  | succ n ih =>
    intro xs hxs hlen i
    -- one-step decomposition of the weight of a string
    have hstep : ∀ x : List σ, Bk A x.length i x
        = (if [] = x then wlook A.stop i else 0)
          + ((A.arcs.filter fun e => e.src = i).map fun e => e.w *
              (match e.lbl with
               | none => 0
               | some a => match tl? a x with
                 | some x' => Bk A x'.length e.dst x'
                 | none => 0)).sum := by
      intro x
      cases x with
      | nil =>
        rw [List.length_nil, Bk_nil, if_pos rfl]
        symm
        rw [add_eq_left]
        apply sum_map_zero
        intro e _
        cases e.lbl <;> simp [tl?]
      | cons b x' =>
        rw [List.length_cons, Bk_cons_epsfree A hA, if_neg (by simp), zero_add]
        apply congrArg
        apply List.map_congr_left
        intro e _
        cases hl : e.lbl with
        | none => simp
        | some a =>
          by_cases hab : a = b
          · subst hab; simp [tl?]
          · have : ¬ b = a := fun h => hab h.symm
            simp [tl?, hab, this]
    rw [List.map_congr_left (fun x _ => hstep x), List.sum_map_add, sum_ite_eq_nodup xs hxs [] _,
      sum_swap xs]
    have h2 : ((A.arcs.filter fun e => e.src = i).map fun e => (xs.map fun x => e.w *
              (match e.lbl with
               | none => 0
               | some a => match tl? a x with
                 | some x' => Bk A x'.length e.dst x'
                 | none => 0)).sum).sum
        ≤ ((A.arcs.filter fun e => e.src = i).map (·.w)).sum := by
      apply List.sum_le_sum
      intro e he
      have hwe := hw e (List.mem_filter.mp he).1
      rw [List.sum_map_mul_left]
      cases hl : e.lbl with
      | none => simp [hwe]
      | some a =>
        simp only
        rw [sum_tailsOf a xs (fun x' => Bk A x'.length e.dst x')]
        have := ih (tailsOf a xs) (nodup_tailsOf a xs hxs) (by
          intro x' hx'
          have := hlen _ ((mem_tailsOf a xs x').mp hx')
          simp only [List.length_cons] at this
          omega) e.dst
        calc e.w * _ ≤ e.w * 1 := mul_le_mul_of_nonneg_left this hwe
          _ = e.w := mul_one _
    refine le_trans (add_le_add ?_ h2) (hsub i)
    split
    · exact le_refl _
    · exact hstop i

/-- **sub-probability**: if moreover the initial weights are non-negative, the weights
`forward A x` of any family of distinct strings sum to at most the total initial weight -/
theorem substochastic_forward_le (A : WFSA ι σ K) (hA : A.EpsFree) (hw : ∀ e ∈ A.arcs, 0 ≤ e.w)
    (hstop : ∀ i, 0 ≤ wlook A.stop i) (hstart : ∀ s ∈ A.start, 0 ≤ s.2)
    (hsub : ∀ i, wlook A.stop i + ((A.arcs.filter fun e => e.src = i).map (·.w)).sum ≤ 1)
    (xs : List (List σ)) (hxs : xs.Nodup) :
    (xs.map fun x => forward A x).sum ≤ (A.start.map (·.2)).sum := by
  rw [List.map_congr_left (fun x _ => forward_eq_Bk A hA x), sum_swap xs A.start]
  apply List.sum_le_sum
  intro s hs
  rw [List.sum_map_mul_left]
  calc s.2 * _ ≤ s.2 * 1 :=
        mul_le_mul_of_nonneg_left (substochastic_Bk_le_one A hA hw hstop hsub xs hxs s.1) (hstart s hs)
    _ = s.2 := mul_one _

end Stochastic

section Support
variable {ι τ K : Type} [DecidableEq ι] [CommSemiring K] [LinearOrder K] [IsStrictOrderedRing K]

omit [IsStrictOrderedRing K] in
theorem fsmToWfsa_arc_pos (inv : Nat → K) (hpos : ∀ n : Nat, n ≠ 0 → 0 < inv n) (F : Fsm ι τ) :
    ∀ e ∈ (fsmToWfsa inv F).arcs, 0 < e.w := by
  intro e he
  simp only [fsmToWfsa, List.mem_flatMap] at he
  obtain ⟨i, _, he⟩ := he
  split at he
  · simp at he
  · rename_i h0
    simp only [List.mem_map] at he
    obtain ⟨cj, _, rfl⟩ := he
    exact hpos _ h0

omit [IsStrictOrderedRing K] in
theorem fsmToWfsa_stop_nonneg (inv : Nat → K) (hpos : ∀ n : Nat, n ≠ 0 → 0 < inv n) (F : Fsm ι τ)
    (hS : F.states.Nodup) (i : ι) : 0 ≤ wlook (fsmToWfsa inv F).stop i := by
  rw [fsmToWfsa_stop inv F hS]
  split
  · rename_i h
    exact le_of_lt (hpos _ (fan_ne_zero_of_final F i h.2))
  · exact le_refl _

/-- weight of `x` from state `i` of the regex automaton -/
theorem fsmToWfsa_Bk_pos_iff (inv : Nat → K) (hpos : ∀ n : Nat, n ≠ 0 → 0 < inv n) (F : Fsm ι τ)
    (hS : F.states.Nodup) (hclosed : ∀ e ∈ F.map, e.2.2 ∈ F.states) (x : List Char) (i : ι) :
    0 < Bk (fsmToWfsa inv F) x.length i x ↔ i ∈ F.states ∧ F.Accepts i x := by
  induction x generalizing i with
  | nil =>
    rw [List.length_nil, Bk_nil, fsmToWfsa_stop inv F hS]
    constructor
    · intro h
      split at h
      · rename_i hh; exact ⟨hh.1, Fsm.Accepts.final hh.2⟩
      · exact absurd h (lt_irrefl _)
    · rintro ⟨hi, hacc⟩
      cases hacc with
      | final hf => rw [if_pos ⟨hi, hf⟩]; exact hpos _ (fan_ne_zero_of_final F i hf)
  | cons c x ih =>
    rw [List.length_cons, Bk_cons_epsfree _ (fsmToWfsa_epsFree inv F), fsmToWfsa_arcs_sum inv F hS]
    by_cases hi : i ∈ F.states
    · simp only [hi, if_true, true_and]
      have hnn : ∀ j, 0 ≤ Bk (fsmToWfsa inv F) x.length j x := fun j =>
        Bk_nonneg _ (fsmToWfsa_epsFree inv F)
          (fun e he => le_of_lt (fsmToWfsa_arc_pos inv hpos F e he))
          (fsmToWfsa_stop_nonneg inv hpos F hS) x j
      rw [sum_pos_iff_of_nonneg _ _ (by
        intro cj hcj
        have h0 := hpos _ (fan_ne_zero_of_emit F i cj hcj)
        split
        · exact mul_nonneg (le_of_lt h0) (hnn _)
        · exact le_refl _)]
      constructor
      · rintro ⟨⟨c', j⟩, hcj, hlt⟩
        simp only [Option.some.injEq] at hlt
        split at hlt
        · rename_i hc
          subst hc
          have h0 := hpos _ (fan_ne_zero_of_emit F i _ hcj)
          have hB : 0 < Bk (fsmToWfsa inv F) x.length j x := by
            rcases lt_or_eq_of_le (hnn j) with h | h
            · exact h
            · rw [← h, mul_zero] at hlt; exact absurd hlt (lt_irrefl _)
          obtain ⟨a, he, hr, hA⟩ := (mem_emit F i c' j).mp hcj
          exact Fsm.Accepts.step he hr hA ((ih j).mp hB).2
        · exact absurd hlt (lt_irrefl _)
      · intro hacc
        cases hacc with
        | step he hr hA hacc' =>
          rename_i j a
          have hj : j ∈ F.states := hclosed _ he
          have hcj : (c, j) ∈ F.emit i := (mem_emit F i c j).mpr ⟨a, he, hr, hA⟩
          refine ⟨(c, j), hcj, ?_⟩
          simp only [if_true]
          exact mul_pos (hpos _ (fan_ne_zero_of_emit F i _ hcj)) ((ih j).mpr ⟨hj, hacc'⟩)
    · simp [hi]

/-- **support** (`interegular_to_wfsa`): the automaton gives a string a positive weight exactly when
the FSM accepts it (through non-rejected states, reading single-character class members); no
determinism assumption is needed over an ordered semiring.  `hclosed`: transitions lead to FSM states. -/
theorem fsmToWfsa_support (inv : Nat → K) (hpos : ∀ n : Nat, n ≠ 0 → 0 < inv n) (F : Fsm ι τ)
    (hS : F.states.Nodup) (hclosed : ∀ e ∈ F.map, e.2.2 ∈ F.states) (hinit : F.initial ∈ F.states)
    (x : List Char) :
    0 < forward (fsmToWfsa inv F) x ↔ F.Accepts F.initial x := by
  rw [forward_eq_Bk _ (fsmToWfsa_epsFree inv F)]
  have : (fsmToWfsa inv F).start = [(F.initial, 1)] := rfl
  rw [this]
  simp only [List.map_cons, List.map_nil, List.sum_cons, List.sum_nil, one_mul, add_zero]
  rw [fsmToWfsa_Bk_pos_iff inv hpos F hS hclosed]
  exact ⟨fun h => h.2, fun h => ⟨hinit, h⟩⟩

theorem fsmToWfsa_forward_nonneg (inv : Nat → K) (hpos : ∀ n : Nat, n ≠ 0 → 0 < inv n) (F : Fsm ι τ)
    (hS : F.states.Nodup) (x : List Char) : 0 ≤ forward (fsmToWfsa inv F) x := by
  rw [forward_eq_Bk _ (fsmToWfsa_epsFree inv F)]
  have : (fsmToWfsa inv F).start = [(F.initial, 1)] := rfl
  rw [this]
  simp only [List.map_cons, List.map_nil, List.sum_cons, List.sum_nil, one_mul, add_zero]
  exact Bk_nonneg _ (fsmToWfsa_epsFree inv F)
    (fun e he => le_of_lt (fsmToWfsa_arc_pos inv hpos F e he))
    (fsmToWfsa_stop_nonneg inv hpos F hS) x _

/-- so "non-zero weight" is "accepted" -/
theorem fsmToWfsa_support_ne_zero (inv : Nat → K) (hpos : ∀ n : Nat, n ≠ 0 → 0 < inv n) (F : Fsm ι τ)
    (hS : F.states.Nodup) (hclosed : ∀ e ∈ F.map, e.2.2 ∈ F.states) (hinit : F.initial ∈ F.states)
    (x : List Char) :
    forward (fsmToWfsa inv F) x ≠ 0 ↔ F.accepts x = true := by
  rw [Fsm.accepts, acceptsFrom_iff, ← fsmToWfsa_support inv hpos F hS hclosed hinit x]
  have := fsmToWfsa_forward_nonneg inv hpos F hS x
  constructor
  · intro h; exact lt_of_le_of_ne this (Ne.symm h)
  · intro h; exact ne_of_gt h

/-- **sub-probability** (`interegular_to_wfsa`): the weights of any family of distinct strings
(e.g. all strings of length at most `n` over the character set) sum to at most one -/
theorem fsmToWfsa_subprob (inv : Nat → K) (hinv : ∀ n : Nat, n ≠ 0 → (n : K) * inv n = 1)
    (hpos : ∀ n : Nat, n ≠ 0 → 0 < inv n) (F : Fsm ι τ) (hS : F.states.Nodup)
    (xs : List (List Char)) (hxs : xs.Nodup) :
    (xs.map fun x => forward (fsmToWfsa inv F) x).sum ≤ 1 := by
  have h := substochastic_forward_le (fsmToWfsa inv F) (fsmToWfsa_epsFree inv F)
    (fun e he => le_of_lt (fsmToWfsa_arc_pos inv hpos F e he))
    (fsmToWfsa_stop_nonneg inv hpos F hS)
    (by intro s hs; simp only [fsmToWfsa, List.mem_singleton] at hs; rw [hs]; exact zero_le_one)
    (by
      intro i
      by_cases hi : i ∈ F.states ∧ F.fan i ≠ 0
      · exact le_of_eq (fsmToWfsa_normalised inv hinv F hS i hi.1 hi.2)
      · have : i ∉ F.states ∨ F.fan i = 0 := by
          by_cases h1 : i ∈ F.states
          · right; by_contra h2; exact hi ⟨h1, h2⟩
          · left; exact h1
        rw [fsmToWfsa_dead inv F hS i this]; exact zero_le_one)
    xs hxs
  simpa [fsmToWfsa] using h

end Support

/-- over a field of characteristic zero with `inv K = 1 / K` -/
theorem fsmToWfsa_normalised_field {ι τ K : Type} [DecidableEq ι] [Field K] [CharZero K]
    (F : Fsm ι τ) (hS : F.states.Nodup) (i : ι) (hi : i ∈ F.states) (hK : F.fan i ≠ 0) :
    wlook (fsmToWfsa (fun n => (1 : K) / n) F).stop i
      + (((fsmToWfsa (fun n => (1 : K) / n) F).arcs.filter fun e => e.src = i).map (·.w)).sum = 1 :=
  fsmToWfsa_normalised _ (fun n hn => by
    have : (n : K) ≠ 0 := Nat.cast_ne_zero.mpr hn
    exact mul_one_div_cancel this) F hS i hi hK

section OrderedField
variable {ι τ K : Type} [DecidableEq ι] [Field K] [LinearOrder K] [IsStrictOrderedRing K]

theorem FsmAux.one_div_nat_pos (n : Nat) (hn : n ≠ 0) : 0 < (1 : K) / n :=
  one_div_pos.mpr (Nat.cast_pos.mpr (Nat.pos_of_ne_zero hn))

/-- **C18 support**, over an ordered field with `inv K = 1 / K` -/
theorem fsmToWfsa_support_field (F : Fsm ι τ) (hS : F.states.Nodup)
    (hclosed : ∀ e ∈ F.map, e.2.2 ∈ F.states) (hinit : F.initial ∈ F.states) (x : List Char) :
    forward (fsmToWfsa (fun n => (1 : K) / n) F) x ≠ 0 ↔ F.accepts x = true :=
  fsmToWfsa_support_ne_zero _ one_div_nat_pos F hS hclosed hinit x

/-- **C18 sub-probability**, over an ordered field with `inv K = 1 / K` -/
theorem fsmToWfsa_subprob_field (F : Fsm ι τ) (hS : F.states.Nodup)
    (xs : List (List Char)) (hxs : xs.Nodup) :
    (xs.map fun x => forward (fsmToWfsa (fun n => (1 : K) / n) F) x).sum ≤ 1 :=
  fsmToWfsa_subprob _ (fun _ hn => mul_one_div_cancel (Nat.cast_ne_zero.mpr hn)) one_div_nat_pos
    F hS xs hxs

end OrderedField

/-! ### non-vacuity examples -/
namespace FsmAux

/-- the FSM of `a[bc]*` (case-insensitive flavour: class `3` has the multi-character member `"ss"`),
classes `0 = {a}`, `1 = {b, c}`, `2 = anything_else = {d, e}`, `3 = {ß, ss}`; state `2` is the dead state -/
def exFsm : Fsm Nat Nat where
  initial := 0
  states := [0, 1, 2]
  finals := [1]
  map := [(0, 0, 1), (0, 1, 2), (0, 2, 2), (0, 3, 2), (1, 0, 2), (1, 1, 1), (1, 2, 2), (1, 3, 1),
    (2, 0, 2), (2, 1, 2), (2, 2, 2), (2, 3, 2)]
  live := fun i => i != 2
  expand := fun a =>
    match a with
    | 0 => [['a']]
    | 1 => [['b'], ['c']]
    | 2 => [['d'], ['e']]
    | _ => [['ß'], ['s', 's']]

def exW : WFSA Nat Char ℚ := fsmToWfsa (fun n => (1 : ℚ) / n) exFsm

example : exFsm.states.Nodup ∧ (∀ e ∈ exFsm.map, e.2.2 ∈ exFsm.states) ∧ exFsm.initial ∈ exFsm.states := by
  decide
example : exFsm.fan 0 = 1 ∧ exFsm.fan 1 = 4 ∧ exFsm.fan 2 = 0 := by decide
example : exFsm.emit 1 = [('b', 1), ('c', 1), ('ß', 1)] := by decide
example : exFsm.accepts ['a', 'b', 'ß'] = true ∧ exFsm.accepts ['a', 'd'] = false
    ∧ exFsm.accepts ['a', 's', 's'] = false := by decide
example : wlook exW.stop 1 + ((exW.arcs.filter fun e => e.src = 1).map (·.w)).sum = 1 :=
  fsmToWfsa_normalised_field exFsm (by decide) 1 (by decide) (by decide)
example : forward exW ['a', 'b', 'ß'] ≠ 0 :=
  (fsmToWfsa_support_field exFsm (by decide) (by decide) (by decide) _).mpr (by decide)
example : forward exW ['a', 'b', 'ß'] = 1 / 64 := by decide +kernel
example : forward exW ['a', 'd'] = 0 := by
  by_contra h
  exact absurd ((fsmToWfsa_support_field exFsm (by decide) (by decide) (by decide) _).mp h) (by decide)
example : forward exW [] + forward exW ['a'] + forward exW ['a', 'b'] + forward exW ['a', 'c'] ≤ 1 := by
  have := fsmToWfsa_subprob_field (K := ℚ) exFsm (by decide)
    [[], ['a'], ['a', 'b'], ['a', 'c']] (by decide)
  simpa [exW, add_assoc] using this

end FsmAux

end Genlm
