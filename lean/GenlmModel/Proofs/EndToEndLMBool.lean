import GenlmModel.Proofs.EndToEndLM
import GenlmModel.Proofs.BoolLink
import GenlmModel.Proofs.AddEosDerives

/-! # End-to-end theorems for `BoolCFGLM.p_next` (C01)

`BoolCFGLM(cfg, alg)`: `add_EOS`, `cfg.map_values(lambda x: Boolean(x > 0), Boolean)`, then
* `alg = "cky"`:    `CKYLM(cfg)`, i.e. `IncrementalCKY(cfg.cnf.prefix_grammar.cnf)` (with `renumber()`),
* `alg = "earley"`: `Earley(cfg.prefix_grammar)` (with `nullaryremove(binarize=True).unarycycleremove().renumber()`),
and `p_next(c)` = the keys of `next_token_weights(chart(c)).trim()`, each with the value `1`.

The whole composition is proved, in the Boolean semiring `BoolW`, from the LEVEL-WISE theorems about the
transformations (every commutative semiring: `Sem2*.lean`, `TrimSem.lean`, `UCycle.lean`): Boolean derivation sums are
increasing and two-valued, so they stabilise, and the "stabilised" hypotheses of `pushNull_preserves`,
`unaryRemove_preserves`, `ucycle_preserves` can be met (`nullB_stable_E10`, `UWB_stable_E10`, `ucUWB_stable_E10`).

* §A.0  `BoolLang G X x := ∃ n, WN G n X x = 1` (= `Derives (boolSupport G) X x` at a nonterminal), cofinality lemmas.
* §A.1  the stages: `pushNullB_BL_start_E10` (TRUE Boolean null weights `nullB`), `unaryRemoveB_BL_E10` (TRUE Boolean
        closure `UWB`), `trim_BL_E10`, `separateStart_BL_E10`, `separateTerminals_binarize_BL_E10`, `binarize_BL_E10`,
        `rename_BL_E10`.
* §A.2  `cnfB` (= `cnf()` over `BoolW`), **`cnfB_inCNF_E10`, `cnfB_BL_E10`**.
* §A.3  `chartTrim`, `maskOf`; **`incCky_mask_E10`** (CKY on a CNF grammar), `ckyPfgB`, `nextSet_cnfB_E10`,
        **`cky_bool_mask_E10`**, `cky_bool_mask_ren_E10` (with `renumber()`).
* §A.4  `nullaryRemoveB`, `ucUWB`, `TrueClosuresB`, `earleyCoreB_BL_E10`, `earleyGrammarRenB`,
        **`earleyGrammarRenB_spec_E10`**.
* §A.5  **`earley_mask_E10`** (Earley on an `Acyc` grammar), `earleyPfgB`, **`earley_bool_mask_E10`**.
* §A.6  `boolMap` (`map_values`), `posPart`, `derives_boolMap_E10`, **`bool_lm_end_to_end`**,
        **`bool_cfg_lm_cky`**, **`bool_cfg_lm_earley`**: the mask is `nextSet (add_EOS G⁺) c`; ordinary token offered ⇔
        `c·t` viable prefix; `eos` offered ⇔ `c` sentence; non-viable context ⇒ empty mask.
* non-vacuity: `boolExG_E10` through the whole CKY pipeline.

## Model vs. code
* `Boolean(x > 0)`: `pos : K → Bool` is a parameter (`pos 1 = true`); rules of non-positive weight are dropped by
  `CFG.add` (`boolMap` uses `mkRules`), so the mask is that of `G⁺ = posPart pos G`; `G⁺ = G` when all weights are
  positive (`posPart_eq_self_E10`).  In the library `x > 0` only works for the `Float` semiring (raw floats): for
  the class-based semirings (`Real`, `Log`, `MaxTimes`, …) `Semiring` defines no `__gt__` and `BoolCFGLM(cfg)`
  raises `TypeError` (observed).
* the null weights and closures the code computes by fixpoint iteration / Lehmann's algorithm are replaced by the
  TRUE Boolean ones (`nullB`, `UWB`, `TrueClosuresB`); in the Boolean semiring the iterations reach them exactly
  (`Boolean.star = one`, `metric` is `!=`), the theorems assume it.
* a hypothesis the proofs need and the code does not check: `eos` is not used as a SYMBOL of `G` (head or body),
  `EosFresh`; `add_EOS` only asserts `eos not in cfg.V`.
* over `BoolW` the kernel can evaluate the decidable tests inside `separate_start`/`trim`, so `rfl` on the fields of
  transformed grammars explodes; the projection lemmas of `ProjE10` are stated for a generic weight type. -/
namespace Genlm
set_option linter.unusedSectionVars false
open UnfoldAux IncCkyAux LinkAux Sem2Aux

/-! ### projections of the transformed grammars (stated for a generic weight type, where `rfl` is cheap: over
`BoolW` the decidable tests inside `separate_start`, `trim`, … unfold when `whnf` is asked for a field) -/
section ProjE10
variable {σ K : Type} [DecidableEq σ] [DecidableEq K] [Add K] [Mul K] [Zero K] [One K]

theorem pushNull_S_E10 (ν : σ → K) (rename : σ → σ) (G : CFG σ K) : (pushNull ν rename G).S = G.S := rfl
theorem pushNull_V_E10 (ν : σ → K) (rename : σ → σ) (G : CFG σ K) : (pushNull ν rename G).V = G.V := rfl
theorem unaryRemove_S_E10 (W : σ → σ → K) (G : CFG σ K) : (unaryRemove W G).S = G.S := rfl
theorem unaryRemove_V_E10 (W : σ → σ → K) (G : CFG σ K) : (unaryRemove W G).V = G.V := rfl
theorem unaryCycleRemove_S_E10 (A : σ → σ → K) (blocks : List (Block σ K)) (bot : σ → σ) (G : CFG σ K) :
    (unaryCycleRemove A blocks bot G).S = G.S := rfl
theorem unaryCycleRemove_V_E10 (A : σ → σ → K) (blocks : List (Block σ K)) (bot : σ → σ) (G : CFG σ K) :
    (unaryCycleRemove A blocks bot G).V = G.V := rfl

theorem renameNT_V_E10 (f : σ → σ) (G : CFG σ K) : (renameNT f G).V = G.V := rfl
theorem renameCFG_S_E10 {τ : Type} (g : σ → τ) (G : CFG σ K) : (renameCFG g G).S = g G.S := rfl

end ProjE10

/-! ## A.0 Boolean languages: `BoolLang G X x` = "some level of the Boolean derivation sum is `1`" -/
section BoolLangE10
variable {σ : Type} [DecidableEq σ]

/-- the Boolean language of a grammar over `BoolW`: `X` generates `x` (at a nonterminal `X` this is
`Derives (boolSupport G) X x`, `Derives_iff_WN_bool`) -/
def BoolLang (G : CFG σ BoolW) (X : σ) (x : List σ) : Prop := ∃ n, WN G n X x = 1

theorem BL_iff_derives_E10 (G : CFG σ BoolW) (X : σ) (hX : X ∉ G.V) (x : List σ) :
    BoolLang G X x ↔ Derives (boolSupport G) X x := (Derives_iff_WN_bool G X hX x).symm

/-- levels of `G` that are dominated by levels of `G'` -/
theorem BL_of_levels_E10 {τ : Type} [DecidableEq τ] (G : CFG σ BoolW) (G' : CFG τ BoolW) (X : σ)
    (x : List σ) (X' : τ) (x' : List τ) (h : ∀ n, ∃ m, WN G n X x ≼ WN G' m X' x') :
    BoolLang G X x → BoolLang G' X' x' := by
  rintro ⟨n, hn⟩
  obtain ⟨m, hm⟩ := h n
  exact ⟨m, bool_natLe_one hm hn⟩

theorem BL_iff_of_cofinal_E10 {τ : Type} [DecidableEq τ] (G : CFG σ BoolW) (G' : CFG τ BoolW) (X : σ)
    (x : List σ) (X' : τ) (x' : List τ) (h1 : ∀ n, ∃ m, WN G' n X' x' ≼ WN G m X x)
    (h2 : ∀ n, ∃ m, WN G n X x ≼ WN G' m X' x') : BoolLang G' X' x' ↔ BoolLang G X x :=
  ⟨BL_of_levels_E10 G' G X' x' X x h1, BL_of_levels_E10 G G' X x X' x' h2⟩

theorem BL_congr_E10 {τ : Type} [DecidableEq τ] (G : CFG σ BoolW) (G' : CFG τ BoolW) (X : σ)
    (x : List σ) (X' : τ) (x' : List τ) (h : ∀ n, WN G' n X' x' = WN G n X x) : BoolLang G' X' x' ↔ BoolLang G X x :=
  BL_iff_of_cofinal_E10 G G' X x X' x' (fun n => ⟨n, le_of_eq' (h n)⟩) (fun n => ⟨n, le_of_eq' (h n).symm⟩)

/-- an increasing Boolean sequence is eventually constant, at the value "`1` is reached" -/
theorem bool_stable_E10 (f : Nat → BoolW) (hf : ∀ n m, n ≤ m → f n ≼ f m) :
    ∃ N, ∀ n, N ≤ n → f n = (open Classical in if ∃ k, f k = 1 then 1 else 0) := by
  classical
  by_cases h : ∃ k, f k = 1
  · obtain ⟨k, hk⟩ := h
    refine ⟨k, fun n hn => ?_⟩
    rw [if_pos ⟨k, hk⟩]
    exact bool_natLe_one (hf k n hn) hk
  · refine ⟨0, fun n _ => ?_⟩
    rw [if_neg h]
    rcases bool_cases (f n) with h0 | h1
    · exact h0
    · exact absurd ⟨n, h1⟩ h

end BoolLangE10

/-! ## A.1 the stages of the preprocessing preserve the Boolean language -/
section BoolStagesE10
variable {σ : Type} [DecidableEq σ]

open Classical in
/-- the TRUE Boolean null weights (what `null_weight()` computes exactly in the Boolean semiring): `y` derives
the empty string; `0` at terminals -/
noncomputable def nullB (G : CFG σ BoolW) (y : σ) : BoolW :=
  if y ∈ G.V then 0 else if BoolLang G y [] then 1 else 0

theorem nullB_term_E10 (G : CFG σ BoolW) {a : σ} (ha : a ∈ G.V) : nullB G a = 0 := if_pos ha

theorem nullB_nt_E10 (G : CFG σ BoolW) {y : σ} (hy : y ∉ G.V) : nullB G y = 1 ↔ BoolLang G y [] := by
  classical
  unfold nullB
  rw [if_neg hy]
  by_cases h : BoolLang G y []
  · simp [h]
  · simp only [h, if_false, iff_false]; exact bool_zero_ne_one

/-- the Boolean null weights are reached at a finite level, uniformly for the body symbols -/
theorem nullB_stable_E10 (G : CFG σ BoolW) :
    ∃ N0, ∀ r ∈ G.rules, ∀ y ∈ r.body, y ∉ G.V → ∀ n, N0 ≤ n → WN G n y [] = nullB G y := by
  obtain ⟨N0, h⟩ := exists_uniform (bodySyms G) (fun y n => y ∉ G.V → WN G n y [] = nullB G y) (by
    intro y _
    obtain ⟨N, hN⟩ := bool_stable_E10 (fun n => WN G n y []) (fun n m h => WN_le_of_le G h y [])
    refine ⟨N, fun n hn hy => ?_⟩
    unfold nullB BoolLang
    rw [if_neg hy]
    exact hN n hn)
  exact ⟨N0, fun r hr y hy hyV n hn => h y (mem_bodySyms.mpr ⟨r, hr, hy⟩) n hn hyV⟩

/-- **`_push_null_weights` with the TRUE Boolean null weights** preserves the Boolean language at the start
symbol, the empty string included -/
theorem pushNullB_BL_start_E10 (rename : σ → σ) (G : CFG σ BoolW) (hSV : G.S ∉ G.V)
    (hS : G.S ∉ bodySyms G) (hrenV : ∀ y, rename y ∉ G.V) (hrenS : ∀ y, rename y ≠ G.S)
    (hinj : ∀ y z, rename y = rename z → y = z)
    (hrenH : ∀ y, ∀ r ∈ G.rules, rename y ≠ r.head) (hrenB : ∀ y, rename y ∉ bodySyms G)
    (x : List σ) : BoolLang (pushNull (nullB G) rename G) G.S x ↔ BoolLang G G.S x := by
  by_cases hx : x = []
  · subst hx
    rw [← nullB_nt_E10 G hSV]
    constructor
    · rintro ⟨n, hn⟩
      cases n with
      | zero => exact absurd hn bool_zero_ne_one
      | succ n => rwa [pushNull_nil_start (nullB G) rename G hS hrenS n] at hn
    · intro h
      exact ⟨1, by rw [pushNull_nil_start (nullB G) rename G hS hrenS 0]; exact h⟩
  · obtain ⟨N0, hstab⟩ := nullB_stable_E10 G
    have hp : pnF (nullB G) rename G G.S = G.S := if_pos (Or.inr rfl)
    have key := fun n => pushNull_preserves (nullB G) rename G hS (fun a ha => nullB_term_E10 G ha) hrenV
      hrenS hinj hrenH hrenB N0 hstab n G.S hrenS x hx
    rw [hp] at key
    exact BL_iff_of_cofinal_E10 G _ G.S x G.S x (fun n => ⟨_, (key n).2⟩) (fun n => ⟨_, (key n).1⟩)

open Classical in
/-- the TRUE Boolean closure of the unary rule graph: `X` is reachable from `Y` by unary rules -/
noncomputable def UWB (G : CFG σ BoolW) (Y X : σ) : BoolW := if ∃ k, UW G k Y X = 1 then 1 else 0

theorem UW_le_of_le_E10 (G : CFG σ BoolW) {k m : Nat} (h : k ≤ m) (Y X : σ) : UW G k Y X ≼ UW G m Y X := by
  induction h with
  | refl => exact le_rfl' _
  | step _ ih => exact le_trans' ih (UW_mono G _ Y X)

theorem UWB_stable_E10 (G : CFG σ BoolW) :
    ∃ K0, ∀ k, K0 ≤ k → ∀ Y ∈ nonterminals G, ∀ X ∈ nonterminals G, UW G k Y X = UWB G Y X := by
  have inner : ∀ Y, ∃ N, ∀ X ∈ nonterminals G, ∀ n, N ≤ n → UW G n Y X = UWB G Y X := fun Y =>
    exists_uniform (nonterminals G) (fun X n => UW G n Y X = UWB G Y X) (fun X _ =>
      bool_stable_E10 (fun n => UW G n Y X) (fun n m h => UW_le_of_le_E10 G h Y X))
  obtain ⟨K0, h⟩ := exists_uniform (nonterminals G)
    (fun Y n => ∀ X ∈ nonterminals G, UW G n Y X = UWB G Y X) (fun Y _ => by
      obtain ⟨N, hN⟩ := inner Y
      exact ⟨N, fun n hn X hX => hN X hX n hn⟩)
  exact ⟨K0, fun k hk Y hY X hX => h Y hY k hk X hX⟩

theorem UWB_eq_zero_E10 (G : CFG σ BoolW) (Y X : σ) (h : ∀ k, UW G k Y X = 0) : UWB G Y X = 0 := by
  classical
  unfold UWB
  rw [if_neg]
  rintro ⟨k, hk⟩
  rw [h k] at hk
  exact bool_zero_ne_one hk

/-- **`unaryremove` with the TRUE Boolean closure** preserves the Boolean language at every symbol -/
theorem unaryRemoveB_BL_E10 (G : CFG σ BoolW) (Y : σ) (x : List σ) :
    BoolLang (unaryRemove (UWB G) G) Y x ↔ BoolLang G Y x := by
  obtain ⟨K0, hW⟩ := UWB_stable_E10 G
  have key := fun n => unaryRemove_preserves (UWB G) G K0 hW n Y x
  exact BL_iff_of_cofinal_E10 G _ Y x Y x (fun n => ⟨_, (key n).2⟩) (fun n => ⟨_, (key n).1⟩)

theorem trim_BL_E10 (G : CFG σ BoolW) (x : List σ) : BoolLang (trim G) G.S x ↔ BoolLang G G.S x :=
  BL_congr_E10 G (trim G) G.S x G.S x (fun n => trim_preserves G n x)

theorem separateStart_BL_E10 (G : CFG σ BoolW) (fresh : σ) (hf : Fresh G fresh) (hS : G.S ∉ G.V)
    (x : List σ) : BoolLang (separateStart G fresh) (separateStart G fresh).S x ↔ BoolLang G G.S x := by
  apply BL_iff_of_cofinal_E10
  · intro n
    refine ⟨n, ?_⟩
    have h := separateStart_preserves G fresh hf hS n x
    rw [← h]
    split
    · exact WN_le_succ _ n _ x
    · exact le_rfl' _
  · intro n
    exact ⟨_, le_of_eq' (separateStart_preserves G fresh hf hS n x).symm⟩

theorem separateTerminals_binarize_BL_E10 (gen : Nat → σ) (G : CFG σ BoolW) (ctr : Nat)
    (hgenV : ∀ k, ctr < k → gen k ∉ G.V)
    (hinj : ∀ i j, ctr < i → ctr < j → gen i = gen j → i = j)
    (hhead : ∀ r ∈ G.rules, ∀ k, ctr < k → r.head ≠ gen k)
    (hbody : ∀ r ∈ G.rules, ∀ s ∈ r.body, ∀ k, ctr < k → s ≠ gen k)
    (X : σ) (hX : ∀ k, ctr < k → X ≠ gen k) (x : List σ) :
    BoolLang (binarize gen (separateTerminals gen G ctr).1 (separateTerminals gen G ctr).2).1 X x ↔ BoolLang G X x :=
  BL_iff_of_cofinal_E10 G _ X x X x
    (fun n => ⟨n, (separateTerminals_binarize_preserves gen G ctr hgenV hinj hhead hbody n X hX x).2⟩)
    (fun n => ⟨_, (separateTerminals_binarize_preserves gen G ctr hgenV hinj hhead hbody n X hX x).1⟩)

theorem binarize_BL_E10 (gen : Nat → σ) (G : CFG σ BoolW) (ctr : Nat)
    (hgenV : ∀ k, ctr < k → gen k ∉ G.V)
    (hinj : ∀ i j, ctr < i → ctr < j → gen i = gen j → i = j)
    (hhead : ∀ r ∈ G.rules, ∀ k, ctr < k → r.head ≠ gen k)
    (hbody : ∀ r ∈ G.rules, ∀ s ∈ r.body, ∀ k, ctr < k → s ≠ gen k)
    (X : σ) (hX : ∀ k, ctr < k → X ≠ gen k) (x : List σ) :
    BoolLang (binarize gen G ctr).1 X x ↔ BoolLang G X x :=
  BL_iff_of_cofinal_E10 G _ X x X x
    (fun n => ⟨n, binarize_ge gen G ctr hgenV hinj hhead hbody n X hX x⟩)
    (fun n => ⟨_, (binarize_preserves gen G ctr hgenV hinj hhead hbody n X hX x).1⟩)

theorem rename_BL_E10 {τ : Type} [DecidableEq τ] (f : σ → τ) (hf : Function.Injective f)
    (G : CFG σ BoolW) (X : σ) (x : List σ) : BoolLang (renameCFG f G) (f X) (x.map f) ↔ BoolLang G X x :=
  BL_congr_E10 G (renameCFG f G) X x (f X) (x.map f) (fun n => WN_rename f hf G n X x)

end BoolStagesE10

/-! ## A.2 `cnf()` over the Boolean semiring -/
section CnfBoolE10
variable {σ : Type} [DecidableEq σ]

variable (gen : Nat → σ) (fresh : σ) (rename : σ → σ) (G : CFG σ BoolW) (ctr : Nat)

/-- `separate_terminals → binarize → separate_start` preserves the Boolean language -/
theorem cnfPrep_BL_E10 (H : CnfNamesK gen fresh rename G ctr) (x : List σ) :
    BoolLang (cnfPrep gen fresh G ctr) (cnfPrep gen fresh G ctr).S x ↔ BoolLang G G.S x := by
  have hB := binPrep_inv (fun s => s ≠ fresh) (fun s => s ≠ fresh) gen G ctr H.genNT H.genFresh H.genFresh
    (fun r hr => ⟨H.freshHead r hr, fun s hs e => H.freshBody (mem_bodySyms.mpr ⟨r, hr, e ▸ hs⟩)⟩)
  have hfresh : Fresh (binarize gen (separateTerminals gen G ctr).1
      (separateTerminals gen G ctr).2).1 fresh :=
    ⟨H.freshNT, H.freshStart, fun r hr => ⟨(hB r hr).1, fun hm => (hB r hr).2 fresh hm rfl⟩⟩
  have h1 := separateStart_BL_E10 _ fresh hfresh (show G.S ∉ G.V from H.startNT) x
  have h2 := separateTerminals_binarize_BL_E10 gen G ctr (fun k _ => H.genNT k) H.genInj H.genHead
    H.genBody G.S H.genStart x
  exact h1.trans h2

/-- `cnf()` over the Boolean semiring: the model `cnfModel` of `CFG.cnf` with the TRUE Boolean null weights and the
TRUE Boolean closure of the unary rules (the values the fixpoint iterations of the library reach exactly in the
Boolean semiring) -/
noncomputable def cnfB : CFG σ BoolW :=
  cnfModel gen fresh rename (nullB (cnfPrep gen fresh G ctr))
    (UWB (trim (pushNull (nullB (cnfPrep gen fresh G ctr)) rename (cnfPrep gen fresh G ctr)))) G ctr

theorem cnfB_V_E10 : (cnfB gen fresh rename G ctr).V = G.V := cnfModel_V _ _ _ _ _ G ctr

theorem cnfB_S_E10 : (cnfB gen fresh rename G ctr).S = (cnfPrep gen fresh G ctr).S :=
  cnfModel_S _ _ _ _ _ G ctr

theorem cnfB_hren_E10 (H : CnfNamesK gen fresh rename G ctr) :
    ∀ y, rename y ∉ G.V ∧ rename y ≠ (cnfPrep gen fresh G ctr).S := by
  intro y
  refine ⟨H.renNT y, ?_⟩
  rcases cnfPrep_S_cases gen fresh G ctr with h | h <;> rw [h]
  · exact H.renFresh y
  · exact H.renStart y

/-- `cnf()` over the Boolean semiring produces a grammar in Chomsky normal form -/
theorem cnfB_inCNF_E10 (H : CnfNamesK gen fresh rename G ctr) : InCNF (cnfB gen fresh rename G ctr) := by
  have hV := cnfPrep_V gen fresh G ctr
  have hren := cnfB_hren_E10 gen fresh rename G ctr H
  apply inCNF_of_inCNFb_E1
  refine cnf_shape gen fresh rename _ _ G ctr H.startNT H.headsNT H.genNT H.genFresh H.freshNT
    H.freshStart H.freshBody hren ?_
  intro Y hY
  obtain ⟨h3S, h3⟩ := cnfPrep_shape gen fresh G ctr H.startNT H.headsNT H.genNT H.genFresh H.freshNT
    H.freshStart H.freshBody
  have h4 := pushNull_shape (nullB (cnfPrep gen fresh G ctr)) rename (cnfPrep gen fresh G ctr)
    (hV ▸ h3S) (hV ▸ h3) (hV ▸ hren)
  apply UWB_eq_zero_E10
  intro k
  refine UW_zero_of_off_rhs _ _ ?_ k Y hY
  intro r hr
  exact (h4 r ((trim_rules_sub _).subset hr)).1.2.1

/-- the stage `_push_null_weights` inside `cnf()`, Boolean semiring -/
theorem cnfB_stage4_E10 (H : CnfNamesK gen fresh rename G ctr) (x : List σ) :
    BoolLang (pushNull (nullB (cnfPrep gen fresh G ctr)) rename (cnfPrep gen fresh G ctr))
        (cnfPrep gen fresh G ctr).S x ↔ BoolLang G G.S x := by
  have hV := cnfPrep_V gen fresh G ctr
  have hren := cnfB_hren_E10 gen fresh rename G ctr H
  have hP := cnfPrep_inv (fun s => ∀ y, rename y ≠ s) (fun s => ∀ y, rename y ≠ s) gen fresh G ctr
    H.genNT (fun i y => H.renGen y i) (fun i y => H.renGen y i)
    (fun r hr => ⟨fun y => H.renHead y r hr,
      fun s hs y e => H.renBody y (mem_bodySyms.mpr ⟨r, hr, e ▸ hs⟩)⟩)
    H.renFresh H.renStart
  have hPSV : (cnfPrep gen fresh G ctr).S ∉ (cnfPrep gen fresh G ctr).V := by
    rw [hV]
    rcases cnfPrep_S_cases gen fresh G ctr with h | h <;> rw [h]
    · exact H.freshNT
    · exact H.startNT
  have hoff := cnfPrep_start_off gen fresh G ctr H.genNT H.genFresh H.freshStart H.freshBody
  have e4 := pushNullB_BL_start_E10 rename (cnfPrep gen fresh G ctr) hPSV hoff
    (fun y => hV ▸ H.renNT y) (fun y => (hren y).2) H.renInj
    (fun y r hr => (hP r hr).1 y)
    (fun y hm => by
      obtain ⟨r, hr, hm⟩ := mem_bodySyms.mp hm
      exact (hP r hr).2 _ hm y rfl) x
  exact e4.trans (cnfPrep_BL_E10 gen fresh rename G ctr H x)

/-- the last three stages of `cnf()` (`trim → unaryremove → trim`), for any grammar `Q` -/
theorem cnfB_stage567_E10 (Q : CFG σ BoolW) (x : List σ) :
    BoolLang (trim (unaryRemove (UWB (trim Q)) (trim Q))) Q.S x ↔ BoolLang Q Q.S x := by
  have e7 : BoolLang (trim (unaryRemove (UWB (trim Q)) (trim Q))) Q.S x
      ↔ BoolLang (unaryRemove (UWB (trim Q)) (trim Q)) Q.S x :=
    trim_BL_E10 (unaryRemove (UWB (trim Q)) (trim Q)) x
  have e6 := unaryRemoveB_BL_E10 (trim Q) Q.S x
  exact e7.trans (e6.trans (trim_BL_E10 Q x))

/-- **`cnf()` over the Boolean semiring is correct**: the result generates the same strings (the empty one
included), for every Boolean grammar, given fresh names -/
theorem cnfB_BL_E10 (H : CnfNamesK gen fresh rename G ctr) (x : List σ) :
    BoolLang (cnfB gen fresh rename G ctr) (cnfB gen fresh rename G ctr).S x ↔ BoolLang G G.S x := by
  have h := cnfB_stage567_E10
    (pushNull (nullB (cnfPrep gen fresh G ctr)) rename (cnfPrep gen fresh G ctr)) x
  rw [pushNull_S_E10] at h
  rw [cnfB_S_E10]
  unfold cnfB cnfModel
  exact h.trans (cnfB_stage4_E10 gen fresh rename G ctr H x)

end CnfBoolE10

/-! ## A.3 `Chart.trim()` and the keys; the CKY back end of `BoolCFGLM` -/
section MaskE10
variable {κ K : Type} [DecidableEq κ] [DecidableEq K] [CommSemiring K]

/-- `Chart.trim()`: `{k: v for k, v in self.items() if v != zero}` -/
def chartTrim (q : PyChart κ K) : PyChart κ K := q.filter (fun e => e.2 ≠ 0)

/-- `BoolCFGLM.p_next` returns `Float.chart({w: 1 for w in p})` with `p = next_token_weights(…).trim()`: the
keys of the trimmed chart, each with the value `1` -/
def maskOf (q : PyChart κ K) : List κ := (chartTrim q).map (·.1)

theorem mem_maskOf_E10 (q : PyChart κ K) (hq : NodupKeys q) (k : κ) : k ∈ maskOf q ↔ q.get k ≠ 0 := by
  unfold maskOf chartTrim
  simp only [List.mem_map, List.mem_filter, decide_eq_true_eq]
  constructor
  · rintro ⟨e, ⟨he, hne⟩, rfl⟩
    rw [get_of_mem q hq e he]
    exact hne
  · intro h
    by_cases hk : k ∈ q.map (·.1)
    · obtain ⟨e, he, rfl⟩ := List.mem_map.mp hk
      refine ⟨e, ⟨he, ?_⟩, rfl⟩
      rw [← get_of_mem q hq e he]
      exact h
    · exact absurd (get_eq_zero_of_not_key q k hk) h

end MaskE10

section CkyBoolE10
open ComposeAux
variable {σ : Type} [DecidableEq σ]

theorem bool_ne_zero_E10 (a : BoolW) : a ≠ 0 ↔ a = 1 := by
  rcases bool_cases a with rfl | rfl
  · simp [bool_zero_ne_one]
  · simp [bool_zero_ne_one.symm]

/-- `BoolLang` at levels past a bound (the levels are increasing) -/
theorem BL_iff_level_E10 (G : CFG σ BoolW) (X : σ) (x : List σ) (N : Nat) :
    BoolLang G X x ↔ ∃ n, N ≤ n ∧ WN G n X x = 1 := by
  constructor
  · rintro ⟨n, hn⟩
    exact ⟨max n N, Nat.le_max_right _ _, WN_bool_mono G (Nat.le_max_left _ _) X x hn⟩
  · rintro ⟨n, _, hn⟩
    exact ⟨n, hn⟩

/-- **the CKY back end on a Boolean grammar in CNF**: the token `a` is a key of the trimmed chart
`IncrementalCKY(H).p_next(p).trim()` iff `a` is a terminal and `H` generates `p ++ [a]` -/
theorem incCky_mask_E10 (H : CFG σ BoolW) (hcnf : InCNF H) (hV : H.V.Nodup) (p : List σ) (a : σ) :
    a ∈ maskOf (incCkyPNext H p) ↔ a ∈ H.V ∧ BoolLang H H.S (p ++ [a]) := by
  rw [mem_maskOf_E10 _ (incCkyPNext_nodupKeys H p), bool_ne_zero_E10]
  by_cases ha : a ∈ H.V
  · rw [incCky_pnext_is_WN H hcnf hV p a ha (p.length + 2) (Nat.le_refl _)]
    constructor
    · intro h; exact ⟨ha, _, h⟩
    · rintro ⟨_, h⟩
      obtain ⟨n, hn, h1⟩ := (BL_iff_level_E10 H H.S _ (p.length + 2)).mp h
      rw [cnf_WN_stable H hcnf (p ++ [a]) (p.length + 2) n (by simp) (by simp; omega)]
      exact h1
  · have h0 : (incCkyPNext H p).get a = 0 := incCkyPNext_notin H _ p a ha
    rw [h0]
    constructor
    · intro h; exact absurd h bool_zero_ne_one
    · rintro ⟨h, _⟩; exact absurd h ha

/-- `CKYLM.pfg = cfg.cnf.prefix_grammar.cnf` over the Boolean semiring -/
noncomputable def ckyPfgB (gen1 : Nat → σ) (fresh1 : σ) (ren1 : σ → σ) (ctr1 : Nat)
    (gen2 : Nat → CSym Nat σ) (fresh2 : CSym Nat σ) (ren2 : CSym Nat σ → CSym Nat σ) (ctr2 : Nat)
    (H : CFG σ BoolW) : CFG (CSym Nat σ) BoolW :=
  cnfB gen2 fresh2 ren2
    (compose (cnfB gen1 fresh1 ren1 H ctr1) (prefixT (cnfB gen1 fresh1 ren1 H ctr1).V : FST Nat σ BoolW)) ctr2

variable (gen1 : Nat → σ) (fresh1 : σ) (ren1 : σ → σ) (ctr1 : Nat)
  (gen2 : Nat → CSym Nat σ) (fresh2 : CSym Nat σ) (ren2 : CSym Nat σ → CSym Nat σ) (ctr2 : Nat)
  (H : CFG σ BoolW)

theorem ckyPfgB_V_E10 :
    (ckyPfgB gen1 fresh1 ren1 ctr1 gen2 fresh2 ren2 ctr2 H).V = composeV (prefixT H.V : FST Nat σ BoolW) := by
  unfold ckyPfgB
  rw [cnfB_V_E10, cnfB_V_E10]
  rfl

theorem cnfB_composeOK_E10 (Hn1 : CnfNamesK gen1 fresh1 ren1 H ctr1) :
    ComposeOK (cnfB gen1 fresh1 ren1 H ctr1) (prefixT (cnfB gen1 fresh1 ren1 H ctr1).V : FST Nat σ BoolW) := by
  have hI := cnfB_inCNF_E10 gen1 fresh1 ren1 H ctr1 Hn1
  apply composeOK_prefixT
  · intro r hr; exact (hI r hr).1
  · rw [cnfB_V_E10, cnfB_S_E10]
    rcases cnfPrep_S_cases gen1 fresh1 H ctr1 with h | h <;> rw [h]
    · exact Hn1.freshNT
    · exact Hn1.startNT

/-- the next-token mask is not changed by `cnf()` -/
theorem nextSet_cnfB_E10 (Hn1 : CnfNamesK gen1 fresh1 ren1 H ctr1) (c : List σ) (t : σ) :
    t ∈ nextSet (boolSupport (cnfB gen1 fresh1 ren1 H ctr1)) c ↔ t ∈ nextSet (boolSupport H) c := by
  have hS1 : (cnfB gen1 fresh1 ren1 H ctr1).S ∉ (cnfB gen1 fresh1 ren1 H ctr1).V :=
    (cnfB_composeOK_E10 gen1 fresh1 ren1 ctr1 H Hn1).start_nt
  rw [mask_via_WN _ hS1, mask_via_WN H Hn1.startNT, cnfB_V_E10]
  constructor
  · rintro ⟨ht, y, hy⟩
    exact ⟨ht, y, (cnfB_BL_E10 gen1 fresh1 ren1 H ctr1 Hn1 _).mp hy⟩
  · rintro ⟨ht, y, hy⟩
    exact ⟨ht, y, (cnfB_BL_E10 gen1 fresh1 ren1 H ctr1 Hn1 _).mpr hy⟩

/-- **C01, CKY back end, any Boolean grammar `H`**: the support of
`IncrementalCKY(H.cnf.prefix_grammar.cnf).p_next(c).trim()` is the next-token mask of `H` -/
theorem cky_bool_mask_E10 (Hn1 : CnfNamesK gen1 fresh1 ren1 H ctr1)
    (Hn2 : CnfNamesK gen2 fresh2 ren2
      (compose (cnfB gen1 fresh1 ren1 H ctr1) (prefixT (cnfB gen1 fresh1 ren1 H ctr1).V : FST Nat σ BoolW))
      ctr2)
    (hV : H.V.Nodup) (c : List σ) (t : σ) :
    CSym.term t ∈ maskOf (incCkyPNext (ckyPfgB gen1 fresh1 ren1 ctr1 gen2 fresh2 ren2 ctr2 H) (tm c))
      ↔ t ∈ nextSet (boolSupport H) c := by
  have hPV := ckyPfgB_V_E10 gen1 fresh1 ren1 ctr1 gen2 fresh2 ren2 ctr2 H
  have hcnf2 : InCNF (ckyPfgB gen1 fresh1 ren1 ctr1 gen2 fresh2 ren2 ctr2 H) := cnfB_inCNF_E10 _ _ _ _ _ Hn2
  rw [incCky_mask_E10 _ hcnf2 (by rw [hPV]; exact composeV_prefixT_nodup_E10 H.V), hPV,
    mem_composeV_prefixT_E10, tm_append_singleton_E10]
  unfold ckyPfgB
  have hVeq : (cnfB gen1 fresh1 ren1 H ctr1).V = H.V := cnfB_V_E10 gen1 fresh1 ren1 H ctr1
  have hV1 : (cnfB gen1 fresh1 ren1 H ctr1).V.Nodup := by rw [hVeq]; exact hV
  have hm := mask_via_prefix_grammar _ (cnfB_composeOK_E10 gen1 fresh1 ren1 ctr1 H Hn1) hV1 c t
  rw [← nextSet_cnfB_E10 gen1 fresh1 ren1 ctr1 H Hn1 c t, hm]
  have e := cnfB_BL_E10 gen2 fresh2 ren2 _ ctr2 Hn2 (tm (c ++ [t]))
  constructor
  · rintro ⟨ht, h⟩
    obtain ⟨b, hb, hbt⟩ := List.mem_map.mp ht
    refine ⟨?_, e.mp h⟩
    rw [hVeq]
    exact (term_injective_E10 hbt) ▸ hb
  · rintro ⟨ht, h⟩
    refine ⟨List.mem_map.mpr ⟨t, ?_, rfl⟩, e.mpr h⟩
    rw [← hVeq]
    exact ht

/-- the grammar `IncrementalCKY` stores: `pfg.renumber()` -/
noncomputable def ckyPfgRenB (f : CSym Nat σ → CSym Nat σ) : CFG (CSym Nat σ) BoolW :=
  renameNT f (ckyPfgB gen1 fresh1 ren1 ctr1 gen2 fresh2 ren2 ctr2 H)

theorem ckyPfgB_shape_E10
    (Hn2 : CnfNamesK gen2 fresh2 ren2
      (compose (cnfB gen1 fresh1 ren1 H ctr1) (prefixT (cnfB gen1 fresh1 ren1 H ctr1).V : FST Nat σ BoolW))
      ctr2) :
    InCNF (ckyPfgB gen1 fresh1 ren1 ctr1 gen2 fresh2 ren2 ctr2 H)
    ∧ (ckyPfgB gen1 fresh1 ren1 ctr1 gen2 fresh2 ren2 ctr2 H).S ∉
        (ckyPfgB gen1 fresh1 ren1 ctr1 gen2 fresh2 ren2 ctr2 H).V
    ∧ ∀ r ∈ (ckyPfgB gen1 fresh1 ren1 ctr1 gen2 fresh2 ren2 ctr2 H).rules, r.w ≠ 0 := by
  refine ⟨cnfB_inCNF_E10 gen2 fresh2 ren2 _ ctr2 Hn2, ?_, ?_⟩
  · unfold ckyPfgB
    rw [cnfB_V_E10, cnfB_S_E10]
    rcases cnfPrep_S_cases gen2 fresh2
      (compose (cnfB gen1 fresh1 ren1 H ctr1) (prefixT (cnfB gen1 fresh1 ren1 H ctr1).V : FST Nat σ BoolW))
      ctr2 with h | h <;> rw [h]
    · exact Hn2.freshNT
    · exact Hn2.startNT
  · intro r hr
    unfold ckyPfgB cnfB cnfModel at hr
    exact (mem_trimTo.mp hr).2.2.1

/-- **C01, CKY back end as `IncrementalCKY` runs it** (`renumber()` included), any Boolean grammar `H` -/
theorem cky_bool_mask_ren_E10 (Hn1 : CnfNamesK gen1 fresh1 ren1 H ctr1)
    (Hn2 : CnfNamesK gen2 fresh2 ren2
      (compose (cnfB gen1 fresh1 ren1 H ctr1) (prefixT (cnfB gen1 fresh1 ren1 H ctr1).V : FST Nat σ BoolW))
      ctr2)
    (hV : H.V.Nodup) (f : CSym Nat σ → CSym Nat σ)
    (hfV : ∀ y, y ∉ composeV (prefixT H.V : FST Nat σ BoolW) → f y ∉ composeV (prefixT H.V : FST Nat σ BoolW))
    (hfinj : ∀ y z, y ∉ composeV (prefixT H.V : FST Nat σ BoolW) →
      z ∉ composeV (prefixT H.V : FST Nat σ BoolW) → f y = f z → y = z)
    (c : List σ) (hc : ∀ b ∈ c, b ∈ H.V) (t : σ) :
    CSym.term t ∈ maskOf (incCkyPNext (ckyPfgRenB gen1 fresh1 ren1 ctr1 gen2 fresh2 ren2 ctr2 H f) (tm c))
      ↔ t ∈ nextSet (boolSupport H) c := by
  rw [← cky_bool_mask_E10 gen1 fresh1 ren1 ctr1 gen2 fresh2 ren2 ctr2 H Hn1 Hn2 hV c t,
    mem_maskOf_E10 _ (incCkyPNext_nodupKeys _ _), mem_maskOf_E10 _ (incCkyPNext_nodupKeys _ _)]
  have hPV := ckyPfgB_V_E10 gen1 fresh1 ren1 ctr1 gen2 fresh2 ren2 ctr2 H
  obtain ⟨hcnf, hS, hnz⟩ := ckyPfgB_shape_E10 gen1 fresh1 ren1 ctr1 gen2 fresh2 ren2 ctr2 H Hn2
  unfold ckyPfgRenB
  rw [incCkyPNext_renumber_E10 _ hcnf (by rw [hPV]; exact composeV_prefixT_nodup_E10 H.V) hS hnz f
    (by rw [hPV]; exact hfV) (by rw [hPV]; exact hfinj) (tm c) ?_ (CSym.term t)]
  intro b hb
  rw [hPV, mem_composeV_prefixT_E10]
  exact mem_tm_E10 c H.V hc b hb

end CkyBoolE10

/-! ## A.4 the preprocessing of `Earley.__init__` over the Boolean semiring -/
section EarleyPrepBoolE10
open UCycleAux EarleyAux
variable {σ : Type} [DecidableEq σ]

/-- `binarize → separate_start` preserves the Boolean language -/
theorem nullPrep_BL_E10 (gen : Nat → σ) (fresh : σ) (rename : σ → σ) (G : CFG σ BoolW) (ctr : Nat)
    (Hn : CnfNamesK gen fresh rename G ctr) (x : List σ) :
    BoolLang (nullPrep gen fresh G ctr) (nullPrep gen fresh G ctr).S x ↔ BoolLang G G.S x := by
  have hB := binarize_inv_E1 (fun s => s ≠ fresh) (fun s => s ≠ fresh) gen G ctr Hn.genFresh Hn.genFresh
    (fun r hr => ⟨Hn.freshHead r hr, fun s hs e => Hn.freshBody (mem_bodySyms.mpr ⟨r, hr, e ▸ hs⟩)⟩)
  have hfresh : Fresh (binarize gen G ctr).1 fresh :=
    ⟨Hn.freshNT, Hn.freshStart, fun r hr => ⟨(hB r hr).1, fun hm => (hB r hr).2 fresh hm rfl⟩⟩
  have h1 := separateStart_BL_E10 _ fresh hfresh (show G.S ∉ G.V from Hn.startNT) x
  have h2 := binarize_BL_E10 gen G ctr (fun k _ => Hn.genNT k) Hn.genInj Hn.genHead Hn.genBody G.S
    Hn.genStart x
  exact h1.trans h2

/-- `nullaryremove(binarize=True)` (which trims) over the Boolean semiring -/
noncomputable def nullaryRemoveB (gen : Nat → σ) (fresh : σ) (rename : σ → σ) (G : CFG σ BoolW)
    (ctr : Nat) : CFG σ BoolW :=
  trim (pushNull (nullB (nullPrep gen fresh G ctr)) rename (nullPrep gen fresh G ctr))

theorem nullaryRemoveB_V_E10 (gen : Nat → σ) (fresh : σ) (rename : σ → σ) (G : CFG σ BoolW) (ctr : Nat) :
    (nullaryRemoveB gen fresh rename G ctr).V = G.V := nullPrep_V_E1 gen fresh G ctr

theorem nullaryRemoveB_S_E10 (gen : Nat → σ) (fresh : σ) (rename : σ → σ) (G : CFG σ BoolW) (ctr : Nat) :
    (nullaryRemoveB gen fresh rename G ctr).S = (nullPrep gen fresh G ctr).S := by
  unfold nullaryRemoveB
  rw [trim_S, pushNull_S_E10]

/-- `nullaryremove` over the Boolean semiring: the shape the Earley preprocessing relies on, same language -/
theorem nullaryRemoveB_correct_E10 (gen : Nat → σ) (fresh : σ) (rename : σ → σ) (G : CFG σ BoolW) (ctr : Nat)
    (Hn : CnfNamesK gen fresh rename G ctr) :
    NullFree (nullaryRemoveB gen fresh rename G ctr) ∧
      ∀ x, BoolLang (nullaryRemoveB gen fresh rename G ctr) (nullPrep gen fresh G ctr).S x ↔ BoolLang G G.S x := by
  have hV := nullPrep_V_E1 gen fresh G ctr
  have hP := nullPrep_inv_E1 (fun s => s ∉ G.V ∧ ∀ y, rename y ≠ s) (fun s => ∀ y, rename y ≠ s)
    gen fresh G ctr (fun i => ⟨Hn.genNT i, fun y => Hn.renGen y i⟩) (fun i y => Hn.renGen y i)
    (fun r hr => ⟨⟨Hn.headsNT r hr, fun y => Hn.renHead y r hr⟩,
      fun s hs y e => Hn.renBody y (mem_bodySyms.mpr ⟨r, hr, e ▸ hs⟩)⟩)
    ⟨Hn.freshNT, Hn.renFresh⟩ Hn.renStart
  have hPS : ∀ y, rename y ≠ (nullPrep gen fresh G ctr).S := by
    intro y
    rcases nullPrep_S_cases_E1 gen fresh G ctr with h | h <;> rw [h]
    · exact Hn.renFresh y
    · exact Hn.renStart y
  have hPSV : (nullPrep gen fresh G ctr).S ∉ (nullPrep gen fresh G ctr).V := by
    rw [hV]
    rcases nullPrep_S_cases_E1 gen fresh G ctr with h | h <;> rw [h]
    · exact Hn.freshNT
    · exact Hn.startNT
  have hoff := nullPrep_start_off_E1 gen fresh G ctr Hn.genFresh Hn.freshStart Hn.freshBody
  constructor
  · apply trim_nullFree_E1
    exact pushNull_nullFree_E1 _ rename (nullPrep gen fresh G ctr) hPSV
      (fun r hr => hV ▸ (hP r hr).1.1) hoff (fun y => hV ▸ Hn.renNT y) hPS
  · intro x
    have e5 : BoolLang (nullaryRemoveB gen fresh rename G ctr) (nullPrep gen fresh G ctr).S x ↔
        BoolLang (pushNull (nullB (nullPrep gen fresh G ctr)) rename (nullPrep gen fresh G ctr))
          (nullPrep gen fresh G ctr).S x := by
      have := trim_BL_E10 (pushNull (nullB (nullPrep gen fresh G ctr)) rename (nullPrep gen fresh G ctr)) x
      rw [pushNull_S_E10] at this
      exact this
    have e4 := pushNullB_BL_start_E10 rename (nullPrep gen fresh G ctr) hPSV hoff
      (fun y => hV ▸ Hn.renNT y) hPS Hn.renInj
      (fun y r hr => (hP r hr).1.2 y)
      (fun y hm => by
        obtain ⟨r, hr, hm⟩ := mem_bodySyms.mp hm
        exact (hP r hr).2 _ hm y rfl) x
    exact e5.trans (e4.trans (nullPrep_BL_E10 gen fresh rename G ctr Hn x))

open Classical in
/-- the TRUE Boolean closure of the unary rules inside the blocks -/
noncomputable def ucUWB (bl : List (List σ)) (G : CFG σ BoolW) (X Z : σ) : BoolW :=
  if ∃ k, ucUW bl G k X Z = 1 then 1 else 0

/-- the closure matrices of `G.Blocks` hold the TRUE Boolean closures (what Lehmann's algorithm with
`star = True` computes) -/
def TrueClosuresB (A : σ → σ → BoolW) (blocks : List (Block σ BoolW)) (nodes : List σ) (H : CFG σ BoolW) :
    Prop :=
  ∀ X ∈ nodes, ∀ Z ∈ nodes, ucW A blocks X Z = ucUWB (blocks.map (·.nodes)) H X Z

theorem ucUW_le_of_le_E10 (bl : List (List σ)) (G : CFG σ BoolW) {k m : Nat} (h : k ≤ m) (Y Z : σ) :
    ucUW bl G k Y Z ≼ ucUW bl G m Y Z := by
  induction h with
  | refl => exact le_rfl' _
  | step _ ih => exact le_trans' ih (UWp_mono _ _ _ Y Z)

theorem ucUWB_stable_E10 (bl : List (List σ)) (G : CFG σ BoolW) (nodes : List σ) :
    ∃ K0, ∀ k, K0 ≤ k → ∀ X ∈ nodes, ∀ Z ∈ nodes, ucUW bl G k X Z = ucUWB bl G X Z := by
  have inner : ∀ X, ∃ N, ∀ Z ∈ nodes, ∀ n, N ≤ n → ucUW bl G n X Z = ucUWB bl G X Z := fun X =>
    exists_uniform nodes (fun Z n => ucUW bl G n X Z = ucUWB bl G X Z) (fun Z _ =>
      bool_stable_E10 (fun n => ucUW bl G n X Z) (fun n m h => ucUW_le_of_le_E10 bl G h X Z))
  obtain ⟨K0, h⟩ := exists_uniform nodes
    (fun X n => ∀ Z ∈ nodes, ucUW bl G n X Z = ucUWB bl G X Z) (fun X _ => by
      obtain ⟨N, hN⟩ := inner X
      exact ⟨N, fun n hn Z hZ => hN Z hZ n hn⟩)
  exact ⟨K0, fun k hk X hX Z hZ => h X hX k hk Z hZ⟩

/-- `unarycycleremove().trim()` with the TRUE Boolean block closures preserves the Boolean language -/
theorem earleyCoreB_BL_E10 (A : σ → σ → BoolW) (blocks : List (Block σ BoolW)) (bot : σ → σ) (nodes : List σ)
    (H : CFG σ BoolW) (hU : UcShape A blocks bot nodes H) (hW : TrueClosuresB A blocks nodes H)
    (x : List σ) : BoolLang (trim (unaryCycleRemove A blocks bot H)) H.S x ↔ BoolLang H H.S x := by
  have hS := hU.semHyp
  have e1 : BoolLang (trim (unaryCycleRemove A blocks bot H)) H.S x ↔ BoolLang (unaryCycleRemove A blocks bot H) H.S x := by
    have := trim_BL_E10 (unaryCycleRemove A blocks bot H) x
    rw [unaryCycleRemove_S_E10] at this
    exact this
  obtain ⟨K0, hK⟩ := ucUWB_stable_E10 (blocks.map (·.nodes)) H nodes
  have key := fun n => ucycle_preserves A blocks bot H K0 hS.nodup hS.clo hS.inj hS.fresh hS.heads hS.term
    (fun r hr s hs u hu => hU.body r hr s hs u ((hU.scc.cover u).mpr hu))
    (fun k hk X hX Z hZ => by
      rw [hK k hk X ((hU.scc.cover X).mpr hX) Z ((hU.scc.cover Z).mpr hZ)]
      exact (hW X ((hU.scc.cover X).mpr hX) Z ((hU.scc.cover Z).mpr hZ)).symm)
    n H.S ((hU.scc.cover _).mp hU.start) x
  exact e1.trans (BL_iff_of_cofinal_E10 H _ H.S x H.S x (fun n => ⟨_, (key n).2⟩) (fun n => ⟨_, (key n).1⟩))

/-- the grammar `Earley.__init__` builds over the Boolean semiring, `renumber()` included -/
noncomputable def earleyGrammarRenB (gen : Nat → σ) (fresh : σ) (rename : σ → σ) (A : σ → σ → BoolW)
    (blocks : List (Block σ BoolW)) (bot : σ → σ) (f : σ → σ) (G : CFG σ BoolW) (ctr : Nat) : CFG σ BoolW :=
  renameNT f (trim (unaryCycleRemove A blocks bot (nullaryRemoveB gen fresh rename G ctr)))

/-- the Boolean Earley grammar: shape, a topological numbering, terminal alphabet, language -/
theorem earleyGrammarRenB_spec_E10 (gen : Nat → σ) (fresh : σ) (rename : σ → σ) (A : σ → σ → BoolW)
    (blocks : List (Block σ BoolW)) (bot : σ → σ) (nodes : List σ) (f : σ → σ) (G : CFG σ BoolW)
    (ctr : Nat) (Hn : CnfNamesK gen fresh rename G ctr)
    (hU : UcShape A blocks bot nodes (nullaryRemoveB gen fresh rename G ctr))
    (hW : TrueClosuresB A blocks nodes (nullaryRemoveB gen fresh rename G ctr))
    (hfV : ∀ y, y ∉ G.V → f y ∉ G.V) (hfinj : ∀ y z, y ∉ G.V → z ∉ G.V → f y = f z → y = z) :
    (∃ order0, Acyc (earleyGrammarRenB gen fresh rename A blocks bot f G ctr) order0) ∧
    (earleyGrammarRenB gen fresh rename A blocks bot f G ctr).V = G.V ∧
    ∀ x, (∀ a ∈ x, a ∈ G.V) →
      (BoolLang (earleyGrammarRenB gen fresh rename A blocks bot f G ctr)
        (earleyGrammarRenB gen fresh rename A blocks bot f G ctr).S x ↔ BoolLang G G.S x) := by
  obtain ⟨hN, hBL⟩ := nullaryRemoveB_correct_E10 gen fresh rename G ctr Hn
  have hVN := nullaryRemoveB_V_E10 gen fresh rename G ctr
  have hSN := nullaryRemoveB_S_E10 gen fresh rename G ctr
  -- the grammar before `renumber`
  have hA : Acyc (trim (unaryCycleRemove A blocks bot (nullaryRemoveB gen fresh rename G ctr)))
      (potOrder bot (blocks.map (·.nodes))) :=
    ucycle_acyc_E1 A blocks bot nodes _ hN hU _ (potOrder_topo_E1 A blocks bot nodes _ hU).1
  have hV : (trim (unaryCycleRemove A blocks bot (nullaryRemoveB gen fresh rename G ctr))).V = G.V := by
    rw [trim_V, unaryCycleRemove_V_E10, hVN]
  have hS : (trim (unaryCycleRemove A blocks bot (nullaryRemoveB gen fresh rename G ctr))).S
      = (nullaryRemoveB gen fresh rename G ctr).S := by
    rw [trim_S, unaryCycleRemove_S_E10]
  have hnz : ∀ r ∈ (trim (unaryCycleRemove A blocks bot (nullaryRemoveB gen fresh rename G ctr))).rules,
      r.w ≠ 0 := fun r hr => (mem_trimTo.mp hr).2.2.1
  have hg : Function.Injective
      (ntMap (trim (unaryCycleRemove A blocks bot (nullaryRemoveB gen fresh rename G ctr))).V f) :=
    ntMap_injective_E1 _ f (hV ▸ hfV) (hV ▸ hfinj)
  have hSV : (trim (unaryCycleRemove A blocks bot (nullaryRemoveB gen fresh rename G ctr))).S ∉
      (trim (unaryCycleRemove A blocks bot (nullaryRemoveB gen fresh rename G ctr))).V := by
    rw [hV, hS]
    exact hVN ▸ hN.startNT
  have heq : earleyGrammarRenB gen fresh rename A blocks bot f G ctr =
      renameCFG (ntMap (trim (unaryCycleRemove A blocks bot (nullaryRemoveB gen fresh rename G ctr))).V f)
        (trim (unaryCycleRemove A blocks bot (nullaryRemoveB gen fresh rename G ctr))) :=
    renameNT_eq_renameCFG_E1 f _ hSV hA.headsNT hnz
  have : Nonempty σ := ⟨G.S⟩
  refine ⟨⟨potOrder bot (blocks.map (·.nodes)) ∘ Function.invFun
      (ntMap (trim (unaryCycleRemove A blocks bot (nullaryRemoveB gen fresh rename G ctr))).V f), ?_⟩, ?_, ?_⟩
  · rw [heq]
    exact acyc_renameCFG_E1 _ _ (Function.leftInverse_invFun hg) _ _ hA
  · rw [heq]
    show ((trim (unaryCycleRemove A blocks bot (nullaryRemoveB gen fresh rename G ctr))).V.map _) = G.V
    rw [map_ntMap_of_terminals_E1 _ f _ (fun _ h => h), hV]
  · intro x hx
    rw [heq, renameCFG_S_E10, hS, hSN]
    have hxm : x.map (ntMap
        (trim (unaryCycleRemove A blocks bot (nullaryRemoveB gen fresh rename G ctr))).V f) = x :=
      map_ntMap_of_terminals_E1 _ f x (fun a ha => hV ▸ hx a ha)
    have h1 := rename_BL_E10 (ntMap
        (trim (unaryCycleRemove A blocks bot (nullaryRemoveB gen fresh rename G ctr))).V f) hg
      (trim (unaryCycleRemove A blocks bot (nullaryRemoveB gen fresh rename G ctr)))
      (trim (unaryCycleRemove A blocks bot (nullaryRemoveB gen fresh rename G ctr))).S x
    rw [hxm] at h1
    have h2 := earleyCoreB_BL_E10 A blocks bot nodes _ hU hW x
    rw [hS] at h1
    rw [hSN] at h1 h2
    exact h1.trans (h2.trans (hBL x))

end EarleyPrepBoolE10

/-! ## A.5 the Earley back end of `BoolCFGLM` -/
section EarleyBoolE10
open ComposeAux UCycleAux EarleyAux
variable {σ : Type} [DecidableEq σ]

/-- **the Earley back end on a Boolean grammar in the parser's normal form** (`Acyc`): for a context `p` of
terminals, the token `a` is a key of `next_token_weights(chart(p)).trim()` iff `a` is a terminal and `E` generates
`p ++ [a]` (agenda = priority queue with any admissible pop, `_helper` with enough fuel) -/
theorem earley_mask_E10 (E : CFG σ BoolW) (order : σ → Nat) (M : Nat) (hA : Acyc E order)
    (hM : OrderBound E order M)
    (pick : Nat → List (Nat × σ) → Option ((Nat × σ) × List (Nat × σ)))
    (hpick : ∀ k, PickOK (itemPrio E order k) (pick k))
    (p : List σ) (hp : ∀ b ∈ p, b ∈ E.V) (a : σ) (fuel : Nat)
    (hfuel : helperFuel E order (earleyChartQ E pick p) ≤ fuel) :
    a ∈ maskOf (earleyNextTokenWeights E fuel (earleyChartQ E pick p)) ↔ a ∈ E.V ∧ BoolLang E E.S (p ++ [a]) := by
  rw [mem_maskOf_E10 _ (earleyNTW_keys E _ _).1, bool_ne_zero_E10]
  by_cases ha : a ∈ E.V
  · have hpa : ∀ b ∈ p ++ [a], b ∈ E.V := by
      intro b hb
      rcases List.mem_append.mp hb with h | h
      · exact hp b h
      · rw [List.mem_singleton.mp h]; exact ha
    rw [earleyQ_pnext E order M hA hM pick hpick p hp a ha fuel hfuel]
    constructor
    · intro h
      refine ⟨ha, (p ++ [a]).length * M + 1, ?_⟩
      rw [← earleyQ_correct E order M hA hM pick hpick (p ++ [a]) hpa _ (Nat.le_refl _)]
      exact h
    · rintro ⟨_, h⟩
      obtain ⟨n, hn, h1⟩ := (BL_iff_level_E10 E E.S _ ((p ++ [a]).length * M + 1)).mp h
      rw [earleyQ_correct E order M hA hM pick hpick (p ++ [a]) hpa n hn]
      exact h1
  · have h0 : (earleyNextTokenWeights E fuel (earleyChartQ E pick p)).get a = 0 := by
      apply get_eq_zero_of_not_key
      intro hk
      exact ha ((earleyNTW_keys E _ _).2 a hk)
    rw [h0]
    constructor
    · intro h; exact absurd h bool_zero_ne_one
    · rintro ⟨h, _⟩; exact absurd h ha

/-- the grammar `Earley(cfg.prefix_grammar)` runs on, Boolean semiring -/
noncomputable def earleyPfgB (gen : Nat → CSym Nat σ) (fresh : CSym Nat σ) (rename : CSym Nat σ → CSym Nat σ)
    (A : CSym Nat σ → CSym Nat σ → BoolW) (blocks : List (Block (CSym Nat σ) BoolW))
    (bot f : CSym Nat σ → CSym Nat σ) (ctr : Nat) (H : CFG σ BoolW) : CFG (CSym Nat σ) BoolW :=
  earleyGrammarRenB gen fresh rename A blocks bot f (compose H (prefixT H.V : FST Nat σ BoolW)) ctr

/-- **C01, Earley back end, any Boolean grammar `H`**: the support of
`Earley(H.prefix_grammar).next_token_weights(chart(c)).trim()` is the next-token mask of `H`, for every context
`c` of terminals -/
theorem earley_bool_mask_E10 (gen : Nat → CSym Nat σ) (fresh : CSym Nat σ) (rename : CSym Nat σ → CSym Nat σ)
    (A : CSym Nat σ → CSym Nat σ → BoolW) (blocks : List (Block (CSym Nat σ) BoolW))
    (bot f : CSym Nat σ → CSym Nat σ) (nodes : List (CSym Nat σ)) (ctr : Nat) (H : CFG σ BoolW)
    (hok : ComposeOK H (prefixT H.V : FST Nat σ BoolW)) (hV : H.V.Nodup)
    (Hn : CnfNamesK gen fresh rename (compose H (prefixT H.V : FST Nat σ BoolW)) ctr)
    (hU : UcShape A blocks bot nodes
      (nullaryRemoveB gen fresh rename (compose H (prefixT H.V : FST Nat σ BoolW)) ctr))
    (hW : TrueClosuresB A blocks nodes
      (nullaryRemoveB gen fresh rename (compose H (prefixT H.V : FST Nat σ BoolW)) ctr))
    (hfV : ∀ y, y ∉ (compose H (prefixT H.V : FST Nat σ BoolW)).V →
      f y ∉ (compose H (prefixT H.V : FST Nat σ BoolW)).V)
    (hfinj : ∀ y z, y ∉ (compose H (prefixT H.V : FST Nat σ BoolW)).V →
      z ∉ (compose H (prefixT H.V : FST Nat σ BoolW)).V → f y = f z → y = z)
    (nodes' : List (CSym Nat σ)) (bl' : List (List (CSym Nat σ)))
    (hd' : IsSccDecomp nodes'
      ((unaryEdges (earleyPfgB gen fresh rename A blocks bot f ctr H)).map Prod.swap) bl')
    (pick : Nat → List (Nat × CSym Nat σ) → Option ((Nat × CSym Nat σ) × List (Nat × CSym Nat σ)))
    (hpick : ∀ k, PickOK (itemPrio (earleyPfgB gen fresh rename A blocks bot f ctr H) (blockIdx bl') k)
      (pick k))
    (c : List σ) (hc : ∀ b ∈ c, b ∈ H.V) (t : σ) (fuel : Nat)
    (hfuel : helperFuel (earleyPfgB gen fresh rename A blocks bot f ctr H) (blockIdx bl')
      (earleyChartQ (earleyPfgB gen fresh rename A blocks bot f ctr H) pick (tm c)) ≤ fuel) :
    CSym.term t ∈ maskOf (earleyNextTokenWeights (earleyPfgB gen fresh rename A blocks bot f ctr H) fuel
        (earleyChartQ (earleyPfgB gen fresh rename A blocks bot f ctr H) pick (tm c)))
      ↔ t ∈ nextSet (boolSupport H) c := by
  obtain ⟨⟨order0, hA0⟩, hVE, hBL⟩ :=
    earleyGrammarRenB_spec_E10 gen fresh rename A blocks bot nodes f _ ctr Hn hU hW hfV hfinj
  have hb := topoOrder_of_buckets_E1 (earleyPfgB gen fresh rename A blocks bot f ctr H) order0
    hA0.topo nodes' bl' hd'
  have hA : Acyc (earleyPfgB gen fresh rename A blocks bot f ctr H) (blockIdx bl') :=
    ⟨hA0.nullOK, hA0.headsNT, hb.1⟩
  have hEV : ∀ s, s ∈ (earleyPfgB gen fresh rename A blocks bot f ctr H).V ↔ s ∈ H.V.map CSym.term := by
    intro s
    have : (earleyPfgB gen fresh rename A blocks bot f ctr H).V
        = composeV (prefixT H.V : FST Nat σ BoolW) := hVE
    rw [this, mem_composeV_prefixT_E10]
  have hcV : ∀ b ∈ (tm c : List (CSym Nat σ)), b ∈ (earleyPfgB gen fresh rename A blocks bot f ctr H).V :=
    fun b hb => (hEV b).mpr (mem_tm_E10 c H.V hc b hb)
  rw [earley_mask_E10 _ (blockIdx bl') (bl'.length + 1) hA hb.2 pick hpick (tm c) hcV (CSym.term t) fuel hfuel,
    hEV, tm_append_singleton_E10, mask_via_prefix_grammar H hok hV c t]
  have hx : ∀ t, t ∈ H.V → ∀ a ∈ (tm (c ++ [t]) : List (CSym Nat σ)),
      a ∈ (compose H (prefixT H.V : FST Nat σ BoolW)).V := by
    intro t ht a ha
    show a ∈ composeV (prefixT H.V : FST Nat σ BoolW)
    rw [mem_composeV_prefixT_E10]
    refine mem_tm_E10 (c ++ [t]) H.V ?_ a ha
    intro b hb
    rcases List.mem_append.mp hb with h | h
    · exact hc b h
    · rw [List.mem_singleton.mp h]; exact ht
  constructor
  · rintro ⟨ht, h⟩
    obtain ⟨b, hb, hbt⟩ := List.mem_map.mp ht
    have ht' : t ∈ H.V := (term_injective_E10 hbt) ▸ hb
    exact ⟨ht', (hBL _ (hx t ht')).mp h⟩
  · rintro ⟨ht, h⟩
    exact ⟨List.mem_map.mpr ⟨t, ht, rfl⟩, (hBL _ (hx t ht)).mpr h⟩

end EarleyBoolE10

/-! ## A.6 `BoolCFGLM`: `add_EOS`, `map_values(Boolean(x > 0))`, the masks of the two back ends -/
section BoolMapE10
variable {σ K : Type} [DecidableEq σ]

/-- `cfg.map_values(lambda x: Boolean(x > 0), Boolean)`: `pos w` stands for `w > 0`; `CFG.add` drops the rules that
become `False` -/
def boolMap (pos : K → Bool) (G : CFG σ K) : CFG σ BoolW :=
  { S := G.S, V := G.V, rules := mkRules (G.rules.map fun r => ⟨⟨pos r.w⟩, r.head, r.body⟩) }

/-- the rules of positive weight (the rules `BoolCFGLM` can use) -/
def posPart (pos : K → Bool) (G : CFG σ K) : CFG σ K :=
  { G with rules := G.rules.filter fun r => pos r.w }

theorem posPart_eq_self_E10 (pos : K → Bool) (G : CFG σ K) (h : ∀ r ∈ G.rules, pos r.w = true) :
    posPart pos G = G := by
  unfold posPart
  rw [List.filter_eq_self.mpr h]

theorem mem_boolSupport_boolMap_E10 (pos : K → Bool) (G : CFG σ K) (r' : Rule σ BoolW) :
    r' ∈ (boolSupport (boolMap pos G)).rules ↔ ∃ r ∈ G.rules, pos r.w = true ∧ r' = ⟨1, r.head, r.body⟩ := by
  simp only [boolSupport, boolMap, mkRules, List.mem_filter, List.mem_map, decide_eq_true_eq]
  constructor
  · rintro ⟨⟨⟨r, hr, rfl⟩, _⟩, hw⟩
    have hp : pos r.w = true := by
      have : (⟨pos r.w⟩ : BoolW) = ⟨true⟩ := hw
      exact congrArg BoolW.b this
    refine ⟨r, hr, hp, ?_⟩
    rw [hp]; rfl
  · rintro ⟨r, hr, hp, rfl⟩
    refine ⟨⟨⟨r, hr, ?_⟩, ?_⟩, rfl⟩
    · rw [hp]; rfl
    · exact bool_zero_ne_one.symm

/-- `Derives` only looks at the heads and bodies of the rules -/
theorem Derives_transfer_E10 {K' : Type} (G : CFG σ K) (G' : CFG σ K') (hV : ∀ a, a ∈ G.V ↔ a ∈ G'.V)
    (hR : ∀ r ∈ G.rules, ∃ r' ∈ G'.rules, r'.head = r.head ∧ r'.body = r.body) :
    (∀ s x, Derives G s x → Derives G' s x) ∧ (∀ β x, DerivesBody G β x → DerivesBody G' β x) :=
  Derives.both
    (fun _ h => .term ((hV _).1 h))
    (fun r x hr hh _ ih => by
      obtain ⟨r', hr', h1, h2⟩ := hR r hr
      rw [← h1]
      exact .rule hr' (fun h => hh ((hV _).2 (h1 ▸ h))) (h2 ▸ ih))
    .nil
    (fun _ _ _ _ _ _ ih1 ih2 => .cons ih1 ih2)

/-- the Boolean image of a grammar derives what its rules of positive weight derive -/
theorem derives_boolMap_E10 (pos : K → Bool) (G : CFG σ K) (s : σ) (x : List σ) :
    Derives (boolSupport (boolMap pos G)) s x ↔ Derives (posPart pos G) s x := by
  constructor
  · refine (Derives_transfer_E10 (boolSupport (boolMap pos G)) (posPart pos G) (fun _ => Iff.rfl) ?_).1 s x
    intro r' hr'
    obtain ⟨r, hr, hp, rfl⟩ := (mem_boolSupport_boolMap_E10 pos G r').mp hr'
    exact ⟨r, List.mem_filter.mpr ⟨hr, hp⟩, rfl, rfl⟩
  · refine (Derives_transfer_E10 (posPart pos G) (boolSupport (boolMap pos G)) (fun _ => Iff.rfl) ?_).1 s x
    intro r hr
    obtain ⟨hr, hp⟩ := List.mem_filter.mp hr
    exact ⟨⟨1, r.head, r.body⟩, (mem_boolSupport_boolMap_E10 pos G _).mpr ⟨r, hr, hp, rfl⟩, rfl, rfl⟩

theorem nextSet_boolMap_E10 (pos : K → Bool) (G : CFG σ K) (c : List σ) (t : σ) :
    t ∈ nextSet (boolSupport (boolMap pos G)) c ↔ t ∈ nextSet (posPart pos G) c := by
  rw [nextSet_spec, nextSet_spec]
  constructor
  · rintro ⟨ht, y, hy⟩; exact ⟨ht, y, (derives_boolMap_E10 pos G _ _).mp hy⟩
  · rintro ⟨ht, y, hy⟩; exact ⟨ht, y, (derives_boolMap_E10 pos G _ _).mpr hy⟩

theorem posPart_addEOS_E10 [One K] (pos : K → Bool) (h1 : pos 1 = true) (G : CFG σ K) (S' eos : σ) :
    posPart pos (addEOS G S' eos) = addEOS (posPart pos G) S' eos := by
  simp [posPart, addEOS, h1]

theorem eosFresh_posPart_E10 [One K] (pos : K → Bool) (G : CFG σ K) (S' eos : σ) (hF : EosFresh G S' eos) :
    EosFresh (posPart pos G) S' eos :=
  ⟨hF.start_ne, hF.eos_ne_start, hF.start_ne_eos,
    fun r hr => hF.head r (List.mem_filter.mp hr).1,
    fun r hr => hF.body_start r (List.mem_filter.mp hr).1,
    fun r hr => hF.body_eos r (List.mem_filter.mp hr).1, hF.eos_notin, hF.start_notin⟩

/-- **C01 end to end, any back end.**  `mask c` is what `BoolCFGLM(G).p_next(c)` returns (the keys), computed by a
back end whose support on the Boolean grammar `bool(add_EOS G)` is the next-token mask of that grammar
(`cky_bool_mask_E10`, `earley_bool_mask_E10`) and whose keys are tokens.  Then, for every context `c` over the
vocabulary `V ∪ {eos}`: the mask is `nextSet (add_EOS G⁺) c` (`G⁺` = the rules of positive weight; `G⁺ = G` when all
weights are positive); an ordinary token is offered iff `c·t` is a viable prefix of `G⁺`; `eos` is offered iff `c`
is a sentence of `G⁺`; a context that is not a viable prefix gets the empty mask. -/
theorem bool_lm_end_to_end [One K] (pos : K → Bool) (h1 : pos 1 = true) (G : CFG σ K) (S' eos : σ)
    (hF : EosFresh G S' eos) (mask : List σ → List (CSym Nat σ))
    (hmask : ∀ c, (∀ b ∈ c, b ∈ eos :: G.V) → ∀ t,
      CSym.term t ∈ mask c ↔ t ∈ nextSet (boolSupport (boolMap pos (addEOS G S' eos))) c)
    (hkeys : ∀ c k, k ∈ mask c → ∃ t, k = CSym.term t)
    (c : List σ) (hc : ∀ b ∈ c, b ∈ eos :: G.V) :
    (∀ t, CSym.term t ∈ mask c ↔ t ∈ nextSet (addEOS (posPart pos G) S' eos) c)
    ∧ (∀ t, t ∈ G.V → (CSym.term t ∈ mask c ↔ ∃ y, Derives (posPart pos G) G.S (c ++ t :: y)))
    ∧ (eos ∉ c → (CSym.term eos ∈ mask c ↔ Derives (posPart pos G) G.S c))
    ∧ ((¬ ∃ y, Derives (addEOS (posPart pos G) S' eos) S' (c ++ y)) → mask c = []) := by
  have hF' := eosFresh_posPart_E10 pos G S' eos hF
  have key : ∀ t, CSym.term t ∈ mask c ↔ t ∈ nextSet (addEOS (posPart pos G) S' eos) c := by
    intro t
    rw [hmask c hc t, nextSet_boolMap_E10, posPart_addEOS_E10 pos h1]
  refine ⟨key, fun t ht => ?_, fun he => ?_, fun hnv => ?_⟩
  · rw [key t]
    exact mem_nextSet_addEOS' hF' c t ht
  · rw [key eos]
    exact eos_mem_nextSet' hF' c he
  · apply List.eq_nil_iff_forall_not_mem.mpr
    intro k hk
    obtain ⟨t, rfl⟩ := hkeys c k hk
    have := (key t).mp hk
    rw [nextSet_empty_of_not_viable (addEOS (posPart pos G) S' eos) c hnv] at this
    cases this

/-- the same when all rule weights are positive (`G⁺ = G`): literally `nextSet (add_EOS G) c` -/
theorem bool_lm_end_to_end_pos [One K] (pos : K → Bool) (h1 : pos 1 = true) (G : CFG σ K) (S' eos : σ)
    (hpos : ∀ r ∈ G.rules, pos r.w = true)
    (hF : EosFresh G S' eos) (mask : List σ → List (CSym Nat σ))
    (hmask : ∀ c, (∀ b ∈ c, b ∈ eos :: G.V) → ∀ t,
      CSym.term t ∈ mask c ↔ t ∈ nextSet (boolSupport (boolMap pos (addEOS G S' eos))) c)
    (hkeys : ∀ c k, k ∈ mask c → ∃ t, k = CSym.term t)
    (c : List σ) (hc : ∀ b ∈ c, b ∈ eos :: G.V) :
    (∀ t, CSym.term t ∈ mask c ↔ t ∈ nextSet (addEOS G S' eos) c)
    ∧ (∀ t, t ∈ G.V → (CSym.term t ∈ mask c ↔ ∃ y, Derives G G.S (c ++ t :: y)))
    ∧ (eos ∉ c → (CSym.term eos ∈ mask c ↔ Derives G G.S c))
    ∧ ((¬ ∃ y, Derives (addEOS G S' eos) S' (c ++ y)) → mask c = []) := by
  have := bool_lm_end_to_end pos h1 G S' eos hF mask hmask hkeys c hc
  rwa [posPart_eq_self_E10 pos G hpos] at this

end BoolMapE10

section BoolCfgLmE10
open ComposeAux UCycleAux EarleyAux
variable {σ K : Type} [DecidableEq σ]

/-- `BoolCFGLM(cfg, alg="cky").p_next(c)`: the keys of `IncrementalCKY(pfg).p_next(c).trim()` -/
noncomputable def ckyBoolMask (pfg : CFG (CSym Nat σ) BoolW) (c : List σ) : List (CSym Nat σ) :=
  maskOf (incCkyPNext pfg (tm c))

/-- `BoolCFGLM(cfg, alg="earley").p_next(c)`: the keys of `Earley(pfg).next_token_weights(chart(c)).trim()` -/
noncomputable def earleyBoolMask (E : CFG (CSym Nat σ) BoolW) (order : CSym Nat σ → Nat)
    (pick : Nat → List (Nat × CSym Nat σ) → Option ((Nat × CSym Nat σ) × List (Nat × CSym Nat σ)))
    (c : List σ) : List (CSym Nat σ) :=
  maskOf (earleyNextTokenWeights E (helperFuel E order (earleyChartQ E pick (tm c))) (earleyChartQ E pick (tm c)))

/-- **C01 end to end, `BoolCFGLM(G, alg="cky")`.**  `add_EOS`, `map_values(Boolean(x > 0))`,
`pfg = cfg.cnf.prefix_grammar.cnf` (Boolean null weights and closures), `IncrementalCKY(pfg)` (which renames the
nonterminals: `renumber()`, `f`), `p_next(c).trim()`, keys.  Remaining hypotheses: `S'`, `eos` fresh (`EosFresh`),
`1 > 0` (`h1`), no repetition in the token list, freshness of the names generated by the two `cnf()` runs
(`CnfNamesK`; it includes: start symbol and heads are nonterminals; the second one can always be met:
`cnfNamesK_prefix_E10`), `renumber` injective on the nonterminals and into the nonterminals. -/
theorem bool_cfg_lm_cky [One K] (pos : K → Bool) (h1 : pos 1 = true) (G : CFG σ K) (S' eos : σ)
    (hF : EosFresh G S' eos) (hV : (eos :: G.V).Nodup)
    (gen1 : Nat → σ) (fresh1 : σ) (ren1 : σ → σ) (ctr1 : Nat)
    (gen2 : Nat → CSym Nat σ) (fresh2 : CSym Nat σ) (ren2 : CSym Nat σ → CSym Nat σ) (ctr2 : Nat)
    (Hn1 : CnfNamesK gen1 fresh1 ren1 (boolMap pos (addEOS G S' eos)) ctr1)
    (Hn2 : CnfNamesK gen2 fresh2 ren2
      (compose (cnfB gen1 fresh1 ren1 (boolMap pos (addEOS G S' eos)) ctr1)
        (prefixT (cnfB gen1 fresh1 ren1 (boolMap pos (addEOS G S' eos)) ctr1).V : FST Nat σ BoolW)) ctr2)
    (f : CSym Nat σ → CSym Nat σ)
    (hfV : ∀ y, y ∉ composeV (prefixT (eos :: G.V) : FST Nat σ BoolW) →
      f y ∉ composeV (prefixT (eos :: G.V) : FST Nat σ BoolW))
    (hfinj : ∀ y z, y ∉ composeV (prefixT (eos :: G.V) : FST Nat σ BoolW) →
      z ∉ composeV (prefixT (eos :: G.V) : FST Nat σ BoolW) → f y = f z → y = z)
    (c : List σ) (hc : ∀ b ∈ c, b ∈ eos :: G.V) :
    (∀ t, CSym.term t ∈ ckyBoolMask
        (ckyPfgRenB gen1 fresh1 ren1 ctr1 gen2 fresh2 ren2 ctr2 (boolMap pos (addEOS G S' eos)) f) c
      ↔ t ∈ nextSet (addEOS (posPart pos G) S' eos) c)
    ∧ (∀ t, t ∈ G.V → (CSym.term t ∈ ckyBoolMask
        (ckyPfgRenB gen1 fresh1 ren1 ctr1 gen2 fresh2 ren2 ctr2 (boolMap pos (addEOS G S' eos)) f) c
      ↔ ∃ y, Derives (posPart pos G) G.S (c ++ t :: y)))
    ∧ (eos ∉ c → (CSym.term eos ∈ ckyBoolMask
        (ckyPfgRenB gen1 fresh1 ren1 ctr1 gen2 fresh2 ren2 ctr2 (boolMap pos (addEOS G S' eos)) f) c
      ↔ Derives (posPart pos G) G.S c))
    ∧ ((¬ ∃ y, Derives (addEOS (posPart pos G) S' eos) S' (c ++ y)) →
      ckyBoolMask (ckyPfgRenB gen1 fresh1 ren1 ctr1 gen2 fresh2 ren2 ctr2 (boolMap pos (addEOS G S' eos)) f) c
        = []) := by
  refine bool_lm_end_to_end pos h1 G S' eos hF _ ?_ ?_ c hc
  · intro c hc t
    exact cky_bool_mask_ren_E10 gen1 fresh1 ren1 ctr1 gen2 fresh2 ren2 ctr2 _ Hn1 Hn2 hV f hfV hfinj c hc t
  · intro c k hk
    unfold ckyBoolMask at hk
    rw [mem_maskOf_E10 _ (incCkyPNext_nodupKeys _ _)] at hk
    by_cases hkV : k ∈ composeV (prefixT (eos :: G.V) : FST Nat σ BoolW)
    · rw [mem_composeV_prefixT_E10] at hkV
      obtain ⟨t, _, rfl⟩ := List.mem_map.mp hkV
      exact ⟨t, rfl⟩
    · refine absurd (incCkyPNext_notin _ _ _ k ?_) hk
      unfold ckyPfgRenB
      rw [renameNT_V_E10, ckyPfgB_V_E10]
      exact hkV

/-- **C01 end to end, `BoolCFGLM(G, alg="earley")`.**  `add_EOS`, `map_values(Boolean(x > 0))`,
`Earley(cfg.prefix_grammar)` with its preprocessing (Boolean null weights and block closures), `order = buckets`,
agenda = priority queue, `next_token_weights(chart(c)).trim()`, keys.  Remaining hypotheses: `S'`, `eos` fresh,
heads of `G` are nonterminals different from `eos`, `1 > 0`, no repetition in the token list, freshness of the
generated names (`CnfNamesK`), well-formed SCC data (`UcShape`, `TrueClosuresB`, `IsSccDecomp`), `renumber`
injective into the nonterminals, admissible pops (`PickOK`). -/
theorem bool_cfg_lm_earley [One K] (pos : K → Bool) (h1 : pos 1 = true) (G : CFG σ K) (S' eos : σ)
    (hF : EosFresh G S' eos) (hheads : ∀ r ∈ G.rules, r.head ∉ G.V ∧ r.head ≠ eos) (hV : (eos :: G.V).Nodup)
    (gen : Nat → CSym Nat σ) (fresh : CSym Nat σ) (rename : CSym Nat σ → CSym Nat σ)
    (A : CSym Nat σ → CSym Nat σ → BoolW) (blocks : List (Block (CSym Nat σ) BoolW))
    (bot f : CSym Nat σ → CSym Nat σ) (nodes : List (CSym Nat σ)) (ctr : Nat)
    (Hn : CnfNamesK gen fresh rename (compose (boolMap pos (addEOS G S' eos))
      (prefixT (boolMap pos (addEOS G S' eos)).V : FST Nat σ BoolW)) ctr)
    (hU : UcShape A blocks bot nodes (nullaryRemoveB gen fresh rename (compose (boolMap pos (addEOS G S' eos))
      (prefixT (boolMap pos (addEOS G S' eos)).V : FST Nat σ BoolW)) ctr))
    (hW : TrueClosuresB A blocks nodes (nullaryRemoveB gen fresh rename
      (compose (boolMap pos (addEOS G S' eos))
        (prefixT (boolMap pos (addEOS G S' eos)).V : FST Nat σ BoolW)) ctr))
    (hfV : ∀ y, y ∉ (compose (boolMap pos (addEOS G S' eos))
        (prefixT (boolMap pos (addEOS G S' eos)).V : FST Nat σ BoolW)).V →
      f y ∉ (compose (boolMap pos (addEOS G S' eos))
        (prefixT (boolMap pos (addEOS G S' eos)).V : FST Nat σ BoolW)).V)
    (hfinj : ∀ y z, y ∉ (compose (boolMap pos (addEOS G S' eos))
        (prefixT (boolMap pos (addEOS G S' eos)).V : FST Nat σ BoolW)).V →
      z ∉ (compose (boolMap pos (addEOS G S' eos))
        (prefixT (boolMap pos (addEOS G S' eos)).V : FST Nat σ BoolW)).V → f y = f z → y = z)
    (nodes' : List (CSym Nat σ)) (bl' : List (List (CSym Nat σ)))
    (hd' : IsSccDecomp nodes' ((unaryEdges (earleyPfgB gen fresh rename A blocks bot f ctr
      (boolMap pos (addEOS G S' eos)))).map Prod.swap) bl')
    (pick : Nat → List (Nat × CSym Nat σ) → Option ((Nat × CSym Nat σ) × List (Nat × CSym Nat σ)))
    (hpick : ∀ k, PickOK (itemPrio (earleyPfgB gen fresh rename A blocks bot f ctr
      (boolMap pos (addEOS G S' eos))) (blockIdx bl') k) (pick k))
    (c : List σ) (hc : ∀ b ∈ c, b ∈ eos :: G.V) :
    (∀ t, CSym.term t ∈ earleyBoolMask
        (earleyPfgB gen fresh rename A blocks bot f ctr (boolMap pos (addEOS G S' eos))) (blockIdx bl') pick c
      ↔ t ∈ nextSet (addEOS (posPart pos G) S' eos) c)
    ∧ (∀ t, t ∈ G.V → (CSym.term t ∈ earleyBoolMask
        (earleyPfgB gen fresh rename A blocks bot f ctr (boolMap pos (addEOS G S' eos))) (blockIdx bl') pick c
      ↔ ∃ y, Derives (posPart pos G) G.S (c ++ t :: y)))
    ∧ (eos ∉ c → (CSym.term eos ∈ earleyBoolMask
        (earleyPfgB gen fresh rename A blocks bot f ctr (boolMap pos (addEOS G S' eos))) (blockIdx bl') pick c
      ↔ Derives (posPart pos G) G.S c))
    ∧ ((¬ ∃ y, Derives (addEOS (posPart pos G) S' eos) S' (c ++ y)) →
      earleyBoolMask (earleyPfgB gen fresh rename A blocks bot f ctr (boolMap pos (addEOS G S' eos)))
        (blockIdx bl') pick c = []) := by
  have hok : ComposeOK (boolMap pos (addEOS G S' eos))
      (prefixT (boolMap pos (addEOS G S' eos)).V : FST Nat σ BoolW) := by
    apply composeOK_prefixT
    · intro r hr
      obtain ⟨hr, _⟩ := mem_mkRules.mp hr
      obtain ⟨q, hq, rfl⟩ := List.mem_map.mp hr
      show q.head ∉ eos :: G.V
      simp only [addEOS, List.mem_cons] at hq ⊢
      rcases hq with rfl | hq
      · rintro (h' | h')
        · exact hF.start_ne_eos h'
        · exact hF.start_notin h'
      · rintro (h' | h')
        · exact (hheads q hq).2 h'
        · exact (hheads q hq).1 h'
    · show S' ∉ eos :: G.V
      simp only [List.mem_cons]
      rintro (h' | h')
      · exact hF.start_ne_eos h'
      · exact hF.start_notin h'
  refine bool_lm_end_to_end pos h1 G S' eos hF _ ?_ ?_ c hc
  · intro c hc t
    exact earley_bool_mask_E10 gen fresh rename A blocks bot f nodes ctr _ hok hV Hn hU hW hfV hfinj nodes' bl'
      hd' pick hpick c hc t _ (Nat.le_refl _)
  · intro c k hk
    unfold earleyBoolMask maskOf chartTrim at hk
    obtain ⟨e, he, rfl⟩ := List.mem_map.mp hk
    have hkey : e.1 ∈ (earleyNextTokenWeights
        (earleyPfgB gen fresh rename A blocks bot f ctr (boolMap pos (addEOS G S' eos))) _
        (earleyChartQ (earleyPfgB gen fresh rename A blocks bot f ctr (boolMap pos (addEOS G S' eos))) pick
          (tm c))).map (·.1) := List.mem_map.mpr ⟨e, (List.mem_filter.mp he).1, rfl⟩
    have hkV := (earleyNTW_keys _ _ _).2 e.1 hkey
    obtain ⟨_, hVE, _⟩ :=
      earleyGrammarRenB_spec_E10 gen fresh rename A blocks bot nodes f _ ctr Hn hU hW hfV hfinj
    have hVE' : (earleyPfgB gen fresh rename A blocks bot f ctr (boolMap pos (addEOS G S' eos))).V
        = composeV (prefixT (boolMap pos (addEOS G S' eos)).V : FST Nat σ BoolW) := hVE
    rw [hVE', mem_composeV_prefixT_E10] at hkV
    obtain ⟨t, _, ht⟩ := List.mem_map.mp hkV
    exact ⟨t, ht.symm⟩

end BoolCfgLmE10

/-! ## non-vacuity -/
section ExamplesBoolE10
open ComposeAux

/-- `S → a S (2) | ε (1)` with weights in `ℕ`; `S = 0`, `a = 1`; fresh `S' = 2`, `eos = 3`; `x > 0` is `0 < x` -/
def boolExG_E10 : CFG ℕ ℕ := ⟨0, [1], [⟨2, 0, [1, 0]⟩, ⟨1, 0, []⟩]⟩
def boolExPos_E10 (w : ℕ) : Bool := decide (0 < w)

theorem boolExG_fresh_E10 : EosFresh boolExG_E10 2 3 :=
  ⟨by decide, by decide, by decide, by decide, by decide, by decide, by decide, by decide⟩

theorem boolMap_rule_E10 {σ K : Type} [DecidableEq σ] (pos : K → Bool) (G : CFG σ K) (r : Rule σ BoolW)
    (hr : r ∈ (boolMap pos G).rules) : ∃ q ∈ G.rules, r.head = q.head ∧ r.body = q.body := by
  obtain ⟨hr, _⟩ := mem_mkRules.mp hr
  obtain ⟨q, hq, rfl⟩ := List.mem_map.mp hr
  exact ⟨q, hq, rfl, rfl⟩

theorem boolExG_names_E10 :
    CnfNamesK (fun i => 2 * i + 10) 9 (fun y => 2 * y + 101) (boolMap boolExPos_E10 (addEOS boolExG_E10 2 3)) 0 := by
  have hq : ∀ q ∈ (addEOS boolExG_E10 2 3).rules, q.head ∉ (3 :: boolExG_E10.V) ∧ q.head < 9 ∧
      ∀ s ∈ q.body, s < 9 := by decide
  apply cnfNamesK_nat_E10
  · show (2 : ℕ) ∉ [3, 1]; decide
  · intro r hr
    obtain ⟨q, hq', h1, _⟩ := boolMap_rule_E10 _ _ r hr
    rw [h1]; exact (hq q hq').1
  · show (2 : ℕ) < 9; omega
  · intro a ha
    have : a ∈ [3, 1] := ha
    simp only [List.mem_cons, List.not_mem_nil, or_false] at this
    rcases this with rfl | rfl <;> omega
  · intro r hr
    obtain ⟨q, hq', h1, h2⟩ := boolMap_rule_E10 _ _ r hr
    rw [h1, h2]; exact (hq q hq').2

theorem boolExG_derives_E10 : Derives boolExG_E10 0 [1] := by
  have h0 : Derives boolExG_E10 0 [] :=
    Derives.rule (r := ⟨1, 0, []⟩) (by decide) (by decide) .nil
  have hb : DerivesBody boolExG_E10 [1, 0] ([1] ++ ([] ++ [])) :=
    .cons (.term (by decide)) (.cons h0 .nil)
  exact Derives.rule (r := ⟨2, 0, [1, 0]⟩) (by decide) (by decide) hb

/-- **all hypotheses of `bool_cfg_lm_cky` are satisfiable together** (names: `boolExG_names_E10` for the first
`cnf()`, `cnfNamesK_prefix_E10` for the second) and the conclusion is informative: after the context `a` the CKY
back end of `BoolCFGLM` offers `eos` (`a` is a sentence) -/
example :
    CSym.term 3 ∈ ckyBoolMask (ckyPfgRenB (fun i => 2 * i + 10) 9 (fun y => 2 * y + 101) 0 genPfx freshPfx renPfx 0
      (boolMap boolExPos_E10 (addEOS boolExG_E10 2 3)) id) [1] := by
  obtain ⟨_, _, h3, _⟩ := bool_cfg_lm_cky boolExPos_E10 (by decide) boolExG_E10 2 3 boolExG_fresh_E10 (by decide)
    (fun i => 2 * i + 10) 9 (fun y => 2 * y + 101) 0 genPfx freshPfx renPfx 0 boolExG_names_E10
    (cnfNamesK_prefix_E10 _ _) id (fun _ h => h) (fun _ _ _ _ h => h) [1] (by decide)
  rw [h3 (by decide), posPart_eq_self_E10 _ _ (by decide)]
  exact boolExG_derives_E10

end ExamplesBoolE10
end Genlm
