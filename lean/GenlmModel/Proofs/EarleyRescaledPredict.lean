import GenlmModel.Model.EarleyRescaled
import GenlmModel.Proofs.Earley
/-!
# `PREDICT` of `earley_rescaled.py` computes the same column as `PREDICT` of `earley.py`

`earley_rescaled.py` walks the left-corner graph `R` that also has the edges `head → terminal`; `earley.py`
skips them.  The additional `reachable` symbols are terminals; when no terminal heads a rule (`HeadsNT`, part of
`Acyc`) they have neither rules (`rhs`) nor outgoing edges, so — enumerating `reachable` in discovery order in
both models — exactly the same `_update`s are executed in exactly the same order:

* `predictR_eq_predict : HeadsNT G → predictR G col = predict G col`.

Tools (tag `_E8p`): a generic worklist loop `genLoop_E8p` of which `lcLoop`, `lcLoopR` are instances; `Fin_E8p` (the
loop has emptied its agenda when the fuel runs out), established by the counting argument `genLoop_fin_E8p`;
`genLoop_filter_E8p` (the nonterminals of the result are the result of the loop on the nonterminals).
-/
set_option linter.unusedSectionVars false

namespace Genlm.EarleyAux
variable {σ K : Type} [DecidableEq σ] [CommSemiring K]

/-- the worklist loop of `PREDICT` over an arbitrary successor function -/
def genLoop_E8p (out : σ → List σ) : Nat → List σ → List σ → List σ
  | 0, _, R => R
  | _ + 1, [], R => R
  | fuel + 1, X :: agenda, R =>
    let new := (out X).filter (fun Y => Y ∉ R)
    genLoop_E8p out fuel (new.reverse ++ agenda) (R ++ new)

theorem lcLoop_eq_gen_E8p (G : CFG σ K) (fuel : Nat) (ag R : List σ) :
    lcLoop G fuel ag R = genLoop_E8p (lcOut G) fuel ag R := by
  induction fuel generalizing ag R with
  | zero => rfl
  | succ fuel ih =>
    cases ag with
    | nil => rfl
    | cons X ag => simp only [lcLoop, genLoop_E8p]; exact ih _ _

theorem lcLoopR_eq_gen_E8p (G : CFG σ K) (fuel : Nat) (ag R : List σ) :
    lcLoopR G fuel ag R = genLoop_E8p (lcOutR G) fuel ag R := by
  induction fuel generalizing ag R with
  | zero => rfl
  | succ fuel ih =>
    cases ag with
    | nil => rfl
    | cons X ag => simp only [lcLoopR, genLoop_E8p]; exact ih _ _

/-- the agenda is empty when the loop stops -/
def Fin_E8p (out : σ → List σ) : Nat → List σ → List σ → Prop
  | 0, ag, _ => ag = []
  | _ + 1, [], _ => True
  | fuel + 1, X :: agenda, R =>
    Fin_E8p out fuel (((out X).filter (fun Y => Y ∉ R)).reverse ++ agenda) (R ++ (out X).filter (fun Y => Y ∉ R))

/-- the counting argument: every pop either shortens the agenda or enlarges `R ⊆ U` -/
theorem genLoop_fin_E8p (out : σ → List σ) (U : List σ) (hout : ∀ X, ∀ Y ∈ out X, Y ∈ U)
    (houtnd : ∀ X, (out X).Nodup) (fuel : Nat) (ag R : List σ) (hnd : R.Nodup) (hsub : ∀ X ∈ R, X ∈ U)
    (hfuel : ag.length + (U.length - R.length) ≤ fuel) : Fin_E8p out fuel ag R := by
  induction fuel generalizing ag R with
  | zero =>
    show ag = []
    exact List.eq_nil_of_length_eq_zero (by omega)
  | succ fuel ih =>
    cases ag with
    | nil => trivial
    | cons A ag =>
      show Fin_E8p out fuel _ _
      have hnew : ∀ Y, Y ∈ (out A).filter (fun Y => Y ∉ R) ↔ Y ∈ out A ∧ Y ∉ R := by
        intro Y; simp [List.mem_filter]
      have hnd' : (R ++ (out A).filter (fun Y => Y ∉ R)).Nodup := by
        rw [List.nodup_append]
        refine ⟨hnd, (houtnd A).filter _, ?_⟩
        intro a ha b hb e
        subst e
        exact ((hnew _).mp hb).2 ha
      have hsub' : ∀ X ∈ R ++ (out A).filter (fun Y => Y ∉ R), X ∈ U := by
        intro X hX
        rcases List.mem_append.mp hX with h | h
        · exact hsub X h
        · exact hout A X ((hnew X).mp h).1
      have hlen := List.Nodup.length_le_of_subset hnd' hsub'
      apply ih _ _ hnd' hsub'
      simp only [List.length_append, List.length_reverse, List.length_cons] at hfuel hlen ⊢
      omega

/-- a finished loop, restricted to the symbols satisfying `p`, is the loop of the restricted successor function
on the restricted agenda, for every sufficiently large fuel — provided the other symbols have no successors -/
theorem genLoop_filter_E8p (p : σ → Bool) (out outN : σ → List σ)
    (h0 : ∀ X, p X = false → out X = [])
    (hN : ∀ X, p X = true → outN X = (out X).filter p)
    (fuel : Nat) (ag R : List σ) (hfin : Fin_E8p out fuel ag R) :
    ∃ fN, ∀ f, fN ≤ f → genLoop_E8p outN f (ag.filter p) (R.filter p) = (genLoop_E8p out fuel ag R).filter p := by
  induction fuel generalizing ag R with
  | zero =>
    have : ag = [] := hfin
    subst this
    refine ⟨0, fun f _ => ?_⟩
    cases f <;> rfl
  | succ fuel ih =>
    cases ag with
    | nil =>
      refine ⟨0, fun f _ => ?_⟩
      cases f <;> rfl
    | cons X ag =>
      have hfin' : Fin_E8p out fuel (((out X).filter (fun Y => Y ∉ R)).reverse ++ ag)
          (R ++ (out X).filter (fun Y => Y ∉ R)) := hfin
      obtain ⟨fN, hf⟩ := ih _ _ hfin'
      have hstep : genLoop_E8p out (fuel + 1) (X :: ag) R
          = genLoop_E8p out fuel (((out X).filter (fun Y => Y ∉ R)).reverse ++ ag)
              (R ++ (out X).filter (fun Y => Y ∉ R)) := rfl
      rw [hstep]
      by_cases hX : p X = true
      · refine ⟨fN + 1, fun f hle => ?_⟩
        obtain ⟨f0, rfl⟩ : ∃ f0, f = f0 + 1 := ⟨f - 1, by omega⟩
        rw [← hf f0 (by omega)]
        have e1 : (X :: ag).filter p = X :: ag.filter p := by rw [List.filter_cons, if_pos hX]
        rw [e1]
        show genLoop_E8p outN f0 (((outN X).filter (fun Y => Y ∉ R.filter p)).reverse ++ ag.filter p)
          (R.filter p ++ (outN X).filter (fun Y => Y ∉ R.filter p)) = _
        have e2 : (outN X).filter (fun Y => Y ∉ R.filter p) = ((out X).filter (fun Y => Y ∉ R)).filter p := by
          rw [hN X hX, List.filter_filter, List.filter_filter]
          apply List.filter_congr
          intro Y _
          by_cases hY : p Y = true
          · simp [List.mem_filter, hY]
          · simp [hY]
        rw [e2, List.filter_append, List.filter_append, List.filter_reverse]
      · have hX' : p X = false := by simpa using hX
        refine ⟨fN, fun f hle => ?_⟩
        rw [← hf f hle]
        have e1 : (X :: ag).filter p = ag.filter p := by
          rw [List.filter_cons, if_neg hX]
        rw [e1, h0 X hX']
        simp only [List.filter_nil, List.reverse_nil, List.nil_append, List.append_nil]

/-! ### the two successor functions -/

theorem eraseDups_filter_E8p (p : σ → Bool) (l : List σ) : (l.eraseDups).filter p = (l.filter p).eraseDups := by
  generalize hn : l.length = n
  induction n using Nat.strong_induction_on generalizing l with
  | _ n ih =>
    cases l with
    | nil => simp
    | cons a l =>
      subst hn
      have hlt : (l.filter fun b => !b == a).length < (a :: l).length :=
        Nat.lt_succ_of_le (List.length_filter_le _ _)
      rw [List.eraseDups_cons, List.filter_cons]
      by_cases ha : p a = true
      · rw [if_pos ha, List.filter_cons, if_pos ha, List.eraseDups_cons, ih _ hlt _ rfl]
        congr 2
        rw [List.filter_filter, List.filter_filter]
        apply List.filter_congr
        intro b _
        exact Bool.and_comm _ _
      · rw [if_neg ha, List.filter_cons, if_neg ha, ih _ hlt _ rfl]
        congr 1
        rw [List.filter_filter]
        apply List.filter_congr
        intro b _
        by_cases hb : b = a
        · subst hb; simp [ha]
        · simp [hb]

theorem lcOutR_filter_E8p (G : CFG σ K) (X : σ) :
    (lcOutR G X).filter (fun Y => Y ∉ G.V) = lcOut G X := by
  unfold lcOutR lcOut
  rw [eraseDups_filter_E8p, List.filter_filterMap]
  congr 1
  apply List.filterMap_congr
  intro r _
  by_cases hX : r.head = X
  · simp only [if_pos hX]
    cases hb : r.body with
    | nil => rfl
    | cons B rest =>
      by_cases hB : B ∈ G.V
      · simp [hB]
      · simp [hB]
  · simp only [if_neg hX]; rfl

theorem lcOut_filter_E8p (G : CFG σ K) (X : σ) :
    (lcOut G X).filter (fun Y => Y ∉ G.V) = lcOut G X := by
  apply List.filter_eq_self.mpr
  intro Y hY
  obtain ⟨_, _, _, hV, _⟩ := (mem_lcOut G X Y).mp hY
  simpa using hV

theorem lcOutR_nil_of_terminal_E8p (G : CFG σ K) (hH : HeadsNT G) (X : σ) (hX : X ∈ G.V) : lcOutR G X = [] := by
  apply List.eq_nil_iff_forall_not_mem.mpr
  intro Y hY
  unfold lcOutR at hY
  rw [List.mem_eraseDups, List.mem_filterMap] at hY
  obtain ⟨r, hr, h⟩ := hY
  have : r.head ≠ X := fun e => hH r hr (e ▸ hX)
  rw [if_neg this] at h
  cases h

theorem lcOut_nil_of_terminal_E8p (G : CFG σ K) (hH : HeadsNT G) (X : σ) (hX : X ∈ G.V) : lcOut G X = [] := by
  rw [← lcOutR_filter_E8p, lcOutR_nil_of_terminal_E8p G hH X hX]; rfl

/-- all left corners -/
def lcUR_E8p (G : CFG σ K) : List σ :=
  G.rules.filterMap fun r => match r.body with | B :: _ => some B | [] => none

theorem lcOutR_sub_E8p (G : CFG σ K) (X Y : σ) (h : Y ∈ lcOutR G X) : Y ∈ lcUR_E8p G := by
  unfold lcOutR at h
  rw [List.mem_eraseDups, List.mem_filterMap] at h
  obtain ⟨r, hr, h⟩ := h
  unfold lcUR_E8p
  rw [List.mem_filterMap]
  refine ⟨r, hr, ?_⟩
  by_cases hX : r.head = X
  · rw [if_pos hX] at h; exact h
  · rw [if_neg hX] at h; cases h

theorem rhsOf_nil_of_terminal_E8p (G : CFG σ K) (hH : HeadsNT G) (X : σ) (hX : X ∈ G.V) : rhsOf G X = [] := by
  unfold rhsOf
  have : G.rules.filter (fun r => r.head = X ∧ r.body ≠ []) = [] := by
    apply List.filter_eq_nil_iff.mpr
    intro r hr
    have : r.head ≠ X := fun e => hH r hr (e ▸ hX)
    simp [this]
  rw [this]; rfl

theorem foldl_filter_skip_E8p {α β : Type} (p : α → Bool) (f : β → α → β) (h : ∀ b a, p a = false → f b a = b)
    (l : List α) (b : β) : l.foldl f b = (l.filter p).foldl f b := by
  induction l generalizing b with
  | nil => rfl
  | cons a l ih =>
    rw [List.foldl_cons, List.filter_cons]
    by_cases ha : p a = true
    · rw [if_pos ha, List.foldl_cons, ih]
    · rw [if_neg ha, h b a (by simpa using ha), ih]

/-- the nonterminals that `PREDICT` reaches are the same, in the same order, in the two parsers -/
theorem predReachR_filter_E8p (G : CFG σ K) (hH : HeadsNT G) (col : ECol σ K) :
    (predReachR G col).filter (fun Y => Y ∉ G.V) = (predReach G col).filter (fun Y => Y ∉ G.V) := by
  unfold predReachR predReach
  generalize (if col.k = 0 then [G.S] else col.waitingKeys) = agenda
  simp only
  rw [lcLoop_eq_gen_E8p, lcLoopR_eq_gen_E8p]
  have hp0 : ∀ X, (decide (X ∉ G.V)) = false → X ∈ G.V := by
    intro X h; simpa using h
  have finR : Fin_E8p (lcOutR G) (agenda.length + G.rules.length + 1) agenda.reverse agenda.eraseDups := by
    apply genLoop_fin_E8p (lcOutR G) (agenda.eraseDups ++ lcUR_E8p G)
      (fun X Y hY => List.mem_append_right _ (lcOutR_sub_E8p G X Y hY))
      (fun X => nodup_eraseDups' _) _ _ _ (nodup_eraseDups' _) (fun X hX => List.mem_append_left _ hX)
    have : (lcUR_E8p G).length ≤ G.rules.length := List.length_filterMap_le _ _
    simp only [List.length_append, List.length_reverse]
    omega
  have finP : Fin_E8p (lcOut G) (agenda.length + G.rules.length + 1) agenda.reverse agenda.eraseDups := by
    apply genLoop_fin_E8p (lcOut G) (agenda.eraseDups ++ lcU G)
      (fun X Y hY => List.mem_append_right _ (lcOut_sub_lcU G X Y hY))
      (fun X => lcOut_nodup G X) _ _ _ (nodup_eraseDups' _) (fun X hX => List.mem_append_left _ hX)
    have := lcU_length G
    simp only [List.length_append, List.length_reverse]
    omega
  obtain ⟨f1, h1⟩ := genLoop_filter_E8p (fun Y => decide (Y ∉ G.V)) (lcOutR G) (lcOut G)
    (fun X h => lcOutR_nil_of_terminal_E8p G hH X (hp0 X h))
    (fun X _ => (lcOutR_filter_E8p G X).symm) _ _ _ finR
  obtain ⟨f2, h2⟩ := genLoop_filter_E8p (fun Y => decide (Y ∉ G.V)) (lcOut G) (lcOut G)
    (fun X h => lcOut_nil_of_terminal_E8p G hH X (hp0 X h))
    (fun X _ => (lcOut_filter_E8p G X).symm) _ _ _ finP
  rw [← h1 (max f1 f2) (Nat.le_max_left _ _), ← h2 (max f1 f2) (Nat.le_max_right _ _)]

end Genlm.EarleyAux

namespace Genlm
variable {σ K : Type} [DecidableEq σ] [CommSemiring K]
open EarleyAux

/-- **`PREDICT` of `earley_rescaled.py` is `PREDICT` of `earley.py`** when no terminal heads a rule: walking the
left-corner graph with the terminal left corners included changes neither the items nor their insertion order -/
theorem predictR_eq_predict (G : CFG σ K) (hH : HeadsNT G) (col : ECol σ K) : predictR G col = predict G col := by
  unfold predictR predict
  simp only
  have hskip : ∀ (c : ECol σ K) (X : σ), (decide (X ∉ G.V)) = false →
      (rhsOf G X).foldl (fun c wYs => eUpdate c col.k X wYs.2 wYs.1) c = c := by
    intro c X h
    have hX : X ∈ G.V := by simpa using h
    rw [rhsOf_nil_of_terminal_E8p G hH X hX]; rfl
  rw [foldl_filter_skip_E8p (fun Y => decide (Y ∉ G.V)) _ hskip (predReachR G col),
    foldl_filter_skip_E8p (fun Y => decide (Y ∉ G.V)) _ hskip (predReach G col),
    predReachR_filter_E8p G hH col]

end Genlm
