import GenlmModel.Model.Norm
import GenlmModel.Proofs.Basic
import Mathlib.Algebra.BigOperators.Ring.List
import Mathlib.Algebra.Field.Basic
import Mathlib.Algebra.Order.Field.Rat
import Mathlib.Tactic.Ring
import Mathlib.Tactic.LinearCombination
import Mathlib.Tactic.NormNum

/-! `locally_normalize` (cfglm.py) and the grammar of `CFG.expected_length` (cfg.py).

* `WN_dropZero` – the zero-weight rules that `CFG.add` refuses to store never matter;
* `ln_heads_sum_one` – the rules of a head sum to one after local normalisation;
* `ln_proportional` – every string weight is rescaled by the constant `Z X`;
* `expectation_lifting` – in the lifted grammar the second component is `|x|` times the weight. -/
namespace Genlm

/-! ### zero-weight rules are irrelevant (`CFG.add` drops them) -/
section
variable {σ K : Type} [DecidableEq σ] [CommSemiring K] [DecidableEq K]

theorem WN_dropZero (G : CFG σ K) (n : Nat) (X : σ) (x : List σ) :
    WN (dropZero G) n X x = WN G n X x := by
  induction n generalizing X x with
  | zero => rfl
  | succ n ih =>
    simp only [WN, lsum_eq_sum]
    have hV : (dropZero G).V = G.V := rfl
    have hR : (dropZero G).rules.filter (fun r => decide (r.head = X))
        = (G.rules.filter (fun r => decide (r.head = X))).filter (fun r => decide (r.w ≠ 0)) := by
      simp only [dropZero, List.filter_filter]
      apply List.filter_congr; intro r _; exact Bool.and_comm _ _
    have hf : (fun r : Rule σ K => r.w * Wbody G.V (WN (dropZero G) n) r.body x)
        = fun r => r.w * Wbody G.V (WN G n) r.body x := by
      funext r; rw [Wbody_congr G.V _ _ r.body (fun s _ y => ih s y)]
    rw [hR, hV, hf]
    refine (sum_filter_of_zero _ _ _ ?_).symm
    intro r _ hr
    have : r.w = 0 := by simpa using hr
    rw [this, zero_mul]

/-- dropping zero-weight rules does not change the total rule weight of a head -/
theorem sum_weights_dropZero (G : CFG σ K) (X : σ) :
    (((dropZero G).rules.filter (fun r => r.head = X)).map (·.w)).sum
      = ((G.rules.filter (fun r => r.head = X)).map (·.w)).sum := by
  have hR : (dropZero G).rules.filter (fun r => decide (r.head = X))
      = (G.rules.filter (fun r => decide (r.head = X))).filter (fun r => decide (r.w ≠ 0)) := by
    simp only [dropZero, List.filter_filter]
    apply List.filter_congr; intro r _; exact Bool.and_comm _ _
  rw [hR]
  refine (sum_filter_of_zero _ _ _ ?_).symm
  intro r _ hr
  simpa using hr

end

/-! ### `locally_normalize` -/
section
variable {σ K : Type} [DecidableEq σ] [Field K]

/-- body level: the table `f` rescaled by `Z` gives `g` ⇒ bodies are rescaled by the product -/
theorem ln_Wbody (V : List σ) (f g : σ → List σ → K) (Z : σ → K)
    (hsym : ∀ s u, Wsym V f s u * Z s = Wsym V g s u) (body x : List σ) :
    Wbody V f body x * (body.map Z).prod = Wbody V g body x := by
  induction body generalizing x with
  | nil => simp [Wbody]
  | cons s ss ih =>
    simp only [Wbody, lsum_eq_sum, List.map_cons, List.prod_cons]
    rw [← List.sum_map_mul_right]
    congr 1
    apply List.map_congr_left
    intro p _
    rw [← hsym s p.1, ← ih p.2]
    ring

variable [DecidableEq K]

/-- rules of a head of non-zero total weight: the old ones, re-weighted -/
theorem ln_rules_filter (inv : K → K) (G : CFG σ K) (Z : σ → K) (X : σ) (hX : Z X ≠ 0) :
    (locallyNormalize inv G Z).rules.filter (fun r => decide (r.head = X))
      = (G.rules.filter (fun r => decide (r.head = X))).map fun r =>
          { w := lnWeight inv Z r, head := r.head, body := r.body } := by
  simp only [locallyNormalize, List.filter_map, List.filter_filter]
  congr 1
  apply List.filter_congr
  intro r _
  by_cases h : r.head = X
  · simp [h, hX]
  · simp [h]

/-- **local normalisation, (1)**: if `Z` satisfies the grammar's equation at `X` and `Z X ≠ 0`, the
new weights of the rules with head `X` sum to one. -/
theorem ln_heads_sum_one (G : CFG σ K) (Z : σ → K) (X : σ)
    (hfix : Z X = ((G.rules.filter (fun r => r.head = X)).map fun r => r.w * (r.body.map Z).prod).sum)
    (hX : Z X ≠ 0) :
    (((locallyNormalize (·⁻¹) G Z).rules.filter (fun r => r.head = X)).map (·.w)).sum = 1 := by
  rw [ln_rules_filter _ G Z X hX, List.map_map]
  simp only [Function.comp_def, lnWeight, lprod_eq_prod]
  have hh : ∀ r ∈ G.rules.filter (fun r => decide (r.head = X)),
      r.w * (r.body.map Z).prod * (Z r.head)⁻¹ = r.w * (r.body.map Z).prod * (Z X)⁻¹ := by
    intro r hr
    have : r.head = X := by simpa using (List.mem_filter.mp hr).2
    rw [this]
  rw [List.map_congr_left hh, List.sum_map_mul_right, ← hfix, mul_inv_cancel₀ hX]

/-- the same for the grammar Python really builds (zero-weight rules skipped by `add`) -/
theorem ln_heads_sum_one_drop (G : CFG σ K) (Z : σ → K) (X : σ)
    (hfix : Z X = ((G.rules.filter (fun r => r.head = X)).map fun r => r.w * (r.body.map Z).prod).sum)
    (hX : Z X ≠ 0) :
    (((locallyNormalizeDrop (·⁻¹) G Z).rules.filter (fun r => r.head = X)).map (·.w)).sum = 1 := by
  rw [locallyNormalizeDrop, sum_weights_dropZero]
  exact ln_heads_sum_one G Z X hfix hX

/-- **local normalisation, (2)**: string weights are proportional, with constant `Z X`.
`hV`: the chart has `Z a = 1` on terminals; `hZ0`: a symbol of total weight zero derives nothing
(true of the least solution over non-negative weights).  No condition on `X`. -/
theorem ln_proportional (G : CFG σ K) (Z : σ → K) (hV : ∀ a ∈ G.V, Z a = 1)
    (hZ0 : ∀ b, Z b = 0 → ∀ n y, WN G n b y = 0) (n : Nat) (X : σ) (x : List σ) :
    WN (locallyNormalize (·⁻¹) G Z) n X x * Z X = WN G n X x := by
  induction n generalizing X x with
  | zero => simp [WN]
  | succ n ih =>
    by_cases hX : Z X = 0
    · rw [hX, mul_zero, hZ0 X hX]
    · have hsym : ∀ s u, Wsym G.V (WN (locallyNormalize (·⁻¹) G Z) n) s u * Z s
          = Wsym G.V (WN G n) s u := by
        intro s u
        unfold Wsym
        split
        next h => rw [hV s h, mul_one]
        next => exact ih s u
      have hVV : (locallyNormalize (·⁻¹) G Z).V = G.V := rfl
      simp only [WN, lsum_eq_sum]
      rw [ln_rules_filter _ G Z X hX, List.map_map, ← List.sum_map_mul_right, hVV]
      congr 1
      apply List.map_congr_left
      intro r hr
      have hh : r.head = X := by simpa using (List.mem_filter.mp hr).2
      simp only [Function.comp_def, lnWeight, lprod_eq_prod]
      rw [← ln_Wbody G.V _ (WN G n) Z hsym r.body x, hh]
      have := mul_inv_cancel₀ hX
      linear_combination
        (r.w * (r.body.map Z).prod * Wbody G.V (WN (locallyNormalize (·⁻¹) G Z) n) r.body x) * this

/-- the same as a quotient -/
theorem ln_proportional_div (G : CFG σ K) (Z : σ → K) (hV : ∀ a ∈ G.V, Z a = 1)
    (hZ0 : ∀ b, Z b = 0 → ∀ n y, WN G n b y = 0) (n : Nat) (X : σ) (hX : Z X ≠ 0) (x : List σ) :
    WN (locallyNormalize (·⁻¹) G Z) n X x = WN G n X x / Z X := by
  rw [← ln_proportional G Z hV hZ0 n X x, mul_div_assoc, div_self hX, mul_one]

/-- the same for the grammar Python really builds (zero-weight rules skipped by `add`) -/
theorem ln_proportional_drop (G : CFG σ K) (Z : σ → K) (hV : ∀ a ∈ G.V, Z a = 1)
    (hZ0 : ∀ b, Z b = 0 → ∀ n y, WN G n b y = 0) (n : Nat) (X : σ) (x : List σ) :
    WN (locallyNormalizeDrop (·⁻¹) G Z) n X x * Z X = WN G n X x := by
  rw [locallyNormalizeDrop, WN_dropZero]
  exact ln_proportional G Z hV hZ0 n X x

end

/-! ### Expectation semiring arithmetic -/
section
variable {K : Type} [CommSemiring K]

@[simp] theorem Expc.add_p (a b : Expc K) : (a + b).p = a.p + b.p := rfl
@[simp] theorem Expc.add_r (a b : Expc K) : (a + b).r = a.r + b.r := rfl
@[simp] theorem Expc.mul_p (a b : Expc K) : (a * b).p = a.p * b.p := rfl
@[simp] theorem Expc.mul_r (a b : Expc K) : (a * b).r = a.p * b.r + b.p * a.r := rfl
@[simp] theorem Expc.zero_p : (0 : Expc K).p = 0 := rfl
@[simp] theorem Expc.zero_r : (0 : Expc K).r = 0 := rfl
@[simp] theorem Expc.one_p : (1 : Expc K).p = 1 := rfl
@[simp] theorem Expc.one_r : (1 : Expc K).r = 0 := rfl

theorem Expc.lsum_p (l : List (Expc K)) : (lsum l).p = (l.map (·.p)).sum := by
  induction l with
  | nil => rfl
  | cons a l ih =>
    have : lsum (a :: l) = a + lsum l := rfl
    rw [this, Expc.add_p, ih, List.map_cons, List.sum_cons]

theorem Expc.lsum_r (l : List (Expc K)) : (lsum l).r = (l.map (·.r)).sum := by
  induction l with
  | nil => rfl
  | cons a l ih =>
    have : lsum (a :: l) = a + lsum l := rfl
    rw [this, Expc.add_r, ih, List.map_cons, List.sum_cons]

end

/-! ### the grammar of `expected_length` -/
section
variable {σ K : Type} [DecidableEq σ] [CommSemiring K]

theorem lift_Wsym (V : List σ) (f' : σ → List σ → Expc K) (f : σ → List σ → K)
    (hp : ∀ s u, (f' s u).p = f s u) (hr : ∀ s u, (f' s u).r = (u.length : K) * f s u)
    (s : σ) (u : List σ) :
    (Wsym V f' s u).p = Wsym V f s u ∧
    (Wsym V f' s u).r + ((if s ∈ V then 1 else 0 : Nat) : K) * Wsym V f s u
      = (u.length : K) * Wsym V f s u := by
  unfold Wsym
  by_cases hs : s ∈ V
  · by_cases hu : u = [s]
    · simp [hs, hu]
    · simp [hs, hu]
  · simp [hs, hp, hr]

theorem lift_Wbody (V : List σ) (f' : σ → List σ → Expc K) (f : σ → List σ → K)
    (hp : ∀ s u, (f' s u).p = f s u) (hr : ∀ s u, (f' s u).r = (u.length : K) * f s u)
    (body x : List σ) :
    (Wbody V f' body x).p = Wbody V f body x ∧
    (Wbody V f' body x).r + ((numTerminals V body : Nat) : K) * Wbody V f body x
      = (x.length : K) * Wbody V f body x := by
  induction body generalizing x with
  | nil =>
    by_cases hx : x = []
    · simp [Wbody, hx, numTerminals]
    · simp [Wbody, hx, numTerminals]
  | cons s ss ih =>
    have hnt : ((numTerminals V (s :: ss) : Nat) : K)
        = ((numTerminals V ss : Nat) : K) + ((if s ∈ V then 1 else 0 : Nat) : K) := by
      simp only [numTerminals, List.countP_cons, decide_eq_true_eq, Nat.cast_add]
    constructor
    · simp only [Wbody, lsum_eq_sum, Expc.lsum_p, List.map_map, Function.comp_def, Expc.mul_p]
      congr 1
      apply List.map_congr_left
      intro p _
      rw [(lift_Wsym V f' f hp hr s p.1).1, (ih p.2).1]
    · simp only [Wbody, lsum_eq_sum, Expc.lsum_r, List.map_map, Function.comp_def, Expc.mul_r]
      rw [hnt, ← List.sum_map_mul_left, ← List.sum_map_mul_left, ← List.sum_map_add]
      congr 1
      apply List.map_congr_left
      intro p hp'
      have hlen : (x.length : K) = (p.1.length : K) + (p.2.length : K) := by
        rw [← (mem_splits x p.1 p.2).mp hp', List.length_append, Nat.cast_add]
      have e1 := (lift_Wsym V f' f hp hr s p.1).2
      have e2 := (ih p.2).2
      rw [(lift_Wsym V f' f hp hr s p.1).1, (ih p.2).1, hlen]
      have : ((p.1.length : K) + (p.2.length : K)) * (Wsym V f s p.1 * Wbody V f ss p.2)
          = ((p.1.length : K) * Wsym V f s p.1) * Wbody V f ss p.2
            + Wsym V f s p.1 * ((p.2.length : K) * Wbody V f ss p.2) := by ring
      rw [this, ← e1, ← e2]
      ring

theorem lift_rules_filter (G : CFG σ K) (X : σ) :
    (liftExpectation G).rules.filter (fun r => decide (r.head = X))
      = (G.rules.filter (fun r => decide (r.head = X))).map fun r =>
          { w := ⟨r.w, r.w * ((numTerminals G.V r.body : Nat) : K)⟩, head := r.head, body := r.body } := by
  simp only [liftExpectation, List.filter_map]
  rfl

/-- **expectation lifting**: in the grammar built by `expected_length`, for every height bound,
head and string, the first component is the string's weight and the second is its length times
its weight.  (Summed over all strings the second component is `Σ_x |x|·w(x)`, which for a
normalised grammar is the expected length.) -/
theorem expectation_lifting (G : CFG σ K) (n : Nat) (X : σ) (x : List σ) :
    (WN (liftExpectation G) n X x).p = WN G n X x ∧
    (WN (liftExpectation G) n X x).r = (x.length : K) * WN G n X x := by
  induction n generalizing X x with
  | zero => simp [WN]
  | succ n ih =>
    have hb := fun (body : List σ) => lift_Wbody G.V (WN (liftExpectation G) n) (WN G n)
      (fun s u => (ih s u).1) (fun s u => (ih s u).2) body x
    have hVV : (liftExpectation G).V = G.V := rfl
    constructor
    · simp only [WN, lsum_eq_sum, Expc.lsum_p]
      rw [lift_rules_filter, hVV]
      simp only [List.map_map, Function.comp_def, Expc.mul_p]
      congr 1
      apply List.map_congr_left
      intro r _
      rw [(hb r.body).1]
    · simp only [WN, lsum_eq_sum, Expc.lsum_r]
      rw [lift_rules_filter, hVV, ← List.sum_map_mul_left]
      simp only [List.map_map, Function.comp_def, Expc.mul_r]
      congr 1
      apply List.map_congr_left
      intro r _
      rw [(hb r.body).1, mul_left_comm (x.length : K), ← (hb r.body).2]
      ring

end

/-! ### non-vacuity

`S → a S (1/2) | ε (1/4) | D (1/3)`, `D → D (1)`, over `ℚ`, symbols are numbers
(`S = 0`, `a = 1`, `D = 2`).  Least solution: `Z S = 1/2`, `Z D = 0`, `Z a = 1`. -/
section
private def exQ : CFG Nat ℚ :=
  { S := 0, V := [1], rules := [⟨1/2, 0, [1, 0]⟩, ⟨1/4, 0, []⟩, ⟨1/3, 0, [2]⟩, ⟨1, 2, [2]⟩] }
private def exZ : Nat → ℚ := fun s => if s = 0 then 1/2 else if s = 2 then 0 else 1

/-- hypotheses of `ln_heads_sum_one` at `X = S` -/
example : exZ 0 = ((exQ.rules.filter (fun r => r.head = 0)).map fun r => r.w * (r.body.map exZ).prod).sum
    ∧ exZ 0 ≠ 0 := by
  norm_num [exQ, exZ, List.filter]

/-- hypotheses of `ln_proportional` (with a symbol, `D`, of total weight zero that has a rule) -/
example : (∀ a ∈ exQ.V, exZ a = 1) ∧ (∀ b, exZ b = 0 → ∀ n y, WN exQ n b y = 0) := by
  constructor
  · simp [exQ, exZ]
  · intro b hb
    have hb2 : b = 2 := by
      unfold exZ at hb
      split at hb
      · norm_num at hb
      · split at hb
        · assumption
        · norm_num at hb
    subst hb2
    intro n
    induction n with
    | zero => intro y; rfl
    | succ n ih =>
      intro y
      simp only [WN, lsum_eq_sum, exQ]
      simp only [List.filter, Nat.reduceEqDiff, decide_false, decide_true,
        List.map_cons, List.map_nil, List.sum_cons, List.sum_nil, add_zero, one_mul]
      rw [Wbody_singleton]
      simp only [Wsym, List.mem_singleton, Nat.reduceEqDiff, if_false]
      exact ih y

/-- conclusion of `ln_proportional` on `a a`: `1/8 * 1/2 = 1/16`, and both sides are non-zero -/
example : WN (locallyNormalize (·⁻¹) exQ exZ) 3 0 [1, 1] = 1/8 ∧ WN exQ 3 0 [1, 1] = 1/16 := by
  constructor
  · norm_num [WN, Wbody, Wsym, splits, exQ, exZ, locallyNormalize, lnWeight, List.filter]
    simp
  · norm_num [WN, Wbody, Wsym, splits, exQ, List.filter]
    simp

/-- `D → D` is skipped because `Z D = 0`; `S → D` gets weight zero, which `CFG.add` then drops -/
example : ((locallyNormalize (·⁻¹) exQ exZ).rules.map (·.w)) = [1/2, 1/2, 0]
    ∧ ((locallyNormalizeDrop (·⁻¹) exQ exZ).rules.map (·.w)) = [1/2, 1/2] := by
  norm_num [locallyNormalizeDrop, dropZero, locallyNormalize, lnWeight, exQ, exZ, List.filter]

/-- the lifted grammar computes something non-trivial: `a a` has weight 1/16 and `.r = 2 · 1/16` -/
example : (WN (liftExpectation exQ) 3 0 [1, 1]).r = 1/8 ∧ WN exQ 3 0 [1, 1] = 1/16 := by
  rw [(expectation_lifting exQ 3 0 [1, 1]).2]
  have : WN exQ 3 0 [1, 1] = 1/16 := by
    norm_num [WN, Wbody, Wsym, splits, exQ, List.filter]
    simp
  rw [this]; norm_num

end

end Genlm
