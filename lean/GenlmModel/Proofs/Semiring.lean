import GenlmModel.Generated.Semiring
import Mathlib.Algebra.Order.Field.Basic
import Mathlib.Algebra.Order.Monoid.WithTop
import Mathlib.Algebra.Order.Ring.Unbundled.Basic
import Mathlib.Data.EReal.Operations
import Mathlib.Analysis.SpecialFunctions.Log.Basic
import Mathlib.Tactic.Ring
import Mathlib.Tactic.FieldSimp
import Mathlib.Tactic.NormNum
import Mathlib.Tactic.Positivity
/-! Closed-semiring laws of the shipped weight types.

Every statement is about the GENERATED definitions `Genlm.Gen.<Type>.{zeroV, oneV, add, mul, star}` (translated
from `genlm/grammar/semiring.py`); the proofs unfold them, so a change of the Python source that breaks a law
breaks the proof.  Law names are uniform: `Genlm.SemiringLaws.<Type>.add_assoc'` etc.; `star_left'` is
`star a = 1 + a * star a`, `star_right'` is `star a = 1 + star a * a`.

Domains (hypotheses are stated per law and are the weakest that make the law true):
* `Boolean`: all values.
* `Real`, `Float`: any field; star laws need `a ≠ 1`.
* `MaxTimes`: any linearly ordered commutative semiring (in particular any linearly ordered field);
  `zero_add'`, `add_zero'` need `0 ≤ a`, `left_distrib'` needs `0 ≤ a`, `right_distrib'` needs `0 ≤ c`
  (all four are FALSE for negative values, see the counter-examples); star laws need `a ≤ 1`.
* `MaxPlus`: `WithBot K`, `K` any linearly ordered additive commutative monoid (in particular group), `negInf = ⊥`;
  star laws need `a ≤ 0`.
* `Expectation`: pairs over any field; star laws need `a.1 ≠ 1`.
* `Entropy`: tagged pairs over any field, laws are equalities of the score component for `Valid` operands.
* `Log`: `EReal` with `negInf = ⊥` and any lift of the real `log`/`exp`/`log1p`; laws on the domain `a ≠ ⊤`
  (`-∞` or finite); star laws need `a < 0`.
-/
namespace Genlm
namespace SemiringLaws

/-! ## Boolean -/
namespace Boolean
open Gen.Boolean

theorem add_assoc' (a b c : Bool) : add (add a b) c = add a (add b c) := by
  cases a <;> cases b <;> cases c <;> rfl
theorem add_comm' (a b : Bool) : add a b = add b a := by cases a <;> cases b <;> rfl
theorem zero_add' (a : Bool) : add zeroV a = a := by cases a <;> rfl
theorem add_zero' (a : Bool) : add a zeroV = a := by cases a <;> rfl
theorem mul_assoc' (a b c : Bool) : mul (mul a b) c = mul a (mul b c) := by
  cases a <;> cases b <;> cases c <;> rfl
theorem mul_comm' (a b : Bool) : mul a b = mul b a := by cases a <;> cases b <;> rfl
theorem one_mul' (a : Bool) : mul oneV a = a := by cases a <;> rfl
theorem mul_one' (a : Bool) : mul a oneV = a := by cases a <;> rfl
theorem left_distrib' (a b c : Bool) : mul a (add b c) = add (mul a b) (mul a c) := by
  cases a <;> cases b <;> cases c <;> rfl
theorem right_distrib' (a b c : Bool) : mul (add a b) c = add (mul a c) (mul b c) := by
  cases a <;> cases b <;> cases c <;> rfl
theorem zero_mul' (a : Bool) : mul zeroV a = zeroV := by cases a <;> rfl
theorem mul_zero' (a : Bool) : mul a zeroV = zeroV := by cases a <;> rfl
theorem star_left' (a : Bool) : Gen.Boolean.star a = add oneV (mul a (Gen.Boolean.star a)) := by cases a <;> rfl
theorem star_right' (a : Bool) : Gen.Boolean.star a = add oneV (mul (Gen.Boolean.star a) a) := by cases a <;> rfl
/-- `add` is idempotent (the Boolean semiring is a dioid). -/
theorem add_idem' (a : Bool) : add a a = a := by cases a <;> rfl

example : mul true (add false true) = add (mul true false) (mul true true) := left_distrib' _ _ _
example : zeroV ≠ oneV := by decide
end Boolean

/-! ## Real -/
namespace Real
open Gen.Real
variable {T : Type} [Field T]

theorem add_assoc' (a b c : T) : add (add a b) c = add a (add b c) := by simp only [add]; ring
theorem add_comm' (a b : T) : add a b = add b a := by simp only [add]; ring
theorem zero_add' (a : T) : add zeroV a = a := by simp only [add, zeroV]; ring
theorem add_zero' (a : T) : add a zeroV = a := by simp only [add, zeroV]; ring
theorem mul_assoc' (a b c : T) : mul (mul a b) c = mul a (mul b c) := by simp only [mul]; ring
theorem mul_comm' (a b : T) : mul a b = mul b a := by simp only [mul]; ring
theorem one_mul' (a : T) : mul oneV a = a := by simp only [mul, oneV]; ring
theorem mul_one' (a : T) : mul a oneV = a := by simp only [mul, oneV]; ring
theorem left_distrib' (a b c : T) : mul a (add b c) = add (mul a b) (mul a c) := by
  simp only [mul, add]; ring
theorem right_distrib' (a b c : T) : mul (add a b) c = add (mul a c) (mul b c) := by
  simp only [mul, add]; ring
theorem zero_mul' (a : T) : mul zeroV a = zeroV := by simp only [mul, zeroV]; ring
theorem mul_zero' (a : T) : mul a zeroV = zeroV := by simp only [mul, zeroV]; ring
theorem star_left' (a : T) (h : a ≠ 1) : Gen.Real.star a = add oneV (mul a (Gen.Real.star a)) := by
  have h1 : (1 : T) - a ≠ 0 := sub_ne_zero.2 (Ne.symm h)
  simp only [Gen.Real.star, add, mul, oneV]; field_simp; ring
theorem star_right' (a : T) (h : a ≠ 1) : Gen.Real.star a = add oneV (mul (Gen.Real.star a) a) := by
  have h1 : (1 : T) - a ≠ 0 := sub_ne_zero.2 (Ne.symm h)
  simp only [Gen.Real.star, add, mul, oneV]; field_simp; ring

example : Gen.Real.star (1 / 2 : ℚ) = 2 := by norm_num [Gen.Real.star]
example : Gen.Real.star (1 / 2 : ℚ) = add oneV (mul (1 / 2) (Gen.Real.star (1 / 2))) := star_left' _ (by norm_num)
example : mul (2 : ℚ) (add 3 4) = 14 := by norm_num [mul, add]
/-- the side condition of the star laws is necessary: at `a = 1` the law fails (`1/0 = 0` in a field). -/
example : Gen.Real.star (1 : ℚ) ≠ add oneV (mul 1 (Gen.Real.star 1)) := by norm_num [Gen.Real.star, add, mul, oneV]
end Real

/-! ## Float (same algebra as `Real`, on bare scalars) -/
namespace Float
open Gen.Float
variable {T : Type} [Field T]

theorem add_assoc' (a b c : T) : add (add a b) c = add a (add b c) := by simp only [add]; ring
theorem add_comm' (a b : T) : add a b = add b a := by simp only [add]; ring
theorem zero_add' (a : T) : add zeroV a = a := by simp only [add, zeroV]; ring
theorem add_zero' (a : T) : add a zeroV = a := by simp only [add, zeroV]; ring
theorem mul_assoc' (a b c : T) : mul (mul a b) c = mul a (mul b c) := by simp only [mul]; ring
theorem mul_comm' (a b : T) : mul a b = mul b a := by simp only [mul]; ring
theorem one_mul' (a : T) : mul oneV a = a := by simp only [mul, oneV]; ring
theorem mul_one' (a : T) : mul a oneV = a := by simp only [mul, oneV]; ring
theorem left_distrib' (a b c : T) : mul a (add b c) = add (mul a b) (mul a c) := by
  simp only [mul, add]; ring
theorem right_distrib' (a b c : T) : mul (add a b) c = add (mul a c) (mul b c) := by
  simp only [mul, add]; ring
theorem zero_mul' (a : T) : mul zeroV a = zeroV := by simp only [mul, zeroV]; ring
theorem mul_zero' (a : T) : mul a zeroV = zeroV := by simp only [mul, zeroV]; ring
theorem star_left' (a : T) (h : a ≠ 1) : Gen.Float.star a = add oneV (mul a (Gen.Float.star a)) := by
  have h1 : (1 : T) - a ≠ 0 := sub_ne_zero.2 (Ne.symm h)
  simp only [Gen.Float.star, add, mul, oneV]; field_simp; ring
theorem star_right' (a : T) (h : a ≠ 1) : Gen.Float.star a = add oneV (mul (Gen.Float.star a) a) := by
  have h1 : (1 : T) - a ≠ 0 := sub_ne_zero.2 (Ne.symm h)
  simp only [Gen.Float.star, add, mul, oneV]; field_simp; ring

example : Gen.Float.star (1 / 2 : ℚ) = 2 := by norm_num [Gen.Float.star]
example : Gen.Float.star (1 / 2 : ℚ) = add oneV (mul (Gen.Float.star (1 / 2)) (1 / 2)) := star_right' _ (by norm_num)
end Float

/-! ## MaxTimes -/
namespace MaxTimes
open Gen.MaxTimes
variable {T : Type} [CommSemiring T] [LinearOrder T] [IsOrderedRing T]
-- uniform signatures: every law takes the full ordered-semiring structure even when it uses only part of it
set_option linter.unusedSectionVars false

theorem add_assoc' (a b c : T) : add (add a b) c = add a (add b c) := by
  simp only [add]; exact max_assoc a b c
theorem add_comm' (a b : T) : add a b = add b a := by simp only [add]; exact max_comm a b
theorem zero_add' (a : T) (ha : 0 ≤ a) : add zeroV a = a := by
  simp only [add, zeroV]; exact max_eq_right ha
theorem add_zero' (a : T) (ha : 0 ≤ a) : add a zeroV = a := by
  simp only [add, zeroV]; exact max_eq_left ha
theorem mul_assoc' (a b c : T) : mul (mul a b) c = mul a (mul b c) := by
  simp only [mul]; exact _root_.mul_assoc a b c
theorem mul_comm' (a b : T) : mul a b = mul b a := by simp only [mul]; exact _root_.mul_comm a b
theorem one_mul' (a : T) : mul oneV a = a := by simp only [mul, oneV]; exact _root_.one_mul a
theorem mul_one' (a : T) : mul a oneV = a := by simp only [mul, oneV]; exact _root_.mul_one a
theorem left_distrib' (a b c : T) (ha : 0 ≤ a) : mul a (add b c) = add (mul a b) (mul a c) := by
  simp only [mul, add]; exact mul_max_of_nonneg b c ha
theorem right_distrib' (a b c : T) (hc : 0 ≤ c) : mul (add a b) c = add (mul a c) (mul b c) := by
  simp only [mul, add]; exact max_mul_of_nonneg a b hc
theorem zero_mul' (a : T) : mul zeroV a = zeroV := by simp only [mul, zeroV]; exact zero_mul a
theorem mul_zero' (a : T) : mul a zeroV = zeroV := by simp only [mul, zeroV]; exact mul_zero a
theorem star_left' (a : T) (h1 : a ≤ 1) : Gen.MaxTimes.star a = add oneV (mul a (Gen.MaxTimes.star a)) := by
  simp only [Gen.MaxTimes.star, add, mul, oneV]; rw [_root_.mul_one]; exact (max_eq_left h1).symm
theorem star_right' (a : T) (h1 : a ≤ 1) : Gen.MaxTimes.star a = add oneV (mul (Gen.MaxTimes.star a) a) := by
  simp only [Gen.MaxTimes.star, add, mul, oneV]; rw [_root_.one_mul]; exact (max_eq_left h1).symm
/-- `add` is idempotent. -/
theorem add_idem' (a : T) : add a a = a := by simp only [add]; exact max_self a
/-- the value domain `0 ≤ ·` is closed under the operations -/
theorem add_nonneg' (a b : T) (ha : 0 ≤ a) : 0 ≤ add a b := by
  simp only [add]; exact le_trans ha (le_max_left a b)
theorem mul_nonneg' (a b : T) (ha : 0 ≤ a) (hb : 0 ≤ b) : 0 ≤ mul a b := by
  simp only [mul]; exact mul_nonneg ha hb

example : mul (2 : ℚ) (add 3 4) = add (mul 2 3) (mul 2 4) := left_distrib' _ _ _ (by norm_num)
example : mul (2 : ℚ) (add 3 4) = 8 := by norm_num [mul, add]
example : Gen.MaxTimes.star (1 / 2 : ℚ) = add oneV (mul (1 / 2) (Gen.MaxTimes.star (1 / 2))) := star_left' _ (by norm_num)
/-- non-negativity is necessary for distributivity … -/
example : mul (-1 : ℚ) (add 0 1) ≠ add (mul (-1) 0) (mul (-1) 1) := by norm_num [mul, add]
/-- … and for `zero` to be the additive unit … -/
example : add zeroV (-1 : ℚ) ≠ -1 := by norm_num [add, zeroV]
/-- … and `a ≤ 1` is necessary for the star laws. -/
example : Gen.MaxTimes.star (2 : ℚ) ≠ add oneV (mul 2 (Gen.MaxTimes.star 2)) := by norm_num [Gen.MaxTimes.star, add, mul, oneV]
end MaxTimes

/-! ## MaxPlus on `WithBot K`, `negInf = ⊥` -/
namespace MaxPlus
open Gen.MaxPlus
variable {K : Type} [AddCommMonoid K] [LinearOrder K] [IsOrderedAddMonoid K]
-- uniform signatures: every law takes the full ordered-monoid structure even when it uses only part of it
set_option linter.unusedSectionVars false

local notation "𝟘" => zeroV (⊥ : WithBot K)

theorem add_assoc' (a b c : WithBot K) : add (add a b) c = add a (add b c) := by
  simp only [add]; exact max_assoc a b c
theorem add_comm' (a b : WithBot K) : add a b = add b a := by simp only [add]; exact max_comm a b
theorem zero_add' (a : WithBot K) : add 𝟘 a = a := by
  simp only [add, zeroV]; exact max_eq_right bot_le
theorem add_zero' (a : WithBot K) : add a 𝟘 = a := by
  simp only [add, zeroV]; exact max_eq_left bot_le
theorem mul_assoc' (a b c : WithBot K) : mul (mul a b) c = mul a (mul b c) := by
  simp only [mul]; exact _root_.add_assoc a b c
theorem mul_comm' (a b : WithBot K) : mul a b = mul b a := by simp only [mul]; exact _root_.add_comm a b
theorem one_mul' (a : WithBot K) : mul oneV a = a := by simp only [mul, oneV]; exact _root_.zero_add a
theorem mul_one' (a : WithBot K) : mul a oneV = a := by simp only [mul, oneV]; exact _root_.add_zero a
theorem left_distrib' (a b c : WithBot K) : mul a (add b c) = add (mul a b) (mul a c) := by
  simp only [mul, add]; exact add_max a b c
theorem right_distrib' (a b c : WithBot K) : mul (add a b) c = add (mul a c) (mul b c) := by
  simp only [mul, add]; exact max_add a b c
theorem zero_mul' (a : WithBot K) : mul 𝟘 a = 𝟘 := by simp only [mul, zeroV]; exact WithBot.bot_add a
theorem mul_zero' (a : WithBot K) : mul a 𝟘 = 𝟘 := by simp only [mul, zeroV]; exact WithBot.add_bot a
theorem star_left' (a : WithBot K) (h0 : a ≤ 0) : Gen.MaxPlus.star a = add oneV (mul a (Gen.MaxPlus.star a)) := by
  simp only [Gen.MaxPlus.star, add, mul, oneV]; rw [_root_.add_zero]; exact (max_eq_left h0).symm
theorem star_right' (a : WithBot K) (h0 : a ≤ 0) : Gen.MaxPlus.star a = add oneV (mul (Gen.MaxPlus.star a) a) := by
  simp only [Gen.MaxPlus.star, add, mul, oneV]; rw [_root_.zero_add]; exact (max_eq_left h0).symm
/-- `add` is idempotent. -/
theorem add_idem' (a : WithBot K) : add a a = a := by simp only [add]; exact max_self a

example : mul ((2 : ℚ) : WithBot ℚ) (add ((3 : ℚ) : WithBot ℚ) ((4 : ℚ) : WithBot ℚ)) = ((6 : ℚ) : WithBot ℚ) := by
  simp only [mul, add, ← WithBot.coe_max, ← WithBot.coe_add]; norm_num
example : zeroV (⊥ : WithBot ℚ) ≠ oneV := by simp [zeroV, oneV]
example : Gen.MaxPlus.star ((-1 : ℚ) : WithBot ℚ) = add oneV (mul ((-1 : ℚ) : WithBot ℚ) (Gen.MaxPlus.star ((-1 : ℚ) : WithBot ℚ))) :=
  star_left' _ (by rw [← WithBot.coe_zero, WithBot.coe_le_coe]; norm_num)
/-- `a ≤ 0` is necessary for the star laws -/
example : Gen.MaxPlus.star ((1 : ℚ) : WithBot ℚ) ≠ add oneV (mul ((1 : ℚ) : WithBot ℚ) (Gen.MaxPlus.star ((1 : ℚ) : WithBot ℚ))) := by
  simp only [Gen.MaxPlus.star, add, mul, oneV]; norm_num
end MaxPlus

/-! ## Expectation -/
namespace Expectation
open Gen.Expectation
variable {T : Type} [Field T]

theorem add_assoc' (a b c : T × T) : add (add a b) c = add a (add b c) := by
  ext <;> dsimp only [add] <;> ring
theorem add_comm' (a b : T × T) : add a b = add b a := by ext <;> dsimp only [add] <;> ring
theorem zero_add' (a : T × T) : add zeroV a = a := by ext <;> dsimp only [add, zeroV] <;> ring
theorem add_zero' (a : T × T) : add a zeroV = a := by ext <;> dsimp only [add, zeroV] <;> ring
theorem mul_assoc' (a b c : T × T) : mul (mul a b) c = mul a (mul b c) := by
  ext <;> dsimp only [mul] <;> ring
theorem mul_comm' (a b : T × T) : mul a b = mul b a := by ext <;> dsimp only [mul] <;> ring
theorem one_mul' (a : T × T) : mul oneV a = a := by ext <;> dsimp only [mul, oneV] <;> ring
theorem mul_one' (a : T × T) : mul a oneV = a := by ext <;> dsimp only [mul, oneV] <;> ring
theorem left_distrib' (a b c : T × T) : mul a (add b c) = add (mul a b) (mul a c) := by
  ext <;> dsimp only [mul, add] <;> ring
theorem right_distrib' (a b c : T × T) : mul (add a b) c = add (mul a c) (mul b c) := by
  ext <;> dsimp only [mul, add] <;> ring
theorem zero_mul' (a : T × T) : mul zeroV a = zeroV := by ext <;> dsimp only [mul, zeroV] <;> ring
theorem mul_zero' (a : T × T) : mul a zeroV = zeroV := by ext <;> dsimp only [mul, zeroV] <;> ring
theorem star_left' (a : T × T) (h : a.1 ≠ 1) : Gen.Expectation.star a = add oneV (mul a (Gen.Expectation.star a)) := by
  have h1 : (1 : T) - a.1 ≠ 0 := sub_ne_zero.2 (Ne.symm h)
  ext <;> dsimp only [Gen.Expectation.star, add, mul, oneV] <;> field_simp <;> ring
theorem star_right' (a : T × T) (h : a.1 ≠ 1) : Gen.Expectation.star a = add oneV (mul (Gen.Expectation.star a) a) := by
  have h1 : (1 : T) - a.1 ≠ 0 := sub_ne_zero.2 (Ne.symm h)
  ext <;> dsimp only [Gen.Expectation.star, add, mul, oneV] <;> field_simp <;> ring

example : mul ((2 : ℚ), (3 : ℚ)) (5, 7) = (10, 29) := by norm_num [mul]
example : Gen.Expectation.star ((1 / 2 : ℚ), (3 : ℚ)) = (2, 12) := by norm_num [Gen.Expectation.star]
example : Gen.Expectation.star ((1 / 2 : ℚ), (3 : ℚ)) = add oneV (mul (1 / 2, 3) (Gen.Expectation.star (1 / 2, 3))) :=
  star_left' _ (by norm_num)
end Expectation

/-! ## Entropy

Values are `(tag, p, r)`; the tag models Python object identity with the class constants (`x is Entropy.zero`,
`x is Entropy.one`).  A value is `Valid` when its tag tells the truth about its score.  All laws are equalities
of the score component `.2 = (p, r)`. -/
namespace Entropy
open Gen.Entropy
open Gen (Tag)
variable {T : Type} [Field T]

/-- the identity tag is truthful: *the* zero object has score `(0,0)`, *the* one object has score `(1,0)` -/
def Valid (a : Tag × T × T) : Prop := (a.1 = Tag.zero → a.2 = (0, 0)) ∧ (a.1 = Tag.one → a.2 = (1, 0))

theorem zeroV_valid : Valid (zeroV : Tag × T × T) := ⟨fun _ => rfl, fun h => (by cases h)⟩
theorem oneV_valid : Valid (oneV : Tag × T × T) := ⟨fun h => (by cases h), fun _ => rfl⟩
/-- any freshly constructed object is valid, whatever its score -/
theorem fresh_valid (s : T × T) : Valid (Tag.fresh, s) := ⟨fun h => (by cases h), fun h => (by cases h)⟩

/-- on valid operands the shortcuts of `__add__` are invisible in the score -/
theorem add_score (a b : Tag × T × T) (ha : Valid a) (hb : Valid b) :
    (add a b).2 = (a.2.1 + b.2.1, a.2.2 + b.2.2) := by
  unfold add
  split_ifs with h1 h2
  · rw [hb.1 h1]; ext <;> dsimp only <;> ring
  · rw [ha.1 h2]; ext <;> dsimp only <;> ring
  · rfl

/-- on valid operands the shortcuts of `__mul__` are invisible in the score -/
theorem mul_score (a b : Tag × T × T) (ha : Valid a) (hb : Valid b) :
    (mul a b).2 = (a.2.1 * b.2.1, a.2.1 * b.2.2 + a.2.2 * b.2.1) := by
  unfold mul
  split_ifs with h1 h2 h3 h4
  · rw [hb.2 h1]; ext <;> dsimp only <;> ring
  · rw [ha.2 h2]; ext <;> dsimp only <;> ring
  · rw [hb.1 h3]; ext <;> dsimp only <;> ring
  · rw [ha.1 h4]; ext <;> dsimp only <;> ring
  · rfl

theorem star_score (a : Tag × T × T) :
    (Gen.Entropy.star a).2 = (1 / (1 - a.2.1), 1 / (1 - a.2.1) * (1 / (1 - a.2.1)) * a.2.2) := rfl

theorem add_valid {a b : Tag × T × T} (ha : Valid a) (hb : Valid b) : Valid (add a b) := by
  unfold add
  split_ifs with h1 h2
  · exact ha
  · exact hb
  · exact fresh_valid _

theorem mul_valid {a b : Tag × T × T} (ha : Valid a) (hb : Valid b) : Valid (mul a b) := by
  unfold mul
  split_ifs with h1 h2 h3 h4
  · exact ha
  · exact hb
  · exact zeroV_valid
  · exact zeroV_valid
  · exact fresh_valid _

theorem star_valid (a : Tag × T × T) : Valid (Gen.Entropy.star a) := fresh_valid _

/-- results do not depend on whether an operand is *the* constant object or a freshly built equal value -/
theorem tag_irrelevant_add {a b a' b' : Tag × T × T} (ha : Valid a) (hb : Valid b) (ha' : Valid a')
    (hb' : Valid b') (ea : a'.2 = a.2) (eb : b'.2 = b.2) : (add a b).2 = (add a' b').2 := by
  rw [add_score a b ha hb, add_score a' b' ha' hb', ea, eb]

theorem tag_irrelevant_mul {a b a' b' : Tag × T × T} (ha : Valid a) (hb : Valid b) (ha' : Valid a')
    (hb' : Valid b') (ea : a'.2 = a.2) (eb : b'.2 = b.2) : (mul a b).2 = (mul a' b').2 := by
  rw [mul_score a b ha hb, mul_score a' b' ha' hb', ea, eb]

theorem tag_irrelevant_star {a a' : Tag × T × T} (ea : a'.2 = a.2) : (Gen.Entropy.star a).2 = (Gen.Entropy.star a').2 := by
  rw [star_score, star_score, ea]

theorem tag_irrelevant {a b a' b' : Tag × T × T} (ha : Valid a) (hb : Valid b) (ha' : Valid a')
    (hb' : Valid b') (ea : a'.2 = a.2) (eb : b'.2 = b.2) :
    (add a b).2 = (add a' b').2 ∧ (mul a b).2 = (mul a' b').2 :=
  ⟨tag_irrelevant_add ha hb ha' hb' ea eb, tag_irrelevant_mul ha hb ha' hb' ea eb⟩

section laws
variable {a b c : Tag × T × T}

theorem add_assoc' (ha : Valid a) (hb : Valid b) (hc : Valid c) :
    (add (add a b) c).2 = (add a (add b c)).2 := by
  rw [add_score _ _ (add_valid ha hb) hc, add_score _ _ ha (add_valid hb hc), add_score _ _ ha hb,
    add_score _ _ hb hc]
  ext <;> dsimp only <;> ring
theorem add_comm' (ha : Valid a) (hb : Valid b) : (add a b).2 = (add b a).2 := by
  rw [add_score _ _ ha hb, add_score _ _ hb ha]; ext <;> dsimp only <;> ring
theorem zero_add' (ha : Valid a) : (add zeroV a).2 = a.2 := by
  rw [add_score _ _ zeroV_valid ha]; ext <;> dsimp only [zeroV] <;> ring
theorem add_zero' (ha : Valid a) : (add a zeroV).2 = a.2 := by
  rw [add_score _ _ ha zeroV_valid]; ext <;> dsimp only [zeroV] <;> ring
theorem mul_assoc' (ha : Valid a) (hb : Valid b) (hc : Valid c) :
    (mul (mul a b) c).2 = (mul a (mul b c)).2 := by
  rw [mul_score _ _ (mul_valid ha hb) hc, mul_score _ _ ha (mul_valid hb hc), mul_score _ _ ha hb,
    mul_score _ _ hb hc]
  ext <;> dsimp only <;> ring
theorem mul_comm' (ha : Valid a) (hb : Valid b) : (mul a b).2 = (mul b a).2 := by
  rw [mul_score _ _ ha hb, mul_score _ _ hb ha]; ext <;> dsimp only <;> ring
theorem one_mul' (ha : Valid a) : (mul oneV a).2 = a.2 := by
  rw [mul_score _ _ oneV_valid ha]; ext <;> dsimp only [oneV] <;> ring
theorem mul_one' (ha : Valid a) : (mul a oneV).2 = a.2 := by
  rw [mul_score _ _ ha oneV_valid]; ext <;> dsimp only [oneV] <;> ring
theorem left_distrib' (ha : Valid a) (hb : Valid b) (hc : Valid c) :
    (mul a (add b c)).2 = (add (mul a b) (mul a c)).2 := by
  rw [mul_score _ _ ha (add_valid hb hc), add_score _ _ (mul_valid ha hb) (mul_valid ha hc),
    add_score _ _ hb hc, mul_score _ _ ha hb, mul_score _ _ ha hc]
  ext <;> dsimp only <;> ring
theorem right_distrib' (ha : Valid a) (hb : Valid b) (hc : Valid c) :
    (mul (add a b) c).2 = (add (mul a c) (mul b c)).2 := by
  rw [mul_score _ _ (add_valid ha hb) hc, add_score _ _ (mul_valid ha hc) (mul_valid hb hc),
    add_score _ _ ha hb, mul_score _ _ ha hc, mul_score _ _ hb hc]
  ext <;> dsimp only <;> ring
theorem zero_mul' (ha : Valid a) : (mul zeroV a).2 = (zeroV : Tag × T × T).2 := by
  rw [mul_score _ _ zeroV_valid ha]; ext <;> dsimp only [zeroV] <;> ring
theorem mul_zero' (ha : Valid a) : (mul a zeroV).2 = (zeroV : Tag × T × T).2 := by
  rw [mul_score _ _ ha zeroV_valid]; ext <;> dsimp only [zeroV] <;> ring
theorem star_left' (ha : Valid a) (h : a.2.1 ≠ 1) : (Gen.Entropy.star a).2 = (add oneV (mul a (Gen.Entropy.star a))).2 := by
  have h1 : (1 : T) - a.2.1 ≠ 0 := sub_ne_zero.2 (Ne.symm h)
  rw [add_score _ _ oneV_valid (mul_valid ha (star_valid a)), mul_score _ _ ha (star_valid a), star_score]
  ext <;> dsimp only [oneV] <;> field_simp <;> ring
theorem star_right' (ha : Valid a) (h : a.2.1 ≠ 1) : (Gen.Entropy.star a).2 = (add oneV (mul (Gen.Entropy.star a) a)).2 := by
  have h1 : (1 : T) - a.2.1 ≠ 0 := sub_ne_zero.2 (Ne.symm h)
  rw [add_score _ _ oneV_valid (mul_valid (star_valid a) ha), mul_score _ _ (star_valid a) ha, star_score]
  ext <;> dsimp only [oneV] <;> field_simp <;> ring
end laws

example : (mul (Tag.fresh, (2 : ℚ), (3 : ℚ)) (Tag.fresh, 5, 7)).2 = (10, 29) := by
  simp only [mul, reduceCtorEq, if_false]; norm_num
example : (mul (oneV : Tag × ℚ × ℚ) (Tag.fresh, 5, 7)).2 = (mul (Tag.fresh, 1, 0) (Tag.fresh, 5, 7)).2 :=
  tag_irrelevant_mul oneV_valid (fresh_valid _) (fresh_valid _) (fresh_valid _) rfl rfl
example : (Gen.Entropy.star (Tag.fresh, (1 / 2 : ℚ), (3 : ℚ))).2 = (2, 12) := by
  norm_num [Gen.Entropy.star]
/-- validity is necessary: an object *tagged* zero with a non-zero score breaks `add_comm'`
(not constructible in Python, where the tag is object identity with a constant of known score) -/
example : (add (Tag.zero, (1 : ℚ), (0 : ℚ)) (Tag.zero, 2, 0)).2 ≠ (add (Tag.zero, (2 : ℚ), (0 : ℚ)) (Tag.zero, 1, 0)).2 := by
  norm_num [add]
end Entropy

/-! ## Log

Carrier `EReal`, `negInf = ⊥`.  The generated operations are parametric in `log`, `exp`, `log1p`; we assume only
that they extend the real functions (`Lift`), which holds for IEEE/numpy semantics up to rounding. -/
namespace Log
open Gen.Log

/-- the core identity behind the finite branch of `Log.__add__` (first order) -/
theorem logaddexp_left (a b : ℝ) :
    a + Real.log (1 + Real.exp (b - a)) = Real.log (Real.exp a + Real.exp b) := by
  have ha := Real.exp_pos a
  have hb := Real.exp_pos b
  have h : 1 + Real.exp b / Real.exp a = (Real.exp a + Real.exp b) / Real.exp a := by field_simp
  rw [Real.exp_sub, h, Real.log_div (by positivity) (by positivity), Real.log_exp]; ring

/-- the core identity behind the finite branch of `Log.__add__` (second order) -/
theorem logaddexp_right (a b : ℝ) :
    b + Real.log (1 + Real.exp (a - b)) = Real.log (Real.exp a + Real.exp b) := by
  rw [logaddexp_left b a, _root_.add_comm]

/-- `log`, `exp`, `log1p` on `EReal` extend the real functions (nothing is assumed about `⊤`, about `log`
of non-positive numbers, or about `log1p` below `-1`) -/
structure Lift (log exp log1p : EReal → EReal) : Prop where
  exp_coe : ∀ x : ℝ, exp (x : EReal) = ((Real.exp x : ℝ) : EReal)
  exp_bot : exp ⊥ = 0
  log_coe : ∀ x : ℝ, 0 < x → log (x : EReal) = ((Real.log x : ℝ) : EReal)
  log1p_coe : ∀ x : ℝ, -1 < x → log1p (x : EReal) = ((Real.log (1 + x) : ℝ) : EReal)

variable {log exp log1p : EReal → EReal}

local notation "𝟘" => zeroV (⊥ : EReal)
local notation "𝟙" => (oneV : EReal)
local notation:65 a " ⊕ " b => add (⊥ : EReal) log exp a b
local notation:70 a " ⊗ " b => mul (⊥ : EReal) a b

theorem add_bot_left (x : EReal) : add ⊥ log exp ⊥ x = x := by simp only [add, if_true]
theorem add_bot_right (x : EReal) : add ⊥ log exp x ⊥ = x := by
  unfold add
  by_cases h : x = ⊥
  · rw [if_pos h, h]
  · rw [if_neg h, if_pos rfl]
theorem mul_bot_left (x : EReal) : mul ⊥ ⊥ x = ⊥ := by simp only [mul, if_true]
theorem mul_bot_right (x : EReal) : mul ⊥ x ⊥ = ⊥ := by
  unfold mul
  by_cases h : x = ⊥
  · rw [if_pos h]
  · rw [if_neg h, if_pos rfl]
/-- `Log.__mul__` on finite values is `+` -/
theorem mul_coe (a b : ℝ) : mul ⊥ (a : EReal) (b : EReal) = ((a + b : ℝ) : EReal) := by
  simp only [mul, EReal.coe_ne_bot, if_false, EReal.coe_add]

/-- `Log.__add__` on finite values is `log (exp a + exp b)` -/
theorem add_coe (L : Lift log exp log1p) (a b : ℝ) :
    add ⊥ log exp (a : EReal) (b : EReal) = ((Real.log (Real.exp a + Real.exp b) : ℝ) : EReal) := by
  simp only [add, EReal.coe_ne_bot, if_false]
  split_ifs with h
  · rw [← EReal.coe_sub, L.exp_coe, ← EReal.coe_one, ← EReal.coe_add, L.log_coe _ (by positivity),
      ← EReal.coe_add, logaddexp_left]
  · rw [← EReal.coe_sub, L.exp_coe, ← EReal.coe_one, ← EReal.coe_add, L.log_coe _ (by positivity),
      ← EReal.coe_add, logaddexp_right]

theorem star_bot (L : Lift log exp log1p) : Gen.Log.star exp log1p ⊥ = 0 := by
  have h := L.log1p_coe 0 (by norm_num)
  simp only [EReal.coe_zero, _root_.add_zero, Real.log_one] at h
  simp only [Gen.Log.star, L.exp_bot, neg_zero, h]

theorem star_coe (L : Lift log exp log1p) (a : ℝ) (ha : a < 0) :
    Gen.Log.star exp log1p (a : EReal) = ((-Real.log (1 - Real.exp a) : ℝ) : EReal) := by
  have h1 : Real.exp a < 1 := Real.exp_lt_one_iff.2 ha
  simp only [Gen.Log.star]
  rw [L.exp_coe, ← EReal.coe_neg, L.log1p_coe _ (by linarith), ← EReal.coe_neg, ← sub_eq_add_neg]

/-- the value domain `· ≠ ⊤` (i.e. `-∞` or finite) is closed under `add` and `mul` -/
theorem add_ne_top (L : Lift log exp log1p) {a b : EReal} (ha : a ≠ ⊤) (hb : b ≠ ⊤) : (a ⊕ b) ≠ ⊤ := by
  induction a using EReal.rec with
  | bot => rwa [add_bot_left]
  | top => exact absurd rfl ha
  | coe a =>
    induction b using EReal.rec with
    | bot => rwa [add_bot_right]
    | top => exact absurd rfl hb
    | coe b => rw [add_coe L]; exact EReal.coe_ne_top _

theorem mul_ne_top {a b : EReal} (ha : a ≠ ⊤) (hb : b ≠ ⊤) : (a ⊗ b) ≠ ⊤ := by
  induction a using EReal.rec with
  | bot => rw [mul_bot_left]; exact bot_ne_top
  | top => exact absurd rfl ha
  | coe a =>
    induction b using EReal.rec with
    | bot => rw [mul_bot_right]; exact bot_ne_top
    | top => exact absurd rfl hb
    | coe b => rw [mul_coe]; exact EReal.coe_ne_top _

section laws
variable (L : Lift log exp log1p) {a b c : EReal}
include L

theorem add_comm' (ha : a ≠ ⊤) (hb : b ≠ ⊤) : (a ⊕ b) = (b ⊕ a) := by
  induction a using EReal.rec with
  | bot => rw [add_bot_left, add_bot_right]
  | top => exact absurd rfl ha
  | coe a =>
    induction b using EReal.rec with
    | bot => rw [add_bot_left, add_bot_right]
    | top => exact absurd rfl hb
    | coe b => rw [add_coe L, add_coe L, _root_.add_comm]

theorem add_assoc' (ha : a ≠ ⊤) (hb : b ≠ ⊤) (hc : c ≠ ⊤) : ((a ⊕ b) ⊕ c) = (a ⊕ (b ⊕ c)) := by
  induction a using EReal.rec with
  | bot => simp only [add_bot_left]
  | top => exact absurd rfl ha
  | coe a =>
    induction b using EReal.rec with
    | bot => simp only [add_bot_left, add_bot_right]
    | top => exact absurd rfl hb
    | coe b =>
      induction c using EReal.rec with
      | bot => simp only [add_bot_right]
      | top => exact absurd rfl hc
      | coe c =>
        have pa := Real.exp_pos a
        have pb := Real.exp_pos b
        have pc := Real.exp_pos c
        simp only [add_coe L]
        rw [Real.exp_log (by positivity), Real.exp_log (by positivity), _root_.add_assoc]

omit L in
theorem zero_add' : (𝟘 ⊕ a) = a := add_bot_left a
omit L in
theorem add_zero' : (a ⊕ 𝟘) = a := add_bot_right a

omit L in
theorem mul_comm' (ha : a ≠ ⊤) (hb : b ≠ ⊤) : (a ⊗ b) = (b ⊗ a) := by
  induction a using EReal.rec with
  | bot => rw [mul_bot_left, mul_bot_right]
  | top => exact absurd rfl ha
  | coe a =>
    induction b using EReal.rec with
    | bot => rw [mul_bot_left, mul_bot_right]
    | top => exact absurd rfl hb
    | coe b => rw [mul_coe, mul_coe, _root_.add_comm]

omit L in
theorem mul_assoc' (ha : a ≠ ⊤) (hb : b ≠ ⊤) (hc : c ≠ ⊤) : ((a ⊗ b) ⊗ c) = (a ⊗ (b ⊗ c)) := by
  induction a using EReal.rec with
  | bot => simp only [mul_bot_left]
  | top => exact absurd rfl ha
  | coe a =>
    induction b using EReal.rec with
    | bot => simp only [mul_bot_left, mul_bot_right]
    | top => exact absurd rfl hb
    | coe b =>
      induction c using EReal.rec with
      | bot => simp only [mul_bot_right]
      | top => exact absurd rfl hc
      | coe c => simp only [mul_coe, _root_.add_assoc]

omit L in
theorem one_mul' (ha : a ≠ ⊤) : (𝟙 ⊗ a) = a := by
  induction a using EReal.rec with
  | bot => rw [mul_bot_right]
  | top => exact absurd rfl ha
  | coe a => rw [oneV, ← EReal.coe_zero, mul_coe, _root_.zero_add]

omit L in
theorem mul_one' (ha : a ≠ ⊤) : (a ⊗ 𝟙) = a := by
  induction a using EReal.rec with
  | bot => rw [mul_bot_left]
  | top => exact absurd rfl ha
  | coe a => rw [oneV, ← EReal.coe_zero, mul_coe, _root_.add_zero]

omit L in
theorem zero_mul' : (𝟘 ⊗ a) = 𝟘 := mul_bot_left a
omit L in
theorem mul_zero' : (a ⊗ 𝟘) = 𝟘 := mul_bot_right a

theorem left_distrib' (ha : a ≠ ⊤) (hb : b ≠ ⊤) (hc : c ≠ ⊤) : (a ⊗ (b ⊕ c)) = ((a ⊗ b) ⊕ (a ⊗ c)) := by
  induction a using EReal.rec with
  | bot => simp only [mul_bot_left, add_bot_left]
  | top => exact absurd rfl ha
  | coe a =>
    induction b using EReal.rec with
    | bot => simp only [mul_bot_right, add_bot_left]
    | top => exact absurd rfl hb
    | coe b =>
      induction c using EReal.rec with
      | bot => simp only [mul_bot_right, add_bot_right]
      | top => exact absurd rfl hc
      | coe c =>
        have pa := Real.exp_pos a
        have pb := Real.exp_pos b
        have pc := Real.exp_pos c
        simp only [add_coe L, mul_coe]
        rw [Real.exp_add, Real.exp_add, ← _root_.mul_add, Real.log_mul (by positivity) (by positivity),
          Real.log_exp]

theorem right_distrib' (ha : a ≠ ⊤) (hb : b ≠ ⊤) (hc : c ≠ ⊤) : ((a ⊕ b) ⊗ c) = ((a ⊗ c) ⊕ (b ⊗ c)) := by
  rw [mul_comm' (add_ne_top L ha hb) hc, left_distrib' L hc ha hb, mul_comm' hc ha, mul_comm' hc hb]

theorem star_left' (ha : a < 0) : Gen.Log.star exp log1p a = (𝟙 ⊕ (a ⊗ Gen.Log.star exp log1p a)) := by
  induction a using EReal.rec with
  | bot => rw [star_bot L, mul_bot_left, add_bot_right, oneV]
  | top => exact absurd ha (not_lt.2 le_top)
  | coe a =>
    have ha' : a < 0 := by rwa [← EReal.coe_zero, EReal.coe_lt_coe_iff] at ha
    have h1 : Real.exp a < 1 := Real.exp_lt_one_iff.2 ha'
    have h2 : (0 : ℝ) < 1 - Real.exp a := by linarith
    rw [star_coe L a ha', mul_coe, oneV, ← EReal.coe_zero, add_coe L, Real.exp_zero, Real.exp_add,
      Real.exp_neg, Real.exp_log h2, ← Real.log_inv]
    congr 2
    field_simp; ring

theorem star_right' (ha : a < 0) : Gen.Log.star exp log1p a = (𝟙 ⊕ (Gen.Log.star exp log1p a ⊗ a)) := by
  have hs : Gen.Log.star exp log1p a ≠ ⊤ := by
    induction a using EReal.rec with
    | bot => rw [star_bot L]; exact EReal.zero_ne_top
    | top => exact absurd ha (not_lt.2 le_top)
    | coe a =>
      rw [star_coe L a (by rwa [← EReal.coe_zero, EReal.coe_lt_coe_iff] at ha)]; exact EReal.coe_ne_top _
  rw [mul_comm' hs (ne_top_of_lt ha)]; exact star_left' L ha
end laws

/-! ### a concrete lift (non-vacuity of `Lift`) -/
noncomputable def expE (x : EReal) : EReal :=
  if x = ⊥ then 0 else if x = ⊤ then ⊤ else ((Real.exp x.toReal : ℝ) : EReal)
noncomputable def logE (x : EReal) : EReal :=
  if x = ⊤ then ⊤ else if x ≤ 0 then ⊥ else ((Real.log x.toReal : ℝ) : EReal)
noncomputable def log1pE (x : EReal) : EReal := logE (1 + x)

theorem stdLift : Lift logE expE log1pE where
  exp_coe x := by simp only [expE, EReal.coe_ne_bot, EReal.coe_ne_top, if_false, EReal.toReal_coe]
  exp_bot := by simp only [expE, if_true]
  log_coe x hx := by
    have : ¬ ((x : EReal) ≤ 0) := by rw [← EReal.coe_zero, EReal.coe_le_coe_iff]; exact not_le.2 hx
    simp only [logE, EReal.coe_ne_top, this, if_false, EReal.toReal_coe]
  log1p_coe x hx := by
    have : ¬ (((1 + x : ℝ) : EReal) ≤ 0) := by
      rw [← EReal.coe_zero, EReal.coe_le_coe_iff]; exact not_le.2 (by linarith)
    simp only [log1pE, logE, ← EReal.coe_one, ← EReal.coe_add, EReal.coe_ne_top, this, if_false,
      EReal.toReal_coe]

example : add ⊥ logE expE ((0 : ℝ) : EReal) ((0 : ℝ) : EReal) = ((Real.log 2 : ℝ) : EReal) := by
  rw [add_coe stdLift, Real.exp_zero]; norm_num
example : mul ⊥ ((2 : ℝ) : EReal) ((3 : ℝ) : EReal) = ((5 : ℝ) : EReal) := by rw [mul_coe]; norm_num
example : Gen.Log.star expE log1pE ⊥ = add ⊥ logE expE oneV (mul ⊥ ⊥ (Gen.Log.star expE log1pE ⊥)) :=
  star_left' stdLift EReal.bot_lt_zero
example : zeroV (⊥ : EReal) ≠ oneV := by simp [zeroV, oneV]
end Log

end SemiringLaws
end Genlm
