import GenlmModel.Proofs.Tzeng
import Mathlib.LinearAlgebra.Matrix.ToLin
import Mathlib.LinearAlgebra.Dimension.Constructions
import Mathlib.LinearAlgebra.Dimension.Finrank

/-! `forward_basis`, `forward_conjugate`, `backward_conjugate`, `min` of `field_wfsa.Simple` in exact
arithmetic (`Model/Tzeng.lean`): the forward basis spans the forward space, conjugation preserves the
weights, and `min` has as many states as the rank of the Hankel matrix (hence is minimal).

Part I is the abstract theory on automata over `Fin n` (Kiefer 2020, Prop. 3.4 / 3.5), part II links
the list model to it. -/

set_option linter.unusedSectionVars false

namespace Genlm.TzMin
open Matrix Genlm.Cert Genlm.Tzeng

/-! ## Part I: abstract automata -/

/-- weighted automaton with state space `Fin n` and a (total) family of matrices -/
@[ext] structure FA (σ K : Type) (n : Nat) where
  s : Fin n → K
  M : σ → Matrix (Fin n) (Fin n) K
  t : Fin n → K

/-- rank of the Hankel matrix `H[u][v] = f (u ++ v)` = dimension of the span of its rows -/
noncomputable def hankelRank {σ K : Type} [Field K] (f : List σ → K) : ℕ :=
  Module.finrank K (Submodule.span K (Set.range fun (u : List σ) (v : List σ) => f (u ++ v)))

namespace FA
variable {σ K : Type} [Field K] {n : Nat} (X : FA σ K n)

def fwd (w : List σ) : Fin n → K := w.foldl (fun v a => v ᵥ* X.M a) X.s
def bwd (w : List σ) : Fin n → K := w.foldr (fun a v => X.M a *ᵥ v) X.t
def weight (w : List σ) : K := X.s ⬝ᵥ X.bwd w

/-- forward space -/
def FW : Submodule K (Fin n → K) := Submodule.span K (Set.range X.fwd)
/-- backward space -/
def BW : Submodule K (Fin n → K) := Submodule.span K (Set.range X.bwd)

theorem weight_congr {X Y : FA σ K n} (e : X = Y) (w : List σ) : X.weight w = Y.weight w := by
  rw [e]
theorem FW_congr {X Y : FA σ K n} (e : X = Y) : X.FW = Y.FW := by rw [e]
theorem BW_congr {X Y : FA σ K n} (e : X = Y) : X.BW = Y.BW := by rw [e]

theorem fwd_snoc (w : List σ) (a : σ) : X.fwd (w ++ [a]) = X.fwd w ᵥ* X.M a := by
  simp [fwd, List.foldl_append]

theorem bwd_cons (a : σ) (w : List σ) : X.bwd (a :: w) = X.M a *ᵥ X.bwd w := rfl

theorem foldl_dot_bwd (u v : List σ) : ∀ x : Fin n → K,
    (u.foldl (fun v a => v ᵥ* X.M a) x) ⬝ᵥ X.bwd v = x ⬝ᵥ X.bwd (u ++ v) := by
  induction u with
  | nil => intro x; rfl
  | cons a u ih =>
    intro x
    rw [List.foldl_cons, ih, List.cons_append, bwd_cons, dotProduct_mulVec]

theorem fwd_dot_bwd (u v : List σ) : X.fwd u ⬝ᵥ X.bwd v = X.weight (u ++ v) :=
  X.foldl_dot_bwd u v X.s

theorem fwd_dot_t (u : List σ) : X.fwd u ⬝ᵥ X.t = X.weight u := by
  have := X.fwd_dot_bwd u []
  rwa [List.append_nil] at this

theorem fwd_mem_FW (w : List σ) : X.fwd w ∈ X.FW := Submodule.subset_span ⟨w, rfl⟩
theorem bwd_mem_BW (w : List σ) : X.bwd w ∈ X.BW := Submodule.subset_span ⟨w, rfl⟩

theorem FW_closed (a : σ) (x : Fin n → K) (hx : x ∈ X.FW) : x ᵥ* X.M a ∈ X.FW := by
  induction hx using Submodule.span_induction with
  | mem x hx =>
    obtain ⟨w, rfl⟩ := hx
    rw [← fwd_snoc]; exact X.fwd_mem_FW _
  | zero => rw [zero_vecMul]; exact Submodule.zero_mem _
  | add x y _ _ hx hy => rw [add_vecMul]; exact Submodule.add_mem _ hx hy
  | smul c x _ hx => rw [smul_vecMul]; exact Submodule.smul_mem _ c hx

theorem FW_le (S : Submodule K (Fin n → K)) (hs : X.s ∈ S)
    (hc : ∀ a, ∀ x ∈ S, x ᵥ* X.M a ∈ S) : X.FW ≤ S := by
  refine Submodule.span_le.2 ?_
  rintro _ ⟨w, rfl⟩
  have : ∀ (w : List σ) (x : Fin n → K), x ∈ S → w.foldl (fun v a => v ᵥ* X.M a) x ∈ S := by
    intro w
    induction w with
    | nil => intro x hx; exact hx
    | cons a w ih => intro x hx; exact ih _ (hc a x hx)
  exact this w X.s hs

/-! ### reversal -/

def rev : FA σ K n := ⟨X.t, fun a => (X.M a)ᵀ, X.s⟩

theorem rev_rev : X.rev.rev = X := by
  cases X; simp [rev]

theorem rev_fwd (w : List σ) : X.rev.fwd w = X.bwd w.reverse := by
  simp only [fwd, bwd, rev, List.foldr_reverse, vecMul_transpose]

theorem rev_bwd (w : List σ) : X.rev.bwd w = X.fwd w.reverse := by
  simp only [fwd, bwd, rev, List.foldl_reverse, mulVec_transpose]

theorem rev_FW : X.rev.FW = X.BW := by
  have : Set.range X.rev.fwd = Set.range X.bwd := by
    ext x
    constructor
    · rintro ⟨w, rfl⟩; exact ⟨w.reverse, (X.rev_fwd w).symm⟩
    · rintro ⟨w, rfl⟩; exact ⟨w.reverse, by rw [rev_fwd, List.reverse_reverse]⟩
  rw [FW, BW, this]

theorem rev_BW : X.rev.BW = X.FW := by
  have := X.rev.rev_FW
  rw [rev_rev] at this
  exact this.symm

theorem rev_weight (w : List σ) : X.rev.weight w = X.weight w.reverse := by
  rw [weight, rev_bwd, ← fwd_dot_t, dotProduct_comm]
  rfl

/-! ### conjugation by a full-row-rank matrix whose row space is the forward space -/

def conj {m : Nat} (F : Matrix (Fin m) (Fin n) K) (P : Matrix (Fin n) (Fin m) K) : FA σ K m :=
  ⟨X.s ᵥ* P, fun a => F * X.M a * P, F *ᵥ X.t⟩

section Conj
variable {m : Nat} (F : Matrix (Fin m) (Fin n) K) (P : Matrix (Fin n) (Fin m) K)
variable (hFP : F * P = 1) (hrow : ∀ y, y ᵥ* F ∈ X.FW) (hFW : ∀ x ∈ X.FW, ∃ y, y ᵥ* F = x)
include hFP hFW

theorem conj_proj (x : Fin n → K) (hx : x ∈ X.FW) : x ᵥ* P ᵥ* F = x := by
  obtain ⟨y, rfl⟩ := hFW x hx
  rw [vecMul_vecMul y F P, hFP, vecMul_one]

theorem conj_fwd (w : List σ) : (X.conj F P).fwd w ᵥ* F = X.fwd w := by
  have : ∀ (w : List σ) (x' : Fin m → K) (x : Fin n → K), x' ᵥ* F = x → x ∈ X.FW →
      (w.foldl (fun v a => v ᵥ* (F * X.M a * P)) x') ᵥ* F = w.foldl (fun v a => v ᵥ* X.M a) x := by
    intro w
    induction w with
    | nil => intro x' x h _; exact h
    | cons a w ih =>
      intro x' x h hx
      refine ih _ _ ?_ (X.FW_closed a x hx)
      show x' ᵥ* (F * X.M a * P) ᵥ* F = x ᵥ* X.M a
      rw [← vecMul_vecMul, ← vecMul_vecMul, h]
      exact X.conj_proj F P hFP hFW _ (X.FW_closed a x hx)
  exact this w _ _ (X.conj_proj F P hFP hFW _ (X.fwd_mem_FW [])) (X.fwd_mem_FW [])

include hrow in
theorem conj_bwd (w : List σ) : (X.conj F P).bwd w = F *ᵥ X.bwd w := by
  induction w with
  | nil => rfl
  | cons a w ih =>
    refine (dotProduct_eq _ _ fun u => ?_)
    rw [dotProduct_comm, dotProduct_comm (F *ᵥ _)]
    rw [bwd_cons, ih, bwd_cons]
    show u ⬝ᵥ (F * X.M a * P) *ᵥ (F *ᵥ X.bwd w) = u ⬝ᵥ F *ᵥ (X.M a *ᵥ X.bwd w)
    rw [dotProduct_mulVec, dotProduct_mulVec, dotProduct_mulVec, dotProduct_mulVec,
      ← vecMul_vecMul, ← vecMul_vecMul,
      X.conj_proj F P hFP hFW _ (X.FW_closed a _ (hrow u))]

include hrow in
theorem conj_weight (w : List σ) : (X.conj F P).weight w = X.weight w := by
  rw [weight, conj_bwd X F P hFP hrow hFW]
  show (X.s ᵥ* P) ⬝ᵥ F *ᵥ X.bwd w = X.s ⬝ᵥ X.bwd w
  rw [dotProduct_mulVec, X.conj_proj F P hFP hFW X.s (X.fwd_mem_FW [])]

include hrow in
theorem conj_FW_top : (X.conj F P).FW = ⊤ := by
  have h1 : ∀ x ∈ X.FW, x ᵥ* P ∈ (X.conj F P).FW := by
    intro x hx
    induction hx using Submodule.span_induction with
    | mem x hx =>
      obtain ⟨w, rfl⟩ := hx
      rw [← X.conj_fwd F P hFP hFW w, vecMul_vecMul, hFP, vecMul_one]
      exact fwd_mem_FW _ _
    | zero => rw [zero_vecMul]; exact Submodule.zero_mem _
    | add x y _ _ hx hy => rw [add_vecMul]; exact Submodule.add_mem _ hx hy
    | smul c x _ hx => rw [smul_vecMul]; exact Submodule.smul_mem _ c hx
  refine eq_top_iff.2 fun z _ => ?_
  have := h1 _ (hrow z)
  rwa [vecMul_vecMul, hFP, vecMul_one] at this

include hrow in
theorem conj_BW_top (hB : X.BW = ⊤) : (X.conj F P).BW = ⊤ := by
  have h1 : ∀ x ∈ X.BW, F *ᵥ x ∈ (X.conj F P).BW := by
    intro x hx
    induction hx using Submodule.span_induction with
    | mem x hx =>
      obtain ⟨w, rfl⟩ := hx
      rw [← conj_bwd X F P hFP hrow hFW]
      exact bwd_mem_BW _ _
    | zero => rw [mulVec_zero]; exact Submodule.zero_mem _
    | add x y _ _ hx hy => rw [mulVec_add]; exact Submodule.add_mem _ hx hy
    | smul c x _ hx => rw [mulVec_smul]; exact Submodule.smul_mem _ c hx
  refine eq_top_iff.2 fun z _ => ?_
  have := h1 (P *ᵥ z) (by rw [hB]; exact Submodule.mem_top)
  rwa [mulVec_mulVec, hFP, one_mulVec] at this

include hrow in
/-- the number of rows of `F` is the dimension of the forward space -/
theorem conj_dim : m = Module.finrank K X.FW := by
  have hinj : Function.Injective F.vecMulLinear := by
    intro y y' h
    have := congrArg (fun x => x ᵥ* P) h
    simpa [vecMul_vecMul, hFP] using this
  have hr : LinearMap.range F.vecMulLinear = X.FW := by
    apply le_antisymm
    · rintro _ ⟨y, rfl⟩; exact hrow y
    · intro x hx
      obtain ⟨y, rfl⟩ := hFW x hx
      exact ⟨y, rfl⟩
  rw [← hr, LinearMap.finrank_range_of_inj hinj, Module.finrank_fin_fun]

end Conj

/-! ### Hankel rank -/

/-- `x ↦ (v ↦ x · M_v t)` -/
def Phi : (Fin n → K) →ₗ[K] (List σ → K) where
  toFun x := fun v => x ⬝ᵥ X.bwd v
  map_add' x y := by funext v; simp [add_dotProduct]
  map_smul' c x := by funext v; simp [smul_dotProduct]

theorem hankel_span :
    Submodule.span K (Set.range fun (u : List σ) (v : List σ) => X.weight (u ++ v))
      = Submodule.map X.Phi X.FW := by
  rw [FW, Submodule.map_span, ← Set.range_comp]
  congr 2
  funext u v
  exact (X.fwd_dot_bwd u v).symm

/-- the Hankel rank is at most the number of states -/
theorem hankelRank_le : hankelRank X.weight ≤ n := by
  rw [hankelRank, hankel_span]
  refine (Submodule.finrank_map_le _ _).trans ?_
  refine (Submodule.finrank_le _).trans ?_
  rw [Module.finrank_fin_fun]

/-- forward- and backward-full automata have exactly `hankelRank` states -/
theorem hankelRank_eq (hF : X.FW = ⊤) (hB : X.BW = ⊤) : hankelRank X.weight = n := by
  have hinj : Function.Injective X.Phi := by
    rw [← LinearMap.ker_eq_bot, LinearMap.ker_eq_bot']
    intro x hx
    have h1 : ∀ y ∈ X.BW, x ⬝ᵥ y = 0 := by
      intro y hy
      induction hy using Submodule.span_induction with
      | mem y hy =>
        obtain ⟨v, rfl⟩ := hy
        exact congrFun hx v
      | zero => simp
      | add y z _ _ hy hz => rw [dotProduct_add, hy, hz, add_zero]
      | smul c y _ hy => rw [dotProduct_smul, hy, smul_zero]
    exact dotProduct_eq_zero x fun y => h1 y (by rw [hB]; exact Submodule.mem_top)
  rw [hankelRank, hankel_span, hF, Submodule.map_top, LinearMap.finrank_range_of_inj hinj,
    Module.finrank_fin_fun]

end FA

/-! ## Part II: the list model -/

section Bridge2
variable {K : Type} [Field K]

theorem toFn_linComb_tzm (n : Nat) : ∀ (m : Nat) (v : Vec K) (M : Mat K), v.length = m →
    M.length = m → (∀ r ∈ M, r.length = n) →
    (linComb n v M).length = n ∧ toFn n (linComb n v M) = toFn m v ᵥ* toMx m n M
  | 0, [], [], _, _, _ => by
    refine ⟨by simp [linComb], ?_⟩
    show toFn n (vzero n) = _
    rw [toFn_vzero]
    funext j
    simp [vecMul, dotProduct]
  | m+1, c :: v, r :: M, hv, hM, hr => by
    obtain ⟨l1, ih⟩ := toFn_linComb_tzm n m v M (by simpa using hv) (by simpa using hM)
      (fun x hx => hr x (by simp [hx]))
    have hrl : r.length = n := hr r (by simp)
    have hs : (smul c r).length = n := by simp [hrl]
    refine ⟨by rw [linComb, vadd_length _ _ (by rw [hs, l1]), hs], ?_⟩
    rw [linComb, toFn_vadd n _ _ hs l1, toFn_smul n c r hrl, ih]
    funext j
    simp only [Pi.add_apply, Pi.smul_apply, smul_eq_mul, vecMul, dotProduct, Fin.sum_univ_succ]
    rfl

theorem toFn_matVec_tzm (m n : Nat) (M : Mat K) (v : Vec K) (hM : M.length = m)
    (hr : ∀ r ∈ M, r.length = n) (hv : v.length = n) :
    toFn m (matVec M v) = toMx m n M *ᵥ toFn n v := by
  funext i
  have hi : (i : Nat) < M.length := by omega
  show (matVec M v).getD i 0 = _
  rw [matVec, getD_map_lt _ M i [] 0 hi, dot_eq_dotProduct n _ _ (hr _ (getD_mem_lt M i [] hi)) hv]
  rfl

theorem toMx_transposeM_tzm (m n : Nat) (M : Mat K) :
    toMx n m (transposeM n M) = (toMx m n M)ᵀ := by
  ext j i
  show ((transposeM n M).getD j []).getD i 0 = (M.getD i []).getD j 0
  rw [transposeM, getD_range_map _ n j [] j.2, col]
  by_cases hi : (i : Nat) < M.length
  · rw [getD_map_lt _ M i [] 0 hi]
  · simp [List.getD_eq_getElem?_getD, List.getElem?_eq_none (Nat.le_of_not_lt hi)]

theorem toMx_zeroMat_tzm (m n k : Nat) : toMx m n (zeroMat k : Mat K) = 0 := by
  ext i j
  show ((zeroMat k : Mat K).getD i []).getD j 0 = 0
  simp only [zeroMat, vzero, List.getD_eq_getElem?_getD, List.getElem?_replicate]
  split
  · simp only [Option.getD_some, List.getElem?_replicate]
    split <;> rfl
  · rfl

theorem toMx_pinvRows_tzm (n : Nat) (F : Mat K) (hF : ∀ r ∈ F, r.length = n) (i : Fin n)
    (j : Fin F.length) :
    toMx n F.length (pinvRows n F) i j
      = toFn n (F.getD j []) i / (toFn n (F.getD j []) ⬝ᵥ toFn n (F.getD j [])) := by
  have hr := hF _ (getD_mem_lt F j [] j.2)
  show ((pinvRows n F).getD i []).getD j 0 = _
  rw [pinvRows, getD_range_map _ n i [] i.2, getD_map_lt _ F j [] 0 j.2,
    dot_eq_dotProduct n _ _ hr hr]
  rfl

end Bridge2

section Link
variable {σ K : Type} [DecidableEq σ] [DecidableEq K] [Field K]

/-- the abstract automaton of a list automaton (absent symbols have the zero matrix) -/
def toFA (A : MAut σ K) : FA σ K A.dim :=
  ⟨toFn A.dim A.start, fun a => toMx A.dim A.dim (A.mat a), toFn A.dim A.stop⟩

theorem toFA_bwd (A : MAut σ K) (hA : A.wf = true) (w : List σ) :
    (toFA A).bwd w = toFn A.dim (A.bwd w) := by
  induction w with
  | nil => rfl
  | cons a w ih =>
    rw [FA.bwd_cons, ih]
    exact (toFn_matVec A.dim _ _ (mat_length A hA a) (mat_row_length A hA a)
      (bwd_length A hA w)).symm

theorem toFA_weight (A : MAut σ K) (hA : A.wf = true) (w : List σ) :
    (toFA A).weight w = A.weight w := by
  rw [FA.weight, toFA_bwd A hA, MAut.weight,
    dot_eq_dotProduct A.dim _ _ ((wf_iff A).1 hA).1 (bwd_length A hA w)]
  rfl

theorem toFA_fwd (A : MAut σ K) (hA : A.wf = true) (w : List σ) :
    (A.fwd w).length = A.dim ∧ (toFA A).fwd w = toFn A.dim (A.fwd w) := by
  have : ∀ (w : List σ) (v : Vec K), v.length = A.dim →
      (w.foldl (fun v a => vecMat A.dim v (A.mat a)) v).length = A.dim ∧
      w.foldl (fun x a => x ᵥ* (toFA A).M a) (toFn A.dim v)
        = toFn A.dim (w.foldl (fun v a => vecMat A.dim v (A.mat a)) v) := by
    intro w
    induction w with
    | nil => intro v hv; exact ⟨hv, rfl⟩
    | cons a w ih =>
      intro v hv
      obtain ⟨l1, e1⟩ := toFn_linComb_tzm A.dim A.dim v (A.mat a) hv (mat_length A hA a)
        (mat_row_length A hA a)
      obtain ⟨l2, e2⟩ := ih (vecMat A.dim v (A.mat a)) l1
      refine ⟨l2, ?_⟩
      rw [List.foldl_cons, List.foldl_cons, ← e2]
      congr 1
      exact e1.symm
  exact this w A.start ((wf_iff A).1 hA).1

theorem matLook_of_mem_tzm (n : Nat) : ∀ (l : List (σ × Mat K)), (l.map (·.1)).Nodup →
    ∀ p ∈ l, matLook n l p.1 = p.2
  | [], _, _, h => by simp at h
  | (b, M) :: l, hnd, p, hp => by
    simp only [List.map_cons, List.nodup_cons] at hnd
    rcases List.mem_cons.1 hp with rfl | hp
    · simp [matLook]
    · have : b ≠ p.1 := fun h => hnd.1 (h ▸ List.mem_map_of_mem hp)
      simp only [matLook, if_neg this]
      exact matLook_of_mem_tzm n l hnd.2 p hp

theorem mat_of_mem_tzm (A : MAut σ K) (hA : A.wf = true) (p : σ × Mat K) (hp : p ∈ A.arcs) :
    A.mat p.1 = p.2 :=
  matLook_of_mem_tzm A.dim A.arcs ((wf_iff A).1 hA).2.2.2 p hp

theorem arc_square_tzm (A : MAut σ K) (hA : A.wf = true) (p : σ × Mat K) (hp : p ∈ A.arcs) :
    p.2.length = A.dim ∧ ∀ r ∈ p.2, r.length = A.dim :=
  (isSquare_iff _ _).1 (((wf_iff A).1 hA).2.2.1 p hp)

end Link

/-! ### `forward_basis`: the rows span the forward space -/

section FB
variable {σ K : Type} [DecidableEq σ] [DecidableEq K] [Field K] (A : MAut σ K)

/-- vectors still to be examined: `V · M` for the remaining matrices of the current vector `V`, and
all `V' · M` for the worklist -/
def pendF (V : Vec K) (rest : List (σ × Mat K)) (work : List (Vec K)) : Set (Fin A.dim → K) :=
  {x | (∃ p ∈ rest, x = toFn A.dim V ᵥ* toMx A.dim A.dim p.2) ∨
       (∃ V' ∈ work, ∃ p ∈ A.arcs, x = toFn A.dim V' ᵥ* toMx A.dim A.dim p.2)}

def UF (basis : List (Vec K)) (Pd : Set (Fin A.dim → K)) : Submodule K (Fin A.dim → K) :=
  Submodule.span K ({x | ∃ q ∈ basis, toFn A.dim q = x} ∪ Pd)

structure InvF (basis : List (Vec K)) (Pd : Set (Fin A.dim → K)) : Prop where
  len : ∀ q ∈ basis, q.length = A.dim
  sub : ∀ q ∈ basis, toFn A.dim q ∈ (toFA A).FW
  clo : ∀ q ∈ basis, ∀ p ∈ A.arcs, toFn A.dim q ᵥ* toMx A.dim A.dim p.2 ∈ UF A basis Pd

def WorkF (work : List (Vec K)) : Prop :=
  ∀ V ∈ work, V.length = A.dim ∧ toFn A.dim V ∈ (toFA A).FW

variable {A}

theorem mem_UF_basis {basis : List (Vec K)} {Pd : Set (Fin A.dim → K)} {q : Vec K}
    (h : q ∈ basis) : toFn A.dim q ∈ UF A basis Pd :=
  Submodule.subset_span (Or.inl ⟨q, h, rfl⟩)

theorem mem_UF_pend {basis : List (Vec K)} {Pd : Set (Fin A.dim → K)} {x : Fin A.dim → K}
    (h : x ∈ Pd) : x ∈ UF A basis Pd :=
  Submodule.subset_span (Or.inr h)

theorem UF_le {basis : List (Vec K)} {Pd : Set (Fin A.dim → K)}
    {T : Submodule K (Fin A.dim → K)}
    (h1 : ∀ q ∈ basis, toFn A.dim q ∈ T) (h2 : ∀ x ∈ Pd, x ∈ T) : UF A basis Pd ≤ T := by
  refine Submodule.span_le.2 ?_
  rintro x (⟨q, hq, rfl⟩ | hx)
  · exact h1 q hq
  · exact h2 x hx

theorem InvF.mono {basis : List (Vec K)} {Pd Pd' : Set (Fin A.dim → K)} (h : InvF A basis Pd)
    (hle : UF A basis Pd ≤ UF A basis Pd') : InvF A basis Pd' :=
  ⟨h.len, h.sub, fun q hq p hp => hle (h.clo q hq p hp)⟩

theorem InvF.clo_span {basis : List (Vec K)} {Pd : Set (Fin A.dim → K)} (h : InvF A basis Pd)
    (p : σ × Mat K) (hp : p ∈ A.arcs) (x : Fin A.dim → K) (hx : x ∈ UF A basis ∅) :
    x ᵥ* toMx A.dim A.dim p.2 ∈ UF A basis Pd := by
  induction hx using Submodule.span_induction with
  | mem x hx =>
    rcases hx with ⟨q, hq, rfl⟩ | hx
    · exact h.clo q hq p hp
    · exact absurd hx (Set.notMem_empty x)
  | zero => rw [zero_vecMul]; exact Submodule.zero_mem _
  | add x y _ _ hx hy => rw [add_vecMul]; exact Submodule.add_mem _ hx hy
  | smul c x _ hx => rw [smul_vecMul]; exact Submodule.smul_mem _ c hx

theorem arc_vec_tzm (hA : A.wf = true) (p : σ × Mat K) (hp : p ∈ A.arcs) (V : Vec K)
    (hV : V.length = A.dim) :
    (vecMat A.dim V p.2).length = A.dim ∧
      toFn A.dim (vecMat A.dim V p.2) = toFn A.dim V ᵥ* toMx A.dim A.dim p.2 :=
  toFn_linComb_tzm A.dim A.dim V p.2 hV (arc_square_tzm A hA p hp).1 (arc_square_tzm A hA p hp).2

theorem arc_FW_tzm (hA : A.wf = true) (p : σ × Mat K) (hp : p ∈ A.arcs) (x : Fin A.dim → K)
    (hx : x ∈ (toFA A).FW) : x ᵥ* toMx A.dim A.dim p.2 ∈ (toFA A).FW := by
  have := (toFA A).FW_closed p.1 x hx
  rwa [show (toFA A).M p.1 = toMx A.dim A.dim (A.mat p.1) from rfl, mat_of_mem_tzm A hA p hp] at this

theorem step_zero_F (hA : A.wf = true) (p : σ × Mat K) (hp : p ∈ A.arcs)
    (rest : List (σ × Mat K)) (V : Vec K) (hV : V.length = A.dim) (work basis : List (Vec K))
    (inv : InvF A basis (pendF A V (p :: rest) work))
    (hz : isZeroVec (projQ (vecMat A.dim V p.2) basis) = true) :
    InvF A basis (pendF A V rest work) ∧
      UF A basis (pendF A V (p :: rest) work) ≤ UF A basis (pendF A V rest work) := by
  obtain ⟨hu, hFu⟩ := arc_vec_tzm hA p hp V hV
  have hq0 := (isZeroVec_iff_tz _ (projQ_spec_tz _ basis _ inv.len hu).1).1 hz
  have hmem : toFn A.dim V ᵥ* toMx A.dim A.dim p.2 ∈ UF A basis (pendF A V rest work) := by
    have := resid_mem_tz basis inv.len _ hu (UF A basis (pendF A V rest work))
      (fun q hq => mem_UF_basis hq)
    rwa [hq0, sub_zero, hFu] at this
  have hle : UF A basis (pendF A V (p :: rest) work) ≤ UF A basis (pendF A V rest work) := by
    refine UF_le (fun q hq => mem_UF_basis hq) ?_
    rintro x (⟨p', hp', rfl⟩ | hx)
    · rcases List.mem_cons.1 hp' with rfl | hp'
      · exact hmem
      · exact mem_UF_pend (Or.inl ⟨p', hp', rfl⟩)
    · exact mem_UF_pend (Or.inr hx)
  exact ⟨inv.mono hle, hle⟩

theorem step_push_F (hA : A.wf = true) (p : σ × Mat K) (hp : p ∈ A.arcs)
    (rest : List (σ × Mat K)) (V : Vec K) (hV : V.length = A.dim)
    (hVF : toFn A.dim V ∈ (toFA A).FW) (work basis : List (Vec K))
    (inv : InvF A basis (pendF A V (p :: rest) work)) :
    InvF A (basis ++ [projQ (vecMat A.dim V p.2) basis])
        (pendF A V rest (vecMat A.dim V p.2 :: work)) ∧
      UF A basis (pendF A V (p :: rest) work) ≤
        UF A (basis ++ [projQ (vecMat A.dim V p.2) basis])
          (pendF A V rest (vecMat A.dim V p.2 :: work)) ∧
      (vecMat A.dim V p.2).length = A.dim ∧ toFn A.dim (vecMat A.dim V p.2) ∈ (toFA A).FW := by
  obtain ⟨hu, hFu⟩ := arc_vec_tzm hA p hp V hV
  set u := vecMat A.dim V p.2 with hudef
  set q := projQ u basis with hqdef
  set T := UF A (basis ++ [q]) (pendF A V rest (u :: work)) with hT
  have hql := (projQ_spec_tz _ basis u inv.len hu).1
  have huFW : toFn A.dim u ∈ (toFA A).FW := by rw [hFu]; exact arc_FW_tzm hA p hp _ hVF
  have hbT : ∀ r ∈ basis, toFn A.dim r ∈ T := fun r hr =>
    mem_UF_basis (List.mem_append_left _ hr)
  have hqT : toFn A.dim q ∈ T := mem_UF_basis (by simp)
  have hres := resid_mem_tz basis inv.len u hu
  have huT : toFn A.dim u ∈ T := by
    have := T.add_mem (hres T hbT) hqT
    rwa [sub_add_cancel] at this
  have hle : UF A basis (pendF A V (p :: rest) work) ≤ T := by
    refine UF_le hbT ?_
    rintro x (⟨p', hp', rfl⟩ | ⟨V', hV', p', hp', rfl⟩)
    · rcases List.mem_cons.1 hp' with rfl | hp'
      · rw [← hFu]; exact huT
      · exact mem_UF_pend (Or.inl ⟨p', hp', rfl⟩)
    · exact mem_UF_pend (Or.inr ⟨V', List.mem_cons_of_mem _ hV', p', hp', rfl⟩)
  refine ⟨⟨?_, ?_, ?_⟩, hle, hu, huFW⟩
  · intro r hr
    rcases List.mem_append.1 hr with hr | hr
    · exact inv.len r hr
    · rw [List.mem_singleton.1 hr]; exact hql
  · intro r hr
    rcases List.mem_append.1 hr with hr | hr
    · exact inv.sub r hr
    · rw [List.mem_singleton.1 hr]
      have := (toFA A).FW.sub_mem huFW (hres (toFA A).FW inv.sub)
      rwa [sub_sub_cancel] at this
  · intro r hr p' hp'
    rcases List.mem_append.1 hr with hr | hr
    · exact hle (inv.clo r hr p' hp')
    · rw [List.mem_singleton.1 hr]
      have h1 : toFn A.dim u ᵥ* toMx A.dim A.dim p'.2 ∈ T :=
        mem_UF_pend (Or.inr ⟨u, by simp, p', hp', rfl⟩)
      have h2 : (toFn A.dim u - toFn A.dim q) ᵥ* toMx A.dim A.dim p'.2 ∈ T :=
        hle (inv.clo_span p' hp' _ (hres _ (fun r hr => mem_UF_basis hr)))
      have := T.sub_mem h1 h2
      rwa [← sub_vecMul, sub_sub_cancel] at this

theorem fbInner_invF (hA : A.wf = true) (V : Vec K) (hV : V.length = A.dim)
    (hVF : toFn A.dim V ∈ (toFA A).FW) :
    ∀ (rest : List (σ × Mat K)) (work basis : List (Vec K)), (∀ p ∈ rest, p ∈ A.arcs) →
      InvF A basis (pendF A V rest work) → WorkF A work →
      InvF A (fbInner A.dim V rest work basis).2 (pendF A V [] (fbInner A.dim V rest work basis).1) ∧
        UF A basis (pendF A V rest work) ≤
          UF A (fbInner A.dim V rest work basis).2
            (pendF A V [] (fbInner A.dim V rest work basis).1) ∧
        WorkF A (fbInner A.dim V rest work basis).1
  | [], work, basis, _, inv, hw => ⟨inv, le_rfl, hw⟩
  | (a, M) :: rest, work, basis, hsub, inv, hw => by
    have hp : (a, M) ∈ A.arcs := hsub _ (by simp)
    have hsub' : ∀ p ∈ rest, p ∈ A.arcs := fun p hp => hsub p (List.mem_cons_of_mem _ hp)
    rw [fbInner]
    split
    · rename_i hz
      obtain ⟨i1, l1⟩ := step_zero_F hA (a, M) hp rest V hV work basis inv hz
      obtain ⟨i2, l2, w2⟩ := fbInner_invF hA V hV hVF rest work basis hsub' i1 hw
      exact ⟨i2, l1.trans l2, w2⟩
    · obtain ⟨i1, l1, hu, huF⟩ := step_push_F hA (a, M) hp rest V hV hVF work basis inv
      obtain ⟨i2, l2, w2⟩ := fbInner_invF hA V hV hVF rest _ _ hsub' i1 (by
        intro V' hV'
        rcases List.mem_cons.1 hV' with rfl | hV'
        · exact ⟨hu, huF⟩
        · exact hw V' hV')
      exact ⟨i2, l1.trans l2, w2⟩

theorem pendF_nil (V : Vec K) : pendF A V [] [] = ∅ := by
  ext x; simp [pendF]

theorem pendF_pop (V V' : Vec K) (work : List (Vec K)) :
    pendF A V' [] (V :: work) = pendF A V A.arcs work := by
  ext x; simp [pendF]

theorem pendF_irrel (V V' : Vec K) (work : List (Vec K)) :
    pendF A V [] work = pendF A V' [] work := by
  ext x; simp [pendF]

theorem fbLoop_invF (hA : A.wf = true) :
    ∀ (f : Nat) (work basis F : List (Vec K)), fbLoop A f work basis = some F → WorkF A work →
      InvF A basis (pendF A [] [] work) →
      InvF A F ∅ ∧ UF A basis (pendF A [] [] work) ≤ UF A F ∅
  | _, [], basis, F, h, _, inv => by
    simp only [fbLoop, Option.some.injEq] at h
    subst h
    rw [pendF_nil] at inv ⊢
    exact ⟨inv, le_rfl⟩
  | 0, _ :: _, _, _, h, _, _ => by simp [fbLoop] at h
  | f + 1, V :: work, basis, F, h, hw, inv => by
    obtain ⟨hV, hVF⟩ := hw V (by simp)
    have hw' : WorkF A work := fun V' hV' => hw V' (List.mem_cons_of_mem _ hV')
    rw [pendF_pop] at inv ⊢
    rw [fbLoop] at h
    obtain ⟨i1, l1, w1⟩ := fbInner_invF hA V hV hVF A.arcs work basis (fun p hp => hp) inv hw'
    rw [pendF_irrel V []] at i1 l1
    obtain ⟨i2, l2⟩ := fbLoop_invF hA f _ _ F h w1 i1
    exact ⟨i2, l1.trans l2⟩

/-- the span of the rows of a list matrix -/
def rowSpan (d : Nat) (F : List (Vec K)) : Submodule K (Fin d → K) :=
  Submodule.span K {x | ∃ q ∈ F, toFn d q = x}

theorem UF_empty (F : List (Vec K)) : UF A F ∅ = rowSpan A.dim F := by
  rw [UF, rowSpan, Set.union_empty]

/-- **`forward_basis` spans the forward space**: whenever the search returns, the rows of the
returned matrix have length `dim` and span exactly `span {start · M_w | w}`. -/
theorem forwardBasisQ_span (hA : A.wf = true) (f : Nat) (F : List (Vec K))
    (h : forwardBasisQ A f = some F) :
    (∀ q ∈ F, q.length = A.dim) ∧ rowSpan A.dim F = (toFA A).FW := by
  have hs : A.start.length = A.dim := ((wf_iff A).1 hA).1
  have key : InvF A F ∅ ∧ toFn A.dim A.start ∈ UF A F ∅ := by
    rw [forwardBasisQ] at h
    split at h
    · rename_i hz
      simp only [Option.some.injEq] at h
      subst h
      refine ⟨⟨by simp, by simp, by simp⟩, ?_⟩
      rw [(isZeroVec_iff_tz _ hs).1 hz]
      exact Submodule.zero_mem _
    · have hsF : toFn A.dim A.start ∈ (toFA A).FW := (toFA A).fwd_mem_FW []
      have inv0 : InvF A [A.start] (pendF A [] [] [A.start]) := by
        refine ⟨?_, ?_, ?_⟩
        · intro q hq; rw [List.mem_singleton.1 hq]; exact hs
        · intro q hq; rw [List.mem_singleton.1 hq]; exact hsF
        · intro q hq p hp; rw [List.mem_singleton.1 hq]
          exact mem_UF_pend (Or.inr ⟨A.start, by simp, p, hp, rfl⟩)
      obtain ⟨i1, l1⟩ := fbLoop_invF hA f _ _ F h (by
        intro V hV
        rw [List.mem_singleton.1 hV]
        exact ⟨hs, hsF⟩) inv0
      exact ⟨i1, l1 (mem_UF_basis (by simp))⟩
  obtain ⟨inv, hstart⟩ := key
  refine ⟨inv.len, ?_⟩
  rw [← UF_empty]
  apply le_antisymm
  · exact UF_le inv.sub (fun x hx => absurd hx (Set.notMem_empty x))
  · refine (toFA A).FW_le _ hstart ?_
    intro a x hx
    show x ᵥ* toMx A.dim A.dim (A.mat a) ∈ _
    rcases matLook_cases A.dim A.arcs a with h0 | hmem
    · rw [MAut.mat, h0, toMx_zeroMat_tzm, vecMul_zero]
      exact Submodule.zero_mem _
    · exact inv.clo_span (a, matLook A.dim A.arcs a) hmem x hx

end FB

/-! ### `forward_basis`: orthogonality and termination -/

section FBTerm
variable {σ K : Type} [DecidableEq σ] [DecidableEq K] [Field K] {A : MAut σ K}

theorem fbInner_invC (hK : Anisotropic K) (hA : A.wf = true) (V : Vec K) (hV : V.length = A.dim) :
    ∀ (rest : List (σ × Mat K)) (work basis : List (Vec K)), (∀ p ∈ rest, p ∈ A.arcs) →
      (∀ V' ∈ work, V'.length = A.dim) → InvC A.dim basis →
      InvC A.dim (fbInner A.dim V rest work basis).2 ∧
        (∀ V' ∈ (fbInner A.dim V rest work basis).1, V'.length = A.dim) ∧
        (fbInner A.dim V rest work basis).1.length + basis.length
          = work.length + (fbInner A.dim V rest work basis).2.length
  | [], work, basis, _, hw, inv => ⟨inv, hw, rfl⟩
  | (a, M) :: rest, work, basis, hsub, hw, inv => by
    have hp : (a, M) ∈ A.arcs := hsub _ (by simp)
    have hsub' : ∀ p ∈ rest, p ∈ A.arcs := fun p hp => hsub p (List.mem_cons_of_mem _ hp)
    have hu := (arc_vec_tzm hA (a, M) hp V hV).1
    rw [fbInner]
    split
    · exact fbInner_invC hK hA V hV rest work basis hsub' hw inv
    · rename_i hz
      obtain ⟨i2, w2, l2⟩ := fbInner_invC hK hA V hV rest (vecMat A.dim V M :: work)
        (basis ++ [projQ (vecMat A.dim V M) basis]) hsub' (by
          intro V' hV'
          rcases List.mem_cons.1 hV' with rfl | hV'
          · exact hu
          · exact hw V' hV') (inv.push_tz hK _ hu hz)
      refine ⟨i2, w2, ?_⟩
      simp only [List.length_cons, List.length_append, List.length_nil] at l2
      omega

theorem fbLoop_invC (hK : Anisotropic K) (hA : A.wf = true) :
    ∀ (f : Nat) (work basis F : List (Vec K)), fbLoop A f work basis = some F →
      (∀ V ∈ work, V.length = A.dim) → InvC A.dim basis → InvC A.dim F
  | _, [], basis, F, h, _, inv => by
    simp only [fbLoop, Option.some.injEq] at h
    subst h; exact inv
  | 0, _ :: _, _, _, h, _, _ => by simp [fbLoop] at h
  | f + 1, V :: work, basis, F, h, hw, inv => by
    rw [fbLoop] at h
    obtain ⟨i1, w1, _⟩ := fbInner_invC hK hA V (hw V (by simp)) A.arcs work basis (fun p hp => hp)
      (fun V' hV' => hw V' (List.mem_cons_of_mem _ hV')) inv
    exact fbLoop_invC hK hA f _ _ F h w1 i1

theorem fbLoop_ne_none (hK : Anisotropic K) (hA : A.wf = true) :
    ∀ (f : Nat) (work basis : List (Vec K)), (∀ V ∈ work, V.length = A.dim) → InvC A.dim basis →
      work.length + A.dim ≤ f + basis.length → fbLoop A f work basis ≠ none
  | _, [], _, _, _, _ => by simp [fbLoop]
  | 0, _ :: _, _, _, inv, h => by
    have := inv.length_le_tz
    simp only [List.length_cons] at h
    omega
  | f + 1, V :: work, basis, hw, inv, h => by
    rw [fbLoop]
    obtain ⟨i1, w1, l1⟩ := fbInner_invC hK hA V (hw V (by simp)) A.arcs work basis
      (fun p hp => hp) (fun V' hV' => hw V' (List.mem_cons_of_mem _ hV')) inv
    refine fbLoop_ne_none hK hA f _ _ w1 i1 ?_
    simp only [List.length_cons] at h
    omega

theorem InvC_start (hK : Anisotropic K) (hA : A.wf = true) (hz : ¬ isZeroVec A.start = true) :
    InvC A.dim [A.start] := by
  have hs : A.start.length = A.dim := ((wf_iff A).1 hA).1
  refine ⟨?_, ?_, List.pairwise_singleton _ _⟩
  · intro q hq; rw [List.mem_singleton.1 hq]; exact hs
  · intro q hq; rw [List.mem_singleton.1 hq]
    exact fun h => hz ((isZeroVec_iff_tz _ hs).2 (hK _ _ h))

/-- the rows returned by `forward_basis` are pairwise orthogonal and non-zero -/
theorem forwardBasisQ_orth (hK : Anisotropic K) (hA : A.wf = true) (f : Nat) (F : List (Vec K))
    (h : forwardBasisQ A f = some F) : InvC A.dim F := by
  have hs : A.start.length = A.dim := ((wf_iff A).1 hA).1
  rw [forwardBasisQ] at h
  split at h
  · simp only [Option.some.injEq] at h
    subst h
    exact ⟨by simp, by simp, List.Pairwise.nil⟩
  · rename_i hz
    exact fbLoop_invC hK hA f _ _ F h (by simp [hs]) (InvC_start hK hA hz)

/-- `forward_basis` terminates within `dim` worklist pops -/
theorem forwardBasisQ_terminates (hK : Anisotropic K) (hA : A.wf = true) (f : Nat)
    (hf : A.dim ≤ f) : forwardBasisQ A f ≠ none := by
  have hs : A.start.length = A.dim := ((wf_iff A).1 hA).1
  rw [forwardBasisQ]
  split
  · simp
  · rename_i hz
    exact fbLoop_ne_none hK hA f _ _ (by simp [hs]) (InvC_start hK hA hz)
      (by simp only [List.length_singleton]; omega)

end FBTerm

/-! ### `forward_conjugate` and `reverse` are the abstract constructions -/

section ConjLink
variable {σ K : Type} [DecidableEq σ] [DecidableEq K] [Field K]

theorem matLook_map_snd_tzm (n k : Nat) (g : Mat K → Mat K) (a : σ) :
    ∀ l : List (σ × Mat K), matLook k (l.map fun p => (p.1, g p.2)) a
      = if a ∈ l.map (·.1) then g (matLook n l a) else zeroMat k
  | [] => by simp [matLook]
  | (b, M) :: l => by
    by_cases h : b = a
    · subst h; simp [matLook]
    · have h' : a ≠ b := Ne.symm h
      simp only [List.map_cons, matLook, if_neg h, List.mem_cons, h', false_or]
      exact matLook_map_snd_tzm n k g a l

theorem getD_eq_getElem_tzm {α : Type} (l : List α) (i : Nat) (h : i < l.length) (d : α) :
    l.getD i d = l[i] := by
  simp [List.getD_eq_getElem?_getD, List.getElem?_eq_getElem h]

variable (A : MAut σ K) (F : List (Vec K))

/-- the basis as a matrix -/
def Fm : Matrix (Fin F.length) (Fin A.dim) K := toMx F.length A.dim F
/-- its pseudo-inverse as a matrix -/
def Pm : Matrix (Fin A.dim) (Fin F.length) K := toMx A.dim F.length (pinvRows A.dim F)

variable {A F}

theorem Fm_mul_Pm (hF : InvC A.dim F) : Fm A F * Pm A F = 1 := by
  ext i j
  have hrow : ∀ i : Fin F.length, Fm A F i = toFn A.dim F[(i : Nat)] := by
    intro i
    rw [Fm, toMx_row, getD_eq_getElem_tzm F i i.2]
  have : (Fm A F * Pm A F) i j
      = (toFn A.dim F[(i : Nat)] ⬝ᵥ toFn A.dim F[(j : Nat)])
        / (toFn A.dim F[(j : Nat)] ⬝ᵥ toFn A.dim F[(j : Nat)]) := by
    simp only [Matrix.mul_apply, dotProduct]
    rw [div_eq_mul_inv, Finset.sum_mul]
    refine Finset.sum_congr rfl fun l _ => ?_
    rw [Pm, toMx_pinvRows_tzm A.dim F hF.len l j, getD_eq_getElem_tzm F j j.2, hrow i,
      div_eq_mul_inv, mul_assoc]
    rfl
  rw [this, Matrix.one_apply]
  split
  · rename_i hij; subst hij
    exact div_self (hF.nz _ (List.getElem_mem _))
  · rename_i hij
    have hij' : (i : Nat) ≠ j := fun h => hij (Fin.ext h)
    have hp := List.pairwise_iff_getElem.1 hF.orth
    rcases Nat.lt_or_gt_of_ne hij' with hlt | hlt
    · rw [hp i j i.2 j.2 hlt, zero_div]
    · rw [dotProduct_comm, hp j i j.2 i.2 hlt, zero_div]

theorem vecMul_Fm_mem (y : Fin F.length → K) : y ᵥ* Fm A F ∈ rowSpan A.dim F := by
  rw [vecMul_eq_sum]
  refine Submodule.sum_mem _ fun i _ => Submodule.smul_mem _ _ ?_
  refine Submodule.subset_span ⟨F[(i : Nat)], List.getElem_mem _, ?_⟩
  rw [Fm, toMx_row, getD_eq_getElem_tzm F i i.2]

theorem rowSpan_le_range : ∀ x ∈ rowSpan A.dim F, ∃ y, y ᵥ* Fm A F = x := by
  intro x hx
  have : rowSpan A.dim F ≤ LinearMap.range (Fm A F).vecMulLinear := by
    refine Submodule.span_le.2 ?_
    rintro _ ⟨q, hq, rfl⟩
    obtain ⟨i, hi, rfl⟩ := List.getElem_of_mem hq
    refine ⟨Pi.single (⟨i, hi⟩ : Fin F.length) 1, ?_⟩
    rw [Matrix.vecMulLinear_apply, single_one_vecMul]
    show Fm A F ⟨i, hi⟩ = _
    rw [Fm, toMx_row, getD_eq_getElem_tzm F i hi]
  obtain ⟨y, hy⟩ := this hx
  exact ⟨y, hy⟩

theorem pinvRows_shape (n : Nat) (F : List (Vec K)) :
    (pinvRows n F).length = n ∧ ∀ r ∈ pinvRows n F, r.length = F.length := by
  refine ⟨by simp [pinvRows], ?_⟩
  intro r hr
  simp only [pinvRows, List.mem_map] at hr
  obtain ⟨i, _, rfl⟩ := hr
  simp

theorem matMul_shape (n : Nat) (X Y : Mat K) :
    (matMul n X Y).length = X.length ∧ ∀ r ∈ matMul n X Y, r.length = n := by
  refine ⟨by simp [matMul], ?_⟩
  intro r hr
  simp only [matMul, List.mem_map] at hr
  obtain ⟨x, _, rfl⟩ := hr
  simp

theorem conjBy_wf (hA : A.wf = true) : (A.conjBy F).wf = true := by
  have hA' := (wf_iff A).1 hA
  rw [wf_iff]
  refine ⟨?_, ?_, ?_, ?_⟩
  · exact (toFn_linComb_tzm F.length A.dim A.start (pinvRows A.dim F) hA'.1
      (pinvRows_shape _ _).1 (pinvRows_shape _ _).2).1
  · show (matVec F A.stop).length = F.length
    simp
  · intro p hp
    simp only [MAut.conjBy, List.mem_map] at hp
    obtain ⟨p', _, rfl⟩ := hp
    rw [isSquare_iff]
    refine ⟨?_, (matMul_shape _ _ _).2⟩
    rw [(matMul_shape _ _ _).1, (matMul_shape _ _ _).1]
    rfl
  · have : (A.conjBy F).syms = A.syms := by
      simp [MAut.syms, MAut.conjBy, List.map_map, Function.comp_def]
    rw [this]; exact hA'.2.2.2

theorem toFA_conjBy (hA : A.wf = true) (hF : ∀ q ∈ F, q.length = A.dim) :
    toFA (A.conjBy F) = (toFA A).conj (Fm A F) (Pm A F) := by
  have hA' := (wf_iff A).1 hA
  apply FA.ext
  · exact (toFn_linComb_tzm F.length A.dim A.start (pinvRows A.dim F) hA'.1
      (pinvRows_shape _ _).1 (pinvRows_shape _ _).2).2
  · funext a
    show toMx F.length F.length ((A.conjBy F).mat a) = Fm A F * toMx A.dim A.dim (A.mat a) * Pm A F
    have hm : (A.conjBy F).mat a = if a ∈ A.arcs.map (·.1) then
        matMul F.length (matMul A.dim F (matLook A.dim A.arcs a)) (pinvRows A.dim F)
        else zeroMat F.length :=
      matLook_map_snd_tzm A.dim F.length
        (fun M => matMul F.length (matMul A.dim F M) (pinvRows A.dim F)) a A.arcs
    rw [hm]
    split
    · rw [toMx_matMul F.length A.dim F.length _ _ (by rw [(matMul_shape _ _ _).1])
        (matMul_shape _ _ _).2 (pinvRows_shape _ _).1,
        toMx_matMul F.length A.dim A.dim F (matLook A.dim A.arcs a) rfl hF (mat_length A hA a)]
      rfl
    · rename_i hna
      rw [toMx_zeroMat_tzm, MAut.mat, matLook_not_mem _ _ _ hna, toMx_zeroMat_tzm, Matrix.mul_zero,
        Matrix.zero_mul]
  · exact toFn_matVec_tzm F.length A.dim F A.stop rfl hF hA'.2.1

/-- justification of the model of `linalg.pinv`: for a basis `F` with pairwise orthogonal non-isotropic
rows, `pinvRows` IS the Moore–Penrose pseudo-inverse of `F` (the four Penrose equations). -/
theorem pinvRows_moorePenrose (hF : InvC A.dim F) :
    Fm A F * Pm A F * Fm A F = Fm A F ∧ Pm A F * Fm A F * Pm A F = Pm A F ∧
      (Fm A F * Pm A F)ᵀ = Fm A F * Pm A F ∧ (Pm A F * Fm A F)ᵀ = Pm A F * Fm A F := by
  have h1 := Fm_mul_Pm hF
  refine ⟨by rw [h1, Matrix.one_mul], by rw [Matrix.mul_assoc, h1, Matrix.mul_one],
    by rw [h1, Matrix.transpose_one], ?_⟩
  ext i j
  simp only [Matrix.transpose_apply, Matrix.mul_apply]
  refine Finset.sum_congr rfl fun l _ => ?_
  have hrow : ∀ (l : Fin F.length) (i : Fin A.dim), Fm A F l i = toFn A.dim (F.getD l []) i :=
    fun l i => rfl
  rw [Pm, toMx_pinvRows_tzm A.dim F hF.len j l, toMx_pinvRows_tzm A.dim F hF.len i l, hrow, hrow]
  ring

theorem transposeM_shape (n : Nat) (M : Mat K) (hM : M.length = n) :
    (transposeM n M).isSquare n = true := by
  rw [isSquare_iff]
  refine ⟨by simp [transposeM], ?_⟩
  intro r hr
  simp only [transposeM, List.mem_map] at hr
  obtain ⟨j, _, rfl⟩ := hr
  simp [col, hM]

theorem reverse_wf (hA : A.wf = true) : A.reverse.wf = true := by
  have hA' := (wf_iff A).1 hA
  rw [wf_iff]
  refine ⟨hA'.2.1, hA'.1, ?_, ?_⟩
  · intro p hp
    simp only [MAut.reverse, List.mem_map] at hp
    obtain ⟨p', hp', rfl⟩ := hp
    exact transposeM_shape _ _ (arc_square_tzm A hA p' hp').1
  · have : A.reverse.syms = A.syms := by
      simp [MAut.syms, MAut.reverse, List.map_map, Function.comp_def]
    rw [this]; exact hA'.2.2.2

theorem toFA_reverse (A : MAut σ K) : toFA A.reverse = (toFA A).rev := by
  apply FA.ext
  · rfl
  · funext a
    show toMx A.dim A.dim (A.reverse.mat a) = (toMx A.dim A.dim (A.mat a))ᵀ
    have hm : A.reverse.mat a = if a ∈ A.arcs.map (·.1) then
        transposeM A.dim (matLook A.dim A.arcs a) else zeroMat A.dim :=
      matLook_map_snd_tzm A.dim A.dim (transposeM A.dim) a A.arcs
    rw [hm]
    split
    · exact toMx_transposeM_tzm _ _ _
    · rename_i hna
      rw [toMx_zeroMat_tzm, MAut.mat, matLook_not_mem _ _ _ hna, toMx_zeroMat_tzm,
        Matrix.transpose_zero]
  · rfl

end ConjLink

/-! ### `forward_conjugate`, `backward_conjugate`, `min` -/

section Final
variable {σ K : Type} [DecidableEq σ] [DecidableEq K] [Field K]

/-- `forward_conjugate`: same weights, forward-full, as many states as the dimension of the forward
space, and backward-fullness is preserved (Kiefer, Prop. 3.4). -/
theorem forwardConjQ_spec (hK : Anisotropic K) (A : MAut σ K) (hA : A.wf = true) (f : Nat)
    (A1 : MAut σ K) (h : forwardConjQ A f = some A1) :
    A1.wf = true ∧ (∀ w, A1.weight w = A.weight w) ∧ (toFA A1).FW = ⊤ ∧
      A1.dim = Module.finrank K (toFA A).FW ∧ ((toFA A).BW = ⊤ → (toFA A1).BW = ⊤) := by
  rw [forwardConjQ] at h
  obtain ⟨F, hF, rfl⟩ := Option.map_eq_some_iff.1 h
  obtain ⟨hlen, hspan⟩ := forwardBasisQ_span hA f F hF
  have hC := forwardBasisQ_orth hK hA f F hF
  have hwf := conjBy_wf (F := F) hA
  have hFP := Fm_mul_Pm hC
  have hrow : ∀ y, y ᵥ* Fm A F ∈ (toFA A).FW := fun y => hspan ▸ vecMul_Fm_mem y
  have hFW : ∀ x ∈ (toFA A).FW, ∃ y, y ᵥ* Fm A F = x :=
    fun x hx => rowSpan_le_range x (hspan ▸ hx)
  have e := toFA_conjBy hA hlen
  have eW : ∀ w, (toFA (A.conjBy F)).weight w = (toFA A).weight w := fun w =>
    (FA.weight_congr e w).trans (FA.conj_weight _ _ _ hFP hrow hFW w)
  have eF : (toFA (A.conjBy F)).FW = ⊤ :=
    (FA.FW_congr e).trans (FA.conj_FW_top _ _ _ hFP hrow hFW)
  have eB : (toFA A).BW = ⊤ → (toFA (A.conjBy F)).BW = ⊤ := fun hB =>
    (FA.BW_congr e).trans (FA.conj_BW_top _ _ _ hFP hrow hFW hB)
  refine ⟨hwf, ?_, eF, ?_, eB⟩
  · intro w
    rw [← toFA_weight _ hwf, eW, toFA_weight A hA]
  · exact FA.conj_dim (toFA A) (Fm A F) (Pm A F) hFP hrow hFW

theorem reverse_weight (A : MAut σ K) (hA : A.wf = true) (w : List σ) :
    A.reverse.weight w = A.weight w.reverse := by
  have e1 : (toFA A.reverse).weight w = (toFA A).weight w.reverse :=
    (FA.weight_congr (toFA_reverse A) w).trans ((toFA A).rev_weight w)
  rw [← toFA_weight _ (reverse_wf hA), e1, toFA_weight A hA]

theorem reverse_FW (A : MAut σ K) : (toFA A.reverse).FW = (toFA A).BW :=
  (FA.FW_congr (toFA_reverse A)).trans (toFA A).rev_FW

theorem reverse_BW (A : MAut σ K) : (toFA A.reverse).BW = (toFA A).FW :=
  (FA.BW_congr (toFA_reverse A)).trans (toFA A).rev_BW

/-- `backward_conjugate`: same weights, backward-full, forward-fullness preserved. -/
theorem backwardConjQ_spec (hK : Anisotropic K) (A : MAut σ K) (hA : A.wf = true) (f : Nat)
    (A2 : MAut σ K) (h : backwardConjQ A f = some A2) :
    A2.wf = true ∧ (∀ w, A2.weight w = A.weight w) ∧ (toFA A2).BW = ⊤ ∧
      A2.dim = Module.finrank K (toFA A).BW ∧ ((toFA A).FW = ⊤ → (toFA A2).FW = ⊤) := by
  rw [backwardConjQ] at h
  obtain ⟨A1, hA1, rfl⟩ := Option.map_eq_some_iff.1 h
  obtain ⟨hwf, hwt, hFW, hdim, hBW⟩ := forwardConjQ_spec hK A.reverse (reverse_wf hA) f A1 hA1
  refine ⟨reverse_wf hwf, ?_, ?_, ?_, ?_⟩
  · intro w
    rw [reverse_weight A1 hwf, hwt, reverse_weight A hA, List.reverse_reverse]
  · exact (reverse_BW A1).trans hFW
  · rw [reverse_FW] at hdim; exact hdim
  · intro hF
    exact (reverse_FW A1).trans (hBW ((reverse_BW A).trans hF))

/-- **`Simple.min` is minimal**: whenever it returns, the result is a well-formed automaton with
the same weights whose number of states is the rank of the Hankel matrix of `A`; hence no
equivalent automaton has fewer states. -/
theorem _root_.Genlm.minQ_spec (hK : Anisotropic K) (A : MAut σ K) (hA : A.wf = true) (f : Nat)
    (A' : MAut σ K) (h : minQ A f = some A') :
    A'.wf = true ∧ (∀ w, A'.weight w = A.weight w) ∧ A'.dim = hankelRank A.weight ∧
      ∀ B : MAut σ K, B.wf = true → (∀ w, B.weight w = A.weight w) → A'.dim ≤ B.dim := by
  rw [minQ] at h
  obtain ⟨A1, hA1, hA2⟩ := Option.bind_eq_some_iff.1 h
  obtain ⟨hwf1, hwt1, hFW1, _, _⟩ := forwardConjQ_spec hK A hA f A1 hA1
  obtain ⟨hwf2, hwt2, hBW2, _, hFW2⟩ := backwardConjQ_spec hK A1 hwf1 f A' hA2
  have hwt : ∀ w, A'.weight w = A.weight w := fun w => (hwt2 w).trans (hwt1 w)
  have hrank : A'.dim = hankelRank A.weight := by
    have h1 := (toFA A').hankelRank_eq (hFW2 hFW1) hBW2
    have h2 : (toFA A').weight = A.weight := by
      funext w; rw [toFA_weight A' hwf2, hwt]
    rw [h2] at h1
    exact h1.symm
  refine ⟨hwf2, hwt, hrank, ?_⟩
  intro B hB hBw
  have h1 := (toFA B).hankelRank_le
  have h2 : (toFA B).weight = A.weight := by
    funext w; rw [toFA_weight B hB, hBw]
  rw [h2] at h1
  rw [hrank]; exact h1

/-- `hankelRank` is a lower bound for every automaton (the non-effective version of
`rankLower_sound`) -/
theorem _root_.Genlm.hankelRank_le_dim (B : MAut σ K) (hB : B.wf = true) :
    hankelRank B.weight ≤ B.dim := by
  have h1 := (toFA B).hankelRank_le
  have h2 : (toFA B).weight = B.weight := by
    funext w; rw [toFA_weight B hB]
  rwa [h2] at h1

theorem forwardConjQ_terminates (hK : Anisotropic K) (A : MAut σ K) (hA : A.wf = true) (f : Nat)
    (hf : A.dim ≤ f) : ∃ A1, forwardConjQ A f = some A1 ∧ A1.dim ≤ A.dim := by
  have hne := forwardBasisQ_terminates hK hA f hf
  match hF : forwardBasisQ A f with
  | none => exact absurd hF hne
  | some F =>
    refine ⟨A.conjBy F, by rw [forwardConjQ, hF]; rfl, ?_⟩
    exact (forwardBasisQ_orth hK hA f F hF).length_le_tz

/-- `Simple.min` terminates with fuel `dim` (per call of `forward_basis`) -/
theorem _root_.Genlm.minQ_terminates (hK : Anisotropic K) (A : MAut σ K) (hA : A.wf = true) (f : Nat)
    (hf : A.dim ≤ f) : minQ A f ≠ none := by
  obtain ⟨A1, h1, hd1⟩ := forwardConjQ_terminates hK A hA f hf
  obtain ⟨hwf1, _⟩ := forwardConjQ_spec hK A hA f A1 h1
  obtain ⟨A2, h2, _⟩ := forwardConjQ_terminates hK A1.reverse (reverse_wf hwf1) f
    (show A1.dim ≤ f by omega)
  rw [minQ, h1]
  simp [backwardConjQ, h2]

/-- **`forward_basis`**: over a field without isotropic vectors and with enough fuel the result
exists, its rows are pairwise orthogonal, span the forward space `span {start · M_w}`, and their
number is the dimension of that space. -/
theorem _root_.Genlm.forwardBasisQ_spec (hK : Anisotropic K) (A : MAut σ K) (hA : A.wf = true) (f : Nat)
    (hf : A.dim ≤ f) :
    ∃ F, forwardBasisQ A f = some F ∧ (∀ q ∈ F, q.length = A.dim) ∧
      F.Pairwise (fun p q => dot p q = 0) ∧
      Submodule.span K {x | ∃ q ∈ F, toFn A.dim q = x}
        = Submodule.span K (Set.range fun w => toFn A.dim (A.fwd w)) ∧
      F.length = Module.finrank K (Submodule.span K (Set.range fun w => toFn A.dim (A.fwd w))) := by
  have hne := forwardBasisQ_terminates hK hA f hf
  match hF : forwardBasisQ A f with
  | none => exact absurd hF hne
  | some F =>
    obtain ⟨hlen, hspan⟩ := forwardBasisQ_span hA f F hF
    have hC := forwardBasisQ_orth hK hA f F hF
    have hfw : (toFA A).FW = Submodule.span K (Set.range fun w => toFn A.dim (A.fwd w)) := by
      rw [FA.FW]
      congr 2
      funext w
      exact (toFA_fwd A hA w).2
    refine ⟨F, rfl, hlen, ?_, ?_, ?_⟩
    · refine hC.orth.imp_of_mem ?_
      intro p q hp hq h
      rw [dot_eq_dotProduct A.dim _ _ (hlen p hp) (hlen q hq)]; exact h
    · rw [← hfw, ← hspan]; rfl
    · rw [← hfw]
      have hrow : ∀ y, y ᵥ* Fm A F ∈ (toFA A).FW := fun y => hspan ▸ vecMul_Fm_mem y
      have hFW : ∀ x ∈ (toFA A).FW, ∃ y, y ᵥ* Fm A F = x :=
        fun x hx => rowSpan_le_range x (hspan ▸ hx)
      exact FA.conj_dim (toFA A) (Fm A F) (Pm A F) (Fm_mul_Pm hC) hrow hFW

end Final

/-! ### non-vacuity over `ℚ` -/

section Examples

example : forwardBasisQ tzC3 3 = some [[1, 1/2, 1/2], [1/18, -1/18, -1/18]] := by decide +kernel
/-- with fuel 1 the second basis vector is found but never popped -/
example : forwardBasisQ tzC3 1 = none := by decide +kernel
example : forwardBasisQ (⟨2, [0, 0], [(0, [[1, 0], [0, 1]])], [1, 1]⟩ : MAut Nat ℚ) 0 = some [] := by
  decide +kernel

/-- the redundant 3-state automaton is minimised to 2 states, the useless state of `tzA` is removed -/
example : (minQ tzC3 3).map MAut.dim = some 2 := by decide +kernel
example : (minQ tzA 2).map MAut.dim = some 1 := by decide +kernel
example : (minQ tzA 2).map MAut.start = some [1] ∧ (minQ tzA 2).map MAut.stop = some [1] ∧
    (minQ tzA 2).map MAut.arcs = some [(0, [[1/2]])] := by decide +kernel

/-- the Hankel rank of `aⁿ ↦ 2⁻ⁿ + 3⁻ⁿ` is 2, computed by running `min` -/
example : hankelRank tzC3.weight = 2 := by
  have h : (minQ tzC3 3).map MAut.dim = some 2 := by decide +kernel
  obtain ⟨A', hA', hd⟩ := Option.map_eq_some_iff.1 h
  rw [← hd]
  exact ((minQ_spec anisotropic_rat tzC3 (by decide +kernel) 3 A' hA').2.2.1).symm

/-- hence every automaton equivalent to `tzC3` has at least two states -/
example (B : MAut Nat ℚ) (hB : B.wf = true) (h : ∀ w, B.weight w = tzC3.weight w) : 2 ≤ B.dim := by
  have h2 : (minQ tzC3 3).map MAut.dim = some 2 := by decide +kernel
  obtain ⟨A', hA', hd⟩ := Option.map_eq_some_iff.1 h2
  rw [← hd]
  exact (minQ_spec anisotropic_rat tzC3 (by decide +kernel) 3 A' hA').2.2.2 B hB h

end Examples

end Genlm.TzMin
