import GenlmModel.Proofs.LimCore
import GenlmModel.Proofs.PrefixWeight
import GenlmModel.Proofs.AddEos
import GenlmModel.Proofs.ChainRule
import Mathlib.Topology.Algebra.InfiniteSum.ENNReal

/-! # Composition, prefix weights and EOS wrapping at the limit (`ℝ≥0∞`)

The level-wise theorems of `Proofs/Compose.lean`, `Proofs/PrefixWeight.lean`, `Proofs/AddEos.lean` are pairs of
cofinal bounds between height-bounded sums.  Over `ℝ≥0∞` every such family has a limit (`WL`, `LimCore.lean`):
the sum over ALL derivation trees.  This file passes to these limits, so that the statements read as the
properties do ("the composed grammar gives `y` the weight `Σ_x G(x)·T(x, y)`", "the prefix grammar gives `p` the
total weight of the strings that begin with `p`", …) with genuinely infinite sums `∑'` over all strings.

* `TL T x y = ⨆ n, TPN T n x y` — the weight a transducer gives to the pair `(x, y)`: the sum over all accepting
  paths;
* `wsum_yields_tsum` — `wsum (yields G n X) φ = ∑' x, WN G n X x * φ x`;
* `compose_WL`, `compose_WL'` (C09) — `WL (composeAll G T) start y = ∑' x, WL G S x * TL T x y`, the same for
  `compose G T` (what Python builds);
* `TL_prefixT`, `prefixWeight_WL`, `prefixWeight_WL_append`, `prefixWeight_WL'` (C03) — the prefix grammar gives
  `p` the weight `∑' x, [p <+: x] · WL G S x = ∑' y, WL G S (p ++ y)`;
* `ZL_eq_tsum_WL`, `prefixWeight_nil` — the empty prefix gets the total weight `ZL G S`;
* `addEOS_WL`, `addEOS_WL_append`, `addEOS_WL_zero` (C20) — `add_EOS` at the limit (`AddEosOK`: the freshness
  conditions of `addEOS_spec`);
* `pw G p = ∑' y, WL G S (p ++ y)` — the prefix weight; `pw_eq_iSup_prefixWN` (limit of `prefixWN`),
  `prefixWeight_WL_pw` (what the prefix grammar computes), `pw_consistent`
  (`pw p = WL G S p + Σ_{a ∈ V} pw (p a)`), `pw_anti`, `pw_nil`;
* `addEOS_pw_consistent`, `addEOS_pw_eos`, `addEOS_pw_nil`, `addEOS_cond_sum_one`, `addEOS_chain_rule` (C04, in
  `ℝ≥0∞`) — for the EOS-wrapped grammar `pw(p) = Σ_{a ∈ V ∪ {eos}} pw(p a)` on `eos`-free contexts, the
  conditionals sum to one where `0 < pw p < ∞`, and their product along `x·eos` is `WL G S x / ZL G S`;
* `addEOS_chain_rule_lm` — `chain_rule_lm` / `lmCall_chain_rule` of `Proofs/ChainRule.lean` instantiated with the
  real-valued prefix weights `pwR = toReal ∘ pw` (finite total weight): `LM.__call__ (x·eos) = WL G S x / ZL G S`;
* `limG` — non-vacuity: `S → a S (1/2) | ε (1/2)`, infinitely many strings, total weight finite.

Helper lemmas (monotone convergence for `∑'`, products of suprema of chains) are in `namespace LimAux`. -/
namespace Genlm
set_option linter.unusedSectionVars false
open scoped ENNReal
open UnfoldAux WfsaAux FstAux ComposeAux LinkAux

namespace LimAux

/-- the product of the suprema of two increasing sequences is the supremum of the products -/
theorem iSup_mul_iSup_of_monotone {f g : ℕ → ℝ≥0∞} (hf : Monotone f) (hg : Monotone g) :
    (⨆ n, f n) * (⨆ n, g n) = ⨆ n, f n * g n := by
  rw [ENNReal.iSup_mul]
  simp_rw [ENNReal.mul_iSup]
  apply le_antisymm
  · refine iSup_le fun i => iSup_le fun j => ?_
    exact le_iSup_of_le (max i j) (mul_le_mul' (hf (le_max_left _ _)) (hg (le_max_right _ _)))
  · exact iSup_le fun n => le_iSup_of_le n (le_iSup_of_le n le_rfl)

/-- monotone convergence for sums over an arbitrary index type -/
theorem tsum_iSup_of_monotoneP {α : Type} (f : α → ℕ → ℝ≥0∞) (hf : ∀ a, Monotone (f a)) :
    ∑' a, ⨆ n, f a n = ⨆ n, ∑' a, f a n := by
  rw [ENNReal.tsum_eq_iSup_sum]
  simp_rw [ENNReal.finsetSum_iSup_of_monotone hf]
  rw [iSup_comm]
  refine iSup_congr fun n => ?_
  rw [ENNReal.tsum_eq_iSup_sum]

/-- list-indexed sums of suprema of increasing sequences -/
theorem listSum_iSup_of_monotone {α : Type} (l : List α) (f : α → ℕ → ℝ≥0∞) (hf : ∀ a, Monotone (f a)) :
    (l.map fun a => ⨆ n, f a n).sum = ⨆ n, (l.map fun a => f a n).sum := by
  induction l with
  | nil => simp
  | cons a l ih =>
    simp only [List.map_cons, List.sum_cons]
    rw [ih, ENNReal.iSup_add_iSup_of_monotone (hf a)]
    intro i j hij
    induction l with
    | nil => simp
    | cons b l _ =>
      exact List.sum_le_sum (fun c _ => hf c hij)

end LimAux

open LimAux

/-! ### sums over all strings -/
section Tsum
variable {σ : Type} [DecidableEq σ]

/-- a finite weighted language, summed against `φ`, is the sum over ALL strings `x` of (weight of `x`) · `φ x` -/
theorem wsum_eq_tsum (l : List (List σ × ℝ≥0∞)) (φ : List σ → ℝ≥0∞) :
    wsum l φ = ∑' x, wsum l (fun x' => if x' = x then 1 else 0) * φ x := by
  induction l with
  | nil => simp [wsum_nil]
  | cons p l ih =>
    simp only [wsum_cons]
    simp_rw [add_mul]
    rw [ENNReal.tsum_add, ← ih]
    congr 1
    rw [tsum_eq_single p.1]
    · simp
    · intro x hx
      rw [if_neg (fun h => hx h.symm)]; simp

/-- **`wsum (yields G n X) φ` is the sum over all strings**: `Σ_x WN G n X x * φ x` -/
theorem wsum_yields_tsum (G : CFG σ ℝ≥0∞) (n : Nat) (X : σ) (φ : List σ → ℝ≥0∞) :
    wsum (yields G n X) φ = ∑' x, WN G n X x * φ x := by
  rw [wsum_eq_tsum]
  refine tsum_congr fun x => ?_
  rw [← yields_WN]

/-- a string with a symbol that is not a terminal has no derivation -/
theorem WN_eq_zero_of_not_over (G : CFG σ ℝ≥0∞) (n : Nat) (X : σ) (x : List σ) (hx : ∃ a ∈ x, a ∉ G.V) :
    WN G n X x = 0 := by
  rw [yields_WN, wsum_eq]
  apply sum_map_zero
  intro p hp
  rw [if_neg, mul_zero]
  rintro rfl
  obtain ⟨a, ha, ha'⟩ := hx
  exact ha' (yields_over G n X p hp a ha)

theorem WL_eq_zero_of_not_over (G : CFG σ ℝ≥0∞) (X : σ) (x : List σ) (hx : ∃ a ∈ x, a ∉ G.V) :
    WL G X x = 0 := by
  unfold WL
  simp [WN_eq_zero_of_not_over G _ X x hx]

end Tsum

/-! ### the weight of a pair under a transducer -/
section TL
variable {ι σ : Type} [DecidableEq ι] [DecidableEq σ]

/-- the weight the transducer gives to the pair `(x, y)`: the sum over ALL accepting paths (supremum of the
sums over the paths with at most `n` arcs) -/
noncomputable def TL (T : FST ι σ ℝ≥0∞) (x y : List σ) : ℝ≥0∞ := ⨆ n, TPN T n x y

theorem TPN_monotone (T : FST ι σ ℝ≥0∞) (x y : List σ) : Monotone (fun n => TPN T n x y) :=
  fun _ _ h => natLe_iff_le.mp (ComposeAux.TPN_mono T h x y)

theorem TPN_le_TL (T : FST ι σ ℝ≥0∞) (n : Nat) (x y : List σ) : TPN T n x y ≤ TL T x y :=
  le_iSup (fun n => TPN T n x y) n

/-- a stabilised path sum is the limit -/
theorem TL_of_stable (T : FST ι σ ℝ≥0∞) (x y : List σ) (N : Nat) (L : ℝ≥0∞)
    (h : ∀ m, N ≤ m → TPN T m x y = L) : TL T x y = L := by
  apply le_antisymm
  · refine iSup_le fun n => ?_
    rw [← h (max n N) (le_max_right _ _)]
    exact TPN_monotone T x y (le_max_left _ _)
  · rw [← h N (le_refl _)]; exact TPN_le_TL T N x y

end TL

/-! ### C09: composition at the limit -/
section Compose
variable {ι σ : Type} [DecidableEq ι] [DecidableEq σ]
variable (G : CFG σ ℝ≥0∞) (T : FST ι σ ℝ≥0∞)

/-- the right-hand side as the supremum of the diagonal level sums -/
theorem tsum_WL_mul_TL (y : List σ) :
    ∑' x, WL G G.S x * TL T x y = ⨆ n, wsum (yields G n G.S) (fun x => TPN T n x y) := by
  simp_rw [wsum_yields_tsum]
  rw [← tsum_iSup_of_monotoneP]
  · refine tsum_congr fun x => ?_
    exact iSup_mul_iSup_of_monotone (WN_monotone G G.S x) (TPN_monotone T x y)
  · intro x i j hij
    exact mul_le_mul' (WN_monotone G G.S x hij) (TPN_monotone T x y hij)

/-- **C09 at the limit (weighted Bar-Hillel)**: the composed grammar gives the output string `y` the weight
`Σ_x G(x) · T(x, y)`, the sum ranging over ALL input strings, `G(x)` being the sum over all derivation trees of
`x` and `T(x, y)` the sum over all accepting paths of the pair (ε on either tape, ε:ε arcs and cycles, cyclic
grammars, divergence to `∞` included) -/
theorem compose_WL (hok : ComposeOK G T) (y : List σ) :
    WL (composeAll G T) .start (tm y) = ∑' x, WL G G.S x * TL T x y := by
  apply le_antisymm
  · refine iSup_le fun k => ?_
    calc WN (composeAll G T) k .start (tm y)
        ≤ WN (composeAll G T) (k + 2) .start (tm y) := WN_monotone _ _ _ (by omega)
      _ ≤ wsum (yields G k G.S) (fun x => TPN T ((k + 2) * (x.length + 1)) x y) :=
          natLe_iff_le.mp (eps_upper G T hok k y)
      _ = ∑' x, WN G k G.S x * TPN T ((k + 2) * (x.length + 1)) x y := wsum_yields_tsum G k G.S _
      _ ≤ ∑' x, WL G G.S x * TL T x y :=
          ENNReal.tsum_le_tsum fun x => mul_le_mul' (WN_le_WL G k G.S x) (TPN_le_TL T _ x y)
  · rw [tsum_WL_mul_TL]
    refine iSup_le fun n => ?_
    exact le_trans (natLe_iff_le.mp (eps_lower G T hok n n y)) (WN_le_WL _ _ _ _)

/-- the same for the grammar Python builds (rules restricted to the supported items, zero weights dropped) -/
theorem compose_WL' [DecidableEq ℝ≥0∞] (hok : ComposeOK G T) (y : List σ) :
    WL (compose G T) (compose G T).S (tm y) = ∑' x, WL G G.S x * TL T x y := by
  rw [← compose_WL G T hok y]
  exact WL_congr _ _ _ _ _ _ (fun n => compose_eq_composeAll_start G T n (tm y))

end Compose

/-! ### C03: prefix weights at the limit -/
section Prefix
variable {σ : Type} [DecidableEq σ]

/-- **the prefix transducer at the limit**: the pair `(x, p)` has exactly one accepting path if `p` is a prefix
of `x` and `x` is a string over `V`, none otherwise -/
theorem TL_prefixT (V : List σ) (hV : V.Nodup) (x p : List σ) :
    TL (prefixT V : FST Nat σ ℝ≥0∞) x p = if p <+: x ∧ (∀ a ∈ x, a ∈ V) then 1 else 0 := by
  apply TL_of_stable _ _ _ x.length
  intro m hm
  rw [prefix_transducer_TPN V hV]
  by_cases h : p <+: x ∧ (∀ a ∈ x, a ∈ V)
  · rw [if_pos ⟨hm, h⟩, if_pos h]
  · rw [if_neg (fun h' => h h'.2), if_neg h]

/-- **C03 at the limit**: the prefix grammar `G @ prefix_transducer(V)` gives `p` the total weight of the
strings that begin with `p` — every string once, with the sum over all its derivation trees -/
theorem prefixWeight_WL (G : CFG σ ℝ≥0∞) (hok : ComposeOK G (prefixT G.V : FST Nat σ ℝ≥0∞)) (hV : G.V.Nodup)
    (p : List σ) :
    WL (composeAll G (prefixT G.V : FST Nat σ ℝ≥0∞)) .start (tm p)
      = ∑' x, if p <+: x then WL G G.S x else 0 := by
  rw [compose_WL G _ hok p]
  refine tsum_congr fun x => ?_
  rw [TL_prefixT G.V hV]
  by_cases hp : p <+: x
  · by_cases hx : ∀ a ∈ x, a ∈ G.V
    · rw [if_pos ⟨hp, hx⟩, if_pos hp, mul_one]
    · rw [if_neg (fun h => hx h.2), if_pos hp, mul_zero]
      push Not at hx
      exact (WL_eq_zero_of_not_over G G.S x hx).symm
  · rw [if_neg (fun h => hp h.1), if_neg hp, mul_zero]

/-- the strings that begin with `p` are the `p ++ y` -/
theorem tsum_prefix_eq_tsum_append (f : List σ → ℝ≥0∞) (p : List σ) :
    ∑' x, (if p <+: x then f x else 0) = ∑' y, f (p ++ y) := by
  have hinj : Function.Injective (fun y : List σ => p ++ y) := fun a b h => List.append_cancel_left h
  rw [← hinj.tsum_eq (f := fun x => if p <+: x then f x else 0)]
  · refine tsum_congr fun y => ?_
    rw [if_pos (List.prefix_append p y)]
  · intro x hx
    simp only [Function.mem_support, ne_eq, ite_eq_right_iff, Classical.not_imp] at hx
    obtain ⟨y, rfl⟩ := hx.1
    exact ⟨y, rfl⟩

/-- **C03 at the limit, completion form**: `Σ_y G(p y)` -/
theorem prefixWeight_WL_append (G : CFG σ ℝ≥0∞) (hok : ComposeOK G (prefixT G.V : FST Nat σ ℝ≥0∞))
    (hV : G.V.Nodup) (p : List σ) :
    WL (composeAll G (prefixT G.V : FST Nat σ ℝ≥0∞)) .start (tm p) = ∑' y, WL G G.S (p ++ y) := by
  rw [prefixWeight_WL G hok hV p, tsum_prefix_eq_tsum_append]

/-- the same for the grammar Python builds (`CFG.prefix_grammar`) -/
theorem prefixWeight_WL' [DecidableEq ℝ≥0∞] (G : CFG σ ℝ≥0∞)
    (hok : ComposeOK G (prefixT G.V : FST Nat σ ℝ≥0∞)) (hV : G.V.Nodup) (p : List σ) :
    WL (compose G (prefixT G.V : FST Nat σ ℝ≥0∞)) (compose G (prefixT G.V : FST Nat σ ℝ≥0∞)).S (tm p)
      = ∑' y, WL G G.S (p ++ y) := by
  rw [← prefixWeight_WL_append G hok hV p]
  exact WL_congr _ _ _ _ _ _ (fun n => compose_eq_composeAll_start G _ n (tm p))

/-- the limit of the level-wise specification `prefixWN` of `Proofs/PrefixWeight.lean` -/
theorem iSup_prefixWN (G : CFG σ ℝ≥0∞) (p : List σ) :
    ⨆ n, prefixWN G n p = ∑' y, WL G G.S (p ++ y) := by
  rw [← tsum_prefix_eq_tsum_append (fun x => WL G G.S x) p]
  have h : ∀ x, (if p <+: x then WL G G.S x else 0) = ⨆ n, WN G n G.S x * (if p <+: x then 1 else 0) := by
    intro x
    rw [← ENNReal.iSup_mul]
    by_cases hp : p <+: x
    · simp only [if_pos hp, mul_one]; rfl
    · simp only [if_neg hp, mul_zero]
  simp_rw [h]
  rw [tsum_iSup_of_monotoneP]
  · refine iSup_congr fun n => ?_
    exact wsum_yields_tsum G n G.S _
  · intro x i j hij
    exact mul_le_mul' (WN_monotone G G.S x hij) le_rfl

/-! #### the empty prefix: the total weight -/

theorem wsum_lbody_one (m : σ → List (List σ × ℝ≥0∞)) (body : List σ) :
    wsum (lbody m body) (fun _ => 1) = (body.map fun Y => wsum (m Y) (fun _ => 1)).prod := by
  induction body with
  | nil => simp [lbody, wsum_cons, wsum_nil]
  | cons Y Ys ih =>
    simp only [lbody, List.map_cons, List.prod_cons]
    rw [wsum_lcat, ← ih, wsum_eq (m Y), ← List.sum_map_mul_right]
    congr 1; apply List.map_congr_left; intro p _
    rw [mul_one]

/-- the Kleene iterate `ZN` is the total weight of the derivation trees of height `≤ n` -/
theorem ZN_eq_wsum_yields (G : CFG σ ℝ≥0∞) (n : Nat) (X : σ) :
    ZN G n X = wsum (yields G n X) (fun _ => 1) := by
  induction n generalizing X with
  | zero => simp [ZN, yields, wsum_nil]
  | succ n ih =>
    rw [wsum_yields_succ]
    simp only [ZN, lsum_eq_sum]
    congr 1; apply List.map_congr_left; intro r _
    rw [wsum_lbody_one]
    congr 1
    rw [lprod_eq_prod]
    congr 1; apply List.map_congr_left; intro Y _
    unfold ysym
    split
    · simp [wsum_cons, wsum_nil]
    · exact ih Y

/-- **the total weight is the sum of the string weights** (local version of `ZL_eq_tsum_WL`) -/
theorem ZL_eq_tsum_WL_P (G : CFG σ ℝ≥0∞) (X : σ) : ZL G X = ∑' x, WL G X x := by
  unfold ZL WL
  rw [tsum_iSup_of_monotoneP _ (fun x => WN_monotone G X x)]
  refine iSup_congr fun n => ?_
  rw [ZN_eq_wsum_yields, wsum_yields_tsum]
  simp

/-- **the empty prefix gets the total weight of the grammar** -/
theorem prefixWeight_nil (G : CFG σ ℝ≥0∞) (hok : ComposeOK G (prefixT G.V : FST Nat σ ℝ≥0∞))
    (hV : G.V.Nodup) :
    WL (composeAll G (prefixT G.V : FST Nat σ ℝ≥0∞)) .start (tm []) = ZL G G.S := by
  rw [prefixWeight_WL_append G hok hV [], ZL_eq_tsum_WL_P]
  rfl

end Prefix

/-! ### C20: `add_EOS` at the limit -/
section Eos
variable {σ : Type} [DecidableEq σ]

/-- the freshness conditions `add_EOS` relies on (those of `addEOS_spec`): `S'` comes from `_gen_nt`, `eos` is
asserted not to be in `V` and is unused, the start symbol is not a terminal -/
structure AddEosOK {K : Type} (G : CFG σ K) (S' eos : σ) : Prop where
  hS' : S' ∉ G.V ∧ S' ≠ eos ∧ S' ≠ G.S ∧ ∀ r ∈ G.rules, r.head ≠ S' ∧ S' ∉ r.body
  heos : eos ∉ G.V ∧ eos ≠ G.S ∧ ∀ r ∈ G.rules, r.head ≠ eos ∧ eos ∉ r.body
  hS : G.S ∉ G.V

variable (G : CFG σ ℝ≥0∞) (S' eos : σ)

/-- **C20 at the limit**: the EOS-wrapped grammar gives `z` the weight `G` gives to `z` without its last symbol if
`z` ends in `eos` and has no other `eos`, and `0` otherwise -/
theorem addEOS_WL (h : AddEosOK G S' eos) (z : List σ) :
    WL (addEOS G S' eos) S' z
      = if z.getLast? = some eos ∧ eos ∉ z.dropLast then WL G G.S z.dropLast else 0 := by
  unfold WL
  rw [← Monotone.iSup_nat_add (WN_monotone (addEOS G S' eos) S' z) 1]
  simp_rw [addEOS_spec G S' eos h.hS' h.heos h.hS]
  split
  · rfl
  · simp

theorem addEOS_WL_append (h : AddEosOK G S' eos) (x : List σ) (hx : eos ∉ x) :
    WL (addEOS G S' eos) S' (x ++ [eos]) = WL G G.S x := by
  rw [addEOS_WL G S' eos h, if_pos]
  · simp
  · simp [hx]

/-- no weight on strings without `eos`, with `eos` not in last position, or with two `eos` -/
theorem addEOS_WL_zero (h : AddEosOK G S' eos) (z : List σ) (hz : ¬ ∃ x, z = x ++ [eos] ∧ eos ∉ x) :
    WL (addEOS G S' eos) S' z = 0 := by
  rw [addEOS_WL G S' eos h, if_neg]
  rintro ⟨h1, h2⟩
  apply hz
  refine ⟨z.dropLast, ?_, h2⟩
  exact (List.dropLast_append_getLast? eos (by simpa using h1)).symm

theorem addEOS_WL_zero_of_not_mem (h : AddEosOK G S' eos) (c : List σ) (hc : eos ∉ c) :
    WL (addEOS G S' eos) S' c = 0 := by
  apply addEOS_WL_zero G S' eos h
  rintro ⟨x, rfl, _⟩
  exact hc (by simp)

end Eos

/-! ### C04: prefix weights, conditionals and the chain rule at the limit -/
section Lm
variable {σ : Type} [DecidableEq σ]

/-- **the prefix weight**: the total weight (over all derivation trees) of the strings that begin with `p` -/
noncomputable def pw (G : CFG σ ℝ≥0∞) (p : List σ) : ℝ≥0∞ := ∑' y, WL G G.S (p ++ y)

theorem pw_eq_tsum_prefix (G : CFG σ ℝ≥0∞) (p : List σ) :
    pw G p = ∑' x, if p <+: x then WL G G.S x else 0 :=
  (tsum_prefix_eq_tsum_append (fun x => WL G G.S x) p).symm

/-- `pw` is the limit of the level-wise prefix weights `prefixWN` -/
theorem pw_eq_iSup_prefixWN (G : CFG σ ℝ≥0∞) (p : List σ) : pw G p = ⨆ n, prefixWN G n p :=
  (iSup_prefixWN G p).symm

/-- `pw` is what the prefix grammar computes (C03) -/
theorem prefixWeight_WL_pw (G : CFG σ ℝ≥0∞) (hok : ComposeOK G (prefixT G.V : FST Nat σ ℝ≥0∞))
    (hV : G.V.Nodup) (p : List σ) :
    WL (composeAll G (prefixT G.V : FST Nat σ ℝ≥0∞)) .start (tm p) = pw G p :=
  prefixWeight_WL_append G hok hV p

theorem pw_nil (G : CFG σ ℝ≥0∞) : pw G [] = ZL G G.S := by
  rw [ZL_eq_tsum_WL_P]; rfl

theorem prefixWN_monotone (G : CFG σ ℝ≥0∞) (p : List σ) : Monotone (fun n => prefixWN G n p) :=
  fun _ _ h => natLe_iff_le.mp (prefixWN_mono G h p)

theorem WL_le_pw (G : CFG σ ℝ≥0∞) (p : List σ) : WL G G.S p ≤ pw G p := by
  have := ENNReal.le_tsum (f := fun y => WL G G.S (p ++ y)) []
  simpa [pw] using this

/-- a longer prefix has a smaller weight -/
theorem pw_anti (G : CFG σ ℝ≥0∞) (p q : List σ) : pw G (p ++ q) ≤ pw G p := by
  rw [pw_eq_tsum_prefix, pw_eq_tsum_prefix]
  refine ENNReal.tsum_le_tsum fun x => ?_
  by_cases h : p ++ q <+: x
  · rw [if_pos h, if_pos ((List.prefix_append p q).trans h)]
  · rw [if_neg h]; exact zero_le

/-- **consistency of the prefix weights**: a string that begins with `p` is `p` or begins with `p a` for exactly
one terminal `a` -/
theorem pw_consistent (G : CFG σ ℝ≥0∞) (hV : G.V.Nodup) (p : List σ) :
    pw G p = WL G G.S p + (G.V.map fun a => pw G (p ++ [a])).sum := by
  simp_rw [pw_eq_iSup_prefixWN]
  rw [listSum_iSup_of_monotone G.V (fun a n => prefixWN G n (p ++ [a]))
    (fun a => prefixWN_monotone G (p ++ [a]))]
  unfold WL
  rw [ENNReal.iSup_add_iSup_of_monotone (WN_monotone G G.S p)]
  · exact iSup_congr fun n => prefixWN_consistent G hV n p
  · intro i j hij
    cases hl : G.V with
    | nil => simp
    | cons b l => exact List.sum_le_sum (fun a _ => prefixWN_monotone G (p ++ [a]) hij)

variable (G : CFG σ ℝ≥0∞) (S' eos : σ)

/-- **the factorisation step** for the EOS-wrapped grammar: for an `eos`-free context `p`,
`pw(p) = Σ_{a ∈ V ∪ {eos}} pw(p a)` -/
theorem addEOS_pw_consistent (h : AddEosOK G S' eos) (hV : (eos :: G.V).Nodup) (p : List σ) (hp : eos ∉ p) :
    pw (addEOS G S' eos) p = ((eos :: G.V).map fun a => pw (addEOS G S' eos) (p ++ [a])).sum := by
  have := pw_consistent (addEOS G S' eos) hV p
  rw [show (addEOS G S' eos).S = S' from rfl, addEOS_WL_zero_of_not_mem G S' eos h p hp, zero_add] at this
  exact this

/-- after `eos` nothing follows: `pw(x eos)` is the weight of `x` -/
theorem addEOS_pw_eos (h : AddEosOK G S' eos) (x : List σ) (hx : eos ∉ x) :
    pw (addEOS G S' eos) (x ++ [eos]) = WL G G.S x := by
  unfold pw
  rw [tsum_eq_single []]
  · rw [List.append_nil]; exact addEOS_WL_append G S' eos h x hx
  · intro y hy
    apply addEOS_WL_zero G S' eos h
    rintro ⟨u, hu, hu'⟩
    apply hu'
    obtain ⟨y', rfl⟩ : ∃ y', y = y' ++ [eos] := by
      have hne : y ≠ [] := hy
      refine ⟨y.dropLast, ?_⟩
      have h1 := congrArg List.getLast? hu
      rw [List.getLast?_append_of_ne_nil _ hne] at h1
      simp only [List.getLast?_append, List.getLast?_singleton, Option.some_or] at h1
      exact (List.dropLast_append_getLast? eos (by simpa using h1)).symm
    rw [← List.append_assoc] at hu
    have := List.append_inj_left' hu rfl
    rw [← this]; simp

/-- the empty prefix: the total weight of the ORIGINAL grammar -/
theorem addEOS_pw_nil (h : AddEosOK G S' eos) : pw (addEOS G S' eos) [] = ZL G G.S := by
  rw [ZL_eq_tsum_WL_P]
  unfold pw
  simp only [List.nil_append]
  have hinj : Function.Injective (fun x : List σ => x ++ [eos]) := fun a b hab => List.append_cancel_right hab
  rw [← hinj.tsum_eq (f := fun z => WL (addEOS G S' eos) (addEOS G S' eos).S z)]
  · refine tsum_congr fun x => ?_
    by_cases hx : eos ∈ x
    · rw [WL_eq_zero_of_not_over G G.S x ⟨eos, hx, h.heos.1⟩]
      apply addEOS_WL_zero G S' eos h
      rintro ⟨u, hu, hu'⟩
      exact hu' (List.append_cancel_right hu ▸ hx)
    · exact addEOS_WL_append G S' eos h x hx
  · intro z hz
    by_contra hcon
    apply hz
    apply addEOS_WL_zero G S' eos h
    rintro ⟨u, rfl, _⟩
    exact hcon ⟨u, rfl⟩

/-- **the conditionals sum to one**: for an `eos`-free context of positive finite prefix weight -/
theorem addEOS_cond_sum_one (h : AddEosOK G S' eos) (hV : (eos :: G.V).Nodup) (p : List σ) (hp : eos ∉ p)
    (h0 : pw (addEOS G S' eos) p ≠ 0) (hI : pw (addEOS G S' eos) p ≠ ∞) :
    ((eos :: G.V).map fun a => pw (addEOS G S' eos) (p ++ [a]) / pw (addEOS G S' eos) p).sum = 1 := by
  simp_rw [div_eq_mul_inv]
  rw [List.sum_map_mul_right, ← addEOS_pw_consistent G S' eos h hV p hp]
  exact ENNReal.mul_inv_cancel h0 hI

/-- telescoping product of ratios in `ℝ≥0∞` -/
theorem LimAux.prod_ratio_take (P : List σ → ℝ≥0∞) (x : List σ) (n : Nat) (hn : n ≤ x.length)
    (h0 : ∀ i, i ≤ n → P (x.take i) ≠ 0) (hI : ∀ i, i ≤ n → P (x.take i) ≠ ∞) :
    ((List.range n).map fun i => P (x.take (i+1)) / P (x.take i)).prod = P (x.take n) / P [] := by
  induction n with
  | zero => simpa using (ENNReal.div_self (by simpa using h0 0 le_rfl) (by simpa using hI 0 le_rfl)).symm
  | succ n ih =>
    rw [List.range_succ, List.map_append, List.prod_append,
      ih (by omega) (fun i hi => h0 i (by omega)) (fun i hi => hI i (by omega))]
    simp only [List.map_cons, List.map_nil, List.prod_cons, List.prod_nil, mul_one, div_eq_mul_inv]
    have h1 := ENNReal.mul_inv_cancel (h0 n (by omega)) (hI n (by omega))
    calc P (x.take n) * (P [])⁻¹ * (P (x.take (n+1)) * (P (x.take n))⁻¹)
        = P (x.take (n+1)) * (P [])⁻¹ * (P (x.take n) * (P (x.take n))⁻¹) := by ring
      _ = P (x.take (n+1)) * (P [])⁻¹ := by rw [h1, mul_one]

/-- **the chain rule at the limit** (`ℝ≥0∞`): along an `eos`-free string `x` with `pw(x) > 0` in a grammar of
finite total weight, the product of the conditionals `pw(x[:i+1]) / pw(x[:i])`, times the conditional of `eos`
after `x`, is the weight of `x` (sum over ALL its derivation trees) divided by the total weight `ZL G S` -/
theorem addEOS_chain_rule (h : AddEosOK G S' eos) (x : List σ) (hx : eos ∉ x)
    (h0 : pw (addEOS G S' eos) x ≠ 0) (hI : ZL G G.S ≠ ∞) :
    ((List.range x.length).map fun i =>
        pw (addEOS G S' eos) (x.take (i+1)) / pw (addEOS G S' eos) (x.take i)).prod
      * (pw (addEOS G S' eos) (x ++ [eos]) / pw (addEOS G S' eos) x)
      = WL G G.S x / ZL G G.S := by
  have hle : ∀ i, pw (addEOS G S' eos) x ≤ pw (addEOS G S' eos) (x.take i) := by
    intro i
    conv_lhs => rw [← List.take_append_drop i x]
    exact pw_anti _ _ _
  have hle' : ∀ i, pw (addEOS G S' eos) (x.take i) ≤ ZL G G.S := by
    intro i
    rw [← addEOS_pw_nil G S' eos h]
    exact pw_anti _ [] _
  have h0' : ∀ i, pw (addEOS G S' eos) (x.take i) ≠ 0 := fun i hc => h0 (le_antisymm (hc ▸ hle i) zero_le)
  have hI' : ∀ i, pw (addEOS G S' eos) (x.take i) ≠ ∞ := fun i => ne_top_of_le_ne_top hI (hle' i)
  rw [LimAux.prod_ratio_take (pw (addEOS G S' eos)) x x.length le_rfl (fun i _ => h0' i) (fun i _ => hI' i),
    List.take_length, addEOS_pw_eos G S' eos h x hx, addEOS_pw_nil G S' eos h]
  simp only [div_eq_mul_inv]
  have h1 := ENNReal.mul_inv_cancel h0 (by simpa using hI' x.length)
  calc pw (addEOS G S' eos) x * (ZL G G.S)⁻¹ * (WL G G.S x * (pw (addEOS G S' eos) x)⁻¹)
      = WL G G.S x * (ZL G G.S)⁻¹ * (pw (addEOS G S' eos) x * (pw (addEOS G S' eos) x)⁻¹) := by ring
    _ = WL G G.S x * (ZL G G.S)⁻¹ := by rw [h1, mul_one]

end Lm

/-! ### the chain rule of `Proofs/ChainRule.lean`, instantiated with the real-valued prefix weights -/
section LmReal
variable {σ : Type} [DecidableEq σ]

/-- the prefix weight as a real number (meaningful when the total weight is finite) -/
noncomputable def pwR (G : CFG σ ℝ≥0∞) (c : List σ) : ℝ := (pw G c).toReal

theorem LimAux.listSum_ne_top {α : Type} (l : List α) (f : α → ℝ≥0∞) (hf : ∀ a ∈ l, f a ≠ ∞) :
    (l.map f).sum ≠ ∞ := by
  induction l with
  | nil => simp
  | cons a l ih =>
    simp only [List.map_cons, List.sum_cons]
    exact ENNReal.add_ne_top.mpr ⟨hf a (List.mem_cons_self ..),
      ih (fun b hb => hf b (List.mem_cons_of_mem _ hb))⟩

theorem LimAux.toReal_listSum {α : Type} (l : List α) (f : α → ℝ≥0∞) (hf : ∀ a ∈ l, f a ≠ ∞) :
    ((l.map f).sum).toReal = (l.map fun a => (f a).toReal).sum := by
  induction l with
  | nil => simp
  | cons a l ih =>
    have hl : ∀ b ∈ l, f b ≠ ∞ := fun b hb => hf b (List.mem_cons_of_mem _ hb)
    simp only [List.map_cons, List.sum_cons]
    rw [ENNReal.toReal_add (hf a (List.mem_cons_self ..)) (LimAux.listSum_ne_top l f hl), ih hl]

variable (G : CFG σ ℝ≥0∞) (S' eos : σ)

theorem addEOS_pw_ne_top (h : AddEosOK G S' eos) (hI : ZL G G.S ≠ ∞) (c : List σ) :
    pw (addEOS G S' eos) c ≠ ∞ := by
  apply ne_top_of_le_ne_top hI
  rw [← addEOS_pw_nil G S' eos h]
  exact pw_anti _ [] c

/-- **C04 at the limit** (`chain_rule_lm`, `lmCall_chain_rule` with `P = pwR (add_EOS G)`): for a grammar of
finite total weight, along an `eos`-free string `x` with `pw(x) > 0`: the conditionals after every prefix of `x`
sum to one over `V ∪ {eos}`, their product along `x·eos` — which is what `LM.__call__` computes — is the weight
of `x` (sum over ALL derivation trees) divided by the total weight of the grammar -/
theorem addEOS_chain_rule_lm (h : AddEosOK G S' eos) (hV : (eos :: G.V).Nodup) (hI : ZL G G.S ≠ ∞)
    (x : List σ) (hx : eos ∉ x) (h0 : pw (addEOS G S' eos) x ≠ 0) :
    (∀ i, i ≤ x.length →
        ((eos :: G.V).map fun t => cond (pwR (addEOS G S' eos)) (x.take i) t).sum = 1)
    ∧ ((List.range x.length).map fun i =>
          cond (pwR (addEOS G S' eos)) (x.take i) (x.getD i eos)).prod
        * cond (pwR (addEOS G S' eos)) x eos = (WL G G.S x).toReal / (ZL G G.S).toReal
    ∧ lmCall (cond (pwR (addEOS G S' eos))) (x ++ [eos]) = (WL G G.S x).toReal / (ZL G G.S).toReal := by
  have hfin := addEOS_pw_ne_top G S' eos h hI
  have hP : ∀ c, eos ∉ c → pwR (addEOS G S' eos) c
      = ((eos :: G.V).map fun t => pwR (addEOS G S' eos) (c ++ [t])).sum := by
    intro c hc
    unfold pwR
    rw [addEOS_pw_consistent G S' eos h hV c hc, LimAux.toReal_listSum _ _ (fun a _ => hfin _)]
  have h0' : ∀ i, i ≤ x.length → pwR (addEOS G S' eos) (x.take i) ≠ 0 := by
    intro i _ hc
    rcases (ENNReal.toReal_eq_zero_iff _).mp hc with hc | hc
    · apply h0
      apply le_antisymm _ zero_le
      rw [← hc]
      conv_lhs => rw [← List.take_append_drop i x]
      exact pw_anti _ _ _
    · exact hfin _ hc
  have hval : pwR (addEOS G S' eos) (x ++ [eos]) / pwR (addEOS G S' eos) []
      = (WL G G.S x).toReal / (ZL G G.S).toReal := by
    unfold pwR
    rw [addEOS_pw_eos G S' eos h x hx, addEOS_pw_nil G S' eos h]
  obtain ⟨h1, h2⟩ := chain_rule_lm (pwR (addEOS G S' eos)) (eos :: G.V) eos hP x hx h0'
  refine ⟨h1, h2.trans hval, ?_⟩
  rw [lmCall_chain_rule (pwR (addEOS G S' eos)) eos x h0', hval]

end LmReal

/-! ### non-vacuity: a grammar with infinitely many strings, total weight one -/
section Examples

/-- `S → a S (1/2) | ε (1/2)`; `S = 0`, `a = 1`; fresh `S' = 2`, `eos = 3` -/
noncomputable def limG : CFG ℕ ℝ≥0∞ := ⟨0, [1], [⟨2⁻¹, 0, [1, 0]⟩, ⟨2⁻¹, 0, []⟩]⟩

theorem limG_ok : ComposeOK limG (prefixT limG.V : FST ℕ ℕ ℝ≥0∞) :=
  composeOK_prefixT limG (by simp [limG]) (by simp [limG])

theorem limG_eos : AddEosOK limG 2 3 :=
  ⟨by simp [limG], by simp [limG], by simp [limG]⟩

theorem limG_ZN_le (n : ℕ) : ZN limG n 0 ≤ 1 := by
  induction n with
  | zero => simp [ZN]
  | succ n ih =>
    have : ZN limG (n+1) 0 = 2⁻¹ * ZN limG n 0 + 2⁻¹ := by
      simp [ZN, limG, lsum, lprod]
    rw [this]
    calc (2 : ℝ≥0∞)⁻¹ * ZN limG n 0 + 2⁻¹ ≤ 2⁻¹ * 1 + 2⁻¹ := by gcongr
      _ = 1 := by rw [mul_one, ENNReal.inv_two_add_inv_two]

theorem limG_ZL_ne_top : ZL limG limG.S ≠ ∞ :=
  ne_top_of_le_ne_top ENNReal.one_ne_top (iSup_le limG_ZN_le)

theorem limG_WN_a : WN limG 2 0 [1] = 2⁻¹ * 2⁻¹ := by
  simp [WN, limG, Wbody, Wsym, splits, lsum]

theorem limG_pw_ne_zero : pw (addEOS limG 2 3) [1] ≠ 0 := by
  intro hc
  have h1 : WL limG limG.S [1] ≤ pw (addEOS limG 2 3) [1] := by
    rw [← addEOS_pw_eos limG 2 3 limG_eos [1] (by simp)]
    exact pw_anti _ _ _
  have h2 : WN limG 2 0 [1] ≤ WL limG limG.S [1] := WN_le_WL limG 2 0 [1]
  rw [hc, nonpos_iff_eq_zero] at h1
  rw [h1, nonpos_iff_eq_zero, limG_WN_a] at h2
  simp at h2

/-- the hypotheses of `prefixWeight_WL'`, `addEOS_WL` are met by `limG` -/
example (p : List ℕ) [DecidableEq ℝ≥0∞] :
    WL (compose limG (prefixT limG.V : FST ℕ ℕ ℝ≥0∞)) (compose limG (prefixT limG.V : FST ℕ ℕ ℝ≥0∞)).S (tm p)
      = ∑' y, WL limG limG.S (p ++ y) :=
  prefixWeight_WL' limG limG_ok (by simp [limG]) p

/-- all hypotheses of `addEOS_chain_rule_lm` are met by `limG` at the string `a`, and the value is not `0/0`:
`WL limG S [a] ≥ 1/4` -/
example :
    lmCall (cond (pwR (addEOS limG 2 3))) ([1] ++ [3]) = (WL limG limG.S [1]).toReal / (ZL limG limG.S).toReal :=
  (addEOS_chain_rule_lm limG 2 3 limG_eos (by simp [limG]) limG_ZL_ne_top [1] (by simp) limG_pw_ne_zero).2.2

example : (2 : ℝ≥0∞)⁻¹ * 2⁻¹ ≤ WL limG limG.S [1] := limG_WN_a ▸ WN_le_WL limG 2 0 [1]

end Examples

end Genlm
