import GenlmModel.Model.Basic
import Mathlib.Algebra.BigOperators.Group.List.Basic
import Mathlib.Algebra.Ring.Defs

namespace Genlm
variable {σ K : Type} [DecidableEq σ] [CommSemiring K]

@[simp] theorem lsum_eq_sum (l : List K) : lsum l = l.sum := by
  induction l with
  | nil => rfl
  | cons a l ih => simp [lsum] at *; rw [ih]

@[simp] theorem lprod_eq_prod (l : List K) : lprod l = l.prod := by
  induction l with
  | nil => rfl
  | cons a l ih => simp [lprod] at *; rw [ih]

theorem mem_splits {α : Type} (x u v : List α) : (u, v) ∈ splits x ↔ u ++ v = x := by
  induction x generalizing u with
  | nil => simp [splits]
  | cons a x ih =>
    simp only [splits, List.mem_cons, List.mem_map, Prod.mk.injEq, Prod.exists]
    constructor
    · rintro (⟨rfl, rfl⟩ | ⟨u', v', h, rfl, rfl⟩)
      · rfl
      · simp [(ih u').mp h]
    · intro h
      cases u with
      | nil => left; exact ⟨rfl, h.symm ▸ rfl⟩
      | cons b u' =>
        right
        simp only [List.cons_append, List.cons.injEq] at h
        exact ⟨u', v, (ih u').mpr h.2, by rw [h.1], rfl⟩

theorem Wbody_congr (V : List σ) (f g : σ → List σ → K) (body : List σ)
    (h : ∀ s ∈ body, ∀ x, f s x = g s x) (x : List σ) : Wbody V f body x = Wbody V g body x := by
  induction body generalizing x with
  | nil => rfl
  | cons s ss ih =>
    simp only [Wbody, lsum_eq_sum]
    congr 1
    apply List.map_congr_left
    intro p _
    have hs : Wsym V f s p.1 = Wsym V g s p.1 := by
      unfold Wsym; split
      · rfl
      · exact h s (by simp) _
    rw [hs, ih (fun s' hs' => h s' (by simp [hs']))]

/-- sum over splits with the right part forced empty -/
theorem sum_splits_right_nil {α : Type} [DecidableEq α] (x : List α) (F : List α → K) :
    ((splits x).map fun p => F p.1 * (if p.2 = [] then 1 else 0)).sum = F x := by
  induction x generalizing F with
  | nil => simp [splits]
  | cons a x ih =>
    simp only [splits, List.map_cons, List.sum_cons, List.map_map]
    have := ih (fun u => F (a :: u))
    simp only [Function.comp_def]
    simp only [mul_ite, mul_one, mul_zero] at this ⊢
    simp [this]

theorem Wbody_singleton (V : List σ) (f : σ → List σ → K) (s : σ) (x : List σ) :
    Wbody V f [s] x = Wsym V f s x := by
  simp only [Wbody, lsum_eq_sum]
  exact sum_splits_right_nil x (fun u => Wsym V f s u)

theorem sum_map_zero {α : Type} (l : List α) (f : α → K) (h : ∀ a ∈ l, f a = 0) : (l.map f).sum = 0 := by
  induction l with
  | nil => rfl
  | cons a l ih =>
    simp only [List.map_cons, List.sum_cons]
    rw [h a (by simp), ih (fun b hb => h b (by simp [hb])), add_zero]

theorem sum_filter_of_zero {α : Type} (l : List α) (p : α → Bool) (f : α → K)
    (h : ∀ a ∈ l, p a = false → f a = 0) : (l.map f).sum = ((l.filter p).map f).sum := by
  induction l with
  | nil => rfl
  | cons a l ih =>
    have ih' := ih (fun b hb => h b (by simp [hb]))
    by_cases hp : p a = true
    · simp [List.filter_cons_of_pos hp, ih']
    · have hp' : p a = false := by simpa using hp
      rw [List.filter_cons_of_neg (by simpa using hp)]
      simp [h a (by simp) hp', ih']

end Genlm
