import GenlmModel.Proofs.LimWfsa
import GenlmModel.Proofs.MinDet

/-! # Weight pushing, `trim_vals` and the determinisation pipeline at the limit (property C13, task E4)

Python (`genlm/grammar/wfsa/base.py`): `push` (`V = self.backward`), `trim_vals`, `determinize`
(`self = self.epsremove.push`, then Mohri's subset construction), `min_det`.

**1. `push` over `ℝ≥0∞`** (machines with ε arcs and cycles, `inv := (·)⁻¹`, the TRUE backward weights `bwdL A`, i.e. the
least solution of the backward system, the total weight of ALL paths from a state to the final states):
* `bwdL_eq_tsum_BL`, `bwdL_dead`, `bwdL_dead_Bk` — the states dropped by the code (`V i = 0`) carry no weight;
  `bwdL_fin_closed` — finiteness of the backward weight propagates along arcs of non-zero weight;
* `push_Bk_ENN`, `push_Pk_ENN_split`, `push_Pk_ENN` — any potential `V : ι → ℝ≥0∞` (hypotheses `hdead`, `hfin`, `hinit`);
* `push_Pk_L`, `push_PL_init`, `push_PL`, `push_PL_of_total_finite` — **`PL (push A) x = PL A x`**.  Finiteness is needed
  exactly on the initial states: `hinit : bwdL A i = ∞ → wlook A.start i = 0` (implied by `∀ i, bwdL A i ≠ ∞`, and by
  `∑' x, PL A x ≠ ∞`).  `push_PL_le`, `push_PL_add_lost` (what is lost otherwise: the weight accepted from the initial
  states of infinite backward weight), `push_PL_hinit_necessary`, counterexample `LimPushAux.exInf`;
* `push_stochastic_ENN`, `push_stochastic_L` — stochastic at every kept state with `0 < V i < ∞`; `push_top_state_ENN`
  — a kept state with `V i = ∞` becomes a dead end (`∞⁻¹ = 0`); `push_start_sum_L` — the initial weights sum to the
  total weight `∑' x, PL A x`;
* `WFSA.pushDrop` — the REPAIRED `push` of the current Python code (arcs into states of potential zero are skipped;
  the model `WFSA.push` keeps them with weight `0`): `pushDrop_Bk`, `pushDrop_Pk`, `pushDrop_PN`, `pushDrop_out_sum`,
  `pushDrop_dst_live`, `pushDrop_PL`, `pushDrop_stochastic_L` — same weights in every commutative semiring;
* `epsremove_push_PL`, `epsremove_push_PL_of_total_finite` — the first two stages of `determinize` at the limit, for
  arbitrary machines (ε cycles).

**2. `trim_vals` over `ℝ≥0∞`**: `fwdL` (true forward weights, `= bwdL A.reverse`), `fwdL_eq_FL`, `fwdL_eq`, `fwdL_least`;
`trimVals_Pk_ENN` (any pre-fixed points of the two systems), **`trimVals_PL`** (true weights, no hypothesis),
`trimVals_PL_of_prefixed`, `mem_states_trimVals`.

**3. the pipeline over a field** (ε-acyclic machines): `determinizePipelineN`, `determinize_pipeline_core`,
**`determinize_pipeline_preserves`** (+ `_states`: decidable hypotheses, `_nonneg`: ordered fields, `V` = any non-negative
solution of the backward system), `determinize_pipeline_deterministic`; the same for the repaired push
(`determinizePipelineDropN`, `determinize_pipelineDrop_preserves(_states)`); `minDetPipelineN`,
**`minDet_pipeline_preserves`** (`min_det` with both `determinize` calls in full).

Examples (`Genlm.LimPushAux`): `exP` (ε cycle, finite backward weights `6`, `2`), `exInf` (the finiteness hypothesis is
needed), `exPipe` (ε arc, non-deterministic, over `ℚ`: the pipeline and `min_det` succeed and the theorems apply),
`exPipeD` (a dead end: the modelled `push` makes `determinize` divide by zero, the repaired one does not). -/
set_option linter.unusedSectionVars false

namespace Genlm
open scoped ENNReal
open WfsaAux Wfsa2Aux LimAux

/-! ### 0. `push` for an arbitrary `inv` (the lemmas of `Proofs/Wfsa2.lean` are stated for fields only) -/
namespace LimPushAux
section Generic
variable {ι σ K : Type} [DecidableEq ι] [DecidableEq σ] [DecidableEq K] [CommSemiring K]

theorem push_arcs_filter_E4 (inv : K → K) (A : WFSA ι σ K) (V : ι → K) (i : ι) (hi : i ∈ A.live V) :
    (A.push inv V).arcs.filter (fun e => e.src = i)
      = (A.arcs.filter fun e => e.src = i).map fun e => ⟨i, e.lbl, e.dst, inv (V i) * e.w * V e.dst⟩ := by
  have := filter_src_flatMap (A.live V) (nodup_live A V)
    (fun i => (A.arcs.filter fun e => e.src = i).map fun e =>
      (⟨i, e.lbl, e.dst, inv (V i) * e.w * V e.dst⟩ : Arc ι σ K))
    (by
      intro j e he
      obtain ⟨e', _, rfl⟩ := List.mem_map.mp he
      rfl) i
  rw [if_pos hi] at this
  exact this

theorem push_wlook_stop_E4 (inv : K → K) (A : WFSA ι σ K) (V : ι → K) (i : ι) :
    wlook (A.push inv V).stop i = if i ∈ A.live V then inv (V i) * wlook A.stop i else 0 :=
  wlook_map_nodup (A.live V) (nodup_live A V) (fun i => inv (V i) * wlook A.stop i) i

end Generic
end LimPushAux
open LimPushAux

/-! ### 1. weight pushing over `ℝ≥0∞` -/
section PushL
variable {ι σ : Type} [DecidableEq ι] [DecidableEq σ] [DecidableEq ℝ≥0∞]

/-- **backward sums of the pushed machine** (any potential `V : ι → ℝ≥0∞`): the backward sums of every kept state
(`V i ≠ 0`) are rescaled by `(V i)⁻¹` — in particular a kept state with `V i = ∞` accepts NOTHING after `push`
(`∞⁻¹ = 0`).  `hdead`: the dropped states accept nothing; `hfin`: a finite potential is not followed, along an arc of
non-zero weight, by an infinite one. -/
theorem push_Bk_ENN (A : WFSA ι σ ℝ≥0∞) (V : ι → ℝ≥0∞)
    (hdead : ∀ i ∈ A.states, V i = 0 → ∀ k x, Bk A k i x = 0)
    (hfin : ∀ e ∈ A.arcs, V e.src ≠ ∞ → e.w = 0 ∨ V e.dst ≠ ∞)
    (k : Nat) (i : ι) (x : List σ) (hi : i ∈ A.states) (hVi : V i ≠ 0) :
    Bk (A.push (·⁻¹) V) k i x = (V i)⁻¹ * Bk A k i x := by
  have hlive : i ∈ A.live V := (mem_live A V i).mpr ⟨hi, hVi⟩
  induction k generalizing i x with
  | zero =>
    rw [Bk_zero, Bk_zero, push_wlook_stop_E4, if_pos hlive]
    by_cases hx : x = [] <;> simp [hx]
  | succ k ih =>
    rw [Bk_succ, Bk_succ, push_arcs_filter_E4 _ A V i hlive, List.map_map, ← List.sum_map_mul_left]
    apply congrArg
    apply List.map_congr_left
    intro e he
    have he' := (List.mem_filter.mp he).1
    have hsrc : e.src = i := by simpa using (List.mem_filter.mp he).2
    simp only [Function.comp_def]
    rw [← List.sum_map_mul_left]
    apply congrArg
    apply List.map_congr_left
    intro x' _
    have hd := mem_states_dst A e he'
    by_cases hVd : V e.dst = 0
    · rw [hVd, hdead e.dst hd hVd k x']
      simp
    by_cases htop : V i = ∞
    · rw [htop]; simp
    by_cases hw : e.w = 0
    · rw [hw]; simp
    have hdfin : V e.dst ≠ ∞ := (hfin e he' (by rw [hsrc]; exact htop)).resolve_left hw
    rw [ih e.dst x' hd hVd ((mem_live A V _).mpr ⟨hd, hVd⟩)]
    have : V e.dst * (V e.dst)⁻¹ = 1 := ENNReal.mul_inv_cancel hVd hdfin
    calc (V i)⁻¹ * e.w * V e.dst * ((V e.dst)⁻¹ * Bk A k e.dst x')
        = (V i)⁻¹ * e.w * (V e.dst * (V e.dst)⁻¹) * Bk A k e.dst x' := by ring
      _ = (V i)⁻¹ * (e.w * Bk A k e.dst x') := by rw [this]; ring

/-- **what `push` computes, without any finiteness hypothesis on the initial states**: the accepting weight of the
pushed machine is the accepting weight of `A` from the initial states of FINITE potential only — the initial
states of infinite potential are kept (with initial weight `start · ∞`) but accept nothing. -/
theorem push_Pk_ENN_split (A : WFSA ι σ ℝ≥0∞) (V : ι → ℝ≥0∞)
    (hdead : ∀ i ∈ A.states, V i = 0 → ∀ k x, Bk A k i x = 0)
    (hfin : ∀ e ∈ A.arcs, V e.src ≠ ∞ → e.w = 0 ∨ V e.dst ≠ ∞) (k : Nat) (x : List σ) :
    Pk (A.push (·⁻¹) V) k x
      = (A.states.map fun i => if V i = ∞ then 0 else wlook A.start i * Bk A k i x).sum := by
  rw [Pk_eq_Bk]
  have hstart : (A.push (·⁻¹) V).start = (A.live V).map fun i => (i, wlook A.start i * V i) := rfl
  rw [hstart, List.map_map, WFSA.live, sum_filter_ite]
  apply congrArg
  apply List.map_congr_left
  intro i hi
  simp only [Function.comp_def, decide_eq_true_eq]
  by_cases hVi : V i = 0
  · have : V i ≠ ∞ := by rw [hVi]; exact ENNReal.zero_ne_top
    simp [hVi, hdead i hi hVi k x]
  · rw [if_pos hVi, push_Bk_ENN A V hdead hfin k i x hi hVi]
    by_cases htop : V i = ∞
    · rw [if_pos htop, htop]; simp
    · rw [if_neg htop]
      have : V i * (V i)⁻¹ = 1 := ENNReal.mul_inv_cancel hVi htop
      calc wlook A.start i * V i * ((V i)⁻¹ * Bk A k i x)
          = wlook A.start i * (V i * (V i)⁻¹) * Bk A k i x := by ring
        _ = wlook A.start i * Bk A k i x := by rw [this]; ring

/-- **weight pushing preserves the weight of every string, stratum by stratum** (general potential): beyond
`hdead`, `hfin` the only finiteness needed is on the INITIAL states — `hinit`: a state of infinite potential has
initial weight zero. -/
theorem push_Pk_ENN (A : WFSA ι σ ℝ≥0∞) (V : ι → ℝ≥0∞)
    (hdead : ∀ i ∈ A.states, V i = 0 → ∀ k x, Bk A k i x = 0)
    (hfin : ∀ e ∈ A.arcs, V e.src ≠ ∞ → e.w = 0 ∨ V e.dst ≠ ∞)
    (hinit : ∀ i ∈ A.states, V i = ∞ → wlook A.start i = 0) (k : Nat) (x : List σ) :
    Pk (A.push (·⁻¹) V) k x = Pk A k x := by
  rw [push_Pk_ENN_split A V hdead hfin, Pk_eq_states_Bk]
  apply congrArg
  apply List.map_congr_left
  intro i hi
  by_cases htop : V i = ∞
  · rw [if_pos htop, hinit i hi htop, zero_mul]
  · rw [if_neg htop]

/-! #### the TRUE backward weights `bwdL A` satisfy the hypotheses -/

/-- summing the stratified backward sums over all strings erases the labels -/
theorem tsum_Bk_E4 (A : WFSA ι σ ℝ≥0∞) (k : Nat) (i : ι) : ∑' x, Bk A k i x = Bk A.allEps k i [] := by
  have hf : A.allEps.stop = A.stop := rfl
  unfold Bk
  rw [hf, tsum_list_sumW A.stop (fun x f => Qk A k i x f.1 * f.2)]
  apply congrArg
  apply List.map_congr_left
  intro f _
  rw [ENNReal.tsum_mul_right, tsum_Qk]

/-- the true backward weight of a state is the sum, over all strings, of its backward weights -/
theorem bwdL_eq_tsum_BL (A : WFSA ι σ ℝ≥0∞) (i : ι) : bwdL A i = ∑' x, BL A i x := by
  unfold bwdL
  rw [BL_eq_tsum]
  simp only [BL_eq_tsum, ← tsum_Bk_E4]
  exact ENNReal.tsum_comm

/-- **the states dropped by `push` (`V i = 0`) carry no weight** -/
theorem bwdL_dead (A : WFSA ι σ ℝ≥0∞) (i : ι) (h : bwdL A i = 0) (x : List σ) : BL A i x = 0 := by
  rw [bwdL_eq_tsum_BL, ENNReal.tsum_eq_zero] at h
  exact h x

theorem bwdL_dead_Bk (A : WFSA ι σ ℝ≥0∞) (i : ι) (h : bwdL A i = 0) (k : Nat) (x : List σ) :
    Bk A k i x = 0 := by
  have := bwdL_dead A i h x
  rw [BL_eq_tsum, ENNReal.tsum_eq_zero] at this
  exact this k

/-- a state of finite backward weight has no arc of non-zero weight into a state of infinite backward weight -/
theorem bwdL_fin_closed (A : WFSA ι σ ℝ≥0∞) (e : Arc ι σ ℝ≥0∞) (he : e ∈ A.arcs) (h : bwdL A e.src ≠ ∞) :
    e.w = 0 ∨ bwdL A e.dst ≠ ∞ := by
  by_contra hc
  rw [not_or, not_not] at hc
  apply h
  rw [bwdL_eq, ENNReal.add_eq_top]
  right
  rw [← top_le_iff]
  have hm : e.w * bwdL A e.dst ∈ (A.arcs.filter fun e' => e'.src = e.src).map fun e' => e'.w * bwdL A e'.dst :=
    List.mem_map.mpr ⟨e, List.mem_filter.mpr ⟨he, by simp⟩, rfl⟩
  refine le_trans ?_ (List.le_sum_of_mem hm)
  rw [hc.2, ENNReal.mul_top hc.1]

/-- **`push` with the true backward weights, stratum by stratum.**  Finiteness is needed on the INITIAL states only:
`hinit` — every state with non-zero initial weight has a finite backward weight (then so has every state reachable from
it along arcs of non-zero weight, `bwdL_fin_closed`). -/
theorem push_Pk_L (A : WFSA ι σ ℝ≥0∞) (hinit : ∀ i ∈ A.states, bwdL A i = ∞ → wlook A.start i = 0)
    (k : Nat) (x : List σ) : Pk (A.push (·⁻¹) (bwdL A)) k x = Pk A k x :=
  push_Pk_ENN A (bwdL A) (fun i _ h k x => bwdL_dead_Bk A i h k x) (fun e he h => bwdL_fin_closed A e he h)
    hinit k x

/-- **C13, `push` at the limit** (ε arcs and cycles allowed): with the true backward weights, the pushed machine gives
every string the sum over ALL its accepting paths in `A`, as soon as the initial states have finite backward weights -/
theorem push_PL_init (A : WFSA ι σ ℝ≥0∞) (hinit : ∀ i ∈ A.states, bwdL A i = ∞ → wlook A.start i = 0)
    (x : List σ) : PL (A.push (·⁻¹) (bwdL A)) x = PL A x := by
  simp only [PL_eq_tsum, push_Pk_L A hinit]

/-- the statement of the brief: all backward weights finite -/
theorem push_PL (A : WFSA ι σ ℝ≥0∞) (hfin : ∀ i, bwdL A i ≠ ∞) (x : List σ) :
    PL (A.push (·⁻¹) (bwdL A)) x = PL A x :=
  push_PL_init A (fun i _ h => absurd h (hfin i)) x

/-- … which holds as soon as the total weight `∑' x, PL A x` of the machine is finite and no initial weight is
lost … (sufficient, decidable-in-spirit form: the total weight is finite) -/
theorem push_PL_of_total_finite (A : WFSA ι σ ℝ≥0∞) (hT : ∑' x, PL A x ≠ ∞) (x : List σ) :
    PL (A.push (·⁻¹) (bwdL A)) x = PL A x := by
  apply push_PL_init
  intro i hi htop
  by_contra hne
  apply hT
  rw [tsum_PL_eq_totalWeight, totalWeight_eq,
    sum_eq_sum_wlook A.start A.states (nodup_states A) (fun s hs => mem_states_start A s hs) (bwdL A),
    ← top_le_iff]
  have hm : wlook A.start i * bwdL A i ∈ A.states.map fun i => wlook A.start i * bwdL A i :=
    List.mem_map.mpr ⟨i, hi, rfl⟩
  refine le_trans ?_ (List.le_sum_of_mem hm)
  rw [htop, ENNReal.mul_top hne]

/-- without any finiteness hypothesis `push` can only LOSE weight -/
theorem push_PL_le (A : WFSA ι σ ℝ≥0∞) (x : List σ) : PL (A.push (·⁻¹) (bwdL A)) x ≤ PL A x := by
  simp only [PL_eq_tsum]
  refine ENNReal.tsum_le_tsum fun k => ?_
  rw [push_Pk_ENN_split A (bwdL A) (fun i _ h k x => bwdL_dead_Bk A i h k x)
    (fun e he h => bwdL_fin_closed A e he h), Pk_eq_states_Bk]
  apply List.sum_le_sum
  intro i _
  by_cases htop : bwdL A i = ∞
  · rw [if_pos htop]; exact bot_le
  · rw [if_neg htop]

/-- **exactly what `push` loses**: the accepting weight from the initial states of infinite backward weight -/
theorem push_PL_add_lost (A : WFSA ι σ ℝ≥0∞) (x : List σ) :
    PL (A.push (·⁻¹) (bwdL A)) x
      + (A.states.map fun i => if bwdL A i = ∞ then wlook A.start i * BL A i x else 0).sum = PL A x := by
  have hk : ∀ k, Pk (A.push (·⁻¹) (bwdL A)) k x
      + (A.states.map fun i => if bwdL A i = ∞ then wlook A.start i * Bk A k i x else 0).sum = Pk A k x := by
    intro k
    rw [push_Pk_ENN_split A (bwdL A) (fun i _ h k x => bwdL_dead_Bk A i h k x)
      (fun e he h => bwdL_fin_closed A e he h), Pk_eq_states_Bk, ← List.sum_map_add]
    apply congrArg
    apply List.map_congr_left
    intro i _
    by_cases htop : bwdL A i = ∞
    · rw [if_pos htop, if_pos htop, zero_add]
    · rw [if_neg htop, if_neg htop, add_zero]
  have hl : (A.states.map fun i => if bwdL A i = ∞ then wlook A.start i * BL A i x else 0).sum
      = ∑' k, (A.states.map fun i => if bwdL A i = ∞ then wlook A.start i * Bk A k i x else 0).sum := by
    rw [tsum_list_sumW A.states (fun k i => if bwdL A i = ∞ then wlook A.start i * Bk A k i x else 0)]
    apply congrArg
    apply List.map_congr_left
    intro i _
    by_cases htop : bwdL A i = ∞
    · simp only [if_pos htop]; rw [ENNReal.tsum_mul_left, BL_eq_tsum]
    · simp only [if_neg htop, tsum_zero]
  rw [hl, PL_eq_tsum, PL_eq_tsum, ← ENNReal.tsum_add]
  exact tsum_congr hk

/-- **the hypothesis `hinit` of `push_PL_init` is necessary**: an initial state of non-zero initial weight and infinite
backward weight makes `push` lose weight on some string (unless that string already has infinite weight) -/
theorem push_PL_hinit_necessary (A : WFSA ι σ ℝ≥0∞) (i : ι) (hi : i ∈ A.states) (htop : bwdL A i = ∞)
    (hs : wlook A.start i ≠ 0) : ∃ x, PL (A.push (·⁻¹) (bwdL A)) x ≠ PL A x ∨ PL A x = ∞ := by
  have hex : ∃ x, BL A i x ≠ 0 := by
    by_contra hc
    have h0 : ∀ x, BL A i x = 0 := fun x => by
      by_contra h; exact hc ⟨x, h⟩
    rw [bwdL_eq_tsum_BL] at htop
    simp only [h0, tsum_zero] at htop
    exact ENNReal.zero_ne_top htop
  obtain ⟨x, hx⟩ := hex
  refine ⟨x, ?_⟩
  by_cases hfin : PL A x = ∞
  · exact Or.inr hfin
  · left
    intro heq
    have h := push_PL_add_lost A x
    rw [heq] at h
    have hlost : (A.states.map fun i => if bwdL A i = ∞ then wlook A.start i * BL A i x else 0).sum = 0 := by
      have h' : PL A x + (A.states.map fun i =>
          if bwdL A i = ∞ then wlook A.start i * BL A i x else 0).sum = PL A x + 0 := by rw [add_zero]; exact h
      exact (ENNReal.add_right_inj hfin).mp h'
    have hm : (if bwdL A i = ∞ then wlook A.start i * BL A i x else 0)
        ∈ A.states.map fun i => if bwdL A i = ∞ then wlook A.start i * BL A i x else 0 :=
      List.mem_map.mpr ⟨i, hi, rfl⟩
    have hle := List.le_sum_of_mem hm
    rw [hlost, if_pos htop] at hle
    exact mul_ne_zero hs hx (le_antisymm hle bot_le)

/-! #### the pushed machine is stochastic -/

/-- a potential that solves the backward equation at `i` and does not vanish there belongs to a state -/
theorem mem_states_of_backward_ne_zero (A : WFSA ι σ ℝ≥0∞) (V : ι → ℝ≥0∞) (i : ι)
    (hV : V i = wlook A.stop i + ((A.arcs.filter fun e => e.src = i).map fun e => e.w * V e.dst).sum)
    (hVi : V i ≠ 0) : i ∈ A.states := by
  by_contra hni
  apply hVi
  rw [hV, wlook_eq_zero A.stop i (fun f hf hfi => hni (hfi ▸ mem_states_stop A f hf))]
  have : A.arcs.filter (fun e => e.src = i) = [] := by
    rw [List.filter_eq_nil_iff]
    intro e he
    have : e.src ≠ i := fun h => hni (h ▸ mem_states_src A e he)
    simp [this]
  simp [this]

/-- **the pushed machine is stochastic at every state whose potential is neither `0` nor `∞`** (any solution `V` of the
backward equation at `i`): the final weight of `i` plus the weights of the arcs leaving `i` sum to one -/
theorem push_stochastic_ENN (A : WFSA ι σ ℝ≥0∞) (V : ι → ℝ≥0∞) (i : ι)
    (hV : V i = wlook A.stop i + ((A.arcs.filter fun e => e.src = i).map fun e => e.w * V e.dst).sum)
    (h0 : V i ≠ 0) (htop : V i ≠ ∞) :
    wlook (A.push (·⁻¹) V).stop i
      + (((A.push (·⁻¹) V).arcs.filter fun e => e.src = i).map (·.w)).sum = 1 := by
  have hi := mem_states_of_backward_ne_zero A V i hV h0
  have hlive : i ∈ A.live V := (mem_live A V i).mpr ⟨hi, h0⟩
  rw [push_wlook_stop_E4, if_pos hlive, push_arcs_filter_E4 _ A V i hlive, List.map_map]
  have : (((fun e : Arc ι σ ℝ≥0∞ => e.w) ∘ fun e : Arc ι σ ℝ≥0∞ =>
        (⟨i, e.lbl, e.dst, (V i)⁻¹ * e.w * V e.dst⟩ : Arc ι σ ℝ≥0∞)))
      = fun e => (V i)⁻¹ * (e.w * V e.dst) := by
    funext e; simp only [Function.comp_def]; ring
  rw [this, List.sum_map_mul_left, ← mul_add, ← hV]
  exact ENNReal.inv_mul_cancel h0 htop

/-- … whereas a kept state of INFINITE potential becomes a dead end: its final weight and all its arcs get weight `0` -/
theorem push_top_state_ENN (A : WFSA ι σ ℝ≥0∞) (V : ι → ℝ≥0∞) (i : ι) (htop : V i = ∞) :
    wlook (A.push (·⁻¹) V).stop i
      + (((A.push (·⁻¹) V).arcs.filter fun e => e.src = i).map (·.w)).sum = 0 := by
  by_cases hi : i ∈ A.states
  · have hlive : i ∈ A.live V := (mem_live A V i).mpr ⟨hi, by rw [htop]; exact ENNReal.top_ne_zero⟩
    rw [push_wlook_stop_E4, if_pos hlive, push_arcs_filter_E4 _ A V i hlive, List.map_map, htop]
    simp [Function.comp_def]
  · have hlive : i ∉ A.live V := fun h => hi ((mem_live A V i).mp h).1
    have h2 : (A.push (·⁻¹) V).arcs.filter (fun e => e.src = i) = [] := by
      have := filter_src_flatMap (A.live V) (nodup_live A V)
        (fun i => (A.arcs.filter fun e => e.src = i).map fun e =>
          (⟨i, e.lbl, e.dst, (V i)⁻¹ * e.w * V e.dst⟩ : Arc ι σ ℝ≥0∞))
        (by
          intro j e he
          obtain ⟨e', _, rfl⟩ := List.mem_map.mp he
          rfl) i
      rw [if_neg hlive] at this
      exact this
    rw [push_wlook_stop_E4, if_neg hlive, h2]
    simp

/-- **`push` with the true backward weights is stochastic** at every kept state `i` (`0 < bwdL A i < ∞`) -/
theorem push_stochastic_L (A : WFSA ι σ ℝ≥0∞) (i : ι) (h0 : bwdL A i ≠ 0) (htop : bwdL A i ≠ ∞) :
    wlook (A.push (·⁻¹) (bwdL A)).stop i
      + (((A.push (·⁻¹) (bwdL A)).arcs.filter fun e => e.src = i).map (·.w)).sum = 1 :=
  push_stochastic_ENN A (bwdL A) i (bwdL_eq A i) h0 htop

/-- the initial weights of the pushed machine add up to the total weight of `A`: the sum over ALL strings of the sum
over ALL accepting paths (no hypothesis) -/
theorem push_start_sum_L (A : WFSA ι σ ℝ≥0∞) :
    ((A.push (·⁻¹) (bwdL A)).start.map (·.2)).sum = ∑' x, PL A x := by
  rw [tsum_PL_eq_totalWeight, totalWeight_eq,
    sum_eq_sum_wlook A.start A.states (nodup_states A) (fun s hs => mem_states_start A s hs) (bwdL A)]
  have hstart : (A.push (·⁻¹) (bwdL A)).start
      = (A.live (bwdL A)).map fun i => (i, wlook A.start i * bwdL A i) := rfl
  rw [hstart, List.map_map, WFSA.live, sum_filter_ite]
  apply congrArg
  apply List.map_congr_left
  intro i _
  by_cases hVi : bwdL A i = 0 <;> simp [hVi]

end PushL

/-! ### 1'. the repaired `push` (arcs into states of potential zero are DROPPED, not kept with weight zero)

The Python code now reads `for a, j, w in self.arcs(i): if V[j] == zero: continue; new.add_arc(…)`; the model
`WFSA.push` of `Model/WfsaOps2.lean` still keeps these arcs, with weight `inv (V i) * w * 0 = 0`.  `WFSA.pushDrop`
mirrors the repaired loop; it has the same backward sums, hence the same weights, as `WFSA.push` in every commutative
semiring — every theorem about `push` (here and in `Proofs/Wfsa2.lean`) transfers. -/
section PushDrop
variable {ι σ K : Type} [DecidableEq ι] [DecidableEq σ] [DecidableEq K]

/-- `WFSA.push` as repaired: `if V[j] == zero: continue` inside the loop over the arcs -/
def WFSA.pushDrop [Add K] [Mul K] [Zero K] [One K] (inv : K → K) (A : WFSA ι σ K) (V : ι → K) : WFSA ι σ K where
  start := (A.live V).map fun i => (i, wlook A.start i * V i)
  stop := (A.live V).map fun i => (i, inv (V i) * wlook A.stop i)
  arcs := (A.live V).flatMap fun i => ((A.arcs.filter fun e => e.src = i).filter fun e => V e.dst ≠ 0).map fun e =>
    ⟨i, e.lbl, e.dst, inv (V i) * e.w * V e.dst⟩

variable [CommSemiring K]

theorem pushDrop_arcs_filter_E4 (inv : K → K) (A : WFSA ι σ K) (V : ι → K) (i : ι) :
    (A.pushDrop inv V).arcs.filter (fun e => e.src = i)
      = if i ∈ A.live V then ((A.arcs.filter fun e => e.src = i).filter fun e => V e.dst ≠ 0).map fun e =>
          ⟨i, e.lbl, e.dst, inv (V i) * e.w * V e.dst⟩ else [] := by
  have := filter_src_flatMap (A.live V) (nodup_live A V)
    (fun i => ((A.arcs.filter fun e => e.src = i).filter fun e => V e.dst ≠ 0).map fun e =>
      (⟨i, e.lbl, e.dst, inv (V i) * e.w * V e.dst⟩ : Arc ι σ K))
    (by
      intro j e he
      obtain ⟨e', _, rfl⟩ := List.mem_map.mp he
      rfl) i
  exact this

theorem push_arcs_filter_all_E4 (inv : K → K) (A : WFSA ι σ K) (V : ι → K) (i : ι) :
    (A.push inv V).arcs.filter (fun e => e.src = i)
      = if i ∈ A.live V then (A.arcs.filter fun e => e.src = i).map fun e =>
          ⟨i, e.lbl, e.dst, inv (V i) * e.w * V e.dst⟩ else [] := by
  have := filter_src_flatMap (A.live V) (nodup_live A V)
    (fun i => (A.arcs.filter fun e => e.src = i).map fun e =>
      (⟨i, e.lbl, e.dst, inv (V i) * e.w * V e.dst⟩ : Arc ι σ K))
    (by
      intro j e he
      obtain ⟨e', _, rfl⟩ := List.mem_map.mp he
      rfl) i
  exact this

/-- the dropped arcs have weight zero: sums over the arcs leaving a state agree -/
theorem pushDrop_sum_arcs_E4 (inv : K → K) (A : WFSA ι σ K) (V : ι → K) (i : ι) (g : Arc ι σ K → K) :
    (((A.pushDrop inv V).arcs.filter fun e => e.src = i).map fun e => e.w * g e).sum
      = (((A.push inv V).arcs.filter fun e => e.src = i).map fun e => e.w * g e).sum := by
  rw [pushDrop_arcs_filter_E4, push_arcs_filter_all_E4]
  by_cases hi : i ∈ A.live V
  · rw [if_pos hi, if_pos hi, List.map_map, List.map_map]
    symm
    apply sum_filter_of_zero
    intro e _ he
    have : V e.dst = 0 := by simpa using he
    simp [this]
  · rw [if_neg hi, if_neg hi]

/-- **the repaired `push` has the same backward sums as the modelled one** (any semiring, any `inv`, any `V`) -/
theorem pushDrop_Bk (inv : K → K) (A : WFSA ι σ K) (V : ι → K) (k : Nat) (i : ι) (x : List σ) :
    Bk (A.pushDrop inv V) k i x = Bk (A.push inv V) k i x := by
  have hstop : (A.pushDrop inv V).stop = (A.push inv V).stop := rfl
  induction k generalizing i x with
  | zero => rw [Bk_zero, Bk_zero, hstop]
  | succ k ih =>
    rw [Bk_succ, Bk_succ]
    simp only [ih, List.sum_map_mul_left]
    exact pushDrop_sum_arcs_E4 inv A V i (fun e => ((lpeel e.lbl x).map fun x' => Bk (A.push inv V) k e.dst x').sum)

/-- **… hence gives every string the same weight, stratum by stratum** -/
theorem pushDrop_Pk (inv : K → K) (A : WFSA ι σ K) (V : ι → K) (k : Nat) (x : List σ) :
    Pk (A.pushDrop inv V) k x = Pk (A.push inv V) k x := by
  have hstart : (A.pushDrop inv V).start = (A.push inv V).start := rfl
  rw [Pk_eq_Bk, Pk_eq_Bk, hstart]
  simp only [pushDrop_Bk]

theorem pushDrop_PN (inv : K → K) (A : WFSA ι σ K) (V : ι → K) (n : Nat) (x : List σ) :
    PN (A.pushDrop inv V) n x = PN (A.push inv V) n x := by
  simp only [PN_eq, pushDrop_Pk]

/-- the outgoing mass of every state is the same (so the stochasticity statements transfer) -/
theorem pushDrop_out_sum (inv : K → K) (A : WFSA ι σ K) (V : ι → K) (i : ι) :
    wlook (A.pushDrop inv V).stop i + (((A.pushDrop inv V).arcs.filter fun e => e.src = i).map (·.w)).sum
      = wlook (A.push inv V).stop i + (((A.push inv V).arcs.filter fun e => e.src = i).map (·.w)).sum := by
  have hstop : (A.pushDrop inv V).stop = (A.push inv V).stop := rfl
  have := pushDrop_sum_arcs_E4 inv A V i (fun _ => 1)
  simp only [mul_one] at this
  rw [hstop, this]

omit [DecidableEq σ] in
/-- no arc of the repaired `push` enters a state of potential zero -/
theorem pushDrop_dst_live (inv : K → K) (A : WFSA ι σ K) (V : ι → K) (e : Arc ι σ K)
    (he : e ∈ (A.pushDrop inv V).arcs) : V e.src ≠ 0 ∧ V e.dst ≠ 0 := by
  simp only [WFSA.pushDrop, List.mem_flatMap, List.mem_map, List.mem_filter] at he
  obtain ⟨i, hi, e', ⟨_, hd⟩, rfl⟩ := he
  exact ⟨((mem_live A V i).mp hi).2, by simpa using hd⟩

end PushDrop

section PushDropL
variable {ι σ : Type} [DecidableEq ι] [DecidableEq σ] [DecidableEq ℝ≥0∞]

/-- C13 at the limit for the repaired `push` -/
theorem pushDrop_PL (A : WFSA ι σ ℝ≥0∞) (hinit : ∀ i ∈ A.states, bwdL A i = ∞ → wlook A.start i = 0)
    (x : List σ) : PL (A.pushDrop (·⁻¹) (bwdL A)) x = PL A x := by
  rw [← push_PL_init A hinit x]
  simp only [PL_eq_tsum, pushDrop_Pk]

theorem pushDrop_stochastic_L (A : WFSA ι σ ℝ≥0∞) (i : ι) (h0 : bwdL A i ≠ 0) (htop : bwdL A i ≠ ∞) :
    wlook (A.pushDrop (·⁻¹) (bwdL A)).stop i
      + (((A.pushDrop (·⁻¹) (bwdL A)).arcs.filter fun e => e.src = i).map (·.w)).sum = 1 := by
  rw [pushDrop_out_sum]; exact push_stochastic_L A i h0 htop

/-- **`epsremove` then `push` at the limit, for ARBITRARY machines (ε cycles allowed)**: the first two stages of
`determinize` over `ℝ≥0∞`, relative to the true closure of the ε graph and the true backward weights of the ε-free
machine `B` -/
theorem epsremove_push_PL (A : WFSA ι σ ℝ≥0∞) (S : ι → ι → ℝ≥0∞) (out : ι → List ι)
    (hS : ∀ i ∈ A.states, ∀ k, S i k = ∑' m, Qk A.epsPart m i [] k)
    (hout : ∀ i ∈ A.states, ∀ k, S i k ≠ 0 → k ∈ out i) (hnd : ∀ i ∈ A.states, (out i).Nodup)
    (hinit : ∀ i ∈ (A.epsremove S out).states, bwdL (A.epsremove S out) i = ∞ → wlook (A.epsremove S out).start i = 0)
    (x : List σ) :
    PL ((A.epsremove S out).push (·⁻¹) (bwdL (A.epsremove S out))) x = PL A x
      ∧ forward ((A.epsremove S out).push (·⁻¹) (bwdL (A.epsremove S out))) x = PL A x := by
  have h1 : PL ((A.epsremove S out).push (·⁻¹) (bwdL (A.epsremove S out))) x = PL A x := by
    rw [push_PL_init _ hinit, epsremove_PL A S out hS hout hnd]
  refine ⟨h1, ?_⟩
  have hP : ((A.epsremove S out).push (·⁻¹) (bwdL (A.epsremove S out))).EpsFree :=
    MinDetAux.minDet_push_epsFree _ _ (epsremove_epsfree A S out) _
  rw [forward_correct _ hP, ← PL_epsfree _ hP, h1]

/-- … in particular whenever the total weight of `A` is finite -/
theorem epsremove_push_PL_of_total_finite (A : WFSA ι σ ℝ≥0∞) (S : ι → ι → ℝ≥0∞) (out : ι → List ι)
    (hS : ∀ i ∈ A.states, ∀ k, S i k = ∑' m, Qk A.epsPart m i [] k)
    (hout : ∀ i ∈ A.states, ∀ k, S i k ≠ 0 → k ∈ out i) (hnd : ∀ i ∈ A.states, (out i).Nodup)
    (hT : ∑' x, PL A x ≠ ∞) (x : List σ) :
    PL ((A.epsremove S out).push (·⁻¹) (bwdL (A.epsremove S out))) x = PL A x := by
  rw [push_PL_of_total_finite, epsremove_PL A S out hS hout hnd]
  simp only [epsremove_PL A S out hS hout hnd]
  exact hT

end PushDropL

/-! ### 2. `trim_vals` over `ℝ≥0∞` with the true forward / backward weights -/
section TrimVals
variable {ι σ : Type} [DecidableEq ι] [DecidableEq σ] [DecidableEq ℝ≥0∞]

/-- the true forward weight of a state: the backward weight in the reversed machine … -/
noncomputable def fwdL (A : WFSA ι σ ℝ≥0∞) (j : ι) : ℝ≥0∞ := bwdL A.reverse j

theorem allEps_reverse_E4 (A : WFSA ι σ ℝ≥0∞) : A.reverse.allEps = A.allEps.reverse := by
  simp [WFSA.allEps, WFSA.reverse, List.map_map, Function.comp_def]

/-- … that is the total weight of ALL paths from the initial states to `j`, initial weight included, whatever they
spell (what `WFSA.forward`, the least solution of the forward system, converges to) -/
theorem fwdL_eq_FL (A : WFSA ι σ ℝ≥0∞) (j : ι) : fwdL A j = FL A.allEps [] j := by
  have hs : A.reverse.allEps.stop = A.start := rfl
  have hs' : A.allEps.start = A.start := rfl
  unfold fwdL bwdL BL FL
  rw [hs, hs']
  apply congrArg
  apply List.map_congr_left
  intro s _
  rw [mul_comm]
  congr 1
  unfold QL
  apply tsum_congr
  intro k
  rw [allEps_reverse_E4]
  exact reverse_Qk A.allEps k s.1 j []

/-- the true forward weights solve the forward system `f = start + f·E` … -/
theorem fwdL_eq (A : WFSA ι σ ℝ≥0∞) (j : ι) :
    fwdL A j = wlook A.start j + ((A.arcs.filter (fun e => e.dst = j)).map fun e => fwdL A e.src * e.w).sum := by
  have harcs : A.reverse.arcs = A.arcs.map fun e => ⟨e.dst, e.lbl, e.src, e.w⟩ := rfl
  have hstop : A.reverse.stop = A.start := rfl
  unfold fwdL
  rw [bwdL_eq A.reverse j, hstop, harcs]
  congr 1
  simp only [List.filter_map, List.map_map, Function.comp_def]
  apply congrArg
  apply List.map_congr_left
  intro e _
  rw [mul_comm]

/-- … and are its least solution (even the least pre-fixed point) -/
theorem fwdL_least (A : WFSA ι σ ℝ≥0∞) (f : ι → ℝ≥0∞)
    (hf : ∀ j, wlook A.start j + ((A.arcs.filter (fun e => e.dst = j)).map fun e => f e.src * e.w).sum ≤ f j)
    (j : ι) : fwdL A j ≤ f j := by
  have harcs : A.reverse.arcs = A.arcs.map fun e => ⟨e.dst, e.lbl, e.src, e.w⟩ := rfl
  have hstop : A.reverse.stop = A.start := rfl
  apply bwdL_least A.reverse f
  intro i
  refine le_trans (le_of_eq ?_) (hf i)
  rw [hstop, harcs]
  congr 1
  simp only [List.filter_map, List.map_map, Function.comp_def]
  apply congrArg
  apply List.map_congr_left
  intro e _
  rw [mul_comm]

/-- **`trim_vals` preserves the weight of every string, stratum by stratum, for ANY pre-fixed points** `fwd`, `bwd` of the
forward and backward systems (in particular any solutions, in particular the true weights): a state whose `fwd` is `0`
cannot be entered with non-zero weight, a state whose `bwd` is `0` accepts nothing -/
theorem trimVals_Pk_ENN (A : WFSA ι σ ℝ≥0∞) (fwd bwd : ι → ℝ≥0∞)
    (hF : ∀ j, wlook A.start j + ((A.arcs.filter (fun e => e.dst = j)).map fun e => fwd e.src * e.w).sum ≤ fwd j)
    (hB : ∀ i, wlook A.stop i + ((A.arcs.filter (fun e => e.src = i)).map fun e => e.w * bwd e.dst).sum ≤ bwd i)
    (k : Nat) (x : List σ) : Pk (A.trimVals fwd bwd) k x = Pk A k x := by
  apply trimTo_Pk A _ (fun i => i ∈ A.states ∧ fwd i ≠ 0)
  · intro e he hsrc
    by_cases hw0 : e.w = 0
    · exact Or.inr hw0
    · refine Or.inl ⟨mem_states_dst A e he, fun h0 => ?_⟩
      have hm : fwd e.src * e.w ∈ (A.arcs.filter (fun e' => e'.dst = e.dst)).map fun e' => fwd e'.src * e'.w :=
        List.mem_map.mpr ⟨e, List.mem_filter.mpr ⟨he, by simp⟩, rfl⟩
      have hle : fwd e.src * e.w ≤ fwd e.dst :=
        le_trans (le_trans (List.le_sum_of_mem hm) le_add_self) (hF e.dst)
      rw [h0] at hle
      exact mul_ne_zero hsrc.2 hw0 (le_antisymm hle bot_le)
  · intro i hi
    by_cases his : i ∈ A.states
    · have h0 : fwd i = 0 := by
        by_contra h; exact hi ⟨his, h⟩
      have hle : wlook A.start i ≤ fwd i := le_trans le_self_add (hF i)
      rw [h0] at hle
      exact le_antisymm hle bot_le
    · exact wlook_eq_zero A.start i (fun s hs hsi => his (hsi ▸ mem_states_start A s hs))
  · intro i hi
    have := List.mem_filter.mp hi
    simp only [ne_eq, decide_eq_true_eq] at this
    exact ⟨this.1, this.2.1⟩
  · intro i hRi hni k x
    have hb : bwd i = 0 := by
      by_contra h
      exact hni (List.mem_filter.mpr ⟨hRi.1, by simp [hRi.2, h]⟩)
    have hle := bwdL_least A bwd hB i
    rw [hb] at hle
    exact bwdL_dead_Bk A i (le_antisymm hle bot_le) k x

/-- **`trim_vals` at the limit, true forward / backward weights** (ε arcs and cycles allowed, no hypothesis) -/
theorem trimVals_PL (A : WFSA ι σ ℝ≥0∞) (x : List σ) : PL (A.trimVals (fwdL A) (bwdL A)) x = PL A x := by
  simp only [PL_eq_tsum, trimVals_Pk_ENN A (fwdL A) (bwdL A) (fun j => le_of_eq (fwdL_eq A j).symm)
    (fun i => le_of_eq (bwdL_eq A i).symm)]

/-- … for any solutions (or pre-fixed points) of the two systems -/
theorem trimVals_PL_of_prefixed (A : WFSA ι σ ℝ≥0∞) (fwd bwd : ι → ℝ≥0∞)
    (hF : ∀ j, wlook A.start j + ((A.arcs.filter (fun e => e.dst = j)).map fun e => fwd e.src * e.w).sum ≤ fwd j)
    (hB : ∀ i, wlook A.stop i + ((A.arcs.filter (fun e => e.src = i)).map fun e => e.w * bwd e.dst).sum ≤ bwd i)
    (x : List σ) : PL (A.trimVals fwd bwd) x = PL A x := by
  simp only [PL_eq_tsum, trimVals_Pk_ENN A fwd bwd hF hB]

/-- the states kept by `trim_vals` (true weights) are exactly the states that lie on an accepting path of non-zero
weight, in the sense that both the weight of the paths reaching them and the weight of the paths leaving them are
non-zero -/
theorem mem_states_trimVals (A : WFSA ι σ ℝ≥0∞) (i : ι) :
    i ∈ (A.trimVals (fwdL A) (bwdL A)).states ↔ i ∈ A.states ∧ fwdL A i ≠ 0 ∧ bwdL A i ≠ 0 := by
  rw [WFSA.trimVals, mem_states_trimTo]
  simp

end TrimVals

/-! ### 3. the pipeline `determinize = (subset construction) ∘ push ∘ epsremove` over a field, ε-acyclic machines -/
section Pipeline
variable {ι σ K : Type} [DecidableEq ι] [DecidableEq σ] [DecidableEq K] [Field K]
open MinDetAux

/-- the three stages of Python's `determinize` (`self = self.epsremove.push`, then the subset construction); `S`, `out`
are Python's `E.closure()` and its adjacency, `V` is Python's `self.epsremove.backward` -/
def determinizePipelineN (inv : K → K) (A : WFSA ι σ K) (S : ι → ι → K) (out : ι → List ι) (V : ι → K)
    (fuel : Nat) : Option (WFSA (List (ι × K)) σ K) :=
  determinizeN inv ((A.epsremove S out).push inv V) fuel

/-- stages 2 and 3 on an ε-free machine `B`: `push` then the subset construction -/
theorem det_push_forward_E4 (B : WFSA ι σ K) (hB : B.EpsFree) (V : ι → K)
    (hdead : ∀ i ∈ B.states, V i = 0 → ∀ k x, Bk B k i x = 0)
    (fuel : Nat) (D : WFSA (List (ι × K)) σ K) (h : determinizeN (·⁻¹) (B.push (·⁻¹) V) fuel = some D)
    (x : List σ) : forward D x = Pk B x.length x := by
  have hP : (B.push (·⁻¹) V).EpsFree := minDet_push_epsFree _ _ hB V
  rw [det_preserves _ hP fuel D h x, forward_correct _ hP, push_preserves _ V hdead]

/-- core of the pipeline theorem: `hE` is the correctness of the ε-removal stage for the string `x` -/
theorem determinize_pipeline_core (A : WFSA ι σ K) (S : ι → ι → K) (out : ι → List ι) (V : ι → K)
    (hdead : ∀ i ∈ (A.epsremove S out).states, V i = 0 → ∀ k x, Bk (A.epsremove S out) k i x = 0)
    (fuel : Nat) (D : WFSA (List (ι × K)) σ K)
    (h : determinizePipelineN (·⁻¹) A S out V fuel = some D)
    (x : List σ) (n : Nat) (hlen : x.length ≤ n)
    (hE : Pk (A.epsremove S out) x.length x = PN A n x) :
    Pk D x.length x = PN A n x ∧ forward D x = PN A n x ∧ PN D n x = PN A n x := by
  unfold determinizePipelineN at h
  have hdet := det_deterministic _ _ fuel D h
  have hfw : forward D x = PN A n x := by
    rw [det_push_forward_E4 _ (epsremove_epsfree A S out) V hdead fuel D h x, hE]
  refine ⟨?_, hfw, ?_⟩
  · rw [← forward_correct D hdet.2.1, hfw]
  · rw [← forward_correct_PN D hdet.2.1 x n hlen, hfw]

/-- the result of the pipeline is deterministic (any `inv`) -/
theorem determinize_pipeline_deterministic (inv : K → K) (A : WFSA ι σ K)
    (S : ι → ι → K) (out : ι → List ι) (V : ι → K) (fuel : Nat) (D : WFSA (List (ι × K)) σ K)
    (h : determinizePipelineN inv A S out V fuel = some D) :
    D.start = [(initSubset ((A.epsremove S out).push inv V), 1)] ∧ (∀ e ∈ D.arcs, e.lbl ≠ none) ∧
      ∀ (P : List (ι × K)) (a : σ), (D.arcs.filter fun e => e.src = P ∧ e.lbl = some a).length ≤ 1 :=
  det_deterministic inv _ fuel D h

theorem bound_len_E4 (l N n : Nat) (hn : (l+1)*(N+1) ≤ n + 1) : l ≤ n := by
  have : l + 1 ≤ (l+1)*(N+1) := Nat.le_mul_of_pos_right _ (Nat.succ_pos N)
  omega

/-- **C13, the whole of `determinize` on an ε-ACYCLIC machine over a field**: if `S` is the closure of the ε graph
(the finite sum of its powers `0..N`), `out` its adjacency, `V` a potential whose zeros are dead states of the ε-free
machine (`hdead`: the hypothesis of `push_preserves`), and the subset construction ends normally, then the result `D`
has one initial state (of weight one), no ε arc, at most one arc per state and symbol, and gives every string `x`
— along its `|x|` arcs, and through `WFSA.__call__` — the total weight `PN A n x` of the accepting paths of `A`
spelling `x` (any `n` beyond the longest such path). -/
theorem determinize_pipeline_preserves (A : WFSA ι σ K) (S : ι → ι → K) (out : ι → List ι) (N : Nat)
    (hS : ∀ i ∈ A.states, ∀ k, S i k = ((List.range (N+1)).map fun m => Qk A.epsPart m i [] k).sum)
    (hout : ∀ i ∈ A.states, ∀ k, S i k ≠ 0 → k ∈ out i) (hnd : ∀ i, (out i).Nodup)
    (hacyc : ∀ i k m, N < m → Qk A.epsPart m i [] k = 0)
    (V : ι → K)
    (hdead : ∀ i ∈ (A.epsremove S out).states, V i = 0 → ∀ k x, Bk (A.epsremove S out) k i x = 0)
    (fuel : Nat) (D : WFSA (List (ι × K)) σ K)
    (h : determinizePipelineN (·⁻¹) A S out V fuel = some D) :
    D.start = [(initSubset ((A.epsremove S out).push (·⁻¹) V), 1)] ∧ D.EpsFree ∧
      (∀ (P : List (ι × K)) (a : σ), (D.arcs.filter fun e => e.src = P ∧ e.lbl = some a).length ≤ 1) ∧
      ∀ (x : List σ) (n : Nat), (x.length+1)*(N+1) ≤ n + 1 →
        Pk D x.length x = PN A n x ∧ forward D x = PN A n x ∧ PN D n x = PN A n x := by
  have hdet := determinize_pipeline_deterministic _ A S out V fuel D h
  refine ⟨hdet.1, hdet.2.1, hdet.2.2, ?_⟩
  intro x n hn
  exact determinize_pipeline_core A S out V hdead fuel D h x n (bound_len_E4 _ N n hn)
    (epsremove_correct_PN A S out N hS hout hnd hacyc x n hn)

/-- **the same with every hypothesis on `S`, `out` quantified over the (finitely many) states** (decidable; the shape of
Python's `E.closure()`, a table over pairs of nodes), and the decidable hypothesis of `push_preserves_of_coacc` on `V` -/
theorem determinize_pipeline_preserves_states (A : WFSA ι σ K) (S : ι → ι → K) (out : ι → List ι) (N : Nat)
    (hS : ∀ i ∈ A.states, ∀ k ∈ A.states,
      S i k = ((List.range (N+1)).map fun m => Qk A.epsPart m i [] k).sum)
    (hout : ∀ i ∈ A.states, ∀ k ∈ A.states, S i k ≠ 0 → k ∈ out i)
    (hsub : ∀ i ∈ A.states, ∀ k ∈ out i, k ∈ A.states)
    (hnd : ∀ i ∈ A.states, (out i).Nodup)
    (hacyc : ∀ i k m, N < m → Qk A.epsPart m i [] k = 0)
    (V : ι → K)
    (hco : ∀ i ∈ (A.epsremove S out).states, V i = 0 → i ∉ (A.epsremove S out).coaccessible)
    (fuel : Nat) (D : WFSA (List (ι × K)) σ K)
    (h : determinizePipelineN (·⁻¹) A S out V fuel = some D)
    (x : List σ) (n : Nat) (hn : (x.length+1)*(N+1) ≤ n + 1) :
    Pk D x.length x = PN A n x ∧ forward D x = PN A n x ∧ PN D n x = PN A n x :=
  determinize_pipeline_core A S out V (fun i hi hVi k x => Bk_of_not_coacc _ k i x (hco i hi hVi)) fuel D h x n
    (bound_len_E4 _ N n hn)
    (by rw [epsremove_correct_states A S out N hS hout hsub hnd hacyc x, PN_eq_of_acyclic A N hacyc x n hn])

/-! #### the same for the repaired `push` (`WFSA.pushDrop`) -/

omit [DecidableEq σ] [Field K] in
theorem pushDrop_epsFree [Add K] [Mul K] [Zero K] [One K] (inv : K → K) (A : WFSA ι σ K) (hA : A.EpsFree)
    (V : ι → K) : (A.pushDrop inv V).EpsFree := by
  intro e he
  simp only [WFSA.pushDrop, List.mem_flatMap, List.mem_map, List.mem_filter] at he
  obtain ⟨i, _, e', ⟨⟨he', _⟩, _⟩, rfl⟩ := he
  exact hA e' he'

/-- `determinize` with the repaired `push` -/
def determinizePipelineDropN (inv : K → K) (A : WFSA ι σ K) (S : ι → ι → K) (out : ι → List ι) (V : ι → K)
    (fuel : Nat) : Option (WFSA (List (ι × K)) σ K) :=
  determinizeN inv ((A.epsremove S out).pushDrop inv V) fuel

/-- core of the pipeline theorem for the repaired `push` -/
theorem determinize_pipelineDrop_core (A : WFSA ι σ K) (S : ι → ι → K) (out : ι → List ι) (V : ι → K)
    (hdead : ∀ i ∈ (A.epsremove S out).states, V i = 0 → ∀ k x, Bk (A.epsremove S out) k i x = 0)
    (fuel : Nat) (D : WFSA (List (ι × K)) σ K)
    (h : determinizePipelineDropN (·⁻¹) A S out V fuel = some D)
    (x : List σ) (n : Nat) (hlen : x.length ≤ n)
    (hE : Pk (A.epsremove S out) x.length x = PN A n x) :
    Pk D x.length x = PN A n x ∧ forward D x = PN A n x ∧ PN D n x = PN A n x := by
  unfold determinizePipelineDropN at h
  have hdet := det_deterministic _ _ fuel D h
  have hP : ((A.epsremove S out).pushDrop (·⁻¹) V).EpsFree := pushDrop_epsFree _ _ (epsremove_epsfree A S out) V
  have hfw : forward D x = PN A n x := by
    rw [det_preserves _ hP fuel D h x, forward_correct _ hP, pushDrop_Pk, push_preserves _ V hdead, hE]
  refine ⟨?_, hfw, ?_⟩
  · rw [← forward_correct D hdet.2.1, hfw]
  · rw [← forward_correct_PN D hdet.2.1 x n hlen, hfw]

/-- **C13 for `determinize` with the repaired `push`** (ε-acyclic machine over a field; same hypotheses and conclusion
as `determinize_pipeline_preserves`) -/
theorem determinize_pipelineDrop_preserves (A : WFSA ι σ K) (S : ι → ι → K) (out : ι → List ι) (N : Nat)
    (hS : ∀ i ∈ A.states, ∀ k, S i k = ((List.range (N+1)).map fun m => Qk A.epsPart m i [] k).sum)
    (hout : ∀ i ∈ A.states, ∀ k, S i k ≠ 0 → k ∈ out i) (hnd : ∀ i, (out i).Nodup)
    (hacyc : ∀ i k m, N < m → Qk A.epsPart m i [] k = 0)
    (V : ι → K)
    (hdead : ∀ i ∈ (A.epsremove S out).states, V i = 0 → ∀ k x, Bk (A.epsremove S out) k i x = 0)
    (fuel : Nat) (D : WFSA (List (ι × K)) σ K)
    (h : determinizePipelineDropN (·⁻¹) A S out V fuel = some D) :
    D.start = [(initSubset ((A.epsremove S out).pushDrop (·⁻¹) V), 1)] ∧ D.EpsFree ∧
      (∀ (P : List (ι × K)) (a : σ), (D.arcs.filter fun e => e.src = P ∧ e.lbl = some a).length ≤ 1) ∧
      ∀ (x : List σ) (n : Nat), (x.length+1)*(N+1) ≤ n + 1 →
        Pk D x.length x = PN A n x ∧ forward D x = PN A n x ∧ PN D n x = PN A n x := by
  have hdet := det_deterministic _ _ fuel D h
  refine ⟨hdet.1, hdet.2.1, hdet.2.2, ?_⟩
  intro x n hn
  exact determinize_pipelineDrop_core A S out V hdead fuel D h x n (bound_len_E4 _ N n hn)
    (epsremove_correct_PN A S out N hS hout hnd hacyc x n hn)

/-- … with the decidable hypotheses (over the states; `V` does not vanish on co-accessible states) -/
theorem determinize_pipelineDrop_preserves_states (A : WFSA ι σ K) (S : ι → ι → K) (out : ι → List ι) (N : Nat)
    (hS : ∀ i ∈ A.states, ∀ k ∈ A.states,
      S i k = ((List.range (N+1)).map fun m => Qk A.epsPart m i [] k).sum)
    (hout : ∀ i ∈ A.states, ∀ k ∈ A.states, S i k ≠ 0 → k ∈ out i)
    (hsub : ∀ i ∈ A.states, ∀ k ∈ out i, k ∈ A.states)
    (hnd : ∀ i ∈ A.states, (out i).Nodup)
    (hacyc : ∀ i k m, N < m → Qk A.epsPart m i [] k = 0)
    (V : ι → K)
    (hco : ∀ i ∈ (A.epsremove S out).states, V i = 0 → i ∉ (A.epsremove S out).coaccessible)
    (fuel : Nat) (D : WFSA (List (ι × K)) σ K)
    (h : determinizePipelineDropN (·⁻¹) A S out V fuel = some D)
    (x : List σ) (n : Nat) (hn : (x.length+1)*(N+1) ≤ n + 1) :
    Pk D x.length x = PN A n x ∧ forward D x = PN A n x ∧ PN D n x = PN A n x :=
  determinize_pipelineDrop_core A S out V (fun i hi hVi k x => Bk_of_not_coacc _ k i x (hco i hi hVi)) fuel D h x n
    (bound_len_E4 _ N n hn)
    (by rw [epsremove_correct_states A S out N hS hout hsub hnd hacyc x, PN_eq_of_acyclic A N hacyc x n hn])

/-! #### `min_det = self.reverse.determinize.trim.reverse.determinize.trim`, every `determinize` in full -/

/-- `WFSA.min_det` with both `determinize` calls in full (`epsremove`, `push`, subset construction).  The first ε-removal
is relative to the closure `S1`/`out1` of the ε graph of `A.reverse`; the second one acts on the ε-free machine
`D1.trim.reverse` (closure of the empty graph: `minDet_idS`, `minDet_idOut`) -/
def minDetPipelineN (inv : K → K) (A : WFSA ι σ K) (S1 : ι → ι → K) (out1 : ι → List ι) (V1 : ι → K)
    (V2 : List (ι × K) → K) (f1 f2 : Nat) : Option (WFSA (List (List (ι × K) × K)) σ K) :=
  (determinizePipelineN inv A.reverse S1 out1 V1 f1).bind fun D1 =>
    (determinizePipelineN inv D1.trim.reverse minDet_idS minDet_idOut V2 f2).map fun D2 => D2.trim

/-- **`min_det` on an ε-acyclic machine over a field**: whenever the two subset constructions end normally the result
is deterministic and gives every string the total weight of its accepting paths in `A` -/
theorem minDet_pipeline_preserves (A : WFSA ι σ K) (S1 : ι → ι → K) (out1 : ι → List ι) (N : Nat)
    (hS : ∀ i ∈ A.reverse.states, ∀ k,
      S1 i k = ((List.range (N+1)).map fun m => Qk A.reverse.epsPart m i [] k).sum)
    (hout : ∀ i ∈ A.reverse.states, ∀ k, S1 i k ≠ 0 → k ∈ out1 i) (hnd : ∀ i, (out1 i).Nodup)
    (hacyc : ∀ i k m, N < m → Qk A.reverse.epsPart m i [] k = 0)
    (V1 : ι → K)
    (hdead1 : ∀ i ∈ (A.reverse.epsremove S1 out1).states, V1 i = 0 →
      ∀ k x, Bk (A.reverse.epsremove S1 out1) k i x = 0)
    (V2 : List (ι × K) → K) (f1 f2 : Nat)
    (hdead2 : ∀ D1 ∈ determinizePipelineN (·⁻¹) A.reverse S1 out1 V1 f1,
      ∀ i ∈ D1.trim.reverse.states, V2 i = 0 → ∀ k x, Bk D1.trim.reverse k i x = 0)
    (R : WFSA (List (List (ι × K) × K)) σ K)
    (h : minDetPipelineN (·⁻¹) A S1 out1 V1 V2 f1 f2 = some R) :
    (∃ q0, minDet_Deterministic R q0) ∧
      ∀ (x : List σ) (n : Nat), (x.length+1)*(N+1) ≤ n + 1 → forward R x = PN A n x ∧ PN R n x = PN A n x := by
  unfold minDetPipelineN at h
  obtain ⟨D1, h1, h⟩ := Option.bind_eq_some_iff.mp h
  obtain ⟨D2, h2, h⟩ := Option.map_eq_some_iff.mp h
  subst h
  have hd2 := hdead2 D1 h1
  have hD1 : D1.EpsFree := (determinize_pipeline_deterministic _ _ _ _ _ f1 D1 h1).2.1
  have hD1r : D1.trim.reverse.EpsFree := minDet_reverse_epsFree _ (minDet_trim_epsFree D1 hD1)
  have h2' : determinizeN (·⁻¹) (D1.trim.reverse.push (·⁻¹) V2) f2 = some D2 := by
    unfold determinizePipelineN at h2
    rw [minDet_epsremove_id _ hD1r] at h2
    exact h2
  have hD2 : D2.EpsFree := minDet_det_epsFree _ _ f2 D2 h2'
  have hD2t : D2.trim.EpsFree := minDet_trim_epsFree D2 hD2
  refine ⟨⟨_, minDet_deterministic _ _ f2 D2 h2'⟩, ?_⟩
  intro x n hn
  have hlen : x.length ≤ n := bound_len_E4 _ N n hn
  have hn' : (x.reverse.length+1)*(N+1) ≤ n + 1 := by simpa using hn
  have hfw : forward D2.trim x = PN A n x := by
    have e1 : forward D2.trim x = forward D2 x := by
      rw [forward_correct_PN _ hD2t x x.length (le_refl _), wfsa_trim_PN,
        ← forward_correct_PN _ hD2 x x.length (le_refl _)]
    have e2 : forward D2 x = Pk D1.trim.reverse x.length x :=
      det_push_forward_E4 _ hD1r V2 hd2 f2 D2 h2' x
    have e3 : Pk D1.trim.reverse x.length x = Pk D1 x.reverse.length x.reverse := by
      have := reverse_Pk D1.trim x.length x.reverse
      rw [List.reverse_reverse] at this
      rw [this, wfsa_trim_Pk, List.length_reverse]
    have e4 := (determinize_pipeline_preserves A.reverse S1 out1 N hS hout hnd hacyc V1 hdead1 f1 D1 h1).2.2.2
      x.reverse n hn'
    rw [e1, e2, e3, e4.1, reverse_PN]
  exact ⟨hfw, by rw [← forward_correct_PN _ hD2t x n hlen, hfw]⟩

end Pipeline

section PipelineOrdered
variable {ι σ K : Type} [DecidableEq ι] [DecidableEq σ] [DecidableEq K]
  [Field K] [LinearOrder K] [IsStrictOrderedRing K]

/-- **over non-negative weights (`ℚ`, `ℝ`) every non-negative solution `V` of the backward equations of the ε-free
machine will do** (Python: `V = self.epsremove.backward`) -/
theorem determinize_pipeline_preserves_nonneg (A : WFSA ι σ K) (S : ι → ι → K) (out : ι → List ι) (N : Nat)
    (hS : ∀ i ∈ A.states, ∀ k, S i k = ((List.range (N+1)).map fun m => Qk A.epsPart m i [] k).sum)
    (hout : ∀ i ∈ A.states, ∀ k, S i k ≠ 0 → k ∈ out i) (hnd : ∀ i, (out i).Nodup)
    (hacyc : ∀ i k m, N < m → Qk A.epsPart m i [] k = 0)
    (hw : ∀ e ∈ (A.epsremove S out).arcs, 0 ≤ e.w)
    (hstop : ∀ i ∈ (A.epsremove S out).states, 0 ≤ wlook A.stop i)
    (V : ι → K) (hV0 : ∀ i ∈ (A.epsremove S out).states, 0 ≤ V i)
    (hV : ∀ i ∈ (A.epsremove S out).states, V i = wlook A.stop i
      + (((A.epsremove S out).arcs.filter fun e => e.src = i).map fun e => e.w * V e.dst).sum)
    (fuel : Nat) (D : WFSA (List (ι × K)) σ K)
    (h : determinizePipelineN (·⁻¹) A S out V fuel = some D)
    (x : List σ) (n : Nat) (hn : (x.length+1)*(N+1) ≤ n + 1) :
    forward D x = PN A n x :=
  ((determinize_pipeline_preserves A S out N hS hout hnd hacyc V
    (dead_of_nonneg (A.epsremove S out) V hw hstop hV0 hV) fuel D h).2.2.2 x n hn).2.1

end PipelineOrdered

/-! ### non-vacuity and counterexamples -/
namespace LimPushAux
section Examples

/-- `0 -7/3-> 1`, an ε self-loop of weight `1/2` on the final state `1`: infinitely many accepting paths per string -/
noncomputable def exP : WFSA Nat Nat ℝ≥0∞ := ⟨[(0, 1)], [(1, 1)], [⟨0, some 7, 1, 3⟩, ⟨1, none, 1, 2⁻¹⟩]⟩

/-- a (pre-)fixed point of the backward system of `exP` -/
noncomputable def exPb (i : Nat) : ℝ≥0∞ := if i = 0 then 6 else if i = 1 then 2 else 0

theorem exP_stop : exP.stop = [(1, 1)] := rfl
theorem exP_arcs : exP.arcs = [⟨0, some 7, 1, 3⟩, ⟨1, none, 1, 2⁻¹⟩] := rfl

theorem exP_bwd_le (i : Nat) : bwdL exP i ≤ exPb i := by
  apply bwdL_least
  intro i
  rw [exP_stop, exP_arcs]
  match i with
  | 0 =>
    simp [wlook, lsum, exPb]
    norm_num
  | 1 =>
    simp [wlook, lsum, exPb, ENNReal.inv_mul_cancel]
    norm_num
  | n+2 => simp [wlook, lsum, exPb]

/-- the hypothesis of `push_PL` holds for `exP`: every true backward weight is finite -/
theorem exP_fin (i : Nat) : bwdL exP i ≠ ∞ := by
  refine ne_top_of_le_ne_top ?_ (exP_bwd_le i)
  unfold exPb
  split
  · norm_num
  · split <;> norm_num

/-- the backward weight of the state `1` is the geometric series `Σ (1/2)^k = 2` -/
theorem exP_bwd1 : bwdL exP 1 = 2 := by
  have h := bwdL_eq exP 1
  rw [exP_stop, exP_arcs] at h
  simp [wlook, lsum] at h
  have hfin : 2⁻¹ * bwdL exP 1 ≠ ∞ := ENNReal.mul_ne_top (by norm_num) (exP_fin 1)
  have h2 : 2⁻¹ * bwdL exP 1 + 2⁻¹ * bwdL exP 1 = 1 + 2⁻¹ * bwdL exP 1 := by
    rw [← add_mul, ENNReal.inv_two_add_inv_two, one_mul]; exact h
  have h3 : 2⁻¹ * bwdL exP 1 = 1 := (ENNReal.add_left_inj hfin).mp h2
  calc bwdL exP 1 = (2 * 2⁻¹) * bwdL exP 1 := by
        rw [ENNReal.mul_inv_cancel (by norm_num) (by norm_num), one_mul]
    _ = 2 * (2⁻¹ * bwdL exP 1) := by rw [mul_assoc]
    _ = 2 := by rw [h3, mul_one]

theorem exP_bwd0 : bwdL exP 0 = 6 := by
  have h := bwdL_eq exP 0
  rw [exP_stop, exP_arcs] at h
  simp [wlook, lsum, exP_bwd1] at h
  rw [h]; norm_num

/-- `push_PL` applies to a machine with an ε cycle -/
example (x : List Nat) : PL (exP.push (·⁻¹) (bwdL exP)) x = PL exP x := push_PL exP exP_fin x

/-- … the pushed machine is stochastic at both states … -/
example : wlook (exP.push (·⁻¹) (bwdL exP)).stop 1
    + (((exP.push (·⁻¹) (bwdL exP)).arcs.filter fun e => e.src = 1).map (·.w)).sum = 1 :=
  push_stochastic_L exP 1 (by rw [exP_bwd1]; norm_num) (exP_fin 1)

example : wlook (exP.push (·⁻¹) (bwdL exP)).stop 0
    + (((exP.push (·⁻¹) (bwdL exP)).arcs.filter fun e => e.src = 0).map (·.w)).sum = 1 :=
  push_stochastic_L exP 0 (by rw [exP_bwd0]; norm_num) (exP_fin 0)

/-- … and `trim_vals`, the repaired `push` behave likewise -/
example (x : List Nat) : PL (exP.trimVals (fwdL exP) (bwdL exP)) x = PL exP x := trimVals_PL exP x
example (x : List Nat) : PL (exP.pushDrop (·⁻¹) (bwdL exP)) x = PL exP x :=
  pushDrop_PL exP (fun i _ h => absurd h (exP_fin i)) x

/-- **the finiteness hypothesis is needed**: one state, initial and final, with a loop reading `7` of weight `1`.
Every string `7ⁿ` has weight `1`, the backward weight of the state is `1 + 1 + ⋯ = ∞`, and `push` (initial weight
`1 · ∞`, final weight `∞⁻¹ · 1 = 0`) loses every string. -/
noncomputable def exInf : WFSA Nat Nat ℝ≥0∞ := ⟨[(0, 1)], [(0, 1)], [⟨0, some 7, 0, 1⟩]⟩

theorem exInf_bwd : bwdL exInf 0 = ∞ := by
  have hstop : exInf.stop = [(0, 1)] := rfl
  have harcs : exInf.arcs = [⟨0, some 7, 0, 1⟩] := rfl
  have h := bwdL_eq exInf 0
  rw [hstop, harcs] at h
  simp [wlook, lsum] at h
  by_contra hne
  have h2 : 0 + bwdL exInf 0 = 1 + bwdL exInf 0 := by rw [zero_add]; exact h
  exact zero_ne_one ((ENNReal.add_left_inj hne).mp h2)

theorem exInf_epsFree : exInf.EpsFree := by
  intro e he
  have harcs : exInf.arcs = [⟨0, some 7, 0, 1⟩] := rfl
  rw [harcs] at he
  simp at he
  subst he
  simp

theorem exInf_PL : PL exInf [7] = 1 := by
  have hstart : exInf.start = [(0, 1)] := rfl
  have hstop : exInf.stop = [(0, 1)] := rfl
  have harcs : exInf.arcs = [⟨0, some 7, 0, 1⟩] := rfl
  rw [PL_epsfree exInf exInf_epsFree]
  simp [Pk_eq, Qk, hstart, hstop, harcs, lsum]

theorem exInf_push_PL : PL (exInf.push (·⁻¹) (bwdL exInf)) [7] = 0 := by
  rw [PL_eq_tsum, ENNReal.tsum_eq_zero]
  intro k
  rw [push_Pk_ENN_split exInf (bwdL exInf) (fun i _ h k x => bwdL_dead_Bk exInf i h k x)
    (fun e he h => bwdL_fin_closed exInf e he h)]
  apply sum_map_zero
  intro i hi
  have hi0 : i = 0 := by
    rw [mem_states_iff] at hi
    have hstart : exInf.start = [(0, 1)] := rfl
    have hstop : exInf.stop = [(0, 1)] := rfl
    have harcs : exInf.arcs = [⟨0, some 7, 0, 1⟩] := rfl
    rw [hstart, hstop, harcs] at hi
    simp at hi
    omega
  rw [hi0, if_pos exInf_bwd]

/-- so `push_PL` fails without its hypothesis, although the weight of every string is finite -/
example : PL (exInf.push (·⁻¹) (bwdL exInf)) [7] ≠ PL exInf [7] := by
  rw [exInf_push_PL, exInf_PL]; exact zero_ne_one

/-! #### the pipeline over `ℚ` -/

/-- an ε-acyclic, non-deterministic machine over `ℚ`: `0 -ε-> 1`, two arcs reading `7` from `0`, a loop on `2` -/
def exPipe : WFSA Nat Nat ℚ :=
  ⟨[(0, 1)], [(2, 1/2)],
   [⟨0, none, 1, 1/2⟩, ⟨0, some 7, 1, 1/4⟩, ⟨0, some 7, 2, 1/4⟩, ⟨1, some 8, 2, 1/3⟩, ⟨2, some 8, 2, 1/2⟩]⟩

/-- the closure `I + E` of its ε graph -/
def exPipeS (i k : Nat) : ℚ := if i = k then 1 else if i = 0 ∧ k = 1 then 1/2 else 0
def exPipeOut (i : Nat) : List Nat := if i = 0 then [0, 1] else [i]
def exPipeRank (i : Nat) : Nat := if i = 0 then 1 else 0

/-- the backward weights of `exPipe.epsremove` -/
def exPipeV (i : Nat) : ℚ := if i = 2 then 1 else if i ≤ 1 then 1/3 else 0

theorem exPipe_acyclic : ∀ i k m, 1 < m → Qk exPipe.epsPart m i [] k = 0 :=
  eps_acyclic_of_rank exPipe exPipeRank 1 (by decide +kernel) (by
    intro i
    unfold exPipeRank
    split <;> omega)

example : exPipe.states = [0, 2, 1] := by decide +kernel
example : ¬ exPipe.EpsFree := by decide +kernel

/-- `exPipeV` solves the backward system of the ε-free machine (it is Python's `self.epsremove.backward`) -/
example : ∀ i ∈ (exPipe.epsremove exPipeS exPipeOut).states, exPipeV i
    = wlook (exPipe.epsremove exPipeS exPipeOut).stop i
      + (((exPipe.epsremove exPipeS exPipeOut).arcs.filter fun e => e.src = i).map
          fun e => e.w * exPipeV e.dst).sum := by decide +kernel

/-- the subset construction ends normally (4 subsets) -/
example : (determinizePipelineN (·⁻¹) exPipe exPipeS exPipeOut exPipeV 6).isSome = true := by decide +kernel

/-- all the hypotheses of `determinize_pipeline_preserves_states` hold: the determinised machine gives every string
the total weight of its accepting paths (through the ε arc) in `exPipe` -/
example (D : WFSA (List (Nat × ℚ)) Nat ℚ)
    (h : determinizePipelineN (·⁻¹) exPipe exPipeS exPipeOut exPipeV 6 = some D)
    (x : List Nat) (n : Nat) (hn : (x.length+1)*(1+1) ≤ n + 1) : forward D x = PN exPipe n x :=
  (determinize_pipeline_preserves_states exPipe exPipeS exPipeOut 1 (by decide +kernel) (by decide +kernel)
    (by decide +kernel) (by decide +kernel) exPipe_acyclic exPipeV (by decide +kernel) 6 D h x n hn).2.1

example : (determinizePipelineN (·⁻¹) exPipe exPipeS exPipeOut exPipeV 6).map (fun D => forward D [7, 8])
    = some (5/48) := by decide +kernel
example : PN exPipe 3 [7, 8] = 5/48 := by decide +kernel
-- the string `[8]` is only accepted through the ε arc
example : (determinizePipelineN (·⁻¹) exPipe exPipeS exPipeOut exPipeV 6).map (fun D => forward D [8])
    = some (1/12) := by decide +kernel
example : PN exPipe 3 [8] = 1/12 ∧ forward exPipe [8] = 0 := by decide +kernel

/-! #### a machine that is not trim: the modelled `push` makes the subset construction divide by zero, the repaired one
does not -/

/-- `exPipe` with a dead end: `1 -7/1-> 3`, the state `3` is not co-accessible (backward weight `0`) -/
def exPipeD : WFSA Nat Nat ℚ :=
  ⟨[(0, 1)], [(2, 1/2)],
   [⟨0, none, 1, 1/2⟩, ⟨0, some 7, 1, 1/4⟩, ⟨0, some 7, 2, 1/4⟩, ⟨1, some 8, 2, 1/3⟩, ⟨2, some 8, 2, 1/2⟩,
    ⟨1, some 7, 3, 1⟩]⟩

theorem exPipeD_acyclic : ∀ i k m, 1 < m → Qk exPipeD.epsPart m i [] k = 0 :=
  eps_acyclic_of_rank exPipeD exPipeRank 1 (by decide +kernel) (by
    intro i
    unfold exPipeRank
    split <;> omega)

example : ∀ i ∈ (exPipeD.epsremove exPipeS exPipeOut).states, exPipeV i
    = wlook (exPipeD.epsremove exPipeS exPipeOut).stop i
      + (((exPipeD.epsremove exPipeS exPipeOut).arcs.filter fun e => e.src = i).map
          fun e => e.w * exPipeV e.dst).sum := by decide +kernel

/-- with the arc `1 -7/0-> 3` kept by `WFSA.push`, the chart of the subset `{1, 2}` for the symbol `7` is `{3: 0}`, of
mass `0`: `ZeroDivisionError` (the theorems are vacuous there) -/
example : determinizePipelineN (·⁻¹) exPipeD exPipeS exPipeOut exPipeV 10 = none := by decide +kernel
example : DetAux.isZeroDiv (determinizeRun (·⁻¹)
    ((exPipeD.epsremove exPipeS exPipeOut).push (·⁻¹) exPipeV) 10) = true := by decide +kernel

/-- the repaired `push` drops that arc: the construction ends, and the theorem applies -/
example : (determinizePipelineDropN (·⁻¹) exPipeD exPipeS exPipeOut exPipeV 10).isSome = true := by decide +kernel

example (D : WFSA (List (Nat × ℚ)) Nat ℚ)
    (h : determinizePipelineDropN (·⁻¹) exPipeD exPipeS exPipeOut exPipeV 10 = some D)
    (x : List Nat) (n : Nat) (hn : (x.length+1)*(1+1) ≤ n + 1) : forward D x = PN exPipeD n x :=
  (determinize_pipelineDrop_preserves_states exPipeD exPipeS exPipeOut 1 (by decide +kernel) (by decide +kernel)
    (by decide +kernel) (by decide +kernel) exPipeD_acyclic exPipeV (by decide +kernel) 10 D h x n hn).2.1

/-! #### `min_det` in full on the same machine -/

/-- the closure of the ε graph of `exPipe.reverse` (`1 -ε-> 0`) -/
def exPipeS1 (i k : Nat) : ℚ := if i = k then 1 else if i = 1 ∧ k = 0 then 1/2 else 0
def exPipeOut1 (i : Nat) : List Nat := if i = 1 then [1, 0] else [i]
def exPipeRank1 (i : Nat) : Nat := if i = 1 then 1 else 0
/-- the backward weights of `exPipe.reverse.epsremove` -/
def exPipeV1 (i : Nat) : ℚ := if i = 1 then 1/4 else if i = 0 ∨ i = 2 then 1 else 0

theorem exPipe_rev_acyclic : ∀ i k m, 1 < m → Qk exPipe.reverse.epsPart m i [] k = 0 :=
  eps_acyclic_of_rank exPipe.reverse exPipeRank1 1 (by decide +kernel) (by
    intro i
    unfold exPipeRank1
    split <;> omega)

example : ∀ i ∈ (exPipe.reverse.epsremove exPipeS1 exPipeOut1).states, exPipeV1 i
    = wlook (exPipe.reverse.epsremove exPipeS1 exPipeOut1).stop i
      + (((exPipe.reverse.epsremove exPipeS1 exPipeOut1).arcs.filter fun e => e.src = i).map
          fun e => e.w * exPipeV1 e.dst).sum := by decide +kernel

/-- both subset constructions end normally (the second potential is the constant `1`: it never vanishes, so its
hypothesis holds trivially; any potential whose zeros are dead states will do) -/
example : (minDetPipelineN (·⁻¹) exPipe exPipeS1 exPipeOut1 exPipeV1 (fun _ => 1) 8 8).isSome = true := by
  decide +kernel

theorem exPipe_hS1 : ∀ i ∈ exPipe.reverse.states, ∀ k,
    exPipeS1 i k = ((List.range (1+1)).map fun m => Qk exPipe.reverse.epsPart m i [] k).sum := by
  intro i hi k
  by_cases hk : k ∈ exPipe.reverse.states
  · revert k
    revert i
    decide +kernel
  · have h0 : ((List.range (1+1)).map fun m => Qk exPipe.reverse.epsPart m i [] k).sum = 0 := by
      apply sum_map_zero
      intro m _
      exact Wfsa2Eps.Qk_support exPipe.reverse.epsPart (· ∈ exPipe.reverse.states)
        (fun e he => mem_states_dst exPipe.reverse e (List.mem_filter.mp he).1) m i [] k hi hk
    rw [h0]
    have hst : exPipe.reverse.states = [2, 0, 1] := by decide +kernel
    rw [hst] at hi hk
    simp only [List.mem_cons, List.not_mem_nil, or_false, not_or] at hi hk
    unfold exPipeS1
    rw [if_neg (by omega), if_neg (by omega)]

example (R : WFSA (List (List (Nat × ℚ) × ℚ)) Nat ℚ)
    (h : minDetPipelineN (·⁻¹) exPipe exPipeS1 exPipeOut1 exPipeV1 (fun _ => 1) 8 8 = some R)
    (x : List Nat) (n : Nat) (hn : (x.length+1)*(1+1) ≤ n + 1) : forward R x = PN exPipe n x :=
  ((minDet_pipeline_preserves exPipe exPipeS1 exPipeOut1 1 exPipe_hS1
    (by
      intro i hi k hne
      by_cases hk : k ∈ exPipe.reverse.states
      · revert hne; revert k; revert i; decide +kernel
      · exfalso
        have hst : exPipe.reverse.states = [2, 0, 1] := by decide +kernel
        rw [hst] at hi hk
        simp only [List.mem_cons, List.not_mem_nil, or_false, not_or] at hi hk
        apply hne
        unfold exPipeS1
        rw [if_neg (by omega), if_neg (by omega)])
    (by intro i; unfold exPipeOut1; split <;> simp)
    exPipe_rev_acyclic exPipeV1
    (fun i hi hVi k x => Bk_of_not_coacc _ k i x ((by decide +kernel :
      ∀ i ∈ (exPipe.reverse.epsremove exPipeS1 exPipeOut1).states, exPipeV1 i = 0 →
        i ∉ (exPipe.reverse.epsremove exPipeS1 exPipeOut1).coaccessible) i hi hVi))
    (fun _ => 1) 8 8 (fun _ _ _ _ h1 => absurd h1 one_ne_zero) R h).2 x n hn).1

example : (minDetPipelineN (·⁻¹) exPipe exPipeS1 exPipeOut1 exPipeV1 (fun _ => 1) 8 8).map
    (fun R => (forward R [7, 8], forward R [8])) = some (5/48, 1/12) := by decide +kernel

end Examples
end LimPushAux

end Genlm
