import GenlmModel.Model.Memo
import Mathlib.Data.List.Basic

namespace Genlm
section Memo
variable {Tok Col : Type} [DecidableEq Tok]

def Memo.Coherent (init : Col) (ext : List Col → Tok → Col) (m : Memo Tok Col) : Prop :=
  ∀ p c, (p, c) ∈ m → c = pureChart init ext p

theorem chartM_transparent (init : Col) (ext : List Col → Tok → Col) (p : List Tok) (m : Memo Tok Col)
    (hm : m.Coherent init ext) :
    (chartM init ext p m).1 = pureChart init ext p ∧ (chartM init ext p m).2.Coherent init ext := by
  fun_induction chartM init ext p m with
  | case1 p m c hget =>
    refine ⟨?_, hm⟩
    simp only [Memo.get?, Option.map_eq_some_iff] at hget
    obtain ⟨⟨p', c'⟩, hfind, rfl⟩ := hget
    have hmem := List.mem_of_find?_eq_some hfind
    have hp : p' = p := by simpa using List.find?_some hfind
    subst hp
    exact hm _ _ hmem
  | case2 p m hget hrev =>
    have hp : p = [] := by simpa using hrev
    subst hp
    refine ⟨by simp [pureChart], ?_⟩
    intro q c hqc
    simp only [List.mem_cons, Prod.mk.injEq] at hqc
    rcases hqc with ⟨rfl, rfl⟩ | h
    · simp [pureChart]
    · exact hm _ _ h
  | case3 p m hget t r hrev c m' hrec c' ih =>
    have ih' := ih hm
    rw [hrec] at ih'
    obtain ⟨hc, hm'⟩ := ih'
    simp only at hc
    have hp : p = r.reverse ++ [t] := by
      have := congrArg List.reverse hrev; simpa using this
    have hpc : c' = pureChart init ext p := by
      subst hp; simp only [c', pureChart, List.foldl_append, List.foldl_cons, List.foldl_nil]
      rw [show List.foldl (fun c t => c ++ [ext c t]) [init] r.reverse = c from hc.symm]
    refine ⟨hpc, ?_⟩
    intro q d hqd
    simp only [List.mem_cons, Prod.mk.injEq] at hqd
    rcases hqd with ⟨rfl, rfl⟩ | h
    · exact hpc
    · exact hm' _ _ h
end Memo
end Genlm
