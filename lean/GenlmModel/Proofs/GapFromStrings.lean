import GenlmModel.Model.Gaps
import GenlmModel.Proofs.Star
import GenlmModel.Proofs.LimWfsa
import Mathlib.Data.List.Basic

/-! # `WFSA.from_strings`, `WFSA.one` (property C12, gap C of task E7)

Python (`wfsa/base.py`): `from_strings(Xs, R)` builds the prefix tree of the strings `Xs` with the ASSIGNING
`set_I` / `set_arc` / `set_F`, every weight being `R.one`.  So — unlike a sum of `from_string` machines — a string
given twice, or reached twice, does not accumulate weight: the machine is the (unweighted) indicator of the SET of the
given strings.  Model: `WFSA.fromStrings` (`Model/Gaps.lean`).  `WFSA.one`, `WFSA.star = one + kleene_plus` are
modelled and specified in `Proofs/Star.lean` (`one_Pk`, `star_Pk`, `star_PN`) and `Proofs/LimWfsa.lean` (`star_PL`,
`star_PL_unfold`, `star_PL_series`); this file adds `one_PN`, `one_PL`.

Any commutative semiring, any list of strings (repetitions, the empty list, the empty string, strings that are
prefixes of each other):
* `mem_fromStringsTargets` — the arcs are indexed by the non-empty prefixes of the given strings;
* `fromStrings_Qk` — from the state `p` the string `y` labels exactly one path (to `p ++ y`, weight `1`) if
  `p ++ y` is a prefix of a given string, none otherwise;
* `fromStrings_Pk` — **`Pk (fromStrings xs) k y = if |y| = k ∧ y ∈ xs then 1 else 0`** (weight `1`, NOT the number of
  occurrences of `y` in `xs`); `fromStrings_PN`, `fromStrings_epsFree`, `fromStrings_forward` (`WFSA.__call__`);
* `fromStrings_PL` — at the limit over `ℝ≥0∞`;
* `one_PN`, `one_PL` — `one` weighs `[]` with `1` (along its single ε arc) and everything else with `0`.
Helper lemmas carry the tag `E7C`. -/
namespace Genlm
set_option linter.unusedSectionVars false
open WfsaAux

/-- `eraseDups` has no repetitions, for any lawful `BEq` (the instance on `List σ` is not the one derived from
`DecidableEq`, so `WfsaAux.nodup_eraseDups` does not apply) -/
theorem nodup_eraseDups_E7C {α : Type} [BEq α] [LawfulBEq α] (l : List α) : l.eraseDups.Nodup := by
  generalize hn : l.length = n
  induction n using Nat.strong_induction_on generalizing l with
  | _ n ih =>
    cases l with
    | nil => simp
    | cons a l =>
      rw [List.eraseDups_cons, List.nodup_cons]
      refine ⟨by simp [List.mem_eraseDups], ih _ ?_ _ rfl⟩
      subst hn
      exact Nat.lt_succ_of_le (List.length_filter_le _ _)

section Targets
variable {σ : Type} [DecidableEq σ]

/-- the targets of the `set_arc` calls are the non-empty prefixes of the given strings -/
theorem mem_fromStringsTargets (xs : List (List σ)) (p : List σ) :
    p ∈ fromStringsTargets xs ↔ p ≠ [] ∧ ∃ x ∈ xs, p <+: x := by
  simp only [fromStringsTargets, List.mem_flatMap, List.mem_map, List.mem_range]
  constructor
  · rintro ⟨x, hx, i, hi, rfl⟩
    refine ⟨?_, x, hx, List.take_prefix _ _⟩
    intro h
    have := congrArg List.length h
    simp only [List.length_take, List.length_nil] at this
    omega
  · rintro ⟨hp, x, hx, hpx⟩
    have hlen : p.length ≤ x.length := hpx.length_le
    have hpos : 0 < p.length := List.length_pos_iff.mpr hp
    refine ⟨x, hx, p.length - 1, by omega, ?_⟩
    rw [show p.length - 1 + 1 = p.length by omega]
    exact (List.prefix_iff_eq_take.mp hpx).symm

end Targets

section Spec
variable {σ K : Type} [DecidableEq σ] [CommSemiring K]

theorem fromStrings_arcs_E7C (xs : List (List σ)) :
    (WFSA.fromStrings xs : WFSA (List σ) σ K).arcs
      = (fromStringsTargets xs).eraseDups.map fun p => ⟨p.dropLast, p.getLast?, p, 1⟩ := rfl

/-- the prefix tree has no ε arc -/
theorem fromStrings_epsFree (xs : List (List σ)) : (WFSA.fromStrings xs : WFSA (List σ) σ K).EpsFree := by
  intro e he
  rw [fromStrings_arcs_E7C, List.mem_map] at he
  obtain ⟨p, hp, rfl⟩ := he
  have hne := ((mem_fromStringsTargets xs p).mp (List.mem_eraseDups.mp hp)).1
  rcases List.eq_nil_or_concat' p with h | ⟨d, a, rfl⟩
  · exact absurd h hne
  · simp

/-- one unfolding of `Qk` in the prefix tree, from the state `p` -/
theorem fromStrings_Qk_succ_E7C (xs : List (List σ)) (k : Nat) (p y j : List σ) :
    Qk (WFSA.fromStrings xs : WFSA (List σ) σ K) (k+1) p y j
      = match y with
        | [] => 0
        | b :: y' => if ∃ x ∈ xs, p ++ [b] <+: x then
            Qk (WFSA.fromStrings xs : WFSA (List σ) σ K) k (p ++ [b]) y' j else 0 := by
  rw [Qk_succ, sum_filter_ite, fromStrings_arcs_E7C]
  simp only [List.map_map, Function.comp_def, decide_eq_true_eq, one_mul]
  cases y with
  | nil =>
    apply sum_map_zero
    intro q hq
    have hne := ((mem_fromStringsTargets xs q).mp (List.mem_eraseDups.mp hq)).1
    rcases List.eq_nil_or_concat' q with h | ⟨d, a, rfl⟩
    · exact absurd h hne
    · simp [lpeel]
  | cons b y' =>
    have h1 : ∀ q ∈ (fromStringsTargets xs).eraseDups,
        (if q.dropLast = p then ((lpeel q.getLast? (b :: y')).map fun x' =>
            Qk (WFSA.fromStrings xs : WFSA (List σ) σ K) k q x' j).sum else 0)
          = if p ++ [b] = q then Qk (WFSA.fromStrings xs : WFSA (List σ) σ K) k q y' j else 0 := by
      intro q hq
      have hne := ((mem_fromStringsTargets xs q).mp (List.mem_eraseDups.mp hq)).1
      rcases List.eq_nil_or_concat' q with h | ⟨d, a, rfl⟩
      · exact absurd h hne
      · simp only [List.dropLast_concat, List.getLast?_concat, lpeel]
        by_cases hd : d = p
        · subst hd
          by_cases hab : a = b
          · subst hab; simp
          · have hab' : ¬ b = a := fun h => hab h.symm
            simp [hab, hab']
        · have hd' : ¬ (p ++ [b] = d ++ [a]) := by
            intro h
            exact hd (List.append_inj' h rfl).1.symm
          simp [hd, hd']
    rw [List.map_congr_left h1, sum_ite_eq_nodup _ (nodup_eraseDups_E7C _)]
    have hmem : p ++ [b] ∈ (fromStringsTargets xs).eraseDups ↔ ∃ x ∈ xs, p ++ [b] <+: x := by
      rw [List.mem_eraseDups, mem_fromStringsTargets]
      simp
    by_cases h : ∃ x ∈ xs, p ++ [b] <+: x
    · rw [if_pos (hmem.mpr h)]; simp only [h, if_true]
    · rw [if_neg (fun h' => h (hmem.mp h'))]; simp only [h, if_false]

/-- **paths of the prefix tree**: from the state (prefix) `p`, the string `y` labels exactly one path — `|y|` arcs, to
the state `p ++ y`, weight `1` — if `p ++ y` is a prefix of one of the given strings (or `y` is empty); no path
otherwise -/
theorem fromStrings_Qk (xs : List (List σ)) (k : Nat) (p y j : List σ) :
    Qk (WFSA.fromStrings xs : WFSA (List σ) σ K) k p y j
      = if y.length = k ∧ j = p ++ y ∧ (k = 0 ∨ ∃ x ∈ xs, p ++ y <+: x) then 1 else 0 := by
  induction k generalizing p y with
  | zero =>
    rw [Qk_zero]
    by_cases hy : y = []
    · subst hy
      by_cases hj : p = j
      · subst hj; simp
      · have hj' : ¬ j = p := fun h => hj h.symm
        simp [hj, hj']
    · have : ¬ y.length = 0 := fun h => hy (List.length_eq_zero_iff.mp h)
      simp [hy, this]
  | succ k ih =>
    rw [fromStrings_Qk_succ_E7C]
    cases y with
    | nil => simp
    | cons b y' =>
      change (if ∃ x ∈ xs, p ++ [b] <+: x then
        Qk (WFSA.fromStrings xs : WFSA (List σ) σ K) k (p ++ [b]) y' j else 0) = _
      have hcat : p ++ [b] ++ y' = p ++ b :: y' := by simp
      by_cases h : ∃ x ∈ xs, p ++ [b] <+: x
      · rw [if_pos h, ih, hcat]
        by_cases hc : y'.length = k ∧ j = p ++ b :: y'
        · by_cases hx : ∃ x ∈ xs, p ++ b :: y' <+: x
          · rw [if_pos ⟨hc.1, hc.2, Or.inr hx⟩,
              if_pos ⟨by simp [hc.1], hc.2, Or.inr hx⟩]
          · have hk : k ≠ 0 := by
              intro hk
              have : y' = [] := List.length_eq_zero_iff.mp (hc.1.trans hk)
              subst this
              exact hx h
            rw [if_neg, if_neg]
            · rintro ⟨_, _, h' | h'⟩
              · omega
              · exact hx h'
            · rintro ⟨_, _, h' | h'⟩
              · exact hk h'
              · exact hx h'
        · rw [if_neg (fun h' => hc ⟨h'.1, h'.2.1⟩), if_neg]
          rintro ⟨h1, h2, _⟩
          exact hc ⟨by simpa using h1, h2⟩
      · rw [if_neg h, if_neg]
        rintro ⟨_, _, h' | ⟨x, hx, hp⟩⟩
        · omega
        · apply h
          refine ⟨x, hx, List.IsPrefix.trans ?_ hp⟩
          rw [← hcat]
          exact List.prefix_append _ _

/-- **`from_strings`**: the machine weighs `y` with `1` if `y` is one of the given strings and with `0` otherwise —
whatever the number of times `y` was given (the code assigns, it does not accumulate) -/
theorem fromStrings_Pk (xs : List (List σ)) (k : Nat) (y : List σ) :
    Pk (WFSA.fromStrings xs : WFSA (List σ) σ K) k y = if y.length = k ∧ y ∈ xs then 1 else 0 := by
  rw [Pk_eq]
  have hstart : (WFSA.fromStrings xs : WFSA (List σ) σ K).start
      = if xs.isEmpty then [] else [([], 1)] := rfl
  have hstop : (WFSA.fromStrings xs : WFSA (List σ) σ K).stop = xs.eraseDups.map fun x => (x, 1) := rfl
  rw [hstart, hstop]
  cases xs with
  | nil => simp
  | cons x0 xs' =>
    simp only [List.isEmpty_cons, Bool.false_eq_true, if_false, List.map_cons, List.map_nil, List.sum_cons,
      List.sum_nil, add_zero, one_mul, mul_one, List.map_map, Function.comp_def, fromStrings_Qk,
      List.nil_append]
    have h1 : ∀ f ∈ (x0 :: xs').eraseDups,
        (if y.length = k ∧ f = y ∧ (k = 0 ∨ ∃ x ∈ x0 :: xs', y <+: x) then (1 : K) else 0)
          = if y = f then (if y.length = k then (1 : K) else 0) else 0 := by
      intro f hf
      by_cases hyf : y = f
      · subst hyf
        have : ∃ x ∈ x0 :: xs', y <+: x := ⟨y, List.mem_eraseDups.mp hf, List.prefix_refl y⟩
        by_cases hk : y.length = k
        · rw [if_pos ⟨hk, rfl, Or.inr this⟩, if_pos rfl, if_pos hk]
        · rw [if_neg (fun h => hk h.1), if_pos rfl, if_neg hk]
      · rw [if_neg (fun h => hyf h.2.1.symm), if_neg hyf]
    rw [List.map_congr_left h1, sum_ite_eq_nodup _ (nodup_eraseDups_E7C _)]
    simp only [List.mem_eraseDups]
    by_cases hm : y ∈ x0 :: xs'
    · by_cases hk : y.length = k
      · rw [if_pos hm, if_pos hk, if_pos ⟨hk, hm⟩]
      · rw [if_pos hm, if_neg hk, if_neg (fun h => hk h.1)]
    · rw [if_neg hm, if_neg (fun h => hm h.2)]

theorem fromStrings_PN (xs : List (List σ)) (n : Nat) (y : List σ) :
    PN (WFSA.fromStrings xs : WFSA (List σ) σ K) n y = if y.length ≤ n ∧ y ∈ xs then 1 else 0 := by
  by_cases hn : y.length ≤ n
  · rw [PN_eq_single _ n y.length y hn (fun k hk => by
      rw [fromStrings_Pk, if_neg]; exact fun h => hk h.1.symm), fromStrings_Pk]
    simp [hn]
  · rw [PN_eq, if_neg (fun h => hn h.1)]
    apply sum_map_zero
    intro k hk
    rw [fromStrings_Pk, if_neg]
    intro h
    have := List.mem_range.mp hk
    omega

/-- `WFSA.__call__` on the prefix tree: the indicator of the set of the given strings -/
theorem fromStrings_forward (xs : List (List σ)) (y : List σ) :
    forward (WFSA.fromStrings xs : WFSA (List σ) σ K) y = if y ∈ xs then 1 else 0 := by
  rw [forward_correct _ (fromStrings_epsFree xs), fromStrings_Pk]
  simp

/-- `one` weighs the empty string with `1` (as soon as paths of one arc are counted) and everything else with `0` -/
theorem one_PN (n : Nat) (x : List σ) :
    PN (WFSA.one : WFSA Nat σ K) n x = if 1 ≤ n ∧ x = [] then 1 else 0 := by
  unfold WFSA.one
  rw [lift_spec_PN]
  rfl

end Spec

/-! ### at the limit -/
section Limit
open scoped ENNReal
variable {σ : Type} [DecidableEq σ]

/-- **`from_strings` at the limit**: the weighted language is the indicator of the set of the given strings -/
theorem fromStrings_PL (xs : List (List σ)) (y : List σ) :
    PL (WFSA.fromStrings xs : WFSA (List σ) σ ℝ≥0∞) y = if y ∈ xs then 1 else 0 := by
  rw [PL_epsfree _ (fromStrings_epsFree xs), fromStrings_Pk]
  simp

/-- **`one` at the limit**: `[] ↦ 1`, everything else `↦ 0` -/
theorem one_PL (x : List σ) : PL (WFSA.one : WFSA Nat σ ℝ≥0∞) x = if x = [] then 1 else 0 := by
  apply le_antisymm
  · refine iSup_le fun n => ?_
    rw [one_PN]
    by_cases hx : x = []
    · rw [if_pos hx]; split <;> simp
    · rw [if_neg (fun h => hx h.2), if_neg hx]
  · refine le_trans ?_ (PN_le_PL _ 1 x)
    rw [one_PN]
    simp

end Limit

/-! ### non-vacuity -/
section Examples

/-- the string `7 8` is given twice, `7` is a proper prefix of it, the empty string is given too -/
def exStrs : List (List Nat) := [[7, 8], [7], [7, 8], [], [9]]

-- four states besides the root … three arcs, four final states, one initial state
example : (WFSA.fromStrings exStrs : WFSA (List Nat) Nat Nat).start = [([], 1)]
    ∧ (WFSA.fromStrings exStrs : WFSA (List Nat) Nat Nat).stop = [([7, 8], 1), ([7], 1), ([], 1), ([9], 1)]
    ∧ (WFSA.fromStrings exStrs : WFSA (List Nat) Nat Nat).arcs
      = [⟨[], some 7, [7], 1⟩, ⟨[7], some 8, [7, 8], 1⟩, ⟨[], some 9, [9], 1⟩] := by decide

-- `7 8` weighs `1`, not `2`
example : Pk (WFSA.fromStrings exStrs : WFSA (List Nat) Nat Nat) 2 [7, 8] = 1
    ∧ Pk (WFSA.fromStrings exStrs : WFSA (List Nat) Nat Nat) 0 [] = 1
    ∧ Pk (WFSA.fromStrings exStrs : WFSA (List Nat) Nat Nat) 1 [8] = 0 := by decide
example : forward (WFSA.fromStrings exStrs : WFSA (List Nat) Nat Nat) [7, 8] = 1 := by
  rw [fromStrings_forward]; decide
-- the sum of the `from_string` machines counts the occurrences instead
example : Pk ((WFSA.fromString [7, 8] 1 : WFSA (List Nat) Nat Nat).union (WFSA.fromString [7, 8] 1)) 2 [7, 8] = 2 := by
  decide
-- no string: the zero machine
example : (WFSA.fromStrings ([] : List (List Nat)) : WFSA (List Nat) Nat Nat).start = [] := by decide
example : Pk (WFSA.one : WFSA Nat Nat Nat) 1 [] = 1 ∧ PN (WFSA.one : WFSA Nat Nat Nat) 0 [] = 0 := by decide

end Examples

end Genlm
