import GenlmModel.Proofs.GenLink.Same
import GenlmModel.Proofs.LimPush
/-! # `wfsa/base.py`: `WFSA.push` = `WFSA.pushDrop` (the repaired loop, `Proofs/LimPush.lean`), `WFSA._trim` = `WFSA.trimTo`

`V = self.backward` (the solution of a linear system) is the explicit argument `V`; `V[i] ** (-1)` is `inv (V i)`;
`self.start[i]` / `self.stop[i]` are the accumulated weights (`wlook`); `if V[i] == zero: continue` skips the states, and
`if V[j] == zero: continue` the arcs, of potential zero.  `_trim(active)`: `active` is a set (visited without repetition). -/
namespace Genlm
set_option linter.unusedSectionVars false
open Gen GenLinkAux
section
variable {ι σ K : Type} [DecidableEq ι] [DecidableEq σ] [DecidableEq K] [Add K] [Mul K] [Zero K] [One K]

theorem gen_WFSA_push_eq_model (inv : K → K) (A : WFSA ι σ K) (V : ι → K) :
    Build.WFSA_push inv A V = A.pushDrop inv V := by
  simp only [Build.WFSA_push, WFSA.pushDrop, WFSA.live, flatMap_skip, flatMap_skip', ne_eq]

theorem GenLinkAux.trim_arcs (arcs : List (Arc ι σ K)) (i : ι) (active : List ι) :
    ((arcs.filter fun e => e.src = i).flatMap fun e => if e.dst ∈ active then [(⟨i, e.lbl, e.dst, e.w⟩ : Arc ι σ K)] else [])
      = arcs.filter fun e => e.src = i ∧ e.dst ∈ active := by
  induction arcs with
  | nil => rfl
  | cons a l ih =>
    by_cases h1 : a.src = i
    · by_cases h2 : a.dst ∈ active
      · simp only [List.filter_cons, h1, h2, decide_true, if_true, List.flatMap_cons, ih, and_self, List.singleton_append]
        subst h1; rfl
      · simp [List.filter_cons, h1, h2, ih]
    · simp [List.filter_cons, h1, ih]

theorem gen_WFSA_trim_eq_model (A : WFSA ι σ K) (active : List ι) : Build.WFSA_trim A active = A.trimTo active := by
  simp only [Build.WFSA_trim, WFSA.trimTo, flatMap_single, GenLinkAux.trim_arcs]

end
section
variable {ι σ K : Type} [DecidableEq ι] [DecidableEq σ] [DecidableEq K] [CommSemiring K]

/-- hence the regenerated `push` has the path sums of the model `WFSA.push` every theorem of C13 is about -/
theorem gen_WFSA_push_Pk (inv : K → K) (A : WFSA ι σ K) (V : ι → K) (k : Nat) (x : List σ) :
    Pk (Build.WFSA_push inv A V) k x = Pk (A.push inv V) k x := by
  rw [gen_WFSA_push_eq_model]; exact pushDrop_Pk inv A V k x

end
end Genlm
