import GenlmModel.Generated.Folds
import GenlmModel.Model.Lm
import GenlmModel.Proofs.ChainRule
/-! # `chart.py`: `Chart.sum`, `Chart.normalize`; `lm.py`: `LM.__call__` = `chartSum`, `normalize`, `lmCall` (`Model/Lm.lean`)

`LM.__call__` leaves its loop with `break` as soon as the running product is zero: the regenerated definition folds over
(product, stopped) and ignores the rounds after the break; the hand model tests `P = 0` BEFORE every round instead.  The two
agree as soon as `1 ≠ 0` (the loop starts from `P = 1`, which must not look like a product that has already hit zero). -/
namespace Genlm
open Gen
section
variable {τ K : Type} [Add K] [Mul K] [Div K] [Zero K] [One K] [DecidableEq K]

theorem gen_Chart_sum_eq_model (q : List (τ × K)) : Fold.Chart_sum q = chartSum q := rfl

theorem gen_Chart_normalize_eq_model (q : List (τ × K)) : Fold.Chart_normalize q = normalize q := rfl

theorem GenLinkAux.lmFold_eq (pnext : List τ → τ → K) (c : List τ) (l : List (τ × Nat)) (P : K) (stop : Bool)
    (h : stop = true ↔ P = 0) :
    (l.foldl (fun (st : K × Bool) e => if st.2 then st else
        let P := st.1; let p := pnext (c.take e.2); let P := P * (p e.1); (P, decide (P = 0))) (P, stop)).1
      = l.foldl (fun P yi => if P = 0 then P else P * pnext (c.take yi.2) yi.1) P := by
  induction l generalizing P stop with
  | nil => rfl
  | cons e l ih =>
    simp only [List.foldl_cons]
    by_cases hs : stop = true
    · have hP : P = 0 := h.mp hs
      simp only [hs, if_true, hP]
      exact ih 0 true (by simp)
    · have hP : P ≠ 0 := fun hP => hs (h.mpr hP)
      simp only [hs, hP, if_false, Bool.false_eq_true]
      exact ih _ _ (by simp)

theorem gen_LM_call_eq_model (h10 : (1 : K) ≠ 0) (pnext : List τ → τ → K) (c : List τ) :
    Fold.LM_call pnext c = lmCall pnext c := by
  simp only [Fold.LM_call, lmCall]
  exact GenLinkAux.lmFold_eq pnext c c.zipIdx 1 false (by simp [h10])

end
section
variable {τ K : Type} [Field K] [DecidableEq K]

/-- hence the chain rule for the REGENERATED `LM.__call__`: on `x·eos`, for next-token weights that are the conditionals of
`P`, it returns `P (x·eos) / P ε` -/
theorem gen_LM_call_chain_rule (P : List τ → K) (eos : τ) (x : List τ) (h0 : ∀ i, i ≤ x.length → P (x.take i) ≠ 0) :
    Fold.LM_call (cond P) (x ++ [eos]) = P (x ++ [eos]) / P [] := by
  rw [gen_LM_call_eq_model one_ne_zero]; exact lmCall_chain_rule P eos x h0

end
end Genlm
