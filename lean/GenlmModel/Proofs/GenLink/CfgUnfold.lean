import GenlmModel.Proofs.GenLink.Same
import GenlmModel.Model.Transform
/-! # `cfg.py`: `CFG.unfold` = `unfoldRule` (`Model/Transform.lean`)

`s = self.rules[i]` and `s.body[k]` may fail in Python (IndexError) and the `assert`s may fire: the rule `s` and the symbol
`s.body[k]` are explicit arguments of the generated definition, and `G.rules[i]? = some s`, `s.body[k]? = some y`, `y ∉ G.V`
are the hypotheses under which the model returns `some`.  `self.rhs[y]` is the list of the rules with head `y`, in order
(primitive `rhs`, pinned); `enumerate(self)` is `rules.zipIdx`.  `spawn()` is inlined. -/
namespace Genlm
set_option linter.unusedSectionVars false
open Gen GenLinkAux
section
variable {σ K : Type} [DecidableEq σ] [DecidableEq K] [Add K] [Mul K] [Zero K] [One K]

theorem gen_CFG_unfold_eq_model (G : CFG σ K) (i k : Nat) (s : Rule σ K) (y : σ)
    (hs : G.rules[i]? = some s) (hy : s.body[k]? = some y) (hV : y ∉ G.V) :
    unfoldRule G i k = some (dropZero (Build.CFG_unfold G i k s y)) := by
  simp only [unfoldRule, hs, hy, hV, if_false, Build.CFG_unfold, dropZero, mkRules, flatMap_single, flatMap_keep,
    List.append_assoc]

/-- outside these hypotheses the Python function raises and the model returns `none` -/
theorem gen_CFG_unfold_none (G : CFG σ K) (i k : Nat) :
    unfoldRule G i k = none ↔ ¬ ∃ s y, G.rules[i]? = some s ∧ s.body[k]? = some y ∧ y ∉ G.V := by
  unfold unfoldRule
  cases hs : G.rules[i]? with
  | none => simp
  | some s =>
    cases hy : s.body[k]? with
    | none => simp [hy]
    | some y => by_cases hV : y ∈ G.V <;> simp [hy, hV]

end
end Genlm
