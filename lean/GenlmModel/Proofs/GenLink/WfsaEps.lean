import GenlmModel.Proofs.GenLink.Same
import GenlmModel.Model.WfsaOps2
/-! # `wfsa/base.py`: `WFSA.epsremove` = the model `WFSA.epsremove` (`Model/WfsaOps2.lean`)

`E = self.E; S = E.closure()` — the ε closure the code obtains from the path solver — is the pair of explicit arguments
`S : ι → ι → K` (`S[i, k]`) and `S_outgoing : ι → List ι` (`S.outgoing[i]`), exactly the parameters of the hand model;
`spawn(keep_stop=True)` is inlined; `if a == EPSILON: continue` drops the ε arcs. -/
namespace Genlm
set_option linter.unusedSectionVars false
open Gen GenLinkAux
section
variable {ι σ K : Type} [DecidableEq ι] [DecidableEq σ] [Add K] [Mul K] [Zero K] [One K]

theorem gen_WFSA_epsremove_eq_model (A : WFSA ι σ K) (S : ι → ι → K) (out : ι → List ι) :
    Build.WFSA_epsremove A S out = A.epsremove S out := by
  simp only [Build.WFSA_epsremove, WFSA.epsremove, flatMap_single, flatMap_skip', Prod.mk.eta, List.map_id']
  congr 2
  apply List.filter_congr
  intro e _
  cases e.lbl <;> simp

end
end Genlm
