import GenlmModel.Proofs.GenLink.Same
/-! # `cfg.py`: `CFG.map_values`

`new = self.spawn(R=R)` (inlined: same start symbol and vocabulary), then every rule re-weighted by `f`.  The generated
definition keeps the rules whose new weight is zero; `CFG.add` skips them (`dropZero`) — so `map_values` can DELETE rules,
and nothing about the trimmedness of `self` carries over to the result. -/
namespace Genlm
set_option linter.unusedSectionVars false
open Gen GenLinkAux
section
variable {σ K K' : Type} [DecidableEq σ] [Add K] [Mul K] [Zero K] [One K]

/-- `map_values(f, R)`: the weights are mapped, nothing else changes (zero-weight images are then skipped by `CFG.add`) -/
theorem gen_CFG_map_values_eq_model (G : CFG σ K) (f : K → K') :
    Build.CFG_map_values G f = { S := G.S, V := G.V, rules := G.rules.map fun r => ⟨f r.w, r.head, r.body⟩ } := by
  simp only [Build.CFG_map_values, flatMap_single]

/-- the rules that survive `CFG.add`: exactly those whose image is not zero -/
theorem gen_CFG_map_values_dropZero [DecidableEq K'] [Add K'] [Mul K'] [Zero K'] [One K'] (G : CFG σ K) (f : K → K') :
    (dropZero (Build.CFG_map_values G f)).rules = (G.rules.filter fun r => f r.w ≠ 0).map fun r => ⟨f r.w, r.head, r.body⟩ := by
  simp only [gen_CFG_map_values_eq_model, dropZero, List.filter_map, Function.comp_def]

end
end Genlm
