import GenlmModel.Proofs.GenLink.Same
import GenlmModel.Model.Transform
import GenlmModel.Proofs.SepStart
/-! # `cfg.py`: `CFG.spawn`, `CFG.separate_start`, `CFG.rename` = the models of `Model/Transform.lean`

`spawn` is translated on its own (`S.getD self.S`: the conditional expression `self.S if S is None else S`) AND its
return expression is inlined, with the keyword arguments given at the call, into every translated caller of `cfg.py`
(`separate_start`, `rename`, `unfold`, `map_values`), so an edit of `spawn` changes / removes all of them.  The primitives
`CFG.__init__`, `add`, `__iter__`, `is_terminal` are pinned to the text their fixed interpretation was written for.
`CFG.add` skips zero-weight rules: the generated definitions keep them and the theorems apply `dropZero`
(= `mkRules` of the models); `_gen_nt(self.S)` is the explicit argument `S`. -/
namespace Genlm
set_option linter.unusedSectionVars false
open Gen GenLinkAux
section
variable {σ K : Type} [DecidableEq σ] [DecidableEq K] [Add K] [Mul K] [Zero K] [One K]

/-- `spawn()`: same start symbol and vocabulary, no rules; `spawn(S=X)`: start symbol `X` — whatever `X` is
(in particular a "falsy" name such as `0`) -/
theorem gen_CFG_spawn_eq_model (G : CFG σ K) (S : Option σ) (V : Option (List σ)) :
    Build.CFG_spawn G S V = { S := S.getD G.S, V := V.getD G.V, rules := [] } := rfl

theorem gen_CFG_spawn_default (G : CFG σ K) : Build.CFG_spawn G none none = { S := G.S, V := G.V, rules := [] } := rfl

theorem gen_CFG_spawn_start (G : CFG σ K) (X : σ) : (Build.CFG_spawn G (some X) none).S = X := rfl

/-- `separate_start`: the model is the regenerated definition with the zero-weight rules `CFG.add` skips dropped
(only in the branch that builds a new grammar; otherwise `self` is returned as it is) -/
theorem gen_CFG_separate_start_eq_model (G : CFG σ K) (fresh : σ) :
    separateStart G fresh
      = if G.S ∈ bodySyms G then dropZero (Build.CFG_separate_start G fresh) else Build.CFG_separate_start G fresh := by
  unfold separateStart Build.CFG_separate_start bodySyms
  by_cases h : G.S ∈ G.rules.flatMap (·.body)
  · simp only [h, if_true, dropZero, mkRules, flatMap_single, rule_eta, List.map_id', List.singleton_append]
  · simp only [h, if_false]

/-- `rename(f)` -/
theorem gen_CFG_rename_eq_model (G : CFG σ K) (f : σ → σ) : dropZero (Build.CFG_rename G f) = renameNT f G := by
  simp only [Build.CFG_rename, renameNT, dropZero, mkRules, flatMap_single]

end
section
variable {σ K : Type} [DecidableEq σ] [DecidableEq K] [CommSemiring K]

/-- hence the level identity of `separate_start` holds for the regenerated definition: when a new start symbol is
introduced, its trees of height `n+1` are the old start symbol's trees of height `n` -/
theorem gen_CFG_separate_start_WN (G : CFG σ K) (fresh : σ) (h : G.S ∈ bodySyms G) (n : Nat) (X : σ) (x : List σ) :
    WN (dropZero (Build.CFG_separate_start G fresh)) n X x = WN (separateStart G fresh) n X x := by
  rw [gen_CFG_separate_start_eq_model, if_pos h]

end
end Genlm
