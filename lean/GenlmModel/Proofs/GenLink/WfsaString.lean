import GenlmModel.Proofs.GenLink.Basic
/-! # `wfsa/base.py`: `WFSA.from_string` (used by the models of C12 and, through `FST.from_string`, of C10) -/
namespace Genlm
set_option linter.unusedSectionVars false
open Gen GenLinkAux
section
variable {σ K : Type} [DecidableEq σ] [Add K] [Mul K] [Zero K] [One K]

/-- `xs[i]` inside `for i in range(len(xs))` is rendered `xs[i]?` (a label); in range it is `some xs[i]` -/
theorem gen_WFSA_from_string_eq_model (s : List σ) (w : K) : Build.WFSA_from_string s (some w) = WFSA.fromString s w := by
  simp only [Build.WFSA_from_string, WFSA.fromString, Option.getD_some]
  congr 1
  apply List.flatMap_congr
  intro i hi
  rw [List.mem_range] at hi
  simp [List.getElem?_eq_getElem hi]

/-- the default `w=None` is `R.one` -/
theorem gen_WFSA_from_string_default (s : List σ) : Build.WFSA_from_string s (none : Option K) = WFSA.fromString s 1 :=
  gen_WFSA_from_string_eq_model s 1

end
end Genlm
