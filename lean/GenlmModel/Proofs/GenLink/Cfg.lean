import GenlmModel.Proofs.GenLink.Same
import GenlmModel.Model.PrefixT
/-! # `cfg.py`: `prefix_transducer` = `prefixT` (`Model/PrefixT.lean`) -/
namespace Genlm
set_option linter.unusedSectionVars false
open Gen GenLinkAux
section
variable {σ K : Type} [DecidableEq σ] [Add K] [Mul K] [Zero K] [One K]

/-- same entries as the model in any order (survives a re-ordering of the `add_I` / `add_arc` lines) -/
theorem gen_prefix_transducer_eq_model (V : List σ) : (Build.prefix_transducer V : FST Nat σ K).Same (prefixT V) := by
  builder_same [Build.prefix_transducer, prefixT]

end
section
variable {σ K : Type} [DecidableEq σ] [CommSemiring K]

/-- hence the same path sums -/
theorem gen_prefix_transducer_TPk (V : List σ) (k : Nat) (x y : List σ) :
    TPk (Build.prefix_transducer V : FST Nat σ K) k x y = TPk (prefixT V) k x y :=
  (gen_prefix_transducer_eq_model V).TPk_eq k x y

end

end Genlm
