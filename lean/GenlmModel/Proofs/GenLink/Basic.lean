import GenlmModel.Generated.Builders
import Mathlib.Data.Multiset.Bind
import Mathlib.Tactic.Abel
/-! # Link between the GENERATED builder definitions and the hand-written models: helpers

`Generated/Builders.lean` is re-written from the Python sources on every run (`harness/translate.py`); the
theorems `gen_<function>_eq_model` of `Proofs/GenLink/*.lean` state that each generated definition is the
hand-written mirror model, so `lake build` re-checks the models against the source text.

A generated definition fills `start`, `stop`, `arcs` in program order (a call = a singleton, a loop = a
`flatMap`, a branch = an `if`).  Two kinds of statements:
* `=` — proved by unfolding and the normalisations below (`flatMap` of a singleton is a `map`, η for arcs);
* `Same` — the three lists agree up to `List.Perm` (the order in which Python emits the entries is not
  observable: `add_I`/`add_F`/`add_arc` accumulate), proved by `builder_same`, which compares the lists
  as multisets and so survives a re-ordering of independent `add_*` statements in the source.
-/
namespace Genlm
namespace GenLinkAux

theorem flatMap_single {α β : Type} (f : α → β) (l : List α) : (l.flatMap fun e => [f e]) = l.map f := by
  induction l with
  | nil => rfl
  | cons a l ih => simp [List.flatMap_cons, ih]

theorem flatMap_skip {α β : Type} (p : α → Prop) [DecidablePred p] (f : α → β) (l : List α) :
    (l.flatMap fun e => if p e then [] else [f e]) = (l.filter fun e => ¬ p e).map f := by
  induction l with
  | nil => rfl
  | cons a l ih => by_cases h : p a <;> simp [List.flatMap_cons, h, ih]

theorem flatMap_skip' {α β : Type} (p : α → Prop) [DecidablePred p] (g : α → List β) (l : List α) :
    (l.flatMap fun e => if p e then [] else g e) = (l.filter fun e => ¬ p e).flatMap g := by
  induction l with
  | nil => rfl
  | cons a l ih => by_cases h : p a <;> simp [List.flatMap_cons, h, ih]

theorem flatMap_keep {α β : Type} (p : α → Prop) [DecidablePred p] (f : α → β) (l : List α) :
    (l.flatMap fun e => if p e then [f e] else []) = (l.filter fun e => p e).map f := by
  induction l with
  | nil => rfl
  | cons a l ih => by_cases h : p a <;> simp [List.flatMap_cons, h, ih]

theorem flatMap_ite_single {α β : Type} (p : α → Prop) [DecidablePred p] (f g : α → β) (l : List α) :
    (l.flatMap fun e => if p e then [f e] else [g e]) = l.map fun e => if p e then f e else g e := by
  induction l with
  | nil => rfl
  | cons a l ih => by_cases h : p a <;> simp [List.flatMap_cons, h, ih]

@[simp] theorem arc_eta {ι σ K : Type} (e : Arc ι σ K) : (⟨e.src, e.lbl, e.dst, e.w⟩ : Arc ι σ K) = e := rfl
@[simp] theorem tarc_eta {ι σ K : Type} (e : TArc ι σ K) : (⟨e.src, e.inp, e.out, e.dst, e.w⟩ : TArc ι σ K) = e := rfl
@[simp] theorem rule_eta {σ K : Type} (r : Rule σ K) : (⟨r.w, r.head, r.body⟩ : Rule σ K) = r := rfl

end GenLinkAux

/-- two machines with the same entries, listed in any order -/
def WFSA.Same {ι σ K : Type} (A B : WFSA ι σ K) : Prop :=
  A.start.Perm B.start ∧ A.stop.Perm B.stop ∧ A.arcs.Perm B.arcs

def FST.Same {ι σ K : Type} (A B : FST ι σ K) : Prop :=
  A.start.Perm B.start ∧ A.stop.Perm B.stop ∧ A.arcs.Perm B.arcs

/-- two grammars with the same start symbol, vocabulary and rules, the rules listed in any order -/
def CFG.Same {σ K : Type} (A B : CFG σ K) : Prop := A.S = B.S ∧ A.V = B.V ∧ A.rules.Perm B.rules

theorem WFSA.Same.of_eq {ι σ K : Type} {A B : WFSA ι σ K} (h : A = B) : A.Same B := by
  subst h; exact ⟨.refl _, .refl _, .refl _⟩

theorem FST.Same.of_eq {ι σ K : Type} {A B : FST ι σ K} (h : A = B) : A.Same B := by
  subst h; exact ⟨.refl _, .refl _, .refl _⟩

/-- `l₁.Perm l₂` for lists built from literals, `++`, `flatMap`, `map`, `filter`: compare as multisets,
distribute the binds over the sums, and let `abel` re-order the summands -/
macro "list_perm" : tactic => `(tactic| first
  | exact List.Perm.refl _
  | (refine Multiset.coe_eq_coe.1 ?_
     (try simp only [GenLinkAux.flatMap_single, ← Multiset.coe_add, ← Multiset.coe_bind, ← Multiset.cons_coe,
       ← Multiset.singleton_add, ← Multiset.map_coe, ← Multiset.filter_coe, Multiset.coe_nil, Multiset.bind_add,
       Multiset.bind_singleton, Multiset.bind_zero, add_zero, zero_add, GenLinkAux.arc_eta, GenLinkAux.tarc_eta,
       GenLinkAux.rule_eta, Prod.mk.eta, Multiset.map_id', List.map_id'])
     (try abel)
     done))

/-- `A.Same B` for a generated definition `A` and its model `B`, after unfolding both with the given lemmas -/
macro "builder_same" "[" ds:Lean.Parser.Tactic.simpLemma,* "]" : tactic =>
  `(tactic| (refine ⟨?_, ?_, ?_⟩ <;> (try simp only [$ds,*]) <;> list_perm))

end Genlm
