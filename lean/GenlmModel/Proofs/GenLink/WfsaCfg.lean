import GenlmModel.Proofs.GenLink.Same
import GenlmModel.Proofs.Wfsa2
/-! # `wfsa/base.py`: `WFSA.to_cfg` = `toCfgRight` / `toCfgLeft` (`Model/WfsaOps2.lean`), both recursion directions

The generated definition is one function of the mode string (`recursion == "right"`, otherwise the `else` branch with
its `assert recursion == "left"`).  `V = self.alphabet - {EPSILON}` is `WFSA.labels`; `if S is None: S = _gen_nt()` makes
`S` an explicit argument; states are symbols (`WFSA σ σ K`).  The renaming loop at the top of `to_cfg`

    while S in self.states or not V.isdisjoint(self.states): self = self.rename(lambda q: (q,))

is matched as text (any edit of it makes the function untranslatable); the definition is about the machine after the
loop, i.e. one that satisfies the hypotheses `S ∉ A.states`, `∀ i ∈ A.states, i ∉ A.labels` of `toCfgRight_spec`.
In the `else` branch of `if a == EPSILON` the label `a` is a symbol: `e.lbl.toList` in the rule body. -/
namespace Genlm
set_option linter.unusedSectionVars false
open Gen GenLinkAux
section
variable {σ K : Type} [DecidableEq σ] [Add K] [Mul K] [Zero K] [One K]

/-- the regenerated `to_cfg` IS the hand-written model, in either direction -/
theorem gen_WFSA_to_cfg_eq_model (A : WFSA σ σ K) (S : σ) (recursion : String) :
    Build.WFSA_to_cfg A S recursion = if recursion = "right" then A.toCfgRight S else A.toCfgLeft S := by
  by_cases h : recursion = "right"
  · simp only [Build.WFSA_to_cfg, WFSA.toCfgRight, h, if_true, flatMap_single, flatMap_ite_single]
    congr 2
    apply List.map_congr_left
    intro e _
    cases e.lbl <;> simp
  · simp only [Build.WFSA_to_cfg, WFSA.toCfgLeft, h, if_false, flatMap_single, flatMap_ite_single]
    congr 2
    apply List.map_congr_left
    intro e _
    cases e.lbl <;> simp

theorem gen_WFSA_to_cfg_right_eq_model (A : WFSA σ σ K) (S : σ) : Build.WFSA_to_cfg A S "right" = A.toCfgRight S := by
  rw [gen_WFSA_to_cfg_eq_model, if_pos rfl]

/-- the default of the Python parameter (`recursion="right"`) is the default of the regenerated definition's parameter -/
theorem gen_WFSA_to_cfg_default (A : WFSA σ σ K) (S : σ) : Build.WFSA_to_cfg A S = A.toCfgRight S :=
  gen_WFSA_to_cfg_right_eq_model A S

theorem gen_WFSA_to_cfg_left_eq_model (A : WFSA σ σ K) (S : σ) : Build.WFSA_to_cfg A S "left" = A.toCfgLeft S := by
  rw [gen_WFSA_to_cfg_eq_model, if_neg (by decide)]

end
section
variable {σ K : Type} [DecidableEq σ] [CommSemiring K]

/-- hence the regenerated grammar has the automaton's path sums as derivation sums (state names apart from the
alphabet and the start symbol — what the renaming loop establishes) -/
theorem gen_WFSA_to_cfg_right_WN (A : WFSA σ σ K) (S : σ) (hS : S ∉ A.states) (hdisj : ∀ i ∈ A.states, i ∉ A.labels)
    (n : Nat) (x : List σ) : WN (Build.WFSA_to_cfg A S "right") (n + 2) S x = PN A n x := by
  rw [gen_WFSA_to_cfg_right_eq_model]; exact toCfgRight_spec A S hS hdisj n x

theorem gen_WFSA_to_cfg_left_WN (A : WFSA σ σ K) (S : σ) (hS : S ∉ A.states) (hdisj : ∀ i ∈ A.states, i ∉ A.labels)
    (n : Nat) (x : List σ) : WN (Build.WFSA_to_cfg A S "left") (n + 2) S x = PN A n x := by
  rw [gen_WFSA_to_cfg_left_eq_model]; exact toCfgLeft_spec A S hS hdisj n x

end
end Genlm
