import GenlmModel.Proofs.GenLink.Same
import GenlmModel.Proofs.Star
/-! # `wfsa/base.py`: generated builders = hand-written models (`Model/WfsaOps.lean`, `WFSA.one` of `Proofs/Star.lean`)

`spawn` has no definition of its own: its body is inlined (with the constant `keep_*` flags) into every
caller, so an edit of `spawn` changes the generated `reverse`, `__add__`, `__mul__`, `kleene_plus`, `FST.T`, … -/
namespace Genlm
set_option linter.unusedSectionVars false
open Gen GenLinkAux
section
variable {ι κ σ K : Type} [DecidableEq ι] [DecidableEq κ] [DecidableEq σ] [Add K] [Mul K] [Zero K] [One K]

theorem gen_WFSA_lift_eq_model (x : Option σ) (w : K) : Build.WFSA_lift x w = WFSA.lift x w := rfl

theorem gen_WFSA_zero_eq_model (A : WFSA ι σ K) : Build.WFSA_zero A = WFSA.zero := rfl

theorem gen_WFSA_one_eq_model (A : WFSA ι σ K) : Build.WFSA_one A = (WFSA.one : WFSA Nat σ K) := rfl

/-- `rename(f)` (`spawn()` inlined: an empty machine) is `mapStates f` -/
theorem gen_WFSA_rename_eq_model (A : WFSA ι σ K) (f : ι → κ) : Build.WFSA_rename A f = A.mapStates f := by
  simp [Build.WFSA_rename, WFSA.mapStates, flatMap_single]

theorem gen_WFSA_reverse_eq_model (A : WFSA ι σ K) : Build.WFSA_reverse A = A.reverse := by
  simp [Build.WFSA_reverse, WFSA.reverse, flatMap_single]

/-- `__add__`, `rename_apart` read as `Sum.inl` / `Sum.inr` -/
theorem gen_WFSA_add_eq_model (A : WFSA ι σ K) (B : WFSA κ σ K) : (Build.WFSA_add A B).Same (A.union B) := by
  builder_same [Build.WFSA_add, WFSA.union]

theorem gen_WFSA_mul_eq_model (A : WFSA ι σ K) (B : WFSA κ σ K) : (Build.WFSA_mul A B).Same (A.concat B) := by
  builder_same [Build.WFSA_mul, WFSA.concat, bridge]

theorem gen_WFSA_kleene_plus_eq_model (A : WFSA ι σ K) : (Build.WFSA_kleene_plus A).Same A.kleenePlus := by
  builder_same [Build.WFSA_kleene_plus, WFSA.kleenePlus, bridge]

end
/-! ### hence the same path sums -/
section
variable {ι κ σ K : Type} [DecidableEq ι] [DecidableEq κ] [DecidableEq σ] [CommSemiring K]

theorem gen_WFSA_add_Pk (A : WFSA ι σ K) (B : WFSA κ σ K) (k : Nat) (x : List σ) :
    Pk (Build.WFSA_add A B) k x = Pk (A.union B) k x := (gen_WFSA_add_eq_model A B).Pk_eq k x

theorem gen_WFSA_mul_Pk (A : WFSA ι σ K) (B : WFSA κ σ K) (k : Nat) (x : List σ) :
    Pk (Build.WFSA_mul A B) k x = Pk (A.concat B) k x := (gen_WFSA_mul_eq_model A B).Pk_eq k x

theorem gen_WFSA_kleene_plus_Pk (A : WFSA ι σ K) (k : Nat) (x : List σ) :
    Pk (Build.WFSA_kleene_plus A) k x = Pk A.kleenePlus k x := (gen_WFSA_kleene_plus_eq_model A).Pk_eq k x

end

end Genlm
