import GenlmModel.Generated.Folds
import GenlmModel.Model.Norm
import Mathlib.Algebra.Ring.Defs
/-! # `chart.py`: `Chart.product` = `lprod (ks.map Z)`, the product `locally_normalize` uses (`lnWeight`, `Model/Norm.lean`)

`Generated/Folds.lean` is re-written from `chart.py` / `lm.py` on every run.  `Chart.product` is the left fold
`v = one; for k in ks: v *= self[k]`, the chart read through `__missing__` being a total function; the model multiplies
from the right (`lprod`, a `foldr`): equal in every monoid. -/
namespace Genlm
open Gen
section
variable {τ K : Type} [DecidableEq K] [Div K] [CommSemiring K]

theorem GenLinkAux.foldl_mul_eq (Z : τ → K) (ks : List τ) (a : K) :
    ks.foldl (fun v k => v * Z k) a = a * lprod (ks.map Z) := by
  induction ks generalizing a with
  | nil => simp [lprod]
  | cons k ks ih => simp only [List.foldl_cons, ih, List.map_cons, lprod, List.foldr_cons, mul_assoc]

theorem gen_Chart_product_eq_model (Z : τ → K) (ks : List τ) : Fold.Chart_product Z ks = lprod (ks.map Z) := by
  simp only [Fold.Chart_product]
  rw [GenLinkAux.foldl_mul_eq, one_mul]

/-- the weight `locally_normalize` gives a rule, with the REGENERATED `Chart.product` -/
theorem gen_Chart_product_lnWeight {σ : Type} (inv : K → K) (Z : σ → K) (r : Rule σ K) :
    lnWeight inv Z r = r.w * Fold.Chart_product Z r.body * inv (Z r.head) := by
  rw [gen_Chart_product_eq_model]; rfl

end
end Genlm
