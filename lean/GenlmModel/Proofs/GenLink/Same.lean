import GenlmModel.Proofs.GenLink.Basic
import GenlmModel.Proofs.Fst
import GenlmModel.Proofs.Tab
/-! # `Same` machines have the same path sums (any commutative semiring)

So a `gen_<function>_eq_model` theorem stated with `Same` transfers every theorem about the model's `Pk` / `PN`
/ `TPk` / `TPN` to the generated definition. -/
namespace Genlm
section
variable {ι σ K : Type} [DecidableEq ι] [DecidableEq σ] [CommSemiring K]

theorem WFSA.Same.Qk_eq {A B : WFSA ι σ K} (h : A.Same B) (k : Nat) (i : ι) (x : List σ) (j : ι) :
    Qk A k i x j = Qk B k i x j := by
  induction k generalizing i x with
  | zero => rfl
  | succ k ih =>
    rw [Qk_succ, Qk_succ]
    simp only [ih]
    exact ((h.2.2.filter _).map _).sum_eq

theorem WFSA.Same.Pk_eq {A B : WFSA ι σ K} (h : A.Same B) (k : Nat) (x : List σ) : Pk A k x = Pk B k x := by
  rw [Genlm.Pk_eq, Genlm.Pk_eq]
  simp only [h.Qk_eq, (h.2.1.map _).sum_eq]
  exact (h.1.map _).sum_eq

theorem WFSA.Same.PN_eq {A B : WFSA ι σ K} (h : A.Same B) (n : Nat) (x : List σ) : PN A n x = PN B n x := by
  simp only [Genlm.PN_eq, h.Pk_eq]

theorem FST.Same.Tk_eq {A B : FST ι σ K} (h : A.Same B) (k : Nat) (i : ι) (x y : List σ) (j : ι) :
    Tk A k i x y j = Tk B k i x y j := by
  induction k generalizing i x y with
  | zero => rfl
  | succ k ih =>
    rw [Tk_succ, Tk_succ]
    simp only [ih]
    exact ((h.2.2.filter _).map _).sum_eq

theorem FST.Same.TPk_eq {A B : FST ι σ K} (h : A.Same B) (k : Nat) (x y : List σ) : TPk A k x y = TPk B k x y := by
  rw [Genlm.TPk_eq, Genlm.TPk_eq]
  simp only [h.Tk_eq, (h.2.1.map _).sum_eq]
  exact (h.1.map _).sum_eq

theorem FST.Same.TPN_eq {A B : FST ι σ K} (h : A.Same B) (n : Nat) (x y : List σ) : TPN A n x y = TPN B n x y := by
  simp only [Genlm.TPN_eq, h.TPk_eq]

theorem CFG.Same.WN_eq {A B : CFG σ K} (h : A.Same B) (n : Nat) (X : σ) (x : List σ) : WN A n X x = WN B n X x := by
  obtain ⟨S, V, rs⟩ := A
  obtain ⟨hS, hV, hr⟩ := h
  simp only at hS hV hr
  subst hS hV
  exact WN_perm B rs hr n X x

end
end Genlm
