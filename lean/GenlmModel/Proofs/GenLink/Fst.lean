import GenlmModel.Proofs.GenLink.WfsaString
import GenlmModel.Proofs.GenLink.Same
/-! # `fst.py`: generated builders = hand-written models (`Model/FstOps.lean`)

Python's `axis` / `idx` ∈ {0, 1} are `Nat` in the generated definitions and `Bool` in the models. -/
namespace Genlm
set_option linter.unusedSectionVars false
open Gen GenLinkAux
section
variable {ι σ K : Type} [DecidableEq ι] [DecidableEq σ] [Add K] [Mul K] [Zero K] [One K]

theorem gen_FST_diag_eq_model (A : WFSA ι σ K) : Build.FST_diag A = FST.diag A := by
  simp [Build.FST_diag, FST.diag, flatMap_single]

/-- `FST.from_string = diag ∘ WFSA.from_string` -/
theorem gen_FST_from_string_eq_model (s : List σ) (w : K) : Build.FST_from_string s (some w) = FST.fromString s w := by
  simp only [Build.FST_from_string, FST.fromString, gen_FST_diag_eq_model, gen_WFSA_from_string_eq_model]

theorem gen_FST_T_eq_model (T : FST ι σ K) : Build.FST_T T = T.transpose := by
  simp [Build.FST_T, FST.transpose, flatMap_single]

theorem gen_FST_project_eq_model (T : FST ι σ K) (axis : Bool) :
    Build.FST_project T (if axis then 1 else 0) = T.project axis := by
  cases axis <;> simp [Build.FST_project, FST.project, flatMap_single]

/-- the arcs of the model `FST.augment`, in the shape the translator produces: the arc of `e ∈ arcs(i)` starts at `i`
(the model writes `e.src`), the conditional re-binding of `ab` is a pair of `if`s (the model's `augArc` is a `match`) -/
theorem augment_arcs (T : FST ι σ K) (idx : Bool) :
    (T.augment idx).arcs = T.states.flatMap fun i =>
      (if idx = false then [⟨i, none, some ESym.e1, i, 1⟩] else [⟨i, some ESym.e2, none, i, 1⟩]) ++
      ((T.arcs.filter fun e => e.src = i).flatMap fun e => [⟨i,
        (if idx = false ∧ ESym.lift e.out = none then ESym.lift e.inp
          else if idx = true ∧ ESym.lift e.inp = none then some ESym.e1 else ESym.lift e.inp),
        (if idx = false ∧ ESym.lift e.out = none then some ESym.e2
          else if idx = true ∧ ESym.lift e.inp = none then ESym.lift e.out else ESym.lift e.out), e.dst, e.w⟩]) := by
  cases idx <;>
  · simp only [FST.augment, flatMap_single]
    apply List.flatMap_congr
    intro i _
    simp only [Bool.false_eq_true, Bool.true_eq_false, if_true, if_false, true_and, false_and, augLoop,
      List.singleton_append, List.cons.injEq]
    refine List.map_congr_left fun e he => ?_
    have h : e.src = i := by simpa using (List.mem_filter.1 he).2
    subst h
    cases hi : e.inp <;> cases ho : e.out <;> simp [augArc, ESym.lift, hi, ho]

/-- `_augment_epsilon_transitions`: same entries as the model, in any order -/
theorem gen_FST_augment_epsilon_transitions_eq_model (T : FST ι σ K) (idx : Bool) :
    (Build.FST_augment_epsilon_transitions T (if idx then 1 else 0)).Same (T.augment idx) := by
  refine ⟨?_, ?_, ?_⟩
  · simp only [Build.FST_augment_epsilon_transitions, FST.augment]; list_perm
  · simp only [Build.FST_augment_epsilon_transitions, FST.augment]; list_perm
  · rw [augment_arcs]
    cases idx <;> simp only [Build.FST_augment_epsilon_transitions, Bool.false_eq_true, Bool.true_eq_false, eq_self, if_true,
      if_false, Nat.zero_ne_one, Nat.succ_ne_zero, true_and, false_and] <;> list_perm

/-- the filter: same entries as the model in any order (survives a re-ordering of the `add_arc` / `add_F` lines) -/
theorem gen_epsilon_filter_fst_eq_model (Sigma : List (Option σ)) :
    (Build.epsilon_filter_fst Sigma : FST Nat (ESym σ) K).Same (epsilonFilter Sigma) := by
  builder_same [Build.epsilon_filter_fst, epsilonFilter]

theorem pairChainArcs_zipIdx (i : Nat) (ls : List (Option σ × Option σ)) (j : Nat) :
    (pairChainArcs i j ls : List (TArc PairState σ K)) =
      (ls.zipIdx j).flatMap fun e1 => [⟨.inr (i, e1.2), e1.1.1, e1.1.2, .inr (i, e1.2 + 1), 1⟩] := by
  induction ls generalizing j with
  | nil => rfl
  | cons l ls ih => simp [pairChainArcs, List.zipIdx_cons, ih]

theorem pairsArcs_zipIdx (ps : List (List σ × List σ)) (i : Nat) :
    (pairsArcs i ps : List (TArc PairState σ K)) =
      (ps.zipIdx i).flatMap fun e => [⟨.inl 0, none, none, .inr (e.2, 0), 1⟩] ++
        ((zipLongest e.1.1 e.1.2).zipIdx.flatMap fun e1 => [⟨.inr (e.2, e1.2), e1.1.1, e1.1.2, .inr (e.2, e1.2 + 1), 1⟩]) ++
        [⟨.inr (e.2, max e.1.1.length e.1.2.length), none, none, .inl 1, 1⟩] := by
  induction ps generalizing i with
  | nil => rfl
  | cons p ps ih => simp [pairsArcs, pairArcs, List.zipIdx_cons, ih, pairChainArcs_zipIdx]

/-- `from_pairs`: Python's `enumerate` is `zipIdx`, the model recurses with a counter (`pairsArcs_zipIdx`); same
entries as the model, in any order -/
theorem gen_FST_from_pairs_eq_model (ps : List (List σ × List σ)) :
    (Build.FST_from_pairs ps : FST PairState σ K).Same (FST.fromPairs ps) := by
  builder_same [Build.FST_from_pairs, FST.fromPairs, pairsArcs_zipIdx]

end
section
variable {σ K : Type} [DecidableEq σ] [CommSemiring K]

theorem gen_FST_augment_epsilon_transitions_TPk {ι : Type} [DecidableEq ι] (T : FST ι σ K) (idx : Bool) (k : Nat)
    (x y : List (ESym σ)) :
    TPk (Build.FST_augment_epsilon_transitions T (if idx then 1 else 0)) k x y = TPk (T.augment idx) k x y :=
  (gen_FST_augment_epsilon_transitions_eq_model T idx).TPk_eq k x y

theorem gen_FST_from_pairs_TPk (ps : List (List σ × List σ)) (k : Nat) (x y : List σ) :
    TPk (Build.FST_from_pairs ps : FST PairState σ K) k x y = TPk (FST.fromPairs ps) k x y :=
  (gen_FST_from_pairs_eq_model ps).TPk_eq k x y

/-- hence the same path sums -/
theorem gen_epsilon_filter_fst_TPk (Sigma : List (Option σ)) (k : Nat) (x y : List (ESym σ)) :
    TPk (Build.epsilon_filter_fst Sigma : FST Nat (ESym σ) K) k x y = TPk (epsilonFilter Sigma) k x y :=
  (gen_epsilon_filter_fst_eq_model Sigma).TPk_eq k x y

end

end Genlm
