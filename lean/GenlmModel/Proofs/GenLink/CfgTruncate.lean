import GenlmModel.Proofs.GenLink.Same
import GenlmModel.Model.Gaps
/-! # `cfg.py`: the acceptor built by `CFG.truncate_length` = `truncAcceptor` (`Model/Gaps.lean`)

The function ends with `return self @ m`; the regenerated definition is the machine `m` (states `0 … max_length`, every
state final, an arc per symbol of the SET `self.V`: `V.eraseDups`). -/
namespace Genlm
set_option linter.unusedSectionVars false
open Gen GenLinkAux
section
variable {σ K : Type} [DecidableEq σ] [DecidableEq K] [Add K] [Mul K] [Zero K] [One K]

theorem gen_CFG_truncate_length_acceptor_eq_model (G : CFG σ K) (N : Nat) :
    Build.CFG_truncate_length_acceptor G N = truncAcceptor G.V.eraseDups N := by
  simp only [Build.CFG_truncate_length_acceptor, truncAcceptor, flatMap_single, List.singleton_append]

/-- `truncate_length` is the composition of the grammar with the REGENERATED acceptor -/
theorem gen_CFG_truncate_length_eq_model (G : CFG σ K) (N : Nat) :
    truncateLength G N = compose G (FST.diag (Build.CFG_truncate_length_acceptor G N)) := by
  rw [gen_CFG_truncate_length_acceptor_eq_model]; rfl

end
end Genlm
