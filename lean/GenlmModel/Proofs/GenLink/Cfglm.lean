import GenlmModel.Proofs.GenLink.Same
/-! # `cfglm.py`: `add_EOS` = `addEOS` (`Model/Cfg.lean`), `locally_normalize` = `locallyNormalize` (`Model/Norm.lean`)

`_gen_nt("<START>")` is the explicit argument `S`, `self.agenda(**kwargs)` the explicit argument `Z`, `/` is
multiplication by `inv`; `CFG.add` keeps zero-weight rules (`dropZero` models their skipping separately). -/
namespace Genlm
set_option linter.unusedSectionVars false
open Gen GenLinkAux
section
variable {σ K : Type} [DecidableEq σ] [Add K] [Mul K] [Zero K] [One K]

/-- same start symbol and vocabulary, same rules in any order -/
theorem gen_add_EOS_eq_model (G : CFG σ K) (S' eos : σ) : (Build.add_EOS G eos S').Same (addEOS G S' eos) := by
  refine ⟨rfl, rfl, ?_⟩
  simp only [Build.add_EOS, addEOS]
  list_perm

theorem gen_locally_normalize_eq_model [DecidableEq K] (inv : K → K) (G : CFG σ K) (Z : σ → K) :
    Build.locally_normalize inv G Z = locallyNormalize inv G Z := by
  simp only [Build.locally_normalize, locallyNormalize, lnWeight, flatMap_skip, ne_eq]

end
section
variable {σ K : Type} [DecidableEq σ] [CommSemiring K]

/-- hence the same derivation sums -/
theorem gen_add_EOS_WN (G : CFG σ K) (S' eos : σ) (n : Nat) (X : σ) (x : List σ) :
    WN (Build.add_EOS G eos S') n X x = WN (addEOS G S' eos) n X x := (gen_add_EOS_eq_model G S' eos).WN_eq n X x

end
end Genlm
