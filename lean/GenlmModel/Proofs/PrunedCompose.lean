import GenlmModel.Model.PrunedCompose
import GenlmModel.Proofs.Fst
import Mathlib.Logic.Relation
import Mathlib.Data.List.Perm.Basic
import Mathlib.Data.List.ProdSigma
import Mathlib.Tactic.Tauto

/-! # `FST._pruned_compose` = the full product restricted to the accessible pairs (property C10, task E9-A)

The verified model of composition (`Proofs/Fst.lean`: `composeRaw_Tk/TPk/TPN`, `compose_graded_TPk`, …) is the FULL
product `FST.composeRaw` (all state pairs).  The code (`genlm/grammar/fst.py`, `_pruned_compose` with the default hooks)
builds the product on the fly from the initial pairs with a worklist; `Model/PrunedCompose.lean` mirrors it
(`FST.prunedComposeWith ord T1 T2 fuel`, `ord` = an arbitrary worklist discipline, `ord = id` = the code's LIFO stack:
`FST.prunedCompose`; results: `some (some C)`, `some none` = `AssertionError`, `none` = out of fuel).

For every `ord` that permutes the worklist (`hord : ∀ l, (ord l).Perm l`), every commutative semiring with decidable
equality (the code tests `w != R.zero` in `self.I`), ε anywhere:
* `FST.PairStep`, `FST.PairAcc` — accessibility in the full product from the pairs `self.I × other.I`;
* `prunedCompose_terminates` — fuel `pcFuel T1 T2 = |states T1| · |states T2|` always suffices;
* `prunedCompose_done` — the result is assembled from the pieces (`pcArcsFrom`, `pcStopFrom`) of the accessible pairs,
  each popped exactly once;
* `prunedCompose_arcs_src` (arcs leaving an accessible pair: exactly those of the full product, same order; none leave any
  other pair), `prunedCompose_arcs_perm` (globally: a permutation of the arcs of the full product with accessible source),
  `prunedCompose_start`, `prunedCompose_stop` (accumulated initial / final weights), `prunedCompose_sub`;
* `prunedCompose_Tk`, **`prunedCompose_TPk`**, `prunedCompose_TPN` — same path weights from accessible pairs, same
  accepting weights `TPk pruned k x y = TPk (composeRaw T1 T2) k x y` for all `k`, `x`, `y`;
* `prunedCompose_assert(_sound)`, `pcAssertOK_of_left/right` — `assert b != EPSILON` fails iff some ACCESSIBLE pair has
  an ε-writing arc on the left and an ε-reading arc on the right (the full-product model has no arc there and no error);
* `__matmul__` as the code runs it (`FST.composePruned`, `FST.composePruned'`: augmentation, ε filter, two on-the-fly
  products): `composePruned_ne_assert`, `composePruned_terminates`, **`composePruned_TPk`**, `composePruned_TPN`,
  `composePruned_graded` (the general composition theorem `compose_graded_TPk` for the machine the code returns),
  `composePruned'_TPk`, `composePruned'_ne_assert`.
Generic tools: `PcAux.restrict_Tk_E9/TBk_E9/TPk_E9` (restriction of a transducer to a set of states closed under the arcs
that carries the initial weight), `PcAux.pcPush_spec_E9`, `PcAux.PcInv` (loop invariant), `PcAux.pcLoop_spec_E9`.
Local re-proofs (the originals live in `Proofs/Wfsa2.lean`, which is not imported here): `filter_key_flatMap_E9`
(= `filter_src_flatMap`, for any key), `wlook_eq_zero_E9`, `wlook_map_nodup_E9`.
Examples (`PcAux.exP1`, `exP2`, `exP1'`): 15 pairs / 7 arcs in the full product, 2 pairs / 2 arcs built; zero-weight initial
state skipped; assertion reached or not depending on accessibility; all checked against the Python code. -/
set_option linter.unusedSectionVars false

namespace Genlm
open WfsaAux FstAux

namespace PcAux

/-! ### `pcPush` -/
section Push
variable {α : Type} [DecidableEq α]

theorem pcPush_spec_E9 (ts : List α) : ∀ (vis work : List α),
    ∃ nw : List α, (pcPush vis work ts).1 = nw ++ work ∧ (pcPush vis work ts).2 = nw ++ vis ∧
      nw.Nodup ∧ (∀ t ∈ nw, t ∉ vis ∧ t ∈ ts) ∧ (∀ t ∈ ts, t ∈ vis ∨ t ∈ nw) := by
  induction ts with
  | nil => intro vis work; exact ⟨[], rfl, rfl, List.nodup_nil, by simp, by simp⟩
  | cons t ts ih =>
    intro vis work
    by_cases ht : t ∈ vis
    · obtain ⟨nw, h1, h2, h3, h4, h5⟩ := ih vis work
      refine ⟨nw, by rw [pcPush, if_pos ht]; exact h1, by rw [pcPush, if_pos ht]; exact h2, h3, ?_, ?_⟩
      · intro u hu; exact ⟨(h4 u hu).1, List.mem_cons_of_mem _ (h4 u hu).2⟩
      · intro u hu
        rcases List.mem_cons.1 hu with rfl | hu
        · exact Or.inl ht
        · exact h5 u hu
    · obtain ⟨nw, h1, h2, h3, h4, h5⟩ := ih (t :: vis) (t :: work)
      refine ⟨nw ++ [t], ?_, ?_, ?_, ?_, ?_⟩
      · rw [pcPush, if_neg ht, h1]; simp
      · rw [pcPush, if_neg ht, h2]; simp
      · rw [List.nodup_append]
        refine ⟨h3, List.nodup_singleton _, ?_⟩
        intro a ha b hb
        rw [List.mem_singleton] at hb
        subst hb
        intro hab
        subst hab
        exact (h4 a ha).1 (List.mem_cons_self)
      · intro u hu
        rcases List.mem_append.1 hu with hu | hu
        · refine ⟨fun h => (h4 u hu).1 (List.mem_cons_of_mem _ h), List.mem_cons_of_mem _ (h4 u hu).2⟩
        · rw [List.mem_singleton] at hu
          subst hu
          exact ⟨ht, List.mem_cons_self⟩
      · intro u hu
        rcases List.mem_cons.1 hu with rfl | hu
        · exact Or.inr (by simp)
        · rcases h5 u hu with h | h
          · rcases List.mem_cons.1 h with rfl | h
            · exact Or.inr (by simp)
            · exact Or.inl h
          · exact Or.inr (List.mem_append_left _ h)

end Push

/-! ### generic list lemmas -/
section Lists
variable {α β : Type}

theorem map_filter_congr_E9 {γ : Type} (l : List α) (p q : α → Bool) (f g : α → γ)
    (hpq : ∀ a ∈ l, p a = q a) (hfg : ∀ a ∈ l, p a = true → f a = g a) :
    (l.filter p).map f = (l.filter q).map g := by
  induction l with
  | nil => rfl
  | cons a l ih =>
    have ih' := ih (fun b hb => hpq b (List.mem_cons_of_mem _ hb))
      (fun b hb => hfg b (List.mem_cons_of_mem _ hb))
    have h1 := hpq a List.mem_cons_self
    by_cases hp : p a = true
    · rw [List.filter_cons_of_pos hp, List.filter_cons_of_pos (h1 ▸ hp), List.map_cons, List.map_cons, ih',
        hfg a List.mem_cons_self hp]
    · have hq : ¬ q a = true := h1 ▸ hp
      rw [List.filter_cons_of_neg hp, List.filter_cons_of_neg hq, ih']

/-- lists grouped by a key over a duplicate-free list of keys: selecting one key -/
theorem filter_key_flatMap_E9 [DecidableEq α] (key : β → α) (l : List α) (hl : l.Nodup) (g : α → List β)
    (hg : ∀ i, ∀ e ∈ g i, key e = i) (i0 : α) :
    (l.flatMap g).filter (fun e => key e = i0) = if i0 ∈ l then g i0 else [] := by
  induction l with
  | nil => simp
  | cons a l ih =>
    rw [List.nodup_cons] at hl
    rw [List.flatMap_cons, List.filter_append, ih hl.2]
    by_cases ha : a = i0
    · subst ha
      have h1 : (g a).filter (fun e => key e = a) = g a := by
        rw [List.filter_eq_self]
        intro e he
        simp [hg a e he]
      simp [h1, hl.1]
    · have h1 : (g a).filter (fun e => key e = i0) = [] := by
        rw [List.filter_eq_nil_iff]
        intro e he
        simp [hg a e he, ha]
      have h2 : (i0 ∈ a :: l) ↔ i0 ∈ l := by
        rw [List.mem_cons]
        exact ⟨fun h => h.resolve_left (fun h' => ha h'.symm), Or.inr⟩
      simp only [h1, List.nil_append, h2]

end Lists

/-! ### charts -/
section Chart
variable {ι K : Type} [DecidableEq ι] [DecidableEq K] [CommSemiring K]

theorem wlook_eq_zero_E9 (l : List (ι × K)) (i : ι) (h : ∀ q ∈ l, q.1 ≠ i) : wlook l i = 0 := by
  rw [wlook_eq_sum_ite]
  apply sum_map_zero
  intro q hq
  simp [h q hq]

theorem mem_nzKeys_E9 (l : List (ι × K)) (i : ι) : i ∈ nzKeys l ↔ wlook l i ≠ 0 := by
  simp only [nzKeys, List.mem_eraseDups, List.mem_map, List.mem_filter, decide_eq_true_eq]
  constructor
  · rintro ⟨s, ⟨_, hs⟩, rfl⟩; exact hs
  · intro h
    by_contra hc
    apply h
    apply wlook_eq_zero_E9
    intro q hq hqi
    exact hc ⟨q, ⟨hq, hqi ▸ h⟩, hqi⟩

theorem nodup_nzKeys_E9 (l : List (ι × K)) : (nzKeys l).Nodup := nodup_eraseDups _

end Chart

/-! ### backward sums of a transducer, and restriction to a closed set of states -/
section Restrict
variable {ι σ K : Type} [DecidableEq ι] [DecidableEq σ] [CommSemiring K]

/-- `TBk T k i x y`: total weight of the paths of exactly `k` arcs from `i` reading `x` and writing `y`, final weight
included -/
def TBk (T : FST ι σ K) (k : Nat) (i : ι) (x y : List σ) : K :=
  (T.stop.map fun f => Tk T k i x y f.1 * f.2).sum

theorem TBk_zero_E9 (T : FST ι σ K) (i : ι) (x y : List σ) :
    TBk T 0 i x y = if x = [] ∧ y = [] then wlook T.stop i else 0 := by
  unfold TBk
  by_cases hx : x = [] ∧ y = []
  · rw [if_pos hx, wlook_eq_sum_ite]
    apply congrArg
    apply List.map_congr_left
    intro f _
    by_cases h : f.1 = i
    · simp [Tk_zero, h, hx.1, hx.2]
    · have h' : ¬ i = f.1 := fun h'' => h h''.symm
      simp [Tk_zero, h, h']
  · rw [if_neg hx]
    apply sum_map_zero
    intro f _
    have : ¬ (i = f.1 ∧ x = [] ∧ y = []) := fun h => hx h.2
    simp [Tk_zero, this]

theorem TBk_succ_E9 (T : FST ι σ K) (k : Nat) (i : ι) (x y : List σ) :
    TBk T (k+1) i x y = ((T.arcs.filter (fun e => e.src = i)).map fun e =>
      ((lpeel e.inp x).map fun x' => ((lpeel e.out y).map fun y' => e.w * TBk T k e.dst x' y').sum).sum).sum := by
  unfold TBk
  simp only [Tk_succ, ← List.sum_map_mul_right, ← List.sum_map_mul_left]
  rw [sum_swap]
  apply congrArg
  apply List.map_congr_left
  intro e _
  rw [sum_swap]
  apply congrArg
  apply List.map_congr_left
  intro x' _
  rw [sum_swap]
  apply congrArg
  apply List.map_congr_left
  intro y' _
  apply congrArg
  apply List.map_congr_left
  intro f _
  rw [mul_assoc]

theorem TPk_eq_TBk_E9 (T : FST ι σ K) (k : Nat) (x y : List σ) :
    TPk T k x y = (T.start.map fun s => s.2 * TBk T k s.1 x y).sum := by
  rw [TPk_eq]
  apply congrArg
  apply List.map_congr_left
  intro s _
  unfold TBk
  rw [← List.sum_map_mul_left]
  apply congrArg
  apply List.map_congr_left
  intro f _
  rw [mul_assoc]

/-- path weights from the states of a set `R` closed under the arcs only depend on the arcs leaving `R` -/
theorem restrict_Tk_E9 (T T' : FST ι σ K) (R : ι → Prop)
    (hR : ∀ e ∈ T.arcs, R e.src → R e.dst)
    (harcs : ∀ i, R i → T'.arcs.filter (fun e => e.src = i) = T.arcs.filter (fun e => e.src = i))
    (k : Nat) (i : ι) (x y : List σ) (j : ι) (hi : R i) : Tk T' k i x y j = Tk T k i x y j := by
  induction k generalizing i x y with
  | zero => rfl
  | succ k ih =>
    rw [Tk_succ, Tk_succ, harcs i hi]
    apply congrArg
    apply List.map_congr_left
    intro e he
    have he' := List.mem_filter.mp he
    have hsrc : e.src = i := by simpa using he'.2
    have hd : R e.dst := hR e he'.1 (hsrc ▸ hi)
    apply congrArg
    apply List.map_congr_left
    intro x' _
    apply congrArg
    apply List.map_congr_left
    intro y' _
    rw [ih e.dst x' y' hd]

theorem restrict_TBk_E9 (T T' : FST ι σ K) (R : ι → Prop)
    (hR : ∀ e ∈ T.arcs, R e.src → R e.dst)
    (harcs : ∀ i, R i → T'.arcs.filter (fun e => e.src = i) = T.arcs.filter (fun e => e.src = i))
    (hstop : ∀ i, R i → wlook T'.stop i = wlook T.stop i)
    (k : Nat) (i : ι) (x y : List σ) (hi : R i) : TBk T' k i x y = TBk T k i x y := by
  induction k generalizing i x y with
  | zero => rw [TBk_zero_E9, TBk_zero_E9, hstop i hi]
  | succ k ih =>
    rw [TBk_succ_E9, TBk_succ_E9, harcs i hi]
    apply congrArg
    apply List.map_congr_left
    intro e he
    have he' := List.mem_filter.mp he
    have hsrc : e.src = i := by simpa using he'.2
    have hd : R e.dst := hR e he'.1 (hsrc ▸ hi)
    apply congrArg
    apply List.map_congr_left
    intro x' _
    apply congrArg
    apply List.map_congr_left
    intro y' _
    rw [ih e.dst x' y' hd]

/-- **restriction to a closed set of states that carries all the initial weight preserves the accepting weights** -/
theorem restrict_TPk_E9 (T T' : FST ι σ K) (R : ι → Prop)
    (hR : ∀ e ∈ T.arcs, R e.src → R e.dst)
    (harcs : ∀ i, R i → T'.arcs.filter (fun e => e.src = i) = T.arcs.filter (fun e => e.src = i))
    (hstop : ∀ i, R i → wlook T'.stop i = wlook T.stop i)
    (hstartR : ∀ s ∈ T'.start, R s.1)
    (hstart : ∀ i, wlook T'.start i = wlook T.start i)
    (k : Nat) (x y : List σ) : TPk T' k x y = TPk T k x y := by
  rw [TPk_eq_TBk_E9, TPk_eq_TBk_E9]
  have h1 : (T'.start.map fun s => s.2 * TBk T' k s.1 x y) = T'.start.map fun s => s.2 * TBk T k s.1 x y := by
    apply List.map_congr_left
    intro s hs
    rw [restrict_TBk_E9 T T' R hR harcs hstop k s.1 x y (hstartR s hs)]
  rw [h1]
  have hks := nodup_eraseDups (T.start.map (·.1) ++ T'.start.map (·.1))
  rw [sum_eq_sum_wlook T'.start _ hks (fun q hq => by
      rw [List.mem_eraseDups]; exact List.mem_append_right _ (List.mem_map_of_mem hq)) (fun i => TBk T k i x y),
    sum_eq_sum_wlook T.start _ hks (fun q hq => by
      rw [List.mem_eraseDups]; exact List.mem_append_left _ (List.mem_map_of_mem hq)) (fun i => TBk T k i x y)]
  simp only [hstart]

end Restrict

/-! ### the pieces of `_pruned_compose` against the full product `composeRaw` -/
section Prod
variable {ι κ σ K : Type} [DecidableEq ι] [DecidableEq κ] [DecidableEq σ] [DecidableEq K] [CommSemiring K]

/-- the arcs added when `PQ` is popped are exactly (same order) the arcs of the full product leaving `PQ` -/
theorem pcArcsFrom_eq_E9 (T1 : FST ι σ K) (T2 : FST κ σ K) (pq : ι × κ) :
    pcArcsFrom T1 T2 pq = (T1.composeRaw T2).arcs.filter (fun e => e.src = pq) := by
  have harcs : (T1.composeRaw T2).arcs = T1.arcs.flatMap fun e1 =>
      (T2.arcs.filter fun e2 => e1.out.isSome ∧ e2.inp = e1.out).map fun e2 =>
        ⟨(e1.src, e2.src), e1.inp, e2.out, (e1.dst, e2.dst), e1.w * e2.w⟩ := rfl
  rw [harcs, pcArcsFrom]
  induction T1.arcs with
  | nil => rfl
  | cons e1 l ih =>
    rw [List.flatMap_cons, List.filter_append, ← ih]
    by_cases h1 : e1.src = pq.1
    · rw [List.filter_cons_of_pos (by simpa using h1), List.flatMap_cons]
      congr 1
      rw [List.filter_map, List.filter_filter]
      cases hout : e1.out with
      | none => simp
      | some b =>
        simp only [pcIndex]
        apply map_filter_congr_E9
        · intro e2 _
          by_cases h2 : e2.src = pq.2
          · have : (e1.src, pq.2) = pq := Prod.ext h1 rfl
            simp [h2, this]
          · have : ¬ (e1.src, e2.src) = pq := fun h => h2 (congrArg Prod.snd h)
            simp [h2, this]
        · intro e2 _ h
          have h2 : e2.src = pq.2 := by simpa using (by simpa using h : e2.src = pq.2 ∧ e2.inp = some b).1
          have : (e1.src, e2.src) = pq := Prod.ext h1 h2
          rw [this]
    · rw [List.filter_cons_of_neg (by simpa using h1)]
      have : ((T2.arcs.filter fun e2 => e1.out.isSome ∧ e2.inp = e1.out).map fun e2 =>
          (⟨(e1.src, e2.src), e1.inp, e2.out, (e1.dst, e2.dst), e1.w * e2.w⟩ : TArc (ι × κ) σ K)).filter
            (fun e => e.src = pq) = [] := by
        rw [List.filter_eq_nil_iff]
        intro e he
        obtain ⟨e2, _, rfl⟩ := List.mem_map.mp he
        have : ¬ (e1.src, e2.src) = pq := fun h => h1 (congrArg Prod.fst h)
        simpa using this
      rw [this, List.nil_append]

theorem pcArcsFrom_src_E9 (T1 : FST ι σ K) (T2 : FST κ σ K) (pq : ι × κ) :
    ∀ e ∈ pcArcsFrom T1 T2 pq, e.src = pq := by
  intro e he
  rw [pcArcsFrom_eq_E9] at he
  simpa using (List.mem_filter.mp he).2

theorem pcStopFrom_key_E9 (T1 : FST ι σ K) (T2 : FST κ σ K) (pq : ι × κ) :
    ∀ f ∈ pcStopFrom T1 T2 pq, f.1 = pq := by
  intro f hf
  unfold pcStopFrom at hf
  split at hf
  · rw [List.mem_singleton] at hf; rw [hf]
  · simp at hf

/-- accumulated weight of a pair in a product chart -/
theorem wlook_prod_E9 (l1 : List (ι × K)) (l2 : List (κ × K)) (p : ι) (q : κ) :
    wlook (l1.flatMap fun f1 => l2.map fun f2 => ((f1.1, f2.1), f1.2 * f2.2)) (p, q)
      = wlook l1 p * wlook l2 q := by
  rw [wlook_eq_sum_ite, wlook_eq_sum_ite, wlook_eq_sum_ite, sum_flatMap, sum_mul_sum]
  apply congrArg
  apply List.map_congr_left
  intro f1 _
  rw [List.map_map]
  apply congrArg
  apply List.map_congr_left
  intro f2 _
  by_cases hp : f1.1 = p <;> by_cases hq : f2.1 = q <;> simp [hp, hq]

theorem wlook_composeRaw_stop_E9 (T1 : FST ι σ K) (T2 : FST κ σ K) (pq : ι × κ) :
    wlook (T1.composeRaw T2).stop pq = wlook T1.stop pq.1 * wlook T2.stop pq.2 :=
  wlook_prod_E9 T1.stop T2.stop pq.1 pq.2

theorem wlook_composeRaw_start_E9 (T1 : FST ι σ K) (T2 : FST κ σ K) (pq : ι × κ) :
    wlook (T1.composeRaw T2).start pq = wlook T1.start pq.1 * wlook T2.start pq.2 :=
  wlook_prod_E9 T1.start T2.start pq.1 pq.2

/-- the final weight added when `PQ` is popped is the accumulated final weight of `PQ` in the full product -/
theorem wlook_pcStopFrom_E9 (T1 : FST ι σ K) (T2 : FST κ σ K) (pq : ι × κ) :
    wlook (pcStopFrom T1 T2 pq) pq = wlook (T1.composeRaw T2).stop pq := by
  rw [wlook_composeRaw_stop_E9]
  unfold pcStopFrom
  split
  · simp [wlook_cons, wlook_nil]
  · rename_i h
    rw [wlook_nil]
    have h' : ¬ ((∃ f ∈ T1.stop, f.1 = pq.1) ∧ (∃ f ∈ T2.stop, f.1 = pq.2)) := by
      simpa using h
    by_cases h1 : ∃ f ∈ T1.stop, f.1 = pq.1
    · have h2 : ¬ ∃ f ∈ T2.stop, f.1 = pq.2 := fun h2 => h' ⟨h1, h2⟩
      rw [wlook_eq_zero_E9 T2.stop pq.2 (fun f hf hfe => h2 ⟨f, hf, hfe⟩), mul_zero]
    · rw [wlook_eq_zero_E9 T1.stop pq.1 (fun f hf hfe => h1 ⟨f, hf, hfe⟩), zero_mul]

theorem mem_pcSeeds_E9 (T1 : FST ι σ K) (T2 : FST κ σ K) (pq : ι × κ) :
    pq ∈ pcSeeds T1 T2 ↔ wlook T1.start pq.1 ≠ 0 ∧ wlook T2.start pq.2 ≠ 0 := by
  simp only [pcSeeds, List.mem_flatMap, List.mem_map, mem_nzKeys_E9]
  constructor
  · rintro ⟨p, hp, q, hq, rfl⟩; exact ⟨hp, hq⟩
  · rintro ⟨hp, hq⟩; exact ⟨pq.1, hp, pq.2, hq, rfl⟩

theorem pcSeeds_eq_product_E9 (T1 : FST ι σ K) (T2 : FST κ σ K) :
    pcSeeds T1 T2 = List.product (nzKeys T1.start) (nzKeys T2.start) := rfl

theorem nodup_pcSeeds_E9 (T1 : FST ι σ K) (T2 : FST κ σ K) : (pcSeeds T1 T2).Nodup := by
  rw [pcSeeds_eq_product_E9]
  exact List.Nodup.product (nodup_nzKeys_E9 T1.start) (nodup_nzKeys_E9 T2.start)

end Prod

end PcAux
open PcAux

/-! ### reachability in the product machine -/
section Acc
variable {ι κ σ K : Type} [DecidableEq ι] [DecidableEq κ] [DecidableEq σ] [DecidableEq K] [CommSemiring K]

/-- one arc (of any weight) of the full product from `a` to `b` -/
def FST.PairStep (T1 : FST ι σ K) (T2 : FST κ σ K) (a b : ι × κ) : Prop :=
  ∃ e ∈ (T1.composeRaw T2).arcs, e.src = a ∧ e.dst = b

/-- **accessible pairs**: reachable in the full product from a pair of states with non-zero (accumulated) initial
weights (the pairs `self.I × other.I` of the code) -/
def FST.PairAcc (T1 : FST ι σ K) (T2 : FST κ σ K) (pq : ι × κ) : Prop :=
  ∃ s : ι × κ, (wlook T1.start s.1 ≠ 0 ∧ wlook T2.start s.2 ≠ 0) ∧
    Relation.ReflTransGen (T1.PairStep T2) s pq

/-- all pairs of states -/
def pcUniverse (T1 : FST ι σ K) (T2 : FST κ σ K) : List (ι × κ) := List.product T1.states T2.states

theorem pcUniverse_length (T1 : FST ι σ K) (T2 : FST κ σ K) : (pcUniverse T1 T2).length = pcFuel T1 T2 :=
  List.length_product _ _

namespace PcAux

theorem mem_states_of_wlook_E9 (T : FST ι σ K) (i : ι) (h : wlook T.start i ≠ 0) : i ∈ T.states := by
  by_contra hc
  apply h
  apply wlook_eq_zero_E9
  intro q hq hqi
  exact hc (hqi ▸ FstAux.mem_states_start T q hq)

theorem mem_composeRaw_arcs_E9 (T1 : FST ι σ K) (T2 : FST κ σ K) (e : TArc (ι × κ) σ K)
    (he : e ∈ (T1.composeRaw T2).arcs) :
    ∃ e1 ∈ T1.arcs, ∃ e2 ∈ T2.arcs, e.src = (e1.src, e2.src) ∧ e.dst = (e1.dst, e2.dst) := by
  simp only [FST.composeRaw, List.mem_flatMap, List.mem_map, List.mem_filter] at he
  obtain ⟨e1, he1, e2, ⟨he2, _⟩, rfl⟩ := he
  exact ⟨e1, he1, e2, he2, rfl, rfl⟩

theorem pairAcc_mem_universe_E9 (T1 : FST ι σ K) (T2 : FST κ σ K) (pq : ι × κ) (h : T1.PairAcc T2 pq) :
    pq ∈ pcUniverse T1 T2 := by
  obtain ⟨s, ⟨h1, h2⟩, hp⟩ := h
  induction hp with
  | refl =>
    exact List.mem_product.2 ⟨mem_states_of_wlook_E9 T1 _ h1, mem_states_of_wlook_E9 T2 _ h2⟩
  | tail _ hstep _ =>
    obtain ⟨e, he, _, rfl⟩ := hstep
    obtain ⟨e1, he1, e2, he2, _, hd⟩ := mem_composeRaw_arcs_E9 T1 T2 e he
    rw [hd]
    exact List.mem_product.2 ⟨FstAux.mem_states_dst T1 e1 he1, FstAux.mem_states_dst T2 e2 he2⟩

theorem pairAcc_seed_E9 (T1 : FST ι σ K) (T2 : FST κ σ K) (pq : ι × κ) (h : pq ∈ pcSeeds T1 T2) :
    T1.PairAcc T2 pq :=
  ⟨pq, (mem_pcSeeds_E9 T1 T2 pq).1 h, Relation.ReflTransGen.refl⟩

theorem pairAcc_step_E9 (T1 : FST ι σ K) (T2 : FST κ σ K) (pq : ι × κ) (h : T1.PairAcc T2 pq)
    (e : TArc (ι × κ) σ K) (he : e ∈ pcArcsFrom T1 T2 pq) : T1.PairAcc T2 e.dst := by
  obtain ⟨s, hs, hp⟩ := h
  rw [pcArcsFrom_eq_E9] at he
  have he' := List.mem_filter.mp he
  exact ⟨s, hs, hp.tail ⟨e, he'.1, by simpa using he'.2, rfl⟩⟩

/-- the state of the `while` loop: `done` = the pairs popped so far, in the order of popping -/
structure PcInv (T1 : FST ι σ K) (T2 : FST κ σ K) (work vis : List (ι × κ)) (C : FST (ι × κ) σ K)
    (done : List (ι × κ)) : Prop where
  start : C.start = pcStart T1 T2
  arcs : C.arcs = done.flatMap (pcArcsFrom T1 T2)
  stop : C.stop = done.flatMap (pcStopFrom T1 T2)
  nodup : (done ++ work).Nodup
  visnd : vis.Nodup
  vis_iff : ∀ pq, pq ∈ vis ↔ pq ∈ done ∨ pq ∈ work
  acc : ∀ pq ∈ vis, T1.PairAcc T2 pq
  seeds : ∀ pq ∈ pcSeeds T1 T2, pq ∈ vis
  closed : ∀ pq ∈ done, ∀ e ∈ pcArcsFrom T1 T2 pq, e.dst ∈ vis
  ok : ∀ pq ∈ done, pcAssertOK T1 T2 pq = true

theorem pcInv_init_E9 (T1 : FST ι σ K) (T2 : FST κ σ K) :
    PcInv T1 T2 (pcSeeds T1 T2).reverse (pcSeeds T1 T2) ⟨pcStart T1 T2, [], []⟩ [] where
  start := rfl
  arcs := rfl
  stop := rfl
  nodup := by simpa using nodup_pcSeeds_E9 T1 T2
  visnd := nodup_pcSeeds_E9 T1 T2
  vis_iff := by simp
  acc := fun pq h => pairAcc_seed_E9 T1 T2 pq h
  seeds := fun _ h => h
  closed := by simp
  ok := by simp

theorem pcInv_step_E9 (T1 : FST ι σ K) (T2 : FST κ σ K) (work vis : List (ι × κ)) (C : FST (ι × κ) σ K)
    (done : List (ι × κ)) (h : PcInv T1 T2 work vis C done) (pq : ι × κ) (rest : List (ι × κ))
    (hp : (pq :: rest).Perm work) (hok : pcAssertOK T1 T2 pq = true) :
    PcInv T1 T2 (pcPush vis rest ((pcArcsFrom T1 T2 pq).map (·.dst))).1
        (pcPush vis rest ((pcArcsFrom T1 T2 pq).map (·.dst))).2
        ⟨C.start, C.stop ++ pcStopFrom T1 T2 pq, C.arcs ++ pcArcsFrom T1 T2 pq⟩ (done ++ [pq]) ∧
      (pcPush vis rest ((pcArcsFrom T1 T2 pq).map (·.dst))).1.length
          + ((pcUniverse T1 T2).length - (pcPush vis rest ((pcArcsFrom T1 T2 pq).map (·.dst))).2.length) + 1
        = work.length + ((pcUniverse T1 T2).length - vis.length) := by
  obtain ⟨nw, h1, h2, hnw, hnew, hcov⟩ := pcPush_spec_E9 ((pcArcsFrom T1 T2 pq).map (·.dst)) vis rest
  rw [h1, h2]
  have hmem : ∀ a, a ∈ work ↔ a = pq ∨ a ∈ rest := fun a => by rw [← hp.mem_iff, List.mem_cons]
  have hpqvis : pq ∈ vis := (h.vis_iff pq).2 (Or.inr ((hmem pq).2 (Or.inl rfl)))
  have hnd0 : (done ++ pq :: rest).Nodup := (List.Perm.append_left done hp).nodup_iff.2 h.nodup
  have hinv : PcInv T1 T2 (nw ++ rest) (nw ++ vis)
      ⟨C.start, C.stop ++ pcStopFrom T1 T2 pq, C.arcs ++ pcArcsFrom T1 T2 pq⟩ (done ++ [pq]) := by
    refine ⟨h.start, ?_, ?_, ?_, ?_, ?_, ?_, ?_, ?_, ?_⟩
    · show C.arcs ++ pcArcsFrom T1 T2 pq = _
      rw [List.flatMap_append, h.arcs]; simp
    · show C.stop ++ pcStopFrom T1 T2 pq = _
      rw [List.flatMap_append, h.stop]; simp
    · have hperm : ((done ++ [pq]) ++ (nw ++ rest)).Perm (nw ++ (done ++ pq :: rest)) := by
        have e1 : (done ++ [pq]) ++ (nw ++ rest) = done ++ (pq :: (nw ++ rest)) := by simp
        have e2 : nw ++ (done ++ pq :: rest) = (nw ++ done) ++ pq :: rest := by simp
        rw [e1, e2]
        have p1 : (done ++ (pq :: (nw ++ rest))).Perm (done ++ (nw ++ pq :: rest)) :=
          List.Perm.append_left done List.perm_middle.symm
        have p2 : (done ++ (nw ++ pq :: rest)).Perm ((nw ++ done) ++ pq :: rest) := by
          rw [← List.append_assoc]
          exact List.Perm.append_right _ List.perm_append_comm
        exact p1.trans p2
      rw [hperm.nodup_iff, List.nodup_append]
      refine ⟨hnw, hnd0, ?_⟩
      intro a ha b hb hab
      subst hab
      apply (hnew a ha).1
      rw [h.vis_iff, hmem]
      simpa [List.mem_append, List.mem_cons] using hb
    · rw [List.nodup_append]
      exact ⟨hnw, h.visnd, fun a ha b hb hab => (hnew a ha).1 (hab ▸ hb)⟩
    · intro a
      have := h.vis_iff a
      have := hmem a
      simp only [List.mem_append, List.mem_cons, List.not_mem_nil, or_false]
      tauto
    · intro a ha
      rcases List.mem_append.1 ha with ha | ha
      · obtain ⟨e, he, rfl⟩ := List.mem_map.1 (hnew a ha).2
        exact pairAcc_step_E9 T1 T2 pq (h.acc pq hpqvis) e he
      · exact h.acc a ha
    · intro a ha
      exact List.mem_append_right _ (h.seeds a ha)
    · intro a ha e he
      rcases List.mem_append.1 ha with ha | ha
      · exact List.mem_append_right _ (h.closed a ha e he)
      · rw [List.mem_singleton] at ha
        subst ha
        rcases hcov e.dst (List.mem_map_of_mem he) with hv | hv
        · exact List.mem_append_right _ hv
        · exact List.mem_append_left _ hv
    · intro a ha
      rcases List.mem_append.1 ha with ha | ha
      · exact h.ok a ha
      · rw [List.mem_singleton] at ha
        subst ha
        exact hok
  refine ⟨hinv, ?_⟩
  have hle : (nw ++ vis).length ≤ (pcUniverse T1 T2).length :=
    List.Nodup.length_le_of_subset hinv.visnd (fun a ha => pairAcc_mem_universe_E9 T1 T2 a (hinv.acc a ha))
  have hlw : work.length = rest.length + 1 := by rw [← hp.length_eq]; simp
  simp only [List.length_append] at hle ⊢
  omega

/-- the `while` loop: partial correctness, the assertion, and termination -/
theorem pcLoop_spec_E9 (ord : List (ι × κ) → List (ι × κ)) (hord : ∀ l, (ord l).Perm l)
    (T1 : FST ι σ K) (T2 : FST κ σ K) :
    ∀ (f : Nat) (work vis : List (ι × κ)) (C : FST (ι × κ) σ K) (done : List (ι × κ)),
      PcInv T1 T2 work vis C done →
      (∀ C', pcLoop ord T1 T2 f work vis C = some (some C') →
        ∃ vis' done', PcInv T1 T2 [] vis' C' done') ∧
      (pcLoop ord T1 T2 f work vis C = some none →
        ∃ pq, T1.PairAcc T2 pq ∧ pcAssertOK T1 T2 pq = false) ∧
      (work.length + ((pcUniverse T1 T2).length - vis.length) ≤ f →
        pcLoop ord T1 T2 f work vis C ≠ none) := by
  intro f
  induction f with
  | zero =>
    intro work vis C done h
    cases hw : ord work with
    | nil =>
      have hwork : work = [] := by
        have := hord work; rw [hw] at this; exact List.nil_perm.1 this
      subst hwork
      simp only [pcLoop, hw]
      refine ⟨?_, by simp, by simp⟩
      intro C' hC'
      have : C = C' := by simpa using hC'
      subst this
      exact ⟨vis, done, h⟩
    | cons pq rest =>
      have hp : (pq :: rest).Perm work := hw ▸ hord work
      have hlw : work.length = rest.length + 1 := by rw [← hp.length_eq]; simp
      simp only [pcLoop, hw]
      refine ⟨by simp, by simp, ?_⟩
      intro hle; omega
  | succ f ih =>
    intro work vis C done h
    cases hw : ord work with
    | nil =>
      have hwork : work = [] := by
        have := hord work; rw [hw] at this; exact List.nil_perm.1 this
      subst hwork
      simp only [pcLoop, hw]
      refine ⟨?_, by simp, by simp⟩
      intro C' hC'
      have : C = C' := by simpa using hC'
      subst this
      exact ⟨vis, done, h⟩
    | cons pq rest =>
      have hp : (pq :: rest).Perm work := hw ▸ hord work
      have hpqvis : pq ∈ vis := (h.vis_iff pq).2 (Or.inr (hp.mem_iff.1 List.mem_cons_self))
      simp only [pcLoop, hw]
      by_cases hok : pcAssertOK T1 T2 pq = true
      · rw [if_pos hok]
        obtain ⟨hinv, hlen⟩ := pcInv_step_E9 T1 T2 work vis C done h pq rest hp hok
        obtain ⟨i1, i2, i3⟩ := ih _ _ _ _ hinv
        refine ⟨i1, i2, ?_⟩
        intro hle
        apply i3
        omega
      · rw [if_neg hok]
        refine ⟨by simp, ?_, by simp⟩
        intro _
        exact ⟨pq, h.acc pq hpqvis, by simpa using hok⟩

/-- grouping a filtered list by a duplicate-free list of keys is a permutation of it -/
theorem flatMap_filter_key_perm_E9 {α β : Type} [DecidableEq α] (key : β → α) (l : List β) (ks : List α)
    (hks : ks.Nodup) :
    (ks.flatMap fun k => l.filter fun e => key e = k).Perm (l.filter fun e => key e ∈ ks) := by
  induction ks with
  | nil => simp
  | cons k ks ih =>
    rw [List.nodup_cons] at hks
    rw [List.flatMap_cons]
    have h1 : l.filter (fun e => key e = k)
        = (l.filter fun e => key e ∈ k :: ks).filter (fun e => key e = k) := by
      rw [List.filter_filter]
      apply List.filter_congr
      intro e _
      by_cases h : key e = k <;> simp [h]
    have h2 : l.filter (fun e => key e ∈ ks)
        = (l.filter fun e => key e ∈ k :: ks).filter (fun e => !decide (key e = k)) := by
      rw [List.filter_filter]
      apply List.filter_congr
      intro e _
      by_cases h : key e = k
      · simp [h, hks.1]
      · simp [h]
    refine (List.Perm.append_left _ (ih hks.2)).trans ?_
    rw [h1, h2]
    exact List.filter_append_perm _ _

theorem flatMap_filter_key_perm'_E9 {α β : Type} [DecidableEq α] (key : β → α) (l : List β) (ks : List α)
    (hks : ks.Nodup) (p : β → Bool) (hp : ∀ e, p e = true ↔ key e ∈ ks) :
    (ks.flatMap fun k => l.filter fun e => key e = k).Perm (l.filter p) := by
  have : l.filter p = l.filter fun e => key e ∈ ks := by
    apply List.filter_congr
    intro e _
    rw [Bool.eq_iff_iff, hp e]
    simp
  rw [this]
  exact flatMap_filter_key_perm_E9 key l ks hks

theorem wlook_map_nodup_E9 {ι : Type} [DecidableEq ι] (ks : List ι) (hks : ks.Nodup) (β : ι → K) (i : ι) :
    wlook (ks.map fun j => (j, β j)) i = if i ∈ ks then β i else 0 := by
  rw [wlook_eq_sum_ite, List.map_map]
  have : ((fun p : ι × K => if p.1 = i then p.2 else 0) ∘ fun j => (j, β j))
      = fun j => if i = j then β j else 0 := by
    funext j
    by_cases hij : j = i
    · subst hij; simp
    · have : ¬ i = j := fun h => hij h.symm
      simp [hij, this]
  rw [this, sum_ite_eq_nodup ks hks i β]

end PcAux
end Acc

/-! ### the theorems -/
section Main
variable {ι κ σ K : Type} [DecidableEq ι] [DecidableEq κ] [DecidableEq σ] [DecidableEq K] [CommSemiring K]

/-- **structure of the result**: the machine returned by `_pruned_compose` is put together from the pieces of the
accessible pairs, each processed exactly once (`done` = the pairs in the order of popping), whatever the worklist
discipline `ord` -/
theorem prunedCompose_done (ord : List (ι × κ) → List (ι × κ)) (hord : ∀ l, (ord l).Perm l)
    (T1 : FST ι σ K) (T2 : FST κ σ K) (fuel : Nat) (C : FST (ι × κ) σ K)
    (h : T1.prunedComposeWith ord T2 fuel = some (some C)) :
    ∃ done : List (ι × κ), done.Nodup ∧ (∀ pq, pq ∈ done ↔ T1.PairAcc T2 pq) ∧
      C.start = pcStart T1 T2 ∧ C.arcs = done.flatMap (pcArcsFrom T1 T2) ∧
      C.stop = done.flatMap (pcStopFrom T1 T2) ∧ ∀ pq ∈ done, pcAssertOK T1 T2 pq = true := by
  obtain ⟨vis', done', hinv⟩ :=
    (pcLoop_spec_E9 ord hord T1 T2 fuel _ _ _ _ (pcInv_init_E9 T1 T2)).1 C h
  have hvis : ∀ pq, pq ∈ vis' ↔ pq ∈ done' := fun pq => by simpa using hinv.vis_iff pq
  refine ⟨done', by simpa using hinv.nodup, ?_, hinv.start, hinv.arcs, hinv.stop, hinv.ok⟩
  intro pq
  constructor
  · intro hpq; exact hinv.acc pq ((hvis pq).2 hpq)
  · rintro ⟨s, hs, hp⟩
    induction hp with
    | refl => exact (hvis s).1 (hinv.seeds s ((mem_pcSeeds_E9 T1 T2 s).2 hs))
    | tail _ hstep ih =>
      obtain ⟨e, he, rfl, rfl⟩ := hstep
      have he' : e ∈ pcArcsFrom T1 T2 e.src := by
        rw [pcArcsFrom_eq_E9]; exact List.mem_filter.2 ⟨he, by simp⟩
      exact (hvis _).1 (hinv.closed e.src ih e he')

/-- **termination**: `|states T1| · |states T2|` pops always suffice -/
theorem prunedCompose_terminates (ord : List (ι × κ) → List (ι × κ)) (hord : ∀ l, (ord l).Perm l)
    (T1 : FST ι σ K) (T2 : FST κ σ K) (fuel : Nat) (hf : pcFuel T1 T2 ≤ fuel) :
    T1.prunedComposeWith ord T2 fuel ≠ none := by
  apply (pcLoop_spec_E9 ord hord T1 T2 fuel _ _ _ _ (pcInv_init_E9 T1 T2)).2.2
  have hle : (pcSeeds T1 T2).length ≤ (pcUniverse T1 T2).length :=
    List.Nodup.length_le_of_subset (nodup_pcSeeds_E9 T1 T2)
      (fun a ha => pairAcc_mem_universe_E9 T1 T2 a (pairAcc_seed_E9 T1 T2 a ha))
  rw [List.length_reverse, ← pcUniverse_length] at *
  omega

/-- **the assertion `assert b != EPSILON` fails iff some ACCESSIBLE pair `(P, Q)` has an arc leaving `P` that writes ε
while some arc leaving `Q` reads ε** (inaccessible pairs are never looked at) -/
theorem prunedCompose_assert (ord : List (ι × κ) → List (ι × κ)) (hord : ∀ l, (ord l).Perm l)
    (T1 : FST ι σ K) (T2 : FST κ σ K) (fuel : Nat) (hf : pcFuel T1 T2 ≤ fuel) :
    T1.prunedComposeWith ord T2 fuel = some none ↔
      ∃ pq, T1.PairAcc T2 pq ∧ pcAssertOK T1 T2 pq = false := by
  constructor
  · exact (pcLoop_spec_E9 ord hord T1 T2 fuel _ _ _ _ (pcInv_init_E9 T1 T2)).2.1
  · rintro ⟨pq, hacc, hbad⟩
    have hne := prunedCompose_terminates ord hord T1 T2 fuel hf
    match hr : T1.prunedComposeWith ord T2 fuel with
    | none => exact absurd hr hne
    | some none => rfl
    | some (some C) =>
      obtain ⟨done, _, hd, _, _, _, hok⟩ := prunedCompose_done ord hord T1 T2 fuel C hr
      have := hok pq ((hd pq).2 hacc)
      rw [hbad] at this
      exact absurd this (by simp)

/-- the assertion cannot fail when the left operand never writes ε … -/
theorem pcAssertOK_of_left (T1 : FST ι σ K) (T2 : FST κ σ K) (h1 : ∀ e ∈ T1.arcs, e.out ≠ none)
    (pq : ι × κ) : pcAssertOK T1 T2 pq = true := by
  unfold pcAssertOK
  have : (T1.arcs.filter fun e1 => e1.src = pq.1 ∧ e1.out = none) = [] := by
    rw [List.filter_eq_nil_iff]
    intro e he
    simp [h1 e he]
  rw [this]
  rfl

/-- … or the right operand never reads ε -/
theorem pcAssertOK_of_right (T1 : FST ι σ K) (T2 : FST κ σ K) (h2 : ∀ e ∈ T2.arcs, e.inp ≠ none)
    (pq : ι × κ) : pcAssertOK T1 T2 pq = true := by
  unfold pcAssertOK pcIndex
  have : (T2.arcs.filter fun e2 => e2.src = pq.2 ∧ e2.inp = none) = [] := by
    rw [List.filter_eq_nil_iff]
    intro e he
    simp [h2 e he]
  rw [this, Bool.or_eq_true]
  exact Or.inr rfl

/-- **arcs**: the arcs leaving an accessible pair are exactly (same order) those of the full product, and no arc leaves
any other pair -/
theorem prunedCompose_arcs_src (ord : List (ι × κ) → List (ι × κ)) (hord : ∀ l, (ord l).Perm l)
    (T1 : FST ι σ K) (T2 : FST κ σ K) (fuel : Nat) (C : FST (ι × κ) σ K)
    (h : T1.prunedComposeWith ord T2 fuel = some (some C)) (pq : ι × κ) :
    (T1.PairAcc T2 pq → C.arcs.filter (fun e => e.src = pq)
        = (T1.composeRaw T2).arcs.filter (fun e => e.src = pq)) ∧
      (¬ T1.PairAcc T2 pq → C.arcs.filter (fun e => e.src = pq) = []) := by
  obtain ⟨done, hnd, hd, _, harcs, _, _⟩ := prunedCompose_done ord hord T1 T2 fuel C h
  have := filter_key_flatMap_E9 (fun e : TArc (ι × κ) σ K => e.src) done hnd (pcArcsFrom T1 T2)
    (pcArcsFrom_src_E9 T1 T2) pq
  rw [← harcs] at this
  constructor
  · intro hacc
    rw [this, if_pos ((hd pq).2 hacc), pcArcsFrom_eq_E9]
  · intro hacc
    rw [this, if_neg (fun hm => hacc ((hd pq).1 hm))]

/-- **arcs, globally**: up to the order, the arcs are those of the full product whose source is accessible -/
theorem prunedCompose_arcs_perm (ord : List (ι × κ) → List (ι × κ)) (hord : ∀ l, (ord l).Perm l)
    (T1 : FST ι σ K) (T2 : FST κ σ K) (fuel : Nat) (C : FST (ι × κ) σ K)
    (h : T1.prunedComposeWith ord T2 fuel = some (some C)) :
    ∃ done : List (ι × κ), done.Nodup ∧ (∀ pq, pq ∈ done ↔ T1.PairAcc T2 pq) ∧
      C.arcs.Perm ((T1.composeRaw T2).arcs.filter fun e => e.src ∈ done) := by
  obtain ⟨done, hnd, hd, _, harcs, _, _⟩ := prunedCompose_done ord hord T1 T2 fuel C h
  refine ⟨done, hnd, hd, ?_⟩
  rw [harcs]
  have : (done.flatMap (pcArcsFrom T1 T2))
      = done.flatMap fun k => (T1.composeRaw T2).arcs.filter fun e => e.src = k := by
    apply List.flatMap_congr
    intro pq _
    exact pcArcsFrom_eq_E9 T1 T2 pq
  rw [this]
  exact flatMap_filter_key_perm'_E9 (fun e : TArc (ι × κ) σ K => e.src) _ done hnd _ (fun e => by simp)

/-- **initial weights**: the accumulated initial weight of EVERY pair is that of the full product (the pairs that are not
initial pairs of the code have accumulated weight zero in the full product) -/
theorem prunedCompose_start (ord : List (ι × κ) → List (ι × κ)) (hord : ∀ l, (ord l).Perm l)
    (T1 : FST ι σ K) (T2 : FST κ σ K) (fuel : Nat) (C : FST (ι × κ) σ K)
    (h : T1.prunedComposeWith ord T2 fuel = some (some C)) (pq : ι × κ) :
    wlook C.start pq = wlook (T1.composeRaw T2).start pq ∧ ∀ s ∈ C.start, T1.PairAcc T2 s.1 := by
  obtain ⟨done, _, _, hstart, _, _, _⟩ := prunedCompose_done ord hord T1 T2 fuel C h
  rw [hstart]
  constructor
  · rw [wlook_composeRaw_start_E9, pcStart,
      wlook_map_nodup_E9 (pcSeeds T1 T2) (nodup_pcSeeds_E9 T1 T2)
        (fun pq => wlook T1.start pq.1 * wlook T2.start pq.2) pq]
    by_cases hs : pq ∈ pcSeeds T1 T2
    · rw [if_pos hs]
    · rw [if_neg hs]
      rw [mem_pcSeeds_E9] at hs
      by_cases h1 : wlook T1.start pq.1 = 0
      · rw [h1, zero_mul]
      · have h2 : wlook T2.start pq.2 = 0 := by
          by_contra h2; exact hs ⟨h1, h2⟩
        rw [h2, mul_zero]
  · intro s hs
    obtain ⟨pq', hpq', rfl⟩ := List.mem_map.1 hs
    exact pairAcc_seed_E9 T1 T2 pq' hpq'

/-- **final weights**: the accumulated final weight of an accessible pair is that of the full product; the other pairs
have no final entry -/
theorem prunedCompose_stop (ord : List (ι × κ) → List (ι × κ)) (hord : ∀ l, (ord l).Perm l)
    (T1 : FST ι σ K) (T2 : FST κ σ K) (fuel : Nat) (C : FST (ι × κ) σ K)
    (h : T1.prunedComposeWith ord T2 fuel = some (some C)) (pq : ι × κ) :
    (T1.PairAcc T2 pq → wlook C.stop pq = wlook (T1.composeRaw T2).stop pq) ∧
      (¬ T1.PairAcc T2 pq → C.stop.filter (fun f => f.1 = pq) = []) := by
  obtain ⟨done, hnd, hd, _, _, hstop, _⟩ := prunedCompose_done ord hord T1 T2 fuel C h
  have := filter_key_flatMap_E9 (fun f : (ι × κ) × K => f.1) done hnd (pcStopFrom T1 T2)
    (pcStopFrom_key_E9 T1 T2) pq
  rw [← hstop] at this
  constructor
  · intro hacc
    rw [← wlook_pcStopFrom_E9]
    unfold wlook
    rw [this, if_pos ((hd pq).2 hacc)]
    have hself : (pcStopFrom T1 T2 pq).filter (fun f => f.1 = pq) = pcStopFrom T1 T2 pq := by
      rw [List.filter_eq_self]
      intro f hf
      simp [pcStopFrom_key_E9 T1 T2 pq f hf]
    rw [hself]
  · intro hacc
    rw [this, if_neg (fun hm => hacc ((hd pq).1 hm))]

/-- the accessible pairs are closed under the arcs of the full product -/
theorem pairAcc_closed (T1 : FST ι σ K) (T2 : FST κ σ K) (e : TArc (ι × κ) σ K)
    (he : e ∈ (T1.composeRaw T2).arcs) (h : T1.PairAcc T2 e.src) : T1.PairAcc T2 e.dst := by
  obtain ⟨s, hs, hp⟩ := h
  exact ⟨s, hs, hp.tail ⟨e, he, rfl, rfl⟩⟩

/-- **path weights**: from an accessible pair, the pruned machine and the full product have the same path weights (to any
target) -/
theorem prunedCompose_Tk (ord : List (ι × κ) → List (ι × κ)) (hord : ∀ l, (ord l).Perm l)
    (T1 : FST ι σ K) (T2 : FST κ σ K) (fuel : Nat) (C : FST (ι × κ) σ K)
    (h : T1.prunedComposeWith ord T2 fuel = some (some C)) (k : Nat) (pq : ι × κ) (x y : List σ) (pq' : ι × κ)
    (hacc : T1.PairAcc T2 pq) : Tk C k pq x y pq' = Tk (T1.composeRaw T2) k pq x y pq' :=
  restrict_Tk_E9 (T1.composeRaw T2) C (T1.PairAcc T2) (pairAcc_closed T1 T2)
    (fun i hi => (prunedCompose_arcs_src ord hord T1 T2 fuel C h i).1 hi) k pq x y pq' hacc

/-- **C10: on-the-fly composition computes the same weighted relation as the full product**, path length by path
length, for every pair of strings (any commutative semiring, ε anywhere, any worklist discipline): the state pairs
that are never reached carry no accepting path -/
theorem prunedCompose_TPk (ord : List (ι × κ) → List (ι × κ)) (hord : ∀ l, (ord l).Perm l)
    (T1 : FST ι σ K) (T2 : FST κ σ K) (fuel : Nat) (C : FST (ι × κ) σ K)
    (h : T1.prunedComposeWith ord T2 fuel = some (some C)) (k : Nat) (x y : List σ) :
    TPk C k x y = TPk (T1.composeRaw T2) k x y :=
  restrict_TPk_E9 (T1.composeRaw T2) C (T1.PairAcc T2) (pairAcc_closed T1 T2)
    (fun i hi => (prunedCompose_arcs_src ord hord T1 T2 fuel C h i).1 hi)
    (fun i hi => (prunedCompose_stop ord hord T1 T2 fuel C h i).1 hi)
    (fun s hs => (prunedCompose_start ord hord T1 T2 fuel C h s.1).2 s hs)
    (fun i => (prunedCompose_start ord hord T1 T2 fuel C h i).1) k x y

theorem prunedCompose_TPN (ord : List (ι × κ) → List (ι × κ)) (hord : ∀ l, (ord l).Perm l)
    (T1 : FST ι σ K) (T2 : FST κ σ K) (fuel : Nat) (C : FST (ι × κ) σ K)
    (h : T1.prunedComposeWith ord T2 fuel = some (some C)) (n : Nat) (x y : List σ) :
    TPN C n x y = TPN (T1.composeRaw T2) n x y := by
  simp only [TPN_eq, prunedCompose_TPk ord hord T1 T2 fuel C h]

/-- soundness of the `AssertionError` outcome (no fuel hypothesis) -/
theorem prunedCompose_assert_sound (ord : List (ι × κ) → List (ι × κ)) (hord : ∀ l, (ord l).Perm l)
    (T1 : FST ι σ K) (T2 : FST κ σ K) (fuel : Nat) (h : T1.prunedComposeWith ord T2 fuel = some none) :
    ∃ pq, T1.PairAcc T2 pq ∧ pcAssertOK T1 T2 pq = false :=
  (pcLoop_spec_E9 ord hord T1 T2 fuel _ _ _ _ (pcInv_init_E9 T1 T2)).2.1 h

/-- every arc of the pruned machine is an arc of the full product, and every state is an accessible pair -/
theorem prunedCompose_sub (ord : List (ι × κ) → List (ι × κ)) (hord : ∀ l, (ord l).Perm l)
    (T1 : FST ι σ K) (T2 : FST κ σ K) (fuel : Nat) (C : FST (ι × κ) σ K)
    (h : T1.prunedComposeWith ord T2 fuel = some (some C)) :
    (∀ e ∈ C.arcs, e ∈ (T1.composeRaw T2).arcs) ∧ ∀ i ∈ C.states, T1.PairAcc T2 i := by
  obtain ⟨done, _, hd, hstart, harcs, hstop, _⟩ := prunedCompose_done ord hord T1 T2 fuel C h
  have hA : ∀ e ∈ C.arcs, e ∈ (T1.composeRaw T2).arcs ∧ T1.PairAcc T2 e.src ∧ T1.PairAcc T2 e.dst := by
    intro e he
    rw [harcs, List.mem_flatMap] at he
    obtain ⟨pq, hpq, he⟩ := he
    have hacc := (hd pq).1 hpq
    have hsrc := pcArcsFrom_src_E9 T1 T2 pq e he
    refine ⟨?_, hsrc ▸ hacc, pairAcc_step_E9 T1 T2 pq hacc e he⟩
    rw [pcArcsFrom_eq_E9] at he
    exact (List.mem_filter.1 he).1
  refine ⟨fun e he => (hA e he).1, ?_⟩
  intro i hi
  simp only [FST.states, List.mem_eraseDups, List.mem_append, List.mem_map, List.mem_flatMap,
    List.mem_cons, List.not_mem_nil, or_false] at hi
  rcases hi with (⟨s, hs, rfl⟩ | ⟨f, hf, rfl⟩) | ⟨e, he, rfl | rfl⟩
  · exact (prunedCompose_start ord hord T1 T2 fuel C h s.1).2 s hs
  · rw [hstop, List.mem_flatMap] at hf
    obtain ⟨pq, hpq, hf⟩ := hf
    rw [pcStopFrom_key_E9 T1 T2 pq f hf]
    exact (hd pq).1 hpq
  · exact (hA e he).2.1
  · exact (hA e he).2.2

/-- summary: with fuel `≥ |states T1| · |states T2|`, and if no accessible pair trips the assertion, `_pruned_compose`
returns a machine, and that machine has the accepting weights of the full product -/
theorem prunedCompose_spec (ord : List (ι × κ) → List (ι × κ)) (hord : ∀ l, (ord l).Perm l)
    (T1 : FST ι σ K) (T2 : FST κ σ K) (fuel : Nat) (hf : pcFuel T1 T2 ≤ fuel)
    (hok : ∀ pq, T1.PairAcc T2 pq → pcAssertOK T1 T2 pq = true) :
    ∃ C, T1.prunedComposeWith ord T2 fuel = some (some C) ∧
      ∀ k x y, TPk C k x y = TPk (T1.composeRaw T2) k x y := by
  have hne := prunedCompose_terminates ord hord T1 T2 fuel hf
  match hr : T1.prunedComposeWith ord T2 fuel with
  | none => exact absurd hr hne
  | some none =>
    obtain ⟨pq, hacc, hbad⟩ := prunedCompose_assert_sound ord hord T1 T2 fuel hr
    rw [hok pq hacc] at hbad
    exact absurd hbad (by simp)
  | some (some C) => exact ⟨C, rfl, prunedCompose_TPk ord hord T1 T2 fuel C hr⟩

end Main

/-! ### `__matmul__` as the code runs it (both products built on the fly) -/
section Matmul
variable {ι κ σ K : Type} [DecidableEq ι] [DecidableEq κ] [DecidableEq σ] [DecidableEq K] [CommSemiring K]

namespace PcAux

theorem pcBind_some_some_E9 {β γ : Type} (r : Option (Option β)) (g : β → Option (Option γ)) (c : γ)
    (h : pcBind r g = some (some c)) : ∃ b, r = some (some b) ∧ g b = some (some c) := by
  match r, h with
  | some (some b), h => exact ⟨b, rfl, h⟩

theorem pcBind_some_none_E9 {β γ : Type} (r : Option (Option β)) (g : β → Option (Option γ))
    (h : pcBind r g = some none) : r = some none ∨ ∃ b, r = some (some b) ∧ g b = some none := by
  match r, h with
  | some none, _ => exact Or.inl rfl
  | some (some b), h => exact Or.inr ⟨b, rfl, h⟩

theorem pcBind_none_E9 {β γ : Type} (r : Option (Option β)) (g : β → Option (Option γ))
    (h : pcBind r g = none) : r = none ∨ ∃ b, r = some (some b) ∧ g b = none := by
  match r, h with
  | none, _ => exact Or.inl rfl
  | some (some b), h => exact Or.inr ⟨b, rfl, h⟩

omit [DecidableEq κ] [DecidableEq K] in
theorem augment_false_out_E9 (T : FST ι σ K) : ∀ e ∈ (T.augment false).arcs, e.out ≠ none := by
  intro e he
  simp only [FST.augment, List.mem_flatMap, List.mem_cons, List.mem_map, List.mem_filter] at he
  obtain ⟨i, _, rfl | ⟨e0, _, rfl⟩⟩ := he
  · simp [augLoop]
  · simp only [augArc]
    cases e0.out <;> simp

omit [DecidableEq κ] [DecidableEq K] in
theorem augment_true_inp_E9 (T : FST ι σ K) : ∀ e ∈ (T.augment true).arcs, e.inp ≠ none := by
  intro e he
  simp only [FST.augment, List.mem_flatMap, List.mem_cons, List.mem_map, List.mem_filter] at he
  obtain ⟨i, _, rfl | ⟨e0, _, rfl⟩⟩ := he
  · simp [augLoop]
  · simp only [augArc]
    cases e0.inp <;> simp

theorem perm_id_E9 {α : Type} : ∀ l : List α, (id l).Perm l := fun _ => List.Perm.refl _

end PcAux

/-- **`__matmul__` with on-the-fly products never hits the assertion** (first branch) -/
theorem composePruned_ne_assert (T1 : FST ι σ K) (T2 : FST κ σ K) (fuel : Nat) :
    T1.composePruned T2 fuel ≠ some none := by
  intro h
  unfold FST.composePruned at h
  rcases pcBind_some_none_E9 _ _ h with h1 | ⟨C1, _, h'⟩
  · obtain ⟨pq, _, hbad⟩ := prunedCompose_assert_sound id perm_id_E9 _ _ fuel h1
    rw [pcAssertOK_of_left _ _ (augment_false_out_E9 T1) pq] at hbad
    exact absurd hbad (by simp)
  · rcases pcBind_some_none_E9 _ _ h' with h2 | ⟨C2, _, h''⟩
    · obtain ⟨pq, _, hbad⟩ := prunedCompose_assert_sound id perm_id_E9 _ _ fuel h2
      rw [pcAssertOK_of_right _ _ (augment_true_inp_E9 T2) pq] at hbad
      exact absurd hbad (by simp)
    · simp at h''

/-- **C10 for the code path**: the machine that `T1 @ T2` builds (augmentation, ε filter, two ON-THE-FLY products)
has, path length by path length, the accepting weights of the verified model `FST.compose` (two full products) — so
`compose_graded_TPk`, `compose_GPN_total`, `compose_epsfree_TPN` … speak about the machine the code returns -/
theorem composePruned_TPk (T1 : FST ι σ K) (T2 : FST κ σ K) (fuel : Nat) (C : FST ((ι × Nat) × κ) σ K)
    (h : T1.composePruned T2 fuel = some (some C)) (k : Nat) (x z : List σ) :
    TPk C k x z = TPk (T1.compose T2) k x z := by
  unfold FST.composePruned at h
  obtain ⟨C1, h1, h'⟩ := pcBind_some_some_E9 _ _ _ h
  obtain ⟨C2, h2, h3⟩ := pcBind_some_some_E9 _ _ _ h'
  have hC : C = C2.unlift := by simpa using h3.symm
  subst hC
  unfold FST.compose FST.composeL
  rw [unlift_TPk, unlift_TPk, prunedCompose_TPk id perm_id_E9 C1 _ fuel C2 h2]
  have hsub := (prunedCompose_sub id perm_id_E9 _ _ fuel C1 h1).1
  rw [composeRaw_TPk C1 _ ((T1.augment false).composeRaw (epsilonFilter T1.outLabels)).outSyms
      (nodup_eraseDups _) (fun e he b hb => out_mem_outSyms _ e (hsub e he) b hb),
    composeRaw_TPk _ _ ((T1.augment false).composeRaw (epsilonFilter T1.outLabels)).outSyms
      (nodup_eraseDups _) (fun e he b hb => out_mem_outSyms _ e he b hb)]
  apply congrArg
  apply List.map_congr_left
  intro y _
  rw [prunedCompose_TPk id perm_id_E9 _ _ fuel C1 h1]

theorem composePruned_TPN (T1 : FST ι σ K) (T2 : FST κ σ K) (fuel : Nat) (C : FST ((ι × Nat) × κ) σ K)
    (h : T1.composePruned T2 fuel = some (some C)) (n : Nat) (x z : List σ) :
    TPN C n x z = TPN (T1.compose T2) n x z := by
  simp only [TPN_eq, composePruned_TPk T1 T2 fuel C h]

/-- the general composition theorem for the machine the code returns: its accepting weight (paths of at most `N` arcs)
is the sum over the grades `(k1, k2)` of `Σ_y T1(x, y)[k1 arcs] · T2(y, z)[k2 arcs]` -/
theorem composePruned_graded (T1 : FST ι σ K) (T2 : FST κ σ K) (fuel : Nat) (C : FST ((ι × Nat) × κ) σ K)
    (h : T1.composePruned T2 fuel = some (some C)) (N : Nat) (x z : List σ) :
    TPN C N x z = ((List.range (N+1)).map fun k1 => ((List.range (N+1)).map fun k2 =>
      if k1 + k2 ≤ N then ((strsLe T1.outSyms k1).map fun y => TPk T1 k1 x y * TPk T2 k2 y z).sum
      else GPN (T1.compose T2) mohriGrade N k1 k2 x z).sum).sum := by
  rw [composePruned_TPN T1 T2 fuel C h, ← compose_GPN_total]
  apply congrArg
  apply List.map_congr_left
  intro k1 _
  apply congrArg
  apply List.map_congr_left
  intro k2 _
  split
  · rename_i hle
    exact compose_graded_TPk T1 T2 N k1 k2 hle k1 le_rfl x z
  · rfl

/-- second branch of `__matmul__` -/
theorem composePruned'_ne_assert (T1 : FST ι σ K) (T2 : FST κ σ K) (fuel : Nat) :
    T1.composePruned' T2 fuel ≠ some none := by
  intro h
  unfold FST.composePruned' at h
  rcases pcBind_some_none_E9 _ _ h with h1 | ⟨C1, _, h'⟩
  · obtain ⟨pq, _, hbad⟩ := prunedCompose_assert_sound id perm_id_E9 _ _ fuel h1
    rw [pcAssertOK_of_right _ _ (augment_true_inp_E9 T2) pq] at hbad
    exact absurd hbad (by simp)
  · rcases pcBind_some_none_E9 _ _ h' with h2 | ⟨C2, _, h''⟩
    · obtain ⟨pq, _, hbad⟩ := prunedCompose_assert_sound id perm_id_E9 _ _ fuel h2
      rw [pcAssertOK_of_left _ _ (augment_false_out_E9 T1) pq] at hbad
      exact absurd hbad (by simp)
    · simp at h''

theorem composePruned'_TPk (T1 : FST ι σ K) (T2 : FST κ σ K) (fuel : Nat) (C : FST (ι × (Nat × κ)) σ K)
    (h : T1.composePruned' T2 fuel = some (some C)) (k : Nat) (x z : List σ) :
    TPk C k x z = TPk (T1.compose' T2) k x z := by
  unfold FST.composePruned' at h
  obtain ⟨C1, h1, h'⟩ := pcBind_some_some_E9 _ _ _ h
  obtain ⟨C2, h2, h3⟩ := pcBind_some_some_E9 _ _ _ h'
  have hC : C = C2.unlift := by simpa using h3.symm
  subst hC
  unfold FST.compose' FST.composeR
  rw [unlift_TPk, unlift_TPk, prunedCompose_TPk id perm_id_E9 _ C1 fuel C2 h2]
  rw [composeRaw_TPk _ C1 (T1.augment false).outSyms
      (nodup_eraseDups _) (fun e he b hb => out_mem_outSyms _ e he b hb),
    composeRaw_TPk _ _ (T1.augment false).outSyms
      (nodup_eraseDups _) (fun e he b hb => out_mem_outSyms _ e he b hb)]
  apply congrArg
  apply List.map_congr_left
  intro y _
  rw [prunedCompose_TPk id perm_id_E9 _ _ fuel C1 h1]

/-- **termination of `__matmul__`** (first branch): `|states T1| · 3 · |states T2|` pops per product always suffice
(the ε filter has three states) -/
theorem composePruned_terminates (T1 : FST ι σ K) (T2 : FST κ σ K) (fuel : Nat)
    (hf : (T1.augment false).states.length * (epsilonFilter (K := K) T1.outLabels).states.length
      * max 1 (T2.augment true).states.length ≤ fuel) :
    T1.composePruned T2 fuel ≠ none := by
  intro h
  unfold FST.composePruned at h
  rcases pcBind_none_E9 _ _ h with h1 | ⟨C1, h1, h'⟩
  · refine prunedCompose_terminates id perm_id_E9 _ _ fuel ?_ h1
    unfold pcFuel
    exact (Nat.le_mul_of_pos_right _ (by omega)).trans hf
  · rcases pcBind_none_E9 _ _ h' with h2 | ⟨C2, _, h''⟩
    · refine prunedCompose_terminates id perm_id_E9 _ _ fuel ?_ h2
      have hacc := (prunedCompose_sub id perm_id_E9 _ _ fuel C1 h1).2
      have hle : C1.states.length ≤ (pcUniverse (T1.augment false) (epsilonFilter (K := K) T1.outLabels)).length :=
        List.Nodup.length_le_of_subset (nodup_eraseDups _)
          (fun a ha => pairAcc_mem_universe_E9 _ _ a (hacc a ha))
      rw [pcUniverse_length] at hle
      unfold pcFuel at hle ⊢
      exact ((Nat.mul_le_mul_right _ hle).trans (Nat.mul_le_mul_left _ (le_max_right _ _))).trans hf
    · simp at h''

end Matmul

/-! ### non-vacuity (weights in `ℕ`) -/
namespace PcAux

/-- states `0` (initial), `1` (final), `2` (initial with weight ZERO, leads to `3`), `3`, and `4` (not reachable) -/
def exP1 : FST Nat Nat Nat :=
  ⟨[(0, 1), (2, 0)], [(1, 1), (3, 1), (4, 1)],
   [⟨0, some 1, some 2, 1, 3⟩, ⟨1, some 1, some 3, 1, 2⟩, ⟨2, some 1, some 2, 3, 5⟩, ⟨4, some 1, none, 4, 7⟩,
    ⟨4, some 1, some 2, 1, 7⟩]⟩
/-- states `0` (initial and final), `1` (final, reached by the ε-input arc `0 -ε:9-> 1`), `5` (not reachable) -/
def exP2 : FST Nat Nat Nat :=
  ⟨[(0, 1)], [(0, 5), (1, 1), (5, 1)],
   [⟨0, some 2, some 7, 0, 2⟩, ⟨0, some 3, none, 0, 1⟩, ⟨0, none, some 9, 1, 1⟩, ⟨5, some 2, some 7, 0, 4⟩]⟩

-- the full product has 15 state pairs and 7 arcs; the code builds 2 pairs and 2 arcs
example : (exP1.composeRaw exP2).arcs.length = 7 ∧ pcFuel exP1 exP2 = 15 := by decide
example : (exP1.prunedCompose exP2 15).map (·.map (·.arcs))
    = some (some [⟨(0, 0), some 1, some 7, (1, 0), 6⟩, ⟨(1, 0), some 1, none, (1, 0), 2⟩]) := by decide
example : (exP1.prunedCompose exP2 15).map (·.map (·.start)) = some (some [((0, 0), 1)]) := by decide
example : (exP1.prunedCompose exP2 15).map (·.map (·.stop)) = some (some [((1, 0), 5)]) := by
  decide
-- two pops suffice, one does not
example : (exP1.prunedCompose exP2 2).isSome = true ∧ exP1.prunedCompose exP2 1 = none := by decide
-- same weights as the full product
example : (exP1.prunedCompose exP2 15).map (·.map fun C => TPN C 3 [1, 1] [7]) = some (some 60) ∧
    TPN (exP1.composeRaw exP2) 3 [1, 1] [7] = 60 := by decide
-- the pair `(4, 0)` would trip the assertion (`4 -1:ε-> 4` against `0 -ε:9-> 1`) but is not accessible: no error
example : pcAssertOK exP1 exP2 (4, 0) = false := by decide
/-- as `exP1`, but `4` is initial: now `(4, 0)` is accessible and Python raises `AssertionError` -/
def exP1' : FST Nat Nat Nat := ⟨(4, 1) :: exP1.start, exP1.stop, exP1.arcs⟩
example : (exP1'.prunedCompose exP2 15).map (·.isSome) = some false := by decide
-- a different worklist discipline (FIFO-like: reverse before every pop): other order of the arcs, same weights
example : (exP1'.prunedComposeWith List.reverse exP1 25).map (·.map (·.arcs.length))
    = (exP1'.prunedCompose exP1 25).map (·.map (·.arcs.length)) := by decide

-- `__matmul__` on the fly on the ε-laden pair `exU1`, `exU2` of `Proofs/Fst.lean`
example : ((exU1.composePruned exU2 18).map (·.map fun C => TPNtab C 3 [7] [1, 4]))
    = some (some (TPNtab (exU1.compose exU2) 3 [7] [1, 4])) := by decide +kernel

end PcAux

end Genlm
