import GenlmModel.Model.Cfg
import GenlmModel.Model.Mask
import GenlmModel.Proofs.Derives
import GenlmModel.Proofs.Mask
import Mathlib.Algebra.Ring.Nat
import Mathlib.Data.List.Basic

/-!
Property C01: the language of `add_EOS(G)` is the language of `G` with `eos` appended, in the
derivation-tree semantics `Derives`; consequences for the next-token mask `nextSet`.

All statements are proved for *any* grammar `G'` that has start symbol `S'` and the same *sets*
of terminals and rules as `addEOS G S' eos` (`AddEosLike`), then instantiated with
`addEOS G S' eos` itself (`V = eos :: G.V`) and with the grammar the driver builds
(`V = G.V ++ [eos]`).
-/
namespace Genlm
variable {σ K : Type}

/-! ### inversion and yield lemmas for `Derives` -/

theorem Derives.inv {G : CFG σ K} {s : σ} {x : List σ} (h : Derives G s x) :
    (s ∈ G.V ∧ x = [s]) ∨
      ∃ r, r ∈ G.rules ∧ r.head = s ∧ s ∉ G.V ∧ DerivesBody G r.body x := by
  cases h with
  | term h => exact .inl ⟨h, rfl⟩
  | rule h1 h2 h3 => exact .inr ⟨_, h1, rfl, h2, h3⟩

theorem DerivesBody.inv_cons {G : CFG σ K} {s : σ} {ss x : List σ}
    (h : DerivesBody G (s :: ss) x) :
    ∃ u v, x = u ++ v ∧ Derives G s u ∧ DerivesBody G ss v := by
  cases h with
  | cons h1 h2 => exact ⟨_, _, rfl, h1, h2⟩

theorem DerivesBody.inv_nil {G : CFG σ K} {x : List σ} (h : DerivesBody G [] x) : x = [] := by
  cases h; rfl

/-- a terminal derives only itself -/
theorem Derives.of_terminal {G : CFG σ K} {a : σ} {x : List σ} (ha : a ∈ G.V)
    (h : Derives G a x) : x = [a] := by
  rcases h.inv with ⟨_, rfl⟩ | ⟨_, _, _, hn, _⟩
  · rfl
  · exact absurd ha hn

/-- the yield of a derivation consists of terminals -/
theorem Derives.yield_terminals {G : CFG σ K} :
    (∀ s x, Derives G s x → ∀ a ∈ x, a ∈ G.V) ∧ (∀ β x, DerivesBody G β x → ∀ a ∈ x, a ∈ G.V) :=
  Derives.both
    (fun a ha b hb => by rw [List.mem_singleton.1 hb]; exact ha)
    (fun _ _ _ _ _ ih => ih)
    (fun a ha => by cases ha)
    (fun _ _ _ _ _ _ ih1 ih2 a ha => by
      rcases List.mem_append.1 ha with h | h
      · exact ih1 a h
      · exact ih2 a h)

/-! ### the theorem -/
section addEOS
variable [One K] {G G' : CFG σ K} {S' eos : σ}

/-- `G'` is `addEOS G S' eos` up to the order (and multiplicity) of terminals and rules -/
structure AddEosLike (G G' : CFG σ K) (S' eos : σ) : Prop where
  start : G'.S = S'
  terminals : ∀ a, a ∈ G'.V ↔ a = eos ∨ a ∈ G.V
  rules : ∀ r, r ∈ G'.rules ↔ r = ⟨1, S', [G.S, eos]⟩ ∨ r ∈ G.rules

theorem addEosLike_addEOS (G : CFG σ K) (S' eos : σ) : AddEosLike G (addEOS G S' eos) S' eos :=
  ⟨rfl, fun a => by simp [addEOS], fun r => by simp [addEOS]⟩

/-- the grammar built by the driver: `eos` is appended at the end of `V` -/
theorem addEosLike_driver (G : CFG σ K) (S' eos : σ) :
    AddEosLike G { addEOS G S' eos with V := G.V ++ [eos] } S' eos :=
  ⟨rfl, fun a => by simp [or_comm], fun r => by simp [addEOS]⟩

/-- the freshness side conditions of `add_EOS` -/
structure EosFresh (G : CFG σ K) (S' eos : σ) : Prop where
  start_ne : S' ≠ G.S
  eos_ne_start : eos ≠ G.S
  start_ne_eos : S' ≠ eos
  head : ∀ r ∈ G.rules, r.head ≠ S'
  body_start : ∀ r ∈ G.rules, S' ∉ r.body
  body_eos : ∀ r ∈ G.rules, eos ∉ r.body
  eos_notin : eos ∉ G.V
  start_notin : S' ∉ G.V

/-- old derivations survive: only `eos` became a terminal -/
theorem addEOS_lift (hL : AddEosLike G G' S' eos) (hF : EosFresh G S' eos) :
    (∀ s x, Derives G s x → s ≠ eos → Derives G' s x) ∧
    (∀ β x, DerivesBody G β x → eos ∉ β → DerivesBody G' β x) :=
  Derives.both
    (fun a ha _ => .term ((hL.terminals a).2 (.inr ha)))
    (fun r x hr hh _ ih hne => by
      refine .rule ((hL.rules r).2 (.inr hr)) ?_ (ih (hF.body_eos r hr))
      intro h
      rcases (hL.terminals _).1 h with h | h
      · exact hne h
      · exact hh h)
    (fun _ => .nil)
    (fun s ss u v _ _ ih1 ih2 hn => by
      have h1 : s ≠ eos := fun e => hn (by simp [e])
      have h2 : eos ∉ ss := fun e => hn (by simp [e])
      exact .cons (ih1 h1) (ih2 h2))

/-- nothing new below the old symbols -/
theorem addEOS_lower (hL : AddEosLike G G' S' eos) (hF : EosFresh G S' eos) :
    (∀ s x, Derives G' s x → s ≠ S' → s ≠ eos → Derives G s x) ∧
    (∀ β x, DerivesBody G' β x → S' ∉ β → eos ∉ β → DerivesBody G β x) :=
  Derives.both
    (fun a ha _ hne => by
      rcases (hL.terminals a).1 ha with h | h
      · exact absurd h hne
      · exact .term h)
    (fun r x hr hh _ ih hS _ => by
      rcases (hL.rules r).1 hr with rfl | hr'
      · exact absurd rfl hS
      · exact .rule hr' (fun h => hh ((hL.terminals _).2 (.inr h)))
          (ih (hF.body_start r hr') (hF.body_eos r hr')))
    (fun _ _ => .nil)
    (fun s ss u v _ _ ih1 ih2 hS he => by
      have h1 : s ≠ S' := fun e => hS (by simp [e])
      have h2 : S' ∉ ss := fun e => hS (by simp [e])
      have h3 : s ≠ eos := fun e => he (by simp [e])
      have h4 : eos ∉ ss := fun e => he (by simp [e])
      exact .cons (ih1 h1 h3) (ih2 h2 h4))

/-- **C01 (languages).**  The new start symbol derives exactly the strings `x ++ [eos]` with `x`
derived by the old start symbol. -/
theorem addEOS_derives_of_like (hL : AddEosLike G G' S' eos) (hF : EosFresh G S' eos)
    (z : List σ) : Derives G' S' z ↔ ∃ x, z = x ++ [eos] ∧ Derives G G.S x := by
  have heosV : eos ∈ G'.V := (hL.terminals eos).2 (.inl rfl)
  have hS'V : S' ∉ G'.V := by
    intro h
    rcases (hL.terminals S').1 h with h | h
    · exact hF.start_ne_eos h
    · exact hF.start_notin h
  constructor
  · intro h
    rcases h.inv with ⟨h, _⟩ | ⟨r, hr, hhead, _, hbody⟩
    · exact absurd h hS'V
    · rcases (hL.rules r).1 hr with rfl | hr'
      · obtain ⟨u, v, rfl, hu, hv⟩ := hbody.inv_cons
        obtain ⟨v1, v2, rfl, hv1, hv2⟩ := hv.inv_cons
        have e2 := hv2.inv_nil
        have e1 := hv1.of_terminal heosV
        subst e1 e2
        exact ⟨u, by simp, (addEOS_lower hL hF).1 _ _ hu hF.start_ne.symm hF.eos_ne_start.symm⟩
      · exact absurd hhead (hF.head r hr')
  · rintro ⟨x, rfl, hx⟩
    have h1 : Derives G' G.S x := (addEOS_lift hL hF).1 _ _ hx hF.eos_ne_start.symm
    have h2 : DerivesBody G' [G.S, eos] (x ++ ([eos] ++ [])) :=
      .cons h1 (.cons (.term heosV) .nil)
    have hr : (⟨1, S', [G.S, eos]⟩ : Rule σ K) ∈ G'.rules := (hL.rules _).2 (.inl rfl)
    exact Derives.rule (r := ⟨1, S', [G.S, eos]⟩) hr hS'V (by simpa using h2)

/-- for `addEOS G S' eos` as defined (`V = eos :: G.V`) -/
theorem addEOS_derives (hF : EosFresh G S' eos) (z : List σ) :
    Derives (addEOS G S' eos) S' z ↔ ∃ x, z = x ++ [eos] ∧ Derives G G.S x :=
  addEOS_derives_of_like (addEosLike_addEOS G S' eos) hF z

/-- for the grammar the driver builds (`V = G.V ++ [eos]`) -/
theorem addEOS_derives_driver (hF : EosFresh G S' eos) (z : List σ) :
    Derives { addEOS G S' eos with V := G.V ++ [eos] } S' z
      ↔ ∃ x, z = x ++ [eos] ∧ Derives G G.S x :=
  addEOS_derives_of_like (addEosLike_driver G S' eos) hF z

/-! ### consequences for the next-token mask -/

private theorem append_cons_eq_of_notMem {a : σ} :
    ∀ {c x y : List σ}, a ∉ c → a ∉ x → c ++ a :: y = x ++ [a] → c = x ∧ y = []
  | [], [], y, _, _, h => by simpa using h
  | [], b :: x, y, _, hx, h => by
    simp only [List.nil_append, List.cons_append, List.cons.injEq] at h
    exact absurd (by simp [h.1]) hx
  | b :: c, [], y, hc, _, h => by
    simp only [List.cons_append, List.nil_append, List.cons.injEq] at h
    exact absurd (by simp [h.1]) hc
  | b :: c, d :: x, y, hc, hx, h => by
    simp only [List.cons_append, List.cons.injEq] at h
    have := append_cons_eq_of_notMem (c := c) (x := x) (y := y)
      (fun e => hc (by simp [e])) (fun e => hx (by simp [e])) h.2
    exact ⟨by rw [h.1, this.1], this.2⟩

variable [DecidableEq σ]

/-- `eos` is allowed after `c` iff `c` is a complete sentence of `G` -/
theorem eos_mem_nextSet_of_like (hL : AddEosLike G G' S' eos) (hF : EosFresh G S' eos)
    (c : List σ) (hc : eos ∉ c) : eos ∈ nextSet G' c ↔ Derives G G.S c := by
  rw [nextSet_spec, hL.start]
  constructor
  · rintro ⟨_, y, hy⟩
    obtain ⟨x, e, hx⟩ := (addEOS_derives_of_like hL hF _).1 hy
    have hxe : eos ∉ x := fun h => hF.eos_notin (Derives.yield_terminals.1 _ _ hx eos h)
    obtain ⟨rfl, _⟩ := append_cons_eq_of_notMem hc hxe e
    exact hx
  · intro h
    exact ⟨(hL.terminals eos).2 (.inl rfl), [], (addEOS_derives_of_like hL hF _).2 ⟨c, rfl, h⟩⟩

/-- an ordinary token `t` is allowed after `c` iff `c ++ [t]` is a viable prefix of `G` -/
theorem mem_nextSet_of_like (hL : AddEosLike G G' S' eos) (hF : EosFresh G S' eos)
    (c : List σ) (t : σ) (ht : t ∈ G.V) :
    t ∈ nextSet G' c ↔ ∃ y, Derives G G.S (c ++ t :: y) := by
  rw [nextSet_spec, hL.start]
  have hte : t ≠ eos := fun e => hF.eos_notin (e ▸ ht)
  constructor
  · rintro ⟨_, y', hy⟩
    obtain ⟨x, e, hx⟩ := (addEOS_derives_of_like hL hF _).1 hy
    rcases List.eq_nil_or_concat y' with rfl | ⟨y, b, rfl⟩
    · have := congrArg List.getLast? e
      simp at this
      exact absurd this hte
    · have e' : (c ++ t :: y) ++ [b] = x ++ [eos] := by simpa using e
      have := List.append_inj' e' rfl
      exact ⟨y, this.1 ▸ hx⟩
  · rintro ⟨y, hy⟩
    refine ⟨(hL.terminals t).2 (.inr ht), y ++ [eos], ?_⟩
    exact (addEOS_derives_of_like hL hF _).2 ⟨c ++ t :: y, by simp, hy⟩

/-- the two corollaries for the grammar the driver builds -/
theorem eos_mem_nextSet (hF : EosFresh G S' eos) (c : List σ) (hc : eos ∉ c) :
    eos ∈ nextSet { addEOS G S' eos with V := G.V ++ [eos] } c ↔ Derives G G.S c :=
  eos_mem_nextSet_of_like (addEosLike_driver G S' eos) hF c hc

theorem mem_nextSet_addEOS (hF : EosFresh G S' eos) (c : List σ) (t : σ) (ht : t ∈ G.V) :
    t ∈ nextSet { addEOS G S' eos with V := G.V ++ [eos] } c
      ↔ ∃ y, Derives G G.S (c ++ t :: y) :=
  mem_nextSet_of_like (addEosLike_driver G S' eos) hF c t ht

/-- … and for `addEOS G S' eos` itself -/
theorem eos_mem_nextSet' (hF : EosFresh G S' eos) (c : List σ) (hc : eos ∉ c) :
    eos ∈ nextSet (addEOS G S' eos) c ↔ Derives G G.S c :=
  eos_mem_nextSet_of_like (addEosLike_addEOS G S' eos) hF c hc

theorem mem_nextSet_addEOS' (hF : EosFresh G S' eos) (c : List σ) (t : σ) (ht : t ∈ G.V) :
    t ∈ nextSet (addEOS G S' eos) c ↔ ∃ y, Derives G G.S (c ++ t :: y) :=
  mem_nextSet_of_like (addEosLike_addEOS G S' eos) hF c t ht

end addEOS

/-! ### non-vacuity -/
section examples
/-- `S → a S | ε` with `S = 0`, `a = 1`; fresh `S' = 2`, `eos = 3` -/
private def eosExG : CFG Nat Nat := { S := 0, V := [1], rules := [⟨2, 0, [1, 0]⟩, ⟨1, 0, []⟩] }

private theorem eosExFresh : EosFresh eosExG 2 3 :=
  ⟨by decide, by decide, by decide, by decide, by decide, by decide, by decide, by decide⟩

private theorem eosEx_a : Derives eosExG 0 [1] := by
  have h0 : Derives eosExG 0 [] :=
    Derives.rule (r := ⟨1, 0, []⟩) (by decide) (by decide) .nil
  have hb : DerivesBody eosExG [1, 0] ([1] ++ ([] ++ [])) :=
    .cons (.term (by decide)) (.cons h0 .nil)
  exact Derives.rule (r := ⟨2, 0, [1, 0]⟩) (by decide) (by decide) hb

/-- `a ▪` is derived by the new start symbol … -/
example : Derives (addEOS eosExG 2 3) 2 [1, 3] :=
  (addEOS_derives eosExFresh _).2 ⟨[1], rfl, eosEx_a⟩
/-- … `eos` may follow `a`, and so may `a` -/
example : 3 ∈ nextSet { addEOS eosExG 2 3 with V := eosExG.V ++ [3] } [1] :=
  (eos_mem_nextSet eosExFresh [1] (by decide)).2 eosEx_a
example : 1 ∈ nextSet { addEOS eosExG 2 3 with V := eosExG.V ++ [3] } [] :=
  (mem_nextSet_addEOS eosExFresh [] 1 (by decide)).2 ⟨[], eosEx_a⟩
/-- `eos ≠ G.S` cannot be dropped: with `eos = S = 0` and `S → ε`, the new start symbol derives
`[0, 0]`, which is not `x ++ [0]` for a sentence `x` of the old grammar (only `ε` is one). -/
example : Derives (addEOS (⟨0, [], [⟨1, 0, []⟩]⟩ : CFG Nat Nat) 2 0) 2 [0, 0] := by
  have hb : DerivesBody (addEOS (⟨0, [], [⟨1, 0, []⟩]⟩ : CFG Nat Nat) 2 0) [0, 0] ([0] ++ ([0] ++ [])) :=
    .cons (.term (by decide)) (.cons (.term (by decide)) .nil)
  exact Derives.rule (r := ⟨1, 2, [0, 0]⟩) (by decide) (by decide) hb
end examples

end Genlm
